#!/bin/bash
# probe_pair.sh <mutant-worktree-name> <PROP> [old-harness-bin]  -- apply a seeded change to /repo, run the check with the
# previous generator binary (if given) and with the current one, undo the change, summarise the replay files
M="$1"; P="$2"; OLD="${3:-}"
cd /verif
git -C /repo apply /tmp/mut/$M/mutation/patch.diff || exit 2
if [ -n "$OLD" ]; then
  old=$(VERIF_PROC_TIMEOUT=150 ESPADA_GEN_BIN=$OLD ./check $P quick 2>/dev/null | tail -1 | cut -c1-110)
  cp replays/${P}_quick.json /tmp/t1/${M}_old.json 2>/dev/null
  echo "#### $M OLD-GEN: $old"
fi
new=$(VERIF_PROC_TIMEOUT=150 ./check $P quick 2>/dev/null | tail -1 | cut -c1-110)
cp replays/${P}_quick.json /tmp/t1/${M}_new.json 2>/dev/null
git -C /repo checkout -- .
echo "#### $M NEW-GEN: $new"
python3 - "$M" <<'PY'
import json,sys,os
for tag in ('old','new'):
    f='/tmp/t1/%s_%s.json'%(sys.argv[1],tag)
    if not os.path.exists(f): continue
    d=json.load(open(f))
    print('  ',tag,d['kind'],'cases',len(d.get('cases',[])),'mv',len(d.get('model_vs_implementation',[])),[b.get('what') for b in (d.get('no_longer_checks') or d.get('also_broken') or [])][:3])
    for c in d.get('cases',[])[:2]: print('      ',c['op'][:90],'| impl:',c['impl'][:70],'| spec:',c['spec'][:70],'|',c.get('via','')[:50])
PY
