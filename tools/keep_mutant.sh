#!/bin/bash
# keep_mutant.sh <id> <worktree> <caught-by text>   -- store a confirmed seeded change under /verif/seeded/<id>/
set -e
ID="$1"; WT="$2"; shift 2
mkdir -p /verif/seeded/$ID
cp "$WT/mutation/patch.diff" "$WT/mutation/demo.rs" /verif/seeded/$ID/
python3 - "$ID" "$WT" "$@" <<'PY'
import json,sys
id_,wt=sys.argv[1],sys.argv[2]
m=json.load(open(wt+'/mutation/meta.json'))
m['confirmed_by_main']={'how':'tools/confirm_mutant.sh in the sub-agent\'s scratch worktree: cargo test --offline (1229 pass) and --examples (2 pass) with the change; tests/demo.rs fails with the change, passes with the change reverted (git apply -R)','existing_tests_pass':True,'demo_fails_with_change':True,'demo_passes_without':True}
m['checks_run']=sys.argv[3:]
json.dump(m,open('/verif/seeded/%s/meta.json'%id_,'w'),indent=1)
PY
