#!/bin/bash
# old_gen_probe.sh <patch> <PROP> : would the generator of the previous commit have exposed this seeded change?
# (requests from the OLD generator, answered by the current harness built against the mutated /repo, judged by the current oracle)
set -u
PATCH="$1"; P="$2"
cd /verif
git -C /repo apply "$PATCH" || exit 2
(cd harness && cargo build --offline --quiet --release 2>/dev/null)
/tmp/oldverif/harness/target/release/espada-harness gen $P quick 1 > /tmp/t1/old.ops
harness/target/release/espada-harness exec < /tmp/t1/old.ops > /tmp/t1/old.impl
lean/.lake/build/bin/espada_model < /tmp/t1/old.ops > /tmp/t1/old.model
git -C /repo checkout -- .
paste /tmp/t1/old.impl /tmp/t1/old.model | python3 -c "
import sys,importlib.machinery,importlib.util
loader=importlib.machinery.SourceFileLoader('chk','/verif/check'); spec=importlib.util.spec_from_loader('chk', loader); chk=importlib.util.module_from_spec(spec); loader.exec_module(chk)
sm=mm=n=0
for l in sys.stdin:
    p=l.rstrip('\n').split('\t'); n+=1
    impl,model=p[0],p[1]; sp=p[2] if len(p)>2 else ''
    if sp and not chk.spec_ok(sp,impl,'$P'): sm+=1
    elif impl!=model: mm+=1
print('old generator: requests',n,'oracle failures',sm,'model disagreements',mm)
"
