#!/bin/bash
# confirm_mutant.sh <worktree>   -- re-verify a sub-agent's mutation inside its scratch worktree:
#   existing tests pass with the change; the demo fails with it and passes without it
set -u
WT="$1"
cd "$WT" || exit 2
export CARGO_NET_OFFLINE=true
echo "== patch"; git diff --stat -- src examples | tail -3
echo "== existing tests with the change"
cargo test --offline 2>&1 | grep -E "^test result|FAILED|panicked" | head -5
cargo test --offline --examples 2>&1 | grep -E "^test result|FAILED" | head -3
mkdir -p tests; cp mutation/demo.rs tests/demo.rs
echo "== demo WITH the change (must fail)"
cargo test --offline --test demo 2>&1 | grep -E "^test result|^test .*(ok|FAILED)" | head -8
git diff -- src examples > /tmp/confirm_$$.patch; git apply -R /tmp/confirm_$$.patch
echo "== demo WITHOUT the change (must pass)"
cargo test --offline --test demo 2>&1 | grep -E "^test result|^test .*(ok|FAILED)" | head -8
git apply /tmp/confirm_$$.patch; rm -f /tmp/confirm_$$.patch
rm -f tests/demo.rs; rmdir tests 2>/dev/null
