#!/bin/bash
# try_mutant.sh <patch.diff> <PROP>...  -- apply a seeded change to /repo, run the quick checks, undo it straight afterwards
set -u
PATCH="$1"; shift
cd /verif
git -C /repo apply "$PATCH" || { echo "patch does not apply"; exit 2; }
for P in "$@"; do
  /usr/bin/time -f "%es" ./check "$P" quick 2>&1 | grep -E "^(VIOLATION|OK|KNOWN)|s$" | tr '\n' ' '; echo
done
git -C /repo checkout -- .
