#!/bin/bash
# try_refactor.sh <diff> <PROP>...  -- apply a behaviour-preserving change to /repo, run the quick checks, undo it.
# Every check must stay green: an alarm here is a false alarm of the machinery.
D="$1"; shift
cd /verif
git -C /repo apply "$D" || { echo "cannot apply $D"; exit 2; }
for P in "$@"; do
  r=$(./check $P quick 2>/dev/null | tail -1 | cut -c1-150)
  echo "  $P :: $r"
  if ! echo "$r" | grep -q "^OK"; then
    python3 - "$P" <<'PY'
import json,sys
d=json.load(open('/verif/replays/%s_quick.json'%sys.argv[1]))
print('     kind:',d['kind'],'| broken:',[(b.get('kind'),b.get('what'),(b.get('detail') or '')[:200]) for b in (d.get('no_longer_checks') or d.get('also_broken') or [])][:4] if isinstance((d.get('no_longer_checks') or d.get('also_broken') or [None])[0],dict) else (d.get('no_longer_checks') or d.get('also_broken')))
for c in (d.get('cases') or d.get('model_vs_implementation') or [])[:2]: print('     ',c['op'][:100],'| impl:',c['impl'][:80],'| model:',c.get('model','')[:80],'| spec:',c.get('spec','')[:60])
PY
  fi
  n=$(python3 -c "
import json; e=json.load(open('/verif/evidence/$P.json')); t=(e.get('coverage') or e).get('translator',{}) if isinstance(e,dict) else {}; 
import sys
def find(o):
    if isinstance(o,dict):
        if 'read_by_tabulation' in o: return o['read_by_tabulation']
        for v in o.values():
            r=find(v)
            if r: return r
    return None
r=find(e); print({k:(v['requests'],v['differences']) for k,v in r.items()} if r else '')")
  [ -n "$n" ] && echo "     read by tabulation: $n"
done
git -C /repo checkout -- .
