#!/bin/bash
# regress_mutants.sh <seeded-id>:<PROP> ...   -- re-run the quick check of PROP against stored seeded changes; each must be reported
cd /verif
for X in "$@"; do
  ID="${X%%:*}"; P="${X##*:}"
  git -C /repo apply /verif/seeded/$ID/patch.diff || { echo "$ID: patch does not apply"; continue; }
  r=$(VERIF_PROC_TIMEOUT=120 ./check $P quick 2>/dev/null | tail -1 | cut -c1-120)
  git -C /repo checkout -- .
  k=$(python3 -c "
import json; d=json.load(open('/verif/replays/${P}_quick.json')); print(d['kind'], len(d.get('cases',[])))" 2>/dev/null)
  echo "$ID [$P] :: $r :: $k"
done
