#!/usr/bin/env python3
"""(re)writes /verif/MANIFEST.json from checklib/props.py + checklib/claims.py"""
import json, os, sys
sys.path.insert(0, os.path.dirname(os.path.abspath(__file__)))
from props import PROPS
from claims import CLAIMS, NOT_CLAIMED

ALL = ['C%02d' % i for i in range(1, 18)]
checks = []
for pid in ALL:
    if pid not in CLAIMS:
        continue
    assert pid in PROPS, pid
    c = CLAIMS[pid]
    checks.append({
        'property_id': pid, 'quick_cmd': './check %s quick' % pid, 'thorough_cmd': './check %s thorough' % pid,
        'evidence_file': 'evidence/%s.json' % pid, 'replay_cmd_template': './check %s --replay {path}' % pid,
        'engine': 'lean4-proof',
        'level_claimed': {'category': 'proof', 'text': c['text'], 'design_ref': c['design_ref']},
        'level_note': c['note'],
        'technique': c.get('technique', 'Lean 4 theorem over a source-regenerated model + differential correspondence'),
    })
man = {
    'version': 1, 'setup_cmd': './setup.sh',
    'hooks': {'guard': 'espada_verif',
              'enable': 'RUSTFLAGS="--cfg espada_verif" (passed when the harness builds /repo as a path dependency); no hook is currently needed: every observable is public API',
              'baseline_off_cmd': 'cd /repo && cargo test --workspace --no-fail-fast --offline', 'source_commits': [], 'add_only': True},
    'engines': [{'name': 'lean4-proof', 'path': 'lean/', 'serves_properties': [c['property_id'] for c in checks],
                 'kind_free_text': 'Lean 4 theorems about an executable model; model data regenerated from the Rust source by translate/extract.py; control flow tied by a differential correspondence (harness/ vs lean/Driver)'}],
    'checks': checks,
    'notes': 'All seventeen properties are claimed (Lean 4 proof + translator / correspondence tie); C08 and C15 with an explicitly partial scope stated in their text. See DESIGN.md section 0.',
    'not_applicable': [{'property_id': p, 'reason': NOT_CLAIMED.get(p, 'not yet claimed: model/theorems for this property are still being built (DESIGN.md §6); to be decided by the same Lean-proof technique')}
                       for p in ALL if p not in CLAIMS],
}
json.dump(man, open(os.path.join(os.path.dirname(os.path.abspath(__file__)), '..', 'MANIFEST.json'), 'w'), indent=1)
print('claimed:', [c['property_id'] for c in checks])
