"""what MANIFEST.json claims per property (text of the level, trusted base)"""

CLAIMS = {
    'C01': {
        'text': 'Theorem C01_eval: for every list of seven distinct valid cards, in any order, the model of MadeHand::from over the tables regenerated from the '
                'source returns the standard class of the best of the 21 five-card hands; C01_compare: smaller index <=> stronger best hand under the rule book, '
                'equal index <=> tie. Proof = kernel evaluation (decide +kernel) of every reachable slot of both lookup tables (49,205 + 4,719) against the '
                'specification, lifted by general lemmas (permutation invariance, flush/no-flush factorisation), plus the proof that the closed-form class '
                'numbering is the order rank of the rule-book strength over all 7,462 shapes. No input is left to sampling.',
        'note': 'Lean kernel + propext/Classical.choice/Quot.sound; translator (tables, dp_ref rows, flush weights, walk order, threshold read from the source each run); '
                'the three small control-flow functions of made_hand.rs are hand-modelled and tied by the correspondence (every reachable slot + stratified + all 5040 orders of samples).',
        'design_ref': 'DESIGN.md §6 C01',
    },
    'C02': {
        'text': 'Theorem C02_refines: for every three-card flop, every list of player ranges (any sizes, empty allowed) and every scope, draining the iterator model '
                'returns exactly the showdowns of the legal deals of the list comprehension Spec.deals, position by position, each once, nothing else; C02_payload: '
                'board = flop ++ [turn, river], combos in player order, probability = left-to-right product. Proved by induction over positions x odometer (no bound on range sizes).',
        'note': 'Lean kernel + standard axioms; hand-written model of the iterator (Model/Iter.lean) tied by the correspondence with the hash-map iteration order as an input; '
                'f32 product compared bit for bit; HashSet/HashMap assumed to be finite sets/maps.',
        'design_ref': 'DESIGN.md §6 C02',
    },
    'C03': {
        'text': 'Theorems C03_none_iff / C03_some / C03_winner_iff: for every board of five distinct cards and every player list (any length), the model of Showdown::new '
                'returns None exactly on a board collision; otherwise players in input order, each with the evaluation of their own seven cards (= class of their best hand, by C01), '
                'flagged exactly when no other index is smaller; winner_len = number of flags >= 1. Proved by a loop invariant over the single pass.',
        'note': 'Lean kernel + standard axioms; hand-written model of showdown.rs tied by the correspondence (tie-heavy boards, collisions at every position); depends on C01.',
        'design_ref': 'DESIGN.md §6 C03',
    },
    'C07': {
        'text': 'Theorem C07: for seven distinct cards the category given by the interval arms read from the source equals the rule-book category of the strongest '
                'five-card hand (C07_intervals proved symbolically for all indexes 1..7462; combined with C01 and the numbering theorem).',
        'note': 'Lean kernel + standard axioms; interval arms regenerated from the source each run; hand_type() end-to-end compared through its Debug name.',
        'design_ref': 'DESIGN.md §6 C07',
    },
    'C13': {
        'text': 'All statements are finite and over data regenerated from the Rust source; each is a kernel evaluation (decide) lifted to the quantified form, or a '
                'structural proof (two-character texts). The correspondence is exhaustive over the same finite domains.',
        'note': 'Lean kernel; translator; hand-written semantics of match / if-chain / slice in Model/Card.lean validated by exhaustive correspondence.',
        'design_ref': 'DESIGN.md §6 C13',
    },
    'C14': {
        'text': 'General proof (strict total order on cards => canonical form, text round trip) over the model whose comparison operator and operand order are read '
                'from the source; exhaustive correspondence over all 52x51 ordered pairs including FxHasher hash equality.',
        'note': 'Lean kernel; translator; derived Eq/Hash being functions of the stored fields.',
        'design_ref': 'DESIGN.md §6 C14',
    },
}

NOT_CLAIMED = {}
