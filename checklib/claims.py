"""what MANIFEST.json claims per property (text of the level, trusted base)"""

CLAIMS = {
    'C01': {
        'text': 'Theorem C01_eval: for every list of seven distinct valid cards, in any order, the model of MadeHand::from over the tables regenerated from the '
                'source returns the standard class of the best of the 21 five-card hands; C01_compare: smaller index <=> stronger best hand under the rule book, '
                'equal index <=> tie. Proof = kernel evaluation (decide +kernel) of every reachable slot of both lookup tables (49,205 + 4,719) against the '
                'specification, lifted by general lemmas (permutation invariance, flush/no-flush factorisation), plus the proof that the closed-form class '
                'numbering is the order rank of the rule-book strength over all 7,462 shapes. No input is left to sampling. C01_ops: ==, <, cmp on MadeHand (derive list read from the source) decide exactly rule-book wins and ties; rainbow/flush/seven_no_overflow: every u16 accumulator of the two hashes stays below 65536 (the model\'s unbounded Nat is faithful).',
        'note': 'Lean kernel + propext/Classical.choice/Quot.sound; translator (tables, dp_ref rows, flush weights, walk order, threshold read from the source each run); '
                'the three small control-flow functions of made_hand.rs are hand-modelled and tied by the correspondence (every reachable slot + stratified + all 5040 orders of samples).',
        'design_ref': 'DESIGN.md §6 C01',
    },
    'C02': {
        'text': 'Theorem C02_refines: for every three-card flop, every list of player ranges (any sizes, empty allowed) and every valid scope (from <= to, both positions of the 49-card deck or the terminal (48,49)), draining the iterator model '
                'returns exactly the showdowns of the legal deals of the list comprehension Spec.deals, position by position, each once, nothing else; C02_payload: '
                'board = flop ++ [turn, river], combos in player order, probability = left-to-right product. Proved by induction over positions x odometer (no bound on range sizes). C02_exactly_once / deals_mem_iff / deals_nodup / unordered_once / deck49_spec: the enumeration holds a showdown for every unordered turn/river pair of the 49 unseen cards (in ace-to-deuce, s-h-d-c order) and every choice of one combo per player with all 5+2n cards distinct, each exactly once, and nothing else.',
        'note': 'Lean kernel + standard axioms; hand-written model of the iterator (Model/Iter.lean) tied by the correspondence with the hash-map iteration order as an input; '
                'f32 product compared bit for bit; HashSet/HashMap assumed to be finite sets/maps.',
        'design_ref': 'DESIGN.md §6 C02',
    },
    'C03': {
        'text': 'Theorems C03_none_iff / C03_some / C03_winner_iff: for every board of five distinct cards and every player list (any length), the model of Showdown::new '
                'returns None exactly on a board collision; otherwise players in input order, each with the evaluation of their own seven cards (= class of their best hand, by C01), '
                'flagged exactly when no other index is smaller; winner_len = number of flags for tables of at most 255 players (the u8 counter; with all cards distinct at most 23 players exist, C03_winner_len), and at least one player of a non-empty table is flagged. Proved by a loop invariant over the single pass. C03_rules: flagged iff no player\'s best five-card hand is stronger by rule-book strength; C03_winner_len: with all cards distinct (hence at most 23 players, by pigeonhole) winner_len succeeds in debug and release and equals the number of flags >= 1; C03_cards_hand: cards() (board first) evaluates to the same hand.',
        'note': 'Lean kernel + standard axioms; hand-written model of showdown.rs tied by the correspondence (tie-heavy boards, collisions at every position); depends on C01.',
        'design_ref': 'DESIGN.md §6 C03',
    },
    'C04': {
        'text': 'C04_scoped (= the refinement theorem at an arbitrary scope [a, b)): the scoped iterator yields exactly the legal deals at positions a <= p < b in order; '
                'C04_exhausted: any number of further next() calls return None and leave the state unchanged; C04_chain / deals_append: the deals of consecutive scopes '
                'concatenate to the deals of the enclosing scope (every chain from (0,1) to (48,49) reproduces the full run); C04_rescope: the last scope() call wins; '
                'C04_default_scope: the unscoped evaluator is the (0,1)-(48,49) one. C04_scope_ok / C04_rescope_last / C04_scope_many: scope() itself never traps on a valid scope (debug and release) and the last call wins; C04_scoped_sublist: full = pre ++ scoped ++ post on the model\'s drains; C04_chain_model / C04_chain_exactly_once: the drains of consecutively scoped evaluators flatten to the whole drain, every showdown in exactly one piece.',
        'note': 'as C02 (same model, same tie); scope defaults and the river rollover literal are read from the source each run.',
        'design_ref': 'DESIGN.md §6 C04',
    },
    'C08': {
        'text': 'C08_total: for every proper input (ranges of any size, empty allowed) and scope the drain returns normally - no panic arm (index out of range, unwrap) is '
                'reachable and the loop fuel is never exhausted; C08_empty: an empty range makes the enumeration empty; C08_yield_bound; C08_no_recursion: the source of fn next '
                'contains no self call (read by the translator each run). PARTIAL: native stack use and allocator failure are runtime facts outside any Lean model; they are '
                'observed by child-process drains on a 2 MiB thread stack in the debug and the release build on the generated worst cases. C08_u8 / C08_advance_arith: on every reachable state (one step at a time, skip loops included) turn <= 48, river <= 49, turn < river and every counter is below its range\'s length, so no u8/usize arithmetic of the crate overflows in either profile; C08_steps: the exact number of loop iterations. C08_total_le / C02_refines_le: the same for ranges that hold degenerate pairs (CardPair::new(c, c), reachable through collect()): such a combo is skipped, never a panic (C02_refines_le / C08_total_le: the drain equals the deals of the specification, in which a degenerate choice is illegal); C08_degenerate_skipped: a range made only of degenerate pairs yields the empty enumeration by skipping to the scope end.',
        'note': 'as C02; plus: the model counters are unbounded naturals like the usize counters of the repaired code (u8 arithmetic remains only in positions < 256); '
                'the 2 MiB stack claim is witnessed, not proved.',
        'design_ref': 'DESIGN.md §6 C08',
    },
    'C15': {
        'text': 'C15_interleave: for any family of iterators and any schedule of next() calls, what instance i returns is exactly what it returns alone (frame theorem over the '
                'model, whose next is a function of its own state); C15_no_shared_state: the translator finds no static / thread_local / interior-mutable / unsafe item in the '
                'crate on this run. PARTIAL: OS thread schedules are not modelled; Send + Sync is asserted at compile time in the harness; interleaved and threaded runs of the real '
                'crate are compared with solo runs. C15_order_insensitive: the one further input of the model, each range\'s map iteration order, only permutes the showdowns within each board position.',
        'note': 'Lean kernel; translator audit; Rust type system; dependencies\' internals outside the model.',
        'design_ref': 'DESIGN.md §6 C15',
    },
    'C12': {
        'text': 'C12_report: for every range (any insert history, any keys) with weights in the domain, a rank pair is reported with weight w iff it is canonical and all of its '
                '6/4/12 combos are present with that weight; C12_orphans: the leftover view is exactly the range minus the combos of reported rank pairs; C12_disjoint + C12_cover: '
                'every combo of the range lies in exactly one of the two views with its weight. General proofs (closed form of rank_pairs, probe soundness, classification of combos). C12_*_contents: the same statements needing only that == is equality on the weights looked up (any such domain, e.g. weights above 1), with hypotheses on the contents rather than the insert history; rankPairs_agree / orphans_agree: the oracle\'s specification views equal the model\'s views.',
        'note': 'Lean kernel + standard axioms; hand-written model of rank_pairs / orphan_card_pairs tied by the correspondence (all 3^6 / 3^4 patterns per rank pair, offsuit patterns, whole ranges); '
                'assumption: on the weights looked up f32 == is equality (true for every f32 except NaN; a range cannot hold -0.0 since D11); for arbitrary weights incl. NaN, infinities and weights outside [0,1] the two views are compared with the specification by the range_views correspondence only; combo lists of a rank pair are read from the source each run.',
        'design_ref': 'DESIGN.md §6 C12',
    },
    'C17': {
        'text': 'C17_canonical: two construction histories with the same lookup print identically (and have the same rank-pair and leftover views) - the formatter reads the range '
                'only through lookup; C17_runs: for every row and every table the run-length state machine emits exactly one token per maximal run computed by Spec.runs (X+ iff the run '
                'starts at the top with length >= 2, single iff length 1, X-Y otherwise); C17_runs_maximal: the runs are disjoint, cover every present entry, are weight-constant, and two '
                'touching runs carry different weights (no two tokens could be merged); C17_order: pocket row, then per high card suited then offsuit row, then leftovers. C17_text (under: == is equality on the weights looked up): what the text is (pocket row, per high card the suited and the offsuit row, leftovers; each row the run tokens of the true rank-pair table); C17_no_mergeable_neighbours: consecutive tokens of a row are separated by an unreported rank pair or carry different weights - with no reflexivity assumed (a NaN-weighted rank pair is never reported).',
        'note': 'Lean kernel + standard axioms; hand-written model of Display for HandRange tied by the correspondence (eight construction histories incl. parse vs collect vs unsized iterators; exact text compared '
                'incl. f32 text); that the real formatter never iterates the hash map for output order is what the correspondence checks.',
        'design_ref': 'DESIGN.md §6 C17',
    },
    'C16': {
        'text': 'C16_tiles: for EVERY worker count n >= 1 and EVERY behaviour of the f32 pipeline (an arbitrary function F, universally quantified), the scope list is computed without '
                'overflow, has n scopes, starts at (0,1), ends at (48,49), is chained, never steps backwards and names only valid positions; C16_sum: the legal deals of the scopes, '
                'scope after scope, are exactly the deals of the full enumeration (with C04_scoped each worker yields exactly its piece). Nothing about IEEE arithmetic is assumed. C16_counts / C16_tally / C16_model_counts: every integer counter accumulated per scope adds up to the counter of the full run (also on the model iterator\'s drains); n = 0 enumerates nothing (C16_zero).',
        'note': 'Lean kernel + standard axioms; the integer part of calculate_scopes is hand-modelled and tied by the correspondence for every n in 1..4096 (quick) with the native Float32 pipeline, '
                'plus end-to-end sums on the real evaluator.',
        'design_ref': 'DESIGN.md §6 C16',
    },
    'C09': {
        'text': 'C09_parse_total: for EVERY byte string (a superset of valid UTF-8) none of the six parsers of the model panics - every byte-offset slice is taken only after a recogniser '
                'has pinned the bytes before it to ASCII; C09_use_total: every token that parses satisfies the order conditions its expansion relies on (TokenOk), so expansion and printing '
                'cannot panic; C09_range_views_total: rank_pairs / orphan_card_pairs / Display never panic for any range; C09_range_total: a parsed range can be evaluated on any flop beside '
                'any other proper ranges without panic (via C08_total); C09_regex_semantics: each of the seven pattern literals read from the source on this run lies in the modelled regex subset and the '
                'model\'s recogniser for that branch accepts exactly the byte strings the pattern matches (derivative semantics, Model/Regex.lean; literal vs. intended pattern decided by a proved-sound equivalence checker in the kernel). C09_pair_total: a range holding a pair read by CardPair::from_str (which accepts two equal cards) beside parsed ranges is evaluated without panic.',
        'note': 'Lean kernel + standard axioms; hand-written model of the parsers with Rust\'s char-boundary slicing semantics (Model/Basic.lean) tied by the correspondence (all strings of length <= 3 over a '
                '24-symbol alphabet incl. multi-byte characters, all seven shapes with arbitrary ranks, multi-byte splices, over-long input); regex crate modelled (not verified) by a derivative semantics of the subset used.',
        'design_ref': 'DESIGN.md §6 C09',
    },
    'C10': {
        'text': 'C10_combo: whatever string is parsed as a range, every entry is a combo of two different valid cards; C10_weight(_token): every weight is in the weight domain given only that texts '
                'of the weight grammar parse into it, that 1 is in it and that the empty text is not a number; C10_grammar: the grammar admits exactly 0, 0.d+, 1, 1.0+; C10_prob: products from 1 stay in '
                'any domain closed under the product; C10_cards: no enumerated showdown holds a card twice (C02_payload). C10_showdown: every showdown the model iterator emits on parsed ranges (any flop, any valid scope) has a probability in the domain and no card twice.',
        'note': 'Lean kernel + standard axioms; assumptions about f32 (named hypotheses, validated by the harness): f32::from_str maps decimals of the grammar into [0,1], "" is not a number, binary32 '
                'multiplication maps [0,1]x[0,1] into [0,1]; model tied by the correspondence (2,222 weight literals, all 52x52 card-pair tokens, probabilities of enumerated showdowns).',
        'design_ref': 'DESIGN.md §6 C10',
    },
    'C11': {
        'text': 'C11_suits: for every suit permutation, every three-card flop and every list of ranges, every integer tally (player p flagged in a showdown with exactly k winners) of the relabelled input '
                'equals that of the input; C11_players: exchanging two neighbouring players exchanges their tallies (neighbour exchanges generate all reorderings); C11_pot: in every deal the flagged players '
                'number k >= 1, so k shares of 1/k make one pot; C11_model_flags: the iterator model\'s showdown of a legal deal carries exactly the specification\'s hands and winner flags (via C02, C03, C01). '
                'Proved over the specification\'s deals by a permutation-invariant sum over unordered turn/river pairs. C11_suits_model / tally_perm_entries / tally_swap_cards: invariance for the relabelled input as the crate builds it (pairs re-normalised, map order arbitrary); C11_players_perm: every reordering (neighbour swaps generate all permutations, perm_swaps); C11_drain_tally / C11_suits_end_to_end / C11_players_end_to_end: the same for tallies counted on the model iterator\'s output; C11_pot_sd: the winners\' shares 1/k add up to exactly 1 (over Q).',
        'note': 'as C02/C03/C01 (same models and ties); the correspondence compares tallies of the real crate across all 24 suit permutations and player orders and with the model\'s tallies.',
        'design_ref': 'DESIGN.md §6 C11',
    },
    'C05': {
        'text': 'C05_token: every well-formed token (all shapes: RR, RR+, RR-SS, XYs/o in either order, XYs/o+, XYs/o-XZs/o, two different cards in either order), with or without a weight of the grammar, '
                'parses and expands to exactly the list of combos Spec.denote gives (standard notation, written independently of the crate), each once, each with the token\'s weight (1 when omitted); '
                'C05_list: for any list of such tokens joined by commas with spaces anywhere, lookup of every combo is the weight of the LAST token denoting it; C05_empty: the empty / all-space string is the empty range. C05_notation_unambiguous: well-formed tokens with equal text are equal (the standard meaning of a text is well defined); C05_oracle_reader_complete: the reader by which the correspondence oracle attaches Spec.denote to a request recognises every well-formed token. C05_token_weight / C05_list_weight: the weight clause without a defaulting read, under the named hypothesis that every text of the weight grammar is a number (checked each run on a seeded sample of 10^6 grammar texts, not exhaustively).',
        'note': 'Lean kernel + standard axioms; assumption: "" is not a number for f32::from_str (named hypothesis); hand-written model of the parser tied by the correspondence (all 3,809 well-formed shapes x weight literals, '
                'expansion order compared with the model, expansion set with Spec.denote); regex crate modelled by a derivative semantics of the pattern subset used; the recognisers of the parser model are proved equal to that semantics of the literals read from the source on every run (C09_regex_semantics).',
        'design_ref': 'DESIGN.md §6 C05',
    },
    'C06': {
        'text': 'C06_range: for every range whose combos are pairs of distinct cards with weights in the domain, showRange succeeds and parseRange of that text yields a range with the same lookup for '
                'every combo - however the combos group into complete rank pairs, runs of adjacent rank pairs with equal weight, or leftovers; C06_token: the text of every token satisfying the parser\'s '
                'own well-formedness conditions (every emitted and every parsed token) parses back to the identical token. Proved from the run/cover theorems (C17, C12) and the closed forms of the seven parser branches. C06_range_contents: hypotheses on the contents only (overwritten inserts are irrelevant); C06_collect: a range collected entry by entry through an abstract per-weight normalisation that maps the unit interval into the domain satisfies the hypothesis (for canonical combos); that the FromIterator of the crate, as repaired by D11, is this collection with -0.0 stored as +0.0 is hand-modelled in the driver and tied by the range_ops / canon correspondence, not read by the translator.',
        'note': 'Lean kernel + standard axioms; the f32 text assumptions are the named hypotheses of WTextOk (== is equality on the domain, a weight other than 1 prints in the weight grammar, print-then-parse is the '
                'identity, "" is not a number) - validated by the harness, not proved; domain = bit patterns 0x00000000..=0x3F800000 (-0.0, NaN excluded); model tied by the correspondence (the crate\'s own reparse == original on every generated range).',
        'design_ref': 'DESIGN.md §6 C06',
    },
    'C07': {
        'text': 'Theorem C07: for seven distinct cards the category given by the interval arms read from the source equals the rule-book category of the strongest '
                'five-card hand (C07_intervals proved symbolically for all indexes 1..7462; combined with C01 and the numbering theorem).',
        'note': 'Lean kernel + standard axioms; interval arms regenerated from the source each run; hand_type() end-to-end compared through its Debug name.',
        'design_ref': 'DESIGN.md §6 C07',
    },
    'C13': {
        'text': 'All statements are finite and over data regenerated from the Rust source; each is a kernel evaluation (decide) lifted to the quantified form, or a '
                'structural proof (two-character texts). The correspondence is exhaustive over the same finite domains. rank_range_total / suit_range_total: every ordered endpoint pair gives the contiguous run or the slice panic (reversed endpoints included); card_text_spec / parse_card_spec: all 52 texts are the standard ones and among all two-byte texts exactly they are accepted (parse_card_spec_all; other lengths are rejected by short_text_rejected / the length test), against an independent vocabulary (Spec/Cards).',
        'note': 'Lean kernel; translator; hand-written semantics of match / if-chain / slice in Model/Card.lean validated by exhaustive correspondence.',
        'design_ref': 'DESIGN.md §6 C13',
    },
    'C14': {
        'text': 'General proof (strict total order on cards => canonical form, text round trip) over the model whose comparison operator and operand order are read '
                'from the source; exhaustive correspondence over all 52x51 ordered pairs including FxHasher hash equality. range_holds_each_combo_once: inserting a combo under either card order leaves exactly one entry for it, with the later weight.',
        'note': 'Lean kernel; translator; derived Eq/Hash being functions of the stored fields.',
        'design_ref': 'DESIGN.md §6 C14',
    },
}

NOT_CLAIMED = {}
