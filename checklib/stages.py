"""extra check stages beyond the line-protocol correspondence"""
import os, subprocess, re, json, time


def c08_children(cx, man, chk):
    """drain every C08 request in a child process on a 2 MiB stack, in the debug AND the release build;
    the model's count (from the in-process correspondence stream of the same requests) is the expectation."""
    ops = os.path.join(cx.work, 'ops_%s.txt' % cx.tier)
    model = ops + '.model'
    if not (os.path.exists(ops) and os.path.exists(model)):
        cx.broken.append(('harness', 'C08 child stage: no request stream', ''))
        return
    reqs = [l.rstrip('\n') for l in open(ops)]
    # the model answers are aligned with the (re-ordered) requests; only the count matters here
    mans = [l.rstrip('\n').split('\t')[0] for l in open(model)]
    runs = []
    limit = 600 if cx.tier == 'thorough' else 60      # clean-tree maximum is under 4 s per request
    for prof in ('debug', 'release'):
        timeouts = 0
        for i, op in enumerate(reqs):
            if timeouts >= 3:
                break                                      # three non-terminating requests are replay enough
            t0 = time.time()
            try:
                p = subprocess.run([chk.harness_bin(prof), 'drain2m'], input=(op + '\n').encode(), stdout=subprocess.PIPE, stderr=subprocess.PIPE,
                                   timeout=limit)
            except subprocess.TimeoutExpired:
                timeouts += 1
                runs.append({'profile': prof, 'request': i, 'answer': 'timeout', 'expected': None, 'status': 'did not terminate', 'seconds': round(time.time() - t0, 2)})
                cx.failing.append({'op': op, 'impl': 'timeout', 'spec': '=terminates', 'model': mans[i] if i < len(mans) else '', 'profile': prof,
                                   'kind': 'implementation-vs-specification', 'via': 'drain2m child process: did not terminate within the time limit'})
                continue
            out = p.stdout.decode('utf-8', 'replace').strip().splitlines()
            ans = out[-1] if out else ''
            m = re.match(r'ok n=(\d+)', mans[i]) if i < len(mans) else None
            expect = 'ok n=%s' % m.group(1) if m else None
            status = 'ok'
            if p.returncode != 0 or not ans:
                status = 'killed rc=%d %s' % (p.returncode, p.stderr.decode('utf-8', 'replace').strip()[-80:])
            elif ans != expect:
                status = 'differs'
            runs.append({'profile': prof, 'request': i, 'answer': ans, 'expected': expect, 'status': status, 'seconds': round(time.time() - t0, 2)})
            if status != 'ok':
                # the specification says: returns normally with the model's count, in both profiles, on a 2 MiB stack
                cx.failing.append({'op': op, 'impl': ans or status, 'spec': '=' + (expect or 'ok'), 'model': mans[i] if i < len(mans) else '',
                                   'profile': prof, 'kind': 'implementation-vs-specification', 'via': 'drain2m child process (2 MiB thread stack): ' + status})
    cx.cov.setdefault('extra', {})['child_process_runs'] = {
        'runs': len(runs), 'not_ok': sum(1 for r in runs if r['status'] != 'ok'),
        'max_seconds': max([r['seconds'] for r in runs] or [0]), 'samples': runs[:4]}


def f32_assumptions(cx, man, chk):
    """validate the named f32 hypotheses of TextDefs.WTextOk against Rust's f32 on the weight domain [0,1]:
    quick = every 4099th bit pattern (259,906 weights), thorough = all 1,065,353,217"""
    step = '1' if cx.tier == 'thorough' else '4099'
    t0 = time.time()
    p = subprocess.run([chk.harness_bin('release'), 'f32sweep', step], stdout=subprocess.PIPE, stderr=subprocess.PIPE)
    out = p.stdout.decode('utf-8', 'replace').strip()
    m = re.search(r'checked=(\d+) bad=(\d+) empty_is_err=(\d) product_sample_bad=(\d+)', out)
    info = {'step': int(step), 'seconds': round(time.time() - t0, 1), 'output': out[:400]}
    if not m or p.returncode != 0:
        cx.broken.append(('assumption', 'f32 sweep did not run', out[-300:]))
    else:
        info.update({'weights_checked': int(m.group(1)), 'bad': int(m.group(2)), 'empty_text_is_error': m.group(3) == '1', 'product_sample_bad': int(m.group(4))})
        if int(m.group(2)) or m.group(3) != '1' or int(m.group(4)):
            cx.broken.append(('assumption', 'a named f32 hypothesis (WTextOk / product closure) fails on Rust f32', out[:400]))
    cx.cov.setdefault('extra', {})['f32_assumption_sweep'] = info
