"""extra check stages beyond the line-protocol correspondence"""
import os, subprocess, re, json, time


def c08_children(cx, man, chk):
    """drain every C08 request in a child process on a 2 MiB stack, in the debug AND the release build;
    the model's count (from the in-process correspondence stream of the same requests) is the expectation."""
    ops = os.path.join(cx.work, 'ops_%s.txt' % cx.tier)
    model = ops + '.model'
    if not (os.path.exists(ops) and os.path.exists(model)):
        cx.broken.append(('harness', 'C08 child stage: no request stream', ''))
        return
    reqs = [l.rstrip('\n') for l in open(ops)]
    if not reqs:
        cx.broken.append(('harness', 'C08 child stage: empty request stream', ''))
        return
    # the model answers are aligned with the (re-ordered) requests; only the count matters here
    mans = [l.rstrip('\n').split('\t')[0] for l in open(model)]
    runs = []
    limit = 600 if cx.tier == 'thorough' else 60      # clean-tree maximum is under 4 s per request
    for prof in ('debug', 'release'):
        timeouts = 0
        for i, op in enumerate(reqs):
            if timeouts >= 3:
                break                                      # three non-terminating requests are replay enough
            t0 = time.time()
            try:
                p = subprocess.run([chk.harness_bin(prof), 'drain2m'], input=(op + '\n').encode(), stdout=subprocess.PIPE, stderr=subprocess.PIPE,
                                   timeout=limit)
            except subprocess.TimeoutExpired:
                timeouts += 1
                runs.append({'profile': prof, 'request': i, 'answer': 'timeout', 'expected': None, 'status': 'did not terminate', 'seconds': round(time.time() - t0, 2)})
                cx.failing.append({'op': op, 'impl': 'timeout', 'spec': '=terminates', 'model': mans[i] if i < len(mans) else '', 'profile': prof,
                                   'kind': 'implementation-vs-specification', 'via': 'drain2m child process: did not terminate within the time limit'})
                continue
            out = p.stdout.decode('utf-8', 'replace').strip().splitlines()
            ans = out[-1] if out else ''
            m = re.match(r'ok n=(\d+)', mans[i]) if i < len(mans) else None
            expect = 'ok n=%s' % m.group(1) if m else None
            status = 'ok'
            if p.returncode != 0 or not ans:
                status = 'killed rc=%d %s' % (p.returncode, p.stderr.decode('utf-8', 'replace').strip()[-80:])
            elif ans != expect:
                status = 'differs'
            runs.append({'profile': prof, 'request': i, 'answer': ans, 'expected': expect, 'status': status, 'seconds': round(time.time() - t0, 2)})
            if status != 'ok':
                # the specification says: returns normally with the model's count, in both profiles, on a 2 MiB stack
                cx.failing.append({'op': op, 'impl': ans or status, 'spec': '=' + (expect or 'ok'), 'model': mans[i] if i < len(mans) else '',
                                   'profile': prof, 'kind': 'implementation-vs-specification', 'via': 'drain2m child process (2 MiB thread stack): ' + status})
    cx.cov.setdefault('extra', {})['child_process_runs'] = {
        'runs': len(runs), 'not_ok': sum(1 for r in runs if r['status'] != 'ok'),
        'max_seconds': max([r['seconds'] for r in runs] or [0]), 'samples': runs[:4]}


def f32_assumptions(cx, man, chk):
    """validate the named f32 hypotheses of TextDefs.WTextOk against Rust's f32 on the weight domain [0,1]:
    quick = every 4099th bit pattern (259,906 weights), thorough = all 1,065,353,217"""
    step = '1' if cx.tier == 'thorough' else '4099'
    t0 = time.time()
    p = subprocess.run([chk.harness_bin('release'), 'f32sweep', step], stdout=subprocess.PIPE, stderr=subprocess.PIPE)
    out = p.stdout.decode('utf-8', 'replace').strip()
    m = re.search(r'checked=(\d+) bad=(\d+) empty_is_err=(\d) product_sample_bad=(\d+) grammar_texts=(\d+) grammar_texts_bad=(\d+)', out)
    info = {'step': int(step), 'seconds': round(time.time() - t0, 1), 'output': out[:400]}
    if not m or p.returncode != 0:
        cx.broken.append(('assumption', 'f32 sweep did not run', out[-300:]))
    else:
        info.update({'weights_checked': int(m.group(1)), 'bad': int(m.group(2)), 'empty_text_is_error': m.group(3) == '1', 'product_sample_bad': int(m.group(4)),
                     'grammar_texts_parsed': int(m.group(5)), 'grammar_texts_bad': int(m.group(6))})
        if int(m.group(2)) or m.group(3) != '1' or int(m.group(4)) or int(m.group(6)):
            cx.broken.append(('assumption', 'a named f32 hypothesis (WTextOk / product closure) fails on Rust f32', out[:400]))
    cx.cov.setdefault('extra', {})['f32_assumption_sweep'] = info


def _lean_strings(path, name):
    """the string literals of `def <name> : List String := [...]` in a generated Lean file"""
    s = open(path, encoding='utf-8').read()
    m = re.search(r'def %s : List String := \[(.*?)\]\n' % name, s, re.S)
    if not m:
        return None
    return [json.loads(x) for x in re.findall(r'"(?:[^"\\]|\\.)*"', m.group(1))]


def regex_difference_search(cx, man, chk):
    """SEARCH SUPPORT ONLY (never stands in for a theorem).  If the seven pattern literals read from the source differ from
    the ones the model's recognisers were written for (the seed copy), look for strings on which the two sets of
    patterns classify differently -- with Python's `re`, which agrees with the `regex` crate on this syntax closely
    enough to *find candidates* -- and put them through the real parser, the model and the specification oracle."""
    import re as _re
    here = os.path.dirname(os.path.dirname(os.path.abspath(__file__)))
    cur = _lean_strings(os.path.join(here, 'lean', 'EspadaVerif', 'Gen', 'Token.lean'), 'tokenRegexSrc')
    exp = _lean_strings(os.path.join(here, 'translate', 'seed', 'Token.lean'), 'tokenRegexSrc')
    info = {'literals_changed': bool(cur and exp and cur != exp)}
    cx.cov.setdefault('extra', {})['regex_difference_search'] = info
    if not (cur and exp):
        cx.broken.append(('translator', 'regex difference search: cannot read the pattern literals of Gen/Token.lean or of the seed copy', ''))
        return
    if cur == exp:
        return

    def comp(p):
        # `$` of the regex crate = end of text only
        q = p[:-1] + r'\Z' if p.endswith('$') and not p.endswith(r'\$') else p
        try:
            return _re.compile(q)
        except _re.error:
            return None
    rc, re_ = [comp(p) for p in cur], [comp(p) for p in exp]
    if any(r is None for r in rc + re_) or len(rc) != len(re_):
        info['note'] = 'a literal is not Python-compatible; no directed search'
        return
    ranks, suits = 'AKQJT98765432', 'shdc'
    seeds = set()
    for a in 'AK72':
        for b in 'AQ72':
            seeds.update([a + a, a + a + '+', a + a + '-' + b + b, a + b + 's', a + b + 'o', a + b + 's+', a + b + 'o+',
                          a + b + 's-' + a + '2s', a + b + 'o-' + a + '2o', a + 's' + b + 'h', a + 'c' + b + 'd'])
    weights = ['', ':0', ':1', ':0.5', ':1.0', ':0.25', ':1.00', ':0.', ':.5', ':2', ':1.5', ':00', ':0.5.5', ':1e0', ':-0', ': 1', ':']
    alphabet = list(ranks[:3] + '2' + suits + 'so+-:.01 59xX,\n\t') + ['٣', '１', 'é', '\U0001F0A1']
    cands = set()
    for t in seeds:
        for w in weights:
            cands.add(t + w)
    base = sorted(cands)
    for s in base:
        for i in range(len(s) + 1):
            for ch in alphabet:
                cands.add(s[:i] + ch + s[i:])            # insertion
                if i < len(s):
                    cands.add(s[:i] + ch + s[i + 1:])    # replacement
            if i < len(s):
                cands.add(s[:i] + s[i + 1:])             # deletion
        cands.add(s + s)
        cands.add(' ' + s)
        cands.add(s + ' ')

    def classify(rs, s):
        return tuple(bool(r.search(s)) for r in rs)
    diff = sorted((s for s in cands if classify(rc, s) != classify(re_, s)), key=lambda s: (len(s), s))[:600]
    info.update({'candidates': len(cands), 'classified_differently': len(diff), 'samples': [repr(s) for s in diff[:8]]})
    if not diff:
        return
    ops = os.path.join(cx.work, 'regex_diff.ops')
    with open(ops, 'w') as f:
        for s in diff:
            h = s.encode('utf-8').hex() or '-'
            f.write('parse_token %s\nparse_range %s\n' % (h, h))
    chk.correspond(cx, ops, 'regex-difference-search', 'debug')
