import os, sys
sys.path.insert(0, os.path.dirname(os.path.abspath(__file__)))
from props import PROPS
mods = []
for p in PROPS.values():
    for m in p['lean_modules']:
        if m not in mods:
            mods.append(m)
print(' '.join(mods))
