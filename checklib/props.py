"""per-property configuration of ./check"""
import stages

F32_TEXT = ('Rust f32 Display/FromStr (assumed, as named hypotheses of the theorems: parse(show w) = w and show w matches the weight grammar for w in Dom; '
            'every text of the weight grammar parses, to a weight of Dom; "" is not a number) - validated against Rust by the f32 sweep stage')

PROPS = {
    'C13': {
        'floors': (10248, 9895, 9895),      # minimum requests / oracle lines / strong-oracle lines a run must cover (about half of the quick tier)
        'gen_items': ['Rank', 'RankSucc', 'Suit', 'CardBits', 'Ranges', 'Pair'],
        'lean_modules': ['EspadaVerif.Props.C13', 'EspadaVerif.Props.Witness.C13', 'EspadaVerif.Props.C13More'],
        'namespaces': ['EspadaVerif.C13'],
        'theorems': ['EspadaVerif.C13.card_bits_roundtrip', 'EspadaVerif.C13.bits_card_roundtrip',
                     'EspadaVerif.C13.card_text_roundtrip', 'EspadaVerif.C13.two_char_ascii',
                     'EspadaVerif.C13.rank_numbering', 'EspadaVerif.C13.suit_numbering',
                     'EspadaVerif.C13.rank_next_prev', 'EspadaVerif.C13.rank_range_run', 'EspadaVerif.C13.suit_range_run', 'EspadaVerif.C13.Witness.card_bits_roundtrip_at_witness', 'EspadaVerif.C13.rank_range_total', 'EspadaVerif.C13.suit_range_total', 'EspadaVerif.C13.card_text_spec', 'EspadaVerif.C13.parse_card_spec'],
        'profiles': ['debug'],
        'rule': 'exhaustive: 13 ranks, 4 suits, 52 cards, all ordered pairs for comparisons, 64 single-bit words and 0, '
                'all 16,512 one/two-byte ASCII strings, all ordered endpoint pairs of rank/suit ranges (reversed ones included: both sides panic); 200 seeded multi-bit words. '
                'distinct = distinct request lines (every request is a different input).',
        'trusted': ['hand-written Lean semantics of match/if-chains/slicing in Model/Card.lean (validated by the exhaustive correspondence)'],
        'assumptions': ['reversed range endpoints: the slice panic is proved (rank_range_total) and compared (see DESIGN §5)'],
    },
    'C01': {
        'floors': (149683, 149683, 149683),      # minimum requests / oracle lines / strong-oracle lines a run must cover (about half of the quick tier)
        'gen_items': ['Rank', 'Suit', 'DpRef', 'Tables', 'MadeHand'],
        'lean_modules': ['EspadaVerif.Props.C01Compare', 'EspadaVerif.Props.Witness.C01', 'EspadaVerif.Props.C01Ops'],
        'namespaces': ['EspadaVerif.C01', 'EspadaVerif.Lemmas', 'EspadaVerif.Kernel'],
        'theorems': ['EspadaVerif.C01.C01_eval', 'EspadaVerif.C01.C01_order', 'EspadaVerif.C01.C01_compare',
                     'EspadaVerif.C01.C01_index_range', 'EspadaVerif.C01.C01_best_is_strongest',
                     'EspadaVerif.Kernel.rainbow_all', 'EspadaVerif.Kernel.flush_all',
                     'EspadaVerif.Lemmas.cls_lt_iff', 'EspadaVerif.Lemmas.cls_eq_iff', 'EspadaVerif.Lemmas.cls_onto', 'EspadaVerif.C01.Witness.C01_eval_at_witness', 'EspadaVerif.C01.C01_ops', 'EspadaVerif.C01.seven_no_overflow', 'EspadaVerif.C01.rainbow_no_overflow', 'EspadaVerif.C01.flush_no_overflow'],
        'profiles': ['debug'],
        'gen_release': True,
        'parallel': 14,
        'rule': 'one hand per reachable table slot (49,205 rank-count vectors + 4,719 flush masks) in a seeded order, hands stratified over the '
                'nine categories, flush completing at card 5/6/7, all 5040 orders of selected hands, uniform random hands; oracle column = '
                'Spec.best (best of the 21 five-card hands under the rule-book numbering). distinct = distinct request lines.',
        'trusted': ['hand-written Lean semantics of find_flush_suit / hash_for_flush / hash_for_rainbow / dp_ref (Model/Eval.lean), tied by the correspondence; '
                    'their shape is pinned by the translator (a reshaped function is reported as a broken tie)'],
        'assumptions': [],
    },
    'C02': {
        'floors': (185, 185, 184),      # minimum requests / oracle lines / strong-oracle lines a run must cover (about half of the quick tier)
        'gen_items': ['Rank', 'Suit', 'Ranges', 'DpRef', 'Tables', 'MadeHand', 'Pair', 'Iter'],
        'lean_modules': ['EspadaVerif.Props.C02', 'EspadaVerif.Props.Witness.C02', 'EspadaVerif.Props.C02Spec'],
        'namespaces': ['EspadaVerif.C02'],
        'theorems': ['EspadaVerif.C02.C02_refines', 'EspadaVerif.C02.C02_payload', 'EspadaVerif.C02.Witness.C02_refines_at_witness', 'EspadaVerif.C02.C02_exactly_once', 'EspadaVerif.C02.deals_mem_iff', 'EspadaVerif.C02.deals_nodup', 'EspadaVerif.C02.deck49_spec', 'EspadaVerif.C02.unordered_once'],
        'profiles': ['debug'],
        'gen_release': True,
        'parallel': 12,
        'uses_order': True,
        'rule': 'iterator requests (flop, per-player entry lists in map-iteration order as observed by the harness, scope): small tables with complete '
                'showdown lists, overlapping ranges, combos holding flop cards, 2-3 player tables, range sizes 255/256/257/390/1326, zero players, '
                'an empty range; the oracle column is the list comprehension Spec.deals (count + order-insensitive-within-position digest of all showdowns).',
        'trusted': ['hand-written Lean model of the iterator (Model/Iter.lean), tied by the correspondence',
                    'HashSet<Card>/HashMap behave as finite sets/maps; map iteration order is an input',
                    'binary32 product: Lean Float32 and Rust f32 both use the hardware multiply (compared bit for bit)'],
        'assumptions': ['the probability product is stated over an abstract weight type with unit and product'],
    },
    'C04': {
        'floors': (823, 823, 823),      # minimum requests / oracle lines / strong-oracle lines a run must cover (about half of the quick tier)
        'gen_items': ['Rank', 'Suit', 'Ranges', 'DpRef', 'Tables', 'MadeHand', 'Pair', 'Iter'],
        'lean_modules': ['EspadaVerif.Props.C04', 'EspadaVerif.Props.Witness.C04', 'EspadaVerif.Props.C04Model', 'EspadaVerif.Props.C08Bounds'],
        'namespaces': ['EspadaVerif.C04'],
        'theorems': ['EspadaVerif.C04.C04_scoped', 'EspadaVerif.C04.C04_chain', 'EspadaVerif.C04.C04_exhausted', 'EspadaVerif.C04.C04_rescope', 'EspadaVerif.C04.Witness.C04_scoped_at_witness', 'EspadaVerif.C04.C04_scope_ok', 'EspadaVerif.C04.C04_rescope_last', 'EspadaVerif.C04.C04_scoped_sublist', 'EspadaVerif.C04.C04_chain_model', 'EspadaVerif.C04.C04_chain_exactly_once', 'EspadaVerif.C04.C04_default_scope', 'EspadaVerif.C04.C04_scope_many', 'EspadaVerif.C04.deals_append', 'EspadaVerif.C04.C04_to_river49'],
        'profiles': ['debug'],
        'gen_release': True,
        'parallel': 12,
        'uses_order': True,
        'rule': 'scoped iterator requests: seeded (from, to) pairs incl. row ends, terminal, from = to, re-scoping, three further next() calls after '
                'exhaustion; chains of consecutive scopes; every row start/end as from and as to; oracle = Spec.deals restricted to the scope.',
        'trusted': ['as C02'],
        'assumptions': [],
    },
    'C08': {
        'floors': (88, 88, 0),      # minimum requests / oracle lines / strong-oracle lines a run must cover (about half of the quick tier)
        'gen_items': ['Rank', 'Suit', 'Ranges', 'DpRef', 'Tables', 'MadeHand', 'Pair', 'Iter'],
        'lean_modules': ['EspadaVerif.Props.C08', 'EspadaVerif.Props.Witness.C08', 'EspadaVerif.Props.C08Bounds', 'EspadaVerif.Props.C08Degenerate'],
        'namespaces': ['EspadaVerif.C08'],
        'theorems': ['EspadaVerif.C08.C08_total', 'EspadaVerif.C08.C08_empty', 'EspadaVerif.C08.Witness.C08_total_at_witness', 'EspadaVerif.C08.C08_u8', 'EspadaVerif.C08.C08_advance_arith', 'EspadaVerif.C08.C08_steps', 'EspadaVerif.C08.C08_total_le', 'EspadaVerif.C08.C02_refines_le', 'EspadaVerif.C08.C08_degenerate_skipped', 'EspadaVerif.C08.C08_no_recursion', 'EspadaVerif.C08.C08_yield_bound'],
        'profiles': ['debug', 'release'],
        'gen_release': True,
        'parallel': 12,
        'uses_order': True,
        'extra_stages': [stages.c08_children],
        'rule': 'worst cases for termination/stack/overflow: range sizes 0,1,2,255,256,257,512,1326; empty range beside a non-empty one; longest runs of '
                'consecutive blocked deals (a one-combo player holding the first deck card beside wide ranges); everything blocked; three mutually '
                'blocking players. Each request is drained in-process (debug and release) and in child processes on a 2 MiB thread stack (debug and release).',
        'trusted': ['as C02', 'native stack consumption and allocator behaviour are runtime facts: witnessed by the child-process runs on the generated worst cases only'],
        'assumptions': ['partial: the theorem bounds loop iterations and shows no panic arm is reachable; the 2 MiB claim is observed, not proved'],
    },
    'C03': {
        'floors': (37700, 37200, 37200),      # minimum requests / oracle lines / strong-oracle lines a run must cover (about half of the quick tier)
        'gen_items': ['Rank', 'Suit', 'DpRef', 'Tables', 'MadeHand', 'Pair'],
        'lean_modules': ['EspadaVerif.Props.C03', 'EspadaVerif.Props.Witness.C03', 'EspadaVerif.Props.C03Rules'],
        'namespaces': ['EspadaVerif.C03'],
        'theorems': ['EspadaVerif.C03.C03_none_iff', 'EspadaVerif.C03.C03_some', 'EspadaVerif.C03.C03_winner_iff', 'EspadaVerif.C03.eval_own_seven', 'EspadaVerif.C03.Witness.C03_some_at_witness', 'EspadaVerif.C03.C03_rules', 'EspadaVerif.C03.C03_winner_len', 'EspadaVerif.C03.C03_cards_hand'],
        'profiles': ['debug'],
        'gen_release': True,
        'parallel': 4,
        'rule': 'seeded tables of 1..10 players with distinct cards; tie-heavy boards (straight / flush / quads / full house / two pair on board); '
                'board collisions at every player position; players sharing hole cards (model vs implementation only); one hand against every '
                'single opponent on seeded boards. distinct = distinct request lines.',
        'trusted': ['hand-written Lean model of Showdown::new / winner_len (Model/Showdown.lean), tied by the correspondence',
                    'HashSet<usize> behaves as a finite set (insert / clear / contains)'],
        'assumptions': ['winner_len: stated for at most 255 players (u8 counter)'],
    },
    'C05': {
        'floors': (6416, 6416, 6416),      # minimum requests / oracle lines / strong-oracle lines a run must cover (about half of the quick tier)
        'extra_stages': [stages.regex_difference_search, stages.f32_assumptions],
        'gen_items': ['Rank', 'RankSucc', 'Suit', 'CardBits', 'Ranges', 'Pair', 'RankPair', 'Token'],
        'lean_modules': ['EspadaVerif.Props.C05', 'EspadaVerif.Props.C05Oracle', 'EspadaVerif.Props.Witness.C05', 'EspadaVerif.Props.C05Weight'],
        'namespaces': ['EspadaVerif.C05', 'EspadaVerif.Spec'],
        'theorems': ['EspadaVerif.C05.C05_token', 'EspadaVerif.C05.C05_list', 'EspadaVerif.C05.C05_empty', 'EspadaVerif.C05.C05_counts', 'EspadaVerif.C05.C05_notation_unambiguous', 'EspadaVerif.C05.C05_oracle_reader_complete', 'EspadaVerif.C05.Witness.C05_token_at_witness', 'EspadaVerif.C05.C05_token_weight', 'EspadaVerif.C05.C05_list_weight', 'EspadaVerif.Spec.readToken_complete'],
        'profiles': ['debug'],
        'gen_release': True,
        'parallel': 14,
        'rule': 'every well-formed token shape (3,809) with and without weight literals through parse_token (expansion order compared with the model, expansion set with Spec.denote); token lists of 1..40 tokens with overlaps and spaces through parse_range (oracle: last token wins).',
        'trusted': ['hand-written Lean model of the token / range parser and formatter (Model/Token.lean, Model/Range.lean) tied by the correspondence',
                    'regex 1.10 is modelled, not verified: Model/Regex.lean gives the pattern subset used (anchored, ASCII classes, groups, alternation, ? + * {n}) a Brzozowski-derivative semantics on bytes; C09_regex_semantics proves the recognisers equal that semantics of the literals read from the source on each run; that the regex crate implements this semantics is trusted and exercised by the correspondence',
                    F32_TEXT],
        'assumptions': [],
    },
    'C06': {
        'floors': (13990, 13990, 13990),      # minimum requests / oracle lines / strong-oracle lines a run must cover (about half of the quick tier)
        'extra_stages': [stages.regex_difference_search, stages.f32_assumptions],
        'gen_items': ['Rank', 'RankSucc', 'Suit', 'CardBits', 'Ranges', 'Pair', 'RankPair', 'Token'],
        'lean_modules': ['EspadaVerif.Props.C06', 'EspadaVerif.Props.Witness.C06', 'EspadaVerif.Props.C06Contents', 'EspadaVerif.Props.C06FromIter', 'EspadaVerif.Props.Witness.C06FromIter'],
        'namespaces': ['EspadaVerif.C06'],
        'theorems': ['EspadaVerif.C06.C06_token', 'EspadaVerif.C06.C06_range', 'EspadaVerif.C06.Witness.C06_range_at_witness', 'EspadaVerif.C06.C06_range_contents', 'EspadaVerif.C06.C06_collect', 'EspadaVerif.C06.Witness.C06_collect_at_witness'],
        'profiles': ['debug'],
        'gen_release': True,
        'parallel': 14,
        'rule': 'ranges built from explicit contents: every 3-valued pattern along short suited/offsuit rows, pocket-row patterns, seeded long rows with leftovers, every partial pattern inside a pocket pair with boundary weights (0, smallest subnormal, 0.1, 1-ulp, 1); each is printed and parsed back by the crate (reparse=1 demanded); every well-formed token round-trips.',
        'trusted': ['hand-written Lean model of the token / range parser and formatter (Model/Token.lean, Model/Range.lean) tied by the correspondence',
                    'regex 1.10 is modelled, not verified: Model/Regex.lean gives the pattern subset used (anchored, ASCII classes, groups, alternation, ? + * {n}) a Brzozowski-derivative semantics on bytes; C09_regex_semantics proves the recognisers equal that semantics of the literals read from the source on each run; that the regex crate implements this semantics is trusted and exercised by the correspondence',
                    F32_TEXT],
        'assumptions': ['weights in Dom = bit patterns 0x00000000..=0x3F800000 (NaN outside; -0.0 cannot be stored in a range since the D11 repair)'],
    },
    'C09': {
        'floors': (45464, 32536, 412),      # minimum requests / oracle lines / strong-oracle lines a run must cover (about half of the quick tier)
        'extra_stages': [stages.regex_difference_search],
        'gen_items': ['Rank', 'RankSucc', 'Suit', 'CardBits', 'Ranges', 'Pair', 'RankPair', 'Token'],
        'lean_modules': ['EspadaVerif.Props.C09', 'EspadaVerif.Props.Witness.C09', 'EspadaVerif.Props.C08Degenerate'],
        'namespaces': ['EspadaVerif.C09'],
        'theorems': ['EspadaVerif.C09.C09_parse_total', 'EspadaVerif.C09.C09_use_total', 'EspadaVerif.C09.C09_range_total', 'EspadaVerif.C09.C09_regex_semantics', 'EspadaVerif.C09.Witness.C09_parse_total_at_witness', 'EspadaVerif.C09.C09_pair_total', 'EspadaVerif.C09.C09_range_views_total'],
        'profiles': ['debug'],
        'gen_release': True,
        'parallel': 14,
        'rule': 'every string of length <= 3 over a 24-symbol alphabet (notation characters + 2/3/4-byte characters) through all six parsers; the seven token shapes with arbitrary ranks (13^3, reversed and degenerate spans) followed by expansion, formatting, decomposition and evaluation; multi-byte characters spliced at every byte offset of valid texts; over-long inputs; seeded random Unicode. Oracle: no panic anywhere.',
        'trusted': ['hand-written Lean model of the token / range parser and formatter (Model/Token.lean, Model/Range.lean) tied by the correspondence',
                    'regex 1.10 is modelled, not verified: Model/Regex.lean gives the pattern subset used (anchored, ASCII classes, groups, alternation, ? + * {n}) a Brzozowski-derivative semantics on bytes; C09_regex_semantics proves the recognisers equal that semantics of the literals read from the source on each run; that the regex crate implements this semantics is trusted and exercised by the correspondence',
                    F32_TEXT],
        'assumptions': [],
    },
    'C10': {
        'floors': (16574, 16574, 8152),      # minimum requests / oracle lines / strong-oracle lines a run must cover (about half of the quick tier)
        'extra_stages': [stages.regex_difference_search, stages.f32_assumptions],
        'gen_items': ['Rank', 'RankSucc', 'Suit', 'CardBits', 'Ranges', 'Pair', 'RankPair', 'Token'],
        'lean_modules': ['EspadaVerif.Props.C10', 'EspadaVerif.Props.Witness.C10', 'EspadaVerif.Props.C10Showdown'],
        'namespaces': ['EspadaVerif.C10'],
        'theorems': ['EspadaVerif.C10.C10_combo', 'EspadaVerif.C10.C10_weight', 'EspadaVerif.C10.C10_prob', 'EspadaVerif.C10.C10_cards', 'EspadaVerif.C10.Witness.C10_weight_at_witness', 'EspadaVerif.C10.C10_showdown', 'EspadaVerif.C10.C10_grammar', 'EspadaVerif.C10.C10_weight_token'],
        'profiles': ['debug'],
        'gen_release': True,
        'parallel': 14,
        'rule': 'every weight literal [01](.d{0,3})? on three token kinds, literals rounding to 1 / subnormal / malformed, all 52x52 card-pair tokens (incl. equal cards); every parsed range is handed to the evaluator and every showdown probability checked to lie in [0,1]. Oracle: bad=0 (no combo with equal cards, no weight outside [0,1]), badprob=0.',
        'trusted': ['hand-written Lean model of the token / range parser and formatter (Model/Token.lean, Model/Range.lean) tied by the correspondence',
                    'regex 1.10 is modelled, not verified: Model/Regex.lean gives the pattern subset used (anchored, ASCII classes, groups, alternation, ? + * {n}) a Brzozowski-derivative semantics on bytes; C09_regex_semantics proves the recognisers equal that semantics of the literals read from the source on each run; that the regex crate implements this semantics is trusted and exercised by the correspondence',
                    F32_TEXT],
        'assumptions': ['binary32 rounding is monotone and fixes 0 and 1 (IEEE-754); f32::from_str maps decimals in [0,1] into [0,1]'],
    },
    'C12': {
        'floors': (14647, 14485, 14485),      # minimum requests / oracle lines / strong-oracle lines a run must cover (about half of the quick tier)
        'extra_stages': [stages.regex_difference_search],
        'gen_items': ['Rank', 'RankSucc', 'Suit', 'CardBits', 'Ranges', 'Pair', 'RankPair', 'Token'],
        'lean_modules': ['EspadaVerif.Props.C12', 'EspadaVerif.Props.Witness.C12', 'EspadaVerif.Props.C12General', 'EspadaVerif.Lemmas.RangeViewsSpec'],
        'namespaces': ['EspadaVerif.C12', 'EspadaVerif.Spec'],
        'theorems': ['EspadaVerif.C12.C12_report', 'EspadaVerif.C12.C12_orphans', 'EspadaVerif.C12.C12_cover', 'EspadaVerif.C12.C12_disjoint', 'EspadaVerif.C12.Witness.C12_cover_at_witness', 'EspadaVerif.C12.C12_report_contents', 'EspadaVerif.C12.C12_cover_contents', 'EspadaVerif.C12.C12_orphans_contents', 'EspadaVerif.Spec.rankPairs_agree', 'EspadaVerif.Spec.orphans_agree'],
        'profiles': ['debug'],
        'gen_release': True,
        'parallel': 14,
        'rule': 'ranges built from explicit contents: all 3^6 patterns of every pocket pair, all 3^4 of every suited pair, offsuit pairs: all patterns within two deviations + seeded (all 3^12 in the thorough tier), seeded whole ranges, duplicate keys. Oracle: Spec.rankPairView / Spec.orphanView computed from the contents.',
        'trusted': ['hand-written Lean model of the token / range parser and formatter (Model/Token.lean, Model/Range.lean) tied by the correspondence',
                    'regex 1.10 is modelled, not verified: Model/Regex.lean gives the pattern subset used (anchored, ASCII classes, groups, alternation, ? + * {n}) a Brzozowski-derivative semantics on bytes; C09_regex_semantics proves the recognisers equal that semantics of the literals read from the source on each run; that the regex crate implements this semantics is trusted and exercised by the correspondence',
                    F32_TEXT],
        'assumptions': [],
    },
    'C17': {
        'floors': (381, 381, 381),      # minimum requests / oracle lines / strong-oracle lines a run must cover (about half of the quick tier)
        'extra_stages': [stages.regex_difference_search],
        'gen_items': ['Rank', 'RankSucc', 'Suit', 'CardBits', 'Ranges', 'Pair', 'RankPair', 'Token'],
        'lean_modules': ['EspadaVerif.Props.C17', 'EspadaVerif.Props.Witness.C17', 'EspadaVerif.Props.C17Text'],
        'namespaces': ['EspadaVerif.C17'],
        'theorems': ['EspadaVerif.C17.C17_canonical', 'EspadaVerif.C17.C17_runs', 'EspadaVerif.C17.C17_order', 'EspadaVerif.C17.C17_runs_maximal', 'EspadaVerif.C17.Witness.C17_canonical_at_witness', 'EspadaVerif.C17.C17_text', 'EspadaVerif.C17.C17_no_mergeable_neighbours'],
        'profiles': ['debug'],
        'gen_release': True,
        'parallel': 14,
        'rule': 'the same contents built along eight construction histories (reversed, shuffled, overwritten, grown without size hint, parsed from card-pair text) must print identically and compare equal; the rank-pair part of the text is compared with the maximal-run text computed by Spec.runs from the contents.',
        'trusted': ['hand-written Lean model of the token / range parser and formatter (Model/Token.lean, Model/Range.lean) tied by the correspondence',
                    'regex 1.10 is modelled, not verified: Model/Regex.lean gives the pattern subset used (anchored, ASCII classes, groups, alternation, ? + * {n}) a Brzozowski-derivative semantics on bytes; C09_regex_semantics proves the recognisers equal that semantics of the literals read from the source on each run; that the regex crate implements this semantics is trusted and exercised by the correspondence',
                    F32_TEXT],
        'assumptions': [],
    },
    'C15': {
        'floors': (40, 40, 40),      # minimum requests / oracle lines / strong-oracle lines a run must cover (about half of the quick tier)
        'gen_items': ['Rank', 'Suit', 'Ranges', 'DpRef', 'Tables', 'MadeHand', 'Pair', 'Iter'],
        'uses_audit': True,
        'lean_modules': ['EspadaVerif.Props.C15', 'EspadaVerif.Props.Witness.C15', 'EspadaVerif.Props.C15Perm'],
        'namespaces': ['EspadaVerif.C15'],
        'theorems': ['EspadaVerif.C15.C15_interleave', 'EspadaVerif.C15.C15_no_shared_state', 'EspadaVerif.C15.Witness.C15_interleave_at_witness₁', 'EspadaVerif.C15.C15_order_insensitive', 'EspadaVerif.C15.deals_perm_entries'],
        'profiles': ['debug', 'release'],
        'gen_release': True,
        'parallel': 8,
        'rule': 'k = 2..6 evaluators, each with its own flop, ranges and scope: solo runs compared with (a) call-by-call interleaving on one thread under a seeded '
                'schedule incl. three further calls after exhaustion, (b) one OS thread per evaluator with Arc-shared inputs; in the debug and the release build. '
                'The per-instance showdown counts are compared with the model.',
        'trusted': ['Rust type system: Send + Sync of the public types is asserted at compile time in the harness',
                    'translator audit of src/** for static / thread_local / interior-mutable / unsafe items (Gen.sharedStateHits)',
                    'data races inside dependencies (regex, fxhash, std) are outside the model'],
        'assumptions': ['partial: "all OS schedules" is discharged by the absence of shared state (audit + type system + frame theorem), not by enumeration of schedules'],
    },
    'C16': {
        'floors': (4316, 4316, 4316),      # minimum requests / oracle lines / strong-oracle lines a run must cover (about half of the quick tier)
        'gen_items': [],
        'lean_modules': ['EspadaVerif.Props.C16', 'EspadaVerif.Props.Witness.C16', 'EspadaVerif.Props.C16Counts'],
        'namespaces': ['EspadaVerif.C16'],
        'theorems': ['EspadaVerif.C16.C16_tiles', 'EspadaVerif.C16.C16_sum', 'EspadaVerif.C16.Witness.C16_tiles_at_witness', 'EspadaVerif.C16.C16_counts', 'EspadaVerif.C16.C16_tally', 'EspadaVerif.C16.C16_model_counts', 'EspadaVerif.C16.C16_zero'],
        'profiles': ['debug', 'release'],
        'gen_release': True,
        'parallel': 8,
        'rule': 'scopes n for every n in 1..4096 (1..65536 and 2^24-2..2^24+2 in the thorough tier): the crate\'s list (examples/multi-thread/scope.rs compiled into the harness) '
                'compared with the model instantiated with the native Float32 pipeline, and checked directly against C16 (starts (0,1), ends (48,49), chained, monotone, valid positions); '
                'scopes_e2e n: per-scope showdown counts / win tallies of the real evaluator summed over the scopes equal the unscoped run.',
        'trusted': ['the integer part of calculate_scopes is hand-modelled (Model/Scopes.lean) and tied by the correspondence; the f32 pipeline is a universally quantified parameter of the theorem',
                    'Lean Float32 (native binary32 ops: +, -, *, /, sqrt, floor, ceil, saturating toUInt8) agrees with Rust f32 for n <= 2^24 (validated by the correspondence)'],
        'assumptions': [],
    },
    'C11': {
        'floors': (18, 18, 18),      # minimum requests / oracle lines / strong-oracle lines a run must cover (about half of the quick tier)
        'gen_items': ['Rank', 'Suit', 'Ranges', 'DpRef', 'Tables', 'MadeHand', 'Pair', 'Iter'],
        'lean_modules': ['EspadaVerif.Props.C11', 'EspadaVerif.Props.Witness.C11', 'EspadaVerif.Props.C11Model'],
        'namespaces': ['EspadaVerif.C11'],
        'theorems': ['EspadaVerif.C11.C11_suits', 'EspadaVerif.C11.C11_players', 'EspadaVerif.C11.C11_pot', 'EspadaVerif.C11.C11_model_flags', 'EspadaVerif.C11.C11_best_suit', 'EspadaVerif.C11.Witness.C11_suits_at_witness', 'EspadaVerif.C11.C11_suits_model', 'EspadaVerif.C11.C11_players_perm', 'EspadaVerif.C11.C11_drain_tally', 'EspadaVerif.C11.C11_suits_end_to_end', 'EspadaVerif.C11.C11_pot_sd', 'EspadaVerif.C11.C11_players_end_to_end', 'EspadaVerif.C11.perm_swaps', 'EspadaVerif.C11.tally_perm_entries', 'EspadaVerif.C11.tally_swap_cards'],
        'profiles': ['release'],
        'gen_release': True,
        'parallel': 12,
        'rule': 'seeded inputs with 2-3 players and ranges of 1..25 combos: integer tallies (player flagged x exactly k winners) of the real crate on the input, on suit-relabelled inputs '
                '(all 24 permutations for every sixth input, three seeded ones otherwise) and on player-permuted inputs (reversed + two shuffles), compared with each other and with the model\'s tallies; pot check per showdown.',
        'trusted': ['as C02 (same iterator model and tie)'],
        'assumptions': [],
    },
    'C07': {
        'floors': (70393, 70393, 70393),      # minimum requests / oracle lines / strong-oracle lines a run must cover (about half of the quick tier)
        'parallel': 14,
        'gen_items': ['Rank', 'Suit', 'DpRef', 'Tables', 'MadeHand', 'HandType'],
        'lean_modules': ['EspadaVerif.Props.C07', 'EspadaVerif.Props.Witness.C07'],
        'namespaces': ['EspadaVerif.C07'],
        'theorems': ['EspadaVerif.C07.C07_intervals', 'EspadaVerif.C07.category_names', 'EspadaVerif.C07.Witness.C07_at_witness'],
        'profiles': ['debug'],
        'gen_release': True,
        'rule': 'one hand per reachable table slot (49,205 rank-count vectors + 4,719 flush masks), hands stratified over the nine '
                'categories, flush completing at card 5/6/7, all 5040 orders of selected hands, uniform random hands; the oracle column '
                'is the category of Spec.best (best of the 21 five-card hands under the rule book numbering). distinct = distinct request lines.',
        'trusted': ['Spec/Poker.lean closed-form numbering (proved to be the order rank of the rule-book strength in Props/C01)'],
        'assumptions': [],
    },
    'C14': {
        'floors': (4060, 3978, 3978),      # minimum requests / oracle lines / strong-oracle lines a run must cover (about half of the quick tier)
        'gen_items': ['Rank', 'Suit', 'CardBits', 'Pair'],
        'lean_modules': ['EspadaVerif.Props.C14', 'EspadaVerif.Props.Witness.C14', 'EspadaVerif.Props.C14More'],
        'namespaces': ['EspadaVerif.C14'],
        'theorems': ['EspadaVerif.C14.pair_canonical', 'EspadaVerif.C14.pair_text', 'EspadaVerif.C14.equal_pairs_equal_hash', 'EspadaVerif.C14.Witness.pair_canonical_at_witness', 'EspadaVerif.C14.range_holds_each_combo_once'],
        'profiles': ['debug'],
        'rule': 'exhaustive over the 52x51 ordered pairs of distinct cards: constructor, ==, FxHasher hash, index, display, parse of both card orders.',
        'trusted': ['derived Eq/Hash are functions of the stored fields (Rust derive semantics); FxHasher equality observed by the harness'],
        'assumptions': [],
    },
}
