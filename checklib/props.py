"""per-property configuration of ./check"""
import stages

F32_TEXT = 'Rust f32 Display/FromStr (assumed: parse(show w) = w, show w matches the weight grammar, for w in Dom)'

PROPS = {
    'C13': {
        'gen_items': ['Rank', 'Suit', 'CardBits', 'Ranges', 'Pair'],
        'lean_modules': ['EspadaVerif.Props.C13'],
        'namespaces': ['EspadaVerif.C13'],
        'theorems': ['EspadaVerif.C13.card_bits_roundtrip', 'EspadaVerif.C13.bits_card_roundtrip',
                     'EspadaVerif.C13.card_text_roundtrip', 'EspadaVerif.C13.two_char_ascii',
                     'EspadaVerif.C13.rank_numbering', 'EspadaVerif.C13.suit_numbering',
                     'EspadaVerif.C13.rank_next_prev', 'EspadaVerif.C13.rank_range_run', 'EspadaVerif.C13.suit_range_run'],
        'profiles': ['debug'],
        'rule': 'exhaustive: 13 ranks, 4 suits, 52 cards, all ordered pairs for comparisons, 64 single-bit words and 0, '
                'all 16,512 one/two-byte ASCII strings, all endpoint pairs a<=b of rank/suit ranges; 200 seeded multi-bit words. '
                'distinct = distinct request lines (every request is a different input).',
        'trusted': ['hand-written Lean semantics of match/if-chains/slicing in Model/Card.lean (validated by the exhaustive correspondence)'],
        'assumptions': ['reversed range endpoints are outside C13 (see DESIGN §5)'],
    },
    'C01': {
        'gen_items': ['Rank', 'Suit', 'DpRef', 'Tables', 'MadeHand'],
        'lean_modules': ['EspadaVerif.Props.C01Compare'],
        'namespaces': ['EspadaVerif.C01', 'EspadaVerif.Lemmas', 'EspadaVerif.Kernel'],
        'theorems': ['EspadaVerif.C01.C01_eval', 'EspadaVerif.C01.C01_order', 'EspadaVerif.C01.C01_compare',
                     'EspadaVerif.C01.C01_index_range', 'EspadaVerif.C01.C01_best_is_strongest',
                     'EspadaVerif.Kernel.rainbow_all', 'EspadaVerif.Kernel.flush_all',
                     'EspadaVerif.Lemmas.cls_lt_iff', 'EspadaVerif.Lemmas.cls_eq_iff', 'EspadaVerif.Lemmas.cls_onto'],
        'profiles': ['debug'],
        'gen_release': True,
        'parallel': 4,
        'rule': 'one hand per reachable table slot (49,205 rank-count vectors + 4,719 flush masks) in a seeded order, hands stratified over the '
                'nine categories, flush completing at card 5/6/7, all 5040 orders of selected hands, uniform random hands; oracle column = '
                'Spec.best (best of the 21 five-card hands under the rule-book numbering). distinct = distinct request lines.',
        'trusted': ['hand-written Lean semantics of find_flush_suit / hash_for_flush / hash_for_rainbow / dp_ref (Model/Eval.lean), tied by the correspondence; '
                    'their shape is pinned by the translator (a reshaped function is reported as a broken tie)'],
        'assumptions': [],
    },
    'C02': {
        'gen_items': ['Rank', 'Suit', 'Ranges', 'DpRef', 'Tables', 'MadeHand', 'Pair', 'Iter'],
        'lean_modules': ['EspadaVerif.Props.C02'],
        'namespaces': ['EspadaVerif.C02'],
        'theorems': ['EspadaVerif.C02.C02_refines', 'EspadaVerif.C02.C02_payload'],
        'profiles': ['debug'],
        'gen_release': True,
        'parallel': 12,
        'uses_order': True,
        'rule': 'iterator requests (flop, per-player entry lists in map-iteration order as observed by the harness, scope): small tables with complete '
                'showdown lists, overlapping ranges, combos holding flop cards, 2-3 player tables, range sizes 255/256/257/390/1326, zero players, '
                'an empty range; the oracle column is the list comprehension Spec.deals (count + order-insensitive-within-position digest of all showdowns).',
        'trusted': ['hand-written Lean model of the iterator (Model/Iter.lean), tied by the correspondence',
                    'HashSet<Card>/HashMap behave as finite sets/maps; map iteration order is an input',
                    'binary32 product: Lean Float32 and Rust f32 both use the hardware multiply (compared bit for bit)'],
        'assumptions': ['the probability product is stated over an abstract weight type with unit and product'],
    },
    'C04': {
        'gen_items': ['Rank', 'Suit', 'Ranges', 'DpRef', 'Tables', 'MadeHand', 'Pair', 'Iter'],
        'lean_modules': ['EspadaVerif.Props.C04'],
        'namespaces': ['EspadaVerif.C04'],
        'theorems': ['EspadaVerif.C04.C04_scoped', 'EspadaVerif.C04.C04_chain', 'EspadaVerif.C04.C04_exhausted', 'EspadaVerif.C04.C04_rescope'],
        'profiles': ['debug'],
        'gen_release': True,
        'parallel': 12,
        'uses_order': True,
        'rule': 'scoped iterator requests: seeded (from, to) pairs incl. row ends, terminal, from = to, re-scoping, three further next() calls after '
                'exhaustion; chains of consecutive scopes; every row start/end as from and as to; oracle = Spec.deals restricted to the scope.',
        'trusted': ['as C02'],
        'assumptions': [],
    },
    'C08': {
        'gen_items': ['Rank', 'Suit', 'Ranges', 'DpRef', 'Tables', 'MadeHand', 'Pair', 'Iter'],
        'lean_modules': ['EspadaVerif.Props.C08'],
        'namespaces': ['EspadaVerif.C08'],
        'theorems': ['EspadaVerif.C08.C08_total', 'EspadaVerif.C08.C08_empty'],
        'profiles': ['debug', 'release'],
        'gen_release': True,
        'parallel': 12,
        'uses_order': True,
        'extra_stages': [stages.c08_children],
        'rule': 'worst cases for termination/stack/overflow: range sizes 0,1,2,255,256,257,512,1326; empty range beside a non-empty one; longest runs of '
                'consecutive blocked deals (a one-combo player holding the first deck card beside wide ranges); everything blocked; three mutually '
                'blocking players. Each request is drained in-process (debug and release) and in child processes on a 2 MiB thread stack (debug and release).',
        'trusted': ['as C02', 'native stack consumption and allocator behaviour are runtime facts: witnessed by the child-process runs on the generated worst cases only'],
        'assumptions': ['partial: the theorem bounds loop iterations and shows no panic arm is reachable; the 2 MiB claim is observed, not proved'],
    },
    'C03': {
        'gen_items': ['Rank', 'Suit', 'DpRef', 'Tables', 'MadeHand', 'Pair'],
        'lean_modules': ['EspadaVerif.Props.C03'],
        'namespaces': ['EspadaVerif.C03'],
        'theorems': ['EspadaVerif.C03.C03_none_iff', 'EspadaVerif.C03.C03_some', 'EspadaVerif.C03.C03_winner_iff', 'EspadaVerif.C03.eval_own_seven'],
        'profiles': ['debug'],
        'gen_release': True,
        'parallel': 4,
        'rule': 'seeded tables of 1..10 players with distinct cards; tie-heavy boards (straight / flush / quads / full house / two pair on board); '
                'board collisions at every player position; players sharing hole cards (model vs implementation only); one hand against every '
                'single opponent on seeded boards. distinct = distinct request lines.',
        'trusted': ['hand-written Lean model of Showdown::new / winner_len (Model/Showdown.lean), tied by the correspondence',
                    'HashSet<usize> behaves as a finite set (insert / clear / contains)'],
        'assumptions': ['winner_len: stated for at most 255 players (u8 counter)'],
    },
    'C07': {
        'gen_items': ['Rank', 'Suit', 'DpRef', 'Tables', 'MadeHand'],
        'lean_modules': ['EspadaVerif.Props.C07'],
        'namespaces': ['EspadaVerif.C07'],
        'theorems': ['EspadaVerif.C07.C07_intervals', 'EspadaVerif.C07.category_names'],
        'profiles': ['debug'],
        'gen_release': True,
        'rule': 'one hand per reachable table slot (49,205 rank-count vectors + 4,719 flush masks), hands stratified over the nine '
                'categories, flush completing at card 5/6/7, all 5040 orders of selected hands, uniform random hands; the oracle column '
                'is the category of Spec.best (best of the 21 five-card hands under the rule book numbering). distinct = distinct request lines.',
        'trusted': ['Spec/Poker.lean closed-form numbering (proved to be the order rank of the rule-book strength in Props/C01)'],
        'assumptions': [],
    },
    'C14': {
        'gen_items': ['Rank', 'Suit', 'CardBits', 'Pair'],
        'lean_modules': ['EspadaVerif.Props.C14'],
        'namespaces': ['EspadaVerif.C14'],
        'theorems': ['EspadaVerif.C14.pair_canonical', 'EspadaVerif.C14.pair_text', 'EspadaVerif.C14.equal_pairs_equal_hash'],
        'profiles': ['debug'],
        'rule': 'exhaustive over the 52x51 ordered pairs of distinct cards: constructor, ==, FxHasher hash, index, display, parse of both card orders.',
        'trusted': ['derived Eq/Hash are functions of the stored fields (Rust derive semantics); FxHasher equality observed by the harness'],
        'assumptions': [],
    },
}
