"""per-property configuration of ./check"""

F32_TEXT = 'Rust f32 Display/FromStr (assumed: parse(show w) = w, show w matches the weight grammar, for w in Dom)'

PROPS = {
    'C13': {
        'gen_items': ['Rank', 'Suit', 'CardBits', 'Ranges', 'Pair'],
        'lean_modules': ['EspadaVerif.Props.C13'],
        'namespaces': ['EspadaVerif.C13'],
        'theorems': ['EspadaVerif.C13.card_bits_roundtrip', 'EspadaVerif.C13.bits_card_roundtrip',
                     'EspadaVerif.C13.card_text_roundtrip', 'EspadaVerif.C13.two_char_ascii',
                     'EspadaVerif.C13.rank_numbering', 'EspadaVerif.C13.suit_numbering',
                     'EspadaVerif.C13.rank_next_prev', 'EspadaVerif.C13.rank_range_run', 'EspadaVerif.C13.suit_range_run'],
        'profiles': ['debug'],
        'rule': 'exhaustive: 13 ranks, 4 suits, 52 cards, all ordered pairs for comparisons, 64 single-bit words and 0, '
                'all 16,512 one/two-byte ASCII strings, all endpoint pairs a<=b of rank/suit ranges; 200 seeded multi-bit words. '
                'distinct = distinct request lines (every request is a different input).',
        'trusted': ['hand-written Lean semantics of match/if-chains/slicing in Model/Card.lean (validated by the exhaustive correspondence)'],
        'assumptions': ['reversed range endpoints are outside C13 (see DESIGN §5)'],
    },
    'C07': {
        'gen_items': ['Rank', 'Suit', 'DpRef', 'Tables', 'MadeHand'],
        'lean_modules': ['EspadaVerif.Props.C07'],
        'namespaces': ['EspadaVerif.C07'],
        'theorems': ['EspadaVerif.C07.C07_intervals', 'EspadaVerif.C07.category_names'],
        'profiles': ['debug'],
        'gen_release': True,
        'rule': 'one hand per reachable table slot (49,205 rank-count vectors + 4,719 flush masks), hands stratified over the nine '
                'categories, flush completing at card 5/6/7, all 5040 orders of selected hands, uniform random hands; the oracle column '
                'is the category of Spec.best (best of the 21 five-card hands under the rule book numbering). distinct = distinct request lines.',
        'trusted': ['Spec/Poker.lean closed-form numbering (proved to be the order rank of the rule-book strength in Props/C01)'],
        'assumptions': [],
    },
    'C14': {
        'gen_items': ['Rank', 'Suit', 'CardBits', 'Pair'],
        'lean_modules': ['EspadaVerif.Props.C14'],
        'namespaces': ['EspadaVerif.C14'],
        'theorems': ['EspadaVerif.C14.pair_canonical', 'EspadaVerif.C14.pair_text', 'EspadaVerif.C14.equal_pairs_equal_hash'],
        'profiles': ['debug'],
        'rule': 'exhaustive over the 52x51 ordered pairs of distinct cards: constructor, ==, FxHasher hash, index, display, parse of both card orders.',
        'trusted': ['derived Eq/Hash are functions of the stored fields (Rust derive semantics); FxHasher equality observed by the harness'],
        'assumptions': [],
    },
}
