#!/bin/bash
# Build the framework from files on disk only (offline): regenerate Gen/, build every proof module,
# the model driver and the harness (debug + release).
set -e
cd "$(dirname "$0")"
export CARGO_NET_OFFLINE=true
mkdir -p work lean/EspadaVerif/Gen
python3 translate/extract.py "${ESPADA_REPO:-/repo}" lean/EspadaVerif/Gen work/gen_manifest.json
( cd harness && RUSTFLAGS="--cfg espada_verif" cargo build --offline --quiet && RUSTFLAGS="--cfg espada_verif" cargo build --offline --quiet --release ) &
HP=$!
( cd lean && lake build espada_model EspadaVerif.AuditCmd $(python3 ../checklib/list_modules.py) )
wait $HP
echo "setup done"
