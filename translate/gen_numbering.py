#!/usr/bin/env python3
"""Writes the kernel-obligation files of Lemmas/Numbering.lean:

  lean/EspadaVerif/Kernel/NumTable.lean   the 7462 shapes in decreasing rule-book strength, packed
                                          (24 bits per shape, 64 shapes per Nat literal)
  lean/EspadaVerif/Kernel/NumA%02d.lean   pass A: every valid shape s has 1 <= cls s <= 7462,
                                          unrank (cls s) = s and the category agrees
  lean/EspadaVerif/Kernel/NumB%02d.lean   pass B: every i in 1..7462 has valid (unrank i), cls (unrank i) = i
                                          and str (unrank i) > str (unrank (i+1))
  lean/EspadaVerif/Kernel/NumAll.lean     glues the ranges of passes A and B together

usage: gen_numbering.py <dir of Kernel/>

The table is *untrusted* data: everything the proofs use about it is re-checked by the Lean kernel
(`decide +kernel`) in passes A and B.  The checkers and their soundness lemmas are hand-written in
Kernel/NumDefs.lean.  This script mirrors Spec/Poker.lean only to order the table and to balance
the work; it asserts that the closed form is a strength-reversing bijection before writing anything.
"""
import os, sys

out_dir = sys.argv[1]

# ---------------------------------------------------------------- mirror of Spec/Poker.lean
def is_straight(a, b, c, d, e):
    return (b == a + 1 and c == a + 2 and d == a + 3 and e == a + 4) or (a, b, c, d, e) == (0, 9, 10, 11, 12)

def straight_top(a, b):
    return 9 if (a == 0 and b == 9) else a

def strength(suited, a, b, c, d, e):
    v = lambda x: 13 - x
    def pack(cat, t1, t2, t3, t4, t5):
        return ((((cat * 14 + t1) * 14 + t2) * 14 + t3) * 14 + t4) * 14 + t5
    if a == b and b == c and c == d: return pack(7, v(a), v(e), 0, 0, 0)
    if b == c and c == d and d == e: return pack(7, v(b), v(a), 0, 0, 0)
    if a == b and b == c and d == e: return pack(6, v(a), v(d), 0, 0, 0)
    if a == b and c == d and d == e: return pack(6, v(c), v(a), 0, 0, 0)
    if a == b and b == c: return pack(3, v(a), v(d), v(e), 0, 0)
    if b == c and c == d: return pack(3, v(b), v(a), v(e), 0, 0)
    if c == d and d == e: return pack(3, v(c), v(a), v(b), 0, 0)
    if a == b and c == d: return pack(2, v(a), v(c), v(e), 0, 0)
    if a == b and d == e: return pack(2, v(a), v(d), v(c), 0, 0)
    if b == c and d == e: return pack(2, v(b), v(d), v(a), 0, 0)
    if a == b: return pack(1, v(a), v(c), v(d), v(e), 0)
    if b == c: return pack(1, v(b), v(a), v(d), v(e), 0)
    if c == d: return pack(1, v(c), v(a), v(b), v(e), 0)
    if d == e: return pack(1, v(d), v(a), v(b), v(c), 0)
    if is_straight(a, b, c, d, e):
        return pack(8 if suited else 4, v(straight_top(a, b)), 0, 0, 0, 0)
    return pack(5 if suited else 0, v(a), v(b), v(c), v(d), v(e))

def sub(x, y): return max(0, x - y)          # Nat subtraction
def choose2(n): return n * sub(n, 1) // 2
def choose3(n): return n * sub(n, 1) * sub(n, 2) // 6
def choose4(n): return n * sub(n, 1) * sub(n, 2) * sub(n, 3) // 24
def choose5(n): return n * sub(n, 1) * sub(n, 2) * sub(n, 3) * sub(n, 4) // 120
def lex5(a, b, c, d, e):
    return sub(1286, choose5(sub(12, a)) + choose4(sub(12, b)) + choose3(sub(12, c)) + choose2(sub(12, d)) + sub(12, e))
def lex2(n, x, y): return sub(sub(choose2(n), 1), choose2(sub(sub(n, 1), x)) + sub(sub(n, 1), y))
def lex3(n, x, y, z):
    return sub(sub(choose3(n), 1), choose3(sub(sub(n, 1), x)) + choose2(sub(sub(n, 1), y)) + sub(sub(n, 1), z))
def skip(r, x): return x if x < r else sub(x, 1)
def straights_before(p):
    return sum(1 for t in (0, 494, 495, 825, 1035, 1161, 1231, 1266, 1281, 1286) if t < p)
def sclass(a, b, c, d, e):
    if is_straight(a, b, c, d, e): return 10 if (a == 0 and b == 9) else 1 + a
    return sub(323 + lex5(a, b, c, d, e), straights_before(lex5(a, b, c, d, e)))
def uclass(a, b, c, d, e):
    if a == b and b == c and c == d: return 11 + 12 * a + skip(a, e)
    if b == c and c == d and d == e: return 11 + 12 * b + skip(b, a)
    if a == b and b == c and d == e: return 167 + 12 * a + skip(a, d)
    if a == b and c == d and d == e: return 167 + 12 * c + skip(c, a)
    if a == b and b == c: return 1610 + 66 * a + lex2(12, skip(a, d), skip(a, e))
    if b == c and c == d: return 1610 + 66 * b + lex2(12, skip(b, a), skip(b, e))
    if c == d and d == e: return 1610 + 66 * c + lex2(12, skip(c, a), skip(c, b))
    if a == b and c == d: return 2468 + 11 * lex2(13, a, c) + skip(c, skip(a, e))
    if a == b and d == e: return 2468 + 11 * lex2(13, a, d) + skip(d, skip(a, c))
    if b == c and d == e: return 2468 + 11 * lex2(13, b, d) + skip(d, skip(b, a))
    if a == b: return 3326 + 220 * a + lex3(12, skip(a, c), skip(a, d), skip(a, e))
    if b == c: return 3326 + 220 * b + lex3(12, skip(b, a), skip(b, d), skip(b, e))
    if c == d: return 3326 + 220 * c + lex3(12, skip(c, a), skip(c, b), skip(c, e))
    if d == e: return 3326 + 220 * d + lex3(12, skip(d, a), skip(d, b), skip(d, c))
    if is_straight(a, b, c, d, e): return 1609 if (a == 0 and b == 9) else 1600 + a
    return sub(6186 + lex5(a, b, c, d, e), straights_before(lex5(a, b, c, d, e)))

def valid(su, a, b, c, d, e):
    return a <= b <= c <= d <= e < 13 and a != e and ((not su) or a < b < c < d < e)
def cls(su, a, b, c, d, e): return sclass(a, b, c, d, e) if su else uclass(a, b, c, d, e)

# ---------------------------------------------------------------- the table
R = range(13)
shapes = [(su, a, b, c, d, e) for su in (False, True) for a in R for b in R for c in R for d in R for e in R
          if valid(su, a, b, c, d, e)]
NCLS = 7462
assert len(shapes) == NCLS
shapes.sort(key=lambda s: -strength(*s))
bad = [(i + 1, s, cls(*s)) for i, s in enumerate(shapes) if cls(*s) != i + 1]
assert not bad, 'closed form disagrees with the strength order: %r' % bad[:10]
for s, t in zip(shapes, shapes[1:]):
    assert strength(*s) > strength(*t), (s, t)

CH = 64                                       # shapes per word
def code(s):
    su, a, b, c, d, e = s
    return (int(su) << 20) | (a << 16) | (b << 12) | (c << 8) | (d << 4) | e
words = []
for k in range(0, NCLS, CH):
    w = 0
    for j, s in enumerate(shapes[k:k + CH]):
        w |= code(s) << (24 * j)
    words.append(w)

GEN = '-- generated by /verif/translate/gen_numbering.py (static; independent of /repo)'

def write(name, text):
    open(os.path.join(out_dir, name), 'w').write(text)

# remove stale generated leaf files
for f in os.listdir(out_dir):
    if (f.startswith('NumA') or f.startswith('NumB')) and f.endswith('.lean') and f != 'NumAll.lean':
        os.remove(os.path.join(out_dir, f))

s = GEN + ' -- the shapes of five-card hands in decreasing strength, packed\n'
s += 'namespace EspadaVerif.Kernel\n\n'
s += '/-- word `k` holds the shapes of classes `64*k+1 … 64*k+64`; 24 bits per shape:\n'
s += 'bit 20 = suited, then the five rank codes `a b c d e` as hex digits -/\n'
s += 'def numWords : List Nat := [\n  ' + ',\n  '.join('0x%x' % w for w in words) + ']\n'
s += '\nend EspadaVerif.Kernel\n'
write('NumTable.lean', s)

# ---------------------------------------------------------------- leaves
HEAD = GEN + """ -- kernel obligations of Lemmas/Numbering
import EspadaVerif.Kernel.NumDefs
set_option Elab.async false
set_option maxRecDepth 4000
namespace EspadaVerif.Kernel

"""
TAIL = '\nend EspadaVerif.Kernel\n'

def split_ranges(lo, hi, cost, target):
    """consecutive ranges [l, l+n) covering [lo, hi), each of cost about `target`"""
    out, l, acc = [], lo, 0
    for n in range(lo, hi):
        acc += cost(n)
        if acc >= target:
            out.append((l, n + 1 - l)); l, acc = n + 1, 0
    if l < hi:
        out.append((l, hi - l))
    return out

def emit(passname, fn, ranges, per_file):
    """leaf theorems `<pass>_<lo> : chkRange <fn> lo n = true`, `per_file` of them per module"""
    files = []
    for i in range(0, len(ranges), per_file):
        name = 'Num%s%02d' % (passname, i // per_file)
        s = HEAD
        for lo, n in ranges[i:i + per_file]:
            s += 'theorem num%s_%d : chkRange %s %d %d = true := by decide +kernel\n' % (passname, lo, fn, lo, n)
        s += TAIL
        write(name + '.lean', s)
        files.append(name)
    return files

def chain(passname, fn, ranges):
    """numX_upto_<hi> : chkRange fn lo0 (hi - lo0) = true, by appending the ranges one after the other"""
    lo0 = ranges[0][0]
    s, prev = '', None
    for lo, n in ranges:
        hi = lo + n
        if prev is None:
            s += 'theorem num%s_upto_%d : chkRange %s %d %d = true := num%s_%d\n' % (passname, hi, fn, lo0, hi - lo0, passname, lo)
        else:
            s += ('theorem num%s_upto_%d : chkRange %s %d %d = true :=\n  chkRange_append %s %d %d %d num%s_upto_%d num%s_%d\n'
                  % (passname, hi, fn, lo0, hi - lo0, fn, lo0, lo - lo0, n, passname, prev, passname, lo))
        prev = hi
    return s, prev

# pass A: n = 169 a + 13 b + c encodes the prefix (a, b, c); the leaf runs over c <= d <= e < 13, both suited flags
def costA(n):
    a, b, c = n // 169, n // 13 % 13, n % 13
    return 1 + ((13 - c) * (14 - c) // 2 * 2 if a <= b <= c else 0)
rangesA = split_ranges(0, 13 ** 3, costA, 150)
filesA = emit('A', 'leafA', rangesA, 12)

# pass B: classes 1 .. 7462
rangesB = split_ranges(1, NCLS + 1, lambda i: 1, 64)
filesB = emit('B', 'leafB', rangesB, 12)

s = GEN + ' -- glues the kernel leaves of Lemmas/Numbering\n'
for f in filesA + filesB:
    s += 'import EspadaVerif.Kernel.%s\n' % f
s += 'namespace EspadaVerif.Kernel\n\n'
ca, hiA = chain('A', 'leafA', rangesA)
cb, hiB = chain('B', 'leafB', rangesB)
assert hiA == 13 ** 3 and hiB == NCLS + 1
s += ca + '\n' + cb + '\n'
s += '/-- pass A holds for every prefix code -/\n'
s += 'theorem numA_all : chkRange leafA 0 2197 = true := numA_upto_%d\n\n' % hiA
s += '/-- pass B holds for every class index -/\n'
s += 'theorem numB_all : chkRange leafB 1 7462 = true := numB_upto_%d\n' % hiB
s += TAIL
write('NumAll.lean', s)
print('table: %d words; pass A: %d leaves in %d files; pass B: %d leaves in %d files'
      % (len(words), len(rangesA), len(filesA), len(rangesB), len(filesB)))
