#!/usr/bin/env python3
"""Translator: Rust source of axross/espada  ->  Lean data under lean/EspadaVerif/Gen/.

Shape-strict and deliberately dumb: it tokenises away comments/whitespace, finds items by
name, matches brackets, and emits *data* (tables, constants, literal strings) -- never control
flow.  Enum variants are identified by their DECLARATION INDEX (position in the `enum`),
which is also what Rust's derived `Ord`/`Hash` use; every `match` table is emitted as a list
indexed by declaration index.  Whatever it cannot read in the expected shape is recorded in
gen_manifest.json under "errors" (keyed by item) and the corresponding Gen file is left
untouched; `check` turns that into a broken tie for the properties using the item.

usage: extract.py <repo> <gen_dir> <manifest.json>
"""
import sys, os, re, json, hashlib


class ExtractError(Exception):
    pass


# ----------------------------------------------------------------------------- lexical helpers
def strip_comments(src):
    out = []
    i, n = 0, len(src)
    while i < n:
        c = src[i]
        if src.startswith('//', i):
            j = src.find('\n', i)
            i = n if j < 0 else j
        elif src.startswith('/*', i):
            depth, i = 1, i + 2
            while i < n and depth:
                if src.startswith('/*', i):
                    depth += 1; i += 2
                elif src.startswith('*/', i):
                    depth -= 1; i += 2
                else:
                    i += 1
        elif src.startswith('r"', i):  # raw string (the regex literals)
            j = src.find('"', i + 2)
            out.append(src[i:j + 1]); i = j + 1
        elif c == '"':
            j = i + 1
            while src[j] != '"':
                j += 2 if src[j] == '\\' else 1
            out.append(src[i:j + 1]); i = j + 1
        elif c == "'" and i + 2 < n and (src[i + 2] == "'" or (src[i + 1] == '\\' and src[i + 3] == "'")):
            j = i + (3 if src[i + 2] == "'" else 4)
            out.append(src[i:j]); i = j
        else:
            out.append(c); i += 1
    return ''.join(out)


def match_bracket(s, i):
    """s[i] is an opening bracket; return index just past its partner (string/char aware)."""
    pairs = {'{': '}', '(': ')', '[': ']'}
    stack = [pairs[s[i]]]
    j = i + 1
    while stack:
        if j >= len(s):
            raise ExtractError('unbalanced bracket')
        c = s[j]
        if c == '"':
            j += 1
            while s[j] != '"':
                j += 2 if s[j] == '\\' else 1
        elif s.startswith('r"', j):
            j = s.find('"', j + 2)
        elif c == "'" and j + 2 < len(s) and s[j + 2] == "'":
            j += 2
        elif c in pairs:
            stack.append(pairs[c])
        elif c in ')]}':
            if c != stack.pop():
                raise ExtractError('mismatched bracket')
        j += 1
    return j


def strip_test_modules(s):
    """remove every `#[cfg(test)] mod NAME { ... }` block."""
    while True:
        m = re.search(r'#\[cfg\(test\)\]\s*mod\s+\w+\s*\{', s)
        if not m:
            return s
        end = match_bracket(s, m.end() - 1)
        s = s[:m.start()] + s[end:]


def load(repo, rel):
    p = os.path.join(repo, rel)
    if not os.path.exists(p):
        raise ExtractError('missing file ' + rel)
    return strip_test_modules(strip_comments(open(p).read()))


def block_after(s, pattern, what):
    """text inside the {...} that follows the first regex match of `pattern`."""
    m = re.search(pattern, s)
    if not m:
        raise ExtractError('cannot find ' + what)
    i = s.find('{', m.end() - 1)
    if i < 0:
        raise ExtractError('no block for ' + what)
    j = match_bracket(s, i)
    return s[i + 1:j - 1]


def split_top(s, sep=','):
    """split on sep at bracket depth 0."""
    parts, depth, cur, i = [], 0, [], 0
    while i < len(s):
        c = s[i]
        if c in '([{':
            j = match_bracket(s, i)
            cur.append(s[i:j]); i = j; continue
        if c == '"':
            j = i + 1
            while s[j] != '"':
                j += 2 if s[j] == '\\' else 1
            cur.append(s[i:j + 1]); i = j + 1; continue
        if c == "'" and i + 2 < len(s) and s[i + 2] == "'":
            cur.append(s[i:i + 3]); i += 3; continue
        if c == sep:
            parts.append(''.join(cur)); cur = []
        else:
            cur.append(c)
        i += 1
    if ''.join(cur).strip():
        parts.append(''.join(cur))
    return [p.strip() for p in parts]


def match_arms(body, what):
    """`match X { pat => expr, ... }` inside body (first match) -> list of (pat, expr)."""
    m = re.search(r'\bmatch\b[^{]*\{', body)
    if not m:
        raise ExtractError('no match in ' + what)
    j = match_bracket(body, m.end() - 1)
    inner = body[m.end():j - 1]
    arms = []
    for part in split_top(inner):
        if '=>' not in part:
            raise ExtractError('bad arm in %s: %r' % (what, part[:40]))
        pat, expr = part.split('=>', 1)
        arms.append((pat.strip(), expr.strip()))
    return arms


def norm(s):
    return re.sub(r'\s+', '', s)


def intlit(s, what='int'):
    t = norm(s).replace('_', '')
    t = re.sub(r'(u8|u16|u32|u64|usize|i32)$', '', t)
    try:
        if t.startswith('0b'):
            return int(t[2:], 2)
        if t.startswith('0x'):
            return int(t[2:], 16)
        return int(t)
    except ValueError:
        raise ExtractError('not an integer literal (%s): %r' % (what, s[:40]))


# ----------------------------------------------------------------------------- enums
def enum_variants(s, name):
    body = block_after(s, r'\benum\s+%s\b' % name, 'enum ' + name)
    vs = [v.strip() for v in split_top(body)]
    for v in vs:
        if not re.fullmatch(r'\w+', v):
            raise ExtractError('enum %s: non-unit variant %r' % (name, v))
    return vs


def table_by_variant(arms, enum, variants, what, conv, allow_wild=False):
    """arms of a total match over `enum` -> list indexed by declaration index."""
    tbl = {}
    wild = None
    for pat, expr in arms:
        if pat == '_':
            wild = expr; continue
        m = re.fullmatch(r'(?:%s|Self)::(\w+)' % enum, norm(pat))
        if not m or m.group(1) not in variants:
            raise ExtractError('%s: unexpected pattern %r' % (what, pat))
        if m.group(1) in tbl:
            raise ExtractError('%s: duplicate arm %r' % (what, pat))
        tbl[m.group(1)] = conv(expr)
    out = []
    for v in variants:
        if v in tbl:
            out.append(tbl[v])
        elif wild is not None and allow_wild:
            out.append(conv(wild))
        else:
            raise ExtractError('%s: no arm for %s' % (what, v))
    return out


def opt_variant(enum, variants):
    def conv(e):
        e = norm(e)
        if e == 'None':
            return None
        m = re.fullmatch(r'Some\((?:%s|Self)::(\w+)\)' % enum, e)
        if not m or m.group(1) not in variants:
            raise ExtractError('expected Option<%s>: %r' % (enum, e))
        return variants.index(m.group(1))
    return conv


def charlit(e):
    e = e.strip()
    m = re.fullmatch(r"'(.)'", e)
    if not m:
        raise ExtractError('expected char literal: %r' % e)
    return ord(m.group(1))


def char_to_variant(arms, enum, variants, what):
    """TryFrom<&char>: 'A' => Ok(Rank::Ace), ..., _ => Err(()) -> list of (byte, declidx)."""
    out = []
    saw_wild = False
    for pat, expr in arms:
        if pat == '_':
            if norm(expr) != 'Err(())':
                raise ExtractError(what + ': wildcard arm is not Err(())')
            saw_wild = True; continue
        c = charlit(pat)
        m = re.fullmatch(r'Ok\((?:%s|Self)::(\w+)\)' % enum, norm(expr))
        if not m or m.group(1) not in variants:
            raise ExtractError('%s: unexpected arm %r' % (what, expr))
        out.append((c, variants.index(m.group(1))))
    if not saw_wild:
        raise ExtractError(what + ': no wildcard arm')
    return out


# ----------------------------------------------------------------------------- Lean printing
def lean_list(xs):
    return '[' + ', '.join(str(x) for x in xs) + ']'


def lean_opt(x):
    return 'none' if x is None else '(some %d)' % x


def lean_str(s):
    return '"' + s.replace('\\', '\\\\').replace('"', '\\"') + '"'


HEADER = "-- GENERATED by /verif/translate/extract.py from /repo -- do not edit\nnamespace EspadaVerif.Gen\n\n"
FOOTER = "\nend EspadaVerif.Gen\n"

CHUNK = 512  # table slots per packed Nat literal (16 bits per slot)


def packed_table(name, vals):
    if any(v < 0 or v > 0xFFFF for v in vals):
        raise ExtractError(name + ': value out of u16')
    chunks = []
    for s in range(0, len(vals), CHUNK):
        n = 0
        for i, v in enumerate(vals[s:s + CHUNK]):
            n |= v << (16 * i)
        chunks.append('0x%x' % n)
    out = 'def %sLen : Nat := %d\n' % (name, len(vals))
    out += 'def %sChunkSlots : Nat := %d\n' % (name, CHUNK)
    out += 'def %sChunks : List Nat := [\n  ' % name + ',\n  '.join(chunks) + ']\n'
    return out


# ----------------------------------------------------------------------------- per-item extractors
def gen_rank(repo):
    s = load(repo, 'src/card/rank.rs')
    vs = enum_variants(s, 'Rank')
    if len(vs) != 13:
        raise ExtractError('Rank: expected 13 variants')
    ch = char_to_variant(match_arms(block_after(s, r'impl\s+TryFrom<&char>\s+for\s+Rank', 'TryFrom<&char> for Rank'),
                                    'Rank try_from'), 'Rank', vs, 'Rank try_from')
    u8 = table_by_variant(match_arms(block_after(s, r'impl\s+From<&Rank>\s+for\s+u8', 'From<&Rank> for u8'), 'Rank u8'),
                          'Rank', vs, 'Rank->u8', lambda e: intlit(e, 'rank u8'))
    chars = table_by_variant(match_arms(block_after(s, r'impl\s+From<&Rank>\s+for\s+char', 'From<&Rank> for char'), 'Rank char'),
                             'Rank', vs, 'Rank->char', charlit)
    derives = re.search(r'#\[derive\(([^)]*)\)\]\s*pub\s+enum\s+Rank', s)
    dl = sorted(norm(derives.group(1)).split(',')) if derives else []
    out = HEADER
    out += '/-- variant names of `enum Rank`, in declaration order (= derived `Ord`) -/\n'
    out += 'def rankNames : List String := [' + ', '.join(lean_str(v) for v in vs) + ']\n'
    out += 'def rankDerives : List String := [' + ', '.join(lean_str(v) for v in dl) + ']\n'
    out += '/-- `u8::from(&Rank)`, indexed by declaration index -/\n'
    out += 'def rankU8Tbl : List Nat := %s\n' % lean_list(u8)
    out += '/-- `char::from(&Rank)` as ASCII byte, indexed by declaration index -/\n'
    out += 'def rankCharTbl : List Nat := %s\n' % lean_list(chars)
    out += '/-- arms of `Rank::try_from(&char)` in source order: (byte, declaration index); wildcard = Err -/\n'
    out += 'def rankOfCharArms : List (Nat × Nat) := [' + ', '.join('(%d, %d)' % p for p in ch) + ']\n'
    return out + FOOTER, vs


def gen_rank_succ(repo, vs):
    """`Rank::next` / `Rank::prev` (their own item: only the range notation and the formatter use them)"""
    s = load(repo, 'src/card/rank.rs')
    prev = table_by_variant(match_arms(block_after(s, r'fn\s+prev\s*\(', 'Rank::prev'), 'prev'),
                            'Rank', vs, 'Rank::prev', opt_variant('Rank', vs))
    nxt = table_by_variant(match_arms(block_after(s, r'fn\s+next\s*\(', 'Rank::next'), 'next'),
                           'Rank', vs, 'Rank::next', opt_variant('Rank', vs))
    out = HEADER
    out += 'def rankPrevTbl : List (Option Nat) := [' + ', '.join('none' if x is None else 'some %d' % x for x in prev) + ']\n'
    out += 'def rankNextTbl : List (Option Nat) := [' + ', '.join('none' if x is None else 'some %d' % x for x in nxt) + ']\n'
    return out + FOOTER


def gen_suit(repo):
    s = load(repo, 'src/card/suit.rs')
    vs = enum_variants(s, 'Suit')
    if len(vs) != 4:
        raise ExtractError('Suit: expected 4 variants')
    ch = char_to_variant(match_arms(block_after(s, r'impl\s+TryFrom<&char>\s+for\s+Suit', 'TryFrom<&char> for Suit'),
                                    'Suit try_from'), 'Suit', vs, 'Suit try_from')
    u8 = table_by_variant(match_arms(block_after(s, r'impl\s+From<&Suit>\s+for\s+u8', 'From<&Suit> for u8'), 'Suit u8'),
                          'Suit', vs, 'Suit->u8', lambda e: intlit(e, 'suit u8'))
    chars = table_by_variant(match_arms(block_after(s, r'impl\s+From<&Suit>\s+for\s+char', 'From<&Suit> for char'), 'Suit char'),
                             'Suit', vs, 'Suit->char', charlit)
    derives = re.search(r'#\[derive\(([^)]*)\)\]\s*pub\s+enum\s+Suit', s)
    dl = sorted(norm(derives.group(1)).split(',')) if derives else []
    out = HEADER
    out += 'def suitNames : List String := [' + ', '.join(lean_str(v) for v in vs) + ']\n'
    out += 'def suitDerives : List String := [' + ', '.join(lean_str(v) for v in dl) + ']\n'
    out += 'def suitU8Tbl : List Nat := %s\n' % lean_list(u8)
    out += 'def suitCharTbl : List Nat := %s\n' % lean_list(chars)
    out += 'def suitOfCharArms : List (Nat × Nat) := [' + ', '.join('(%d, %d)' % p for p in ch) + ']\n'
    return out + FOOTER, vs


def const_array_of_variants(s, name, enum, variants):
    m = re.search(r'const\s+%s\s*:\s*\[\s*%s\s*;\s*(\d+)\s*\]\s*=\s*\[' % (name, enum), s)
    if not m:
        raise ExtractError('cannot find const %s' % name)
    j = match_bracket(s, m.end() - 1)
    items = split_top(s[m.end():j - 1])
    out = []
    for it in items:
        mm = re.fullmatch(r'%s::(\w+)' % enum, norm(it))
        if not mm or mm.group(1) not in variants:
            raise ExtractError('%s: bad element %r' % (name, it))
        out.append(variants.index(mm.group(1)))
    if len(out) != int(m.group(1)):
        raise ExtractError('%s: length mismatch' % name)
    return out


def gen_card(repo, ranks, suits):
    s = load(repo, 'src/card/card.rs')
    masks = {}
    for m in re.finditer(r'const\s+(\w+)_MASK\s*:\s*u64\s*=\s*([^;]+);', s):
        masks[m.group(1) + '_MASK'] = intlit(m.group(2), m.group(1))
    # Card struct: field order and derives
    m = re.search(r'#\[derive\(([^)]*)\)\]\s*pub\s+struct\s+Card\s*\(\s*(\w+)\s*,\s*(\w+)\s*\)', s)
    if not m:
        raise ExtractError('struct Card(Rank, Suit) not found')
    card_derives = sorted(norm(m.group(1)).split(','))
    card_fields = [m.group(2), m.group(3)]
    # From<&u64> for Card: two if/else-if chains
    body = block_after(s, r'impl\s+From<&u64>\s+for\s+Card', 'From<&u64> for Card')
    probes = re.findall(r'if\s+value\s*&\s*(\w+)\s*>=\s*1\s*\{\s*(Suit|Rank)::(\w+)\s*\}', body)
    suit_probe = [(masks.get(mk), suits.index(v)) for (mk, e, v) in probes if e == 'Suit']
    rank_probe = [(masks.get(mk), ranks.index(v)) for (mk, e, v) in probes if e == 'Rank']
    if len(suit_probe) != 4 or len(rank_probe) != 13 or any(p[0] is None for p in suit_probe + rank_probe):
        raise ExtractError('From<&u64> for Card: probe chains not in the expected shape')
    if len(re.findall(r'else\s*\{\s*panic!\(\s*\)\s*;?\s*\}', body)) != 2:
        raise ExtractError('From<&u64> for Card: expected two panic!() else-arms')
    if not re.search(r'let\s+suit\s*=\s*if', body) or not re.search(r'let\s+rank\s*=\s*if', body) \
            or not re.search(r'Card::new\(\s*rank\s*,\s*suit\s*\)', body):
        raise ExtractError('From<&u64> for Card: unexpected structure')
    # From<&Card> for u64
    body = block_after(s, r'impl\s+From<&Card>\s+for\s+u64', 'From<&Card> for u64')
    ms = list(re.finditer(r'let\s+(\w+)\s*=\s*match\s+card\.(\d)\s*\{', body))
    if len(ms) != 2:
        raise ExtractError('From<&Card> for u64: expected two matches')
    tbls = {}
    for mm in ms:
        j = match_bracket(body, mm.end() - 1)
        arms = []
        for part in split_top(body[mm.end():j - 1]):
            p, e = part.split('=>')
            arms.append((p.strip(), e.strip()))
        field = card_fields[int(mm.group(2))]
        vs = ranks if field == 'Rank' else suits
        tbls[mm.group(1)] = (field, table_by_variant(arms, field, vs, 'u64 of card ' + field,
                                                     lambda e: masks[norm(e)] if norm(e) in masks else (_ for _ in ()).throw(ExtractError('unknown mask ' + e))))
    mm = re.search(r'(\w+)&(\w+)\}$', norm(body))
    if not mm or set(mm.groups()) != set(tbls.keys()):
        raise ExtractError('From<&Card> for u64: result is not `a & b`')
    rank_mask = [t for (f, t) in tbls.values() if f == 'Rank'][0]
    suit_mask = [t for (f, t) in tbls.values() if f == 'Suit'][0]
    # Display: "{}{}" rank then suit
    disp = block_after(s, r'impl\s+Display\s+for\s+Card', 'Display for Card')
    if not re.search(r'write!\(\s*f\s*,\s*"\{\}\{\}"\s*,\s*self\.rank\(\)\s*,\s*self\.suit\(\)\s*\)', disp):
        raise ExtractError('Display for Card: not "{}{}", rank, suit')
    out = HEADER
    out += 'def cardDerives : List String := [' + ', '.join(lean_str(v) for v in card_derives) + ']\n'
    out += '/-- field order of `struct Card(..)`: derived Ord is lexicographic in this order -/\n'
    out += 'def cardFields : List String := [' + ', '.join(lean_str(v) for v in card_fields) + ']\n'
    out += '/-- rank mask used by `u64::from(&Card)`, by rank declaration index -/\n'
    out += 'def rankMaskTbl : List Nat := %s\n' % lean_list(rank_mask)
    out += 'def suitMaskTbl : List Nat := %s\n' % lean_list(suit_mask)
    out += '/-- `Card::from(&u64)`: probes in source order (mask, declaration index); no hit = panic -/\n'
    out += 'def suitProbe : List (Nat × Nat) := [' + ', '.join('(%d, %d)' % p for p in suit_probe) + ']\n'
    out += 'def rankProbe : List (Nat × Nat) := [' + ', '.join('(%d, %d)' % p for p in rank_probe) + ']\n'
    return out + FOOTER


def gen_ranges(repo, ranks, suits):
    s = load(repo, 'src/card/rank_range.rs')
    rr = const_array_of_variants(s, 'RANKS', 'Rank', ranks)
    t = load(repo, 'src/card/suit_range.rs')
    ss = const_array_of_variants(t, 'SUITS', 'Suit', suits)

    def shape(src, arr, enum):
        new = norm(block_after(src, r'pub\s+fn\s+new\s*\(', enum + 'Range::new'))
        inc = norm(block_after(src, r'pub\s+fn\s+inclusive\s*\(', enum + 'Range::inclusive'))
        al = norm(block_after(src, r'pub\s+fn\s+all\s*\(', enum + 'Range::all'))
        conv = r'(u8::from\(%s\)asusize|u8::from\(%s\)\.into\(\))'
        for body, incl in ((new, 'false'), (inc, 'true')):
            if not re.fullmatch(r'Self\{start:' + conv % ('start', 'start') + ',end:' + conv % ('end', 'end') + ',inclusive:' + incl + ',\}', body):
                raise ExtractError(enum + 'Range constructors not in the expected shape')
        if al != 'Self{start:0,end:%s.len(),inclusive:false,}' % arr:
            raise ExtractError(enum + 'Range::all not in the expected shape')
        it = norm(block_after(src, r'fn\s+into_iter\s*\(', enum + 'Range::into_iter'))
        want = 'letvec:Vec<%s>=matchself.inclusive{true=>%s[self.start..=self.end].into(),false=>%s[self.start..self.end].into(),};vec.into_iter()' % (enum, arr, arr)
        if it != want:
            raise ExtractError(enum + 'Range::into_iter not in the expected shape')
    shape(s, 'RANKS', 'Rank')
    shape(t, 'SUITS', 'Suit')
    out = HEADER
    out += '/-- `RANKS` of rank_range.rs (declaration indexes); ranges slice it by u8 codes -/\n'
    out += 'def rangeRanks : List Nat := %s\n' % lean_list(rr)
    out += 'def rangeSuits : List Nat := %s\n' % lean_list(ss)
    return out + FOOTER


def array_u16(s, name):
    m = re.search(r'(?:const|static)\s+%s\s*:\s*\[\s*u16\s*;\s*([0-9a-fA-Fxb_]+(?:usize)?)\s*\]\s*=\s*\[' % name, s)
    if not m:
        raise ExtractError('cannot find const %s' % name)
    j = match_bracket(s, m.end() - 1)
    vals = [intlit(x, name) for x in s[m.end():j - 1].split(',') if x.strip()]
    if len(vals) != intlit(m.group(1), name + ' length'):
        raise ExtractError('%s: declared length %s, found %d' % (name, m.group(1), len(vals)))
    return vals


def gen_dpref(repo, ranks):
    s = load(repo, 'src/evaluator/dp_table.rs')
    body = block_after(s, r'pub\s+fn\s+dp_ref\s*\(\s*len\s*:\s*u8\s*,\s*rank\s*:\s*&Rank\s*,\s*remaining_len\s*:\s*u8\s*\)', 'dp_ref')
    outer = match_arms(body, 'dp_ref')
    if norm(re.search(r'\bmatch\b([^{]*)\{', body).group(1)) != 'len':
        raise ExtractError('dp_ref: outer match is not on len')
    rows = {}
    wild = False
    for pat, expr in outer:
        if pat == '_':
            if not norm(expr).startswith('panic!('):
                raise ExtractError('dp_ref: wildcard arm is not a panic')
            wild = True; continue
        ln = intlit(pat, 'dp_ref len')
        if not norm(expr).startswith('matchrank{'):
            raise ExtractError('dp_ref: inner match is not on rank')
        inner = match_arms(expr, 'dp_ref inner')

        def conv(e):
            mm = re.fullmatch(r'(\w+)\[remaining_lenasusize\]', norm(e))
            if not mm:
                raise ExtractError('dp_ref: arm is not NAME[remaining_len as usize]: %r' % e)
            return array_u16(s, mm.group(1))
        rows[ln] = table_by_variant(inner, 'Rank', ranks, 'dp_ref len %d' % ln, conv)
    if not wild:
        raise ExtractError('dp_ref: no panic arm')
    lens = sorted(rows)
    out = HEADER
    out += '/-- `dp_ref(len, rank, remaining)`: the `len` arms present (anything else panics) -/\n'
    out += 'def dpRefLens : List Nat := %s\n' % lean_list(lens)
    out += '/-- rows by (position of len in dpRefLens, rank declaration index); the row is indexed by `remaining_len` (out of range = panic) -/\n'
    out += 'def dpRefRows : List (List (List Nat)) := [\n'
    out += ',\n'.join('  [' + ',\n   '.join(lean_list(r) for r in rows[ln]) + ']' for ln in lens)
    out += ']\n'
    return out + FOOTER


def gen_tables(repo):
    s = load(repo, 'src/evaluator/dp_table.rs')
    fl = array_u16(s, 'AS_FLUSH')
    rb = array_u16(s, 'AS_RAINBOW')
    return (HEADER + packed_table('asFlush', fl) + FOOTER,
            HEADER + packed_table('asRainbow', rb) + FOOTER,
            {'AS_FLUSH': hashlib.sha256(json.dumps(fl).encode()).hexdigest(),
             'AS_RAINBOW': hashlib.sha256(json.dumps(rb).encode()).hexdigest()})


def gen_handtype(repo):
    s = load(repo, 'src/evaluator/made_hand.rs')
    # hand_type arms
    ht = block_after(s, r'pub\s+fn\s+hand_type\s*\(', 'hand_type')
    msr = re.search(r'\bmatch\b([^{]*)\{', ht)
    if not msr:
        raise ExtractError('hand_type: no match expression')
    scrut = norm(msr.group(1))
    if scrut not in ('self.0', 'self.power_index()'):
        # `let n = self.0;` (or `self.power_index()`) followed by `match n`
        lm = re.search(r'\blet\s+(\w+)(?:\s*:\s*u16)?\s*=\s*(self\s*\.\s*0|self\s*\.\s*power_index\s*\(\s*\))\s*;', ht)
        if not (lm and lm.group(1) == scrut and len(re.findall(r'\b%s\b' % re.escape(scrut), ht)) == 2):
            raise ExtractError('hand_type: match is not on self.0')
    cats = enum_variants(s, 'MadeHandType')
    arms = []
    wild = None
    num = r'(?:0x[0-9a-fA-F_]+|0b[01_]+|[0-9][0-9_]*)(?:u16)?'
    for pat, expr in match_arms(ht, 'hand_type'):
        mm = re.fullmatch(r'(?:MadeHandType|Self)::(\w+)', norm(expr))
        if not mm or mm.group(1) not in cats:
            raise ExtractError('hand_type: bad arm value %r' % expr)
        if pat == '_':
            wild = mm.group(1); continue
        if wild is not None:
            raise ExtractError('hand_type: arm after wildcard')
        pm = re.fullmatch(r'(%s)\.\.=(%s)' % (num, num), norm(pat))
        ph = re.fullmatch(r'(%s)\.\.(%s)' % (num, num), norm(pat))
        p1 = re.fullmatch(num, norm(pat))
        if pm:
            arms.append((intlit(pm.group(1)), intlit(pm.group(2)), mm.group(1)))
        elif ph and intlit(ph.group(2)) > 0:
            # half-open `a..b` = inclusive `a..=b-1`
            arms.append((intlit(ph.group(1)), intlit(ph.group(2)) - 1, mm.group(1)))
        elif p1:
            arms.append((intlit(norm(pat)), intlit(norm(pat)), mm.group(1)))
        else:
            raise ExtractError('hand_type: unsupported pattern %r' % pat)
    # pairwise disjoint arms mean the same in any order: list them by lower bound (first-match order is kept otherwise)
    srt = sorted(arms)
    if all(a[0] <= a[1] for a in srt) and all(srt[i][1] < srt[i + 1][0] for i in range(len(srt) - 1)):
        arms = srt
    if wild is None:
        raise ExtractError('hand_type: no wildcard arm')
    ht_out = HEADER
    ht_out += 'def categoryNames : List String := [' + ', '.join(lean_str(v) for v in cats) + ']\n'
    ht_out += '/-- arms of `hand_type` in source order: (lo, hi inclusive, category declaration index) -/\n'
    ht_out += 'def handTypeArms : List (Nat × Nat × Nat) := [' + ', '.join('(%d, %d, %d)' % (a, b, cats.index(c)) for a, b, c in arms) + ']\n'
    ht_out += 'def handTypeWild : Nat := %d\n' % cats.index(wild)
    return ht_out + FOOTER


def gen_madehand(repo, ranks, suits):
    s = load(repo, 'src/evaluator/made_hand.rs')
    # find_flush_suit
    ff = norm(block_after(s, r'fn\s+find_flush_suit', 'find_flush_suit'))
    want = ('letmutsuit_counts=[0;4];forcardincards{letsuit=card.suit();letsuit_index=u8::from(suit)asusize;'
            'suit_counts[suit_index]+=1;ifsuit_counts[suit_index]>=(\\d+)\\{returnSome\\(\\*suit\\);\\}\\}None')
    want = re.escape('letmutsuit_counts=[0;4];forcardincards{letsuit=card.suit();letsuit_index=u8::from(suit)asusize;'
                     'suit_counts[suit_index]+=1;ifsuit_counts[suit_index]>=') + r'(\d+)' + re.escape('{returnSome(*suit);}}None')
    mm = re.fullmatch(want, ff)
    if not mm:
        raise ExtractError('find_flush_suit: not in the expected shape')
    threshold = int(mm.group(1))
    # hash_for_flush
    hf = block_after(s, r'fn\s+hash_for_flush', 'hash_for_flush')
    hfn = norm(hf)
    if not (hfn.startswith('letmuthash:u16=0;forcardincards.iter(){ifcard.suit()==suit{hash+=matchcard.rank(){') and hfn.endswith('};}}hash')):
        raise ExtractError('hash_for_flush: not in the expected shape')
    weights = table_by_variant(match_arms(hf, 'hash_for_flush'), 'Rank', ranks, 'hash_for_flush', lambda e: intlit(e, 'flush weight'))
    # RANKS walk + hash_for_rainbow
    walk = const_array_of_variants(s, 'RANKS', 'Rank', ranks)
    hr = norm(block_after(s, r'fn\s+hash_for_rainbow', 'hash_for_rainbow'))
    want = ('letmutcard_len_each_rank:[u8;13]=[0;13];letmutremaining_card_len:u8=0;forcardincards.iter(){'
            'letrank_index=u8::from(card.rank())asusize;card_len_each_rank[rank_index]+=1;remaining_card_len+=1;}'
            'letmuthash:u16=0;forrankinRANKS{letrank_index=u8::from(rank)asusize;letlen:u8=card_len_each_rank[rank_index];'
            'iflen==0{continue;}hash+=dp_ref(len,&rank,remaining_card_len);remaining_card_len-=len;'
            'ifremaining_card_len<=0{break;}}hash')
    if hr != want:
        raise ExtractError('hash_for_rainbow: not in the expected shape')
    fr = norm(block_after(s, r'impl\s+From<\[Card;\s*7\]>\s+for\s+MadeHand', 'From<[Card;7]> for MadeHand'))
    want = ('fnfrom(cards:[Card;7])->Self{letflash_suit=find_flush_suit(&cards);matchflash_suit{'
            'Some(suit)=>MadeHand(AS_FLUSH[hash_for_flush(&cards,&suit)asusize]),'
            '_=>MadeHand(AS_RAINBOW[hash_for_rainbow(&cards)asusize]),}}')
    if fr != want:
        raise ExtractError('From<[Card;7]> for MadeHand: not in the expected shape')
    pc = norm(block_after(s, r'impl\s+PartialOrd\s+for\s+MadeHand', 'PartialOrd for MadeHand'))
    if 'self.power_index().partial_cmp(&other.power_index())' not in pc:
        raise ExtractError('PartialOrd for MadeHand: not power_index comparison')
    mm = re.search(r'#\[derive\(([^)]*)\)\]\s*pub\s+struct\s+MadeHand\s*\(\s*u16\s*\)', s)
    if not mm:
        raise ExtractError('struct MadeHand(u16) not found')
    out = HEADER
    out += 'def madeHandDerives : List String := [' + ', '.join(lean_str(v) for v in sorted(norm(mm.group(1)).split(','))) + ']\n'
    out += 'def flushThreshold : Nat := %d\n' % threshold
    out += '/-- weight added by `hash_for_flush`, by rank declaration index -/\n'
    out += 'def flushWeightTbl : List Nat := %s\n' % lean_list(weights)
    out += '/-- `RANKS` walk order of `hash_for_rainbow` (rank declaration indexes) -/\n'
    out += 'def rainbowWalk : List Nat := %s\n' % lean_list(walk)
    return out + FOOTER


def gen_rankpair(repo, ranks, suits):
    s = load(repo, 'src/hand_range/rank_pair.rs')
    body = block_after(s, r'impl\s+IntoIterator\s+for\s+RankPair', 'IntoIterator for RankPair')
    arms = match_arms(body, 'RankPair::into_iter')
    res = {}
    for pat, expr in arms:
        p = norm(pat)
        e = norm(expr)
        if not (e.startswith('vec![') and e.endswith('].into_iter()')):
            raise ExtractError('RankPair::into_iter: arm is not vec![..].into_iter()')
        inner = e[len('vec!['):-len('].into_iter()')]
        items = split_top(inner)
        if p == 'RankPair::Pocket(rank)':
            kind, a, b = 'pocket', 'rank', 'rank'
        elif p == 'RankPair::Suited(high,kicker)':
            kind, a, b = 'suited', 'high', 'kicker'
        elif p == 'RankPair::Ofsuit(high,kicker)':
            kind, a, b = 'ofsuit', 'high', 'kicker'
        else:
            raise ExtractError('RankPair::into_iter: unexpected pattern %r' % pat)
        lst = []
        for it in items:
            mm = re.fullmatch(r'CardPair::new\(Card::new\(%s,Suit::(\w+)\),Card::new\(%s,Suit::(\w+)\),?\)' % (a, b), it)
            if not mm or mm.group(1) not in suits or mm.group(2) not in suits:
                raise ExtractError('RankPair::into_iter: bad element %r' % it[:60])
            lst.append((suits.index(mm.group(1)), suits.index(mm.group(2))))
        res[kind] = lst
    if set(res) != {'pocket', 'suited', 'ofsuit'}:
        raise ExtractError('RankPair::into_iter: missing arm')
    vs = [norm(v) for v in split_top(block_after(s, r'\benum\s+RankPair\b', 'enum RankPair'))]
    if vs != ['Pocket(Rank)', 'Suited(Rank,Rank)', 'Ofsuit(Rank,Rank)']:
        raise ExtractError('enum RankPair: unexpected variants')
    disp = norm(block_after(s, r'impl\s+Display\s+for\s+RankPair', 'Display for RankPair'))
    for frag in ('RankPair::Pocket(rank)=>write!(f,"{}{}",rank,rank)',
                 'RankPair::Suited(high,kicker)=>write!(f,"{}{}s",high,kicker)',
                 'RankPair::Ofsuit(high,kicker)=>write!(f,"{}{}o",high,kicker)'):
        if frag not in disp:
            raise ExtractError('Display for RankPair: not in the expected shape')
    out = HEADER
    out += '/-- `RankPair::into_iter`: (suit of first card, suit of second card) per combo, in source order;\n'
    out += '    first card has the pair\'s first rank, second card the second rank; each goes through `CardPair::new` -/\n'
    for k in ('pocket', 'suited', 'ofsuit'):
        out += 'def %sSuits : List (Nat × Nat) := [' % k + ', '.join('(%d, %d)' % p for p in res[k]) + ']\n'
    return out + FOOTER


def gen_pair(repo):
    s = load(repo, 'src/hand_range/card_pair.rs')
    m = re.search(r'#\[derive\(([^)]*)\)\]\s*pub\s+struct\s+CardPair\s*\(\s*Card\s*,\s*Card\s*\)', s)
    if not m:
        raise ExtractError('struct CardPair(Card, Card) not found')
    derives = sorted(norm(m.group(1)).split(','))
    new = norm(block_after(s, r'pub\s+fn\s+new\s*\(\s*left', 'CardPair::new'))
    new = new.replace('Self(', 'CardPair(')
    mm = re.fullmatch(r'if(left|right)(>|<|>=|<=)(left|right)\{CardPair\((\w+),(\w+)\)\}else\{CardPair\((\w+),(\w+)\)\}', new)
    minmax = new in ('CardPair(min(left,right),max(left,right))', 'CardPair(min(right,left),max(right,left))',
                     'CardPair(min(left,right),max(right,left))', 'CardPair(min(right,left),max(left,right))',
                     'CardPair(left.min(right),left.max(right))', 'CardPair(right.min(left),right.max(left))',
                     'CardPair(left.min(right),right.max(left))', 'CardPair(right.min(left),left.max(right))',
                     'CardPair(std::cmp::min(left,right),std::cmp::max(left,right))')
    if mm and mm.group(1) != mm.group(3):
        a, op, _, t1, t2, e1, e2 = mm.groups()
        if a == 'right':                       # `right OP left` is `left OP' right`
            op = {'>': '<', '<': '>', '>=': '<=', '<=': '>='}[op]
        mm = (op, t1, t2, e1, e2)
    elif minmax:
        mm = ('>', 'right', 'left', 'left', 'right')    # Ord::min / Ord::max of a total order: the sorted pair
    else:
        raise ExtractError('CardPair::new: not in the expected shape')
    # `Card` is totally ordered (derived Ord), so what matters is the result for left < right and for left > right
    # (for left == right both operand orders give the same pair); the sorted pair is emitted in one canonical form
    if all(x in ('left', 'right') for x in mm[1:]):
        holds = {'>': (False, True), '<': (True, False), '>=': (False, True), '<=': (True, False)}[mm[0]]   # (when left<right, when left>right)
        res_lt = (mm[1], mm[2]) if holds[0] else (mm[3], mm[4])
        res_gt = (mm[1], mm[2]) if holds[1] else (mm[3], mm[4])
        if res_lt == ('left', 'right') and res_gt == ('right', 'left'):
            # equal cards: either branch yields (c, c) only if both branches use both operands
            if set((mm[1], mm[2])) == {'left', 'right'} and set((mm[3], mm[4])) == {'left', 'right'}:
                mm = ('>', 'right', 'left', 'left', 'right')
    class _G:
        def __init__(self, t): self.t = t
        def groups(self): return self.t
    mm = _G(mm)
    idx = match_arms(block_after(s, r'impl\s+Index<usize>\s+for\s+CardPair', 'Index for CardPair'), 'CardPair index')
    idxn = [(norm(p), norm(e)) for p, e in idx]
    if idxn[:2] != [('0', '&self.0'), ('1', '&self.1')] or len(idxn) != 3 or idxn[2][0] != '_' or not idxn[2][1].startswith('panic!('):
        raise ExtractError('Index for CardPair: not in the expected shape')
    disp = norm(block_after(s, r'impl\s+Display\s+for\s+CardPair', 'Display for CardPair'))
    if 'write!(f,"{}{}",self.0,self.1)' not in disp:
        raise ExtractError('Display for CardPair: not in the expected shape')
    out = HEADER
    out += 'def pairDerives : List String := [' + ', '.join(lean_str(v) for v in derives) + ']\n'
    ops = {'>': 0, '<': 1, '>=': 2, '<=': 3}
    pick = {'left': 0, 'right': 1}
    g = mm.groups()
    if any(x not in pick for x in g[1:]):
        raise ExtractError('CardPair::new: unexpected operand')
    out += '/-- `CardPair::new`: `if left OP right { CardPair(a, b) } else { CardPair(c, d) }`; OP: 0 `>`, 1 `<`, 2 `>=`, 3 `<=`; operands: 0 = left, 1 = right -/\n'
    out += 'def pairNewOp : Nat := %d\n' % ops[g[0]]
    out += 'def pairNewThen : Nat × Nat := (%d, %d)\n' % (pick[g[1]], pick[g[2]])
    out += 'def pairNewElse : Nat × Nat := (%d, %d)\n' % (pick[g[3]], pick[g[4]])
    return out + FOOTER


TOKEN_REGEX_NAMES = ['double_closed_pocket_pair_range_regex', 'double_rank_pair_range_regex',
                     'bottom_closed_pocket_pair_range_regex', 'bottom_closed_rank_pair_range_regex',
                     'single_pocket_pair_regex', 'single_rank_pair_regex', 'single_card_pair_regex']


_EXPANDED = {}


def expanded_source(repo):
    """the crate after macro expansion (`rustc -Zunpretty=expanded` of the nightly toolchain, offline): `concat!` and
    `macro_rules!` fragments become plain string literals.  Used only when a literal cannot be read from the source text."""
    if repo in _EXPANDED:
        return _EXPANDED[repo]
    import subprocess
    env = dict(os.environ, CARGO_NET_OFFLINE='true',
               CARGO_TARGET_DIR=os.path.join(os.path.dirname(os.path.dirname(os.path.abspath(__file__))), 'work', 'expand_target'))
    try:
        p = subprocess.run(['cargo', '+nightly', 'rustc', '--lib', '--offline', '--', '-Zunpretty=expanded'], cwd=repo, env=env,
                           stdout=subprocess.PIPE, stderr=subprocess.DEVNULL, timeout=600)
        out = p.stdout.decode('utf-8', 'replace') if p.returncode == 0 else None
    except Exception:
        out = None
    _EXPANDED[repo] = out
    return out


def gen_token(repo):
    try:
        return gen_token_from(repo, load(repo, 'src/hand_range/hand_range_token.rs'))
    except ExtractError as first:
        # the literals may be assembled by macros (`concat!`, `macro_rules!`): read them from the macro-expanded crate
        exp = expanded_source(repo)
        if not exp:
            raise first
        try:
            res = gen_token_from(repo, strip_test_modules(strip_comments(exp)), expanded=True)
        except ExtractError:
            raise first
        return res


def gen_token_from(repo, s, expanded=False):
    body = block_after(s, r'impl\s+(?:(?:::)?[\w:]*::)?FromStr\s+for\s+HandRangeToken', 'FromStr for HandRangeToken')
    lits = []
    for nm in TOKEN_REGEX_NAMES:
        pre = r'let\s+%s\s*=\s*Regex::new\(\s*' % nm
        post = r'\s*,?\s*\)\s*\.(?:unwrap\(\)|expect\(\s*"[^"]*"\s*\))\s*;'
        mm = re.search(pre + r'r"([^"]*)"' + post, body) or re.search(pre + r'r#"(.*?)"#' + post, body, re.S)
        if mm:
            lits.append(mm.group(1))
            continue
        mm = re.search(pre + r'"((?:[^"\\]|\\.)*)"' + post, body)     # ordinary string literal: undo the escapes
        if not mm:
            raise ExtractError('regex literal %s not found' % nm)
        lit, i, raw = '', 0, mm.group(1)
        while i < len(raw):
            if raw[i] == '\\':
                esc = raw[i + 1]
                if esc in '\\"\'':
                    lit += esc
                elif esc in 'nrt0':
                    lit += {'n': '\n', 'r': '\r', 't': '\t', '0': '\0'}[esc]
                else:
                    raise ExtractError('regex literal %s: unsupported string escape \\%s' % (nm, esc))
                i += 2
            else:
                lit += raw[i]; i += 1
        lits.append(lit)
    # (in macro-expanded source the macro definitions themselves are still printed: count the bindings, not the mentions)
    allre = re.findall(r'\blet\s+\w+\s*=\s*Regex::new', body) if expanded else re.findall(r'Regex::new', body)
    if len(allre) != 7:
        raise ExtractError('expected exactly 7 Regex::new in HandRangeToken::from_str')
    # the control flow after the regex definitions, whitespace-normalised, hashed: the hand-written
    # model mirrors it; a change of shape is reported as a broken tie (correspondence decides).
    tail = norm(body[body.rfind('.unwrap();') + len('.unwrap();'):])
    pp = norm(block_after(s, r'fn\s+parse_probability', 'parse_probability'))
    out = HEADER
    out += '/-- the seven regex literals of `HandRangeToken::from_str`, in source order -/\n'
    out += 'def tokenRegexSrc : List String := [\n  ' + ',\n  '.join(lean_str(l) for l in lits) + ']\n'
    out += '/-- the same literals as lists of Unicode code points (what `Rx.parse` reads) -/\n'
    out += 'def tokenRegexCodes : List (List Nat) := [\n  ' + ',\n  '.join('[' + ', '.join(str(ord(ch)) for ch in l) + ']' for l in lits) + ']\n'
    return out + FOOTER, {'tokenFromStr': hashlib.sha256(tail.encode()).hexdigest(),
                          'parseProbability': hashlib.sha256(pp.encode()).hexdigest()}


def gen_iter(repo):
    s = load(repo, 'src/evaluator/flop_exhaustive.rs')
    # named integer constants (`const LAST: usize = 48;`) mean their literal: substitute them before reading shapes
    # named integer constants mean their value: `const A: usize = 52; const B: usize = A - 3; const C: u8 = (B - 1) as u8;`
    # -- evaluate (integer literals, earlier constants, + - *, parentheses, `as <int type>`) and substitute, to a fixpoint
    known = {}
    decls = re.findall(r'\bconst\s+([A-Z_][A-Z0-9_]*)\s*:\s*(?:u8|u16|u32|u64|usize)\s*=\s*([^;]+);', s)
    for _ in range(len(decls) + 1):
        for name, expr in decls:
            if name in known:
                continue
            e = re.sub(r'\bas\s+(?:u8|u16|u32|u64|usize)\b', '', expr)
            e = re.sub(r'\b(?:Self::)?([A-Z_][A-Z0-9_]*)\b', lambda m: str(known[m.group(1)]) if m.group(1) in known else m.group(0), e)
            e = re.sub(r'(?<=[0-9])(?:u8|u16|u32|u64|usize)\b', '', e).replace('_', '')
            if re.fullmatch(r'[0-9+\-*() \t\n]+', e):
                try:
                    v = eval(e, {'__builtins__': {}}, {})
                except Exception:
                    continue
                if isinstance(v, int) and 0 <= v < 2 ** 64:
                    known[name] = v
    for name, v in known.items():
        s = re.sub(r'\b(?:Self::)?%s\b(?!\s*:)' % name, str(v), s)
    new = norm(block_after(s, r'pub\s+fn\s+new\s*\(\s*board', 'FlopExhaustiveEvaluator::new'))
    mm = re.fullmatch(r'(?:Self|FlopExhaustiveEvaluator)\{(.*?),?\}', new)
    if not mm:
        raise ExtractError('FlopExhaustiveEvaluator::new: not in the expected shape')
    fields = {}
    for fld in split_top(mm.group(1)):
        if fld:
            k, _, v = fld.partition(':')
            fields[k] = v
    if set(fields) != {'board', 'players', 'turn_from', 'river_from', 'turn_to', 'river_to'} \
            or fields['board'] not in ('board.clone()', '*board', 'board.to_owned()') \
            or fields['players'] not in ('players.clone()', 'players.to_vec()', 'players.to_owned()'):
        raise ExtractError('FlopExhaustiveEvaluator::new: not in the expected shape')
    try:
        tf, rf, tt, rt = (intlit(fields[k]) for k in ('turn_from', 'river_from', 'turn_to', 'river_to'))
    except ExtractError:
        raise ExtractError('FlopExhaustiveEvaluator::new: default scope is not four integer literals')
    nxt = block_after(s, r'fn\s+next\s*\(\s*&mut\s+self\s*\)', 'Iterator::next')
    n = norm(nxt)
    mm = re.search(r'ifself\.current_river_index<(=?)(\d+)\{', n)
    if not mm:
        # the odometer may live in a private helper of the iterator: exactly one such comparison in the whole file
        cands = re.findall(r'ifself\.current_river_index<(=?)(\d+)\{', norm(s))
        if len(cands) != 1:
            raise ExtractError('next: river rollover literal not found')
        mm = re.match(r'(=?)(\d+)', cands[0][0] + cands[0][1])
    roll = int(mm.group(2)) + (1 if mm.group(1) else 0)      # `<= k` is `< k+1`
    mm = re.search(r'current_deck:\[Card;(\d+)\]', norm(s))
    if not mm:
        raise ExtractError('deck size not found')
    deck = int(mm.group(1))
    selfcalls = len(re.findall(r'self\.next\(\)', n))
    out = HEADER
    out += 'def scopeDefault : Nat × Nat × Nat × Nat := (%d, %d, %d, %d)\n' % (tf, rf, tt, rt)
    out += 'def riverRollover : Nat := %d\n' % roll
    out += 'def deckSize : Nat := %d\n' % deck
    out += '/-- number of syntactic `self.next()` calls inside `fn next` (0 = the skip is a loop) -/\n'
    out += 'def nextSelfCalls : Nat := %d\n' % selfcalls
    return out + FOOTER, {'next': hashlib.sha256(n.encode()).hexdigest()}


AUDIT_WORDS = [r"(?<!')\bstatic\b", r'thread_local!', r'\bunsafe\b', r'\bCell\b', r'\bRefCell\b', r'\bUnsafeCell\b', r'\bMutex\b',
               r'\bRwLock\b', r'\bAtomic\w+', r'lazy_static', r'\bOnceCell\b', r'\bOnceLock\b', r'\bLazyLock\b', r'\bLazyCell\b',
               r'\bRc\b', r'\*mut\b', r'\*const\b', r'\bextern\b',
               # ambient inputs: anything that could make a sequence depend on more than flop, ranges and scope
               r'HashMap::new\b', r'HashSet::new\b', r'\bRandomState\b', r'\bDefaultHasher\b', r'std::env\b', r'\benv::', r'std::time\b', r'\bInstant\b',
               r'\bSystemTime\b', r'thread::current\b', r'\bThreadId\b', r'process::id\b', r'std::fs\b', r'\bFile::', r'\bstdin\b', r'\brand::']


def audit(repo):
    hits = []
    for root, _, files in os.walk(os.path.join(repo, 'src')):
        for f in files:
            if not f.endswith('.rs'):
                continue
            rel = os.path.relpath(os.path.join(root, f), repo)
            txt = load(repo, rel)
            # drop string/char literals before searching
            txt2 = re.sub(r'r?"(?:[^"\\]|\\.)*"', '""', txt)
            # `&'static str` is a type, not an item
            txt2 = re.sub(r"&'static\s+str", '&str', txt2)
            for w in AUDIT_WORDS:
                for m in re.finditer(w, txt2):
                    line = txt2.count('\n', 0, m.start()) + 1
                    hits.append({'file': rel, 'word': m.group(0), 'approx_line_in_stripped': line})
    return hits


# ----------------------------------------------------------------------------- main
def write_if_changed(path, content):
    if os.path.exists(path) and open(path).read() == content:
        return False
    tmp = path + '.tmp%d' % os.getpid()
    with open(tmp, 'w') as f:
        f.write(content)
    os.replace(tmp, path)
    return True


def main():
    repo, gen, manifest = sys.argv[1], sys.argv[2], sys.argv[3]
    os.makedirs(gen, exist_ok=True)
    errors, changed, extra = {}, [], {}
    ranks = suits = None

    def run(item, fn, files):
        try:
            res = fn()
            if not isinstance(res, tuple):
                res = (res,)
            for fname, content in zip(files, res):
                if write_if_changed(os.path.join(gen, fname), content):
                    changed.append(fname)
            return res
        except ExtractError as e:
            errors[item] = str(e)
        except Exception as e:  # a crash of the extractor is a broken tie, not a crash of the check
            errors[item] = 'extractor exception: %r' % (e,)
        # the item could not be read: fall back to the seed copy (the data of the last tree the translator was validated on),
        # never to whatever an earlier run happened to leave behind; the item is reported as a broken tie by `check`
        seed = os.path.join(os.path.dirname(os.path.abspath(__file__)), 'seed')
        for fname in files:
            sp = os.path.join(seed, fname)
            if os.path.exists(sp):
                if write_if_changed(os.path.join(gen, fname), open(sp).read()):
                    changed.append(fname)
        return None

    r = run('Rank', lambda: gen_rank(repo), ['Rank.lean'])
    if r:
        ranks = r[1]
    else:
        # the conversions could not be read, but the other items only need the variant names in declaration order
        try:
            vs = enum_variants(load(repo, 'src/card/rank.rs'), 'Rank')
            ranks = vs if len(vs) == 13 else None
        except Exception:
            ranks = None
    r = run('Suit', lambda: gen_suit(repo), ['Suit.lean'])
    if r:
        suits = r[1]
    else:
        try:
            vs = enum_variants(load(repo, 'src/card/suit.rs'), 'Suit')
            suits = vs if len(vs) == 4 else None
        except Exception:
            suits = None
    if ranks:
        run('RankSucc', lambda: gen_rank_succ(repo, ranks), ['RankSucc.lean'])
    else:
        errors['RankSucc'] = 'depends on Rank which could not be read'
    if ranks and suits:
        run('CardBits', lambda: gen_card(repo, ranks, suits), ['CardBits.lean'])
        run('Ranges', lambda: gen_ranges(repo, ranks, suits), ['Ranges.lean'])
        run('DpRef', lambda: gen_dpref(repo, ranks), ['DpRef.lean'])
        run('MadeHand', lambda: gen_madehand(repo, ranks, suits), ['MadeHand.lean'])
        run('RankPair', lambda: gen_rankpair(repo, ranks, suits), ['RankPair.lean'])
    else:
        for it in ('CardBits', 'Ranges', 'DpRef', 'MadeHand', 'RankPair'):
            errors[it] = 'depends on Rank/Suit which could not be read'
    run('Pair', lambda: gen_pair(repo), ['Pair.lean'])
    run('HandType', lambda: gen_handtype(repo), ['HandType.lean'])
    r = run('Tables', lambda: gen_tables(repo), ['AsFlush.lean', 'AsRainbow.lean'])
    if r:
        extra['table_sha256'] = r[2]
    extra['shape_sha256'] = {}
    for item, fn, fname in (('Token', gen_token, 'Token.lean'), ('Iter', gen_iter, 'Iter.lean')):
        r = run(item, lambda: fn(repo), [fname])
        if r:
            extra['shape_sha256'].update(r[1])
    try:
        hits = audit(repo)
    except Exception as e:
        hits = None
        errors['Audit'] = repr(e)
    if hits is not None:
        out = HEADER
        out += '/-- occurrences, in the non-test code of src/**, of constructs that could carry state shared between evaluator\n'
        out += '    instances: static / thread_local! / unsafe / Cell / RefCell / UnsafeCell / Mutex / RwLock / Atomic* / lazy_static /\n'
        out += '    OnceCell / OnceLock / LazyLock / LazyCell / Rc / raw pointers / extern -/\n'
        out += 'def sharedStateHits : List String := [' + ', '.join(lean_str('%s: %s' % (h['file'], h['word'])) for h in hits) + ']\n'
        try:
            if write_if_changed(os.path.join(gen, 'Audit.lean'), out + FOOTER):
                changed.append('Audit.lean')
        except Exception as e:
            errors['Audit'] = repr(e)
    man = {'errors': errors, 'changed': changed, 'audit_hits': hits, 'ranks': ranks, 'suits': suits}
    man.update(extra)
    with open(manifest, 'w') as f:
        json.dump(man, f, indent=1)
    print(json.dumps({'errors': errors, 'changed': changed, 'audit_hits': len(hits or [])}))


if __name__ == '__main__':
    main()
