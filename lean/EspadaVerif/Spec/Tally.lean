/-
Spec/Tally: equity tallies of a flop enumeration, on the specification's deals (integers only: how often a
player is flagged a winner in a showdown with k winners).
-/
import EspadaVerif.Spec.Deals
import EspadaVerif.Spec.Poker
import EspadaVerif.Spec.ShowdownSpec

namespace EspadaVerif.Spec

def cardOfCode (c : Nat) : Nat × Nat := (c / 4, c % 4)

/-- class of each player's best hand in a deal -/
def dealHands {W : Type} (flop : List Nat) (d : Deal W) : List Nat :=
  d.choice.map fun c => best ((c.1 :: c.2.1 :: (flop ++ [d.turn, d.river])).map cardOfCode)

/-- winner flags of a deal -/
def dealWins {W : Type} (flop : List Nat) (d : Deal W) : List Bool := winnersOf (dealHands flop d)

/-- number of showdowns of the full enumeration in which player `p` is flagged and exactly `k` players are -/
def tally {W : Type} (flop : List Nat) (entries : List (List (Nat × Nat × W))) (p k : Nat) : Nat :=
  (deals flop entries (0, 1) (48, 49)).countP fun d =>
    (dealWins flop d)[p]? == some true && (dealWins flop d).countP id == k

/-- apply a relabelling of the four suits to a card code -/
def relabel (σ : Nat → Nat) (c : Nat) : Nat := 4 * (c / 4) + σ (c % 4)

def relabelEntries {W : Type} (σ : Nat → Nat) (entries : List (List (Nat × Nat × W))) : List (List (Nat × Nat × W)) :=
  entries.map fun es => es.map fun e => (relabel σ e.1, relabel σ e.2.1, e.2.2)

/-- exchange the players at positions `i` and `i + 1` -/
def swapAt {α : Type} (i : Nat) (l : List α) : List α :=
  match i, l with
  | 0, x :: y :: rest => y :: x :: rest
  | i + 1, x :: rest => x :: swapAt i rest
  | _, l => l

/-- where the player at position `p` sits after `swapAt i` -/
def swapIdx (i p : Nat) : Nat := if p = i then i + 1 else if p = i + 1 then i else p

end EspadaVerif.Spec
