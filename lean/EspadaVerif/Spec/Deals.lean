/-
Spec/Deals: what the flop enumeration must yield, as a list comprehension (no iterator state).
Cards are codes 0..51 = 4 * rank + suit, rank 0 = ace … 12 = deuce, suit 0..3 = s, h, d, c; the deck
order "ace to deuce and, within a rank, spade, heart, diamond, club" is the order of the codes.
-/
namespace EspadaVerif.Spec

/-- the 49 unseen cards in deck order -/
def deck49 (flop : List Nat) : List Nat := (List.range 52).filter (fun c => !flop.contains c)

/-- position `p` is lexicographically before `q` -/
def posLt (p q : Nat × Nat) : Bool := p.1 < q.1 || (p.1 == q.1 && p.2 < q.2)
def posLe (p q : Nat × Nat) : Bool := posLt p q || p == q

/-- all positions (turn index, river index), turn < river < 49, in lexicographic order -/
def allPositions : List (Nat × Nat) :=
  (List.range 48).flatMap fun t => (List.range' (t + 1) (48 - t)).map fun r => (t, r)

/-- the positions `p` with `from ≤ p < to` -/
def positionsBetween (a b : Nat × Nat) : List (Nat × Nat) :=
  allPositions.filter fun p => posLe a p && posLt p b

/-- one entry per list, the last list varying fastest -/
def product {α : Type} : List (List α) → List (List α)
  | [] => [[]]
  | l :: rest => l.flatMap fun x => (product rest).map fun xs => x :: xs

/-- a deal: turn card, river card, one (first card, second card, weight) per player -/
structure Deal (W : Type) where
  turn : Nat
  river : Nat
  choice : List (Nat × Nat × W)

/-- all 5 + 2n cards are pairwise different -/
def Deal.legal {W : Type} (flop : List Nat) (d : Deal W) : Bool :=
  (flop ++ [d.turn, d.river] ++ d.choice.flatMap (fun c => [c.1, c.2.1])).Nodup

/-- the legal deals of a scope, position by position -/
def deals {W : Type} (flop : List Nat) (entries : List (List (Nat × Nat × W))) (a b : Nat × Nat) : List (Deal W) :=
  let deck := deck49 flop
  (positionsBetween a b).flatMap fun p =>
    ((product entries).map fun ch => ({ turn := deck.getD p.1 0, river := deck.getD p.2 0, choice := ch } : Deal W)).filter
      (Deal.legal flop)

end EspadaVerif.Spec
