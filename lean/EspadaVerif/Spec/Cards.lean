/-
Spec/Cards: the standard card vocabulary, written down independently of the crate's tables
(nothing here reads `Gen`).  Used by the driver as the oracle column for C13/C14 requests.
-/
namespace EspadaVerif.Spec

/-- ranks ace … deuce as ASCII bytes of "AKQJT98765432" -/
def rankChars : List Nat := [65, 75, 81, 74, 84, 57, 56, 55, 54, 53, 52, 51, 50]
/-- suits spade, heart, diamond, club as ASCII bytes of "shdc" -/
def suitChars : List Nat := [115, 104, 100, 99]

def cardText (code : Nat) : List Nat := [rankChars.getD (code / 4) 0, suitChars.getD (code % 4) 0]

/-- the card denoted by a two-byte text, if any -/
def cardOfText (t : List Nat) : Option Nat :=
  match t with
  | [a, b] =>
    match rankChars.idxOf? a, suitChars.idxOf? b with
    | some r, some s => some (4 * r + s)
    | _, _ => none
  | _ => none

/-- contiguous run of codes between endpoints `a ≤ b` -/
def run (a b : Nat) (inclusive : Bool) : List Nat :=
  List.range' a ((if inclusive then b + 1 else b) - a)

end EspadaVerif.Spec
