/-
Spec/RangeViews: the two views of a range (complete rank pairs / leftovers) and its canonical text,
stated on the range's CONTENTS (a finite map from combos to weights), independent of the crate.
-/
import EspadaVerif.Spec.Notation

namespace EspadaVerif.Spec

/-- contents of a range: each present combo `(a, b)`, `a < b`, once with its weight -/
abbrev Contents (W : Type) := List ((Nat × Nat) × W)

def cLookup {W : Type} (m : Contents W) (c : Nat × Nat) : Option W :=
  match m with
  | [] => none
  | (k, v) :: rest => if k == c then some v else cLookup rest c

/-- canonical rank pairs -/
inductive RP where
  | pocket (r : Nat)
  | suited (h k : Nat)     -- h above k (h < k as codes)
  | ofsuit (h k : Nat)
  deriving DecidableEq, Repr

def RP.combos : RP → List (Nat × Nat)
  | .pocket r => pocketCombos r
  | .suited h k => pairCombos h k true
  | .ofsuit h k => pairCombos h k false

/-- all 169 rank pairs: pockets ace to deuce, then per high card its suited and offsuit kickers -/
def allRP : List RP :=
  (List.range 13).map RP.pocket ++
  (List.range 12).flatMap fun h => (List.range' (h + 1) (12 - h)).flatMap fun k => [RP.suited h k, RP.ofsuit h k]

/-- a rank pair is reported with weight `w` exactly when all of its combos are present with that weight -/
def reported {W : Type} (weq : W → W → Bool) (m : Contents W) (rp : RP) : Option W :=
  match rp.combos with
  | [] => none
  | c :: cs =>
    match cLookup m c with
    | none => none
    | some w => if cs.all (fun c' => match cLookup m c' with | some w' => weq w' w | none => false) then some w else none

def rankPairView {W : Type} (weq : W → W → Bool) (m : Contents W) : List (RP × W) :=
  allRP.filterMap fun rp => (reported weq m rp).map fun w => (rp, w)

/-- the leftover view: the combos not covered by a reported rank pair, with their own weights -/
def orphanView {W : Type} (weq : W → W → Bool) (m : Contents W) : Contents W :=
  let covered := (rankPairView weq m).flatMap fun e => e.1.combos
  m.filter fun e => !covered.contains e.1

/-! ### canonical text of the rank-pair part -/

/-- maximal runs of equal `some w` in a row: (start index, length, weight) -/
def runs {W : Type} (weq : W → W → Bool) (row : List (Option W)) : List (Nat × Nat × W) :=
  let rec go : List (Option W) → Nat → Option (Nat × Nat × W) → List (Nat × Nat × W) → List (Nat × Nat × W)
    | [], _, cur, acc => (match cur with | some c => acc ++ [c] | none => acc)
    | none :: rest, i, cur, acc => go rest (i + 1) none (match cur with | some c => acc ++ [c] | none => acc)
    | some w :: rest, i, cur, acc =>
      match cur with
      | some (s, n, w') => if weq w w' then go rest (i + 1) (some (s, n + 1, w')) acc
                           else go rest (i + 1) (some (i, 1, w)) (acc ++ [(s, n, w')])
      | none => go rest (i + 1) (some (i, 1, w)) acc
  go row 0 none []

/-- token text of a run in a row whose entries are the rank pairs `mk 0, mk 1, …` (top of the row first):
`X+` for a run of length ≥ 2 starting at the top, a single rank pair for length 1, `X-Y` otherwise -/
def runText (mkText : Nat → List Nat) (spanText : Nat → Nat → List Nat) (run : Nat × Nat × Unit) : List Nat :=
  let (s, n, _) := run
  if s == 0 && n ≥ 2 then mkText (n - 1) ++ [43]
  else if n == 1 then mkText s
  else spanText s (s + n - 1)

end EspadaVerif.Spec
