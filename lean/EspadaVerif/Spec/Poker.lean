/-
Spec/Poker: the rule book of five-card poker hands and the standard 1..7462 class numbering.
Independent of the crate (nothing here reads `Gen`).  Ranks are codes 0 = ace … 12 = deuce.

* `strength` : category, then the tie-break ranks in the order the rules compare them, packed so
  that "beats" is `>` on `Nat`.
* `uclass` / `sclass` : closed-form class index of five ranks sorted ascending by code
  (`uclass` for a hand that is not a flush, `sclass` for five cards of one suit).
  `Props/C01` proves the closed form is exactly the order rank of `strength` (1 = strongest).
* `best7` : the best (smallest) class among the 21 five-card hands contained in seven cards.
-/
namespace EspadaVerif.Spec

/-! ### categories -/
def catHighCard := 0
def catPair := 1
def catTwoPair := 2
def catTrips := 3
def catStraight := 4
def catFlush := 5
def catFullHouse := 6
def catQuads := 7
def catStraightFlush := 8

/-- five distinct consecutive ranks, or the wheel A-5-4-3-2 (codes 0,9,10,11,12); input sorted ascending -/
def isStraight (a b c d e : Nat) : Bool :=
  (b == a + 1 && c == a + 2 && d == a + 3 && e == a + 4) || (a == 0 && b == 9 && c == 10 && d == 11 && e == 12)

/-- code of the card that ranks a straight (the five for the wheel) -/
def straightTop (a b : Nat) : Nat := if a == 0 && b == 9 then 9 else a

/-- rule-book strength of a five-card hand whose rank codes sorted ascending are `a ≤ b ≤ c ≤ d ≤ e`
(so `a` is the highest card) and which is `suited` (all five of one suit) or not.
Result: category * 13^5 + tie-break digits (13 − code, most significant first). -/
def strength (suited : Bool) (a b c d e : Nat) : Nat :=
  let v (x : Nat) := 13 - x                    -- bigger is better
  let pack (cat t1 t2 t3 t4 t5 : Nat) := ((((cat * 14 + t1) * 14 + t2) * 14 + t3) * 14 + t4) * 14 + t5
  if a == b && b == c && c == d then pack catQuads (v a) (v e) 0 0 0
  else if b == c && c == d && d == e then pack catQuads (v b) (v a) 0 0 0
  else if a == b && b == c && d == e then pack catFullHouse (v a) (v d) 0 0 0
  else if a == b && c == d && d == e then pack catFullHouse (v c) (v a) 0 0 0
  else if a == b && b == c then pack catTrips (v a) (v d) (v e) 0 0
  else if b == c && c == d then pack catTrips (v b) (v a) (v e) 0 0
  else if c == d && d == e then pack catTrips (v c) (v a) (v b) 0 0
  else if a == b && c == d then pack catTwoPair (v a) (v c) (v e) 0 0
  else if a == b && d == e then pack catTwoPair (v a) (v d) (v c) 0 0
  else if b == c && d == e then pack catTwoPair (v b) (v d) (v a) 0 0
  else if a == b then pack catPair (v a) (v c) (v d) (v e) 0
  else if b == c then pack catPair (v b) (v a) (v d) (v e) 0
  else if c == d then pack catPair (v c) (v a) (v b) (v e) 0
  else if d == e then pack catPair (v d) (v a) (v b) (v c) 0
  else if isStraight a b c d e then
    pack (if suited then catStraightFlush else catStraight) (v (straightTop a b)) 0 0 0 0
  else pack (if suited then catFlush else catHighCard) (v a) (v b) (v c) (v d) (v e)

def categoryOfStrength (s : Nat) : Nat := s / (14 * 14 * 14 * 14 * 14)

/-! ### closed-form class numbering -/

def choose2 (n : Nat) : Nat := n * (n - 1) / 2
def choose3 (n : Nat) : Nat := n * (n - 1) * (n - 2) / 6
def choose4 (n : Nat) : Nat := n * (n - 1) * (n - 2) * (n - 3) / 24
def choose5 (n : Nat) : Nat := n * (n - 1) * (n - 2) * (n - 3) * (n - 4) / 120

/-- lexicographic index of `{a<b<c<d<e}` among the 1287 five-subsets of 0..12 -/
def lex5 (a b c d e : Nat) : Nat :=
  1286 - (choose5 (12 - a) + choose4 (12 - b) + choose3 (12 - c) + choose2 (12 - d) + (12 - e))
/-- index of `{x<y}` among the 2-subsets of 0..n-1 -/
def lex2 (n x y : Nat) : Nat := choose2 n - 1 - (choose2 (n - 1 - x) + (n - 1 - y))
/-- index of `{x<y<z}` among the 3-subsets of 0..n-1 -/
def lex3 (n x y z : Nat) : Nat := choose3 n - 1 - (choose3 (n - 1 - x) + choose2 (n - 1 - y) + (n - 1 - z))

/-- position of `x` among the ranks other than `r` -/
def skip (r x : Nat) : Nat := if x < r then x else x - 1

/-- how many of the ten straights come lexicographically before position `p` -/
def straightsBefore (p : Nat) : Nat :=
  (if 0 < p then 1 else 0) + (if 494 < p then 1 else 0) + (if 495 < p then 1 else 0) + (if 825 < p then 1 else 0)
  + (if 1035 < p then 1 else 0) + (if 1161 < p then 1 else 0) + (if 1231 < p then 1 else 0)
  + (if 1266 < p then 1 else 0) + (if 1281 < p then 1 else 0) + (if 1286 < p then 1 else 0)

/-- class of five cards of one suit (ranks distinct, sorted ascending by code) -/
def sclass (a b c d e : Nat) : Nat :=
  if isStraight a b c d e then (if a == 0 && b == 9 then 10 else 1 + a)
  else 323 + lex5 a b c d e - straightsBefore (lex5 a b c d e)

/-- class of five cards that are not all of one suit (ranks sorted ascending by code) -/
def uclass (a b c d e : Nat) : Nat :=
  if a == b && b == c && c == d then 11 + 12 * a + skip a e
  else if b == c && c == d && d == e then 11 + 12 * b + skip b a
  else if a == b && b == c && d == e then 167 + 12 * a + skip a d
  else if a == b && c == d && d == e then 167 + 12 * c + skip c a
  else if a == b && b == c then 1610 + 66 * a + lex2 12 (skip a d) (skip a e)
  else if b == c && c == d then 1610 + 66 * b + lex2 12 (skip b a) (skip b e)
  else if c == d && d == e then 1610 + 66 * c + lex2 12 (skip c a) (skip c b)
  else if a == b && c == d then 2468 + 11 * lex2 13 a c + skip c (skip a e)
  else if a == b && d == e then 2468 + 11 * lex2 13 a d + skip d (skip a c)
  else if b == c && d == e then 2468 + 11 * lex2 13 b d + skip d (skip b a)
  else if a == b then 3326 + 220 * a + lex3 12 (skip a c) (skip a d) (skip a e)
  else if b == c then 3326 + 220 * b + lex3 12 (skip b a) (skip b d) (skip b e)
  else if c == d then 3326 + 220 * c + lex3 12 (skip c a) (skip c b) (skip c e)
  else if d == e then 3326 + 220 * d + lex3 12 (skip d a) (skip d b) (skip d c)
  else if isStraight a b c d e then (if a == 0 && b == 9 then 1609 else 1600 + a)
  else 6186 + lex5 a b c d e - straightsBefore (lex5 a b c d e)

/-- category of a class index under the standard numbering -/
def catOfClass (i : Nat) : Nat :=
  if i ≤ 10 then catStraightFlush else if i ≤ 166 then catQuads else if i ≤ 322 then catFullHouse
  else if i ≤ 1599 then catFlush else if i ≤ 1609 then catStraight else if i ≤ 2467 then catTrips
  else if i ≤ 3325 then catTwoPair else if i ≤ 6185 then catPair else catHighCard

end EspadaVerif.Spec

namespace EspadaVerif.Spec

/-! ### five cards, seven cards -/

/-- all sublists of length `k` (same order as Mathlib's `List.sublistsLen`) -/
def choose {α : Type} : Nat → List α → List (List α)
  | 0, _ => [[]]
  | _ + 1, [] => []
  | k + 1, x :: xs => choose (k + 1) xs ++ (choose k xs).map (x :: ·)

def sortRanks (l : List Nat) : List Nat := l.mergeSort (fun a b => decide (a ≤ b))

def allSameSuit : List (Nat × Nat) → Bool
  | [] => true
  | (_, s) :: rest => rest.all (fun c => c.2 == s)

/-- standard class (1 = royal flush … 7462 = 7-5-4-3-2 unsuited) of five cards given as (rank code, suit) -/
def class5 (h : List (Nat × Nat)) : Nat :=
  match sortRanks (h.map (·.1)) with
  | [a, b, c, d, e] => if allSameSuit h then sclass a b c d e else uclass a b c d e
  | _ => 0

/-- rule-book strength of five cards -/
def strength5 (h : List (Nat × Nat)) : Nat :=
  match sortRanks (h.map (·.1)) with
  | [a, b, c, d, e] => strength (allSameSuit h) a b c d e
  | _ => 0

def minList (l : List Nat) : Nat := l.foldl min 7463

/-- best (smallest) class among the five-card hands contained in the given cards -/
def best (cards : List (Nat × Nat)) : Nat := minList ((choose 5 cards).map class5)

/-- strongest rule-book strength among the five-card hands contained in the given cards -/
def bestStrength (cards : List (Nat × Nat)) : Nat := ((choose 5 cards).map strength5).foldl max 0

def categoryNames : List String :=
  ["HighCard", "Pair", "TwoPair", "Trips", "Straight", "Flush", "FullHouse", "Quads", "StraightFlush"]

end EspadaVerif.Spec

namespace EspadaVerif.Spec

/-! ### shapes: what the class / strength of a five-card hand depends on -/

/-- ranks sorted ascending by code (`a` = highest card) and whether the five cards share one suit -/
structure Shape where
  suited : Bool
  a : Nat
  b : Nat
  c : Nat
  d : Nat
  e : Nat
  deriving DecidableEq, Repr

/-- shapes of real five-card hands: sorted, ranks below 13, no rank five times, suited ⇒ distinct ranks -/
def Shape.valid (s : Shape) : Bool :=
  decide (s.a ≤ s.b) && decide (s.b ≤ s.c) && decide (s.c ≤ s.d) && decide (s.d ≤ s.e) && decide (s.e < 13)
  && (s.a != s.e)
  && (!s.suited || (decide (s.a < s.b) && decide (s.b < s.c) && decide (s.c < s.d) && decide (s.d < s.e)))

def Shape.cls (s : Shape) : Nat :=
  if s.suited then sclass s.a s.b s.c s.d s.e else uclass s.a s.b s.c s.d s.e

def Shape.str (s : Shape) : Nat := strength s.suited s.a s.b s.c s.d s.e

end EspadaVerif.Spec
