/-
Spec/ShowdownSpec: what a showdown must report, stated without the single-pass bookkeeping:
every player with the evaluation of their own seven cards, flagged exactly when nobody has a
smaller (= stronger) index.
-/
namespace EspadaVerif.Spec

/-- given each player's power index, who wins: exactly the players attaining the minimum -/
def winnersOf (hands : List Nat) : List Bool :=
  hands.map fun h => hands.all fun h' => decide (h ≤ h')

end EspadaVerif.Spec
