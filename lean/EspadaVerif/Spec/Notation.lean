/-
Spec/Notation: standard poker range notation, independent of the crate.
Cards are codes 4 * rank + suit (rank 0 = ace … 12 = deuce; suit 0..3 = s h d c); a combo is a pair of
codes `(a, b)` with `a < b`.
-/
namespace EspadaVerif.Spec

def rankLetters : List Nat := [65, 75, 81, 74, 84, 57, 56, 55, 54, 53, 52, 51, 50]   -- "AKQJT98765432"
def suitLetters : List Nat := [115, 104, 100, 99]                                     -- "shdc"

/-- a well-formed token as a player writes it -/
inductive WfToken where
  | pocket (r : Nat)                              -- "44"
  | pocketPlus (r : Nat)                          -- "QQ+"
  | pocketSpan (hi lo : Nat)                      -- "88-66"  (hi at least as high as lo)
  | pair (x y : Nat) (suited : Bool)              -- "JTs", "72o"  (x ≠ y, either order)
  | pairPlus (x y : Nat) (suited : Bool)          -- "A9s+"  (x above y)
  | pairSpan (x y z : Nat) (suited : Bool)        -- "AQs-A9s"  (x above y above z)
  | cards (c₁ c₂ : Nat)                           -- "AsKs"  (two different cards, either order)
  deriving DecidableEq, Repr

def WfToken.wf : WfToken → Bool
  | .pocket r => r < 13
  | .pocketPlus r => r < 13
  | .pocketSpan hi lo => hi ≤ lo && lo < 13
  | .pair x y _ => x < 13 && y < 13 && x != y
  | .pairPlus x y _ => x < y && y < 13
  | .pairSpan x y z _ => x < y && y < z && z < 13
  | .cards c₁ c₂ => c₁ < 52 && c₂ < 52 && c₁ != c₂

def rl (r : Nat) : Nat := rankLetters.getD r 0
def sl (s : Nat) : Nat := suitLetters.getD s 0
def so (suited : Bool) : Nat := if suited then 115 else 111

/-- the token's text, without a weight -/
def WfToken.text : WfToken → List Nat
  | .pocket r => [rl r, rl r]
  | .pocketPlus r => [rl r, rl r, 43]
  | .pocketSpan hi lo => [rl hi, rl hi, 45, rl lo, rl lo]
  | .pair x y s => [rl x, rl y, so s]
  | .pairPlus x y s => [rl x, rl y, so s, 43]
  | .pairSpan x y z s => [rl x, rl y, so s, 45, rl x, rl z, so s]
  | .cards c₁ c₂ => [rl (c₁ / 4), sl (c₁ % 4), rl (c₂ / 4), sl (c₂ % 4)]

def mkCombo (a b : Nat) : Nat × Nat := if a < b then (a, b) else (b, a)

/-- the 6 combos of a pocket pair -/
def pocketCombos (r : Nat) : List (Nat × Nat) :=
  (List.range 4).flatMap fun s₁ => ((List.range 4).filter (s₁ < ·)).map fun s₂ => (4 * r + s₁, 4 * r + s₂)

/-- the 4 suited / 12 offsuit combos of two different ranks -/
def pairCombos (x y : Nat) (suited : Bool) : List (Nat × Nat) :=
  (List.range 4).flatMap fun s₁ => ((List.range 4).filter (fun s₂ => (s₁ == s₂) == suited)).map fun s₂ =>
    mkCombo (4 * x + s₁) (4 * y + s₂)

/-- what the token denotes: a set of combos, given as a list without repetition -/
def WfToken.denote : WfToken → List (Nat × Nat)
  | .pocket r => pocketCombos r
  | .pocketPlus r => (List.range (r + 1)).flatMap pocketCombos
  | .pocketSpan hi lo => (List.range' hi (lo + 1 - hi)).flatMap pocketCombos
  | .pair x y s => pairCombos x y s
  | .pairPlus x y s => (List.range' (x + 1) (y - x)).flatMap fun k => pairCombos x k s
  | .pairSpan x y z s => (List.range' y (z + 1 - y)).flatMap fun k => pairCombos x k s
  | .cards c₁ c₂ => [mkCombo c₁ c₂]

/-! ### reading a token back from text (used by the driver's oracle; the theorems use `text` directly) -/

def rankOfLetter (b : Nat) : Option Nat := rankLetters.idxOf? b
def suitOfLetter (b : Nat) : Option Nat := suitLetters.idxOf? b
def soOfLetter (b : Nat) : Option Bool := if b == 115 then some true else if b == 111 then some false else none

/-- the well-formed token with this text (no weight), if any -/
def readToken (t : List Nat) : Option WfToken :=
  let tok : Option WfToken :=
    match t with
    | [a, b] =>
      match rankOfLetter a, rankOfLetter b with
      | some x, some y => if x == y then some (.pocket x) else none
      | _, _ => none
    | [a, b, c] =>
      match rankOfLetter a, rankOfLetter b with
      | some x, some y =>
        if c == 43 then (if x == y then some (.pocketPlus x) else none)
        else match soOfLetter c with
          | some s => if x != y then some (.pair x y s) else none
          | none => none
      | _, _ => none
    | [a, b, c, d] =>
      match rankOfLetter a, rankOfLetter b with
      | some x, some y =>
        if d == 43 then
          match soOfLetter c with
          | some s => some (.pairPlus x y s)
          | none => none
        else none
      | some x, none =>
        match suitOfLetter b, rankOfLetter c, suitOfLetter d with
        | some s₁, some z, some s₂ => some (.cards (4 * x + s₁) (4 * z + s₂))
        | _, _, _ => none
      | _, _ => none
    | [a, b, 45, c, d] =>
      match rankOfLetter a, rankOfLetter b, rankOfLetter c, rankOfLetter d with
      | some x, some y, some z, some w => if x == y && z == w then some (.pocketSpan x z) else none
      | _, _, _, _ => none
    | [a, b, c, 45, d, e, f] =>
      match rankOfLetter a, rankOfLetter b, soOfLetter c, rankOfLetter d, rankOfLetter e, soOfLetter f with
      | some x, some y, some s, some x', some z, some s' =>
        if x == x' && s == s' then some (.pairSpan x y z s) else none
      | _, _, _, _, _, _ => none
    | _ => none
  match tok with
  | some w => if w.wf && w.text == t then some w else none
  | none => none

end EspadaVerif.Spec
