/-
C12 — A range splits exactly into complete rank pairs and leftover combos.
The range is any insert history (keys need not even be canonical combos); weights come from a domain on
which `f32 ==` is equality (`TextDefs.WTextOk.eq_iff`).
-/
import EspadaVerif.Lemmas.TextDefs

namespace EspadaVerif.C12
open EspadaVerif TextDefs

variable {W : Type}

/-- **C12 (rank pairs).** A rank pair is reported with weight `w` exactly when it is canonical and all of its
6 / 4 / 12 combos are present with that same weight `w`. -/
theorem C12_report (wt : WText W) (inDom : W → Prop) (hok : WTextOk wt inDom) (r : HandRange W)
    (hr : ∀ e ∈ r, inDom e.2) :
    ∃ l, rankPairs wt r = .ok l ∧
      ∀ rp w, rpLookup l rp = some w ↔ (RankPair.canonical rp ∧ ∀ c ∈ rp.combos, r.lookup c = some w) := by
  sorry

/-- **C12 (leftovers).** The leftover view holds exactly the combos not covered by a reported rank pair, with their
own weights. -/
theorem C12_orphans (wt : WText W) (inDom : W → Prop) (hok : WTextOk wt inDom) (r : HandRange W)
    (hr : ∀ e ∈ r, inDom e.2) :
    ∃ l o, rankPairs wt r = .ok l ∧ orphans wt r = .ok o ∧
      ∀ c, ((∃ rp w, rpLookup l rp = some w ∧ c ∈ rp.combos) → o.lookup c = none)
         ∧ ((∀ rp w, rpLookup l rp = some w → c ∉ rp.combos) → o.lookup c = r.lookup c) := by
  sorry

/-- different canonical rank pairs have no combo in common -/
theorem C12_disjoint (rp rp' : RankPair) (h : RankPair.canonical rp) (h' : RankPair.canonical rp') (c : Combo)
    (hc : c ∈ rp.combos) (hc' : c ∈ rp'.combos) : rp = rp' := by
  sorry

/-- **C12 (cover).** Every combo of the range lies in exactly one of the two views, with its weight: either it is a
leftover, or exactly one reported rank pair contains it (and carries its weight). -/
theorem C12_cover (wt : WText W) (inDom : W → Prop) (hok : WTextOk wt inDom) (r : HandRange W)
    (hr : ∀ e ∈ r, inDom e.2) :
    ∃ l o, rankPairs wt r = .ok l ∧ orphans wt r = .ok o ∧
      ∀ c w, r.lookup c = some w →
        (o.lookup c = some w ∧ ∀ rp w', rpLookup l rp = some w' → c ∉ rp.combos)
        ∨ (o.lookup c = none ∧ ∃ rp, rpLookup l rp = some w ∧ c ∈ rp.combos
             ∧ ∀ rp' w', rpLookup l rp' = some w' → c ∈ rp'.combos → rp' = rp) := by
  sorry

/-- the combo counts of the three kinds of rank pair -/
theorem C12_sizes : (RankPair.pocket 9).combos.length = 6 ∧ (RankPair.suited 3 4).combos.length = 4
    ∧ (RankPair.ofsuit 7 12).combos.length = 12 := by decide

end EspadaVerif.C12
