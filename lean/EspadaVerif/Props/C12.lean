import EspadaVerif.Model.Range
namespace EspadaVerif.C12
end EspadaVerif.C12
