/-
C12 — A range splits exactly into complete rank pairs and leftover combos.
The range is any insert history (keys need not even be canonical combos); weights come from a domain on
which `f32 ==` is equality (`TextDefs.WTextOk.eq_iff`).
-/
import EspadaVerif.Lemmas.TextDefs
import EspadaVerif.Lemmas.RankPairFacts

namespace EspadaVerif.C12
open EspadaVerif TextDefs RankPairFacts

variable {W : Type}

/-- the report, for the closed form `rpList` of the list `rankPairs` returns -/
theorem report_rpList (wt : WText W) (inDom : W → Prop) (hok : WTextOk wt inDom) (r : HandRange W)
    (hr : ∀ e ∈ r, inDom e.2) (rp : RankPair) (w : W) :
    rpLookup (rpList wt r) rp = some w ↔ (RankPair.canonical rp ∧ ∀ c ∈ rp.combos, r.lookup c = some w) := by
  rw [rpLookup_rpList, entryW, rankPairWeight_probe_iff wt inDom hok r hr rp _ (probeOf_mem rp)]

/-- a combo is removed from the leftovers exactly when a reported rank pair contains it -/
theorem mem_reported_combos (wt : WText W) (r : HandRange W) (c : Combo) :
    c ∈ (rpList wt r).flatMap (fun e => e.1.combos) ↔ ∃ rp w, rpLookup (rpList wt r) rp = some w ∧ c ∈ rp.combos := by
  rw [List.mem_flatMap]
  constructor
  · rintro ⟨⟨rp, w⟩, he, hc⟩
    exact ⟨rp, w, (rpLookup_eq_some_iff (rpList_functional wt r) rp w).mpr he, hc⟩
  · rintro ⟨rp, w, hl, hc⟩
    exact ⟨(rp, w), rpLookup_mem hl, hc⟩

/-- **C12 (rank pairs).** A rank pair is reported with weight `w` exactly when it is canonical and all of its
6 / 4 / 12 combos are present with that same weight `w`. -/
theorem C12_report (wt : WText W) (inDom : W → Prop) (hok : WTextOk wt inDom) (r : HandRange W)
    (hr : ∀ e ∈ r, inDom e.2) :
    ∃ l, rankPairs wt r = .ok l ∧
      ∀ rp w, rpLookup l rp = some w ↔ (RankPair.canonical rp ∧ ∀ c ∈ rp.combos, r.lookup c = some w) :=
  ⟨rpList wt r, rankPairs_eq wt r, report_rpList wt inDom hok r hr⟩

set_option linter.unusedVariables false in
/-- **C12 (leftovers).** The leftover view holds exactly the combos not covered by a reported rank pair, with their
own weights. -/
theorem C12_orphans (wt : WText W) (inDom : W → Prop) (hok : WTextOk wt inDom) (r : HandRange W)
    (hr : ∀ e ∈ r, inDom e.2) :
    ∃ l o, rankPairs wt r = .ok l ∧ orphans wt r = .ok o ∧
      ∀ c, ((∃ rp w, rpLookup l rp = some w ∧ c ∈ rp.combos) → o.lookup c = none)
         ∧ ((∀ rp w, rpLookup l rp = some w → c ∉ rp.combos) → o.lookup c = r.lookup c) := by
  obtain ⟨o, ho, hl⟩ := orphans_lookup wt r
  refine ⟨rpList wt r, o, rankPairs_eq wt r, ho, fun c => ⟨fun h => ?_, fun h => ?_⟩⟩
  · rw [hl c, if_pos ((mem_reported_combos wt r c).mpr h)]
  · rw [hl c, if_neg]
    intro hm
    obtain ⟨rp, w, h1, h2⟩ := (mem_reported_combos wt r c).mp hm
    exact h rp w h1 h2

/-- different canonical rank pairs have no combo in common -/
theorem C12_disjoint (rp rp' : RankPair) (h : RankPair.canonical rp) (h' : RankPair.canonical rp') (c : Combo)
    (hc : c ∈ rp.combos) (hc' : c ∈ rp'.combos) : rp = rp' :=
  combos_disjoint h h' hc hc'

/-- **C12 (cover).** Every combo of the range lies in exactly one of the two views, with its weight: either it is a
leftover, or exactly one reported rank pair contains it (and carries its weight). -/
theorem C12_cover (wt : WText W) (inDom : W → Prop) (hok : WTextOk wt inDom) (r : HandRange W)
    (hr : ∀ e ∈ r, inDom e.2) :
    ∃ l o, rankPairs wt r = .ok l ∧ orphans wt r = .ok o ∧
      ∀ c w, r.lookup c = some w →
        (o.lookup c = some w ∧ ∀ rp w', rpLookup l rp = some w' → c ∉ rp.combos)
        ∨ (o.lookup c = none ∧ ∃ rp, rpLookup l rp = some w ∧ c ∈ rp.combos
             ∧ ∀ rp' w', rpLookup l rp' = some w' → c ∈ rp'.combos → rp' = rp) := by
  obtain ⟨o, ho, hl⟩ := orphans_lookup wt r
  refine ⟨rpList wt r, o, rankPairs_eq wt r, ho, fun c w hw => ?_⟩
  have hrep := report_rpList wt inDom hok r hr
  by_cases hm : c ∈ (rpList wt r).flatMap (fun e => e.1.combos)
  · right
    obtain ⟨rp, w', h1, h2⟩ := (mem_reported_combos wt r c).mp hm
    have h3 := (hrep rp w').mp h1
    have hww : w' = w := by
      have := h3.2 c h2
      rw [hw] at this
      exact (Option.some.inj this).symm
    subst hww
    refine ⟨by rw [hl c, if_pos hm], rp, h1, h2, fun rp' w'' h1' h2' => ?_⟩
    exact C12_disjoint rp' rp ((hrep rp' w'').mp h1').1 h3.1 c h2' h2
  · left
    refine ⟨by rw [hl c, if_neg hm, hw], fun rp w' h1 h2 => ?_⟩
    exact hm ((mem_reported_combos wt r c).mpr ⟨rp, w', h1, h2⟩)

/-- the combo counts of the three kinds of rank pair -/
theorem C12_sizes : (RankPair.pocket 9).combos.length = 6 ∧ (RankPair.suited 3 4).combos.length = 4
    ∧ (RankPair.ofsuit 7 12).combos.length = 12 := by decide

end EspadaVerif.C12
