/-
C07 — The reported hand category is the category of the best five-card hand.

`handType` is the first-match semantics of the interval arms read from the source (`Gen.handTypeArms`);
`Spec.catOfClass` is the category of a class index under the standard numbering, and
`Props/C01` shows the evaluated index *is* the class of the best five-card hand.
-/
import EspadaVerif.Model.Eval
import EspadaVerif.Model.HandType
import EspadaVerif.Spec.Poker
import EspadaVerif.Props.C01Compare

namespace EspadaVerif.C07
open EspadaVerif

/-- category names are declared weakest to strongest, as the specification numbers them -/
theorem category_names : Gen.categoryNames = Spec.categoryNames := by decide

/-- For every class index the interval arms of `hand_type` (read from the source, first match wins)
give the category of the standard numbering.  Proved symbolically: both sides are nests of interval
tests over the same `i`; no enumeration. -/
theorem C07_intervals (i : Nat) (h1 : 1 ≤ i) (h2 : i ≤ 7462) : handType i = Spec.catOfClass i := by
  have hcase : i ≤ 10 ∨ (11 ≤ i ∧ i ≤ 166) ∨ (167 ≤ i ∧ i ≤ 322) ∨ (323 ≤ i ∧ i ≤ 1599) ∨ (1600 ≤ i ∧ i ≤ 1609)
      ∨ (1610 ≤ i ∧ i ≤ 2467) ∨ (2468 ≤ i ∧ i ≤ 3325) ∨ (3326 ≤ i ∧ i ≤ 6185) ∨ 6186 ≤ i := by omega
  have e : ∀ lo hi : Nat, (decide (lo ≤ i) && decide (i ≤ hi)) = decide (lo ≤ i ∧ i ≤ hi) := by
    intro lo hi; simp
  simp only [handType, Gen.handTypeArms, handTypeArmsLookup, Gen.handTypeWild, Spec.catOfClass,
    Spec.catStraightFlush, Spec.catQuads, Spec.catFullHouse, Spec.catFlush, Spec.catStraight,
    Spec.catTrips, Spec.catTwoPair, Spec.catPair, Spec.catHighCard, e, decide_eq_true_eq]
  rcases hcase with h | h | h | h | h | h | h | h | h
  all_goals (repeat' (first | rw [if_pos (by omega)] | rw [if_neg (by omega)]))

/-- **C07.** For any seven distinct cards the reported category is the rule-book category of the
strongest five-card hand among them. -/
theorem C07 (cs : List Card) (h : C01.Seven cs) (i : Nat) (e : eval7 cs = .ok i) :
    handType i = Spec.categoryOfStrength (Spec.bestStrength (cs.map C01.toSpec)) := by
  obtain ⟨h1, h2⟩ := C01.C01_index_range cs h i e
  obtain ⟨S, _, _, hstr, hcat⟩ := C01.C01_best_is_strongest cs h i e
  rw [C07_intervals i h1 h2, hcat, hstr]

/-- boundary witnesses: the weakest hand of each category keeps its category -/
example : handType 10 = Spec.catStraightFlush ∧ handType 166 = Spec.catQuads ∧ handType 322 = Spec.catFullHouse
    ∧ handType 1599 = Spec.catFlush ∧ handType 1609 = Spec.catStraight ∧ handType 2467 = Spec.catTrips
    ∧ handType 3325 = Spec.catTwoPair ∧ handType 6185 = Spec.catPair ∧ handType 7462 = Spec.catHighCard := by decide

end EspadaVerif.C07
