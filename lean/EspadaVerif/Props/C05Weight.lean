/-
C05 (weights, gap F1) — "each carrying the token's ':weight', or 1 when omitted", stated WITHOUT a defaulting `getD`.

`C05_token` / `C05_list` conclude with `suffixWeight wt suffix`, which is `(wt.parseW w).getD wt.one` for a suffix
`58 :: w`: with a text interface whose `parseW` never succeeds, every weighted token silently gets weight one and the
theorems are true for the wrong reason.  Here the clause is stated under the explicit, named hypothesis

  `hparse_total : ∀ t, isWeightText t = true → ∃ w, wt.parseW t = some w`

(a text of the weight grammar `0(.d+)?` / `1(.0+)?` is a number; Rust: `f32::from_str` accepts every such decimal),
and the conclusion speaks of the weight AS PARSED: `wt.parseW w' = some w` and every entry carries that `w`.
-/
import EspadaVerif.Props.C05
import EspadaVerif.Props.Witness.Common

set_option Elab.async false

namespace EspadaVerif.C05
open EspadaVerif TextDefs

variable {W : Type}

/-- the weight a well-formed suffix stands for, without default: nothing ↦ one, `:w` ↦ the number `w` parses to -/
theorem suffixWeight_parsed (wt : WText W)
    (hparse_total : ∀ t, isWeightText t = true → ∃ w, wt.parseW t = some w)
    (suffix : Bytes) (hs : SuffixOk suffix) :
    (suffix = [] → suffixWeight wt suffix = wt.one)
    ∧ (∀ w', suffix = 58 :: w' → ∃ w, wt.parseW w' = some w ∧ suffixWeight wt suffix = w) := by
  refine ⟨fun h => by rw [h]; rfl, fun w' h => ?_⟩
  have hw' : isWeightText w' = true := by
    rcases hs with h0 | ⟨w, hw, hwt⟩
    · rw [h0] at h; cases h
    · rw [hw] at h
      have : w = w' := by injection h
      rw [← this]; exact hwt
  obtain ⟨w, hw⟩ := hparse_total w' hw'
  refine ⟨w, hw, ?_⟩
  rw [h]
  show (wt.parseW w').getD wt.one = w
  rw [hw]; rfl

/-- **C05 (token, weight as parsed).** Every well-formed token, with or without a `:weight`, parses and expands to
exactly the combos it denotes, each once; without a suffix every entry has weight one; with the suffix `:w'` the text
`w'` IS a number `w` (`wt.parseW w' = some w`) and every entry carries exactly that `w`. -/
theorem C05_token_weight (wt : WText W) (hempty : wt.parseW [] = none)
    (hparse_total : ∀ t, isWeightText t = true → ∃ w, wt.parseW t = some w)
    (t : Spec.WfToken) (ht : t.wf = true) (suffix : Bytes) (hs : SuffixOk suffix) :
    ∃ tok es, parseToken wt (t.text ++ suffix) = .ok tok ∧ tok.expand = .ok es
      ∧ (codesOf es).Perm t.denote ∧ (codesOf es).Nodup
      ∧ (suffix = [] → ∀ e ∈ es, e.2 = wt.one)
      ∧ (∀ w', suffix = 58 :: w' → ∃ w, wt.parseW w' = some w ∧ ∀ e ∈ es, e.2 = w) := by
  obtain ⟨tok, es, h1, h2, h3, h4, h5⟩ := C05_token wt hempty t ht suffix hs
  obtain ⟨p1, p2⟩ := suffixWeight_parsed wt hparse_total suffix hs
  refine ⟨tok, es, h1, h2, h3, h4, ?_, ?_⟩
  · intro h e he
    rw [h5 e he, p1 h]
  · intro w' h
    obtain ⟨w, hw, hsw⟩ := p2 w' h
    exact ⟨w, hw, fun e he => by rw [h5 e he, hsw]⟩

/-- the LAST token of the list that denotes the combo `c` (none if no token does) -/
def lastToken (ts : List (Spec.WfToken × Bytes)) (c : Nat × Nat) : Option (Spec.WfToken × Bytes) :=
  ts.reverse.find? fun p => p.1.denote.contains c

/-- `lastToken` is what its name says: the token at the greatest position whose denotation holds `c` -/
theorem lastToken_eq_some_iff (ts : List (Spec.WfToken × Bytes)) (c : Nat × Nat) (p : Spec.WfToken × Bytes) :
    lastToken ts c = some p ↔
      ∃ before after, ts = before ++ p :: after ∧ c ∈ p.1.denote ∧ ∀ q ∈ after, c ∉ q.1.denote := by
  unfold lastToken
  rw [List.find?_eq_some_iff_append]
  constructor
  · rintro ⟨hp, as, bs, hrev, hall⟩
    refine ⟨bs.reverse, as.reverse, ?_, by simpa using hp, ?_⟩
    · have := congrArg List.reverse hrev
      simpa using this
    · intro q hq
      have := hall q (List.mem_reverse.mp hq)
      simpa using this
  · rintro ⟨before, after, rfl, hc, hall⟩
    refine ⟨by simpa using hc, after.reverse, before.reverse, by simp, ?_⟩
    intro q hq
    have := hall q (List.mem_reverse.mp hq)
    simpa using this

theorem lastToken_eq_none_iff (ts : List (Spec.WfToken × Bytes)) (c : Nat × Nat) :
    lastToken ts c = none ↔ ∀ q ∈ ts, c ∉ q.1.denote := by
  unfold lastToken
  rw [List.find?_eq_none]
  constructor
  · intro h q hq
    have := h q (List.mem_reverse.mpr hq)
    simpa using this
  · intro h q hq
    have := h q (List.mem_reverse.mp hq)
    simpa using this

/-- **C05 (list, weight as parsed).** Parsing a comma-separated list of well-formed tokens, with spaces anywhere:
a combo no token denotes is absent; a combo some token denotes is present with the weight of the LAST token denoting
it — one when that token has no suffix, and for a suffix `:w'` the number `w` that `w'` parses to. -/
theorem C05_list_weight (wt : WText W) (hempty : wt.parseW [] = none)
    (hparse_total : ∀ t, isWeightText t = true → ∃ w, wt.parseW t = some w)
    (ts : List (Spec.WfToken × Bytes))
    (hts : ∀ p ∈ ts, p.1.wf = true ∧ SuffixOk p.2) (s : Bytes)
    (hs : stripSpaces s = joinCommas (ts.map fun p => p.1.text ++ p.2)) :
    ∃ r, parseRange wt s = .ok r ∧ ∀ c : Combo, ComboOk c →
      (lastToken ts (comboCodes c) = none → r.lookup c = none)
      ∧ (∀ p, lastToken ts (comboCodes c) = some p →
          (p.2 = [] → r.lookup c = some wt.one)
          ∧ (∀ w', p.2 = 58 :: w' → ∃ w, wt.parseW w' = some w ∧ r.lookup c = some w)) := by
  obtain ⟨r, hr, hl⟩ := C05_list wt hempty ts hts s hs
  refine ⟨r, hr, fun c hc => ⟨?_, ?_⟩⟩
  · intro hnone
    rw [hl c hc]
    unfold lastWeight
    unfold lastToken at hnone
    rw [hnone]; rfl
  · intro p hp
    have hlook : r.lookup c = some (suffixWeight wt p.2) := by
      rw [hl c hc]
      unfold lastWeight
      unfold lastToken at hp
      rw [hp]; rfl
    have hmem : p ∈ ts := by
      obtain ⟨before, after, rfl, _, _⟩ := (lastToken_eq_some_iff ts _ p).mp hp
      simp
    obtain ⟨p1, p2⟩ := suffixWeight_parsed wt hparse_total p.2 (hts p hmem).2
    refine ⟨fun h => by rw [hlook, p1 h], fun w' h => ?_⟩
    obtain ⟨w, hw, hsw⟩ := p2 w' h
    exact ⟨w, hw, by rw [hlook, hsw]⟩

/-- every suffix of the token grammar is either empty or `:w'`, so the two clauses above cover every token -/
theorem suffix_cases (suffix : Bytes) (hs : SuffixOk suffix) :
    suffix = [] ∨ ∃ w', suffix = 58 :: w' ∧ isWeightText w' = true := hs

/-! ### the hypothesis is necessary, and satisfiable -/

/-- a text interface that reads the weight grammar (and nothing else): the weight IS its text -/
def textWt : WText Bytes :=
  { one := [49], eq := fun a b => a == b, showW := id, parseW := fun t => if isWeightText t then some t else none }

theorem textWt_empty : textWt.parseW [] = none := rfl
theorem textWt_total : ∀ t, isWeightText t = true → ∃ w, textWt.parseW t = some w := by
  intro t ht
  exact ⟨t, by simp [textWt, ht]⟩

/-- `AJs+:0.5` on that interface: twelve combos, each with the weight the text `0.5` parses to -/
example :
    ∃ tok es, parseToken textWt ((Spec.WfToken.pairPlus 0 3 true).text ++ [58, 48, 46, 53]) = .ok tok
      ∧ tok.expand = .ok es
      ∧ (codesOf es).Perm (Spec.WfToken.pairPlus 0 3 true).denote ∧ (codesOf es).Nodup
      ∧ (([58, 48, 46, 53] : Bytes) = [] → ∀ e ∈ es, e.2 = textWt.one)
      ∧ (∀ w', ([58, 48, 46, 53] : Bytes) = 58 :: w' → ∃ w, textWt.parseW w' = some w ∧ ∀ e ∈ es, e.2 = w) :=
  C05_token_weight textWt textWt_empty textWt_total (.pairPlus 0 3 true) (by decide) [58, 48, 46, 53]
    (Or.inr ⟨[48, 46, 53], rfl, by decide⟩)

/-- … and closed: the weight is `0.5` as parsed, not a default -/
example : ∃ tok es, parseToken textWt [65, 74, 115, 43, 58, 48, 46, 53] = .ok tok ∧ tok.expand = .ok es
    ∧ es.length = 12 ∧ ∀ e ∈ es, e.2 = [48, 46, 53] := by
  obtain ⟨tok, es, h1, h2, h3, _, _, h6⟩ := C05_token_weight textWt textWt_empty textWt_total (.pairPlus 0 3 true)
    (by decide) [58, 48, 46, 53] (Or.inr ⟨[48, 46, 53], rfl, by decide⟩)
  obtain ⟨w, hw, hall⟩ := h6 [48, 46, 53] rfl
  have hw' : w = [48, 46, 53] := by
    have : textWt.parseW [48, 46, 53] = some [48, 46, 53] := by decide
    rw [this] at hw
    exact (Option.some.inj hw).symm
  refine ⟨tok, es, h1, h2, ?_, fun e he => by rw [hall e he, hw']⟩
  have := h3.length_eq
  simp only [codesOf, List.length_map] at this
  rw [this]; decide

/-- the list ` KK+:0.5, AKs,AsKs:0 ,7d7c:0.5 `: A♠K♠ is denoted by `AKs` and then by `AsKs:0`; the LAST one wins and its
weight is the number `0` parses to; A♥K♥ keeps weight one (no suffix); 2♠2♥ is absent -/
example : ∃ r, parseRange textWt
      [32, 75, 75, 43, 58, 48, 46, 53, 44, 32, 65, 75, 115, 44, 65, 115, 75, 115, 58, 48, 32, 44,
       55, 100, 55, 99, 58, 48, 46, 53, 32] = .ok r
    ∧ r.lookup ⟨⟨0, 0⟩, ⟨1, 0⟩⟩ = some [48] ∧ r.lookup ⟨⟨0, 1⟩, ⟨1, 1⟩⟩ = some textWt.one
    ∧ r.lookup ⟨⟨12, 0⟩, ⟨12, 1⟩⟩ = none := by
  obtain ⟨r, hr, h⟩ := C05_list_weight textWt textWt_empty textWt_total
    [(.pocketPlus 1, [58, 48, 46, 53]), (.pair 0 1 true, []), (.cards 0 4, [58, 48]), (.cards 30 31, [58, 48, 46, 53])]
    (by
      intro p hp
      simp only [List.mem_cons, List.not_mem_nil, or_false] at hp
      rcases hp with rfl | rfl | rfl | rfl
      · exact ⟨by decide, Or.inr ⟨[48, 46, 53], rfl, by decide⟩⟩
      · exact ⟨by decide, Or.inl rfl⟩
      · exact ⟨by decide, Or.inr ⟨[48], rfl, by decide⟩⟩
      · exact ⟨by decide, Or.inr ⟨[48, 46, 53], rfl, by decide⟩⟩)
    [32, 75, 75, 43, 58, 48, 46, 53, 44, 32, 65, 75, 115, 44, 65, 115, 75, 115, 58, 48, 32, 44,
       55, 100, 55, 99, 58, 48, 46, 53, 32] (by decide)
  refine ⟨r, hr, ?_, ?_, ?_⟩
  · obtain ⟨w, hw, hl⟩ := ((h ⟨⟨0, 0⟩, ⟨1, 0⟩⟩ ⟨by decide, by decide, by decide⟩).2
      (.cards 0 4, [58, 48]) (by decide)).2 [48] rfl
    have : textWt.parseW [48] = some [48] := by decide
    rw [this] at hw
    rw [hl, ← Option.some.inj hw]
  · exact ((h ⟨⟨0, 1⟩, ⟨1, 1⟩⟩ ⟨by decide, by decide, by decide⟩).2 (.pair 0 1 true, []) (by decide)).1 rfl
  · exact (h ⟨⟨12, 0⟩, ⟨12, 1⟩⟩ ⟨by decide, by decide, by decide⟩).1 (by decide)

/-- `hparse_total` is a real restriction: the interface that never reads a number satisfies `hempty` but not it —
and for that interface the old conclusion `e.2 = suffixWeight wt suffix` holds with every weight silently one -/
example : (fun _ => none : Bytes → Option Bytes) [] = none
    ∧ ¬ (∀ t, isWeightText t = true → ∃ w, (fun _ => none : Bytes → Option Bytes) t = some w) :=
  ⟨rfl, fun h => by obtain ⟨w, hw⟩ := h [48] (by decide); cases hw⟩

end EspadaVerif.C05
