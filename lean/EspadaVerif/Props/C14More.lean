/-
C14 (addition) — "a range keyed by pairs can never hold the same combo twice", as one theorem.

`Props/C14.lean` shows that both card orders build the same key (`pair_canonical`);
`Lemmas/RangeAux.lean` shows that the contents of a range (any insert history of the hash map) have
pairwise different keys (`contents_nodup`).  Here the two are combined: inserting a combo under one card
order and then under the other leaves exactly one entry for it, carrying the later weight; and, for any
history whatsoever, no key occurs twice in the contents.
-/
import EspadaVerif.Props.C14
import EspadaVerif.Lemmas.RangeAux

namespace EspadaVerif.C14
open EspadaVerif Gen

variable {W : Type}

/-- in the contents of any range every key occurs at most once -/
theorem contents_count_le_one (r : HandRange W) (k : Combo) :
    ((HandRange.contents r).map (·.1)).count k ≤ 1 :=
  (List.nodup_iff_count.mp (RangeAux.contents_nodup r)) k

/-- two entries of the contents with the same key are the same entry (same weight) -/
theorem contents_key_unique (r : HandRange W) (e₁ e₂ : Combo × W)
    (h₁ : e₁ ∈ HandRange.contents r) (h₂ : e₂ ∈ HandRange.contents r) (hk : e₁.1 = e₂.1) : e₁ = e₂ := by
  induction r using HandRange.contents.induct with
  | case1 => simp [HandRange.contents] at h₁
  | case2 k v rest ih =>
    rw [HandRange.contents] at h₁ h₂
    have hne : ∀ e ∈ HandRange.contents (HandRange.remove rest k), e.1 ≠ k := by
      intro e he
      have := RangeAux.mem_contents _ e he
      simp only [HandRange.remove, List.mem_filter, decide_eq_true_eq] at this
      exact this.2
    rcases List.mem_cons.mp h₁ with rfl | h₁ <;> rcases List.mem_cons.mp h₂ with rfl | h₂
    · rfl
    · exact absurd hk.symm (hne _ h₂)
    · exact absurd hk (hne _ h₁)
    · exact ih h₁ h₂

/-- the entries of the contents under a key just inserted: that one entry -/
theorem contents_insert_filter (r : HandRange W) (k : Combo) (w : W) :
    (HandRange.contents (HandRange.insert r k w)).filter (fun e => e.1 = k) = [(k, w)] := by
  rw [HandRange.insert, HandRange.contents, List.filter_cons]
  simp only [decide_true, if_true, List.cons.injEq, true_and, List.filter_eq_nil_iff, decide_eq_true_eq]
  intro e he
  have := RangeAux.mem_contents _ e he
  simp only [HandRange.remove, List.mem_filter, decide_eq_true_eq] at this
  exact this.2

/-- **a range holds each combo once.**  For any insert history `r` and two different cards `a`, `b`:
both card orders are the same key; after inserting the combo under `mkPair a b` with weight `w₁` and
then under `mkPair b a` with weight `w₂`, the contents have pairwise different keys, contain exactly
one entry for that combo — the one with the later weight `w₂` — which is also what a lookup under
either order returns, and the earlier weight `w₁` survives nowhere under that key. -/
theorem range_holds_each_combo_once (r : HandRange W) (a b : Card) (h : a ≠ b) (w₁ w₂ : W) :
    mkPair a b = mkPair b a
    ∧ ((HandRange.contents ((r.insert (mkPair a b) w₁).insert (mkPair b a) w₂)).map (·.1)).Nodup
    ∧ (HandRange.contents ((r.insert (mkPair a b) w₁).insert (mkPair b a) w₂)).filter
        (fun e => e.1 = mkPair a b) = [(mkPair a b, w₂)]
    ∧ ((HandRange.contents ((r.insert (mkPair a b) w₁).insert (mkPair b a) w₂)).map (·.1)).count
        (mkPair a b) = 1
    ∧ HandRange.lookup ((r.insert (mkPair a b) w₁).insert (mkPair b a) w₂) (mkPair a b) = some w₂
    ∧ HandRange.lookup ((r.insert (mkPair a b) w₁).insert (mkPair b a) w₂) (mkPair b a) = some w₂
    ∧ ∀ e ∈ HandRange.contents ((r.insert (mkPair a b) w₁).insert (mkPair b a) w₂),
        e.1 = mkPair a b → e = (mkPair a b, w₂) := by
  have hsym := (pair_canonical a b h).1
  rw [← hsym]
  have hf := contents_insert_filter (HandRange.insert r (mkPair a b) w₁) (mkPair a b) w₂
  have hmem : (mkPair a b, w₂)
      ∈ HandRange.contents ((r.insert (mkPair a b) w₁).insert (mkPair a b) w₂) := by
    rw [HandRange.insert, HandRange.contents]; exact List.mem_cons_self
  refine ⟨rfl, RangeAux.contents_nodup _, hf, ?_, ?_, ?_, ?_⟩
  · apply Nat.le_antisymm (contents_count_le_one _ _)
    exact List.count_pos_iff.mpr (List.mem_map.mpr ⟨_, hmem, rfl⟩)
  · simp [HandRange.insert, HandRange.lookup]
  · simp [HandRange.insert, HandRange.lookup]
  · intro e he hk
    exact contents_key_unique _ e _ he hmem hk

/-- inserting under either card order does not disturb any other combo -/
theorem insert_other_lookup (r : HandRange W) (a b : Card) (w : W) (c : Combo) (hc : c ≠ mkPair a b) :
    HandRange.lookup (r.insert (mkPair a b) w) c = HandRange.lookup r c := by
  simp only [HandRange.insert, HandRange.lookup]
  rw [if_neg (fun e => hc e.symm)]

/-- non-vacuity: K♦ 7♣ inserted as (7♣, K♦) with weight 5 and then as (K♦, 7♣) with weight 9 into a
history that already holds it (weight 1) next to A♠ K♣ (weight 2): one entry `Kd7c ↦ 9`, and `AsKc`
untouched. -/
example :
    HandRange.contents
      ((HandRange.insert
          (HandRange.insert [(mkPair ⟨1, 2⟩ ⟨7, 3⟩, 1), (mkPair ⟨0, 0⟩ ⟨1, 3⟩, 2)] (mkPair ⟨7, 3⟩ ⟨1, 2⟩) 5)
          (mkPair ⟨1, 2⟩ ⟨7, 3⟩) 9) : HandRange Nat)
      = [(⟨⟨1, 2⟩, ⟨7, 3⟩⟩, 9), (⟨⟨0, 0⟩, ⟨1, 3⟩⟩, 2)] := by
  have hk : mkPair ⟨7, 3⟩ ⟨1, 2⟩ = (⟨⟨1, 2⟩, ⟨7, 3⟩⟩ : Combo) := by decide
  have hk' : mkPair ⟨1, 2⟩ ⟨7, 3⟩ = (⟨⟨1, 2⟩, ⟨7, 3⟩⟩ : Combo) := by decide
  have ha : mkPair ⟨0, 0⟩ ⟨1, 3⟩ = (⟨⟨0, 0⟩, ⟨1, 3⟩⟩ : Combo) := by decide
  rw [hk, hk', ha]
  simp [HandRange.insert, HandRange.contents, HandRange.remove]

example := range_holds_each_combo_once
  ([(mkPair ⟨1, 2⟩ ⟨7, 3⟩, 1), (mkPair ⟨0, 0⟩ ⟨1, 3⟩, 2)] : HandRange Nat) ⟨7, 3⟩ ⟨1, 2⟩ (by decide) 5 9

end EspadaVerif.C14
