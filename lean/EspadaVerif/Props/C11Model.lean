/-
C11 (closing review gaps F1–F4) — the tallies of the MODEL's runs.

* F1 `tally_perm_entries`, `tally_swap_cards`, `C11_suits_model`: `Spec.tally` does not depend on the order in
  which a player's entries are listed (the hash-map iteration order of the relabelled range is unrelated to the
  original one), nor on the order of the two cards inside an entry (`CardPair::new` re-normalises each relabelled
  pair); hence the suit invariance holds for the REAL relabelled input (`mkPair` of the relabelled cards, entries
  in any order), not only for the in-place `relabelEntries`.
* F3 `C11_players_perm`: the tallies follow ANY reordering of the players (every permutation of the seats is a
  sequence of neighbour exchanges: `perm_swaps`).
* F2 `C11_drain_tally`, `C11_suits_end_to_end`: the tallies counted on the showdowns that the unscoped model
  evaluator yields are `Spec.tally`; two runs, on an input and on its relabelled form, tally alike.
* F4 `C11_pot_sd`: in a model showdown the winners' shares `1 / winner_len` add up to exactly one pot.
-/
import EspadaVerif.Props.C11
import EspadaVerif.Props.C14
import EspadaVerif.Props.C03Rules
import EspadaVerif.Props.Witness.C11

set_option Elab.async false

namespace EspadaVerif.C11
open EspadaVerif Spec EspadaVerif.TallyLemmas

variable {W : Type}

/-! ## F1 (a): the order of a player's entries -/

/-- lists that are entry-wise permutations of each other have permuted products -/
theorem product_perm {α : Type} : ∀ (L L' : List (List α)) (hlen : L'.length = L.length),
    (∀ i (hi : i < L.length), (L'[i]'(by omega)).Perm L[i]) → (product L').Perm (product L) := by
  intro L
  induction L with
  | nil =>
    intro L' hlen _
    have : L' = [] := List.length_eq_zero_iff.mp (by simpa using hlen)
    subst this
    exact List.Perm.refl _
  | cons l rest ih =>
    intro L' hlen h
    match L', hlen with
    | l' :: rest', hlen =>
      have hlen' : rest'.length = rest.length := by simpa using hlen
      have h0 : l'.Perm l := h 0 (by simp)
      have hr : ∀ i (hi : i < rest.length), (rest'[i]'(by omega)).Perm rest[i] := by
        intro i hi
        have := h (i + 1) (by simp; omega)
        simpa using this
      simp only [product]
      refine (h0.flatMap_right _).trans ?_
      apply perm_flatMap_left
      intro a _
      exact (ih rest' hlen' hr).map _

theorem posCount_perm_entries (flop : List Nat) (entries entries' : List (List (Nat × Nat × W)))
    (hlen : entries'.length = entries.length)
    (h : ∀ i (hi : i < entries.length), (entries'[i]'(by omega)).Perm entries[i]) (p k t r : Nat) :
    posCount flop entries' p k t r = posCount flop entries p k t r := by
  unfold posCount
  exact (product_perm entries entries' hlen h).countP_eq _

/-- **F1 (entry order).** Listing each player's entries in another order (same players, same seats) leaves
every tally unchanged. -/
theorem tally_perm_entries (flop : List Nat) (entries entries' : List (List (Nat × Nat × W)))
    (hlen : entries'.length = entries.length)
    (h : ∀ i (hi : i < entries.length), (entries'[i]'(by omega)).Perm entries[i]) (p k : Nat) :
    tally flop entries' p k = tally flop entries p k := by
  rw [tally_eq, tally_eq]
  congr 1
  apply List.map_congr_left
  intro pos _
  exact posCount_perm_entries flop entries entries' hlen h p k _ _

/-! ## F1 (b): the order of the two cards inside an entry -/

/-- the same entry with its two cards exchanged -/
def swapCards (e : Nat × Nat × W) : Nat × Nat × W := (e.2.1, e.1, e.2.2)

theorem dealOK_swapCards {β : Type} (flop : List Nat) (p k t r : Nat) (f g : β → Nat × Nat × W) (chT : List β)
    (h : ∀ x ∈ chT, g x = f x ∨ g x = swapCards (f x)) :
    dealOK flop p k { turn := t, river := r, choice := chT.map g }
      = dealOK flop p k { turn := t, river := r, choice := chT.map f } := by
  have hl : Deal.legal flop ({ turn := t, river := r, choice := chT.map g } : Deal W)
      = Deal.legal flop { turn := t, river := r, choice := chT.map f } := by
    unfold Deal.legal
    apply decide_eq_decide.mpr
    refine (List.Perm.append_left _ ?_).nodup_iff
    simp only [List.flatMap_map]
    apply perm_flatMap_left
    intro x hx
    rcases h x hx with e | e
    · rw [e]
    · rw [e]; exact List.Perm.swap _ _ _
  have hh : dealHands flop ({ turn := t, river := r, choice := chT.map g } : Deal W)
      = dealHands flop { turn := t, river := r, choice := chT.map f } := by
    unfold dealHands
    simp only [List.map_map]
    apply List.map_congr_left
    intro x hx
    simp only [Function.comp]
    rcases h x hx with e | e
    · rw [e]
    · rw [e]
      apply Lemmas.best_perm
      apply List.Perm.map
      exact List.Perm.swap _ _ _
  unfold dealOK dealWins
  rw [hl, hh]

theorem posCount_swapCards {β : Type} (flop : List Nat) (T : List (List β)) (f g : β → Nat × Nat × W)
    (h : ∀ es ∈ T, ∀ x ∈ es, g x = f x ∨ g x = swapCards (f x)) (p k t r : Nat) :
    posCount flop (T.map (List.map g)) p k t r = posCount flop (T.map (List.map f)) p k t r := by
  unfold posCount
  rw [IterLemmas.product_map, IterLemmas.product_map, List.countP_map, List.countP_map]
  apply countP_congr_eq
  intro chT hch
  simp only [Function.comp]
  apply dealOK_swapCards
  intro x hx
  obtain ⟨es, hes, hxe⟩ := IterLemmas.mem_product hch x hx
  exact h es hes x hxe

/-- **F1 (card order), general form.** Two inputs read off the same table `T` of raw items, where the second
reading `g` gives for every item either the entry that the first reading `f` gives or that entry with its two
cards exchanged, have the same tallies.  (The choice may depend on anything the item carries — its value, its
seat, its position in the list.) -/
theorem tally_swap_cards_gen {β : Type} (flop : List Nat) (T : List (List β)) (f g : β → Nat × Nat × W)
    (h : ∀ es ∈ T, ∀ x ∈ es, g x = f x ∨ g x = swapCards (f x)) (p k : Nat) :
    tally flop (T.map (List.map g)) p k = tally flop (T.map (List.map f)) p k := by
  rw [tally_eq, tally_eq]
  congr 1
  apply List.map_congr_left
  intro pos _
  exact posCount_swapCards flop T f g h p k _ _

/-- **F1 (card order).** Exchanging the two cards inside the entries selected by any Boolean choice function
leaves every tally unchanged. -/
theorem tally_swap_cards (flop : List Nat) (entries : List (List (Nat × Nat × W)))
    (b : Nat × Nat × W → Bool) (p k : Nat) :
    tally flop (entries.map (List.map fun e => if b e then swapCards e else e)) p k = tally flop entries p k := by
  have := tally_swap_cards_gen flop entries (fun e => e) (fun e => if b e then swapCards e else e)
    (by intro es _ x _; cases b x <;> simp) p k
  simpa using this

/-- the choice made by seat `i` and list position `j` (so that of two equal entries one may be exchanged
and the other not) -/
theorem tally_swap_cards_at (flop : List Nat) (entries : List (List (Nat × Nat × W)))
    (b : Nat → Nat → Bool) (p k : Nat) :
    tally flop (entries.zipIdx.map fun esi =>
        esi.1.zipIdx.map fun ej => if b esi.2 ej.2 then swapCards ej.1 else ej.1) p k
      = tally flop entries p k := by
  have := tally_swap_cards_gen flop
    (entries.zipIdx.map fun esi => esi.1.zipIdx.map fun ej => (ej.1, esi.2, ej.2))
    (fun x : (Nat × Nat × W) × Nat × Nat => x.1)
    (fun x => if b x.2.1 x.2.2 then swapCards x.1 else x.1)
    (by intro es _ x _; cases b x.2.1 x.2.2 <;> simp) p k
  simp only [List.map_map, Function.comp_def] at this
  rw [this]
  congr 1
  have e1 : ∀ es : List (Nat × Nat × W), (es.zipIdx.map fun ej => ej.1) = es := fun es => List.zipIdx_map_fst 0 es
  simp only [e1]
  exact List.zipIdx_map_fst 0 entries

/-! ## F1 (c): the relabelled input of the model -/

/-- a suit relabelling on a model card -/
def relabelC (σ : Nat → Nat) (c : Card) : Card := ⟨c.rank, σ c.suit⟩

/-- what the relabelled range holds for an entry: both cards relabelled, the pair re-normalised by
`CardPair::new`, the weight kept -/
def relabelCombo (σ : Nat → Nat) (e : Combo × W) : Combo × W :=
  (mkPair (relabelC σ e.1.fst) (relabelC σ e.1.snd), e.2)

theorem code_relabelC (σ : Nat → Nat) (c : Card) (hv : c.valid = true) : (relabelC σ c).code = relabel σ c.code := by
  obtain ⟨r, s⟩ := c
  simp only [Card.valid, Bool.and_eq_true, decide_eq_true_eq] at hv
  have e1 : (r * 4 + s) / 4 = r := by omega
  have e2 : (r * 4 + s) % 4 = s := by omega
  simp only [relabelC, Card.code, relabel, e1, e2]
  omega

theorem valid_relabelC (σ : Nat → Nat) (hσ : SuitPerm σ) (c : Card) (hv : c.valid = true) :
    (relabelC σ c).valid = true := by
  obtain ⟨r, s⟩ := c
  simp only [Card.valid, Bool.and_eq_true, decide_eq_true_eq] at hv
  have := hσ.1 s hv.2
  simp only [relabelC, Card.valid, Bool.and_eq_true]
  exact ⟨decide_eq_true hv.1, decide_eq_true this⟩

theorem relabelC_inj (σ : Nat → Nat) (hσ : SuitPerm σ) (a b : Card) (ha : a.valid = true) (hb : b.valid = true)
    (h : relabelC σ a = relabelC σ b) : a = b := by
  obtain ⟨r, s⟩ := a
  obtain ⟨r', s'⟩ := b
  simp only [Card.valid, Bool.and_eq_true, decide_eq_true_eq] at ha hb
  simp only [relabelC, Card.mk.injEq] at h
  have := hσ.2 s s' ha.2 hb.2 h.2
  rw [h.1, this]

theorem flop_codes_relabel (σ : Nat → Nat) (flop : List Card) (hv : ∀ c ∈ flop, c.valid = true) :
    (flop.map (relabelC σ)).map Card.code = (flop.map Card.code).map (relabel σ) := by
  simp only [List.map_map]
  apply List.map_congr_left
  intro c hc
  exact code_relabelC σ c (hv c hc)

/-- the specification's view of a proper model input is a proper specification input -/
theorem wfSpec_of_wfInput (flop : List Card) (R : List (List (Combo × W))) (h : C02.WfInput flop R) :
    WfSpecInput (flop.map Card.code) (C02.specEntries R) := by
  refine ⟨by simpa using h.flop_len, (IterLemmas.nodup_map_code flop h.flop_valid).mpr h.flop_nodup, ?_, ?_⟩
  · intro c hc
    obtain ⟨x, hx, rfl⟩ := List.mem_map.mp hc
    exact IterLemmas.code_lt x (h.flop_valid x hx)
  · intro es hes e he
    simp only [C02.specEntries, List.mem_map] at hes
    obtain ⟨es0, hes0, rfl⟩ := hes
    obtain ⟨e0, he0, rfl⟩ := List.mem_map.mp he
    obtain ⟨v1, v2, hlt⟩ := h.combos es0 hes0 e0 he0
    refine ⟨IterLemmas.code_lt _ v1, IterLemmas.code_lt _ v2, ?_⟩
    intro hc
    exact IterLemmas.lt_ne hlt (IterLemmas.code_inj v1 v2 hc)

/-- **C11 (suits, on the model's input).** `R'` is what the relabelled ranges really hold: for every player, in
ANY order (hash-map iteration), the entries of `R` with both cards relabelled and the pair re-normalised by
`CardPair::new`; the flop is relabelled in place.  Every tally is the same as for `flop`, `R`. -/
theorem C11_suits_model (σ : Nat → Nat) (hσ : SuitPerm σ) (flop : List Card) (R R' : List (List (Combo × W)))
    (h : C02.WfInput flop R) (hlen : R'.length = R.length)
    (hperm : ∀ i (hi : i < R.length), (R'[i]'(by omega)).Perm (R[i].map (relabelCombo σ))) (p k : Nat) :
    tally ((flop.map (relabelC σ)).map Card.code) (C02.specEntries R') p k
      = tally (flop.map Card.code) (C02.specEntries R) p k := by
  -- 1. the order of the entries
  have s1 : tally ((flop.map (relabelC σ)).map Card.code) (C02.specEntries R') p k
      = tally ((flop.map (relabelC σ)).map Card.code) (C02.specEntries (R.map (List.map (relabelCombo σ)))) p k := by
    have hl1 : (C02.specEntries R').length = (C02.specEntries (R.map (List.map (relabelCombo σ)))).length := by
      simp [C02.specEntries, hlen]
    refine tally_perm_entries _ _ _ hl1 ?_ p k
    intro i hi
    simp only [C02.specEntries, List.getElem_map]
    apply List.Perm.map
    exact hperm i (by simpa [C02.specEntries] using hi)
  -- 2. the order of the two cards
  have s2 : C02.specEntries (R.map (List.map (relabelCombo σ)))
      = R.map (List.map fun e : Combo × W => ((relabelCombo σ e).1.fst.code, (relabelCombo σ e).1.snd.code, e.2)) := by
    simp only [C02.specEntries, List.map_map, Function.comp_def]
    rfl
  have s3 : relabelEntries σ (C02.specEntries R)
      = R.map (List.map fun e : Combo × W => relabelEntry σ (e.1.fst.code, e.1.snd.code, e.2)) := by
    simp [relabelEntries, C02.specEntries, Function.comp_def, relabelEntry]
  have s4 := tally_swap_cards_gen ((flop.map (relabelC σ)).map Card.code) R
    (fun e : Combo × W => relabelEntry σ (e.1.fst.code, e.1.snd.code, e.2))
    (fun e : Combo × W => ((relabelCombo σ e).1.fst.code, (relabelCombo σ e).1.snd.code, e.2))
    (by
      intro es hes e he
      obtain ⟨v1, v2, hlt⟩ := h.combos es hes e he
      have hne : relabelC σ e.1.fst ≠ relabelC σ e.1.snd := fun hc =>
        IterLemmas.lt_ne hlt (relabelC_inj σ hσ _ _ v1 v2 hc)
      obtain ⟨_, _, hc⟩ := C14.pair_canonical _ _ hne
      simp only [relabelCombo, relabelEntry, swapCards]
      rcases hc with ⟨h1, h2⟩ | ⟨h1, h2⟩
      · left; rw [h1, h2, code_relabelC σ _ v1, code_relabelC σ _ v2]
      · right; rw [h1, h2, code_relabelC σ _ v1, code_relabelC σ _ v2]) p k
  rw [s1, s2, s4, ← s3, flop_codes_relabel σ flop h.flop_valid]
  exact C11_suits σ hσ (flop.map Card.code) (C02.specEntries R) (wfSpec_of_wfInput flop R h) p k

/-- the relabelled input is again a proper input (so the iterator theorems apply to the second run) -/
theorem wfInput_relabel (σ : Nat → Nat) (hσ : SuitPerm σ) (flop : List Card) (R R' : List (List (Combo × W)))
    (h : C02.WfInput flop R) (hlen : R'.length = R.length)
    (hperm : ∀ i (hi : i < R.length), (R'[i]'(by omega)).Perm (R[i].map (relabelCombo σ))) :
    C02.WfInput (flop.map (relabelC σ)) R' := by
  have hmem : ∀ es' ∈ R', ∃ es ∈ R, es'.Perm (es.map (relabelCombo σ)) := by
    intro es' hes'
    obtain ⟨i, hi, rfl⟩ := List.getElem_of_mem hes'
    exact ⟨R[i]'(by omega), List.getElem_mem _, hperm i (by omega)⟩
  refine ⟨by simpa using h.flop_len, ?_, ?_, ?_, ?_⟩
  · rw [List.Nodup, List.pairwise_map]
    exact List.Pairwise.imp_of_mem
      (fun ha hb hab e => hab (relabelC_inj σ hσ _ _ (h.flop_valid _ ha) (h.flop_valid _ hb) e)) h.flop_nodup
  · intro c hc
    obtain ⟨x, hx, rfl⟩ := List.mem_map.mp hc
    exact valid_relabelC σ hσ x (h.flop_valid x hx)
  · intro es' hes' e' he'
    obtain ⟨es, hes, hp⟩ := hmem es' hes'
    obtain ⟨e, he, rfl⟩ := List.mem_map.mp (hp.mem_iff.mp he')
    obtain ⟨v1, v2, hlt⟩ := h.combos es hes e he
    have hne : relabelC σ e.1.fst ≠ relabelC σ e.1.snd := fun hc =>
      IterLemmas.lt_ne hlt (relabelC_inj σ hσ _ _ v1 v2 hc)
    obtain ⟨_, hl, hc⟩ := C14.pair_canonical _ _ hne
    have w1 := valid_relabelC σ hσ _ v1
    have w2 := valid_relabelC σ hσ _ v2
    simp only [relabelCombo]
    rcases hc with ⟨h1, h2⟩ | ⟨h1, h2⟩
    · exact ⟨by rw [h1]; exact w1, by rw [h2]; exact w2, hl⟩
    · exact ⟨by rw [h1]; exact w2, by rw [h2]; exact w1, hl⟩
  · intro es' hes'
    obtain ⟨es, hes, hp⟩ := hmem es' hes'
    rw [(hp.map (·.1)).nodup_iff, List.map_map]
    have hnd := h.nodup es hes
    rw [List.Nodup, List.pairwise_map] at hnd ⊢
    refine List.Pairwise.imp_of_mem ?_ hnd
    intro a b ha hb hab e
    apply hab
    obtain ⟨a1, a2, alt⟩ := h.combos es hes a ha
    obtain ⟨b1, b2, blt⟩ := h.combos es hes b hb
    have hna : relabelC σ a.1.fst ≠ relabelC σ a.1.snd := fun hc =>
      IterLemmas.lt_ne alt (relabelC_inj σ hσ _ _ a1 a2 hc)
    have hnb : relabelC σ b.1.fst ≠ relabelC σ b.1.snd := fun hc =>
      IterLemmas.lt_ne blt (relabelC_inj σ hσ _ _ b1 b2 hc)
    obtain ⟨_, _, hca⟩ := C14.pair_canonical _ _ hna
    obtain ⟨_, _, hcb⟩ := C14.pair_canonical _ _ hnb
    simp only [Function.comp, relabelCombo] at e
    rw [e] at hca
    have key : (a.1.fst = b.1.fst ∧ a.1.snd = b.1.snd) ∨ (a.1.fst = b.1.snd ∧ a.1.snd = b.1.fst) := by
      rcases hca with ⟨p1, p2⟩ | ⟨p1, p2⟩ <;> rcases hcb with ⟨q1, q2⟩ | ⟨q1, q2⟩
      · left
        exact ⟨relabelC_inj σ hσ _ _ a1 b1 (p1.symm.trans q1), relabelC_inj σ hσ _ _ a2 b2 (p2.symm.trans q2)⟩
      · right
        exact ⟨relabelC_inj σ hσ _ _ a1 b2 (p1.symm.trans q1), relabelC_inj σ hσ _ _ a2 b1 (p2.symm.trans q2)⟩
      · right
        exact ⟨relabelC_inj σ hσ _ _ a1 b2 (p2.symm.trans q2), relabelC_inj σ hσ _ _ a2 b1 (p1.symm.trans q1)⟩
      · left
        exact ⟨relabelC_inj σ hσ _ _ a1 b1 (p2.symm.trans q2), relabelC_inj σ hσ _ _ a2 b2 (p1.symm.trans q1)⟩
    rcases key with ⟨k1, k2⟩ | ⟨k1, k2⟩
    · obtain ⟨⟨af, as⟩, _⟩ := a
      obtain ⟨⟨bf, bs⟩, _⟩ := b
      simp only at k1 k2 ⊢
      rw [k1, k2]
    · exfalso
      rw [k1, k2] at alt
      have := C14.lt_asymm _ _ blt
      rw [alt] at this
      cases this

/-! ## F3: any reordering of the players -/

/-- a sequence of neighbour exchanges, applied from left to right -/
def applySwaps {α : Type} (is : List Nat) (l : List α) : List α := is.foldl (fun l i => swapAt i l) l

/-- where the player at seat `p` sits after the sequence -/
def idxAfter (is : List Nat) (p : Nat) : Nat := is.foldl (fun p i => swapIdx i p) p

theorem applySwaps_length {α : Type} (is : List Nat) (l : List α) : (applySwaps is l).length = l.length := by
  induction is generalizing l with
  | nil => rfl
  | cons i is ih => simp only [applySwaps, List.foldl_cons] at ih ⊢; rw [ih, swapAt_length]

theorem applySwaps_cons {α : Type} (is : List Nat) (x : α) (l : List α) :
    applySwaps (is.map (· + 1)) (x :: l) = x :: applySwaps is l := by
  induction is generalizing l with
  | nil => rfl
  | cons i is ih =>
    simp only [applySwaps, List.map_cons, List.foldl_cons, swapAt] at ih ⊢
    exact ih _

theorem applySwaps_append {α : Type} (is₁ is₂ : List Nat) (l : List α) :
    applySwaps (is₁ ++ is₂) l = applySwaps is₂ (applySwaps is₁ l) := by
  simp only [applySwaps, List.foldl_append]

theorem applySwaps_map {α β : Type} (f : α → β) (is : List Nat) (l : List α) :
    applySwaps is (l.map f) = (applySwaps is l).map f := by
  induction is generalizing l with
  | nil => rfl
  | cons i is ih =>
    simp only [applySwaps, List.foldl_cons] at ih ⊢
    rw [swapAt_map, ih]

/-- **neighbour exchanges generate every reordering**: any permutation of a list is reached by a sequence
of (in-range) neighbour exchanges -/
theorem perm_swaps {α : Type} {l₁ l₂ : List α} (h : l₁.Perm l₂) :
    ∃ is : List Nat, (∀ i ∈ is, i + 1 < l₁.length) ∧ applySwaps is l₁ = l₂ := by
  induction h with
  | nil => exact ⟨[], by simp, rfl⟩
  | cons x _ ih =>
    obtain ⟨is, hb, he⟩ := ih
    refine ⟨is.map (· + 1), ?_, by rw [applySwaps_cons, he]⟩
    intro i hi
    obtain ⟨j, hj, rfl⟩ := List.mem_map.mp hi
    have := hb j hj
    simp only [List.length_cons]
    omega
  | swap x y l => exact ⟨[0], by simp, rfl⟩
  | trans h₁ _ ih₁ ih₂ =>
    obtain ⟨is₁, hb₁, he₁⟩ := ih₁
    obtain ⟨is₂, hb₂, he₂⟩ := ih₂
    refine ⟨is₁ ++ is₂, ?_, by rw [applySwaps_append, he₁, he₂]⟩
    intro i hi
    rcases List.mem_append.mp hi with hi | hi
    · exact hb₁ i hi
    · rw [h₁.length_eq]; exact hb₂ i hi

theorem applySwaps_getElem? {α : Type} (is : List Nat) (l : List α) (p : Nat) (h : ∀ i ∈ is, i + 1 < l.length) :
    (applySwaps is l)[idxAfter is p]? = l[p]? := by
  induction is generalizing l p with
  | nil => rfl
  | cons i is ih =>
    simp only [applySwaps, idxAfter, List.foldl_cons] at ih ⊢
    rw [ih (swapAt i l) (swapIdx i p) (by intro j hj; rw [swapAt_length]; exact h j (List.mem_cons_of_mem _ hj))]
    exact swapAt_getElem? i p l (h i (by simp))

/-- the tallies follow a sequence of neighbour exchanges -/
theorem tally_applySwaps (flop : List Nat) (entries : List (List (Nat × Nat × W))) (is : List Nat)
    (h : ∀ i ∈ is, i + 1 < entries.length) (p k : Nat) :
    tally flop (applySwaps is entries) (idxAfter is p) k = tally flop entries p k := by
  induction is generalizing entries p with
  | nil => rfl
  | cons i is ih =>
    simp only [applySwaps, idxAfter, List.foldl_cons] at ih ⊢
    rw [ih (swapAt i entries) (by intro j hj; rw [swapAt_length]; exact h j (List.mem_cons_of_mem _ hj))
      (swapIdx i p)]
    exact C11_players flop entries i (h i (by simp)) p k

theorem map_range_getElem! {α : Type} [Inhabited α] (l : List α) : (List.range l.length).map (l[·]!) = l := by
  apply List.ext_getElem
  · simp
  · intro i h1 h2
    simp only [List.getElem_map, List.getElem_range]
    exact getElem!_pos l i h2

/-- **C11 (players, any reordering).** Let `π` be any reordering of the seats `0 … n-1`; seat `p` of the
reordered table is taken by the old player `π[p]`.  Then the tallies of seat `p` of the reordered table are
those of the old player `π[p]`. -/
theorem C11_players_perm (flop : List Nat) (entries : List (List (Nat × Nat × W))) (π : List Nat)
    (hπ : π.Perm (List.range entries.length)) (p : Nat) (hp : p < entries.length) (k : Nat) :
    tally flop (π.map (entries[·]!)) p k = tally flop entries (π[p]!) k := by
  obtain ⟨is, hb, he⟩ := perm_swaps hπ.symm
  have hb' : ∀ i ∈ is, i + 1 < entries.length := by
    intro i hi
    have := hb i hi
    simpa using this
  have hlen : π.length = entries.length := by rw [hπ.length_eq]; simp
  have hnd : π.Nodup := hπ.nodup_iff.mpr List.nodup_range
  -- the reordered table is reached by the exchanges
  have e1 : π.map (entries[·]!) = applySwaps is entries := by
    rw [← he, ← applySwaps_map, map_range_getElem!]
  -- the old player `q = π[p]` ends at seat `p`
  have hpπ : p < π.length := by omega
  have hq : π[p]? = some π[p]! := by
    rw [getElem!_pos π p hpπ]
    exact List.getElem?_eq_getElem hpπ
  have hqlt : π[p]! < entries.length := by
    have : π[p]! ∈ π := List.mem_of_getElem? hq
    simpa using hπ.mem_iff.mp this
  have h2 : π[idxAfter is π[p]!]? = π[p]? := by
    have := applySwaps_getElem? is (List.range entries.length) π[p]! hb
    rw [he] at this
    rw [this, hq, List.getElem?_range hqlt]
  have h3 : idxAfter is π[p]! = p := ((List.getElem?_inj hpπ hnd).mp h2.symm).symm
  rw [e1, ← tally_applySwaps flop entries is hb' π[p]! k, h3]

/-! ## F2: the tallies of the iterator's output -/

/-- tally counted on yielded showdowns: in how many of them player `p` is flagged and exactly `k` players are -/
def tallyOf (sds : List (Showdown W)) (p k : Nat) : Nat :=
  sds.countP fun sd => (sd.players[p]?.map (·.win) == some true) && sd.players.countP (·.win) == k

/-- a drain that stopped before its limit returns the same with any larger limit -/
theorem drainFuel_mono (ops : WOps W) : ∀ (L : Nat) (s : IterState W) (acc sds : List (Showdown W)) (e : IterState W),
    drainFuel ops L s acc = .ok (sds, e) → sds.length < L + acc.length →
    ∀ L', L ≤ L' → drainFuel ops L' s acc = .ok (sds, e) := by
  intro L
  induction L with
  | zero =>
    intro s acc sds e h hl
    simp only [drainFuel, Res.ok.injEq, Prod.mk.injEq] at h
    rw [← h.1] at hl
    simp at hl
  | succ L ih =>
    intro s acc sds e h hl L' hL'
    obtain ⟨L'', rfl⟩ : ∃ L'', L' = L'' + 1 := ⟨L' - 1, by omega⟩
    cases hn : next ops s with
    | ok v =>
      obtain ⟨o, s'⟩ := v
      cases o with
      | none =>
        simp only [drainFuel, hn] at h ⊢
        exact h
      | some sd =>
        simp only [drainFuel, hn] at h ⊢
        exact ih s' (sd :: acc) sds e h (by simp only [List.length_cons]; omega) L'' (by omega)
    | err => simp only [drainFuel, hn] at h; cases h
    | panic => simp only [drainFuel, hn] at h; cases h

/-- the default scope of `FlopExhaustiveEvaluator::new` is the full enumeration -/
theorem new_eq_mkEvaluator (flop : List Card) (R : List (List (Combo × W))) :
    Evaluator.new (flop.map some ++ [none, none]) R = C02.mkEvaluator flop R (0, 1) (48, 49) := rfl

theorem fullScope_valid : C02.ValidScope (0, 1) (48, 49) := ⟨by decide, by decide, by decide⟩

/-- **C11 (the iterator's tallies).** Drain the unscoped model evaluator of a proper input (any run of `drainFuel`
that stopped before exhausting its limit, i.e. on `next() = None`): the tallies counted on the yielded
showdowns are the specification's tallies. -/
theorem C11_drain_tally (ops : WOps W) (flop : List Card) (R : List (List (Combo × W))) (h : C02.WfInput flop R)
    (s₀ : IterState W) (h0 : (Evaluator.new (flop.map some ++ [none, none]) R).intoIter = .ok s₀)
    (limit : Nat) (sds : List (Showdown W)) (sEnd : IterState W)
    (hd : drainFuel ops limit s₀ [] = .ok (sds, sEnd)) (hl : sds.length < limit) (p k : Nat) :
    tallyOf sds p k = tally (flop.map Card.code) (C02.specEntries R) p k := by
  obtain ⟨s₀', hi, sds', sEnd', hdr, hmap, _⟩ := C02.C02_refines ops flop R (0, 1) (48, 49) h fullScope_valid
  rw [← new_eq_mkEvaluator, h0] at hi
  have hs : s₀ = s₀' := by injection hi
  subst hs
  -- the run is the drain of `C02_refines`
  have e1 := drainFuel_mono ops limit s₀ [] sds sEnd hd (by simpa using hl) (max limit (sds'.length + 1))
    (Nat.le_max_left _ _)
  have e2 := hdr (max limit (sds'.length + 1)) (by have := Nat.le_max_right limit (sds'.length + 1); omega)
  rw [e1] at e2
  have hsds : sds = sds' := by
    injection e2 with e2
    injection e2
  subst hsds
  -- count on both sides
  let P : Res (Option (Showdown W)) → Bool := fun r =>
    match r with
    | .ok (some sd) => (sd.players[p]?.map (·.win) == some true) && sd.players.countP (·.win) == k
    | _ => false
  have c1 : tallyOf sds p k = (sds.map fun sd => (Res.ok (some sd) : Res (Option (Showdown W)))).countP P := by
    rw [List.countP_map]
    rfl
  rw [c1, ← hmap, List.countP_map]
  unfold tally
  apply countP_congr_eq
  intro d hd
  obtain ⟨sd, hsd, _, hw⟩ := C11_model_flags ops flop R (0, 1) (48, 49) h d hd
  simp only [Function.comp, hsd, P]
  rw [← hw, List.getElem?_map, List.countP_map]
  rfl

/-- existence form: the unscoped evaluator of a proper input does drain, and its tallies are the specification's -/
theorem C11_drain_tally_exists (ops : WOps W) (flop : List Card) (R : List (List (Combo × W)))
    (h : C02.WfInput flop R) :
    ∃ (s₀ : IterState W) (sds : List (Showdown W)) (sEnd : IterState W),
      (Evaluator.new (flop.map some ++ [none, none]) R).intoIter = .ok s₀
      ∧ (∀ limit, sds.length < limit → drainFuel ops limit s₀ [] = .ok (sds, sEnd))
      ∧ next ops sEnd = .ok (none, sEnd)
      ∧ ∀ p k, tallyOf sds p k = tally (flop.map Card.code) (C02.specEntries R) p k := by
  obtain ⟨s₀, hi, sds, sEnd, hdr, _, hn⟩ := C02.C02_refines ops flop R (0, 1) (48, 49) h fullScope_valid
  refine ⟨s₀, sds, sEnd, hi, hdr, hn, ?_⟩
  intro p k
  exact C11_drain_tally ops flop R h s₀ hi (sds.length + 1) sds sEnd (hdr _ (by omega)) (by omega) p k

/-- **C11 (suits, end to end).** Two runs of the unscoped model evaluator: on a proper input `flop`, `R`, and on
its relabelled form (flop relabelled in place; each player's range holding, in any order, the re-normalised
relabelled pairs with their weights).  Both drains tally alike, for every seat `p` and every `k`. -/
theorem C11_suits_end_to_end (ops : WOps W) (σ : Nat → Nat) (hσ : SuitPerm σ) (flop : List Card)
    (R R' : List (List (Combo × W))) (h : C02.WfInput flop R) (hlen : R'.length = R.length)
    (hperm : ∀ i (hi : i < R.length), (R'[i]'(by omega)).Perm (R[i].map (relabelCombo σ)))
    (s₀ s₀' : IterState W)
    (h0 : (Evaluator.new (flop.map some ++ [none, none]) R).intoIter = .ok s₀)
    (h0' : (Evaluator.new ((flop.map (relabelC σ)).map some ++ [none, none]) R').intoIter = .ok s₀')
    (limit limit' : Nat) (sds sds' : List (Showdown W)) (sEnd sEnd' : IterState W)
    (hd : drainFuel ops limit s₀ [] = .ok (sds, sEnd)) (hl : sds.length < limit)
    (hd' : drainFuel ops limit' s₀' [] = .ok (sds', sEnd')) (hl' : sds'.length < limit') (p k : Nat) :
    tallyOf sds' p k = tallyOf sds p k := by
  rw [C11_drain_tally ops flop R h s₀ h0 limit sds sEnd hd hl,
    C11_drain_tally ops (flop.map (relabelC σ)) R' (wfInput_relabel σ hσ flop R R' h hlen hperm) s₀' h0' limit' sds'
      sEnd' hd' hl']
  exact C11_suits_model σ hσ flop R R' h hlen hperm p k

/-- the same for a reordering of the players: seat `p` of the reordered run tallies like the old player `π[p]` -/
theorem C11_players_end_to_end (ops : WOps W) (flop : List Card) (R : List (List (Combo × W)))
    (h : C02.WfInput flop R) (π : List Nat) (hπ : π.Perm (List.range R.length)) (p : Nat) (hp : p < R.length)
    (s₀ s₀' : IterState W)
    (h0 : (Evaluator.new (flop.map some ++ [none, none]) R).intoIter = .ok s₀)
    (h0' : (Evaluator.new (flop.map some ++ [none, none]) (π.map (R[·]!))).intoIter = .ok s₀')
    (limit limit' : Nat) (sds sds' : List (Showdown W)) (sEnd sEnd' : IterState W)
    (hd : drainFuel ops limit s₀ [] = .ok (sds, sEnd)) (hl : sds.length < limit)
    (hd' : drainFuel ops limit' s₀' [] = .ok (sds', sEnd')) (hl' : sds'.length < limit') (k : Nat) :
    tallyOf sds' p k = tallyOf sds (π[p]!) k := by
  have hmem : ∀ es ∈ π.map (R[·]!), es ∈ R := by
    intro es hes
    obtain ⟨i, hi, rfl⟩ := List.mem_map.mp hes
    have hi' : i < R.length := by simpa using hπ.mem_iff.mp hi
    rw [getElem!_pos R i hi']
    exact List.getElem_mem _
  have h' : C02.WfInput flop (π.map (R[·]!)) :=
    ⟨h.flop_len, h.flop_nodup, h.flop_valid, fun es hes => h.combos es (hmem es hes),
      fun es hes => h.nodup es (hmem es hes)⟩
  rw [C11_drain_tally ops flop R h s₀ h0 limit sds sEnd hd hl,
    C11_drain_tally ops flop (π.map (R[·]!)) h' s₀' h0' limit' sds' sEnd' hd' hl']
  have e : C02.specEntries (π.map (R[·]!)) = π.map ((C02.specEntries R)[·]!) := by
    simp only [C02.specEntries, List.map_map]
    apply List.map_congr_left
    intro i hi
    have hi' : i < R.length := by simpa using hπ.mem_iff.mp hi
    simp only [Function.comp]
    rw [getElem!_pos R i hi', getElem!_pos _ i (by simpa using hi'), List.getElem_map]
  rw [e]
  have hπ' : π.Perm (List.range (C02.specEntries R).length) := by simpa [C02.specEntries] using hπ
  exact C11_players_perm (flop.map Card.code) (C02.specEntries R) π hπ' p (by simpa [C02.specEntries] using hp) k

/-! ## F4: the pot -/

theorem sum_map_const_rat {α : Type} (l : List α) (c : Rat) : (l.map fun _ => c).sum = (l.length : Rat) * c := by
  induction l with
  | nil => simp
  | cons x l ih =>
    simp only [List.map_cons, List.sum_cons, List.length_cons, ih]
    rw [Rat.natCast_add, Rat.add_mul, Rat.add_comm]
    simp

/-- the shares add up to one pot as soon as the reported count is the number of flagged players and is positive -/
theorem pot_of_count (sd : Showdown W) (k : Nat) (hk : k = sd.players.countP (·.win)) (h1 : 1 ≤ k) :
    ((sd.players.filter (·.win)).map fun _ => (1 : Rat) / k).sum = 1 := by
  rw [sum_map_const_rat, ← List.countP_eq_length_filter, ← hk]
  exact C11_pot_shares k h1

/-- **C11 (pot), weakest form.** A produced showdown of a non-empty table whose `winner_len()` returns `k`
— in a debug build (where an overflowing count traps instead of returning), or with at most 255 flagged
players — has `k ≥ 1`, and the winners' shares of `1 / k` add up to exactly one pot. -/
theorem C11_pot_sd_weak (board : List Card) (ps : List Combo) (prob : W) (h : C03.WfTable board ps) (hne : ps ≠ [])
    (sd : Showdown W) (hsd : showdownNew ps board prob = .ok (some sd)) (dbg : Bool)
    (hb : dbg = true ∨ sd.players.countP (·.win) ≤ 255) (k : Nat) (hk : winnerLen sd dbg = .ok k) :
    1 ≤ k ∧ ((sd.players.filter (·.win)).map fun _ => (1 : Rat) / k).sum = 1 := by
  obtain ⟨_, _, _, _, _, _, _, hone⟩ := C03.some_facts board ps prob h sd hsd
  have h1 := hone hne
  have hk' : k = sd.players.countP (·.win) := by
    unfold winnerLen at hk
    by_cases hc : sd.players.countP (·.win) ≤ 255
    · simp only [hc, if_true, Res.ok.injEq] at hk
      exact hk.symm
    · rcases hb with hb | hb
      · simp only [hc, if_false, hb, if_true] at hk
        cases hk
      · exact absurd hb hc
  exact ⟨by omega, pot_of_count sd k hk' (by omega)⟩

/-- the same for at most 255 players -/
theorem C11_pot_sd_of_le (board : List Card) (ps : List Combo) (prob : W) (h : C03.WfTable board ps) (hne : ps ≠ [])
    (hle : ps.length ≤ 255) (sd : Showdown W) (hsd : showdownNew ps board prob = .ok (some sd)) (dbg : Bool)
    (k : Nat) (hk : winnerLen sd dbg = .ok k) :
    1 ≤ k ∧ ((sd.players.filter (·.win)).map fun _ => (1 : Rat) / k).sum = 1 := by
  obtain ⟨_, _, _, hh, _⟩ := C03.some_facts board ps prob h sd hsd
  have hl : sd.players.length = ps.length := by
    have := congrArg List.length hh
    simpa using this
  have := List.countP_le_length (p := fun pl : ShowdownPlayer => pl.win) (l := sd.players)
  exact C11_pot_sd_weak board ps prob h hne sd hsd dbg (Or.inr (by omega)) k hk

/-- **C11 (pot).** Under the property's precondition (five board cards and two hole cards per player, all valid
and pairwise different — hence at most 23 players — and at least one player): whatever `winner_len()` returns,
in a debug or a release build, is `k ≥ 1`, and the winners' shares of `1 / k` add up to exactly one pot. -/
theorem C11_pot_sd (board : List Card) (ps : List Combo) (prob : W) (h : C03.WfTable board ps) (hne : ps ≠ [])
    (hnd : (C03.tableCards board ps).Nodup) (sd : Showdown W) (hsd : showdownNew ps board prob = .ok (some sd))
    (dbg : Bool) (k : Nat) (hk : winnerLen sd dbg = .ok k) :
    1 ≤ k ∧ ((sd.players.filter (·.win)).map fun _ => (1 : Rat) / k).sum = 1 := by
  have := C03.players_le_23 board ps h hnd
  exact C11_pot_sd_of_le board ps prob h hne (by omega) sd hsd dbg k hk


/-! ## instances at concrete data (flop A♠ K♦ 7♣, the suit 3-cycle `σ` of `Props/Witness/C11.lean`) -/

namespace ModelWitness
open EspadaVerif.C11.Witness EspadaVerif.Witness

/-! ### F1 -/

/-- player 0's two entries listed in the other order -/
def entriesRev : List (List (Nat × Nat × Nat)) := [[(1, 5, 3), (8, 9, 2)], [(12, 16, 1), (9, 13, 5)], [(26, 27, 4)]]

theorem entriesRev_perm : ∀ i (hi : i < entries.length), (entriesRev[i]'(Nat.lt_of_lt_of_eq hi rfl)).Perm entries[i] := by
  intro i hi
  match i, hi with
  | 0, _ => exact List.Perm.swap _ _ _
  | 1, _ => exact List.Perm.refl _
  | 2, _ => exact List.Perm.refl _

theorem tally_perm_entries_at_witness (p k : Nat) : tally flopCodes entriesRev p k = tally flopCodes entries p k :=
  tally_perm_entries flopCodes entries entriesRev rfl entriesRev_perm p k

/-- Q♠Q♥ stored as (9, 8) instead of (8, 9), everything else as before -/
theorem tally_swap_cards_at_witness (p k : Nat) :
    tally flopCodes [[(9, 8, 2), (1, 5, 3)], [(12, 16, 1), (9, 13, 5)], [(26, 27, 4)]] p k = tally flopCodes entries p k :=
  tally_swap_cards flopCodes entries (fun e => e.1 == 8) p k
example : entries.map (List.map fun e => if (fun e : Nat × Nat × Nat => e.1 == 8) e then swapCards e else e)
    = [[(9, 8, 2), (1, 5, 3)], [(12, 16, 1), (9, 13, 5)], [(26, 27, 4)]] := by decide

/-- by seat and position: only the second entry of seat 1 -/
example (p k : Nat) :
    tally flopCodes [[(8, 9, 2), (1, 5, 3)], [(12, 16, 1), (13, 9, 5)], [(26, 27, 4)]] p k = tally flopCodes entries p k :=
  tally_swap_cards_at flopCodes entries (fun i j => i == 1 && j == 1) p k

/-- model ranges: Q♠Q♦ ×2, A♥K♥ ×3 | J♠T♠ ×1, Q♥J♥ ×5 -/
def R : List (List (Combo × Nat)) :=
  [[(⟨⟨2, 0⟩, ⟨2, 2⟩⟩, 2), (⟨⟨0, 1⟩, ⟨1, 1⟩⟩, 3)], [(⟨⟨3, 0⟩, ⟨4, 0⟩⟩, 1), (⟨⟨2, 1⟩, ⟨3, 1⟩⟩, 5)]]
/-- what the relabelled ranges hold (spade → heart → diamond → spade), each listed in the opposite order:
A♦K♦ ×3, Q♠Q♥ ×2 (the image Q♥Q♠ of Q♠Q♦ is re-normalised: the two cards change places) | Q♦J♦ ×5, J♥T♥ ×1 -/
def R' : List (List (Combo × Nat)) :=
  [[(⟨⟨0, 2⟩, ⟨1, 2⟩⟩, 3), (⟨⟨2, 0⟩, ⟨2, 1⟩⟩, 2)], [(⟨⟨2, 2⟩, ⟨3, 2⟩⟩, 5), (⟨⟨3, 1⟩, ⟨4, 1⟩⟩, 1)]]

theorem wfR : C02.WfInput flop R := ⟨by decide, by decide, by decide, by decide, by decide⟩
/-- `R'` differs from the in-place relabelling both in the order of the entries and inside the first pair -/
example : R.map (List.map (relabelCombo σ))
    = [[(⟨⟨2, 0⟩, ⟨2, 1⟩⟩, 2), (⟨⟨0, 2⟩, ⟨1, 2⟩⟩, 3)], [(⟨⟨3, 1⟩, ⟨4, 1⟩⟩, 1), (⟨⟨2, 2⟩, ⟨3, 2⟩⟩, 5)]] := by decide
example : relabelC σ ⟨2, 0⟩ = ⟨2, 1⟩ ∧ relabelC σ ⟨2, 2⟩ = ⟨2, 0⟩ := by decide
example : flop.map (relabelC σ) = [⟨0, 1⟩, ⟨1, 0⟩, ⟨7, 3⟩] := by decide

theorem R'_perm : ∀ i (hi : i < R.length), (R'[i]'(Nat.lt_of_lt_of_eq hi rfl)).Perm (R[i].map (relabelCombo σ)) := by
  intro i hi
  match i, hi with
  | 0, _ => exact List.Perm.swap _ _ _
  | 1, _ => exact List.Perm.swap _ _ _

theorem C11_suits_model_at_witness (p k : Nat) :
    tally [1, 4, 31] [[(2, 6, 3), (8, 9, 2)], [(10, 14, 5), (13, 17, 1)]] p k
      = tally [0, 6, 31] [[(8, 10, 2), (1, 5, 3)], [(12, 16, 1), (9, 13, 5)]] p k :=
  C11_suits_model σ σ_perm flop R R' wfR rfl R'_perm p k
example : (flop.map (relabelC σ)).map Card.code = [1, 4, 31] ∧ flop.map Card.code = [0, 6, 31]
    ∧ C02.specEntries R' = [[(2, 6, 3), (8, 9, 2)], [(10, 14, 5), (13, 17, 1)]]
    ∧ C02.specEntries R = [[(8, 10, 2), (1, 5, 3)], [(12, 16, 1), (9, 13, 5)]] := by decide

example : C02.WfInput (flop.map (relabelC σ)) R' := wfInput_relabel σ σ_perm flop R R' wfR rfl R'_perm

/-! ### F3 -/

/-- the rotation "old player 2 takes seat 0, old player 0 seat 1, old player 1 seat 2" — not a neighbour exchange -/
theorem rot_perm : [2, 0, 1].Perm (List.range entries.length) := by decide

theorem C11_players_perm_at_witness (k : Nat) :
    tally flopCodes [[(26, 27, 4)], [(8, 9, 2), (1, 5, 3)], [(12, 16, 1), (9, 13, 5)]] 0 k = tally flopCodes entries 2 k
    ∧ tally flopCodes [[(26, 27, 4)], [(8, 9, 2), (1, 5, 3)], [(12, 16, 1), (9, 13, 5)]] 1 k = tally flopCodes entries 0 k
    ∧ tally flopCodes [[(26, 27, 4)], [(8, 9, 2), (1, 5, 3)], [(12, 16, 1), (9, 13, 5)]] 2 k = tally flopCodes entries 1 k :=
  ⟨C11_players_perm flopCodes entries [2, 0, 1] rot_perm 0 (by decide) k,
   C11_players_perm flopCodes entries [2, 0, 1] rot_perm 1 (by decide) k,
   C11_players_perm flopCodes entries [2, 0, 1] rot_perm 2 (by decide) k⟩
example : [2, 0, 1].map (entries[·]!) = [[(26, 27, 4)], [(8, 9, 2), (1, 5, 3)], [(12, 16, 1), (9, 13, 5)]] := by decide
/-- the rotation as two neighbour exchanges -/
example : applySwaps [1, 0] [0, 1, 2] = [2, 0, 1] ∧ idxAfter [1, 0] 2 = 0 ∧ idxAfter [1, 0] 0 = 1 := by decide
/-- the hypothesis matters: `[2, 0, 0]` is no reordering of three seats -/
example : ¬ [2, 0, 0].Perm (List.range entries.length) := by decide

/-! ### F2 -/

theorem C11_drain_tally_at_witness :
    ∃ (s₀ : IterState Nat) (sds : List (Showdown Nat)) (sEnd : IterState Nat),
      (Evaluator.new (flop.map some ++ [none, none]) R).intoIter = .ok s₀
      ∧ (∀ limit, sds.length < limit → drainFuel natOps limit s₀ [] = .ok (sds, sEnd))
      ∧ next natOps sEnd = .ok (none, sEnd)
      ∧ ∀ p k, tallyOf sds p k = tally [0, 6, 31] [[(8, 10, 2), (1, 5, 3)], [(12, 16, 1), (9, 13, 5)]] p k :=
  C11_drain_tally_exists natOps flop R wfR

/-- both runs exist, and they tally alike -/
theorem C11_suits_end_to_end_at_witness :
    ∃ (s₀ s₀' : IterState Nat) (sds sds' : List (Showdown Nat)) (sEnd sEnd' : IterState Nat),
      (Evaluator.new (flop.map some ++ [none, none]) R).intoIter = .ok s₀
      ∧ (Evaluator.new ([some ⟨0, 1⟩, some ⟨1, 0⟩, some ⟨7, 3⟩, none, none]) R').intoIter = .ok s₀'
      ∧ drainFuel natOps (sds.length + 1) s₀ [] = .ok (sds, sEnd)
      ∧ drainFuel natOps (sds'.length + 1) s₀' [] = .ok (sds', sEnd')
      ∧ ∀ p k, tallyOf sds' p k = tallyOf sds p k := by
  obtain ⟨s₀, sds, sEnd, h0, hd, _, _⟩ := C11_drain_tally_exists natOps flop R wfR
  obtain ⟨s₀', sds', sEnd', h0', hd', _, _⟩ := C11_drain_tally_exists natOps (flop.map (relabelC σ)) R'
    (wfInput_relabel σ σ_perm flop R R' wfR rfl R'_perm)
  refine ⟨s₀, s₀', sds, sds', sEnd, sEnd', h0, h0', hd _ (by omega), hd' _ (by omega), ?_⟩
  intro p k
  exact C11_suits_end_to_end natOps σ σ_perm flop R R' wfR rfl R'_perm s₀ s₀' h0 h0' _ _ sds sds' sEnd sEnd'
    (hd _ (Nat.lt_succ_self _)) (Nat.lt_succ_self _) (hd' _ (Nat.lt_succ_self _)) (Nat.lt_succ_self _) p k

/-- `tallyOf` evaluated on two hand-made showdowns: seat 1 wins outright once, seats 0 and 1 tie once -/
example : tallyOf ([⟨[], [⟨⟨⟨0, 1⟩, ⟨1, 1⟩⟩, 2473, false⟩, ⟨⟨⟨2, 1⟩, ⟨3, 1⟩⟩, 300, true⟩], 1⟩,
      ⟨[], [⟨⟨⟨0, 1⟩, ⟨1, 1⟩⟩, 7, true⟩, ⟨⟨⟨2, 1⟩, ⟨3, 1⟩⟩, 7, true⟩], 1⟩] : List (Showdown Nat)) 1 1 = 1
    ∧ tallyOf ([⟨[], [⟨⟨⟨0, 1⟩, ⟨1, 1⟩⟩, 2473, false⟩, ⟨⟨⟨2, 1⟩, ⟨3, 1⟩⟩, 300, true⟩], 1⟩,
      ⟨[], [⟨⟨⟨0, 1⟩, ⟨1, 1⟩⟩, 7, true⟩, ⟨⟨⟨2, 1⟩, ⟨3, 1⟩⟩, 7, true⟩], 1⟩] : List (Showdown Nat)) 0 2 = 1
    ∧ tallyOf ([⟨[], [⟨⟨⟨0, 1⟩, ⟨1, 1⟩⟩, 2473, false⟩, ⟨⟨⟨2, 1⟩, ⟨3, 1⟩⟩, 300, true⟩], 1⟩,
      ⟨[], [⟨⟨⟨0, 1⟩, ⟨1, 1⟩⟩, 7, true⟩, ⟨⟨⟨2, 1⟩, ⟨3, 1⟩⟩, 7, true⟩], 1⟩] : List (Showdown Nat)) 0 1 = 0 := by decide

/-! ### F4 (the table of `Props/Witness/C03.lean`: the split pot `ps₂`) -/

/-- two winners, each taking one half: exactly one pot -/
example : ∃ sd : Showdown Nat, showdownNew C03.Witness.ps₂ C03.Witness.board C03.Witness.prob = .ok (some sd)
    ∧ winnerLen sd false = .ok 2
    ∧ ((sd.players.filter (·.win)).map fun _ => (1 : Rat) / (2 : Nat)).sum = 1 := by
  obtain ⟨sd, hsd, hp, _⟩ := C03.Witness.C03_some_at_witness₂
  have hw' : winnerLen sd false = .ok 2 := by
    unfold winnerLen
    rw [hp]
    decide
  exact ⟨sd, hsd, hw', (C11_pot_sd C03.Witness.board C03.Witness.ps₂ C03.Witness.prob C03.Witness.wf₂ (by decide)
    C03.RulesWitness.table_nodup₂ sd hsd false 2 hw').2⟩

/-- the bound on the number of flagged players is needed in a release build: 256 players holding the same pair
(a table `WfTable` admits, but whose cards are not pairwise different) all tie, and `winner_len()` wraps to 0 —
no share `1 / 0`; a debug build traps instead -/
def tie256 : Option (Res Nat × Res Nat) :=
  match showdownNew (List.replicate 256 (⟨⟨2, 0⟩, ⟨3, 0⟩⟩ : Combo)) C03.Witness.board (0 : Nat) with
  | .ok (some sd) => some (winnerLen sd false, winnerLen sd true)
  | _ => none
theorem tie256_eval : tie256 = some (.ok 0, .panic) := by decide +kernel
example : C03.WfTable C03.Witness.board (List.replicate 256 (⟨⟨2, 0⟩, ⟨3, 0⟩⟩ : Combo)) := by
  refine ⟨by decide, by decide, by decide, ?_⟩
  intro p hp
  rw [List.eq_of_mem_replicate hp]
  decide

end ModelWitness

end EspadaVerif.C11
