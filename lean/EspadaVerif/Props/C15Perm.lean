/-
C15 (order of the hash maps) — the enumeration does not depend on the iteration order of the ranges, up to
a rearrangement inside each turn/river position.

The iteration order of each player's `HashMap` is an INPUT of the model (the per-player entry lists; Rust's
`RandomState` makes it differ from instance to instance and from run to run).  If every player's list is
rearranged (`EntriesPerm`), then
* `product_perm`, `dealsAt_perm` — at each position the legal deals are the same up to order;
* `deals_perm_entries`           — hence the whole enumeration of any scope is the same up to order;
* `deals_same_positions`         — and the sequence of (turn, river) pairs is literally the same: the
                                   rearrangement never crosses a position;
* `C15_order_insensitive`        — the same for what the ITERATOR yields (through `C02_refines`): the two drains
                                   are permutations of each other and have the same board at every index.
So two evaluator instances over equal ranges (equal as maps) yield the same multiset of showdowns whatever
their hash seeds, which is what makes the per-instance results of C15/C16 comparable at all.
-/
import EspadaVerif.Props.C02
import EspadaVerif.Lemmas.TallySwap
import EspadaVerif.Props.Witness.Common

namespace EspadaVerif.C15
open EspadaVerif Spec C02 EspadaVerif.IterLemmas

variable {W : Type}

/-- same number of players, and each player's list is a rearrangement -/
def EntriesPerm {α : Type} (L' L : List (List α)) : Prop :=
  L'.length = L.length ∧ ∀ i (h₁ : i < L'.length) (h₂ : i < L.length), L'[i].Perm L[i]

theorem EntriesPerm.refl {α : Type} (L : List (List α)) : EntriesPerm L L :=
  ⟨rfl, fun _ _ _ => List.Perm.refl _⟩

theorem EntriesPerm.tail {α : Type} {l' l : List α} {R' R : List (List α)} (h : EntriesPerm (l' :: R') (l :: R)) :
    l'.Perm l ∧ EntriesPerm R' R := by
  refine ⟨h.2 0 (by simp) (by simp), by simpa using h.1, ?_⟩
  intro i h₁ h₂
  exact h.2 (i + 1) (by simpa using h₁) (by simpa using h₂)

theorem EntriesPerm.map {α β : Type} (f : α → β) {L' L : List (List α)} (h : EntriesPerm L' L) :
    EntriesPerm (L'.map (List.map f)) (L.map (List.map f)) := by
  refine ⟨by simp [h.1], ?_⟩
  intro i h₁ h₂
  simp only [List.getElem_map]
  exact (h.2 i (by simpa using h₁) (by simpa using h₂)).map f

/-- every list of `L'` is a rearrangement of a list of `L` -/
theorem EntriesPerm.mem {α : Type} {L' L : List (List α)} (h : EntriesPerm L' L) {es' : List α} (hes : es' ∈ L') :
    ∃ es ∈ L, es'.Perm es := by
  obtain ⟨i, hi, rfl⟩ := List.getElem_of_mem hes
  exact ⟨L[i]'(h.1 ▸ hi), List.getElem_mem _, h.2 i hi (h.1 ▸ hi)⟩

/-! ### the specification -/

/-- the choices (one entry per list) are the same up to order -/
theorem product_perm {α : Type} : ∀ (L' L : List (List α)), EntriesPerm L' L → (product L').Perm (product L)
  | [], [], _ => List.Perm.refl _
  | [], _ :: _, h => absurd h.1 (by simp)
  | _ :: _, [], h => absurd h.1 (by simp)
  | l' :: R', l :: R, h => by
    obtain ⟨hl, hR⟩ := h.tail
    have ih := product_perm R' R hR
    simp only [product]
    refine (List.Perm.flatMap_right _ hl).trans ?_
    exact TallyLemmas.perm_flatMap_left l _ _ (fun x _ => ih.map _)

/-- the legal deals at one position (the block of `deals` for that position) -/
def dealsAt (F : List Nat) (E : List (List (Nat × Nat × W))) (p : Nat × Nat) : List (Deal W) :=
  ((product E).map fun ch =>
      ({ turn := (deck49 F).getD p.1 0, river := (deck49 F).getD p.2 0, choice := ch } : Deal W)).filter
    (Deal.legal F)

/-- `deals` is the concatenation of its blocks, position after position -/
theorem deals_eq_blocks (F : List Nat) (E : List (List (Nat × Nat × W))) (a b : Nat × Nat) :
    deals F E a b = (positionsBetween a b).flatMap (dealsAt F E) := rfl

/-- **per position**: rearranging the lists rearranges the legal deals of each position, nothing more -/
theorem dealsAt_perm (F : List Nat) (E' E : List (List (Nat × Nat × W))) (p : Nat × Nat) (h : EntriesPerm E' E) :
    (dealsAt F E' p).Perm (dealsAt F E p) :=
  ((product_perm E' E h).map _).filter _

/-- **order-insensitivity of the specification.** If each player's list is rearranged, the enumeration of every
scope is the same up to order (no hypothesis on the flop or on the scope is needed). -/
theorem deals_perm_entries (F : List Nat) (E' E : List (List (Nat × Nat × W))) (a b : Nat × Nat)
    (h : EntriesPerm E' E) : (deals F E' a b).Perm (deals F E a b) := by
  rw [deals_eq_blocks, deals_eq_blocks]
  exact TallyLemmas.perm_flatMap_left _ _ _ (fun p _ => dealsAt_perm F E' E p h)

theorem flatMap_congr' {α β : Type} {l : List α} {f g : α → List β} (h : ∀ x ∈ l, f x = g x) :
    l.flatMap f = l.flatMap g := by
  induction l with
  | nil => rfl
  | cons x l ih =>
    simp only [List.flatMap_cons]
    rw [h x (by simp), ih (fun y hy => h y (List.mem_cons_of_mem _ hy))]

theorem dealsAt_positions (F : List Nat) (E : List (List (Nat × Nat × W))) (p : Nat × Nat) :
    (dealsAt F E p).map (fun d => (d.turn, d.river))
      = List.replicate (dealsAt F E p).length ((deck49 F).getD p.1 0, (deck49 F).getD p.2 0) := by
  rw [List.eq_replicate_iff]
  refine ⟨by simp, ?_⟩
  intro x hx
  obtain ⟨d, hd, rfl⟩ := List.mem_map.mp hx
  obtain ⟨ch, _, rfl⟩ := List.mem_map.mp (List.mem_filter.mp hd).1
  rfl

/-- the rearrangement never crosses a position: the sequence of (turn, river) pairs is unchanged -/
theorem deals_same_positions (F : List Nat) (E' E : List (List (Nat × Nat × W))) (a b : Nat × Nat)
    (h : EntriesPerm E' E) :
    (deals F E' a b).map (fun d => (d.turn, d.river)) = (deals F E a b).map (fun d => (d.turn, d.river)) := by
  rw [deals_eq_blocks, deals_eq_blocks, List.map_flatMap, List.map_flatMap]
  apply flatMap_congr'
  intro p _
  rw [dealsAt_positions, dealsAt_positions, (dealsAt_perm F E' E p h).length_eq]

/-! ### the iterator -/

theorem wfInput_perm {flop : List Card} {ranges' ranges : List (List (Combo × W))} (h : WfInput flop ranges)
    (hp : EntriesPerm ranges' ranges) : WfInput flop ranges' where
  flop_len := h.flop_len
  flop_nodup := h.flop_nodup
  flop_valid := h.flop_valid
  combos := by
    intro es' hes' e he
    obtain ⟨es, hes, hperm⟩ := hp.mem hes'
    exact h.combos es hes e (hperm.mem_iff.mp he)
  nodup := by
    intro es' hes'
    obtain ⟨es, hes, hperm⟩ := hp.mem hes'
    exact ((hperm.map (·.1)).nodup_iff).mpr (h.nodup es hes)

theorem specEntries_perm {ranges' ranges : List (List (Combo × W))} (hp : EntriesPerm ranges' ranges) :
    EntriesPerm (specEntries ranges') (specEntries ranges) :=
  hp.map _

/-- reading a showdown back from what `next` returned -/
def unwrapSd : Res (Option (Showdown W)) → Option (Showdown W)
  | .ok (some sd) => some sd
  | _ => none

theorem filterMap_unwrap (sds : List (Showdown W)) :
    (sds.map (fun sd => (Res.ok (some sd) : Res (Option (Showdown W))))).filterMap unwrapSd = sds := by
  rw [List.filterMap_map]
  exact List.filterMap_some

/-- the board of what `next` returned -/
def boardOf : Res (Option (Showdown W)) → List Card
  | .ok (some sd) => sd.board
  | _ => []

/-- **C15, order of the hash maps.** Two evaluators over the same flop and scope whose ranges are equal as maps
but iterate in different orders (each player's entry list of one is a rearrangement of the other's) both
drain normally; the two drained lists are permutations of each other, and they show the same board at every
index (the rearrangement stays inside each turn/river position). -/
theorem C15_order_insensitive (ops : WOps W) (flop : List Card) (ranges' ranges : List (List (Combo × W)))
    (a b : Nat × Nat) (h : WfInput flop ranges) (hp : EntriesPerm ranges' ranges) (hs : ValidScope a b) :
    ∃ s₀ s₀' : IterState W, (mkEvaluator flop ranges a b).intoIter = .ok s₀
      ∧ (mkEvaluator flop ranges' a b).intoIter = .ok s₀' ∧
    ∃ (sds sds' : List (Showdown W)) (sEnd sEnd' : IterState W),
      (∀ limit, sds.length < limit → drainFuel ops limit s₀ [] = .ok (sds, sEnd))
      ∧ (∀ limit, sds'.length < limit → drainFuel ops limit s₀' [] = .ok (sds', sEnd'))
      ∧ sds'.Perm sds
      ∧ sds'.map (·.board) = sds.map (·.board) := by
  have h' := wfInput_perm h hp
  obtain ⟨s₀, h0, sds, sEnd, hdrain, hspec, _⟩ := C02_refines ops flop ranges a b h hs
  obtain ⟨s₀', h0', sds', sEnd', hdrain', hspec', _⟩ := C02_refines ops flop ranges' a b h' hs
  refine ⟨s₀, s₀', h0, h0', sds, sds', sEnd, sEnd', hdrain, hdrain', ?_, ?_⟩
  · have hperm := deals_perm_entries (flop.map Card.code) _ _ a b (specEntries_perm hp)
    have := (hperm.map (showdownOfDeal ops flop)).filterMap unwrapSd
    rw [hspec, hspec', filterMap_unwrap, filterMap_unwrap] at this
    exact this
  · have key : ∀ (rs : List (List (Combo × W))) (l : List (Showdown W)), WfInput flop rs →
        (deals (flop.map Card.code) (specEntries rs) a b).map (showdownOfDeal ops flop)
          = l.map (fun sd => .ok (some sd)) →
        l.map (·.board) = ((deals (flop.map Card.code) (specEntries rs) a b).map
          (fun d => (d.turn, d.river))).map (fun tr => flop ++ [Card.ofCode tr.1, Card.ofCode tr.2]) := by
      intro rs l hw hl
      have e1 : l.map (·.board) = (l.map (fun sd => (Res.ok (some sd) : Res (Option (Showdown W))))).map boardOf := by
        rw [List.map_map]
        rfl
      rw [e1, ← hl, List.map_map, List.map_map]
      apply List.map_congr_left
      intro d hd
      obtain ⟨sd, hsd, hb, _⟩ := C02_payload ops flop rs a b hw d hd
      simp only [Function.comp, hsd, boardOf, hb]
    rw [key ranges' sds' h' hspec', key ranges sds h hspec,
      deals_same_positions _ _ _ a b (specEntries_perm hp)]

/-! ### instances at concrete data

Flop A♠ K♦ 7♣; player 1: Q♠Q♥ (2), A♥K♥ (3); player 2: J♠T♠ (1), Q♥J♥ (5), T♦9♦ (7); in `ranges'` player 1's
two entries are exchanged and player 2's three entries are rotated. -/
namespace PermWitness
open EspadaVerif.Witness

def flop : List Card := [⟨0, 0⟩, ⟨1, 2⟩, ⟨7, 3⟩]
def ranges : List (List (Combo × Nat)) :=
  [[(⟨⟨2, 0⟩, ⟨2, 1⟩⟩, 2), (⟨⟨0, 1⟩, ⟨1, 1⟩⟩, 3)],
   [(⟨⟨3, 0⟩, ⟨4, 0⟩⟩, 1), (⟨⟨2, 1⟩, ⟨3, 1⟩⟩, 5), (⟨⟨4, 2⟩, ⟨5, 2⟩⟩, 7)]]
def ranges' : List (List (Combo × Nat)) :=
  [[(⟨⟨0, 1⟩, ⟨1, 1⟩⟩, 3), (⟨⟨2, 0⟩, ⟨2, 1⟩⟩, 2)],
   [(⟨⟨4, 2⟩, ⟨5, 2⟩⟩, 7), (⟨⟨3, 0⟩, ⟨4, 0⟩⟩, 1), (⟨⟨2, 1⟩, ⟨3, 1⟩⟩, 5)]]

theorem wf : WfInput flop ranges := ⟨by decide, by decide, by decide, by decide, by decide⟩
theorem scope_full : ValidScope (0, 1) (48, 49) := ⟨by decide, by decide, by decide⟩

theorem perm : EntriesPerm ranges' ranges := by
  refine ⟨rfl, ?_⟩
  intro i h₁ h₂
  have : i = 0 ∨ i = 1 := by simp [ranges] at h₂; omega
  rcases this with rfl | rfl
  · exact List.Perm.swap _ _ _
  · exact List.perm_append_comm (l₁ := [_]) (l₂ := [_, _])

/-- the two inputs really differ -/
example : ranges' ≠ ranges := by decide

example : (deals (flop.map Card.code) (specEntries ranges') (0, 1) (48, 49)).Perm
    (deals (flop.map Card.code) (specEntries ranges) (0, 1) (48, 49)) :=
  deals_perm_entries _ _ _ _ _ (specEntries_perm perm)

/-- the two enumerations are NOT equal as lists (already at the last position), only up to order -/
example : deals (flop.map Card.code) (specEntries ranges') (47, 48) (48, 49)
    ≠ deals (flop.map Card.code) (specEntries ranges) (47, 48) (48, 49) := by decide +kernel

theorem C15_order_insensitive_at_witness :
    ∃ s₀ s₀' : IterState Nat, (mkEvaluator flop ranges (0, 1) (48, 49)).intoIter = .ok s₀
      ∧ (mkEvaluator flop ranges' (0, 1) (48, 49)).intoIter = .ok s₀' ∧
    ∃ (sds sds' : List (Showdown Nat)) (sEnd sEnd' : IterState Nat),
      (∀ limit, sds.length < limit → drainFuel natOps limit s₀ [] = .ok (sds, sEnd))
      ∧ (∀ limit, sds'.length < limit → drainFuel natOps limit s₀' [] = .ok (sds', sEnd'))
      ∧ sds'.Perm sds
      ∧ sds'.map (·.board) = sds.map (·.board) :=
  C15_order_insensitive natOps flop ranges' ranges _ _ wf perm scope_full

end PermWitness

end EspadaVerif.C15
