/-
C01 (additions) — the comparison operators of `MadeHand`, and the `u16` accumulators of the two hashes.

* F5: the property observes `==`, `<`, `cmp` on `MadeHand` values.  `struct MadeHand(u16)` derives
  `PartialEq, Eq, Ord` (`Gen.madeHandDerives`, regenerated from the source on every run) and
  hand-writes `PartialOrd` as `self.power_index().partial_cmp(&other.power_index())` (the translator
  refuses any other body: translate/extract.py, `gen_made_hand`).  `MadeHand.eq/lt/…/cmp` below are these
  operators on the evaluated indexes; `C01_ops` restates `C01_compare` through them.
* F6: `hash_for_rainbow` / `hash_for_flush` accumulate in a Rust `u16` (`hash += …`: debug builds trap on
  overflow, release builds wrap) while the model (`rainbowWalkLoop`, `hashFlush`) adds in `Nat` with
  no overflow arm.  Instrumented versions of both loops return, next to the result, every value the
  accumulator takes; they agree with the model's loops, every intermediate value is at most the final
  one, the final one is below the table length when the lookup succeeds — and, independently of any
  lookup, no accumulator value reaches 65536 for any input of at most seven cards.
-/
import EspadaVerif.Props.C01Compare

set_option Elab.async false

namespace EspadaVerif

/-! ### F5: the operators -/

namespace MadeHand

/-- derived `PartialEq` on `struct MadeHand(u16)`: `a == b` -/
def eq (i j : Nat) : Bool := i == j
/-- `a != b` -/
def ne (i j : Nat) : Bool := !(eq i j)
/-- derived `Ord` on the one `u16` field: `a.cmp(&b)` -/
def cmp (i j : Nat) : Ordering := compare i j
/-- hand-written `PartialOrd`: `self.power_index().partial_cmp(&other.power_index())` -/
def partialCmp (i j : Nat) : Option Ordering := some (compare i j)
/-- `a < b` : `matches!(a.partial_cmp(&b), Some(Less))` (default method of `PartialOrd`) -/
def lt (i j : Nat) : Bool := partialCmp i j == some .lt
/-- `a <= b` : `matches!(a.partial_cmp(&b), Some(Less | Equal))` -/
def le (i j : Nat) : Bool := partialCmp i j == some .lt || partialCmp i j == some .eq
/-- `a > b` -/
def gt (i j : Nat) : Bool := partialCmp i j == some .gt
/-- `a >= b` -/
def ge (i j : Nat) : Bool := partialCmp i j == some .gt || partialCmp i j == some .eq

theorem eq_iff (i j : Nat) : eq i j = true ↔ i = j := by simp [eq]
theorem ne_iff (i j : Nat) : ne i j = true ↔ i ≠ j := by simp [ne, eq]
theorem lt_iff (i j : Nat) : lt i j = true ↔ i < j := by simp [lt, partialCmp, Nat.compare_eq_lt]
theorem gt_iff (i j : Nat) : gt i j = true ↔ j < i := by simp [gt, partialCmp, Nat.compare_eq_gt]
theorem le_iff (i j : Nat) : le i j = true ↔ i ≤ j := by
  simp [le, partialCmp, Nat.compare_eq_lt]; omega
theorem ge_iff (i j : Nat) : ge i j = true ↔ j ≤ i := by
  simp [ge, partialCmp, Nat.compare_eq_gt]; omega
theorem cmp_lt_iff (i j : Nat) : cmp i j = .lt ↔ i < j := by simp [cmp, Nat.compare_eq_lt]
theorem cmp_eq_iff (i j : Nat) : cmp i j = .eq ↔ i = j := by simp [cmp]
theorem cmp_gt_iff (i j : Nat) : cmp i j = .gt ↔ j < i := by simp [cmp, Nat.compare_eq_gt]
/-- the hand-written `PartialOrd` is consistent with the derived `Ord` (and with the derived `Eq`) -/
theorem partialCmp_eq_cmp (i j : Nat) : partialCmp i j = some (cmp i j) := rfl

end MadeHand

namespace C01
open EspadaVerif Spec Kernel Lemmas

/-- **C01 (operators).**  `MadeHand` derives `Ord`, `PartialEq`, `Eq`; and for two evaluated hands of
seven distinct cards each: `<` holds exactly when hand 1 beats hand 2 under the rule book, `==`
exactly on ties, `>` exactly when hand 2 beats hand 1, and `cmp` / `partial_cmp` say the same. -/
theorem C01_ops (cs₁ cs₂ : List Card) (h₁ : Seven cs₁) (h₂ : Seven cs₂) (i j : Nat)
    (e₁ : eval7 cs₁ = .ok i) (e₂ : eval7 cs₂ = .ok j) :
    ("Ord" ∈ Gen.madeHandDerives ∧ "PartialEq" ∈ Gen.madeHandDerives ∧ "Eq" ∈ Gen.madeHandDerives)
    ∧ (MadeHand.lt i j = true ↔ bestStrength (cs₂.map toSpec) < bestStrength (cs₁.map toSpec))
    ∧ (MadeHand.eq i j = true ↔ bestStrength (cs₁.map toSpec) = bestStrength (cs₂.map toSpec))
    ∧ (MadeHand.gt i j = true ↔ bestStrength (cs₁.map toSpec) < bestStrength (cs₂.map toSpec))
    ∧ (MadeHand.le i j = true ↔ bestStrength (cs₂.map toSpec) ≤ bestStrength (cs₁.map toSpec))
    ∧ (MadeHand.ge i j = true ↔ bestStrength (cs₁.map toSpec) ≤ bestStrength (cs₂.map toSpec))
    ∧ (MadeHand.ne i j = true ↔ bestStrength (cs₁.map toSpec) ≠ bestStrength (cs₂.map toSpec))
    ∧ (MadeHand.cmp i j = .lt ↔ bestStrength (cs₂.map toSpec) < bestStrength (cs₁.map toSpec))
    ∧ (MadeHand.cmp i j = .eq ↔ bestStrength (cs₁.map toSpec) = bestStrength (cs₂.map toSpec))
    ∧ (MadeHand.cmp i j = .gt ↔ bestStrength (cs₁.map toSpec) < bestStrength (cs₂.map toSpec))
    ∧ MadeHand.partialCmp i j = some (MadeHand.cmp i j) := by
  obtain ⟨hlt, heq⟩ := C01_compare cs₁ cs₂ h₁ h₂ i j e₁ e₂
  obtain ⟨hgt, -⟩ := C01_compare cs₂ cs₁ h₂ h₁ j i e₂ e₁
  refine ⟨by decide, ?_, ?_, ?_, ?_, ?_, ?_, ?_, ?_, ?_, rfl⟩
  · rw [MadeHand.lt_iff]; exact hlt
  · rw [MadeHand.eq_iff]; exact heq
  · rw [MadeHand.gt_iff]; exact hgt
  · rw [MadeHand.le_iff]; omega
  · rw [MadeHand.ge_iff]; omega
  · rw [MadeHand.ne_iff]; omega
  · rw [MadeHand.cmp_lt_iff]; exact hlt
  · rw [MadeHand.cmp_eq_iff]; exact heq
  · rw [MadeHand.cmp_gt_iff]; exact hgt

/-! non-vacuity data: board A♠ K♦ 7♣ 9♠ 2♠ with hole Q♠ J♠ (flush, class 501), hole K♥ K♣ (three kings,
class 1679), holes Q♥ J♦ / Q♦ J♣ (the same high-card hand, class 6186) -/

private def wFlush : List Card := [⟨2, 0⟩, ⟨3, 0⟩, ⟨0, 0⟩, ⟨1, 2⟩, ⟨7, 3⟩, ⟨5, 0⟩, ⟨12, 0⟩]
private def wTrips : List Card := [⟨1, 1⟩, ⟨1, 3⟩, ⟨0, 0⟩, ⟨1, 2⟩, ⟨7, 3⟩, ⟨5, 0⟩, ⟨12, 0⟩]
private def wTieA : List Card := [⟨2, 1⟩, ⟨3, 2⟩, ⟨0, 0⟩, ⟨1, 2⟩, ⟨7, 3⟩, ⟨5, 0⟩, ⟨12, 0⟩]
private def wTieB : List Card := [⟨2, 2⟩, ⟨3, 3⟩, ⟨0, 0⟩, ⟨1, 2⟩, ⟨7, 3⟩, ⟨5, 0⟩, ⟨12, 0⟩]
private theorem wFlush_seven : Seven wFlush := ⟨by decide, by decide, by decide⟩
private theorem wTrips_seven : Seven wTrips := ⟨by decide, by decide, by decide⟩
private theorem wTieA_seven : Seven wTieA := ⟨by decide, by decide, by decide⟩
private theorem wTieB_seven : Seven wTieB := ⟨by decide, by decide, by decide⟩
private theorem wFlush_eval : eval7 wFlush = .ok 501 := by decide +kernel
private theorem wTrips_eval : eval7 wTrips = .ok 1679 := by decide +kernel
private theorem wTieA_eval : eval7 wTieA = .ok 6186 := by decide +kernel
private theorem wTieB_eval : eval7 wTieB = .ok 6186 := by decide +kernel

/-- the flush `<` the trips as `MadeHand`s, hence it is the stronger hand under the rule book -/
example : bestStrength (wTrips.map toSpec) < bestStrength (wFlush.map toSpec) :=
  (C01_ops wFlush wTrips wFlush_seven wTrips_seven 501 1679 wFlush_eval wTrips_eval).2.1.mp (by decide)

/-- two different seven-card hands that compare `==`: a tie under the rule book -/
example : wTieA ≠ wTieB ∧ bestStrength (wTieA.map toSpec) = bestStrength (wTieB.map toSpec) :=
  ⟨by decide,
   (C01_ops wTieA wTieB wTieA_seven wTieB_seven 6186 6186 wTieA_eval wTieB_eval).2.2.1.mp (by decide)⟩

/-! ### F6: the rainbow hash stays inside `u16` -/

/-- `rainbowWalkLoop` instrumented: the result, and the value of `hash` after every `hash += dp_ref(..)`
that is executed (also the one executed just before a `remaining_card_len -= len` underflow) -/
def rainbowWalkI (counts : List Nat) : List Nat → Nat → Nat → Res Nat × List Nat
  | [], h, _ => (.ok h, [])
  | r :: rs, h, rem =>
    match counts[rankU8 r]? with
    | none => (.panic, [])
    | some 0 => rainbowWalkI counts rs h rem
    | some len =>
      match dpRef len r rem with
      | .ok v =>
        if len > rem then (.panic, [h + v])
        else if rem - len = 0 then (.ok (h + v), [h + v])
        else ((rainbowWalkI counts rs (h + v) (rem - len)).1,
              (h + v) :: (rainbowWalkI counts rs (h + v) (rem - len)).2)
      | _ => (.panic, [])

/-- unfolding of the instrumented walk without overlapping patterns -/
theorem rainbowWalkI_cons (counts : List Nat) (r : Nat) (rs : List Nat) (h rem : Nat) :
    rainbowWalkI counts (r :: rs) h rem =
      match counts[rankU8 r]? with
      | none => (.panic, [])
      | some len =>
        if len = 0 then rainbowWalkI counts rs h rem
        else match dpRef len r rem with
          | .ok v =>
            if len > rem then (.panic, [h + v])
            else if rem - len = 0 then (.ok (h + v), [h + v])
            else ((rainbowWalkI counts rs (h + v) (rem - len)).1,
                  (h + v) :: (rainbowWalkI counts rs (h + v) (rem - len)).2)
          | .err => (.panic, [])
          | .panic => (.panic, []) := by
  rw [rainbowWalkI]
  cases hc : counts[rankU8 r]? with
  | none => rfl
  | some len =>
    cases len with
    | zero => rfl
    | succ n =>
      simp only [Nat.succ_ne_zero, if_false]
      cases dpRef (n + 1) r rem <;> rfl

/-- the same unfolding of the model's walk -/
theorem rainbowWalkLoop_cons (counts : List Nat) (r : Nat) (rs : List Nat) (h rem : Nat) :
    rainbowWalkLoop counts (r :: rs) h rem =
      match counts[rankU8 r]? with
      | none => .panic
      | some len =>
        if len = 0 then rainbowWalkLoop counts rs h rem
        else match dpRef len r rem with
          | .ok v =>
            if len > rem then .panic
            else if rem - len = 0 then .ok (h + v)
            else rainbowWalkLoop counts rs (h + v) (rem - len)
          | .err => .panic
          | .panic => .panic := by
  rw [rainbowWalkLoop]
  cases hc : counts[rankU8 r]? with
  | none => rfl
  | some len =>
    cases len with
    | zero => rfl
    | succ n =>
      simp only [Nat.succ_ne_zero, if_false]
      cases dpRef (n + 1) r rem <;> rfl

/-- the instrumented walk computes the model's result -/
theorem rainbowWalkI_fst (counts rs : List Nat) (h rem : Nat) :
    (rainbowWalkI counts rs h rem).1 = rainbowWalkLoop counts rs h rem := by
  induction rs generalizing h rem with
  | nil => rfl
  | cons r rs ih =>
    rw [rainbowWalkI_cons, rainbowWalkLoop_cons]
    cases counts[rankU8 r]? with
    | none => rfl
    | some len =>
      simp only []
      split
      · exact ih h rem
      · cases dpRef len r rem with
        | ok v =>
          simp only []
          split
          · rfl
          · split
            · rfl
            · exact ih _ _
        | err => rfl
        | panic => rfl

/-- the accumulator never decreases: every recorded value is at least the starting value, and at most
the final value when the walk returns one -/
theorem rainbowWalkI_mono (counts rs : List Nat) (h rem : Nat) :
    (∀ x ∈ (rainbowWalkI counts rs h rem).2, h ≤ x)
    ∧ ∀ v, (rainbowWalkI counts rs h rem).1 = .ok v →
        h ≤ v ∧ ∀ x ∈ (rainbowWalkI counts rs h rem).2, x ≤ v := by
  induction rs generalizing h rem with
  | nil =>
    refine ⟨fun x hx => (nomatch hx), fun v e => ?_⟩
    simp only [rainbowWalkI, Res.ok.injEq] at e
    exact ⟨by omega, fun x hx => nomatch hx⟩
  | cons r rs ih =>
    rw [rainbowWalkI_cons]
    cases counts[rankU8 r]? with
    | none => exact ⟨fun x hx => (nomatch hx), fun v e => nomatch e⟩
    | some len =>
      simp only []
      split
      · exact ih h rem
      · cases dpRef len r rem with
        | err => exact ⟨fun x hx => (nomatch hx), fun v e => nomatch e⟩
        | panic => exact ⟨fun x hx => (nomatch hx), fun v e => nomatch e⟩
        | ok v =>
          simp only []
          split
          · refine ⟨fun x hx => ?_, fun w e => nomatch e⟩
            simp only [List.mem_singleton] at hx; omega
          · split
            · refine ⟨fun x hx => ?_, fun w e => ?_⟩
              · simp only [List.mem_singleton] at hx; omega
              · simp only [Res.ok.injEq] at e
                refine ⟨by omega, fun x hx => ?_⟩
                simp only [List.mem_singleton] at hx; omega
            · obtain ⟨ih1, ih2⟩ := ih (h + v) (rem - len)
              refine ⟨fun x hx => ?_, fun w e => ?_⟩
              · rcases List.mem_cons.mp hx with rfl | hx
                · omega
                · have := ih1 x hx; omega
              · obtain ⟨hw, hall⟩ := ih2 w e
                refine ⟨by omega, fun x hx => ?_⟩
                rcases List.mem_cons.mp hx with rfl | hx
                · exact hw
                · exact hall x hx

/-- the most that the walk can still add when `rem` cards remain (`rem ≤ 7`), from the `dp_ref` tables -/
def walkBound : List Nat := [1, 13, 91, 455, 1820, 6176, 18408, 49296]

private theorem idxOf?_none_of_not_mem (l : List Nat) (b : Nat) (h : b ∉ l) : l.idxOf? b = none := by
  simp [List.idxOf?, List.findIdx?_eq_none_iff]
  intro x hx e; exact h (e ▸ hx)

private theorem getD_nil_of_le {α : Type} (l : List (List α)) (n : Nat) (h : l.length ≤ n) : l.getD n [] = [] := by
  simp [List.getD_eq_getElem?_getD, List.getElem?_eq_none h]

/-- `dp_ref` returns only for `len` 1…4 and a real rank -/
theorem dpRef_ok_dom (len r rem v : Nat) (e : dpRef len r rem = .ok v) :
    len ∈ [1, 2, 3, 4] ∧ r < 13 := by
  have hlen : len ∈ [1, 2, 3, 4] := by
    refine Decidable.byContradiction fun hn => ?_
    have : Gen.dpRefLens.idxOf? len = none := idxOf?_none_of_not_mem _ _ hn
    simp [dpRef, this] at e
  refine ⟨hlen, Decidable.byContradiction fun hr => ?_⟩
  have hrows : ∀ l ∈ [1, 2, 3, 4], ∀ li, Gen.dpRefLens.idxOf? l = some li →
      (Gen.dpRefRows.getD li []).length ≤ 13 := by decide
  unfold dpRef at e
  split at e
  · exact nomatch e
  · rename_i li hli
    have := hrows len hlen li hli
    rw [getD_nil_of_le _ _ (by omega)] at e
    simp at e

/-- one step of the bound, checked on every `dp_ref` entry with `remaining ≤ 7` -/
private theorem walkBound_step : ∀ rem ∈ List.range 8, ∀ len ∈ [1, 2, 3, 4], ∀ r ∈ List.range 13,
    (match dpRef len r rem with
     | .ok v => decide (v + (if len < rem then walkBound.getD (rem - len) 0 else 0) ≤ walkBound.getD rem 0)
     | _ => true) = true := by decide +kernel

/-- **no `u16` overflow in `hash_for_rainbow`, unconditionally.**  Whatever the counters and the walk
order, from `remaining ≤ 7` every value of the accumulator stays within `walkBound` of its start. -/
theorem rainbowWalkI_bound (counts rs : List Nat) (h rem : Nat) (hrem : rem ≤ 7) :
    ∀ x ∈ (rainbowWalkI counts rs h rem).2, x ≤ h + walkBound.getD rem 0 := by
  induction rs generalizing h rem with
  | nil => exact fun x hx => nomatch hx
  | cons r rs ih =>
    rw [rainbowWalkI_cons]
    cases counts[rankU8 r]? with
    | none => exact fun x hx => nomatch hx
    | some len =>
      simp only []
      split
      · exact ih h rem hrem
      · cases hv : dpRef len r rem with
        | err => exact fun x hx => nomatch hx
        | panic => exact fun x hx => nomatch hx
        | ok v =>
          simp only []
          obtain ⟨hlen, hr⟩ := dpRef_ok_dom len r rem v hv
          have hstep := walkBound_step rem (List.mem_range.mpr (by omega)) len hlen r (List.mem_range.mpr hr)
          rw [hv] at hstep
          simp only [decide_eq_true_eq] at hstep
          split
          · intro x hx
            simp only [List.mem_singleton] at hx
            rw [if_neg (by omega)] at hstep
            omega
          · split
            · intro x hx
              simp only [List.mem_singleton] at hx
              rw [if_neg (by omega)] at hstep
              omega
            · intro x hx
              rw [if_pos (by omega)] at hstep
              rcases List.mem_cons.mp hx with rfl | hx
              · omega
              · have := ih (h + v) (rem - len) (by omega) x hx
                omega

/-- `hash_for_rainbow` on any seven cards (valid or not, distinct or not): every value of the `u16`
accumulator is at most 49296 -/
theorem rainbow_accs_u16 (cs : List Card) (hlen : cs.length ≤ 7) (counts : List Nat) :
    ∀ x ∈ (rainbowWalkI counts Gen.rainbowWalk 0 (cs.map (·.rank)).length).2, x ≤ 49296 ∧ x < 65536 := by
  intro x hx
  have hl : (cs.map (·.rank)).length ≤ 7 := by simpa using hlen
  have h1 := rainbowWalkI_bound counts Gen.rainbowWalk 0 _ hl x hx
  have h2 : ∀ n ∈ List.range 8, walkBound.getD n 0 ≤ 49296 := by decide
  have := h2 _ (List.mem_range.mpr (by omega : (cs.map (·.rank)).length < 8))
  omega

/-- **the bound that makes the `Nat` accumulator faithful (rainbow branch).**  Whenever seven cards are
evaluated through the rainbow branch, the walk's accumulator takes only values that are at most the
final hash, and the final hash indexes `AS_RAINBOW` (49205 slots) successfully — so every value is
`< 49205 < 65536`. -/
theorem rainbow_no_overflow (cs : List Card) (i : Nat) (hff : findFlushSuit cs = .ok none)
    (e : eval7 cs = .ok i) :
    ∃ counts hh, rankCounts (List.replicate 13 0) (cs.map (·.rank)) = .ok counts
      ∧ rainbowWalkLoop counts Gen.rainbowWalk 0 (cs.map (·.rank)).length = .ok hh
      ∧ (rainbowWalkI counts Gen.rainbowWalk 0 (cs.map (·.rank)).length).1 = .ok hh
      ∧ hashRainbow cs = .ok hh ∧ asRainbow hh = .ok i ∧ hh < 49205
      ∧ ∀ x ∈ (rainbowWalkI counts Gen.rainbowWalk 0 (cs.map (·.rank)).length).2,
          x ≤ hh ∧ x < 49205 ∧ x < 65536 := by
  simp only [eval7, hff] at e
  cases hh : hashRainbow cs with
  | err => rw [hh] at e; exact nomatch e
  | panic => rw [hh] at e; exact nomatch e
  | ok hv =>
    rw [hh] at e
    simp only [] at e
    have hlt : hv < 49205 := by
      unfold asRainbow at e
      split at e
      · rename_i hlt; simpa [Gen.asRainbowLen] using hlt
      · exact nomatch e
    have hh' := hh
    simp only [hashRainbow, hashRanks] at hh'
    cases hc : rankCounts (List.replicate 13 0) (cs.map (·.rank)) with
    | err => rw [hc] at hh'; exact nomatch hh'
    | panic => rw [hc] at hh'; exact nomatch hh'
    | ok counts =>
      rw [hc] at hh'
      simp only [] at hh'
      have hI : (rainbowWalkI counts Gen.rainbowWalk 0 (cs.map (·.rank)).length).1 = .ok hv := by
        rw [rainbowWalkI_fst]; exact hh'
      refine ⟨counts, hv, rfl, hh', hI, rfl, e, hlt, fun x hx => ?_⟩
      have := ((rainbowWalkI_mono counts Gen.rainbowWalk 0 _).2 hv hI).2 x hx
      omega

/-! ### F6: the flush hash stays inside `u16` -/

/-- `hashFlush` instrumented: the result and the value of `hash` after every executed `hash += …` -/
def hashFlushI (suit : Nat) : List Card → Nat → Nat × List Nat
  | [], h => (h, [])
  | c :: cs, h =>
    if c.suit = suit then
      ((hashFlushI suit cs (h + Gen.flushWeightTbl.getD c.rank 0)).1,
       (h + Gen.flushWeightTbl.getD c.rank 0) :: (hashFlushI suit cs (h + Gen.flushWeightTbl.getD c.rank 0)).2)
    else hashFlushI suit cs h

theorem hashFlushI_fst_aux (suit : Nat) (cs : List Card) (h : Nat) :
    (hashFlushI suit cs h).1
      = cs.foldl (fun h c => if c.suit = suit then h + Gen.flushWeightTbl.getD c.rank 0 else h) h := by
  induction cs generalizing h with
  | nil => rfl
  | cons c cs ih =>
    rw [hashFlushI, List.foldl_cons]
    split
    · exact ih _
    · exact ih _

/-- the instrumented loop computes the model's flush hash -/
theorem hashFlushI_fst (suit : Nat) (cs : List Card) : (hashFlushI suit cs 0).1 = hashFlush cs suit :=
  hashFlushI_fst_aux suit cs 0

private theorem flushWeight_le (r : Nat) : Gen.flushWeightTbl.getD r 0 ≤ 4096 := by
  by_cases hr : r < 13
  · have : ∀ r ∈ List.range 13, Gen.flushWeightTbl.getD r 0 ≤ 4096 := by decide
    exact this r (List.mem_range.mpr hr)
  · have : Gen.flushWeightTbl.getD r 0 = 0 := by
      simp [List.getD_eq_getElem?_getD, List.getElem?_eq_none (show Gen.flushWeightTbl.length ≤ r by simp [Gen.flushWeightTbl]; omega)]
    omega

/-- every recorded value lies between the start and the final value, and within `4096 ·` (number of
cards) of the start -/
theorem hashFlushI_mono (suit : Nat) (cs : List Card) (h : Nat) :
    h ≤ (hashFlushI suit cs h).1
    ∧ ∀ x ∈ (hashFlushI suit cs h).2, h ≤ x ∧ x ≤ (hashFlushI suit cs h).1 ∧ x ≤ h + 4096 * cs.length := by
  induction cs generalizing h with
  | nil => exact ⟨Nat.le_refl _, fun x hx => nomatch hx⟩
  | cons c cs ih =>
    rw [hashFlushI]
    have hw := flushWeight_le c.rank
    split
    · obtain ⟨ih1, ih2⟩ := ih (h + Gen.flushWeightTbl.getD c.rank 0)
      refine ⟨by omega, fun x hx => ?_⟩
      simp only [List.length_cons]
      rcases List.mem_cons.mp hx with rfl | hx
      · omega
      · have := ih2 x hx; omega
    · obtain ⟨ih1, ih2⟩ := ih h
      refine ⟨ih1, fun x hx => ?_⟩
      simp only [List.length_cons]
      have := ih2 x hx; omega

/-- `hash_for_flush` on any seven cards and any suit: every value of the `u16` accumulator is at most
`7 · 4096` -/
theorem flush_accs_u16 (cs : List Card) (hlen : cs.length ≤ 7) (suit : Nat) :
    ∀ x ∈ (hashFlushI suit cs 0).2, x ≤ 28672 ∧ x < 65536 := by
  intro x hx
  have := ((hashFlushI_mono suit cs 0).2 x hx).2.2
  omega

/-- **flush branch.**  Whenever cards are evaluated through the flush branch, the accumulator of
`hash_for_flush` takes only values that are at most the final hash, and the final hash indexes
`AS_FLUSH` (8192 slots) successfully — so every value is `≤ 8191`. -/
theorem flush_no_overflow (cs : List Card) (i s : Nat) (hff : findFlushSuit cs = .ok (some s))
    (e : eval7 cs = .ok i) :
    asFlush (hashFlush cs s) = .ok i ∧ hashFlush cs s ≤ 8191
    ∧ (hashFlushI s cs 0).1 = hashFlush cs s
    ∧ ∀ x ∈ (hashFlushI s cs 0).2, x ≤ hashFlush cs s ∧ x ≤ 8191 ∧ x < 65536 := by
  simp only [eval7, hff] at e
  have hlt : hashFlush cs s ≤ 8191 := by
    unfold asFlush at e
    split at e
    · rename_i hlt
      have : hashFlush cs s < 8192 := by simpa [Gen.asFlushLen] using hlt
      omega
    · exact nomatch e
  refine ⟨e, hlt, hashFlushI_fst s cs, fun x hx => ?_⟩
  have := ((hashFlushI_mono s cs 0).2 x hx).2.1
  rw [hashFlushI_fst] at this
  omega

/-- **seven distinct cards.**  The evaluation of seven distinct valid cards always succeeds (`C01_eval`),
through one of the two branches; in either, no value of the `u16` accumulator exceeds the hash that
indexes the table. -/
theorem seven_no_overflow (cs : List Card) (h : Seven cs) :
    (∃ s, findFlushSuit cs = .ok (some s) ∧ hashFlush cs s ≤ 8191
        ∧ ∀ x ∈ (hashFlushI s cs 0).2, x ≤ 8191)
    ∨ (findFlushSuit cs = .ok none ∧ ∃ counts hh,
        rankCounts (List.replicate 13 0) (cs.map (·.rank)) = .ok counts
        ∧ hashRainbow cs = .ok hh ∧ hh < 49205
        ∧ ∀ x ∈ (rainbowWalkI counts Gen.rainbowWalk 0 (cs.map (·.rank)).length).2, x < 49205) := by
  have e := C01_eval cs h.len h.nodup h.valid
  rcases findFlushSuit_spec cs h.valid (by rw [h.len]; omega) with ⟨s, _, _, hff⟩ | ⟨_, hff⟩
  · left
    obtain ⟨_, h1, _, h2⟩ := flush_no_overflow cs _ s hff e
    exact ⟨s, hff, h1, fun x hx => (h2 x hx).2.1⟩
  · right
    obtain ⟨counts, hh, hc, _, _, hr, _, hlt, hall⟩ := rainbow_no_overflow cs _ hff e
    exact ⟨hff, counts, hh, hc, hr, hlt, fun x hx => (hall x hx).2.1⟩

/-- non-vacuity: the three kings go through the rainbow branch; the accumulator takes the values
recorded below, the last of which is the hash, and the slot holds class 1679 -/
example : findFlushSuit wTrips = .ok none
    ∧ rankCounts (List.replicate 13 0) (wTrips.map (·.rank)) = .ok [1, 3, 0, 0, 0, 1, 0, 1, 0, 0, 0, 0, 1]
    ∧ rainbowWalkI [1, 3, 0, 0, 0, 1, 0, 1, 0, 0, 0, 0, 1] Gen.rainbowWalk 0 7
        = (.ok 31887, [30888, 31763, 31884, 31887, 31887]) := by decide +kernel

example := rainbow_no_overflow wTrips 1679 (by decide +kernel) wTrips_eval

/-- non-vacuity: the flush goes through the flush branch (spades A Q J 9 2) -/
example : findFlushSuit wFlush = .ok (some 0)
    ∧ hashFlushI 0 wFlush 0 = (5761, [1024, 1536, 5632, 5760, 5761]) := by decide +kernel

example := flush_no_overflow wFlush 501 0 (by decide +kernel) wFlush_eval

/-- the unconditional bounds are not vacuous either: seven deuces (not a hand of distinct cards) make
`dp_ref` panic in model and crate alike, after no addition at all; four deuces and three treys add
48841 and then 363, both below 65536 -/
example : rainbowWalkI [0, 0, 0, 0, 0, 0, 0, 0, 0, 0, 0, 0, 7] Gen.rainbowWalk 0 7 = (.panic, [])
    ∧ rainbowWalkI [0, 0, 0, 0, 0, 0, 0, 0, 0, 0, 0, 3, 4] Gen.rainbowWalk 0 7 = (.ok 49204, [48841, 49204]) := by
  decide +kernel

end C01
end EspadaVerif
