/-
C08 — Enumeration always terminates, in bounded stack, without panicking.

The model's `next` is a loop with explicit fuel (`nextFuel`/`fuelFor`); "terminates" means the fuel is never
exhausted (`.err`), "without panicking" that no `.panic` arm (index out of range, `unwrap` of `None`)
is reachable.  The per-player counters of the model are unbounded naturals, exactly like the `usize`
counters of the repaired code, so there is no overflow arm left to reach.  Ranges may be empty or of any
size.  Bounded stack: the skip is a loop — `Gen.nextSelfCalls` (the number of syntactic `self.next()` calls
inside `fn next`, read from the source on every run) is 0; native stack use itself is observed by
child-process runs, not proved.
-/
import EspadaVerif.Props.C02
import EspadaVerif.Lemmas.IterCorollaries

namespace EspadaVerif.C08
open EspadaVerif Spec C02 EspadaVerif.IterLemmas

variable {W : Type}

/-- **C08 (total).** For every proper input and scope, draining with any bound on the number of showdowns
returns normally: never a panic, never out of fuel. -/
theorem C08_total (ops : WOps W) (flop : List Card) (ranges : List (List (Combo × W))) (a b : Nat × Nat)
    (h : WfInput flop ranges) (hs : ValidScope a b) :
    ∃ s₀ : IterState W, (mkEvaluator flop ranges a b).intoIter = .ok s₀ ∧
      ∀ limit, ∃ sds s', drainFuel ops limit s₀ [] = .ok (sds, s') := by
  obtain ⟨s₀, h0, sds, sEnd, hdrain, _, _⟩ := C02_refines ops flop ranges a b h hs
  refine ⟨s₀, h0, fun limit => ?_⟩
  have hbig := hdrain (limit + (sds.length + 1)) (by omega)
  obtain ⟨⟨sds', s'⟩, hr⟩ := drainFuel_ok_le ops s₀ [] (sds.length + 1) limit _ hbig
  exact ⟨sds', s', hr⟩

-- `hs` is not needed: an empty range ends the enumeration whatever the scope
set_option linter.unusedVariables false in
/-- **C08 (empty range).** A player with an empty range simply makes the enumeration empty. -/
theorem C08_empty (ops : WOps W) (flop : List Card) (ranges : List (List (Combo × W))) (a b : Nat × Nat)
    (h : WfInput flop ranges) (hs : ValidScope a b) (hempty : [] ∈ ranges) :
    ∃ s₀ : IterState W, (mkEvaluator flop ranges a b).intoIter = .ok s₀ ∧
      ∀ limit, drainFuel ops (limit + 1) s₀ [] = .ok ([], s₀) := by
  have hf : WfFlop flop := ⟨h.flop_len, h.flop_nodup, h.flop_valid⟩
  refine ⟨_, intoIter_eq flop ranges a b hf, fun limit => ?_⟩
  have hdone := step_empty ops flop ranges b a (List.replicate ranges.length 0) ⟨[], hempty, rfl⟩
  have hnext := next_done ops _ hdone
  simp only [drainFuel, hnext, List.reverse_nil]

-- the bound holds for any input and scope: `ops`, `h`, `hs` are not needed
set_option linter.unusedVariables false in
/-- the number of loop iterations of a full drain is bounded by (positions in scope) × (product of the range
sizes) + 1: stated as the number of showdowns yielded -/
theorem C08_yield_bound (ops : WOps W) (flop : List Card) (ranges : List (List (Combo × W))) (a b : Nat × Nat)
    (h : WfInput flop ranges) (hs : ValidScope a b) :
    (deals (flop.map Card.code) (specEntries ranges) a b).length
      ≤ 1176 * (ranges.map List.length).foldl (· * ·) 1 := by
  rw [deals_eq, product_length ranges 1, Nat.one_mul]
  have h1 := length_flatMap_le (positionsBetween a b)
    (fun p => ((product ranges).map (dealOf flop p)).filter (Deal.legal (flop.map Card.code)))
    (product ranges).length (fun p _ => by
      have := List.length_filter_le (Deal.legal (flop.map Card.code)) ((product ranges).map (dealOf flop p))
      simpa using this)
  exact Nat.le_trans h1 (Nat.mul_le_mul_right _ (positionsBetween_length_le a b))

/-- the skip of blocked deals is a loop in the source: no `self.next()` call inside `fn next` -/
theorem C08_no_recursion : Gen.nextSelfCalls = 0 := by decide

end EspadaVerif.C08
