/-
C08 — Enumeration always terminates, in bounded stack, without panicking.

The model's `next` is a loop with explicit fuel (`nextFuel`/`fuelFor`); "terminates" means the fuel is never
exhausted (`.err`), "without panicking" that no `.panic` arm (index out of range, `unwrap` of `None`)
is reachable.  The per-player counters of the model are unbounded naturals, exactly like the `usize`
counters of the repaired code, so there is no overflow arm left to reach.  Ranges may be empty or of any
size.  Bounded stack: the skip is a loop — `Gen.nextSelfCalls` (the number of syntactic `self.next()` calls
inside `fn next`, read from the source on every run) is 0; native stack use itself is observed by
child-process runs, not proved.
-/
import EspadaVerif.Props.C02

namespace EspadaVerif.C08
open EspadaVerif Spec C02

variable {W : Type}

/-- **C08 (total).** For every proper input and scope, draining with any bound on the number of showdowns
returns normally: never a panic, never out of fuel. -/
theorem C08_total (ops : WOps W) (flop : List Card) (ranges : List (List (Combo × W))) (a b : Nat × Nat)
    (h : WfInput flop ranges) (hs : ValidScope a b) :
    ∃ s₀ : IterState W, (mkEvaluator flop ranges a b).intoIter = .ok s₀ ∧
      ∀ limit, ∃ sds s', drainFuel ops limit s₀ [] = .ok (sds, s') := by
  sorry

/-- **C08 (empty range).** A player with an empty range simply makes the enumeration empty. -/
theorem C08_empty (ops : WOps W) (flop : List Card) (ranges : List (List (Combo × W))) (a b : Nat × Nat)
    (h : WfInput flop ranges) (hs : ValidScope a b) (hempty : [] ∈ ranges) :
    ∃ s₀ : IterState W, (mkEvaluator flop ranges a b).intoIter = .ok s₀ ∧
      ∀ limit, drainFuel ops (limit + 1) s₀ [] = .ok ([], s₀) := by
  sorry

/-- the number of loop iterations of a full drain is bounded by (positions in scope) × (product of the range
sizes) + 1: stated as the number of showdowns yielded -/
theorem C08_yield_bound (ops : WOps W) (flop : List Card) (ranges : List (List (Combo × W))) (a b : Nat × Nat)
    (h : WfInput flop ranges) (hs : ValidScope a b) :
    (deals (flop.map Card.code) (specEntries ranges) a b).length
      ≤ 1176 * (ranges.map List.length).foldl (· * ·) 1 := by
  sorry

/-- the skip of blocked deals is a loop in the source: no `self.next()` call inside `fn next` -/
theorem C08_no_recursion : Gen.nextSelfCalls = 0 := by decide

end EspadaVerif.C08
