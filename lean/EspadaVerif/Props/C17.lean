/-
C17 — Range text is canonical: equal ranges print identically and runs are merged.

In the model a range is the HISTORY of its construction (the list of inserts, newest first); "equal ranges"
are histories with the same `lookup`.
-/
import EspadaVerif.Lemmas.TextDefs
import EspadaVerif.Lemmas.FormatFacts

namespace EspadaVerif.C17
open EspadaVerif TextDefs

variable {W : Type}

/-- **C17 (canonical).** The text of a range depends only on its contents, not on how or in what order it was
built. -/
theorem C17_canonical (wt : WText W) (r₁ r₂ : HandRange W) (h : ∀ c, r₁.lookup c = r₂.lookup c) :
    showRange wt r₁ = showRange wt r₂ ∧ rankPairs wt r₁ = rankPairs wt r₂
    ∧ (∀ o₁ o₂, orphans wt r₁ = .ok o₁ → orphans wt r₂ = .ok o₂ → ∀ c, o₁.lookup c = o₂.lookup c) := by
  have e1 := FormatFacts.rpList_congr wt r₁ r₂ h
  have e2 := FormatFacts.orphToks_congr _ _ (FormatFacts.orphList_congr wt r₁ r₂ h)
  refine ⟨?_, ?_, ?_⟩
  · rw [FormatFacts.showRange_eq, FormatFacts.showRange_eq, e1, e2]
  · rw [FormatFacts.rankPairs_eq, FormatFacts.rankPairs_eq, e1]
  · intro o₁ o₂ h1 h2 c
    rw [FormatFacts.orphans_eq] at h1 h2
    cases h1
    cases h2
    exact FormatFacts.orphList_congr wt r₁ r₂ h c

/-- the token written for a maximal run `(start, length, weight)` of a row whose top rank is `first`:
`X+` when the run starts at the top and has length ≥ 2, a single rank pair for length 1, `X-Y` otherwise -/
def runToken (first : Nat) (mk : Nat → RankPair) (run : Nat × Nat × W) : Token W :=
  let (s, n, w) := run
  if s = 0 ∧ n ≥ 2 then ⟨.bottomClosed (mk (first + n - 1)), w⟩
  else if n = 1 then ⟨.singleRank (mk (first + s)), w⟩
  else ⟨.doubleClosed (mk (first + s)) (first + s + n - 1), w⟩

theorem runToken_eq (first : Nat) (mk : Nat → RankPair) :
    (runToken first mk : Nat × Nat × W → Token W) = FormatFacts.runTok first mk := rfl

/-- **C17 (runs).** For every row (pockets: `first = 0`; kickers under a high card `h`: `first = h + 1`) and every
table of reported rank pairs, the formatter's state machine emits exactly one token per maximal run of
adjacent rank pairs with equal weight, in row order. -/
theorem C17_runs (wt : WText W) (rps : List (RankPair × W)) (first : Nat) (hf : first ≤ 12) (mk : Nat → RankPair) :
    rowTokens wt rps first 12 mk (List.range' first (13 - first))
      = .ok ((Spec.runs wt.eq ((List.range' first (13 - first)).map fun k => rpLookup rps (mk k))).map (runToken first mk)) := by
  rw [runToken_eq]
  exact FormatFacts.rowTokens_runs wt rps first hf mk

/-- the runs of `Spec.runs` are disjoint, in order, and maximal: two consecutive runs either do not touch or carry
different weights; every run is weight-constant and covers only present entries; every present entry is covered -/
theorem C17_runs_maximal (weq : W → W → Bool) (hrefl : ∀ a, weq a a = true) (row : List (Option W)) :
    let rs := Spec.runs weq row
    (∀ run ∈ rs, 1 ≤ run.2.1 ∧ run.1 + run.2.1 ≤ row.length
        ∧ ∀ i, run.1 ≤ i → i < run.1 + run.2.1 → ∃ w', row[i]? = some (some w') ∧ weq w' run.2.2 = true)
    ∧ (∀ i w', row[i]? = some (some w') → ∃ run ∈ rs, run.1 ≤ i ∧ i < run.1 + run.2.1)
    ∧ List.Pairwise (fun a b => a.1 + a.2.1 ≤ b.1) rs
    ∧ (∀ k, ∀ a b, rs[k]? = some a → rs[k + 1]? = some b → a.1 + a.2.1 = b.1 →
          ∃ wb, row[b.1]? = some (some wb) ∧ weq wb a.2.2 = false) := by
  intro rs
  obtain ⟨hok, hcov⟩ := FormatFacts.runs_final weq hrefl row
  exact ⟨hok.body, hcov, hok.sorted, hok.sep⟩

/-- position of a token in the canonical order: pocket row, then per high card suited row, offsuit row, then leftovers -/
def tokenRow (t : Token W) : Nat :=
  let rowOf : RankPair → Nat
    | .pocket _ => 0
    | .suited h _ => 1 + 2 * h
    | .ofsuit h _ => 2 + 2 * h
  match t.kind with
  | .bottomClosed rp => rowOf rp
  | .doubleClosed rp _ => rowOf rp
  | .singleRank rp => rowOf rp
  | .singleCard _ => 1000

theorem pairwise_of_forall {α : Type} {R : α → α → Prop} {l : List α} (h : ∀ a ∈ l, ∀ b ∈ l, R a b) :
    l.Pairwise R := by
  induction l with
  | nil => exact .nil
  | cons x tl ih =>
    exact List.pairwise_cons.mpr ⟨fun b hb => h x (by simp) b (by simp [hb]),
      ih (fun a ha b hb => h a (by simp [ha]) b (by simp [hb]))⟩

theorem tokenRow_rowRuns (wt : WText W) (rps : List (RankPair × W)) (first : Nat) (mk : Nat → RankPair) (n : Nat)
    (hmk : ∀ k, tokenRow (W := W) ⟨.singleRank (mk k), wt.one⟩ = n) (t : Token W)
    (ht : t ∈ FormatFacts.rowRuns wt rps first mk) : tokenRow t = n := by
  obtain ⟨k, e, hk | hk | hk⟩ := FormatFacts.rowRuns_kind wt rps first mk t ht
  all_goals
    have := hmk k
    simp only [tokenRow] at this ⊢
    rw [hk]
    exact this

theorem tokenRow_highToks (wt : WText W) (rps : List (RankPair × W)) (h : Nat) (t : Token W)
    (ht : t ∈ FormatFacts.highToks wt rps h) : 1 + 2 * h ≤ tokenRow t ∧ tokenRow t ≤ 2 + 2 * h := by
  rcases List.mem_append.mp ht with ht | ht
  · have := tokenRow_rowRuns wt rps (h + 1) (.suited h) (1 + 2 * h) (fun k => rfl) t ht
    omega
  · have := tokenRow_rowRuns wt rps (h + 1) (.ofsuit h) (2 + 2 * h) (fun k => rfl) t ht
    omega

theorem pairwise_highToks (wt : WText W) (rps : List (RankPair × W)) (h : Nat) :
    List.Pairwise (fun a b => tokenRow a ≤ tokenRow b) (FormatFacts.highToks wt rps h) := by
  unfold FormatFacts.highToks
  rw [List.pairwise_append]
  refine ⟨pairwise_of_forall ?_, pairwise_of_forall ?_, ?_⟩
  · intro a ha b hb
    rw [tokenRow_rowRuns wt rps (h + 1) (.suited h) (1 + 2 * h) (fun k => rfl) a ha,
      tokenRow_rowRuns wt rps (h + 1) (.suited h) (1 + 2 * h) (fun k => rfl) b hb]
    exact Nat.le_refl _
  · intro a ha b hb
    rw [tokenRow_rowRuns wt rps (h + 1) (.ofsuit h) (2 + 2 * h) (fun k => rfl) a ha,
      tokenRow_rowRuns wt rps (h + 1) (.ofsuit h) (2 + 2 * h) (fun k => rfl) b hb]
    exact Nat.le_refl _
  · intro a ha b hb
    rw [tokenRow_rowRuns wt rps (h + 1) (.suited h) (1 + 2 * h) (fun k => rfl) a ha,
      tokenRow_rowRuns wt rps (h + 1) (.ofsuit h) (2 + 2 * h) (fun k => rfl) b hb]
    omega

theorem tokenRow_orphToks (o : HandRange W) (t : Token W) (ht : t ∈ FormatFacts.orphToks o) : tokenRow t = 1000 := by
  obtain ⟨c, p, rfl, _⟩ := FormatFacts.orphToks_kind o t ht
  rfl

/-- **C17 (order).** Pocket pairs first, then for each high card from ace down its suited and then its offsuit
kickers, then the leftover single combos. -/
theorem C17_order (wt : WText W) (r : HandRange W) (toks : List (Token W)) (h : showRangeTokens wt r = .ok toks) :
    List.Pairwise (fun a b => tokenRow a ≤ tokenRow b) toks := by
  rw [FormatFacts.showRangeTokens_eq] at h
  cases h
  have hB : ∀ t ∈ (List.range' 0 12).flatMap (FormatFacts.highToks wt (FormatFacts.rpList wt r)),
      1 ≤ tokenRow t ∧ tokenRow t ≤ 24 := by
    intro t ht
    obtain ⟨hh, hmem, ht⟩ := List.mem_flatMap.mp ht
    have h1 := List.mem_range'_1.mp hmem
    have h2 := tokenRow_highToks wt _ hh t ht
    omega
  have hA : ∀ t ∈ FormatFacts.rowRuns wt (FormatFacts.rpList wt r) 0 .pocket, tokenRow t = 0 :=
    fun t ht => tokenRow_rowRuns wt _ 0 .pocket 0 (fun k => rfl) t ht
  rw [List.pairwise_append, List.pairwise_append]
  refine ⟨⟨pairwise_of_forall ?_, ?_, ?_⟩, pairwise_of_forall ?_, ?_⟩
  · intro a ha b hb
    rw [hA a ha, hA b hb]
    exact Nat.le_refl _
  · rw [List.pairwise_flatMap]
    refine ⟨fun hh _ => pairwise_highToks wt _ hh, ?_⟩
    refine List.Pairwise.imp ?_ (List.pairwise_lt_range' (s := 0) (n := 12))
    intro h1 h2 hlt x hx y hy
    have := tokenRow_highToks wt _ h1 x hx
    have := tokenRow_highToks wt _ h2 y hy
    omega
  · intro a ha b hb
    rw [hA a ha]
    exact Nat.zero_le _
  · intro a ha b hb
    rw [tokenRow_orphToks _ a ha, tokenRow_orphToks _ b hb]
    exact Nat.le_refl _
  · intro a ha b hb
    rw [tokenRow_orphToks _ b hb]
    rcases List.mem_append.mp ha with ha | ha
    · rw [hA a ha]; omega
    · have := hB a ha
      omega

end EspadaVerif.C17
