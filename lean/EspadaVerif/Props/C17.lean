/-
C17 — Range text is canonical: equal ranges print identically and runs are merged.

In the model a range is the HISTORY of its construction (the list of inserts, newest first); "equal ranges"
are histories with the same `lookup`.
-/
import EspadaVerif.Lemmas.TextDefs

namespace EspadaVerif.C17
open EspadaVerif TextDefs

variable {W : Type}

/-- **C17 (canonical).** The text of a range depends only on its contents, not on how or in what order it was
built. -/
theorem C17_canonical (wt : WText W) (r₁ r₂ : HandRange W) (h : ∀ c, r₁.lookup c = r₂.lookup c) :
    showRange wt r₁ = showRange wt r₂ ∧ rankPairs wt r₁ = rankPairs wt r₂
    ∧ (∀ o₁ o₂, orphans wt r₁ = .ok o₁ → orphans wt r₂ = .ok o₂ → ∀ c, o₁.lookup c = o₂.lookup c) := by
  sorry

/-- the token written for a maximal run `(start, length, weight)` of a row whose top rank is `first`:
`X+` when the run starts at the top and has length ≥ 2, a single rank pair for length 1, `X-Y` otherwise -/
def runToken (first : Nat) (mk : Nat → RankPair) (run : Nat × Nat × W) : Token W :=
  let (s, n, w) := run
  if s = 0 ∧ n ≥ 2 then ⟨.bottomClosed (mk (first + n - 1)), w⟩
  else if n = 1 then ⟨.singleRank (mk (first + s)), w⟩
  else ⟨.doubleClosed (mk (first + s)) (first + s + n - 1), w⟩

/-- **C17 (runs).** For every row (pockets: `first = 0`; kickers under a high card `h`: `first = h + 1`) and every
table of reported rank pairs, the formatter's state machine emits exactly one token per maximal run of
adjacent rank pairs with equal weight, in row order. -/
theorem C17_runs (wt : WText W) (rps : List (RankPair × W)) (first : Nat) (hf : first ≤ 12) (mk : Nat → RankPair) :
    rowTokens wt rps first 12 mk (List.range' first (13 - first))
      = .ok ((Spec.runs wt.eq ((List.range' first (13 - first)).map fun k => rpLookup rps (mk k))).map (runToken first mk)) := by
  sorry

/-- the runs of `Spec.runs` are disjoint, in order, and maximal: two consecutive runs either do not touch or carry
different weights; every run is weight-constant and covers only present entries; every present entry is covered -/
theorem C17_runs_maximal (weq : W → W → Bool) (hrefl : ∀ a, weq a a = true) (row : List (Option W)) :
    let rs := Spec.runs weq row
    (∀ run ∈ rs, 1 ≤ run.2.1 ∧ run.1 + run.2.1 ≤ row.length
        ∧ ∀ i, run.1 ≤ i → i < run.1 + run.2.1 → ∃ w', row[i]? = some (some w') ∧ weq w' run.2.2 = true)
    ∧ (∀ i w', row[i]? = some (some w') → ∃ run ∈ rs, run.1 ≤ i ∧ i < run.1 + run.2.1)
    ∧ List.Pairwise (fun a b => a.1 + a.2.1 ≤ b.1) rs
    ∧ (∀ k, ∀ a b, rs[k]? = some a → rs[k + 1]? = some b → a.1 + a.2.1 = b.1 →
          ∃ wb, row[b.1]? = some (some wb) ∧ weq wb a.2.2 = false) := by
  sorry

/-- position of a token in the canonical order: pocket row, then per high card suited row, offsuit row, then leftovers -/
def tokenRow (t : Token W) : Nat :=
  let rowOf : RankPair → Nat
    | .pocket _ => 0
    | .suited h _ => 1 + 2 * h
    | .ofsuit h _ => 2 + 2 * h
  match t.kind with
  | .bottomClosed rp => rowOf rp
  | .doubleClosed rp _ => rowOf rp
  | .singleRank rp => rowOf rp
  | .singleCard _ => 1000

/-- **C17 (order).** Pocket pairs first, then for each high card from ace down its suited and then its offsuit
kickers, then the leftover single combos. -/
theorem C17_order (wt : WText W) (r : HandRange W) (toks : List (Token W)) (h : showRangeTokens wt r = .ok toks) :
    List.Pairwise (fun a b => tokenRow a ≤ tokenRow b) toks := by
  sorry

end EspadaVerif.C17
