import EspadaVerif.Model.Range
namespace EspadaVerif.C17
end EspadaVerif.C17
