/-
C04 (model side) — what `Props/C04.lean` leaves implicit.

* `C04_scope_ok` …: the public `scope()` call is what `mkEvaluator` stands for; its three `debug_assert!`s
  never fire on a valid scope, in a debug and in a release build alike; the last `scope()` call wins.
* `C04_scoped_sublist`: the drain of the evaluator scoped to `[a, b)` is the middle part of the drain of the
  UNSCOPED evaluator, between the drains of the scopes `[(0,1), a)` and `[b, (48,49))`.
* `C04_chain_model`: the drains of a chain of scoped evaluators concatenate to the drain of the evaluator scoped
  from the first cut to the last one (the full enumeration for `(0,1)` … `(48,49)`).

All three are statements about the MODEL's iterator (`intoIter`, `next`, `drainFuel`), not only about
`Spec.deals`.  `IsDrain ops e sds` is literally the drain clause of `C02.C02_refines`.
-/
import EspadaVerif.Props.C04
import EspadaVerif.Props.Witness.Common

set_option Elab.async false

namespace EspadaVerif.C04
open EspadaVerif Spec C02 EspadaVerif.IterLemmas

variable {W : Type}

/-! ### 1. `scope()` -/

/-- on arguments that form a valid scope the three assertions of `scope()` hold -/
theorem asserts_of_validScope {a b : Nat × Nat} (hs : ValidScope a b) :
    (decide (a.1 ≤ b.1) && decide (a.1 < a.2) && decide (b.1 < b.2)) = true := by
  obtain ⟨a1, a2⟩ := a
  obtain ⟨b1, b2⟩ := b
  have h1 := (validPos_iff _).mp hs.from_valid
  have h2 := (validPos_iff _).mp hs.to_valid
  have h3 := hs.ordered
  simp only [posLe, posLt, Bool.or_eq_true, Bool.and_eq_true, decide_eq_true_eq, beq_iff_eq,
    Prod.mk.injEq] at h1 h2 h3 ⊢
  omega

/-- **C04 (`scope()` on any evaluator).** On a valid scope `scope()` returns normally — whether the
`debug_assert!`s are compiled in (`dbg = true`) or not — and stores exactly the four numbers. -/
theorem C04_scope_any (e : Evaluator W) (a b : Nat × Nat) (hs : ValidScope a b) (dbg : Bool) :
    e.scope a.1 a.2 b.1 b.2 dbg
      = .ok { e with turnFrom := a.1, riverFrom := a.2, turnTo := b.1, riverTo := b.2 } := by
  unfold Evaluator.scope
  rw [asserts_of_validScope hs]
  simp

/-- in a release build `scope()` never traps, whatever the arguments -/
theorem C04_scope_release (e : Evaluator W) (tf rf tt rt : Nat) :
    e.scope tf rf tt rt false = .ok { e with turnFrom := tf, riverFrom := rf, turnTo := tt, riverTo := rt } := by
  simp [Evaluator.scope]

/-- **C04 (`scope()` is `mkEvaluator`).** `FlopExhaustiveEvaluator::new(board, ranges)` followed by
`scope(a.0, a.1, b.0, b.1)` with a valid scope is the evaluator the theorems call `mkEvaluator flop ranges a b`;
the call returns normally in debug and release builds alike. -/
theorem C04_scope_ok (flop : List Card) (ranges : List (List (Combo × W))) (a b : Nat × Nat)
    (hs : ValidScope a b) (dbg : Bool) :
    (Evaluator.new (flop.map some ++ [none, none]) ranges).scope a.1 a.2 b.1 b.2 dbg
      = .ok (mkEvaluator flop ranges a b) := by
  rw [C04_scope_any _ a b hs dbg]
  rfl

/-- **C04 (the last `scope()` call wins).** Whatever scope an evaluator had before, a `scope()` call with a
valid scope `[c, d)` makes it the evaluator scoped to `[c, d)`. -/
theorem C04_rescope_last (flop : List Card) (ranges : List (List (Combo × W))) (a b c d : Nat × Nat)
    (hs : ValidScope c d) (dbg : Bool) :
    (mkEvaluator flop ranges a b).scope c.1 c.2 d.1 d.2 dbg = .ok (mkEvaluator flop ranges c d) := by
  rw [C04_scope_any _ c d hs dbg]
  rfl

/-- two successive `scope()` calls on a fresh evaluator, each with a valid scope and each in either build
mode: both return normally and the result is the evaluator of the second call -/
theorem C04_scope_twice (flop : List Card) (ranges : List (List (Combo × W))) (a b c d : Nat × Nat)
    (h1 : ValidScope a b) (h2 : ValidScope c d) (dbg1 dbg2 : Bool) :
    ∃ e₁, (Evaluator.new (flop.map some ++ [none, none]) ranges).scope a.1 a.2 b.1 b.2 dbg1 = .ok e₁
      ∧ e₁.scope c.1 c.2 d.1 d.2 dbg2 = .ok (mkEvaluator flop ranges c d) :=
  ⟨_, C04_scope_ok flop ranges a b h1 dbg1, C04_rescope_last flop ranges a b c d h2 dbg2⟩

/-- the same for any number of calls: folding `scope()` over a non-empty list of valid scopes gives the
evaluator of the last one -/
def scopeAll (dbg : Bool) : Evaluator W → List ((Nat × Nat) × (Nat × Nat)) → Res (Evaluator W)
  | e, [] => .ok e
  | e, (x :: xs) =>
    match e.scope x.1.1 x.1.2 x.2.1 x.2.2 dbg with
    | .ok e' => scopeAll dbg e' xs
    | .err => .err
    | .panic => .panic

theorem C04_scope_many (flop : List Card) (ranges : List (List (Combo × W))) (dbg : Bool) :
    ∀ (xs : List ((Nat × Nat) × (Nat × Nat))) (ab : (Nat × Nat) × (Nat × Nat)),
      (∀ x ∈ xs, ValidScope x.1 x.2) →
      scopeAll dbg (mkEvaluator flop ranges ab.1 ab.2) xs
        = .ok (mkEvaluator flop ranges ((ab :: xs).getLast (by simp)).1 ((ab :: xs).getLast (by simp)).2) := by
  intro xs
  induction xs with
  | nil => intro ab _; rfl
  | cons x xs ih =>
    intro ab h
    have hx := h x (by simp)
    simp only [scopeAll, C04_rescope_last flop ranges ab.1 ab.2 x.1 x.2 hx dbg]
    rw [ih x (fun y hy => h y (List.mem_cons_of_mem _ hy)), List.getLast_cons_cons]

/-! ### the drain of a scoped evaluator, explicitly -/

/-- `sds` is the complete drain of the evaluator `e`: `into_iter` returns normally, collecting `next()` until
`None` gives `sds` for every limit above its length, and the iterator ends exhausted (this is the drain clause
of `C02.C02_refines`) -/
def IsDrain (ops : WOps W) (e : Evaluator W) (sds : List (Showdown W)) : Prop :=
  ∃ s₀ sEnd : IterState W, e.intoIter = .ok s₀
    ∧ (∀ limit, sds.length < limit → drainFuel ops limit s₀ [] = .ok (sds, sEnd))
    ∧ next ops sEnd = .ok (none, sEnd)

/-- an evaluator has at most one drain -/
theorem IsDrain.unique {ops : WOps W} {e : Evaluator W} {x y : List (Showdown W)}
    (hx : IsDrain ops e x) (hy : IsDrain ops e y) : x = y := by
  obtain ⟨s₀, sx, h0, hdx, _⟩ := hx
  obtain ⟨s₀', sy, h0', hdy, _⟩ := hy
  rw [h0] at h0'
  have hs : s₀ = s₀' := Res.ok.inj h0'
  rw [← hs] at hdy
  have h1 := hdx (x.length + y.length + 1) (by omega)
  have h2 := hdy (x.length + y.length + 1) (by omega)
  rw [h1] at h2
  exact (Prod.mk.inj (Res.ok.inj h2)).1

/-- the raw outputs (one per raw position × choice; `none` = blocked deal) of the scope `[a, b)` -/
def outsOf (ops : WOps W) (flop : List Card) (ranges : List (List (Combo × W))) (a b : Nat × Nat) :
    List (Option (Showdown W)) :=
  (positionsBetween a b).flatMap fun q => (product ranges).map (outOf ops flop q)

/-- the showdowns of one position: does not depend on the scope -/
def rowOf (ops : WOps W) (flop : List Card) (ranges : List (List (Combo × W))) (q : Nat × Nat) :
    List (Showdown W) :=
  ((product ranges).map (outOf ops flop q)).filterMap id

/-- the showdowns of the scope `[a, b)`, position by position -/
def drainOf (ops : WOps W) (flop : List Card) (ranges : List (List (Combo × W))) (a b : Nat × Nat) :
    List (Showdown W) :=
  (positionsBetween a b).flatMap (rowOf ops flop ranges)

theorem filterMap_flatMap' {α β γ : Type} (l : List α) (f : α → List β) (g : β → Option γ) :
    (l.flatMap f).filterMap g = l.flatMap fun x => (f x).filterMap g := by
  induction l with
  | nil => rfl
  | cons x l ih => simp only [List.flatMap_cons, List.filterMap_append, ih]

theorem outsOf_filterMap (ops : WOps W) (flop : List Card) (ranges : List (List (Combo × W))) (a b : Nat × Nat) :
    (outsOf ops flop ranges a b).filterMap id = drainOf ops flop ranges a b :=
  filterMap_flatMap' _ _ _

theorem outsOf_length (ops : WOps W) (flop : List Card) (ranges : List (List (Combo × W))) (a b : Nat × Nat) :
    (outsOf ops flop ranges a b).length = (positionsBetween a b).length * (product ranges).length :=
  outs_length ops flop ranges _

/-- **the run of a scoped iterator, explicitly.**  From the initial state the loop of `next` performs exactly
one non-final iteration per raw position × choice of the scope (`outsOf`), then reaches a state in which
`step` answers `done`; the number of iterations is below the fuel of `next`. -/
theorem run_explicit (ops : WOps W) (flop : List Card) (ranges : List (List (Combo × W))) (a b : Nat × Nat)
    (h : WfInput flop ranges) (hs : ValidScope a b) :
    ∃ s₀ sEnd : IterState W, (mkEvaluator flop ranges a b).intoIter = .ok s₀
      ∧ Runs ops s₀ (outsOf ops flop ranges a b) sEnd
      ∧ step ops sEnd = .ok (.done, sEnd)
      ∧ (outsOf ops flop ranges a b).length < fuelFor sEnd := by
  have hf : WfFlop flop := ⟨h.flop_len, h.flop_nodup, h.flop_valid⟩
  have hr : RWf ranges := h.combos
  refine ⟨_, ?_, intoIter_eq flop ranges a b hf, ?_⟩
  · exact if (∃ es ∈ ranges, es = []) then st flop ranges b a (List.replicate ranges.length 0)
      else st flop ranges b b (List.replicate ranges.length 0)
  by_cases hemp : ∃ es ∈ ranges, es = []
  · rw [if_pos hemp]
    have hnil : outsOf ops flop ranges a b = [] := by
      unfold outsOf
      rw [product_eq_nil ranges hemp]
      simp
    rw [hnil]
    exact ⟨Runs.nil _, step_empty ops flop ranges b a _ hemp, by simp [fuelFor]⟩
  · rw [if_neg hemp]
    have hne : ∀ es ∈ ranges, es ≠ [] := fun es hes he => hemp ⟨es, hes, he⟩
    refine ⟨run_positions ops flop ranges b hf hr hne hs.to_valid (positionsBetween a b) a rfl
      hs.from_valid hs.ordered, step_done ops flop ranges b _, ?_⟩
    rw [outsOf_length]
    have h1 := Nat.mul_le_mul_right (product ranges).length (positionsBetween_length_le a b)
    have h2 := product_length ranges 1
    simp only [fuelFor, st]
    rw [h2]
    generalize (product ranges).length = P at h1 ⊢
    generalize (positionsBetween a b).length * P = Q at h1 ⊢
    omega

/-- **the drain of a scoped evaluator, explicitly:** position by position, the rows `rowOf` of the positions
`a ≤ p < b`; the row of a position does not depend on the scope -/
theorem drain_explicit (ops : WOps W) (flop : List Card) (ranges : List (List (Combo × W))) (a b : Nat × Nat)
    (h : WfInput flop ranges) (hs : ValidScope a b) :
    IsDrain ops (mkEvaluator flop ranges a b) (drainOf ops flop ranges a b) := by
  obtain ⟨s₀, sEnd, h0, hrun, hdone, hfuel⟩ := run_explicit ops flop ranges a b h hs
  refine ⟨s₀, sEnd, h0, ?_, next_done ops _ hdone⟩
  intro limit hlim
  have := drain_spec ops _ hdone _ _ _ [] limit hrun hfuel (outsOf_filterMap ops flop ranges a b) hlim
  simpa using this

/-- the drain of `C02_refines` is a drain in the sense of `IsDrain`, and it is the one that lists the
specification's deals -/
theorem drain_deals (ops : WOps W) (flop : List Card) (ranges : List (List (Combo × W))) (a b : Nat × Nat)
    (h : WfInput flop ranges) (hs : ValidScope a b) (sds : List (Showdown W))
    (hd : IsDrain ops (mkEvaluator flop ranges a b) sds) :
    (deals (flop.map Card.code) (specEntries ranges) a b).map (showdownOfDeal ops flop)
      = sds.map (fun sd => .ok (some sd)) := by
  obtain ⟨s₀, h0, sds', sEnd, hdr, hdeals, hend⟩ := C02_refines ops flop ranges a b h hs
  have : IsDrain ops (mkEvaluator flop ranges a b) sds' := ⟨s₀, sEnd, h0, hdr, hend⟩
  rw [hd.unique this]
  exact hdeals

/-! ### 2. a scoped evaluator yields a contiguous part of the unscoped run -/

theorem first_le {a : Nat × Nat} (h : validPos a = true) : posLe (0, 1) a = true := by
  obtain ⟨a1, a2⟩ := a
  have h1 := (validPos_iff _).mp h
  simp only [posLe, posLt, Bool.or_eq_true, Bool.and_eq_true, decide_eq_true_eq, beq_iff_eq,
    Prod.mk.injEq] at h1 ⊢
  omega

theorem le_last {a : Nat × Nat} (h : validPos a = true) : posLe a (48, 49) = true := by
  obtain ⟨a1, a2⟩ := a
  have h1 := (validPos_iff _).mp h
  simp only [posLe, posLt, Bool.or_eq_true, Bool.and_eq_true, decide_eq_true_eq, beq_iff_eq,
    Prod.mk.injEq] at h1 ⊢
  omega

theorem validPos_first : validPos (0, 1) = true := by decide
theorem validPos_last : validPos (48, 49) = true := by decide

theorem scope_before {a : Nat × Nat} (h : validPos a = true) : ValidScope (0, 1) a :=
  ⟨validPos_first, h, first_le h⟩
theorem scope_after {b : Nat × Nat} (h : validPos b = true) : ValidScope b (48, 49) :=
  ⟨h, validPos_last, le_last h⟩
theorem scope_full : ValidScope (0, 1) (48, 49) := scope_before validPos_last

/-- the rows of consecutive scopes concatenate -/
theorem drainOf_append (ops : WOps W) (flop : List Card) (ranges : List (List (Combo × W))) (a b c : Nat × Nat)
    (hab : ValidScope a b) (hbc : ValidScope b c) :
    drainOf ops flop ranges a b ++ drainOf ops flop ranges b c = drainOf ops flop ranges a c := by
  unfold drainOf
  rw [← List.flatMap_append,
    positionsBetween_append hab.to_valid hbc.ordered _ a rfl hab.from_valid hab.ordered]

/-- the scope from the first position to the terminal holds every position -/
theorem positionsBetween_full : positionsBetween (0, 1) (48, 49) = allPositions := by
  unfold positionsBetween
  rw [List.filter_eq_self]
  intro q hq
  obtain ⟨q1, q2⟩ := q
  have := (mem_allPositions _).mp hq
  simp only [posLe, posLt, Bool.or_eq_true, Bool.and_eq_true, decide_eq_true_eq, beq_iff_eq,
    Prod.mk.injEq] at this ⊢
  omega

/-- **C04 (a scoped evaluator yields a contiguous part of the unscoped run).**  Let `full` be the drain of the
UNSCOPED evaluator `FlopExhaustiveEvaluator::new(board, ranges)`, `pre` the drain of the scope `[(0,1), a)`,
`sds` the drain of the scope `[a, b)` and `post` the drain of the scope `[b, (48,49))`.  All four drains exist
(first part) and, whatever they are, `full = pre ++ sds ++ post` (second part): the scoped evaluator yields
exactly the showdowns of the unscoped run from index `pre.length` on, in the same order. -/
theorem C04_scoped_sublist (ops : WOps W) (flop : List Card) (ranges : List (List (Combo × W))) (a b : Nat × Nat)
    (h : WfInput flop ranges) (hs : ValidScope a b) :
    (∃ full pre sds post,
        IsDrain ops (Evaluator.new (flop.map some ++ [none, none]) ranges) full
        ∧ IsDrain ops (mkEvaluator flop ranges (0, 1) a) pre
        ∧ IsDrain ops (mkEvaluator flop ranges a b) sds
        ∧ IsDrain ops (mkEvaluator flop ranges b (48, 49)) post)
    ∧ ∀ full pre sds post,
        IsDrain ops (Evaluator.new (flop.map some ++ [none, none]) ranges) full →
        IsDrain ops (mkEvaluator flop ranges (0, 1) a) pre →
        IsDrain ops (mkEvaluator flop ranges a b) sds →
        IsDrain ops (mkEvaluator flop ranges b (48, 49)) post →
        full = pre ++ sds ++ post := by
  have e0 : Evaluator.new (flop.map some ++ [none, none]) ranges = mkEvaluator flop ranges (0, 1) (48, 49) := rfl
  have d0 := drain_explicit ops flop ranges (0, 1) (48, 49) h scope_full
  have d1 := drain_explicit ops flop ranges (0, 1) a h (scope_before hs.from_valid)
  have d2 := drain_explicit ops flop ranges a b h hs
  have d3 := drain_explicit ops flop ranges b (48, 49) h (scope_after hs.to_valid)
  rw [← e0] at d0
  refine ⟨⟨_, _, _, _, d0, d1, d2, d3⟩, ?_⟩
  intro full pre sds post hfull hpre hsds hpost
  rw [hfull.unique d0, hpre.unique d1, hsds.unique d2, hpost.unique d3,
    drainOf_append ops flop ranges (0, 1) a b (scope_before hs.from_valid) hs,
    drainOf_append ops flop ranges (0, 1) b (48, 49) (scope_before hs.to_valid) (scope_after hs.to_valid)]

/-- **C04 (position by position).**  There is one list of showdowns per position (`rowOf`, independent of the
scope) such that the evaluator scoped to `[a, b)` yields the rows of the positions `a ≤ p < b` in lexicographic
order, and the unscoped evaluator the rows of all 1176 positions: the scoped run is the unscoped run restricted
to those positions. -/
theorem C04_scoped_rows (ops : WOps W) (flop : List Card) (ranges : List (List (Combo × W)))
    (h : WfInput flop ranges) :
    IsDrain ops (Evaluator.new (flop.map some ++ [none, none]) ranges)
        (allPositions.flatMap (rowOf ops flop ranges))
    ∧ ∀ a b, ValidScope a b →
        IsDrain ops (mkEvaluator flop ranges a b)
          ((allPositions.filter fun p => posLe a p && posLt p b).flatMap (rowOf ops flop ranges)) := by
  refine ⟨?_, fun a b hs => drain_explicit ops flop ranges a b h hs⟩
  have := drain_explicit ops flop ranges (0, 1) (48, 49) h scope_full
  unfold drainOf at this
  rw [positionsBetween_full] at this
  exact this

/-! ### 3. chains of scoped evaluators -/

/-- the drains of the evaluators scoped to `[p₀, c₁)`, `[c₁, c₂)`, … (one list per piece) -/
def IsChainDrain (ops : WOps W) (flop : List Card) (ranges : List (List (Combo × W))) :
    Nat × Nat → List (Nat × Nat) → List (List (Showdown W)) → Prop
  | _, [], pieces => pieces = []
  | p, c :: cs, pieces =>
    ∃ d rest, pieces = d :: rest ∧ IsDrain ops (mkEvaluator flop ranges p c) d
      ∧ IsChainDrain ops flop ranges c cs rest

/-- the explicit pieces -/
def chainDrains (ops : WOps W) (flop : List Card) (ranges : List (List (Combo × W))) :
    Nat × Nat → List (Nat × Nat) → List (List (Showdown W))
  | _, [] => []
  | p, c :: cs => drainOf ops flop ranges p c :: chainDrains ops flop ranges c cs

theorem chainDrains_ok (ops : WOps W) (flop : List Card) (ranges : List (List (Combo × W)))
    (h : WfInput flop ranges) :
    ∀ (cuts : List (Nat × Nat)) (p₀ : Nat × Nat), (∀ xy ∈ (p₀ :: cuts).zip cuts, ValidScope xy.1 xy.2) →
      IsChainDrain ops flop ranges p₀ cuts (chainDrains ops flop ranges p₀ cuts) := by
  intro cuts
  induction cuts with
  | nil => intro _ _; rfl
  | cons c cs ih =>
    intro p₀ hchain
    have h0 : ValidScope p₀ c := hchain (p₀, c) (by simp)
    refine ⟨_, _, rfl, drain_explicit ops flop ranges p₀ c h h0, ih c ?_⟩
    intro xy hxy
    exact hchain xy (by
      simp only [List.zip_cons_cons, List.mem_cons]
      exact Or.inr hxy)

theorem IsChainDrain.unique {ops : WOps W} {flop : List Card} {ranges : List (List (Combo × W))} :
    ∀ {cuts : List (Nat × Nat)} {p₀ : Nat × Nat} {x y : List (List (Showdown W))},
      IsChainDrain ops flop ranges p₀ cuts x → IsChainDrain ops flop ranges p₀ cuts y → x = y := by
  intro cuts
  induction cuts with
  | nil =>
    intro p₀ x y hx hy
    simp only [IsChainDrain] at hx hy
    rw [hx, hy]
  | cons c cs ih =>
    intro p₀ x y hx hy
    obtain ⟨d, rest, rfl, hd, hrest⟩ := hx
    obtain ⟨d', rest', rfl, hd', hrest'⟩ := hy
    rw [hd.unique hd', ih hrest hrest']

theorem IsChainDrain.length {ops : WOps W} {flop : List Card} {ranges : List (List (Combo × W))} :
    ∀ {cuts : List (Nat × Nat)} {p₀ : Nat × Nat} {x : List (List (Showdown W))},
      IsChainDrain ops flop ranges p₀ cuts x → x.length = cuts.length := by
  intro cuts
  induction cuts with
  | nil =>
    intro p₀ x hx
    simp only [IsChainDrain] at hx
    rw [hx]
    rfl
  | cons c cs ih =>
    intro p₀ x hx
    obtain ⟨d, rest, rfl, _, hrest⟩ := hx
    simp [ih hrest]

/-- the explicit pieces concatenate, and the accumulated scope is valid -/
theorem chainDrains_flatten (ops : WOps W) (flop : List Card) (ranges : List (List (Combo × W))) :
    ∀ (cuts : List (Nat × Nat)) (p₀ : Nat × Nat), validPos p₀ = true →
      (∀ xy ∈ (p₀ :: cuts).zip cuts, ValidScope xy.1 xy.2) →
      (chainDrains ops flop ranges p₀ cuts).flatten
          = drainOf ops flop ranges p₀ ((p₀ :: cuts).getLast (by simp))
        ∧ ValidScope p₀ ((p₀ :: cuts).getLast (by simp)) := by
  intro cuts
  induction cuts with
  | nil =>
    intro p₀ hv _
    refine ⟨?_, ⟨hv, hv, posLe_refl p₀⟩⟩
    simp only [chainDrains, List.flatten_nil, List.getLast_singleton, drainOf, positionsBetween_self,
      List.flatMap_nil]
  | cons c cs ih =>
    intro p₀ hv hchain
    have h0 : ValidScope p₀ c := hchain (p₀, c) (by simp)
    obtain ⟨ih1, ih2⟩ := ih c h0.to_valid (fun xy hxy => hchain xy (by
      simp only [List.zip_cons_cons, List.mem_cons]
      exact Or.inr hxy))
    have hlast : (p₀ :: c :: cs).getLast (by simp) = (c :: cs).getLast (by simp) :=
      List.getLast_cons_cons
    rw [hlast]
    refine ⟨?_, ⟨hv, ih2.to_valid, posLe_trans h0.ordered ih2.ordered⟩⟩
    simp only [chainDrains, List.flatten_cons]
    rw [ih1]
    exact drainOf_append ops flop ranges p₀ c _ h0 ih2

/-- an empty scope `[p, p)` yields nothing, whatever `p` is (the stop test holds at once) -/
theorem drain_self (ops : WOps W) (flop : List Card) (ranges : List (List (Combo × W))) (p : Nat × Nat)
    (h : WfInput flop ranges) : IsDrain ops (mkEvaluator flop ranges p p) [] := by
  have hf : WfFlop flop := ⟨h.flop_len, h.flop_nodup, h.flop_valid⟩
  have hdone := step_done ops flop ranges p (List.replicate ranges.length 0)
  refine ⟨_, _, intoIter_eq flop ranges p p hf, ?_, next_done ops _ hdone⟩
  intro limit hlim
  have := drain_spec ops _ hdone [] _ [] [] limit (Runs.nil _) (by simp [fuelFor]) rfl hlim
  simpa using this

/-- **C04 (chain, on the model).**  Take cut points `p₀ :: cuts` in which every consecutive pair is a valid
scope, and run one scoped evaluator per consecutive pair.  Then (1) every one of these evaluators has a drain
(`pieces`: one list per evaluator, in chain order) and so has the evaluator scoped from `p₀` to the last cut;
(2) whatever these drains are, the concatenation of the pieces IS the drain of the evaluator scoped from `p₀`
to the last cut, and there is one piece per cut. -/
theorem C04_chain_model (ops : WOps W) (flop : List Card) (ranges : List (List (Combo × W)))
    (p₀ : Nat × Nat) (cuts : List (Nat × Nat)) (h : WfInput flop ranges)
    (hchain : ∀ xy ∈ (p₀ :: cuts).zip cuts, ValidScope xy.1 xy.2) :
    (∃ pieces whole, IsChainDrain ops flop ranges p₀ cuts pieces
        ∧ IsDrain ops (mkEvaluator flop ranges p₀ ((p₀ :: cuts).getLast (by simp))) whole)
    ∧ ∀ pieces whole, IsChainDrain ops flop ranges p₀ cuts pieces →
        IsDrain ops (mkEvaluator flop ranges p₀ ((p₀ :: cuts).getLast (by simp))) whole →
        pieces.flatten = whole ∧ pieces.length = cuts.length := by
  cases cuts with
  | nil =>
    have hw : IsDrain ops (mkEvaluator flop ranges p₀ ([p₀].getLast (by simp))) [] :=
      drain_self ops flop ranges p₀ h
    refine ⟨⟨[], [], rfl, hw⟩, ?_⟩
    intro pieces whole hpieces hwhole
    have e : pieces = [] := hpieces
    rw [e, hwhole.unique hw]
    exact ⟨rfl, rfl⟩
  | cons c cs =>
    have hv : validPos p₀ = true := (hchain (p₀, c) (by simp)).from_valid
    obtain ⟨hflat, hscope⟩ := chainDrains_flatten ops flop ranges (c :: cs) p₀ hv hchain
    have hp := chainDrains_ok ops flop ranges h (c :: cs) p₀ hchain
    have hw := drain_explicit ops flop ranges p₀ _ h hscope
    refine ⟨⟨_, _, hp, hw⟩, ?_⟩
    intro pieces whole hpieces hwhole
    refine ⟨?_, hpieces.length⟩
    rw [hpieces.unique hp, hwhole.unique hw, hflat]

/-- **C04 (chain covering everything, on the model).**  When the chain starts at `(0,1)` and its last cut is
`(48,49)`, the pieces concatenate to the drain of the UNSCOPED evaluator. -/
theorem C04_chain_full (ops : WOps W) (flop : List Card) (ranges : List (List (Combo × W)))
    (cuts : List (Nat × Nat)) (h : WfInput flop ranges)
    (hchain : ∀ xy ∈ ((0, 1) :: cuts).zip cuts, ValidScope xy.1 xy.2)
    (hlast : ((0, 1) :: cuts).getLast (by simp) = (48, 49))
    (pieces : List (List (Showdown W))) (full : List (Showdown W))
    (hpieces : IsChainDrain ops flop ranges (0, 1) cuts pieces)
    (hfull : IsDrain ops (Evaluator.new (flop.map some ++ [none, none]) ranges) full) :
    pieces.flatten = full ∧ pieces.length = cuts.length := by
  have e0 : Evaluator.new (flop.map some ++ [none, none]) ranges = mkEvaluator flop ranges (0, 1) (48, 49) := rfl
  rw [e0, ← hlast] at hfull
  exact (C04_chain_model ops flop ranges (0, 1) cuts h hchain).2 pieces full hpieces hfull

/-! ### every element of a concatenation lies in exactly one piece, at the same relative order -/

/-- index `i` of `L.flatten` is index `j` of exactly one piece `k`, namely the one with
`(L.take k).flatten.length ≤ i < (L.take (k+1)).flatten.length`, `j = i - (L.take k).flatten.length` -/
theorem flatten_index {α : Type} (L : List (List α)) :
    ∀ (i : Nat), i < L.flatten.length →
      ∃ k j piece, L[k]? = some piece ∧ j < piece.length ∧ i = (L.take k).flatten.length + j
        ∧ piece[j]? = L.flatten[i]?
        ∧ ∀ k' j' piece', L[k']? = some piece' → j' < piece'.length →
            i = (L.take k').flatten.length + j' → k' = k ∧ j' = j := by
  induction L with
  | nil => intro i hi; simp at hi
  | cons x xs ih =>
    intro i hi
    by_cases hx : i < x.length
    · refine ⟨0, i, x, rfl, hx, by simp, ?_, ?_⟩
      · simp only [List.flatten_cons]
        rw [List.getElem?_append_left hx]
      · intro k' j' piece' hk' hj' hi'
        cases k' with
        | zero => simp at hi'; exact ⟨rfl, hi'.symm⟩
        | succ k'' =>
          simp only [List.take_succ_cons, List.flatten_cons, List.length_append] at hi'
          omega
    · have hx' : x.length ≤ i := Nat.le_of_not_lt hx
      simp only [List.flatten_cons, List.length_append] at hi
      obtain ⟨k, j, piece, h1, h2, h3, h4, h5⟩ := ih (i - x.length) (by omega)
      refine ⟨k + 1, j, piece, by simpa using h1, h2, ?_, ?_, ?_⟩
      · simp only [List.take_succ_cons, List.flatten_cons, List.length_append]
        omega
      · simp only [List.flatten_cons]
        rw [List.getElem?_append_right hx']
        exact h4
      · intro k' j' piece' hk' hj' hi'
        cases k' with
        | zero =>
          simp only [List.getElem?_cons_zero, Option.some.injEq] at hk'
          subst hk'
          simp at hi'
          omega
        | succ k'' =>
          simp only [List.take_succ_cons, List.flatten_cons, List.length_append] at hi'
          obtain ⟨e1, e2⟩ := h5 k'' j' piece' (by simpa using hk') hj' (by omega)
          exact ⟨by omega, e2⟩

/-- **C04 (exactly one piece).**  With the chain from `(0,1)` to `(48,49)`: the `i`-th showdown of the full run
is the `j`-th showdown of the `k`-th worker for exactly one pair `(k, j)`, and `i` is `j` plus the number of
showdowns of the workers before `k` — nothing is lost, nothing is yielded twice, the order is kept. -/
theorem C04_chain_exactly_once (ops : WOps W) (flop : List Card) (ranges : List (List (Combo × W)))
    (cuts : List (Nat × Nat)) (h : WfInput flop ranges)
    (hchain : ∀ xy ∈ ((0, 1) :: cuts).zip cuts, ValidScope xy.1 xy.2)
    (hlast : ((0, 1) :: cuts).getLast (by simp) = (48, 49))
    (pieces : List (List (Showdown W))) (full : List (Showdown W))
    (hpieces : IsChainDrain ops flop ranges (0, 1) cuts pieces)
    (hfull : IsDrain ops (Evaluator.new (flop.map some ++ [none, none]) ranges) full)
    (i : Nat) (hi : i < full.length) :
    ∃ k j piece, pieces[k]? = some piece ∧ j < piece.length
      ∧ i = (pieces.take k).flatten.length + j ∧ piece[j]? = full[i]?
      ∧ ∀ k' j' piece', pieces[k']? = some piece' → j' < piece'.length →
          i = (pieces.take k').flatten.length + j' → k' = k ∧ j' = j := by
  obtain ⟨hflat, _⟩ := C04_chain_full ops flop ranges cuts h hchain hlast pieces full hpieces hfull
  rw [← hflat] at hi ⊢
  exact flatten_index pieces i hi

/-! ### non-vacuity: the theorems at concrete data

Flop A♠ K♦ 7♣, two weighted two-combo ranges (weights in `Nat`), the worker cuts
(0,1) → (6,10) → (13,22) → (48,49); the one-position pieces (46,47) → (46,48) → (47,48) → (48,49) are also run
in the kernel. -/
namespace ModelWitness
open EspadaVerif.Witness

def flop : List Card := [⟨0, 0⟩, ⟨1, 2⟩, ⟨7, 3⟩]
def ranges : List (List (Combo × Nat)) :=
  [[(⟨⟨2, 0⟩, ⟨2, 1⟩⟩, 2), (⟨⟨0, 1⟩, ⟨1, 1⟩⟩, 3)], [(⟨⟨3, 0⟩, ⟨4, 0⟩⟩, 1), (⟨⟨2, 1⟩, ⟨3, 1⟩⟩, 5)]]
def cuts : List (Nat × Nat) := [(6, 10), (13, 22), (48, 49)]
def smallCuts : List (Nat × Nat) := [(46, 48), (47, 48), (48, 49)]

theorem wf : WfInput flop ranges := ⟨by decide, by decide, by decide, by decide, by decide⟩
theorem vs (a b : Nat × Nat) (h1 : validPos a = true) (h2 : validPos b = true) (h3 : posLe a b = true) :
    ValidScope a b := ⟨h1, h2, h3⟩
theorem scope_mid : ValidScope (6, 10) (13, 22) := vs _ _ (by decide) (by decide) (by decide)
theorem chain_ok : ∀ xy ∈ ((0, 1) :: cuts).zip cuts, ValidScope xy.1 xy.2 := by
  intro xy h
  simp only [cuts, List.zip_cons_cons, List.zip_nil_right, List.mem_cons, List.not_mem_nil, or_false] at h
  rcases h with rfl | rfl | rfl <;> exact vs _ _ (by decide) (by decide) (by decide)
theorem smallChain_ok : ∀ xy ∈ ((46, 47) :: smallCuts).zip smallCuts, ValidScope xy.1 xy.2 := by
  intro xy h
  simp only [smallCuts, List.zip_cons_cons, List.zip_nil_right, List.mem_cons, List.not_mem_nil, or_false] at h
  rcases h with rfl | rfl | rfl <;> exact vs _ _ (by decide) (by decide) (by decide)

/-! #### `C04_scope_ok` and friends -/

/-- a proper scope; from = to; from = to = (48,49); to = (48,49); the default scope — debug and release -/
example (dbg : Bool) : (Evaluator.new (flop.map some ++ [none, none]) ranges).scope 6 10 13 22 dbg
    = .ok (mkEvaluator flop ranges (6, 10) (13, 22)) :=
  C04_scope_ok flop ranges (6, 10) (13, 22) scope_mid dbg
example (dbg : Bool) : (Evaluator.new (flop.map some ++ [none, none]) ranges).scope 6 10 6 10 dbg
    = .ok (mkEvaluator flop ranges (6, 10) (6, 10)) :=
  C04_scope_ok flop ranges (6, 10) (6, 10) (vs _ _ (by decide) (by decide) (by decide)) dbg
example (dbg : Bool) : (Evaluator.new (flop.map some ++ [none, none]) ranges).scope 48 49 48 49 dbg
    = .ok (mkEvaluator flop ranges (48, 49) (48, 49)) :=
  C04_scope_ok flop ranges (48, 49) (48, 49) (vs _ _ (by decide) (by decide) (by decide)) dbg
example (dbg : Bool) : (Evaluator.new (flop.map some ++ [none, none]) ranges).scope 13 22 48 49 dbg
    = .ok (mkEvaluator flop ranges (13, 22) (48, 49)) :=
  C04_scope_ok flop ranges (13, 22) (48, 49) (vs _ _ (by decide) (by decide) (by decide)) dbg
example (dbg : Bool) : (Evaluator.new (flop.map some ++ [none, none]) ranges).scope 0 1 48 49 dbg
    = .ok (Evaluator.new (flop.map some ++ [none, none]) ranges) :=
  C04_scope_ok flop ranges (0, 1) (48, 49) scope_full dbg
/-- the same by evaluating the model of `scope()` (debug build) -/
example : (Evaluator.new (flop.map some ++ [none, none]) ranges).scope 6 10 13 22 true
    = .ok (mkEvaluator flop ranges (6, 10) (13, 22)) := rfl
/-- the hypothesis matters in a debug build only: a backwards scope traps there and is stored in release -/
example : (Evaluator.new (flop.map some ++ [none, none]) ranges).scope 13 22 6 10 true = .panic := rfl
example : (Evaluator.new (flop.map some ++ [none, none]) ranges).scope 13 22 6 10 false
    = .ok (mkEvaluator flop ranges (13, 22) (6, 10)) := C04_scope_release _ 13 22 6 10

/-- the last call wins: first an arbitrary (even ill-formed) scope, then a valid one -/
example (dbg : Bool) : (mkEvaluator flop ranges (40, 3) (2, 1)).scope 6 10 13 22 dbg
    = .ok (mkEvaluator flop ranges (6, 10) (13, 22)) :=
  C04_rescope_last flop ranges (40, 3) (2, 1) (6, 10) (13, 22) scope_mid dbg
example : ∃ e₁, (Evaluator.new (flop.map some ++ [none, none]) ranges).scope 0 1 6 10 true = .ok e₁
    ∧ e₁.scope 6 10 13 22 false = .ok (mkEvaluator flop ranges (6, 10) (13, 22)) :=
  C04_scope_twice flop ranges (0, 1) (6, 10) (6, 10) (13, 22)
    (vs _ _ (by decide) (by decide) (by decide)) scope_mid true false
example : scopeAll true (mkEvaluator flop ranges (0, 1) (48, 49)) [((0, 1), (6, 10)), ((13, 22), (48, 49)), ((6, 10), (13, 22))]
    = .ok (mkEvaluator flop ranges (6, 10) (13, 22)) :=
  C04_scope_many flop ranges true _ ((0, 1), (48, 49)) (by
    intro x hx
    simp only [List.mem_cons, List.not_mem_nil, or_false] at hx
    rcases hx with rfl | rfl | rfl <;> exact vs _ _ (by decide) (by decide) (by decide))

/-! #### `C04_scoped_sublist`, `C04_scoped_rows` -/

theorem C04_scoped_sublist_at_witness :
    (∃ full pre sds post,
        IsDrain natOps (Evaluator.new (flop.map some ++ [none, none]) ranges) full
        ∧ IsDrain natOps (mkEvaluator flop ranges (0, 1) (6, 10)) pre
        ∧ IsDrain natOps (mkEvaluator flop ranges (6, 10) (13, 22)) sds
        ∧ IsDrain natOps (mkEvaluator flop ranges (13, 22) (48, 49)) post)
    ∧ ∀ full pre sds post,
        IsDrain natOps (Evaluator.new (flop.map some ++ [none, none]) ranges) full →
        IsDrain natOps (mkEvaluator flop ranges (0, 1) (6, 10)) pre →
        IsDrain natOps (mkEvaluator flop ranges (6, 10) (13, 22)) sds →
        IsDrain natOps (mkEvaluator flop ranges (13, 22) (48, 49)) post →
        full = pre ++ sds ++ post :=
  C04_scoped_sublist natOps flop ranges (6, 10) (13, 22) wf scope_mid

/-- closed consequence: the scoped drain sits inside the unscoped one at offset `pre.length` -/
example : ∃ full pre sds post : List (Showdown Nat),
    IsDrain natOps (Evaluator.new (flop.map some ++ [none, none]) ranges) full
    ∧ IsDrain natOps (mkEvaluator flop ranges (6, 10) (13, 22)) sds
    ∧ (full.drop pre.length).take sds.length = sds ∧ full.length = pre.length + sds.length + post.length := by
  obtain ⟨⟨full, pre, sds, post, h0, h1, h2, h3⟩, hall⟩ := C04_scoped_sublist_at_witness
  refine ⟨full, pre, sds, post, h0, h2, ?_, ?_⟩
  · rw [hall full pre sds post h0 h1 h2 h3]
    simp
  · rw [hall full pre sds post h0 h1 h2 h3]
    simp only [List.length_append]

example : IsDrain natOps (Evaluator.new (flop.map some ++ [none, none]) ranges)
    (allPositions.flatMap (rowOf natOps flop ranges)) :=
  (C04_scoped_rows natOps flop ranges wf).1

/-! #### `C04_chain_model`, `C04_chain_full`, `C04_chain_exactly_once` -/

theorem C04_chain_model_at_witness :
    (∃ pieces whole, IsChainDrain natOps flop ranges (0, 1) cuts pieces
        ∧ IsDrain natOps (mkEvaluator flop ranges (0, 1) (((0, 1) :: cuts).getLast (by simp))) whole)
    ∧ ∀ pieces whole, IsChainDrain natOps flop ranges (0, 1) cuts pieces →
        IsDrain natOps (mkEvaluator flop ranges (0, 1) (((0, 1) :: cuts).getLast (by simp))) whole →
        pieces.flatten = whole ∧ pieces.length = cuts.length :=
  C04_chain_model natOps flop ranges (0, 1) cuts wf chain_ok

/-- closed form: three workers; their drains `d₁ d₂ d₃` concatenate to the drain of the unscoped evaluator -/
theorem C04_chain_closed (d₁ d₂ d₃ full : List (Showdown Nat))
    (h1 : IsDrain natOps (mkEvaluator flop ranges (0, 1) (6, 10)) d₁)
    (h2 : IsDrain natOps (mkEvaluator flop ranges (6, 10) (13, 22)) d₂)
    (h3 : IsDrain natOps (mkEvaluator flop ranges (13, 22) (48, 49)) d₃)
    (hfull : IsDrain natOps (Evaluator.new (flop.map some ++ [none, none]) ranges) full) :
    d₁ ++ (d₂ ++ d₃) = full := by
  have hp : IsChainDrain natOps flop ranges (0, 1) cuts [d₁, d₂, d₃] :=
    ⟨d₁, _, rfl, h1, d₂, _, rfl, h2, d₃, _, rfl, h3, rfl⟩
  have := (C04_chain_full natOps flop ranges cuts wf chain_ok rfl [d₁, d₂, d₃] full hp hfull).1
  simpa using this

example (pieces : List (List (Showdown Nat))) (full : List (Showdown Nat))
    (hp : IsChainDrain natOps flop ranges (0, 1) cuts pieces)
    (hfull : IsDrain natOps (Evaluator.new (flop.map some ++ [none, none]) ranges) full)
    (i : Nat) (hi : i < full.length) :
    ∃ k j piece, pieces[k]? = some piece ∧ j < piece.length
      ∧ i = (pieces.take k).flatten.length + j ∧ piece[j]? = full[i]?
      ∧ ∀ k' j' piece', pieces[k']? = some piece' → j' < piece'.length →
          i = (pieces.take k').flatten.length + j' → k' = k ∧ j' = j :=
  C04_chain_exactly_once natOps flop ranges cuts wf chain_ok rfl pieces full hp hfull i hi

/-- run the model (kernel): collect `next()` until `None`, with room for 50 showdowns -/
def runDrain (a b : Nat × Nat) : Option (List (Showdown Nat)) :=
  match (mkEvaluator flop ranges a b).intoIter with
  | .ok s =>
    match drainFuel natOps 50 s [] with
    | .ok (l, _) => some l
    | _ => none
  | _ => none

/-- cross-check by running the iterator model itself: three one-position workers (three showdowns each, one
blocked deal skipped per position) against the evaluator scoped to the three positions -/
example : (runDrain (46, 47) (46, 48)).map List.length = some 3
    ∧ (runDrain (46, 48) (47, 48)).map List.length = some 3
    ∧ (runDrain (47, 48) (48, 49)).map List.length = some 3
    ∧ (match runDrain (46, 47) (46, 48), runDrain (46, 48) (47, 48), runDrain (47, 48) (48, 49) with
        | some x, some y, some z => some (x ++ y ++ z)
        | _, _, _ => none) = runDrain (46, 47) (48, 49) := by
  decide +kernel

end ModelWitness

end EspadaVerif.C04
