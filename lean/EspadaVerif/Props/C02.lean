/-
C02 — Flop enumeration yields every legal deal exactly once and nothing else.

The iterator model (`Model/Iter.lean`: `step`, `advance`, `attempt`, `next`, `drainFuel`) is shown to
refine the list comprehension `Spec.deals` (positions in lexicographic order × one entry per player,
last player fastest, filtered by "all 5 + 2n cards distinct"), for every scope `[a, b)`:
C04 and the termination half of C08 are corollaries of the same refinement theorem.
Ranges have any size (indices are unbounded naturals) and may be empty.
-/
import EspadaVerif.Lemmas.IterLoop

/-!
The vocabulary (`WfInput`, `validPos`, `ValidScope`, `mkEvaluator`, `specEntries`, `showdownOfDeal`, all in
namespace `EspadaVerif.C02`) is stated in `Lemmas/IterDefs.lean` and `Lemmas/IterPositions.lean`; the proof
is assembled from `Lemmas/Iter*.lean`:
* `IterPositions` — `positionsBetween` unfolds along the river / turn step of `advance`;
* `IterOdometer`  — the counters walk through `product` (last player fastest);
* `IterDeck`      — the 49-card deck of `into_iter` is `deck49`;
* `IterAttempt`   — one raw position: the flag of `pickLoop`, C03 on the five-card board, legality;
* `IterLoop`      — runs of `step`, fuel of `next`, the drain.
-/

namespace EspadaVerif.C02
open EspadaVerif Spec EspadaVerif.IterLemmas

variable {W : Type}

/-- **C02 / C04 (refinement).** Draining the iterator of a proper input scoped to `[a, b)` returns normally
and yields exactly the showdowns of the legal deals at the positions `a ≤ p < b`, position by position
in lexicographic order, each legal deal once, and nothing else; afterwards `next` keeps returning `None`
without changing the state. -/
theorem C02_refines (ops : WOps W) (flop : List Card) (ranges : List (List (Combo × W))) (a b : Nat × Nat)
    (h : WfInput flop ranges) (hs : ValidScope a b) :
    ∃ s₀ : IterState W, (mkEvaluator flop ranges a b).intoIter = .ok s₀ ∧
    ∃ (sds : List (Showdown W)) (sEnd : IterState W),
      (∀ limit, sds.length < limit → drainFuel ops limit s₀ [] = .ok (sds, sEnd))
      ∧ (deals (flop.map Card.code) (specEntries ranges) a b).map (showdownOfDeal ops flop)
          = sds.map (fun sd => .ok (some sd))
      ∧ next ops sEnd = .ok (none, sEnd) := by
  have hf : WfFlop flop := ⟨h.flop_len, h.flop_nodup, h.flop_valid⟩
  have hr : RWf ranges := h.combos
  refine ⟨_, intoIter_eq flop ranges a b hf, ?_⟩
  by_cases hemp : ∃ es ∈ ranges, es = []
  · -- an empty range: `next` returns `None` at once and there is no deal
    have hdone := step_empty ops flop ranges b a (List.replicate ranges.length 0) hemp
    refine ⟨[], _, ?_, ?_, next_done ops _ hdone⟩
    · intro limit hlim
      have := drain_spec ops _ hdone [] _ [] [] limit (Runs.nil _) (by simp [fuelFor]) rfl hlim
      simpa using this
    · rw [deals_eq, product_eq_nil ranges hemp]
      simp
  · have hne : ∀ es ∈ ranges, es ≠ [] := fun es hes he => hemp ⟨es, hes, he⟩
    have hrun := run_positions ops flop ranges b hf hr hne hs.to_valid (positionsBetween a b) a rfl
      hs.from_valid hs.ordered
    have hdone := step_done ops flop ranges b (List.replicate ranges.length 0)
    have hfuel : ((positionsBetween a b).flatMap fun q => (product ranges).map (outOf ops flop q)).length
        < fuelFor (st flop ranges b b (List.replicate ranges.length 0)) := by
      rw [outs_length]
      have h1 := Nat.mul_le_mul_right (product ranges).length (positionsBetween_length_le a b)
      have h2 := product_length ranges 1
      simp only [fuelFor, st]
      rw [h2]
      generalize (product ranges).length = P at h1 ⊢
      generalize (positionsBetween a b).length * P = Q at h1 ⊢
      omega
    refine ⟨((positionsBetween a b).flatMap fun q => (product ranges).map (outOf ops flop q)).filterMap id,
      _, ?_, ?_, next_done ops _ hdone⟩
    · intro limit hlim
      have := drain_spec ops _ hdone _ _ _ [] limit hrun hfuel rfl hlim
      simpa using this
    · rw [deals_eq]
      exact deals_out_eq ops flop ranges hf hr _ (fun p hp => mem_positionsBetween hp)

/-- every legal deal really produces a showdown (so the list on the left of `C02_refines` has no `none`):
its board is the flop followed by turn and river, its players are the chosen combos in player order,
its probability the product of the chosen weights -/
theorem C02_payload (ops : WOps W) (flop : List Card) (ranges : List (List (Combo × W))) (a b : Nat × Nat)
    (h : WfInput flop ranges) (d : Deal W) (hd : d ∈ deals (flop.map Card.code) (specEntries ranges) a b) :
    ∃ sd : Showdown W, showdownOfDeal ops flop d = .ok (some sd)
      ∧ sd.board = flop ++ [Card.ofCode d.turn, Card.ofCode d.river]
      ∧ sd.players.map (·.hole) = d.choice.map (fun c => (⟨Card.ofCode c.1, Card.ofCode c.2.1⟩ : Combo))
      ∧ sd.prob = d.choice.foldl (fun p c => ops.mul p c.2.2) ops.one
      ∧ (flop ++ [Card.ofCode d.turn, Card.ofCode d.river] ++ sd.players.flatMap (fun p => [p.hole.fst, p.hole.snd])).Nodup := by
  have hf : WfFlop flop := ⟨h.flop_len, h.flop_nodup, h.flop_valid⟩
  have hr : RWf ranges := h.combos
  rw [deals_eq] at hd
  simp only [List.mem_flatMap, List.mem_filter, List.mem_map] at hd
  obtain ⟨p, hp, ⟨ch, hch, rfl⟩, hleg⟩ := hd
  have hchw : ChWf ch := chWf_of_product hr hch
  obtain ⟨sd, h1, h2, h3, h4, h5⟩ := payload_core ops flop p ch hf (mem_positionsBetween hp) hchw hleg
  have e1 : ((dealOf flop p ch).choice.map fun c => (⟨Card.ofCode c.1, Card.ofCode c.2.1⟩ : Combo))
      = ch.map (·.1) := by
    simp only [dealOf, List.map_map]
    apply List.map_congr_left
    intro e he
    obtain ⟨hv1, hv2, _⟩ := hchw e he
    simp only [Function.comp, toSpec, ofCode_code _ hv1, ofCode_code _ hv2]
  have e2 : (dealOf flop p ch).choice.foldl (fun p c => ops.mul p c.2.2) ops.one
      = ch.foldl (fun p c => ops.mul p c.2) ops.one := by
    simp only [dealOf, List.foldl_map, toSpec]
  have e3 : sd.players.flatMap (fun p => [p.hole.fst, p.hole.snd]) = holes ch := by
    have : sd.players.flatMap (fun p => [p.hole.fst, p.hole.snd])
        = (sd.players.map (·.hole)).flatMap (fun c => [c.fst, c.snd]) := by
      rw [List.flatMap_map]
    rw [this, h3, List.flatMap_map]
    rfl
  exact ⟨sd, h1, h2, by rw [h3, e1], by rw [h4, e2], by rw [e3]; exact h5⟩

end EspadaVerif.C02
