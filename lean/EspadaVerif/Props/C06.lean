/-
C06 — Formatting a range and parsing the text back gives the same range.

Weights range over a domain `inDom` (the weights in [0,1]) on which the assumed properties of `f32` text
conversion hold (`TextDefs.WTextOk`): `==` is equality, a weight other than 1 prints in the weight grammar,
print-then-parse is the identity, the empty text is not a number.
-/
import EspadaVerif.Lemmas.TokenFacts
import EspadaVerif.Lemmas.RangeAux
import EspadaVerif.Lemmas.FormatFacts
import EspadaVerif.Lemmas.RankPairFacts
import EspadaVerif.Props.C09

namespace EspadaVerif.C06
open EspadaVerif TextDefs

variable {W : Type}

/-- **C06 (token).** The text of every token that satisfies the parser's own well-formedness conditions (`TokenOk`:
in particular every token the formatter emits and every parsed token) parses back to an equal token. -/
theorem C06_token (wt : WText W) (inDom : W → Prop) (hok : WTextOk wt inDom) (tok : Token W)
    (hk : TokenFacts.TokenOk tok.kind) (hw : inDom tok.prob) :
    parseToken wt (tok.show wt) = .ok tok := by
  sorry

/-- **C06 (range).** For every range whose combos are pairs of distinct cards (in canonical order) with weights in the
domain, the text form parses back to a range with the same combos and the same weights — however the combos group
into complete rank pairs, runs of adjacent rank pairs with equal weight, or leftover single combos. -/
theorem C06_range (wt : WText W) (inDom : W → Prop) (hok : WTextOk wt inDom) (r : HandRange W)
    (hr : ∀ e ∈ r, ComboOk e.1 ∧ inDom e.2) :
    ∃ txt r', showRange wt r = .ok txt ∧ parseRange wt txt = .ok r' ∧ ∀ c, r'.lookup c = r.lookup c := by
  sorry

end EspadaVerif.C06
