import EspadaVerif.Model.Range
namespace EspadaVerif.C06
end EspadaVerif.C06
