/-
C06 — Formatting a range and parsing the text back gives the same range.

Weights range over a domain `inDom` (the weights in [0,1]) on which the assumed properties of `f32` text
conversion hold (`TextDefs.WTextOk`): `==` is equality, a weight other than 1 prints in the weight grammar,
print-then-parse is the identity, the empty text is not a number.
-/
import EspadaVerif.Lemmas.TokenFacts
import EspadaVerif.Lemmas.RangeAux
import EspadaVerif.Lemmas.FormatFacts
import EspadaVerif.Lemmas.RankPairFacts
import EspadaVerif.Lemmas.RoundtripToken
import EspadaVerif.Lemmas.RoundtripRange
import EspadaVerif.Props.C09

namespace EspadaVerif.C06
open EspadaVerif TextDefs

variable {W : Type}

/-- **C06 (token).** The text of every token that satisfies the parser's own well-formedness conditions (`TokenOk`:
in particular every token the formatter emits and every parsed token) parses back to an equal token. -/
theorem C06_token (wt : WText W) (inDom : W → Prop) (hok : WTextOk wt inDom) (tok : Token W)
    (hk : TokenFacts.TokenOk tok.kind) (hw : inDom tok.prob) :
    parseToken wt (tok.show wt) = .ok tok :=
  RoundtripToken.parse_show wt inDom hok tok hk hw

/-- **C06 (range).** For every range whose combos are pairs of distinct cards (in canonical order) with weights in the
domain, the text form parses back to a range with the same combos and the same weights — however the combos group
into complete rank pairs, runs of adjacent rank pairs with equal weight, or leftover single combos. -/
theorem C06_range (wt : WText W) (inDom : W → Prop) (hok : WTextOk wt inDom) (r : HandRange W)
    (hr : ∀ e ∈ r, ComboOk e.1 ∧ inDom e.2) :
    ∃ txt r', showRange wt r = .ok txt ∧ parseRange wt txt = .ok r' ∧ ∀ c, r'.lookup c = r.lookup c := by
  -- the tokens the formatter writes: all well formed, weights in the domain, expansions inside the range
  have hsound := RoundtripRange.toks_sound wt inDom hok r hr
  have hgood : ∀ tok ∈ RoundtripRange.toksOf wt r,
      parseToken wt (tok.show wt) = .ok tok ∧ TokenFacts.TokenOk tok.kind := by
    intro tok ht
    obtain ⟨h1, h2, _⟩ := hsound tok ht
    exact ⟨C06_token wt inDom hok tok h1 h2, h1⟩
  have hclean : ∀ p ∈ (RoundtripRange.toksOf wt r).map (Token.show wt), RoundtripToken.Clean p ∧ p ≠ [] := by
    intro p hp
    obtain ⟨tok, ht, rfl⟩ := List.mem_map.mp hp
    obtain ⟨h1, h2, _⟩ := hsound tok ht
    exact RoundtripToken.clean_show wt inDom hok tok h1 h2
  -- the re-parsed history holds exactly the entries of the expansions of the tokens
  obtain ⟨r', hgo, hmem⟩ := RoundtripRange.go_mem wt (RoundtripRange.toksOf wt r) hgood []
  refine ⟨_, r', FormatFacts.showRange_eq wt r, ?_, ?_⟩
  · exact (RoundtripRange.parseRange_join wt _ hclean).trans hgo
  · apply RoundtripRange.lookup_eq_of
    · intro c w hcw
      rcases (hmem (c, w)).mp hcw with h | ⟨tok, ht, es, hes, he⟩
      · cases h
      · exact (hsound tok ht).2.2 es hes (c, w) he
    · intro c w hl
      obtain ⟨tok, ht, es, w', hes, he⟩ := RoundtripRange.toks_cover wt inDom hok r hr c w hl
      exact ⟨w', (hmem (c, w')).mpr (Or.inr ⟨tok, ht, es, hes, he⟩)⟩

end EspadaVerif.C06
