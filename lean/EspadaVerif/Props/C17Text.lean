/-
C17 (gap F8) — what the text of a range IS.

`C17_runs` speaks of `rowTokens` for an arbitrary table, the link to `showRangeTokens` lives in
`Lemmas/FormatFacts.showRangeTokens_eq`, `C17_order` proves only a `Pairwise` on row numbers.  Here, in Props:

* `C17_text_model` (no hypothesis): the token list of `Display for HandRange` is the run tokens of the pocket row, then for
  each high card A … 3 the run tokens of its suited row and of its offsuit row, then the leftover single-combo tokens —
  rows read from the table `rank_pairs()` returns;
* `C17_text` (weights of a domain on which `==` is equality): the same with ANY table `tbl` that is the TRUE rank-pair
  table of the range (`tbl rp = some w` iff `rp` is canonical and all its combos are present with weight `w` — what
  `C12_report` says of `rank_pairs()`) and ANY leftover range in the sense of `C12_orphans`;
* `C17_no_mergeable_neighbours`: in every row, two consecutive tokens cannot be merged — either the rank pair right below
  the first run is not reported, or the runs touch and their weights differ (`wt.eq = false`);
* reflexivity of `==` is needed only on REPORTED weights and is PROVED there (`reported_self_eq`): a rank pair whose probe
  weight fails `p == p` (NaN) is never reported.  No `∀ a, weq a a` is assumed anywhere.
-/
import EspadaVerif.Props.C17
import EspadaVerif.Props.C12General
import EspadaVerif.Lemmas.RoundtripRange
import EspadaVerif.Props.Witness.Common

set_option Elab.async false

namespace EspadaVerif.C17
open EspadaVerif TextDefs

variable {W : Type}

/-! ### the text, as a function of a rank-pair table and a leftover range -/

/-- the cells of one row of a table: ranks `first … 12` (deuce), the top of the row first -/
def rowOf (tbl : RankPair → Option W) (first : Nat) (mk : Nat → RankPair) : List (Option W) :=
  (List.range' first (13 - first)).map fun k => tbl (mk k)

/-- the maximal runs of a row -/
def rowRunsOf (wt : WText W) (tbl : RankPair → Option W) (first : Nat) (mk : Nat → RankPair) : List (Nat × Nat × W) :=
  Spec.runs wt.eq (rowOf tbl first mk)

/-- one token per maximal run of the row -/
def rowText (wt : WText W) (tbl : RankPair → Option W) (first : Nat) (mk : Nat → RankPair) : List (Token W) :=
  (rowRunsOf wt tbl first mk).map (runToken first mk)

/-- the rank-pair part: the pocket row, then for each high card from ace to trey its suited row and its offsuit row -/
def rankPairText (wt : WText W) (tbl : RankPair → Option W) : List (Token W) :=
  rowText wt tbl 0 .pocket
    ++ (List.range 12).flatMap fun high => rowText wt tbl (high + 1) (.suited high) ++ rowText wt tbl (high + 1) (.ofsuit high)

/-- the leftover part: for every high rank, kicker rank from it down, high suit, kicker suit — the combo, if it is a
leftover, as a single-combo token with its weight -/
def leftoverText (o : HandRange W) : List (Token W) :=
  (List.range 13).flatMap fun high => (List.range' high (13 - high)).flatMap fun kicker =>
    (List.range 4).flatMap fun hs => (List.range 4).flatMap fun ks =>
      match o.lookup (mkPair ⟨high, hs⟩ ⟨kicker, ks⟩) with
      | some p => [(⟨.singleCard (mkPair ⟨high, hs⟩ ⟨kicker, ks⟩), p⟩ : Token W)]
      | none => []

/-- `tbl` is the TRUE rank-pair table of `r`: a rank pair is listed with `w` iff it is canonical and all of its combos
are present with weight `w` (the right-hand side of `C12_report`) -/
def TrueTable (r : HandRange W) (tbl : RankPair → Option W) : Prop :=
  ∀ rp w, tbl rp = some w ↔ (RankPair.canonical rp ∧ ∀ c ∈ rp.combos, r.lookup c = some w)

/-- `o` holds the leftovers of `r` w.r.t. the table: nothing for a combo of a listed rank pair, `r`'s own entry
otherwise (the conclusion of `C12_orphans`) -/
def Leftovers (r : HandRange W) (tbl : RankPair → Option W) (o : HandRange W) : Prop :=
  ∀ c, ((∃ rp w, tbl rp = some w ∧ c ∈ rp.combos) → o.lookup c = none)
     ∧ ((∀ rp w, tbl rp = some w → c ∉ rp.combos) → o.lookup c = r.lookup c)

/-! ### links to the closed forms of `Lemmas/FormatFacts` -/

theorem rowText_eq (wt : WText W) (rps : List (RankPair × W)) (first : Nat) (mk : Nat → RankPair) :
    rowText wt (rpLookup rps) first mk = FormatFacts.rowRuns wt rps first mk := rfl

theorem rankPairText_eq (wt : WText W) (rps : List (RankPair × W)) :
    rankPairText wt (rpLookup rps)
      = FormatFacts.rowRuns wt rps 0 .pocket ++ (List.range' 0 12).flatMap (FormatFacts.highToks wt rps) := by
  unfold rankPairText
  rw [List.range_eq_range']
  rfl

theorem leftoverText_eq (o : HandRange W) : leftoverText o = FormatFacts.orphToks o := rfl

theorem rowOf_get (tbl : RankPair → Option W) (first : Nat) (mk : Nat → RankPair) (j : Nat) :
    (rowOf tbl first mk)[j]? = if j < 13 - first then some (tbl (mk (first + j))) else none := by
  unfold rowOf
  by_cases hj : j < 13 - first
  · rw [List.getElem?_map, List.getElem?_range' hj, if_pos hj]
    simp
  · rw [if_neg hj, List.getElem?_eq_none (by simp; omega)]

theorem rowOf_length (tbl : RankPair → Option W) (first : Nat) (mk : Nat → RankPair) :
    (rowOf tbl first mk).length = 13 - first := by
  simp [rowOf]

/-! ### the text from the model's own table: no hypothesis -/

/-- **C17 (text, model table).** For ANY range and ANY `==`: `rank_pairs()` and `orphan_card_pairs()` return normally and
the tokens of `Display` are the run tokens of the rows of the returned table, in the canonical row order, followed by the
leftover tokens of the returned leftover range; the text is their comma-joined display. -/
theorem C17_text_model (wt : WText W) (r : HandRange W) :
    ∃ l o, rankPairs wt r = .ok l ∧ orphans wt r = .ok o
      ∧ showRangeTokens wt r = .ok (rankPairText wt (rpLookup l) ++ leftoverText o)
      ∧ showRange wt r
          = .ok (joinCommas ((rankPairText wt (rpLookup l) ++ leftoverText o).map (Token.show wt))) := by
  refine ⟨_, _, FormatFacts.rankPairs_eq wt r, FormatFacts.orphans_eq wt r, ?_, ?_⟩
  · rw [FormatFacts.showRangeTokens_eq, rankPairText_eq, leftoverText_eq]
  · rw [FormatFacts.showRange_eq, rankPairText_eq, leftoverText_eq]

/-! ### `==` is reflexive on reported weights -/

/-- **a reported weight equals itself**: the probe combo is one of the rank pair's combos, so the all-combos test
compares the probe's weight with itself; a NaN probe fails it.  No hypothesis on `wt.eq`. -/
theorem reported_self_eq (wt : WText W) (r : HandRange W) (l : List (RankPair × W)) (hl : rankPairs wt r = .ok l)
    (rp : RankPair) (w : W) (h : rpLookup l rp = some w) : wt.eq w w = true := by
  have e : l = RankPairFacts.rpList wt r := Res.ok.inj (hl.symm.trans (RankPairFacts.rankPairs_eq wt r))
  subst e
  have h2 := ((RankPairFacts.rpLookup_rpList wt r rp w).mp h).2
  obtain ⟨hp, hall⟩ := (RankPairFacts.rankPairWeight_eq_some_iff wt r rp _ w).mp h2
  obtain ⟨q, hq, he⟩ := hall _ (RankPairFacts.probeOf_mem rp)
  rw [hp] at hq
  have hqw : w = q := Option.some.inj hq
  rw [← hqw] at he
  exact he

/-- a rank pair whose weight is not `==` to itself (NaN) is never reported, whatever the range -/
theorem nan_never_reported (wt : WText W) (r : HandRange W) (l : List (RankPair × W)) (hl : rankPairs wt r = .ok l)
    (rp : RankPair) (w : W) (hnan : wt.eq w w = false) : rpLookup l rp ≠ some w := by
  intro h
  rw [reported_self_eq wt r l hl rp w h] at hnan
  cases hnan

/-! ### maximal runs with reflexivity on the row's own entries only -/

open Classical in
/-- `C17_runs_maximal` needs `weq a a` only for the weights that occur in the row -/
theorem runs_final_local (weq : W → W → Bool) (row : List (Option W))
    (hrefl : ∀ w, some w ∈ row → weq w w = true) : FormatFacts.RunsFinal weq row (Spec.runs weq row) := by
  let weq' : W → W → Bool := fun a b => weq a b || decide (a = b)
  have hagree : ∀ a b, some a ∈ row → weq a b = weq' a b := by
    intro a b ha
    show weq a b = (weq a b || decide (a = b))
    by_cases hab : a = b
    · subst hab; rw [hrefl a ha]; rfl
    · simp [hab]
  have e : Spec.runs weq row = Spec.runs weq' row := by
    unfold Spec.runs
    exact RoundtripRange.runs_go_congr weq weq' (fun w => some w ∈ row) (fun a b ha _ => hagree a b ha) row 0 none []
      (fun w hw => hw) (by intro c hc; cases hc)
  have hrefl' : ∀ a, weq' a a = true := by
    intro a
    show (weq a a || decide (a = a)) = true
    simp
  obtain ⟨hok, hcov⟩ := FormatFacts.runs_final weq' hrefl' row
  rw [e]
  refine ⟨⟨?_, hok.sorted, ?_⟩, hcov⟩
  · intro run hrun
    obtain ⟨h1, h2, h3⟩ := hok.body run hrun
    refine ⟨h1, h2, fun j hj1 hj2 => ?_⟩
    obtain ⟨w', hw', he⟩ := h3 j hj1 hj2
    exact ⟨w', hw', by rw [hagree w' _ (List.mem_of_getElem? hw')]; exact he⟩
  · intro k a b ha hb hab
    obtain ⟨wb, hwb, he⟩ := hok.sep k a b ha hb hab
    exact ⟨wb, hwb, by rw [hagree wb _ (List.mem_of_getElem? hwb)]; exact he⟩

/-- **C17 (runs are maximal), local reflexivity.** The four clauses of `C17_runs_maximal` for a row on whose own entries
`weq` is reflexive. -/
theorem C17_runs_maximal_local (weq : W → W → Bool) (row : List (Option W))
    (hrefl : ∀ w, some w ∈ row → weq w w = true) :
    let rs := Spec.runs weq row
    (∀ run ∈ rs, 1 ≤ run.2.1 ∧ run.1 + run.2.1 ≤ row.length
        ∧ ∀ i, run.1 ≤ i → i < run.1 + run.2.1 → ∃ w', row[i]? = some (some w') ∧ weq w' run.2.2 = true)
    ∧ (∀ i w', row[i]? = some (some w') → ∃ run ∈ rs, run.1 ≤ i ∧ i < run.1 + run.2.1)
    ∧ List.Pairwise (fun a b => a.1 + a.2.1 ≤ b.1) rs
    ∧ (∀ k, ∀ a b, rs[k]? = some a → rs[k + 1]? = some b → a.1 + a.2.1 = b.1 →
          ∃ wb, row[b.1]? = some (some wb) ∧ weq wb a.2.2 = false) := by
  intro rs
  obtain ⟨hok, hcov⟩ := runs_final_local weq row hrefl
  exact ⟨hok.body, hcov, hok.sorted, hok.sep⟩

/-- the weight of a run is the entry of the row at the run's start (for any `weq`) -/
theorem go_weight (weq : W → W → Bool) (row : List (Option W)) :
    ∀ (rest : List (Option W)) (i : Nat) (cur : Option (Nat × Nat × W)) (acc : List (Nat × Nat × W)),
      (∀ j, rest[j]? = row[i + j]?) →
      (∀ run ∈ acc, row[run.1]? = some (some run.2.2)) →
      (∀ c, cur = some c → row[c.1]? = some (some c.2.2)) →
      ∀ run ∈ Spec.runs.go weq rest i cur acc, row[run.1]? = some (some run.2.2) := by
  intro rest
  induction rest with
  | nil =>
    intro i cur acc _ hacc hcur run hrun
    cases cur with
    | none => exact hacc run hrun
    | some c =>
      simp only [Spec.runs.go] at hrun
      rcases List.mem_append.mp hrun with h | h
      · exact hacc run h
      · have : run = c := by simpa using h
        subst this
        exact hcur _ rfl
  | cons x rest ih =>
    intro i cur acc hrow hacc hcur
    have hx : row[i]? = some x := by simpa using (hrow 0).symm
    have hrow' : ∀ j, rest[j]? = row[i + 1 + j]? := by
      intro j
      have := hrow (j + 1)
      simp only [List.getElem?_cons_succ] at this
      rw [this]; congr 1; omega
    have hsnoc : ∀ c, cur = some c → ∀ run ∈ acc ++ [c], row[run.1]? = some (some run.2.2) := by
      intro c hc run hrun
      rcases List.mem_append.mp hrun with h | h
      · exact hacc run h
      · have : run = c := by simpa using h
        subst this
        exact hcur _ hc
    cases x with
    | none =>
      cases cur with
      | none =>
        simp only [Spec.runs.go]
        exact ih (i + 1) none acc hrow' hacc (by intro c hc; cases hc)
      | some c =>
        simp only [Spec.runs.go]
        exact ih (i + 1) none (acc ++ [c]) hrow' (hsnoc c rfl) (by intro c hc; cases hc)
    | some w =>
      cases cur with
      | none =>
        simp only [Spec.runs.go]
        exact ih (i + 1) (some (i, 1, w)) acc hrow' hacc (by intro c hc; cases hc; exact hx)
      | some c =>
        obtain ⟨s, n, w0⟩ := c
        simp only [Spec.runs.go]
        split
        · exact ih (i + 1) (some (s, n + 1, w0)) acc hrow' hacc (by intro c hc; cases hc; exact hcur (s, n, w0) rfl)
        · exact ih (i + 1) (some (i, 1, w)) (acc ++ [(s, n, w0)]) hrow' (hsnoc _ rfl)
            (by intro c hc; cases hc; exact hx)

theorem runs_weight (weq : W → W → Bool) (row : List (Option W)) :
    ∀ run ∈ Spec.runs weq row, row[run.1]? = some (some run.2.2) := by
  unfold Spec.runs
  exact go_weight weq row row 0 none [] (by simp) (by simp) (by intro c hc; cases hc)

/-- the token of a run carries the run's weight -/
theorem runToken_prob (first : Nat) (mk : Nat → RankPair) (run : Nat × Nat × W) :
    (runToken first mk run).prob = run.2.2 := by
  obtain ⟨s, n, w⟩ := run
  simp only [runToken]
  split
  · rfl
  · split <;> rfl

/-! ### no two neighbouring tokens of a row could be merged -/

/-- the facts about the runs of one row of a table on whose entries `==` is reflexive -/
theorem row_runs_facts (wt : WText W) (tbl : RankPair → Option W) (first : Nat) (mk : Nat → RankPair)
    (hrefl : ∀ rp w, tbl rp = some w → wt.eq w w = true) :
    let rs := rowRunsOf wt tbl first mk
    (∀ run ∈ rs, 1 ≤ run.2.1 ∧ first + run.1 + run.2.1 ≤ 13 ∧ tbl (mk (first + run.1)) = some run.2.2
        ∧ (runToken first mk run).prob = run.2.2
        ∧ ∀ j, run.1 ≤ j → j < run.1 + run.2.1 → ∃ w', tbl (mk (first + j)) = some w' ∧ wt.eq w' run.2.2 = true)
    ∧ (∀ j w', first + j < 13 → tbl (mk (first + j)) = some w' → ∃ run ∈ rs, run.1 ≤ j ∧ j < run.1 + run.2.1)
    ∧ (∀ k a b, rs[k]? = some a → rs[k + 1]? = some b →
        (a.1 + a.2.1 < b.1 ∧ tbl (mk (first + (a.1 + a.2.1))) = none)
        ∨ (a.1 + a.2.1 = b.1 ∧ wt.eq b.2.2 a.2.2 = false)) := by
  intro rs
  have hrs : rs = Spec.runs wt.eq (rowOf tbl first mk) := rfl
  clear_value rs
  subst hrs
  have hrow : ∀ w, some w ∈ rowOf tbl first mk → wt.eq w w = true := by
    intro w hw
    simp only [rowOf, List.mem_map] at hw
    obtain ⟨k, _, hk⟩ := hw
    exact hrefl _ _ hk
  obtain ⟨hbody, hcov, hsorted, hsep⟩ := C17_runs_maximal_local wt.eq (rowOf tbl first mk) hrow
  have hwt := runs_weight wt.eq (rowOf tbl first mk)
  -- reading a cell of the row
  have cell : ∀ j x, (rowOf tbl first mk)[j]? = some x → j < 13 - first ∧ tbl (mk (first + j)) = x := by
    intro j x hj
    rw [rowOf_get] at hj
    split at hj
    · exact ⟨by assumption, Option.some.inj hj⟩
    · cases hj
  refine ⟨?_, ?_, ?_⟩
  · intro run hrun
    obtain ⟨h1, h2, h3⟩ := hbody run hrun
    rw [rowOf_length] at h2
    refine ⟨h1, by omega, (cell _ _ (hwt run hrun)).2, runToken_prob first mk run, fun j hj1 hj2 => ?_⟩
    obtain ⟨w', hw', he⟩ := h3 j hj1 hj2
    exact ⟨w', (cell _ _ hw').2, he⟩
  · intro j w' hj hw'
    apply hcov j w'
    rw [rowOf_get, if_pos (by omega), hw']
  · intro k a b ha hb
    obtain ⟨hka, hka'⟩ := List.getElem?_eq_some_iff.mp ha
    obtain ⟨hkb, hkb'⟩ := List.getElem?_eq_some_iff.mp hb
    have hpw := List.pairwise_iff_getElem.mp hsorted
    have hab : a.1 + a.2.1 ≤ b.1 := by
      have := hpw k (k + 1) hka hkb (by omega)
      rw [hka', hkb'] at this
      exact this
    have ha1 := (hbody a (List.mem_of_getElem? ha)).1
    obtain ⟨hb1, hb2, _⟩ := hbody b (List.mem_of_getElem? hb)
    rw [rowOf_length] at hb2
    rcases Nat.lt_or_eq_of_le hab with hlt | heq
    · left
      refine ⟨hlt, ?_⟩
      cases hx : tbl (mk (first + (a.1 + a.2.1))) with
      | none => rfl
      | some w' =>
        exfalso
        have hget : (rowOf tbl first mk)[a.1 + a.2.1]? = some (some w') := by
          rw [rowOf_get, if_pos (by omega), hx]
        obtain ⟨run, hrun, hr1, hr2⟩ := hcov _ _ hget
        obtain ⟨j, hj, hjr⟩ := List.getElem_of_mem hrun
        have hrun1 := (hbody run hrun).1
        rcases Nat.lt_trichotomy j k with hjk | hjk | hjk
        · have := hpw j k hj hka hjk
          rw [hjr, hka'] at this
          omega
        · subst hjk
          rw [hka'] at hjr
          subst hjr
          omega
        · rcases Nat.lt_or_eq_of_le (Nat.succ_le_of_lt hjk) with hjk' | hjk'
          · have := hpw (k + 1) j hkb hj hjk'
            rw [hjr, hkb'] at this
            omega
          · have hjk'' : k + 1 = j := hjk'
            subst hjk''
            rw [hkb'] at hjr
            subst hjr
            omega
    · right
      refine ⟨heq, ?_⟩
      obtain ⟨wb, hwb, he⟩ := hsep k a b ha hb heq
      have := hwt b (List.mem_of_getElem? hb)
      rw [hwb] at this
      rw [← Option.some.inj (Option.some.inj this)]
      exact he

/-- **C17 (no mergeable neighbours).** For ANY range and ANY `==`, in every row of the table `rank_pairs()` returns
(pockets: `first = 0`, `mk = .pocket`; under the high card `h`: `first = h + 1`, `mk = .suited h` / `.ofsuit h`):
the state machine writes one token per run `(start, length, weight)`; each run is a non-empty stretch of reported rank
pairs `mk (first + start) …`, all `==` to the run's weight, which is the weight of the run's first rank pair and the
weight of its token; every reported rank pair of the row is in a run; and for two CONSECUTIVE tokens either the rank pair
right below the first run is not reported (the runs do not touch) or the runs touch and the second weight is not `==` to
the first.  So no two emitted rank-pair tokens of a row could be merged. -/
theorem C17_no_mergeable_neighbours (wt : WText W) (r : HandRange W) (l : List (RankPair × W))
    (hl : rankPairs wt r = .ok l) (first : Nat) (hf : first ≤ 12) (mk : Nat → RankPair) :
    let rs := rowRunsOf wt (rpLookup l) first mk
    rowTokens wt l first 12 mk (List.range' first (13 - first)) = .ok (rs.map (runToken first mk))
    ∧ (∀ run ∈ rs, 1 ≤ run.2.1 ∧ first + run.1 + run.2.1 ≤ 13 ∧ rpLookup l (mk (first + run.1)) = some run.2.2
        ∧ (runToken first mk run).prob = run.2.2
        ∧ ∀ j, run.1 ≤ j → j < run.1 + run.2.1 →
            ∃ w', rpLookup l (mk (first + j)) = some w' ∧ wt.eq w' run.2.2 = true)
    ∧ (∀ j w', first + j < 13 → rpLookup l (mk (first + j)) = some w' →
        ∃ run ∈ rs, run.1 ≤ j ∧ j < run.1 + run.2.1)
    ∧ (∀ k a b, rs[k]? = some a → rs[k + 1]? = some b →
        (a.1 + a.2.1 < b.1 ∧ rpLookup l (mk (first + (a.1 + a.2.1))) = none)
        ∨ (a.1 + a.2.1 = b.1 ∧ wt.eq b.2.2 a.2.2 = false)) := by
  intro rs
  exact ⟨C17_runs wt l first hf mk, row_runs_facts wt (rpLookup l) first mk (reported_self_eq wt r l hl)⟩

/-- the same, read off the token list: consecutive tokens `ta`, `tb` of a row come from consecutive runs -/
theorem C17_no_mergeable_tokens (wt : WText W) (r : HandRange W) (l : List (RankPair × W))
    (hl : rankPairs wt r = .ok l) (first : Nat) (hf : first ≤ 12) (mk : Nat → RankPair) :
    ∃ toks, rowTokens wt l first 12 mk (List.range' first (13 - first)) = .ok toks ∧
      ∀ k ta tb, toks[k]? = some ta → toks[k + 1]? = some tb →
        ∃ a b : Nat × Nat × W, ta = runToken first mk a ∧ tb = runToken first mk b ∧ ta.prob = a.2.2 ∧ tb.prob = b.2.2
          ∧ ((a.1 + a.2.1 < b.1 ∧ rpLookup l (mk (first + (a.1 + a.2.1))) = none)
              ∨ (a.1 + a.2.1 = b.1 ∧ wt.eq tb.prob ta.prob = false)) := by
  obtain ⟨h1, _, _, h4⟩ := C17_no_mergeable_neighbours wt r l hl first hf mk
  refine ⟨_, h1, fun k ta tb hta htb => ?_⟩
  rw [List.getElem?_map] at hta htb
  cases ha : (rowRunsOf wt (rpLookup l) first mk)[k]? with
  | none => rw [ha] at hta; cases hta
  | some a =>
    cases hb : (rowRunsOf wt (rpLookup l) first mk)[k + 1]? with
    | none => rw [hb] at htb; cases htb
    | some b =>
      rw [ha] at hta; rw [hb] at htb
      have hta' : ta = runToken first mk a := (Option.some.inj hta).symm
      have htb' : tb = runToken first mk b := (Option.some.inj htb).symm
      have pa : ta.prob = a.2.2 := by rw [hta']; exact runToken_prob first mk a
      have pb : tb.prob = b.2.2 := by rw [htb']; exact runToken_prob first mk b
      refine ⟨a, b, hta', htb', pa, pb, ?_⟩
      rcases h4 k a b ha hb with h | h
      · exact Or.inl h
      · exact Or.inr ⟨h.1, by rw [pa, pb]; exact h.2⟩

/-! ### the text from the TRUE table -/

/-- two tables that satisfy the same specification are the same function -/
theorem trueTable_unique (r : HandRange W) (t₁ t₂ : RankPair → Option W) (h₁ : TrueTable r t₁) (h₂ : TrueTable r t₂) :
    t₁ = t₂ := by
  funext rp
  apply Option.ext
  intro w
  rw [h₁ rp w, h₂ rp w]

open Classical in
/-- two leftover ranges for the same table answer every lookup alike -/
theorem leftovers_unique (r : HandRange W) (tbl : RankPair → Option W) (o₁ o₂ : HandRange W)
    (h₁ : Leftovers r tbl o₁) (h₂ : Leftovers r tbl o₂) : ∀ c, o₁.lookup c = o₂.lookup c := by
  intro c
  by_cases h : ∃ rp w, tbl rp = some w ∧ c ∈ rp.combos
  · rw [(h₁ c).1 h, (h₂ c).1 h]
  · have h' : ∀ rp w, tbl rp = some w → c ∉ rp.combos := fun rp w h1 h2 => h ⟨rp, w, h1, h2⟩
    rw [(h₁ c).2 h', (h₂ c).2 h']

/-- for weights of a domain on which `==` is equality, the table `rank_pairs()` returns is the true table and
`orphan_card_pairs()` the leftovers (C12) -/
theorem model_views_true (wt : WText W) (inDom : W → Prop)
    (heq : ∀ a b, inDom a → inDom b → (wt.eq a b = true ↔ a = b)) (r : HandRange W)
    (hr : ∀ c w, r.lookup c = some w → inDom w) :
    ∃ l o, rankPairs wt r = .ok l ∧ orphans wt r = .ok o ∧ TrueTable r (rpLookup l) ∧ Leftovers r (rpLookup l) o := by
  obtain ⟨l, hl, hrep⟩ := C12.C12_report_contents wt inDom heq r hr
  obtain ⟨l', o, hl', ho, horph⟩ := C12.C12_orphans_contents wt r
  have : l' = l := Res.ok.inj (hl'.symm.trans hl)
  subst this
  exact ⟨l', o, hl, ho, hrep, horph⟩

/-- **C17 (text).** For weights of a domain on which `==` is equality (hypothesis on the range's CONTENTS): whatever
table `tbl` is the true rank-pair table of `r` and whatever range `o` holds its leftovers, the tokens of `Display` are

  run tokens of the pocket row ++ (for high = A … 3: run tokens of the suited row ++ run tokens of the offsuit row)
  ++ leftover tokens,

each row's tokens being the run tokens (`runToken`) of `Spec.runs wt.eq` applied to that row of `tbl`; and the text is
their comma-joined display. -/
theorem C17_text (wt : WText W) (inDom : W → Prop)
    (heq : ∀ a b, inDom a → inDom b → (wt.eq a b = true ↔ a = b)) (r : HandRange W)
    (hr : ∀ c w, r.lookup c = some w → inDom w)
    (tbl : RankPair → Option W) (htbl : TrueTable r tbl) (o : HandRange W) (ho : Leftovers r tbl o) :
    showRangeTokens wt r = .ok (rankPairText wt tbl ++ leftoverText o)
    ∧ showRange wt r = .ok (joinCommas ((rankPairText wt tbl ++ leftoverText o).map (Token.show wt))) := by
  obtain ⟨l, o', hl, ho', htrue, hleft⟩ := model_views_true wt inDom heq r hr
  obtain ⟨l₂, o₂, hl₂, ho₂, h1, h2⟩ := C17_text_model wt r
  have e1 : l₂ = l := Res.ok.inj (hl₂.symm.trans hl)
  have e2 : o₂ = o' := Res.ok.inj (ho₂.symm.trans ho')
  subst e1 e2
  have et : tbl = rpLookup l₂ := trueTable_unique r _ _ htbl htrue
  subst et
  have eo : leftoverText o = leftoverText o₂ := by
    rw [leftoverText_eq, leftoverText_eq]
    exact FormatFacts.orphToks_congr _ _ (leftovers_unique r _ o o₂ ho hleft)
  rw [eo]
  exact ⟨h1, h2⟩

/-- a true table and a leftover range exist (they are what the crate's two views return), so `C17_text` is not vacuous -/
theorem C17_text_exists (wt : WText W) (inDom : W → Prop)
    (heq : ∀ a b, inDom a → inDom b → (wt.eq a b = true ↔ a = b)) (r : HandRange W)
    (hr : ∀ c w, r.lookup c = some w → inDom w) :
    ∃ tbl o, TrueTable r tbl ∧ Leftovers r tbl o
      ∧ showRangeTokens wt r = .ok (rankPairText wt tbl ++ leftoverText o) := by
  obtain ⟨l, o, _, _, h1, h2⟩ := model_views_true wt inDom heq r hr
  exact ⟨rpLookup l, o, h1, h2, (C17_text wt inDom heq r hr _ h1 o h2).1⟩

/-- on the true table too, consecutive tokens of a row cannot be merged; here "not `==`" is "different" -/
theorem C17_no_mergeable_neighbours_true (wt : WText W) (inDom : W → Prop)
    (heq : ∀ a b, inDom a → inDom b → (wt.eq a b = true ↔ a = b)) (r : HandRange W)
    (hr : ∀ c w, r.lookup c = some w → inDom w)
    (tbl : RankPair → Option W) (htbl : TrueTable r tbl) (first : Nat) (mk : Nat → RankPair) :
    let rs := rowRunsOf wt tbl first mk
    (∀ run ∈ rs, 1 ≤ run.2.1 ∧ first + run.1 + run.2.1 ≤ 13
        ∧ ∀ j, run.1 ≤ j → j < run.1 + run.2.1 → tbl (mk (first + j)) = some run.2.2)
    ∧ (∀ j w', first + j < 13 → tbl (mk (first + j)) = some w' → ∃ run ∈ rs, run.1 ≤ j ∧ j < run.1 + run.2.1)
    ∧ (∀ k a b, rs[k]? = some a → rs[k + 1]? = some b →
        (a.1 + a.2.1 < b.1 ∧ tbl (mk (first + (a.1 + a.2.1))) = none)
        ∨ (a.1 + a.2.1 = b.1 ∧ b.2.2 ≠ a.2.2)) := by
  intro rs
  -- weights of the table are weights of the range
  have hdom : ∀ rp w, tbl rp = some w → inDom w := by
    intro rp w h
    obtain ⟨_, hall⟩ := (htbl rp w).mp h
    exact hr _ _ (hall _ (RankPairFacts.probeOf_mem rp))
  have hrefl : ∀ rp w, tbl rp = some w → wt.eq w w = true :=
    fun rp w h => (heq w w (hdom rp w h) (hdom rp w h)).mpr rfl
  obtain ⟨f1, f2, f3⟩ := row_runs_facts wt tbl first mk hrefl
  refine ⟨?_, f2, ?_⟩
  · intro run hrun
    obtain ⟨g1, g2, g3, _, g5⟩ := f1 run hrun
    refine ⟨g1, g2, fun j hj1 hj2 => ?_⟩
    obtain ⟨w', hw', he⟩ := g5 j hj1 hj2
    rw [hw', (heq w' _ (hdom _ _ hw') (hdom _ _ g3)).mp he]
  · intro k a b ha hb
    rcases f3 k a b ha hb with h | ⟨h1, h2⟩
    · exact Or.inl h
    · refine Or.inr ⟨h1, fun e => ?_⟩
      have hbdom := hdom _ _ (f1 b (List.mem_of_getElem? hb)).2.2.1
      rw [e, (heq _ _ (e ▸ hbdom) (e ▸ hbdom)).mpr rfl] at h2
      cases h2

/-! ### at concrete data -/

open EspadaVerif.Witness

/-- the history of `7d7c:0.5,AQs,AKs,KK:0.5,AA:0.5,QQ` plus an overwritten insert: pockets AA, KK at 0.5 and QQ at 1
(a `KK+:0.5` run then a touching run of a different weight), suited AK, AQ at 1 (an `AQs+` run), a lone leftover -/
def rW : HandRange Wt :=
  (RankPair.pocket 2).combos.map (fun c => (c, Wt.one))
  ++ (RankPair.pocket 0).combos.map (fun c => (c, Wt.half))
  ++ (RankPair.pocket 1).combos.map (fun c => (c, Wt.half))
  ++ (RankPair.suited 0 1).combos.map (fun c => (c, Wt.one))
  ++ (RankPair.suited 0 2).combos.map (fun c => (c, Wt.one))
  ++ [(⟨⟨7, 2⟩, ⟨7, 3⟩⟩, Wt.half), (⟨⟨2, 0⟩, ⟨2, 1⟩⟩, Wt.two)]

theorem rW_dom : ∀ c w, rW.lookup c = some w → wtDom w := by
  intro c w h
  rw [← C12.lookup_contents] at h
  have hm := RankPairFacts.lookup_mem h
  have hall : ∀ e ∈ HandRange.contents rW, wtDom e.2 := by
    intro e he
    have h1 : e ∈ rW := RangeAux.mem_contents rW e he
    have h2 := C12.lookup_of_mem_contents rW e he
    -- the only out-of-domain insert is overwritten: its key answers `one`
    by_cases hk : e.2 = Wt.two
    · exfalso
      have h3 : ∀ e' ∈ rW, e'.2 = Wt.two → rW.lookup e'.1 = some Wt.one := by decide +kernel
      rw [h3 e h1 hk, hk] at h2
      cases h2
    · exact hk
  exact hall _ hm

/-- `C17_text_exists` at the witness -/
example : ∃ tbl o, TrueTable rW tbl ∧ Leftovers rW tbl o
    ∧ showRangeTokens wtText rW = .ok (rankPairText wtText tbl ++ leftoverText o) :=
  C17_text_exists wtText wtDom wtextOk.eq_iff rW rW_dom

/-- the rows of an explicit table, by evaluation: `KK+:0.5` then the touching `QQ` (weight 1: not mergeable), `AQs+` -/
example : rankPairText wtText (fun rp => match rp with
      | .pocket 0 => some .half | .pocket 1 => some .half | .pocket 2 => some .one
      | .suited 0 1 => some .one | .suited 0 2 => some .one | _ => none)
    = [⟨.bottomClosed (.pocket 1), .half⟩, ⟨.singleRank (.pocket 2), .one⟩, ⟨.bottomClosed (.suited 0 2), .one⟩] := by
  decide +kernel

/-- and the model's formatter on the witness range gives exactly these tokens followed by the leftover 7♦7♣ (twice:
the leftover pass meets a pocket combo under both suit orders) -/
example : showRangeTokens wtText rW
    = .ok [⟨.bottomClosed (.pocket 1), .half⟩, ⟨.singleRank (.pocket 2), .one⟩, ⟨.bottomClosed (.suited 0 2), .one⟩,
           ⟨.singleCard ⟨⟨7, 2⟩, ⟨7, 3⟩⟩, .half⟩, ⟨.singleCard ⟨⟨7, 2⟩, ⟨7, 3⟩⟩, .half⟩] := by
  decide +kernel

/-- `C17_no_mergeable_neighbours` at the pocket row of the witness -/
example : ∃ l, rankPairs wtText rW = .ok l ∧
    ∀ k a b, (rowRunsOf wtText (rpLookup l) 0 .pocket)[k]? = some a → (rowRunsOf wtText (rpLookup l) 0 .pocket)[k + 1]? = some b →
      (a.1 + a.2.1 < b.1 ∧ rpLookup l (.pocket (0 + (a.1 + a.2.1))) = none)
      ∨ (a.1 + a.2.1 = b.1 ∧ wtText.eq b.2.2 a.2.2 = false) := by
  obtain ⟨l, _, hl, _, _, _⟩ := C17_text_model wtText rW
  exact ⟨l, hl, (C17_no_mergeable_neighbours wtText rW l hl 0 (by omega) .pocket).2.2.2⟩

/-- reflexivity is a theorem about reported weights only: with a NaN-like `==` (`Option Nat`, `none ≠ none`) a rank pair
all of whose combos carry NaN is NOT reported -/
example : ∃ l, rankPairs C12.fwText ((RankPair.pocket 0).combos.map fun c => (c, (none : Option Nat))) = .ok l
    ∧ rpLookup l (.pocket 0) = none := by
  obtain ⟨l, _, hl, _, _, _⟩ := C17_text_model C12.fwText ((RankPair.pocket 0).combos.map fun c => (c, (none : Option Nat)))
  refine ⟨l, hl, ?_⟩
  cases h : rpLookup l (.pocket 0) with
  | none => rfl
  | some w =>
    exfalso
    have hself := reported_self_eq _ _ l hl _ w h
    have e : l = RankPairFacts.rpList _ _ := Res.ok.inj (hl.symm.trans (RankPairFacts.rankPairs_eq _ _))
    subst e
    have h2 := ((RankPairFacts.rpLookup_rpList _ _ _ w).mp h).2
    obtain ⟨hp, _⟩ := (RankPairFacts.rankPairWeight_eq_some_iff _ _ _ _ w).mp h2
    have : w = none := by
      have e2 : HandRange.lookup ((RankPair.pocket 0).combos.map fun c => (c, (none : Option Nat)))
          (RankPairFacts.probeOf (.pocket 0)) = some none := by decide
      rw [e2] at hp
      exact (Option.some.inj hp).symm
    subst this
    cases hself

end EspadaVerif.C17
