/-
C14 — A hole-card pair is an unordered pair with one canonical form.
-/
import EspadaVerif.Props.C13

namespace EspadaVerif.C14
open EspadaVerif Gen

/-- on the current source `CardPair::new` is "swap when left > right" -/
theorem mkPair_eq (l r : Card) : mkPair l r = if Card.gt l r then ⟨r, l⟩ else ⟨l, r⟩ := by
  have h : pairNewOp = 0 ∧ pairNewThen = (1, 0) ∧ pairNewElse = (0, 1) := by decide
  simp [mkPair, cmpOp, h.1, h.2.1, h.2.2]

/-! the derived card order is a strict total order -/
theorem lt_asymm (a b : Card) (h : Card.lt a b = true) : Card.lt b a = false := by
  simp [Card.lt] at *; omega

theorem lt_total (a b : Card) (h : a ≠ b) : Card.lt a b = true ∨ Card.lt b a = true := by
  obtain ⟨ra, sa⟩ := a; obtain ⟨rb, sb⟩ := b
  simp [Card.lt] at *; omega

/-- building a pair from two different cards in either order gives equal values, whose first
element is the card that orders first -/
theorem pair_canonical (a b : Card) (h : a ≠ b) :
    mkPair a b = mkPair b a ∧ Card.lt (mkPair a b).fst (mkPair a b).snd = true
    ∧ ((mkPair a b).fst = a ∧ (mkPair a b).snd = b ∨ (mkPair a b).fst = b ∧ (mkPair a b).snd = a) := by
  rw [mkPair_eq, mkPair_eq]
  simp only [Card.gt]
  rcases lt_total a b h with h1 | h1
  · have h2 := lt_asymm a b h1
    simp [h1, h2]
  · have h2 := lt_asymm b a h1
    simp [h1, h2]

/-- `CardPair` derives `PartialEq, Eq, Hash` on the stored (normalised) tuple: equal pairs have equal
fields, so a derived hash — a function of the fields — is equal too. -/
theorem pair_eq_hash : "Eq" ∈ pairDerives ∧ "PartialEq" ∈ pairDerives ∧ "Hash" ∈ pairDerives := by decide

theorem equal_pairs_equal_hash {H : Type} (hash : Card → Card → H) (a b : Card) (h : a ≠ b) :
    hash (mkPair a b).fst (mkPair a b).snd = hash (mkPair b a).fst (mkPair b a).snd := by
  rw [(pair_canonical a b h).1]

/-! #### text -/

theorem parsePair_four (b₁ b₂ b₃ b₄ : Nat) (h₁ : b₁ < 128) (h₂ : b₂ < 128) (h₃ : b₃ < 128) (h₄ : b₄ < 128) :
    parsePair [b₁, b₂, b₃, b₄] = pairOfRes (parseCard [b₁, b₂]) (parseCard [b₃, b₄]) := by
  have c2 : isCont b₃ = false := by simp [isCont]; omega
  simp [parsePair, isAscii, slice, isBoundary, h₁, h₂, h₃, h₄, c2]

/-- a pair's text parses back to the same pair, and both card orders of a text parse equal -/
theorem pair_text (a b : Card) (ha : a.valid = true) (hb : b.valid = true) (h : a ≠ b) :
    parsePair (showPair (mkPair a b)) = .ok (mkPair a b)
    ∧ parsePair (showCard a ++ showCard b) = .ok (mkPair a b)
    ∧ parsePair (showCard b ++ showCard a) = .ok (mkPair a b) := by
  have key : ∀ x y : Card, x.valid = true → y.valid = true →
      parsePair (showCard x ++ showCard y) = .ok (mkPair x y) := by
    intro x y hx hy
    have tx := C13.card_text_roundtrip x hx
    have ty := C13.card_text_roundtrip y hy
    have rx := (C13.rank_text x.rank (by simp [Card.valid] at hx; omega)).2
    have sx := (C13.suit_text x.suit (by simp [Card.valid] at hx; omega)).2
    have ry := (C13.rank_text y.rank (by simp [Card.valid] at hy; omega)).2
    have sy := (C13.suit_text y.suit (by simp [Card.valid] at hy; omega)).2
    have e : showCard x ++ showCard y = [rankChar x.rank, suitChar x.suit, rankChar y.rank, suitChar y.suit] := rfl
    rw [e, parsePair_four _ _ _ _ rx sx ry sy]
    have e1 : parseCard [rankChar x.rank, suitChar x.suit] = .ok x := tx.1
    have e2 : parseCard [rankChar y.rank, suitChar y.suit] = .ok y := ty.1
    rw [e1, e2]; rfl
  obtain ⟨hsym, _, hcase⟩ := pair_canonical a b h
  refine ⟨?_, key a b ha hb, by rw [hsym]; exact key b a hb ha⟩
  rcases hcase with ⟨h1, h2⟩ | ⟨h1, h2⟩
  · have : showPair (mkPair a b) = showCard a ++ showCard b := by simp [showPair, h1, h2]
    rw [this]; exact key a b ha hb
  · have : showPair (mkPair a b) = showCard b ++ showCard a := by simp [showPair, h1, h2]
    rw [this, hsym]; exact key b a hb ha

/-- non-vacuity: A♠ K♣ in both orders -/
example : mkPair ⟨0, 0⟩ ⟨1, 3⟩ = mkPair ⟨1, 3⟩ ⟨0, 0⟩ ∧ showPair (mkPair ⟨1, 3⟩ ⟨0, 0⟩) = [65, 115, 75, 99] := by decide

end EspadaVerif.C14
