/-
C01 — 7-card evaluation equals the true strength class of the best five-card hand.

`eval7` is the executable model of `MadeHand::from([Card; 7]).power_index()` over the tables
regenerated from the Rust source; `Spec.best` is the smallest standard class among the 21 five-card
hands contained in the seven cards.  The proof combines

* the kernel obligations K1/K2 (`Kernel.flush_all`, `Kernel.rainbow_all`): every reachable slot of the
  two lookup tables holds the best class of its rank pattern,
* permutation invariance of model and specification (`Lemmas.eval7_perm`, `Lemmas.best_perm`),
* the factorisation of the best hand into "best flush" and "best unsuited" parts.
-/
import EspadaVerif.Kernel.Assemble
import EspadaVerif.Lemmas.ListAux
import EspadaVerif.Lemmas.EvalModel

namespace EspadaVerif.C01
open EspadaVerif Spec Kernel Lemmas

/-- a model card as the specification sees it: (rank code, suit) -/
def toSpec (c : Card) : Nat × Nat := (c.rank, c.suit)

theorem rainbowOK_spec {R : List Nat} (h : rainbowOK R = true) (h5 : fiveEq R = false) :
    ∃ hh, hashRanks R = .ok hh ∧ asRainbow hh = .ok (nf7 R) ∧ (ascents R < 4 ∨ 1600 ≤ nf7 R) := by
  unfold rainbowOK at h
  rw [h5, Bool.false_or] at h
  split at h
  · rename_i hh e1
    split at h
    · rename_i v e2
      simp only [Bool.and_eq_true, beq_iff_eq, Bool.or_eq_true, decide_eq_true_eq] at h
      refine ⟨hh, e1, ?_, ?_⟩
      · rw [e2, h.1]
      · rw [← h.1]; exact h.2
    · exact absurd h (by decide)
  · exact absurd h (by decide)

theorem flushOK_spec {F : List Nat} (h : flushOK F = true) :
    asFlush (flushHash F) = .ok (fl7 F) ∧ fl7 F ≤ 1599 := by
  unfold flushOK at h
  split at h
  · rename_i v e
    simp only [Bool.and_eq_true, beq_iff_eq, decide_eq_true_eq] at h
    exact ⟨by rw [e, h.1], by rw [← h.1]; exact h.2⟩
  · exact absurd h (by decide)

theorem countP_disjoint_le {α : Type} (p q : α → Bool) (l : List α) (hd : ∀ x, ¬ (p x = true ∧ q x = true)) :
    l.countP p + l.countP q ≤ l.length := by
  induction l with
  | nil => simp
  | cons x xs ih =>
    have := hd x
    simp only [List.countP_cons, List.length_cons]
    cases hp : p x <;> cases hq : q x <;> simp_all <;> omega

/-- all five cards of a sublist carry the suit of the filter -/
theorem map_toSpec_fst (l : List Card) : (l.map toSpec).map (·.1) = l.map (·.rank) := by
  simp [toSpec, List.map_map, Function.comp_def]

theorem allSameSuit_of_all {l : List Card} {s : Nat} (h : l.all (fun c => c.suit == s) = true) :
    allSameSuit (l.map toSpec) = true := by
  rw [allSameSuit_iff]
  simp only [List.all_eq_true, beq_iff_eq] at h
  intro x hx y hy
  simp only [List.mem_map, toSpec] at hx hy
  obtain ⟨c, hc, rfl⟩ := hx
  obtain ⟨d, hd, rfl⟩ := hy
  simp [h c hc, h d hd]

/-- five cards of one suit inside `cs` : that suit occurs at least five times in `cs` -/
theorem five_of_suit {cs S₀ : List Card} (hsub : S₀.Sublist cs) (hl : S₀.length = 5)
    (hall : allSameSuit (S₀.map toSpec) = true) :
    ∃ t, S₀.all (fun c => c.suit == t) = true ∧ 5 ≤ cs.countP (fun c => c.suit == t) := by
  match S₀, hl with
  | c₀ :: rest, hl =>
    refine ⟨c₀.suit, ?_, ?_⟩
    · rw [allSameSuit_iff] at hall
      simp only [List.all_eq_true, beq_iff_eq]
      intro c hc
      have := hall (toSpec c) (List.mem_map_of_mem hc) (toSpec c₀) (List.mem_map_of_mem (List.mem_cons_self))
      simpa [toSpec] using this
    · have hall' : (c₀ :: rest).all (fun c => c.suit == c₀.suit) = true := by
        rw [allSameSuit_iff] at hall
        simp only [List.all_eq_true, beq_iff_eq]
        intro c hc
        have := hall (toSpec c) (List.mem_map_of_mem hc) (toSpec c₀) (List.mem_map_of_mem (List.mem_cons_self))
        simpa [toSpec] using this
      have h1 : (c₀ :: rest).countP (fun c => c.suit == c₀.suit) = (c₀ :: rest).length := by
        rw [List.countP_eq_length]
        intro c hc
        exact List.all_eq_true.mp hall' c hc
      have h2 := hsub.countP_le (p := fun c => c.suit == c₀.suit)
      omega

theorem C01_eval_sorted (cs : List Card) (hlen : cs.length = 7) (hnd : cs.Nodup)
    (hv : ∀ c ∈ cs, c.valid = true) (hsorted : (cs.map (·.rank)).Pairwise (· ≤ ·)) :
    eval7 cs = .ok (best (cs.map toSpec)) := by
  -- the rank list and what the kernel obligation K2 says about it
  have hRl : (cs.map (·.rank)).length = 7 := by simp [hlen]
  have hRb : ∀ r ∈ cs.map (·.rank), r < 13 := by
    intro r hr
    obtain ⟨c, hc, rfl⟩ := List.mem_map.mp hr
    have := hv c hc
    simp [Card.valid] at this; omega
  have hR4 := count_rank_le_four cs hnd hv
  have hK2 := rainbowOK_spec (rainbow_all _ hRl hsorted hRb) (fiveEq_false hRl hsorted hR4)
  obtain ⟨hh, hhash, htbl, hdom⟩ := hK2
  -- class of a five-card sub-hand of the (rank-sorted) cards
  have hclass : ∀ S₀ ∈ choose 5 cs, class5 (S₀.map toSpec) =
      if allSameSuit (S₀.map toSpec) then sclassL (S₀.map (·.rank)) else uclassL (S₀.map (·.rank)) := by
    intro S₀ hS
    obtain ⟨hsub, hl⟩ := sublist_of_mem_choose hS
    have := class5_of_sorted (S₀.map toSpec) (by simp [hl])
      (by rw [map_toSpec_fst]; exact hsorted.sublist (hsub.map _))
    rw [this, map_toSpec_fst]
  have hbest : best (cs.map toSpec) = minList ((choose 5 cs).map (fun S₀ => class5 (S₀.map toSpec))) := by
    simp [best, choose_map, List.map_map, Function.comp_def]
  have hnfmem : ∀ S₀ ∈ choose 5 cs, nf7 (cs.map (·.rank)) ≤ uclassL (S₀.map (·.rank)) := by
    intro S₀ hS
    unfold nf7
    apply minList_le_of_mem
    rw [choose_map]
    simp only [List.map_map, List.mem_map, Function.comp_def]
    exact ⟨S₀, hS, rfl⟩
  rcases findFlushSuit_spec cs hv (by omega) with ⟨s, _, h5, hff⟩ | ⟨hno, hff⟩
  · -- a flush suit exists
    have hF : (cs.filter (fun c => c.suit == s)).length = cs.countP (fun c => c.suit == s) := by
      rw [List.countP_eq_length_filter]
    have hFsub : (cs.filter (fun c => c.suit == s)).Sublist cs := List.filter_sublist
    have hFRl5 : 5 ≤ ((cs.filter (fun c => c.suit == s)).map (·.rank)).length := by simp [hF]; exact h5
    have hFRl7 : ((cs.filter (fun c => c.suit == s)).map (·.rank)).length ≤ 7 := by
      simp only [List.length_map]; have := hFsub.length_le; omega
    have hFRle : ((cs.filter (fun c => c.suit == s)).map (·.rank)).Pairwise (· ≤ ·) :=
      hsorted.sublist (hFsub.map _)
    have hFRnd : ((cs.filter (fun c => c.suit == s)).map (·.rank)).Nodup := by
      rw [List.Nodup, List.pairwise_map]
      refine (hnd.sublist hFsub).imp_of_mem ?_
      intro x y hx hy hxy hr
      have hx' := (List.mem_filter.mp hx).2
      have hy' := (List.mem_filter.mp hy).2
      simp only [beq_iff_eq] at hx' hy'
      apply hxy
      cases x; cases y; simp_all
    have hFRlt : ((cs.filter (fun c => c.suit == s)).map (·.rank)).Pairwise (· < ·) := by
      have := hFRle.and hFRnd
      exact this.imp (fun ⟨h1, h2⟩ => by omega)
    have hFRb : ∀ r ∈ (cs.filter (fun c => c.suit == s)).map (·.rank), r < 13 := by
      intro r hr
      exact hRb r ((hFsub.map _).subset hr)
    obtain ⟨hfl, hfl2⟩ := flushOK_spec (flush_all _ hFRl5 hFRl7 hFRlt hFRb)
    have hasc : 4 ≤ ascents (cs.map (·.rank)) := by
      have := ascents_bound hsorted (hFsub.map (·.rank)) hFRlt
      omega
    have hnf : 1600 ≤ nf7 (cs.map (·.rank)) := by
      rcases hdom with h | h
      · omega
      · exact h
    have hfl7 : fl7 ((cs.filter (fun c => c.suit == s)).map (·.rank))
        = minList ((choose 5 (cs.filter (fun c => c.suit == s))).map (fun S => sclassL (S.map (·.rank)))) := by
      unfold fl7
      rw [choose_map]
      simp only [List.map_map, Function.comp_def]
    -- model side
    have hmodel : eval7 cs = .ok (fl7 ((cs.filter (fun c => c.suit == s)).map (·.rank))) := by
      simp only [eval7, hff]
      rw [hashFlush_eq, hfl]
    rw [hmodel, hbest]
    congr 1
    symm
    apply minList_eq_of_forall
    · -- the best flush sub-hand is one of the 21 sub-hands
      rw [hfl7] at hfl2 ⊢
      have hmem := minList_mem_or ((choose 5 (cs.filter (fun c => c.suit == s))).map (fun S => sclassL (S.map (·.rank))))
      rcases hmem with h | h
      · exfalso; omega
      · simp only [List.mem_map] at h
        obtain ⟨S₀, hS₀, hval⟩ := h
        rw [← choose_filter] at hS₀
        obtain ⟨hS₀c, hS₀all⟩ := List.mem_filter.mp hS₀
        simp only [List.mem_map]
        refine ⟨S₀, hS₀c, ?_⟩
        rw [hclass S₀ hS₀c, allSameSuit_of_all hS₀all]
        simpa using hval
    · -- no sub-hand is better
      intro x hx
      simp only [List.mem_map] at hx
      obtain ⟨S₀, hS₀, rfl⟩ := hx
      rw [hclass S₀ hS₀]
      obtain ⟨hsub, hl⟩ := sublist_of_mem_choose hS₀
      split
      · rename_i hall
        obtain ⟨t, htall, ht5⟩ := five_of_suit hsub hl hall
        have hts : t = s := by
          apply Decidable.byContradiction
          intro hne
          have := countP_disjoint_le (fun c : Card => c.suit == t) (fun c : Card => c.suit == s) cs
            (by intro c hc; simp only [beq_iff_eq] at hc; omega)
          omega
        subst hts
        have hin : S₀ ∈ choose 5 (cs.filter (fun c => c.suit == t)) := by
          rw [← choose_filter]
          exact List.mem_filter.mpr ⟨hS₀, htall⟩
        rw [hfl7]
        apply minList_le_of_mem
        simp only [List.mem_map]
        exact ⟨S₀, hin, rfl⟩
      · have := hnfmem S₀ hS₀
        omega
    · omega
  · -- no flush: the rank multiset decides
    have hmodel : eval7 cs = .ok (nf7 (cs.map (·.rank))) := by
      simp only [eval7, hff, hashRainbow, hhash, htbl]
    rw [hmodel, hbest]
    congr 1
    unfold nf7
    rw [choose_map]
    simp only [List.map_map, Function.comp_def]
    congr 1
    apply List.map_congr_left
    intro S₀ hS₀
    rw [hclass S₀ hS₀]
    obtain ⟨hsub, hl⟩ := sublist_of_mem_choose hS₀
    split
    · rename_i hall
      obtain ⟨t, _, ht5⟩ := five_of_suit hsub hl hall
      have := hno t
      omega
    · rfl

/-- **C01 (evaluation).** For any seven distinct cards, in any order, the evaluated power index is the
standard class (1 = royal flush … 7462) of the best five-card hand they contain. -/
theorem C01_eval (cs : List Card) (hlen : cs.length = 7) (hnd : cs.Nodup) (hv : ∀ c ∈ cs, c.valid = true) :
    eval7 cs = .ok (best (cs.map toSpec)) := by
  let le : Card → Card → Bool := fun a b => decide (a.rank ≤ b.rank)
  have hperm : (cs.mergeSort le).Perm cs := List.mergeSort_perm cs le
  have hs : (cs.mergeSort le).Pairwise (fun a b => le a b = true) := by
    apply List.pairwise_mergeSort
    · intro a b c hab hbc; simp only [le, decide_eq_true_eq] at *; omega
    · intro a b; simp only [le, Bool.or_eq_true, decide_eq_true_eq]; omega
  have hsorted : ((cs.mergeSort le).map (·.rank)).Pairwise (· ≤ ·) := by
    rw [List.pairwise_map]
    exact hs.imp (fun h => by simpa [le] using h)
  have h1 := C01_eval_sorted (cs.mergeSort le) (by rw [hperm.length_eq, hlen]) (hperm.nodup_iff.mpr hnd)
    (fun c hc => hv c (hperm.mem_iff.mp hc)) hsorted
  rw [eval7_perm hperm.symm hv (by omega), h1]
  congr 1
  exact best_perm (hperm.map toSpec)

/-- **C01 (order of presentation).** Any two orders of the same seven cards evaluate equally. -/
theorem C01_order (cs₁ cs₂ : List Card) (hp : cs₁.Perm cs₂) (hlen : cs₁.length = 7) (hnd : cs₁.Nodup)
    (hv : ∀ c ∈ cs₁, c.valid = true) : eval7 cs₁ = eval7 cs₂ := by
  rw [C01_eval cs₁ hlen hnd hv,
    C01_eval cs₂ (by rw [← hp.length_eq, hlen]) (hp.nodup_iff.mp hnd) (fun c hc => hv c (hp.mem_iff.mpr hc))]
  congr 1
  exact best_perm (hp.map toSpec)

end EspadaVerif.C01
