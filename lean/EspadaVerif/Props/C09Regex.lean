/-
C09 (regex part) — the seven hand-written recognisers of `Model/Token` accept exactly the strings that the seven
regex literals of `HandRangeToken::from_str` accept.

Three layers:

1. `expected` — seven hand-written `Rx.Re` syntax trees (what each recogniser was written for), and for each a
   hand proof `recogniser s = Rx.matches expected s` for every byte string.  Nothing here looks at `Gen`.
2. `lit_0 … lit_6` — the kernel parses the literal read from the Rust source (`Gen.tokenRegexCodes`) and runs
   the proved-sound equivalence checker against `expected`.  This is the only place that depends on the
   literals; it keeps working when a literal is rewritten into an equivalent pattern and fails when the
   language changes (see the examples at the end).
3. `C09_regex_semantics` puts the two together with `Rx.equivCheck_sound`.

Semantics: `Rx.matches r s` is whole-string membership of the bytes `s` in the language of `r`, which is what
`Regex::is_match` computes for a pattern `^r$` of the supported subset (see `Model/Regex`).
-/
import EspadaVerif.Model.Token
import EspadaVerif.Lemmas.RegexSound

set_option Elab.async false

namespace EspadaVerif.C09Regex
open EspadaVerif Rx Rx.Re

def recognisers : List (Bytes → Bool) :=
  [reDoublePocket, reDoubleRankPair, reBottomPocket, reBottomRankPair, reSinglePocket, reSingleRankPair,
   reSingleCardPair]

/-! ### the expected syntax trees -/

/-- `[AKQJT98765432]` -/
def rankCls : Re := cls [65, 75, 81, 74, 84, 57, 56, 55, 54, 53, 52, 51, 50]
/-- `[shdc]` -/
def suitCls : Re := cls [115, 104, 100, 99]
/-- `[so]` -/
def soCls : Re := cls [115, 111]
/-- `r?` -/
def opt (r : Re) : Re := alt r eps
/-- `\.[bs]+` -/
def fracRe (bs : List Nat) : Re := seq (cls [46]) (seq (cls bs) (star (cls bs)))
/-- `0(\.[0-9]+)?|1(\.0+)?` -/
def weightRe : Re :=
  alt (seq (cls [48]) (opt (fracRe [48, 49, 50, 51, 52, 53, 54, 55, 56, 57])))
      (seq (cls [49]) (opt (fracRe [48])))
/-- `(:(0(\.[0-9]+)?|1(\.0+)?))?` -/
def weightSuffixRe : Re := opt (seq (cls [58]) weightRe)

/-- `[R]{2}-[R]{2}(:W)?` -/
def expected0 : Re := seq rankCls (seq rankCls (seq (cls [45]) (seq rankCls (seq rankCls weightSuffixRe))))
/-- `[R]{2}[so]-[R]{2}[so](:W)?` -/
def expected1 : Re :=
  seq rankCls (seq rankCls (seq soCls (seq (cls [45]) (seq rankCls (seq rankCls (seq soCls weightSuffixRe))))))
/-- `[R]{2}\+(:W)?` -/
def expected2 : Re := seq rankCls (seq rankCls (seq (cls [43]) weightSuffixRe))
/-- `[R]{2}[so]\+(:W)?` -/
def expected3 : Re := seq rankCls (seq rankCls (seq soCls (seq (cls [43]) weightSuffixRe)))
/-- `[R]{2}(:W)?` -/
def expected4 : Re := seq rankCls (seq rankCls weightSuffixRe)
/-- `[R]{2}[so](:W)?` -/
def expected5 : Re := seq rankCls (seq rankCls (seq soCls weightSuffixRe))
/-- `([R][shdc]){2}(:W)?` -/
def expected6 : Re := seq rankCls (seq suitCls (seq rankCls (seq suitCls weightSuffixRe)))

def expected : List Re := [expected0, expected1, expected2, expected3, expected4, expected5, expected6]

/-! ### byte classes -/

theorem rank_contains (b : Nat) :
    [65, 75, 81, 74, 84, 57, 56, 55, 54, 53, 52, 51, 50].contains b = isRankByte b := rfl

theorem suit_contains (b : Nat) : [115, 104, 100, 99].contains b = isSuitByte b := rfl

theorem so_contains (b : Nat) : [115, 111].contains b = isSoByte b := by
  rw [Bool.eq_iff_iff]; simp [isSoByte]

theorem digit_contains (b : Nat) : [48, 49, 50, 51, 52, 53, 54, 55, 56, 57].contains b = isDigit b := by
  rw [Bool.eq_iff_iff]
  simp only [isDigit, List.contains_iff_mem, List.mem_cons, List.not_mem_nil, or_false, Bool.and_eq_true,
    decide_eq_true_eq]
  omega

theorem zero_contains (b : Nat) : [48].contains b = (b == 48) := by
  rw [Bool.eq_iff_iff]; simp

/-! ### the weight suffix -/

/-- `\.[bs]+`: a dot, then at least one byte, all of them in `bs` (the induction for `+` is in
`Rx.matches_star_cls`) -/
theorem matches_frac (bs : List Nat) (t : List Nat) :
    Rx.matches (fracRe bs) t =
      match t with
      | 46 :: d :: ds => (d :: ds).all (fun c => bs.contains c)
      | _ => false := by
  rcases t with _ | ⟨c, _ | ⟨d, ds⟩⟩
  · rfl
  · by_cases h : c = 46
    · subst h; rfl
    · simp [fracRe, matches_cls_seq_cons, matches_cls_seq_nil, h]
  · by_cases h : c = 46
    · subst h
      simp [fracRe, matches_cls_seq_cons, matches_star_cls]
    · simp [fracRe, matches_cls_seq_cons, h]

theorem weightText_eq (w : Bytes) : isWeightText w = Rx.matches weightRe w := by
  rcases w with _ | ⟨c, t⟩
  · rfl
  · simp only [weightRe, opt, matches_alt, matches_cls_seq_cons, matches_frac, matches_eps, digit_contains,
      zero_contains]
    by_cases h0 : c = 48
    · subst h0
      rcases t with _ | ⟨e, _ | ⟨d, ds⟩⟩
      · rfl
      · by_cases h : e = 46
        · subst h; rfl
        · simp [isWeightText]
      · by_cases h : e = 46
        · subst h
          simp [isWeightText]
        · simp [isWeightText, h]
    · by_cases h1 : c = 49
      · subst h1
        rcases t with _ | ⟨e, _ | ⟨d, ds⟩⟩
        · rfl
        · by_cases h : e = 46
          · subst h; rfl
          · simp [isWeightText]
        · by_cases h : e = 46
          · subst h
            simp [isWeightText]
          · simp [isWeightText, h]
      · simp [isWeightText, h0, h1]

theorem weightSuffix_eq (s : Bytes) : isWeightSuffix s = Rx.matches weightSuffixRe s := by
  rcases s with _ | ⟨c, t⟩
  · rfl
  · simp only [weightSuffixRe, opt, matches_alt, matches_cls_seq_cons, matches_eps, ← weightText_eq]
    by_cases h : c = 58
    · subst h; simp [isWeightSuffix]
    · simp [isWeightSuffix, h]

/-! ### the seven recognisers against the expected trees (no `Gen` here) -/

/-- peel the fixed-length prefix off `matches`, leaving the byte-class predicates of `Model/Token` -/
macro "peel" : tactic =>
  `(tactic| simp only [expected0, expected1, expected2, expected3, expected4, expected5, expected6, rankCls, suitCls,
      soCls, matches_cls_seq_cons, matches_cls_seq_nil, rank_contains, suit_contains, so_contains,
      ← weightSuffix_eq])

theorem reDoublePocket_eq (s : Bytes) : reDoublePocket s = Rx.matches expected0 s := by
  rcases s with _ | ⟨a, _ | ⟨b, _ | ⟨x, _ | ⟨c, _ | ⟨d, rest⟩⟩⟩⟩⟩ <;> peel
  · rfl
  · simp [reDoublePocket]
  · simp [reDoublePocket]
  · by_cases h : x = 45
    · subst h; simp [reDoublePocket]
    · simp [reDoublePocket, h]
  · by_cases h : x = 45
    · subst h; simp [reDoublePocket]
    · simp [reDoublePocket, h]
  · by_cases h : x = 45
    · subst h; simp [reDoublePocket, Bool.and_assoc]
    · simp [reDoublePocket, h]

theorem reDoubleRankPair_eq (s : Bytes) : reDoubleRankPair s = Rx.matches expected1 s := by
  rcases s with _ | ⟨a, _ | ⟨b, _ | ⟨x, _ | ⟨m, _ | ⟨c, _ | ⟨d, _ | ⟨y, rest⟩⟩⟩⟩⟩⟩⟩ <;> peel
  · rfl
  · simp [reDoubleRankPair]
  · simp [reDoubleRankPair]
  · simp [reDoubleRankPair]
  · by_cases h : m = 45
    · subst h; simp [reDoubleRankPair]
    · simp [reDoubleRankPair, h]
  · by_cases h : m = 45
    · subst h; simp [reDoubleRankPair]
    · simp [reDoubleRankPair, h]
  · by_cases h : m = 45
    · subst h; simp [reDoubleRankPair]
    · simp [reDoubleRankPair, h]
  · by_cases h : m = 45
    · subst h; simp [reDoubleRankPair, Bool.and_assoc]
    · simp [reDoubleRankPair, h]

theorem reBottomPocket_eq (s : Bytes) : reBottomPocket s = Rx.matches expected2 s := by
  rcases s with _ | ⟨a, _ | ⟨b, _ | ⟨x, rest⟩⟩⟩ <;> peel
  · rfl
  · simp [reBottomPocket]
  · simp [reBottomPocket]
  · by_cases h : x = 43
    · subst h; simp [reBottomPocket, Bool.and_assoc]
    · simp [reBottomPocket, h]

theorem reBottomRankPair_eq (s : Bytes) : reBottomRankPair s = Rx.matches expected3 s := by
  rcases s with _ | ⟨a, _ | ⟨b, _ | ⟨x, _ | ⟨p, rest⟩⟩⟩⟩ <;> peel
  · rfl
  · simp [reBottomRankPair]
  · simp [reBottomRankPair]
  · simp [reBottomRankPair]
  · by_cases h : p = 43
    · subst h; simp [reBottomRankPair, Bool.and_assoc]
    · simp [reBottomRankPair, h]

theorem reSinglePocket_eq (s : Bytes) : reSinglePocket s = Rx.matches expected4 s := by
  rcases s with _ | ⟨a, _ | ⟨b, rest⟩⟩ <;> peel
  · rfl
  · simp [reSinglePocket]
  · simp [reSinglePocket, Bool.and_assoc]

theorem reSingleRankPair_eq (s : Bytes) : reSingleRankPair s = Rx.matches expected5 s := by
  rcases s with _ | ⟨a, _ | ⟨b, _ | ⟨x, rest⟩⟩⟩ <;> peel
  · rfl
  · simp [reSingleRankPair]
  · simp [reSingleRankPair]
  · simp [reSingleRankPair, Bool.and_assoc]

theorem reSingleCardPair_eq (s : Bytes) : reSingleCardPair s = Rx.matches expected6 s := by
  rcases s with _ | ⟨a, _ | ⟨x, _ | ⟨b, _ | ⟨y, rest⟩⟩⟩⟩ <;> peel
  · rfl
  · simp [reSingleCardPair]
  · simp [reSingleCardPair]
  · simp [reSingleCardPair]
  · simp [reSingleCardPair, Bool.and_assoc]

/-- every recogniser is `Rx.matches` of its expected tree -/
theorem recogniser_eq_expected (i : Nat) (hi : i < 7) (s : Bytes) :
    (recognisers.getD i (fun _ => false)) s = Rx.matches (expected.getD i Re.empty) s := by
  match i, hi with
  | 0, _ => exact reDoublePocket_eq s
  | 1, _ => exact reDoubleRankPair_eq s
  | 2, _ => exact reBottomPocket_eq s
  | 3, _ => exact reBottomRankPair_eq s
  | 4, _ => exact reSinglePocket_eq s
  | 5, _ => exact reSingleRankPair_eq s
  | 6, _ => exact reSingleCardPair_eq s

/-! ### the literals of the source against the expected trees (kernel evaluation) -/

/-- fuel of the equivalence checker: one unit per work-list entry; the seven checks below each visit 11–16
derivative pairs over 18–22 representative bytes, i.e. a few hundred entries -/
def FUEL : Nat := 5000

/-- the `i`-th literal parses, and the checker finds it equivalent to the `i`-th expected tree -/
def checkLit (i : Nat) : Bool :=
  match Rx.parse (Gen.tokenRegexCodes.getD i []) with
  | some r => Rx.equivCheck FUEL r (expected.getD i Re.empty)
  | none => false

theorem lit_0 : checkLit 0 = true := by decide +kernel
theorem lit_1 : checkLit 1 = true := by decide +kernel
theorem lit_2 : checkLit 2 = true := by decide +kernel
theorem lit_3 : checkLit 3 = true := by decide +kernel
theorem lit_4 : checkLit 4 = true := by decide +kernel
theorem lit_5 : checkLit 5 = true := by decide +kernel
theorem lit_6 : checkLit 6 = true := by decide +kernel

theorem checkLit_spec (i : Nat) (h : checkLit i = true) :
    ∃ r, Rx.parse (Gen.tokenRegexCodes.getD i []) = some r ∧
         Rx.equivCheck FUEL r (expected.getD i Re.empty) = true := by
  unfold checkLit at h
  cases hp : Rx.parse (Gen.tokenRegexCodes.getD i []) with
  | none => rw [hp] at h; cases h
  | some r => rw [hp] at h; exact ⟨r, rfl, h⟩

theorem checkLit_all (i : Nat) (hi : i < 7) : checkLit i = true := by
  match i, hi with
  | 0, _ => exact lit_0
  | 1, _ => exact lit_1
  | 2, _ => exact lit_2
  | 3, _ => exact lit_3
  | 4, _ => exact lit_4
  | 5, _ => exact lit_5
  | 6, _ => exact lit_6

/-! ### the statement -/

theorem C09_regex_count : Gen.tokenRegexCodes.length = 7 := by decide

/-- **C09 (regex semantics).** Each of the seven pattern literals of the source parses (in the supported
subset), and the `i`-th recogniser of the model accepts a byte string exactly when the parsed pattern matches
it. -/
theorem C09_regex_semantics (i : Nat) (hi : i < 7) (s : Bytes) :
    ∃ r, Rx.parse (Gen.tokenRegexCodes.getD i []) = some r ∧
         (recognisers.getD i (fun _ => false)) s = Rx.matches r s := by
  obtain ⟨r, hp, he⟩ := checkLit_spec i (checkLit_all i hi)
  refine ⟨r, hp, ?_⟩
  rw [recogniser_eq_expected i hi s]
  exact (Rx.equivCheck_sound FUEL r _ he s).symm

/-! ### sanity examples -/

-- `^[0-9]+` (no `$`)
example : Rx.parse [94, 91, 48, 45, 57, 93, 43] = none := by decide +kernel
-- `^\d+$`
example : Rx.parse [94, 92, 100, 43, 36] = none := by decide +kernel
-- `^.$`
example : Rx.parse [94, 46, 36] = none := by decide +kernel
-- `^[^a]$`
example : Rx.parse [94, 91, 94, 97, 93, 36] = none := by decide +kernel
-- `^a+?$` (lazy)
example : Rx.parse [94, 97, 43, 63, 36] = none := by decide +kernel
-- `^a|b$` (is `(^a)|(b$)`, not an anchored body)
example : Rx.parse [94, 97, 124, 98, 36] = none := by decide +kernel

/-- `Rx.matches` of the parsed `i`-th literal on `s` -/
def litMatches (i : Nat) (s : List Nat) : Option Bool :=
  (Rx.parse (Gen.tokenRegexCodes.getD i [])).map fun r => Rx.matches r s

-- "AA-KK:0.5", "AA-KK", "AA-KK:1.000" are accepted by pattern 0
example : litMatches 0 [65, 65, 45, 75, 75, 58, 48, 46, 53] = some true := by decide +kernel
example : litMatches 0 [65, 65, 45, 75, 75] = some true := by decide +kernel
example : litMatches 0 [65, 65, 45, 75, 75, 58, 49, 46, 48, 48, 48] = some true := by decide +kernel
-- "AA-KK:1.5" is rejected
example : litMatches 0 [65, 65, 45, 75, 75, 58, 49, 46, 53] = some false := by decide +kernel
-- "AA-KK:0.٣" (ARABIC-INDIC DIGIT THREE, UTF-8 `D9 A3`) is rejected
example : litMatches 0 [65, 65, 45, 75, 75, 58, 48, 46, 217, 163] = some false := by decide +kernel

/-- parse a pattern and check it against the `i`-th expected tree -/
def checkCodes (i : Nat) (cs : List Nat) : Bool :=
  match Rx.parse cs with
  | some r => Rx.equivCheck FUEL r (expected.getD i Re.empty)
  | none => false

-- an equivalent rewriting of pattern 0 is still accepted:
-- `^[AKQJT98765432][AKQJT98765432]-(?:[AKQJT2-9]){2}(:(1(\.0+)?|0(\.[0123456789]+)?))?$`
example : checkCodes 0
    [94, 91, 65, 75, 81, 74, 84, 57, 56, 55, 54, 53, 52, 51, 50, 93, 91, 65, 75, 81, 74, 84, 57, 56, 55, 54, 53,
     52, 51, 50, 93, 45, 40, 63, 58, 91, 65, 75, 81, 74, 84, 50, 45, 57, 93, 41, 123, 50, 125, 40, 58, 40, 49, 40,
     92, 46, 48, 43, 41, 63, 124, 48, 40, 92, 46, 91, 48, 49, 50, 51, 52, 53, 54, 55, 56, 57, 93, 43, 41, 63, 41,
     41, 63, 36] = true := by decide +kernel
-- a different language is not: `1(\.[0-9]+)?` instead of `1(\.0+)?`
example : checkCodes 0
    [94, 91, 65, 75, 81, 74, 84, 57, 56, 55, 54, 53, 52, 51, 50, 93, 123, 50, 125, 45, 91, 65, 75, 81, 74, 84, 57,
     56, 55, 54, 53, 52, 51, 50, 93, 123, 50, 125, 40, 58, 40, 48, 40, 92, 46, 91, 48, 45, 57, 93, 43, 41, 63, 124,
     49, 40, 92, 46, 91, 48, 45, 57, 93, 43, 41, 63, 41, 41, 63, 36] = false := by decide +kernel
-- nor is a mandatory weight: `(:(…))` instead of `(:(…))?`
example : checkCodes 0
    [94, 91, 65, 75, 81, 74, 84, 57, 56, 55, 54, 53, 52, 51, 50, 93, 123, 50, 125, 45, 91, 65, 75, 81, 74, 84, 57,
     56, 55, 54, 53, 52, 51, 50, 93, 123, 50, 125, 40, 58, 40, 48, 40, 92, 46, 91, 48, 45, 57, 93, 43, 41, 63, 124,
     49, 40, 92, 46, 48, 43, 41, 63, 41, 41, 36] = false := by decide +kernel

/-! ### other spellings of the seven literals

The seven literals as a maintainer might rewrite them (unrolled `{2}`, `(?:…)` groups, `[+]` / `[.]` for
`\+` / `\.`, reordered class, `{1,}` for `+`, `{0,1}` for `?`, `(?:s|o)` for `[so]`, `\A…\z` for `^…$`): each parses
and the checker finds it equivalent to the same expected tree. -/

-- `^[AKQJT98765432][AKQJT98765432]-[AKQJT98765432][AKQJT98765432](:(0(\.[0-9]+)?|1(\.0+)?))?$`
example : checkCodes 0
    [94, 91, 65, 75, 81, 74, 84, 57, 56, 55, 54, 53, 52, 51, 50, 93, 91, 65, 75, 81, 74, 84, 57, 56, 55, 54, 53, 52,
     51, 50, 93, 45, 91, 65, 75, 81, 74, 84, 57, 56, 55, 54, 53, 52, 51, 50, 93, 91, 65, 75, 81, 74, 84, 57, 56,
     55, 54, 53, 52, 51, 50, 93, 40, 58, 40, 48, 40, 92, 46, 91, 48, 45, 57, 93, 43, 41, 63, 124, 49, 40, 92, 46,
     48, 43, 41, 63, 41, 41, 63, 36] = true := by decide +kernel
-- `^[AKQJT98765432]{2}[so]-[AKQJT98765432]{2}[so](?::(?:0(?:\.[0-9]+)?|1(?:\.0+)?))?$`
example : checkCodes 1
    [94, 91, 65, 75, 81, 74, 84, 57, 56, 55, 54, 53, 52, 51, 50, 93, 123, 50, 125, 91, 115, 111, 93, 45, 91, 65, 75,
     81, 74, 84, 57, 56, 55, 54, 53, 52, 51, 50, 93, 123, 50, 125, 91, 115, 111, 93, 40, 63, 58, 58, 40, 63, 58,
     48, 40, 63, 58, 92, 46, 91, 48, 45, 57, 93, 43, 41, 63, 124, 49, 40, 63, 58, 92, 46, 48, 43, 41, 63, 41, 41,
     63, 36] = true := by decide +kernel
-- `^[AKQJT98765432]{2}\+(:(0(\.[0-9]+)?|1(\.0+)?))?$`
example : checkCodes 2
    [94, 91, 65, 75, 81, 74, 84, 57, 56, 55, 54, 53, 52, 51, 50, 93, 123, 50, 125, 92, 43, 40, 58, 40, 48, 40, 92,
     46, 91, 48, 45, 57, 93, 43, 41, 63, 124, 49, 40, 92, 46, 48, 43, 41, 63, 41, 41, 63, 36] = true := by decide +kernel
-- `^[AKQJT98765432]{2}[so][+](:(0([.][0123456789]+)?|1([.]0+)?))?$`
example : checkCodes 3
    [94, 91, 65, 75, 81, 74, 84, 57, 56, 55, 54, 53, 52, 51, 50, 93, 123, 50, 125, 91, 115, 111, 93, 91, 43, 93, 40,
     58, 40, 48, 40, 91, 46, 93, 91, 48, 49, 50, 51, 52, 53, 54, 55, 56, 57, 93, 43, 41, 63, 124, 49, 40, 91, 46,
     93, 48, 43, 41, 63, 41, 41, 63, 36] = true := by decide +kernel
-- `^[2-9AJKQT]{2}(:(0(\.[0-9]+)?|1(\.0+)?))?$`
example : checkCodes 4
    [94, 91, 50, 45, 57, 65, 74, 75, 81, 84, 93, 123, 50, 125, 40, 58, 40, 48, 40, 92, 46, 91, 48, 45, 57, 93, 43,
     41, 63, 124, 49, 40, 92, 46, 48, 43, 41, 63, 41, 41, 63, 36] = true := by decide +kernel
-- `^[AKQJT98765432]{2}(?:s|o)(:(0(\.[0-9]{1,})?|1(\.0{1,})?)){0,1}$`
example : checkCodes 5
    [94, 91, 65, 75, 81, 74, 84, 57, 56, 55, 54, 53, 52, 51, 50, 93, 123, 50, 125, 40, 63, 58, 115, 124, 111, 41,
     40, 58, 40, 48, 40, 92, 46, 91, 48, 45, 57, 93, 123, 49, 44, 125, 41, 63, 124, 49, 40, 92, 46, 48, 123, 49,
     44, 125, 41, 63, 41, 41, 123, 48, 44, 49, 125, 36] = true := by decide +kernel
-- `\A[AKQJT98765432][shdc][AKQJT98765432][shdc](:(0(\.[0-9]+)?|1(\.0+)?))?\z`
example : checkCodes 6
    [92, 65, 91, 65, 75, 81, 74, 84, 57, 56, 55, 54, 53, 52, 51, 50, 93, 91, 115, 104, 100, 99, 93, 91, 65, 75, 81,
     74, 84, 57, 56, 55, 54, 53, 52, 51, 50, 93, 91, 115, 104, 100, 99, 93, 40, 58, 40, 48, 40, 92, 46, 91, 48, 45,
     57, 93, 43, 41, 63, 124, 49, 40, 92, 46, 48, 43, 41, 63, 41, 41, 63, 92, 122] = true := by decide +kernel

/-- the pattern parses, and the checker does not find it equivalent to the `i`-th expected tree -/
def checkParsesButDiffers (i : Nat) (cs : List Nat) : Bool :=
  match Rx.parse cs with
  | some r => !Rx.equivCheck FUEL r (expected.getD i Re.empty)
  | none => false

/-! spellings that are outside the subset (`parse = none`: `\Z`, `{2,1}`, reversed range, flags, named group,
negated class, set operator, `\d`, lazy forms, count above 64, `\b`) or that change the language (parsed, then
refused by the checker) -/

-- `\A[AKQJT98765432][shdc][AKQJT98765432][shdc](:(0(\.[0-9]+)?|1(\.0+)?))?\Z`
example : Rx.parse
    [92, 65, 91, 65, 75, 81, 74, 84, 57, 56, 55, 54, 53, 52, 51, 50, 93, 91, 115, 104, 100, 99, 93, 91, 65, 75, 81,
     74, 84, 57, 56, 55, 54, 53, 52, 51, 50, 93, 91, 115, 104, 100, 99, 93, 40, 58, 40, 48, 40, 92, 46, 91, 48, 45,
     57, 93, 43, 41, 63, 124, 49, 40, 92, 46, 48, 43, 41, 63, 41, 41, 63, 92, 90] = none := by decide +kernel
-- `^[2-9AJKQT]{2,1}(:(0(\.[0-9]+)?|1(\.0+)?))?$`
example : Rx.parse
    [94, 91, 50, 45, 57, 65, 74, 75, 81, 84, 93, 123, 50, 44, 49, 125, 40, 58, 40, 48, 40, 92, 46, 91, 48, 45, 57,
     93, 43, 41, 63, 124, 49, 40, 92, 46, 48, 43, 41, 63, 41, 41, 63, 36] = none := by decide +kernel
-- `^[AKQJT98765432]{2}(?:s|o)(:(0(\.[0-9]{1,})?|1(\.0{1,})?)){1,2}$`
example : checkParsesButDiffers 5
    [94, 91, 65, 75, 81, 74, 84, 57, 56, 55, 54, 53, 52, 51, 50, 93, 123, 50, 125, 40, 63, 58, 115, 124, 111, 41,
     40, 58, 40, 48, 40, 92, 46, 91, 48, 45, 57, 93, 123, 49, 44, 125, 41, 63, 124, 49, 40, 92, 46, 48, 123, 49,
     44, 125, 41, 63, 41, 41, 123, 49, 44, 50, 125, 36] = true := by decide +kernel
-- `^[AKQJT98765432]{2}[s-o](:(0(\.[0-9]+)?|1(\.0+)?))?$`
example : Rx.parse
    [94, 91, 65, 75, 81, 74, 84, 57, 56, 55, 54, 53, 52, 51, 50, 93, 123, 50, 125, 91, 115, 45, 111, 93, 40, 58, 40,
     48, 40, 92, 46, 91, 48, 45, 57, 93, 43, 41, 63, 124, 49, 40, 92, 46, 48, 43, 41, 63, 41, 41, 63, 36] = none := by decide +kernel
-- `^[AKQJT98765432]{2}[o-s](:(0(\.[0-9]+)?|1(\.0+)?))?$`
example : checkParsesButDiffers 5
    [94, 91, 65, 75, 81, 74, 84, 57, 56, 55, 54, 53, 52, 51, 50, 93, 123, 50, 125, 91, 111, 45, 115, 93, 40, 58, 40,
     48, 40, 92, 46, 91, 48, 45, 57, 93, 43, 41, 63, 124, 49, 40, 92, 46, 48, 43, 41, 63, 41, 41, 63, 36] = true := by decide +kernel
-- `^[AKQJT98765432]{2}(?i:s|o)(:(0(\.[0-9]+)?|1(\.0+)?))?$`
example : Rx.parse
    [94, 91, 65, 75, 81, 74, 84, 57, 56, 55, 54, 53, 52, 51, 50, 93, 123, 50, 125, 40, 63, 105, 58, 115, 124, 111,
     41, 40, 58, 40, 48, 40, 92, 46, 91, 48, 45, 57, 93, 43, 41, 63, 124, 49, 40, 92, 46, 48, 43, 41, 63, 41, 41,
     63, 36] = none := by decide +kernel
-- `^[AKQJT98765432]{2}(?P<x>s|o)(:(0(\.[0-9]+)?|1(\.0+)?))?$`
example : Rx.parse
    [94, 91, 65, 75, 81, 74, 84, 57, 56, 55, 54, 53, 52, 51, 50, 93, 123, 50, 125, 40, 63, 80, 60, 120, 62, 115,
     124, 111, 41, 40, 58, 40, 48, 40, 92, 46, 91, 48, 45, 57, 93, 43, 41, 63, 124, 49, 40, 92, 46, 48, 43, 41, 63,
     41, 41, 63, 36] = none := by decide +kernel
-- `^[^2-9AJKQT]{2}(:(0(\.[0-9]+)?|1(\.0+)?))?$`
example : Rx.parse
    [94, 91, 94, 50, 45, 57, 65, 74, 75, 81, 84, 93, 123, 50, 125, 40, 58, 40, 48, 40, 92, 46, 91, 48, 45, 57, 93,
     43, 41, 63, 124, 49, 40, 92, 46, 48, 43, 41, 63, 41, 41, 63, 36] = none := by decide +kernel
-- `^[2-9AJKQT&&[^A]]{2}(:(0(\.[0-9]+)?|1(\.0+)?))?$`
example : Rx.parse
    [94, 91, 50, 45, 57, 65, 74, 75, 81, 84, 38, 38, 91, 94, 65, 93, 93, 123, 50, 125, 40, 58, 40, 48, 40, 92, 46,
     91, 48, 45, 57, 93, 43, 41, 63, 124, 49, 40, 92, 46, 48, 43, 41, 63, 41, 41, 63, 36] = none := by decide +kernel
-- `^[2-9AJKQT]{2}(:(0(\.\d+)?|1(\.0+)?))?$`
example : Rx.parse
    [94, 91, 50, 45, 57, 65, 74, 75, 81, 84, 93, 123, 50, 125, 40, 58, 40, 48, 40, 92, 46, 92, 100, 43, 41, 63, 124,
     49, 40, 92, 46, 48, 43, 41, 63, 41, 41, 63, 36] = none := by decide +kernel
-- `^[2-9AJKQT]{2}(:(0(\.[0-9]+?)?|1(\.0+)?))?$`
example : Rx.parse
    [94, 91, 50, 45, 57, 65, 74, 75, 81, 84, 93, 123, 50, 125, 40, 58, 40, 48, 40, 92, 46, 91, 48, 45, 57, 93, 43,
     63, 41, 63, 124, 49, 40, 92, 46, 48, 43, 41, 63, 41, 41, 63, 36] = none := by decide +kernel
-- `^[2-9AJKQT]{2}(:(0(\.[0-9]{1,}?)?|1(\.0+)?))?$`
example : Rx.parse
    [94, 91, 50, 45, 57, 65, 74, 75, 81, 84, 93, 123, 50, 125, 40, 58, 40, 48, 40, 92, 46, 91, 48, 45, 57, 93, 123,
     49, 44, 125, 63, 41, 63, 124, 49, 40, 92, 46, 48, 43, 41, 63, 41, 41, 63, 36] = none := by decide +kernel
-- `^[2-9AJKQT]{65}$`
example : Rx.parse
    [94, 91, 50, 45, 57, 65, 74, 75, 81, 84, 93, 123, 54, 53, 125, 36] = none := by decide +kernel
-- `^[AKQJT98765432]{2}[\+\-](:(0(\.[0-9]+)?|1(\.0+)?))?$`
example : checkParsesButDiffers 2
    [94, 91, 65, 75, 81, 74, 84, 57, 56, 55, 54, 53, 52, 51, 50, 93, 123, 50, 125, 91, 92, 43, 92, 45, 93, 40, 58,
     40, 48, 40, 92, 46, 91, 48, 45, 57, 93, 43, 41, 63, 124, 49, 40, 92, 46, 48, 43, 41, 63, 41, 41, 63, 36] = true := by decide +kernel
-- `^[2-9AJKQT]{2}(:(0(\.[0-9]+)?|1(\.0+)?))?\b$`
example : Rx.parse
    [94, 91, 50, 45, 57, 65, 74, 75, 81, 84, 93, 123, 50, 125, 40, 58, 40, 48, 40, 92, 46, 91, 48, 45, 57, 93, 43,
     41, 63, 124, 49, 40, 92, 46, 48, 43, 41, 63, 41, 41, 63, 92, 98, 36] = none := by decide +kernel
-- `^[2-9AJKQT]{2}(:(0(\.[0-9]+)?|1(\.0*)?))?$`
example : checkParsesButDiffers 4
    [94, 91, 50, 45, 57, 65, 74, 75, 81, 84, 93, 123, 50, 125, 40, 58, 40, 48, 40, 92, 46, 91, 48, 45, 57, 93, 43,
     41, 63, 124, 49, 40, 92, 46, 48, 42, 41, 63, 41, 41, 63, 36] = true := by decide +kernel

end EspadaVerif.C09Regex
