/-
C05 — Range notation parses to its standard poker meaning.

`Spec.WfToken` / `Spec.WfToken.denote` (Spec/Notation.lean) are the notation and its meaning, written
independently of the crate; the theorems say the model of the parser + expansion computes exactly that.
-/
import EspadaVerif.Lemmas.TokenFacts
import EspadaVerif.Lemmas.RangeAux
import EspadaVerif.Lemmas.NotationToken
import EspadaVerif.Lemmas.NotationList
import EspadaVerif.Props.C09

namespace EspadaVerif.C05
open EspadaVerif TextDefs

variable {W : Type}

/-- the combos of an expansion as the specification sees them (pairs of card codes) -/
def codesOf (es : List (Combo × W)) : List (Nat × Nat) := es.map fun e => comboCodes e.1

/-- **C05 (token).** Every well-formed token, with or without a `:weight`, parses, and expands to exactly the
combos it denotes in standard notation, each once, each carrying the token's weight (1 when omitted). -/
theorem C05_token (wt : WText W) (hempty : wt.parseW [] = none) (t : Spec.WfToken) (ht : t.wf = true)
    (suffix : Bytes) (hs : SuffixOk suffix) :
    ∃ tok es, parseToken wt (t.text ++ suffix) = .ok tok ∧ tok.expand = .ok es
      ∧ (codesOf es).Perm t.denote ∧ (codesOf es).Nodup ∧ ∀ e ∈ es, e.2 = suffixWeight wt suffix := by
  obtain ⟨kind, cs, hparse, hexp, hcodes⟩ := NotationToken.token_core wt t ht suffix hs
  have hw : TokenFacts.sufW wt suffix = suffixWeight wt suffix :=
    TokenFacts.sufW_eq_suffixWeight wt hempty suffix ((TokenFacts.isWeightSuffix_iff suffix).mpr hs)
  rw [hw] at hparse
  have hco : codesOf (cs.map fun c => (c, suffixWeight wt suffix)) = t.denote := by
    rw [← hcodes, codesOf, List.map_map]
    rfl
  refine ⟨_, _, hparse, hexp _, ?_, ?_, ?_⟩
  · rw [hco]
  · rw [hco]
    exact NotationToken.denote_nodup t ht
  · intro e he
    obtain ⟨c, _, rfl⟩ := List.mem_map.mp he
    rfl

/-- the weight a list of tokens assigns to a combo: that of the LAST token denoting it -/
def lastWeight (wt : WText W) (ts : List (Spec.WfToken × Bytes)) (c : Nat × Nat) : Option W :=
  (ts.reverse.find? fun p => p.1.denote.contains c).map fun p => suffixWeight wt p.2

/-- the block a token's expansion pushes on the history answers exactly for the combos the token denotes -/
theorem lookup_expansion (es : List (Combo × W)) (w : W) (hw : ∀ e ∈ es, e.2 = w)
    (hok : ∀ e ∈ es, ComboOk e.1) (D : List (Nat × Nat)) (hperm : (codesOf es).Perm D) (c : Combo)
    (hc : ComboOk c) :
    HandRange.lookup es.reverse c = if D.contains (comboCodes c) then some w else none := by
  have hiff : c ∈ es.reverse.map (·.1) ↔ comboCodes c ∈ D := by
    rw [← hperm.mem_iff]
    simp only [codesOf, List.mem_map, List.mem_reverse]
    constructor
    · rintro ⟨e, he, rfl⟩
      exact ⟨e, he, rfl⟩
    · rintro ⟨e, he, hcode⟩
      exact ⟨e, he, NotationList.comboCodes_inj (hok e he) hc hcode⟩
  by_cases hm : comboCodes c ∈ D
  · rw [if_pos (by simpa using hm)]
    exact NotationList.lookup_const_mem _ w (fun e he => hw e (List.mem_reverse.mp he)) c (hiff.mpr hm)
  · rw [if_neg (by simpa using hm)]
    exact NotationList.lookup_not_mem _ c (fun h => hm (hiff.mp h))

/-- the insert loop over the texts of a list of well-formed tokens, from any history `m` -/
theorem go_spec (wt : WText W) (hempty : wt.parseW [] = none) (ts : List (Spec.WfToken × Bytes))
    (hts : ∀ p ∈ ts, p.1.wf = true ∧ SuffixOk p.2) (m : HandRange W) :
    ∃ r, parseRange.go wt (ts.map fun p => p.1.text ++ p.2) m = .ok r
      ∧ ∀ c : Combo, ComboOk c → r.lookup c = (lastWeight wt ts (comboCodes c)).or (m.lookup c) := by
  induction ts generalizing m with
  | nil =>
    exact ⟨m, rfl, fun c _ => by simp [lastWeight]⟩
  | cons p ts ih =>
    obtain ⟨hwf, hsuf⟩ := hts p List.mem_cons_self
    obtain ⟨tok, es, hparse, hexp, hperm, _, hw⟩ := C05_token wt hempty p.1 hwf p.2 hsuf
    have hok : ∀ e ∈ es, ComboOk e.1 := by
      obtain ⟨es', hes', hall⟩ := TokenFacts.expand_ok tok (TokenFacts.parseToken_tokenOk wt _ tok hparse).1
      rw [hexp] at hes'; cases hes'
      exact fun e he => (hall e he).1
    obtain ⟨r, hr, hlook⟩ := ih (fun q hq => hts q (List.mem_cons_of_mem _ hq))
      (es.reverse ++ m)
    refine ⟨r, ?_, fun c hc => ?_⟩
    · simp only [List.map_cons, parseRange.go, hparse, hexp, RangeAux.foldl_insert_eq]
      exact hr
    · rw [hlook c hc, NotationList.lookup_append,
        lookup_expansion es _ hw hok p.1.denote hperm c hc]
      simp only [lastWeight, List.reverse_cons, List.find?_append]
      cases hfind : ts.reverse.find? (fun q => q.1.denote.contains (comboCodes c)) with
      | some q => simp
      | none =>
        by_cases hm : comboCodes c ∈ p.1.denote
        · simp [List.find?, hm]
        · simp [List.find?, hm]

/-- **C05 (list).** Parsing a comma-separated list of well-formed tokens, with spaces anywhere, yields exactly the
combos the tokens denote; where tokens overlap the later token's weight applies; the empty list is the empty range. -/
theorem C05_list (wt : WText W) (hempty : wt.parseW [] = none) (ts : List (Spec.WfToken × Bytes))
    (hts : ∀ p ∈ ts, p.1.wf = true ∧ SuffixOk p.2) (s : Bytes)
    (hs : stripSpaces s = joinCommas (ts.map fun p => p.1.text ++ p.2)) :
    ∃ r, parseRange wt s = .ok r ∧ ∀ c : Combo, ComboOk c → r.lookup c = lastWeight wt ts (comboCodes c) := by
  have htexts : ∀ t ∈ ts.map (fun p => p.1.text ++ p.2), ∀ b ∈ t, b ≠ 44 := by
    intro t ht
    obtain ⟨p, hp, rfl⟩ := List.mem_map.mp ht
    exact NotationList.tokenText_nocomma p.1 p.2 (hts p hp).2
  rw [RangeAux.parseRange_unfold, hs]
  cases ts with
  | nil =>
    refine ⟨[], by simp [joinCommas], fun c _ => ?_⟩
    simp [HandRange.lookup, lastWeight]
  | cons p ts' =>
    have hne : joinCommas ((p :: ts').map fun p => p.1.text ++ p.2) ≠ [] := by
      apply NotationList.joinCommas_ne_nil _ (by simp)
      intro t ht
      obtain ⟨q, _, rfl⟩ := List.mem_map.mp ht
      intro e
      exact NotationList.text_ne_nil q.1 (List.append_eq_nil_iff.mp e).1
    rw [if_neg (by rw [List.length_eq_zero_iff]; exact hne),
      NotationList.splitCommas_join _ (by simp) htexts]
    obtain ⟨r, hr, hlook⟩ := go_spec wt hempty (p :: ts') hts []
    refine ⟨r, hr, fun c hc => ?_⟩
    rw [hlook c hc]
    simp [HandRange.lookup]

/-- the empty string, and any string of spaces, is the empty range -/
theorem C05_empty (wt : WText W) (s : Bytes) (h : ∀ b ∈ s, b = 32) : parseRange wt s = .ok [] := by
  rw [RangeAux.parseRange_unfold, NotationList.stripSpaces_spaces s h]
  rfl

/-- '44' / 'JTs' / '72o' denote 6 / 4 / 12 combos; 'QQ+' three pairs; 'A9s+' five kickers; '88-66' three pairs -/
theorem C05_counts :
    (Spec.WfToken.pocket 10).denote.length = 6 ∧ (Spec.WfToken.pair 3 4 true).denote.length = 4
    ∧ (Spec.WfToken.pair 7 12 false).denote.length = 12 ∧ (Spec.WfToken.pocketPlus 2).denote.length = 18
    ∧ (Spec.WfToken.pairPlus 0 5 true).denote.length = 20 ∧ (Spec.WfToken.pocketSpan 6 8).denote.length = 18
    ∧ (Spec.WfToken.pairSpan 0 2 5 true).denote.length = 16 := by decide

end EspadaVerif.C05
