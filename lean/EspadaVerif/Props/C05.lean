/-
C05 — Range notation parses to its standard poker meaning.

`Spec.WfToken` / `Spec.WfToken.denote` (Spec/Notation.lean) are the notation and its meaning, written
independently of the crate; the theorems say the model of the parser + expansion computes exactly that.
-/
import EspadaVerif.Lemmas.TokenFacts
import EspadaVerif.Lemmas.RangeAux
import EspadaVerif.Props.C09

namespace EspadaVerif.C05
open EspadaVerif TextDefs

variable {W : Type}

/-- the combos of an expansion as the specification sees them (pairs of card codes) -/
def codesOf (es : List (Combo × W)) : List (Nat × Nat) := es.map fun e => comboCodes e.1

/-- **C05 (token).** Every well-formed token, with or without a `:weight`, parses, and expands to exactly the
combos it denotes in standard notation, each once, each carrying the token's weight (1 when omitted). -/
theorem C05_token (wt : WText W) (hempty : wt.parseW [] = none) (t : Spec.WfToken) (ht : t.wf = true)
    (suffix : Bytes) (hs : SuffixOk suffix) :
    ∃ tok es, parseToken wt (t.text ++ suffix) = .ok tok ∧ tok.expand = .ok es
      ∧ (codesOf es).Perm t.denote ∧ (codesOf es).Nodup ∧ ∀ e ∈ es, e.2 = suffixWeight wt suffix := by
  sorry

/-- the weight a list of tokens assigns to a combo: that of the LAST token denoting it -/
def lastWeight (wt : WText W) (ts : List (Spec.WfToken × Bytes)) (c : Nat × Nat) : Option W :=
  (ts.reverse.find? fun p => p.1.denote.contains c).map fun p => suffixWeight wt p.2

/-- **C05 (list).** Parsing a comma-separated list of well-formed tokens, with spaces anywhere, yields exactly the
combos the tokens denote; where tokens overlap the later token's weight applies; the empty list is the empty range. -/
theorem C05_list (wt : WText W) (hempty : wt.parseW [] = none) (ts : List (Spec.WfToken × Bytes))
    (hts : ∀ p ∈ ts, p.1.wf = true ∧ SuffixOk p.2) (s : Bytes)
    (hs : stripSpaces s = joinCommas (ts.map fun p => p.1.text ++ p.2)) :
    ∃ r, parseRange wt s = .ok r ∧ ∀ c : Combo, ComboOk c → r.lookup c = lastWeight wt ts (comboCodes c) := by
  sorry

/-- the empty string, and any string of spaces, is the empty range -/
theorem C05_empty (wt : WText W) (s : Bytes) (h : ∀ b ∈ s, b = 32) : parseRange wt s = .ok [] := by
  sorry

/-- '44' / 'JTs' / '72o' denote 6 / 4 / 12 combos; 'QQ+' three pairs; 'A9s+' five kickers; '88-66' three pairs -/
theorem C05_counts :
    (Spec.WfToken.pocket 10).denote.length = 6 ∧ (Spec.WfToken.pair 3 4 true).denote.length = 4
    ∧ (Spec.WfToken.pair 7 12 false).denote.length = 12 ∧ (Spec.WfToken.pocketPlus 2).denote.length = 18
    ∧ (Spec.WfToken.pairPlus 0 5 true).denote.length = 20 ∧ (Spec.WfToken.pocketSpan 6 8).denote.length = 18
    ∧ (Spec.WfToken.pairSpan 0 2 5 true).denote.length = 16 := by decide

end EspadaVerif.C05
