import EspadaVerif.Model.Range
namespace EspadaVerif.C05
end EspadaVerif.C05
