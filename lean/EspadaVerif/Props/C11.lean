/-
C11 — Equities are invariant under suit relabelling and follow player reordering.

Tallies are defined on the specification's legal deals (`Spec.tally`); by `C02_refines`, `C03_some` and `C01_eval`
the showdowns the iterator yields are exactly these deals with exactly these hands and winner flags
(`C11_model_flags`).
-/
import EspadaVerif.Spec.Tally
import EspadaVerif.Props.C02

namespace EspadaVerif.C11
open EspadaVerif Spec

variable {W : Type}

/-- a permutation of the four suits -/
def SuitPerm (σ : Nat → Nat) : Prop := (∀ s, s < 4 → σ s < 4) ∧ (∀ s t, s < 4 → t < 4 → σ s = σ t → s = t)

/-- proper spec-level input: three distinct flop cards; every entry two different cards (codes below 52) -/
structure WfSpecInput (flop : List Nat) (entries : List (List (Nat × Nat × W))) : Prop where
  flop_len : flop.length = 3
  flop_nodup : flop.Nodup
  flop_lt : ∀ c ∈ flop, c < 52
  cards : ∀ es ∈ entries, ∀ e ∈ es, e.1 < 52 ∧ e.2.1 < 52 ∧ e.1 ≠ e.2.1

/-- the class of the best hand does not change when the suits are relabelled -/
theorem C11_best_suit (σ : Nat → Nat) (hσ : SuitPerm σ) (cards : List Nat) (hc : ∀ c ∈ cards, c < 52) :
    best ((cards.map (relabel σ)).map cardOfCode) = best (cards.map cardOfCode) := by
  sorry

/-- **C11 (suits).** Applying one permutation of the four suits to the flop and to every range leaves every
player's tally of outright wins (k = 1) and of k-way ties unchanged. -/
theorem C11_suits (σ : Nat → Nat) (hσ : SuitPerm σ) (flop : List Nat) (entries : List (List (Nat × Nat × W)))
    (h : WfSpecInput flop entries) (p k : Nat) :
    tally (flop.map (relabel σ)) (relabelEntries σ entries) p k = tally flop entries p k := by
  sorry

/-- **C11 (players).** Exchanging two neighbouring players exchanges their tallies and leaves the others'
unchanged (neighbour exchanges generate every reordering of the players). -/
theorem C11_players (flop : List Nat) (entries : List (List (Nat × Nat × W))) (i : Nat) (hi : i + 1 < entries.length)
    (p k : Nat) :
    tally flop (swapAt i entries) (swapIdx i p) k = tally flop entries p k := by
  sorry

/-- **C11 (pot).** In every deal with at least one player the number of flagged players is at least one, and it is
the `k` under which each of them is tallied: `k` shares of `1/k` make exactly one pot. -/
theorem C11_pot (flop : List Nat) (d : Deal W) (hne : d.choice ≠ []) :
    1 ≤ (dealWins flop d).countP id
    ∧ ((dealWins flop d).filter id).length = (dealWins flop d).countP id := by
  sorry

/-- the iterator's showdown of a legal deal carries exactly the specification's hands and winner flags -/
theorem C11_model_flags (ops : WOps W) (flop : List Card) (ranges : List (List (Combo × W))) (a b : Nat × Nat)
    (h : C02.WfInput flop ranges) (d : Deal W)
    (hd : d ∈ deals (flop.map Card.code) (C02.specEntries ranges) a b) :
    ∃ sd : Showdown W, C02.showdownOfDeal ops flop d = .ok (some sd)
      ∧ sd.players.map (·.hand) = dealHands (flop.map Card.code) d
      ∧ sd.players.map (·.win) = dealWins (flop.map Card.code) d := by
  sorry

end EspadaVerif.C11
