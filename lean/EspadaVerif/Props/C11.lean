/-
C11 — Equities are invariant under suit relabelling and follow player reordering.

Tallies are defined on the specification's legal deals (`Spec.tally`); by `C02_refines`, `C03_some` and `C01_eval`
the showdowns the iterator yields are exactly these deals with exactly these hands and winner flags
(`C11_model_flags`).

Helper lemmas: `Lemmas/TallySwap.lean` (neighbour exchange: lists, `product`, `winnersOf`) and
`Lemmas/TallyPairs.lean` (sums over unordered pairs of the deck, positions of the full scope).
-/
import EspadaVerif.Spec.Tally
import EspadaVerif.Props.C02
import EspadaVerif.Lemmas.TallySwap
import EspadaVerif.Lemmas.TallyPairs

namespace EspadaVerif.C11
open EspadaVerif Spec EspadaVerif.TallyLemmas

variable {W : Type}

/-- a permutation of the four suits -/
def SuitPerm (σ : Nat → Nat) : Prop := (∀ s, s < 4 → σ s < 4) ∧ (∀ s t, s < 4 → t < 4 → σ s = σ t → s = t)

/-- proper spec-level input: three distinct flop cards; every entry two different cards (codes below 52) -/
structure WfSpecInput (flop : List Nat) (entries : List (List (Nat × Nat × W))) : Prop where
  flop_len : flop.length = 3
  flop_nodup : flop.Nodup
  flop_lt : ∀ c ∈ flop, c < 52
  cards : ∀ es ∈ entries, ∀ e ∈ es, e.1 < 52 ∧ e.2.1 < 52 ∧ e.1 ≠ e.2.1

/-! ### relabelling one card, five cards, seven cards -/

/-- relabelling on (rank, suit) -/
def relabelCard (σ : Nat → Nat) (c : Nat × Nat) : Nat × Nat := (c.1, σ c.2)

theorem cardOfCode_relabel (σ : Nat → Nat) (hσ : SuitPerm σ) (c : Nat) :
    cardOfCode (relabel σ c) = relabelCard σ (cardOfCode c) := by
  have := hσ.1 (c % 4) (Nat.mod_lt _ (by omega))
  simp only [cardOfCode, relabel, relabelCard, Prod.mk.injEq]
  omega

theorem relabel_lt (σ : Nat → Nat) (hσ : SuitPerm σ) (c : Nat) (hc : c < 52) : relabel σ c < 52 := by
  have := hσ.1 (c % 4) (Nat.mod_lt _ (by omega))
  simp only [relabel]
  omega

theorem relabel_inj (σ : Nat → Nat) (hσ : SuitPerm σ) (a b : Nat) (h : relabel σ a = relabel σ b) : a = b := by
  have ha := hσ.1 (a % 4) (Nat.mod_lt _ (by omega))
  have hb := hσ.1 (b % 4) (Nat.mod_lt _ (by omega))
  simp only [relabel] at h
  have h1 : a / 4 = b / 4 := by omega
  have h2 : σ (a % 4) = σ (b % 4) := by omega
  have h3 := hσ.2 _ _ (Nat.mod_lt _ (by omega)) (Nat.mod_lt _ (by omega)) h2
  omega

theorem suit_surj (σ : Nat → Nat) (hσ : SuitPerm σ) (s : Nat) (hs : s < 4) : ∃ t, t < 4 ∧ σ t = s := by
  have h0 := hσ.1 0 (by omega)
  have h1 := hσ.1 1 (by omega)
  have h2 := hσ.1 2 (by omega)
  have h3 := hσ.1 3 (by omega)
  have n01 : σ 0 ≠ σ 1 := fun e => absurd (hσ.2 0 1 (by omega) (by omega) e) (by omega)
  have n02 : σ 0 ≠ σ 2 := fun e => absurd (hσ.2 0 2 (by omega) (by omega) e) (by omega)
  have n03 : σ 0 ≠ σ 3 := fun e => absurd (hσ.2 0 3 (by omega) (by omega) e) (by omega)
  have n12 : σ 1 ≠ σ 2 := fun e => absurd (hσ.2 1 2 (by omega) (by omega) e) (by omega)
  have n13 : σ 1 ≠ σ 3 := fun e => absurd (hσ.2 1 3 (by omega) (by omega) e) (by omega)
  have n23 : σ 2 ≠ σ 3 := fun e => absurd (hσ.2 2 3 (by omega) (by omega) e) (by omega)
  have : s = σ 0 ∨ s = σ 1 ∨ s = σ 2 ∨ s = σ 3 := by omega
  rcases this with e | e | e | e
  · exact ⟨0, by omega, e.symm⟩
  · exact ⟨1, by omega, e.symm⟩
  · exact ⟨2, by omega, e.symm⟩
  · exact ⟨3, by omega, e.symm⟩

theorem relabel_surj (σ : Nat → Nat) (hσ : SuitPerm σ) (n : Nat) (hn : n < 52) :
    ∃ m, m < 52 ∧ relabel σ m = n := by
  obtain ⟨t, ht, e⟩ := suit_surj σ hσ (n % 4) (Nat.mod_lt _ (by omega))
  refine ⟨4 * (n / 4) + t, by omega, ?_⟩
  have e1 : (4 * (n / 4) + t) / 4 = n / 4 := by omega
  have e2 : (4 * (n / 4) + t) % 4 = t := by omega
  simp only [relabel, e1, e2, e]
  omega

theorem nodup_map_relabel (σ : Nat → Nat) (hσ : SuitPerm σ) (l : List Nat) :
    (l.map (relabel σ)).Nodup ↔ l.Nodup := by
  unfold List.Nodup
  rw [List.pairwise_map]
  constructor
  · exact List.Pairwise.imp (fun h e => h (congrArg (relabel σ) e))
  · exact List.Pairwise.imp (fun h e => h (relabel_inj σ hσ _ _ e))

theorem class5_relabel (σ : Nat → Nat) (hσ : SuitPerm σ) (S : List (Nat × Nat)) (hS : ∀ c ∈ S, c.2 < 4) :
    class5 (S.map (relabelCard σ)) = class5 S := by
  have e1 : (S.map (relabelCard σ)).map (·.1) = S.map (·.1) := by
    rw [List.map_map]
    rfl
  have e2 : allSameSuit (S.map (relabelCard σ)) = allSameSuit S := by
    rw [Bool.eq_iff_iff, Lemmas.allSameSuit_iff, Lemmas.allSameSuit_iff]
    constructor
    · intro H x hx y hy
      have := H _ (List.mem_map_of_mem (f := relabelCard σ) hx) _ (List.mem_map_of_mem (f := relabelCard σ) hy)
      exact hσ.2 _ _ (hS x hx) (hS y hy) this
    · intro H x hx y hy
      obtain ⟨x', hx', rfl⟩ := List.mem_map.mp hx
      obtain ⟨y', hy', rfl⟩ := List.mem_map.mp hy
      simp only [relabelCard]
      rw [H x' hx' y' hy']
  unfold class5
  rw [e1, e2]

theorem best_relabelCard (σ : Nat → Nat) (hσ : SuitPerm σ) (Y : List (Nat × Nat)) (hY : ∀ c ∈ Y, c.2 < 4) :
    best (Y.map (relabelCard σ)) = best Y := by
  unfold best
  rw [Lemmas.choose_map, List.map_map]
  congr 1
  apply List.map_congr_left
  intro S hS
  have hsub := (Lemmas.sublist_of_mem_choose hS).1
  exact class5_relabel σ hσ S fun c hc => hY c (hsub.subset hc)

/-- `C11_best_suit` without the bound on the codes (it is not needed) -/
theorem best_relabel (σ : Nat → Nat) (hσ : SuitPerm σ) (cards : List Nat) :
    best ((cards.map (relabel σ)).map cardOfCode) = best (cards.map cardOfCode) := by
  have e : (cards.map (relabel σ)).map cardOfCode = (cards.map cardOfCode).map (relabelCard σ) := by
    simp only [List.map_map]
    apply List.map_congr_left
    intro c _
    exact cardOfCode_relabel σ hσ c
  rw [e]
  apply best_relabelCard σ hσ
  intro c hc
  obtain ⟨x, _, rfl⟩ := List.mem_map.mp hc
  exact Nat.mod_lt _ (by omega)

/-- the class of the best hand does not change when the suits are relabelled -/
theorem C11_best_suit (σ : Nat → Nat) (hσ : SuitPerm σ) (cards : List Nat) (hc : ∀ c ∈ cards, c < 52) :
    best ((cards.map (relabel σ)).map cardOfCode) = best (cards.map cardOfCode) := by
  have _ := hc  -- the bound is not needed: `relabel` never changes the rank, whatever the code
  exact best_relabel σ hσ cards

/-! ### the tally as a sum over positions of a count over choices -/

/-- the deal is legal, player `p` is flagged and exactly `k` players are -/
def dealOK (flop : List Nat) (p k : Nat) (d : Deal W) : Bool :=
  Deal.legal flop d && ((dealWins flop d)[p]? == some true && (dealWins flop d).countP id == k)

/-- number of choices counted for the turn / river cards `t`, `r` -/
def posCount (flop : List Nat) (entries : List (List (Nat × Nat × W))) (p k t r : Nat) : Nat :=
  (product entries).countP fun ch => dealOK flop p k { turn := t, river := r, choice := ch }

theorem countP_congr_eq {α : Type} {p q : α → Bool} {l : List α} (h : ∀ x ∈ l, p x = q x) :
    l.countP p = l.countP q :=
  List.countP_congr fun x hx => by rw [h x hx]

theorem tally_eq (flop : List Nat) (entries : List (List (Nat × Nat × W))) (p k : Nat) :
    tally flop entries p k = ((positionsBetween (0, 1) (48, 49)).map fun pos =>
      posCount flop entries p k ((deck49 flop).getD pos.1 0) ((deck49 flop).getD pos.2 0)).sum := by
  unfold tally deals
  simp only [List.countP_flatMap]
  congr 1
  apply List.map_congr_left
  intro pos _
  simp only [Function.comp, List.countP_filter, List.countP_map, posCount]
  apply countP_congr_eq
  intro ch _
  simp only [dealOK, Function.comp]
  rw [Bool.and_comm]

/-! ### exchanging two neighbouring players -/

theorem legal_perm_choice (flop : List Nat) (t r : Nat) (ch ch' : List (Nat × Nat × W)) (h : ch'.Perm ch) :
    Deal.legal flop { turn := t, river := r, choice := ch' } = Deal.legal flop { turn := t, river := r, choice := ch } := by
  unfold Deal.legal
  apply decide_eq_decide.mpr
  exact (List.Perm.append_left _ (h.flatMap_right _)).nodup_iff

theorem dealOK_swap (flop : List Nat) (i p k t r : Nat) (ch : List (Nat × Nat × W)) (hi : i + 1 < ch.length) :
    dealOK flop (swapIdx i p) k { turn := t, river := r, choice := swapAt i ch }
      = dealOK flop p k { turn := t, river := r, choice := ch } := by
  have hh : dealHands flop ({ turn := t, river := r, choice := swapAt i ch } : Deal W)
      = swapAt i (dealHands flop { turn := t, river := r, choice := ch }) := by
    simp only [dealHands, swapAt_map]
  have hw : dealWins flop ({ turn := t, river := r, choice := swapAt i ch } : Deal W)
      = swapAt i (dealWins flop { turn := t, river := r, choice := ch }) := by
    simp only [dealWins, hh, winnersOf_swapAt]
  have hl : i + 1 < (dealWins flop ({ turn := t, river := r, choice := ch } : Deal W)).length := by
    simpa [dealWins, winnersOf, dealHands] using hi
  unfold dealOK
  rw [legal_perm_choice flop t r ch (swapAt i ch) (swapAt_perm i ch), hw, swapAt_getElem? i p _ hl,
    (swapAt_perm i _).countP_eq]

theorem posCount_swap (flop : List Nat) (entries : List (List (Nat × Nat × W))) (i : Nat)
    (hi : i + 1 < entries.length) (p k t r : Nat) :
    posCount flop (swapAt i entries) (swapIdx i p) k t r = posCount flop entries p k t r := by
  unfold posCount
  rw [(product_swapAt i entries hi).countP_eq, List.countP_map]
  apply countP_congr_eq
  intro ch hch
  simp only [Function.comp]
  exact dealOK_swap flop i p k t r ch (by rw [product_length_eq hch]; exact hi)

/-! ### relabelling the suits of a deal -/

theorem dealOK_symm (flop : List Nat) (p k t r : Nat) (ch : List (Nat × Nat × W)) :
    dealOK flop p k { turn := t, river := r, choice := ch } = dealOK flop p k { turn := r, river := t, choice := ch } := by
  have hl : Deal.legal flop ({ turn := t, river := r, choice := ch } : Deal W)
      = Deal.legal flop { turn := r, river := t, choice := ch } := by
    unfold Deal.legal
    apply decide_eq_decide.mpr
    exact (List.Perm.append_right _ (List.Perm.append_left _ (List.Perm.swap _ _ _))).nodup_iff
  have hh : dealHands flop ({ turn := t, river := r, choice := ch } : Deal W)
      = dealHands flop { turn := r, river := t, choice := ch } := by
    unfold dealHands
    apply List.map_congr_left
    intro c _
    apply Lemmas.best_perm
    apply List.Perm.map
    exact ((List.Perm.append_left _ (List.Perm.swap _ _ _)).cons _).cons _
  unfold dealOK dealWins
  rw [hl, hh]

theorem posCount_symm (flop : List Nat) (entries : List (List (Nat × Nat × W))) (p k t r : Nat) :
    posCount flop entries p k t r = posCount flop entries p k r t := by
  unfold posCount
  apply countP_congr_eq
  intro ch _
  exact dealOK_symm flop p k t r ch

/-- relabelling of one entry -/
def relabelEntry (σ : Nat → Nat) (e : Nat × Nat × W) : Nat × Nat × W := (relabel σ e.1, relabel σ e.2.1, e.2.2)

theorem dealOK_relabel (σ : Nat → Nat) (hσ : SuitPerm σ) (flop : List Nat) (p k t r : Nat)
    (ch : List (Nat × Nat × W)) :
    dealOK (flop.map (relabel σ)) p k { turn := relabel σ t, river := relabel σ r, choice := ch.map (relabelEntry σ) }
      = dealOK flop p k { turn := t, river := r, choice := ch } := by
  have hl : Deal.legal (flop.map (relabel σ))
        ({ turn := relabel σ t, river := relabel σ r, choice := ch.map (relabelEntry σ) } : Deal W)
      = Deal.legal flop { turn := t, river := r, choice := ch } := by
    unfold Deal.legal
    apply decide_eq_decide.mpr
    have e : flop.map (relabel σ) ++ [relabel σ t, relabel σ r]
          ++ (ch.map (relabelEntry σ)).flatMap (fun c => [c.1, c.2.1])
        = (flop ++ [t, r] ++ ch.flatMap (fun c => [c.1, c.2.1])).map (relabel σ) := by
      simp only [List.map_append, List.map_cons, List.map_nil, List.flatMap_map, List.map_flatMap, relabelEntry]
    rw [e]
    exact nodup_map_relabel σ hσ _
  have hh : dealHands (flop.map (relabel σ))
        ({ turn := relabel σ t, river := relabel σ r, choice := ch.map (relabelEntry σ) } : Deal W)
      = dealHands flop { turn := t, river := r, choice := ch } := by
    unfold dealHands
    simp only [List.map_map]
    apply List.map_congr_left
    intro c _
    simp only [Function.comp, relabelEntry]
    have e : relabel σ c.1 :: relabel σ c.2.1 :: (flop.map (relabel σ) ++ [relabel σ t, relabel σ r])
        = (c.1 :: c.2.1 :: (flop ++ [t, r])).map (relabel σ) := by
      simp only [List.map_append, List.map_cons, List.map_nil]
    rw [e]
    exact best_relabel σ hσ _
  unfold dealOK dealWins
  rw [hl, hh]

theorem posCount_relabel (σ : Nat → Nat) (hσ : SuitPerm σ) (flop : List Nat) (entries : List (List (Nat × Nat × W)))
    (p k t r : Nat) :
    posCount (flop.map (relabel σ)) (relabelEntries σ entries) p k (relabel σ t) (relabel σ r)
      = posCount flop entries p k t r := by
  unfold posCount
  have e : relabelEntries σ entries = entries.map (List.map (relabelEntry σ)) := rfl
  rw [e, IterLemmas.product_map, List.countP_map]
  apply countP_congr_eq
  intro ch _
  simp only [Function.comp]
  exact dealOK_relabel σ hσ flop p k t r ch

/-- the deck of the relabelled flop is the relabelled deck, up to order -/
theorem deck49_relabel (σ : Nat → Nat) (hσ : SuitPerm σ) (flop : List Nat) :
    (deck49 (flop.map (relabel σ))).Perm ((deck49 flop).map (relabel σ)) := by
  rw [List.perm_ext_iff_of_nodup (IterLemmas.deck49_nodup _)
    ((nodup_map_relabel σ hσ _).mpr (IterLemmas.deck49_nodup _))]
  intro n
  simp only [IterLemmas.mem_deck49, List.mem_map]
  constructor
  · rintro ⟨hn, hnot⟩
    obtain ⟨m, hm, rfl⟩ := relabel_surj σ hσ n hn
    exact ⟨m, ⟨hm, fun hmf => hnot ⟨m, hmf, rfl⟩⟩, rfl⟩
  · rintro ⟨m, ⟨hm, hmf⟩, rfl⟩
    refine ⟨relabel_lt σ hσ m hm, ?_⟩
    rintro ⟨m', hm', e⟩
    rw [relabel_inj σ hσ _ _ e] at hm'
    exact hmf hm'

/-- **C11 (suits).** Applying one permutation of the four suits to the flop and to every range leaves every
player's tally of outright wins (k = 1) and of k-way ties unchanged. -/
theorem C11_suits (σ : Nat → Nat) (hσ : SuitPerm σ) (flop : List Nat) (entries : List (List (Nat × Nat × W)))
    (h : WfSpecInput flop entries) (p k : Nat) :
    tally (flop.map (relabel σ)) (relabelEntries σ entries) p k = tally flop entries p k := by
  have hD : (deck49 flop).length = 49 := IterLemmas.deck49_length flop h.flop_len h.flop_nodup h.flop_lt
  have hD' : (deck49 (flop.map (relabel σ))).length = 49 := by
    apply IterLemmas.deck49_length
    · simpa using h.flop_len
    · exact (nodup_map_relabel σ hσ _).mpr h.flop_nodup
    · intro n hn
      obtain ⟨m, hm, rfl⟩ := List.mem_map.mp hn
      exact relabel_lt σ hσ m (h.flop_lt m hm)
  rw [tally_eq, tally_eq, positionsBetween_full,
    sum_allPositions (posCount (flop.map (relabel σ)) (relabelEntries σ entries) p k) _ hD',
    sum_allPositions (posCount flop entries p k) _ hD,
    pairSum_perm _ (posCount_symm _ _ p k) (deck49_relabel σ hσ flop), pairSum_map]
  apply pairSum_congr
  intro x _ y _
  exact posCount_relabel σ hσ flop entries p k x y

/-- **C11 (players).** Exchanging two neighbouring players exchanges their tallies and leaves the others'
unchanged (neighbour exchanges generate every reordering of the players). -/
theorem C11_players (flop : List Nat) (entries : List (List (Nat × Nat × W))) (i : Nat) (hi : i + 1 < entries.length)
    (p k : Nat) :
    tally flop (swapAt i entries) (swapIdx i p) k = tally flop entries p k := by
  rw [tally_eq, tally_eq]
  congr 1
  apply List.map_congr_left
  intro pos _
  exact posCount_swap flop entries i hi p k _ _

/-! ### the pot -/

theorem exists_min (l : List Nat) (hne : l ≠ []) : ∃ m ∈ l, ∀ x ∈ l, m ≤ x := by
  induction l with
  | nil => exact absurd rfl hne
  | cons a l ih =>
    cases l with
    | nil => exact ⟨a, by simp, by simp⟩
    | cons b l =>
      obtain ⟨m, hm, hle⟩ := ih (by simp)
      by_cases hc : a ≤ m
      · refine ⟨a, by simp, ?_⟩
        intro x hx
        rcases List.mem_cons.mp hx with rfl | hx
        · exact Nat.le_refl _
        · exact Nat.le_trans hc (hle x hx)
      · refine ⟨m, List.mem_cons_of_mem _ hm, ?_⟩
        intro x hx
        rcases List.mem_cons.mp hx with rfl | hx
        · omega
        · exact hle x hx

/-- **C11 (pot).** In every deal with at least one player the number of flagged players is at least one, and it is
the `k` under which each of them is tallied: `k` shares of `1/k` make exactly one pot. -/
theorem C11_pot (flop : List Nat) (d : Deal W) (hne : d.choice ≠ []) :
    1 ≤ (dealWins flop d).countP id
    ∧ ((dealWins flop d).filter id).length = (dealWins flop d).countP id := by
  refine ⟨?_, List.countP_eq_length_filter.symm⟩
  have hne' : dealHands flop d ≠ [] := by
    unfold dealHands
    intro h0
    exact hne (List.map_eq_nil_iff.mp h0)
  obtain ⟨m, hm, hle⟩ := exists_min _ hne'
  rw [List.one_le_countP_iff]
  refine ⟨true, ?_, rfl⟩
  unfold dealWins winnersOf
  refine List.mem_map.mpr ⟨m, hm, ?_⟩
  rw [List.all_eq_true]
  intro x hx
  exact decide_eq_true (hle x hx)

/-! ### the iterator's showdowns -/

theorem toSpec_code (c : Card) (hv : c.valid = true) : C01.toSpec c = cardOfCode c.code := by
  obtain ⟨r, s⟩ := c
  simp only [Card.valid, Bool.and_eq_true, decide_eq_true_eq] at hv
  simp only [C01.toSpec, cardOfCode, Card.code, Prod.mk.injEq]
  omega

theorem toSpec_ofCode (n : Nat) : C01.toSpec (Card.ofCode n) = cardOfCode n := rfl

open EspadaVerif.IterLemmas in
/-- the iterator's showdown of a legal deal carries exactly the specification's hands and winner flags -/
theorem C11_model_flags (ops : WOps W) (flop : List Card) (ranges : List (List (Combo × W))) (a b : Nat × Nat)
    (h : C02.WfInput flop ranges) (d : Deal W)
    (hd : d ∈ deals (flop.map Card.code) (C02.specEntries ranges) a b) :
    ∃ sd : Showdown W, C02.showdownOfDeal ops flop d = .ok (some sd)
      ∧ sd.players.map (·.hand) = dealHands (flop.map Card.code) d
      ∧ sd.players.map (·.win) = dealWins (flop.map Card.code) d := by
  have hf : WfFlop flop := ⟨h.flop_len, h.flop_nodup, h.flop_valid⟩
  have hr : RWf ranges := h.combos
  rw [deals_eq] at hd
  simp only [List.mem_flatMap, List.mem_filter, List.mem_map] at hd
  obtain ⟨p, hp, ⟨ch, hch, rfl⟩, hleg⟩ := hd
  have hchw : ChWf ch := chWf_of_product hr hch
  have hpp := mem_positionsBetween hp
  have hnd := (legal_iff_nodup flop p ch hf hpp hchw).mp hleg
  obtain ⟨_, hno⟩ := (nodup_split flop p ch hf hpp).mp hnd
  obtain ⟨sd, h1, _, _, h4, h5, h6, _⟩ := C03.C03_some (flop ++ [cardAt flop p.1, cardAt flop p.2]) (ch.map (·.1))
    (ch.foldl (fun p c => ops.mul p c.2) ops.one) (wfTable flop p ch hf hpp hchw) hno
  have hh : sd.players.map (·.hand) = dealHands (flop.map Card.code) (dealOf flop p ch) := by
    have e1 : sd.players.map (·.hand) = (sd.players.map (·.hole)).map (fun hl =>
        best ((sevenCards hl (flop ++ [cardAt flop p.1, cardAt flop p.2])).map C01.toSpec)) := by
      rw [List.map_map]
      apply List.map_congr_left
      intro pl hpl
      exact (h5 pl hpl).2
    rw [e1, h4]
    unfold dealHands dealOf
    simp only [List.map_map]
    apply List.map_congr_left
    intro e he
    obtain ⟨v1, v2, _⟩ := hchw e he
    have ef : flop.map C01.toSpec = (flop.map Card.code).map cardOfCode := by
      rw [List.map_map]
      apply List.map_congr_left
      intro c hc
      exact toSpec_code c (hf.valid c hc)
    simp only [Function.comp, IterLemmas.toSpec, sevenCards, cardAt, List.map_cons, List.map_append, List.map_nil,
      toSpec_ofCode, toSpec_code _ v1, toSpec_code _ v2, ef]
  refine ⟨sd, by rw [showdownOfDeal_eq ops flop p ch hchw, h1], hh, ?_⟩
  rw [h6, hh]
  rfl

/-- `k` winners each taking `1/k` of the pot take exactly one pot -/
theorem C11_pot_shares (k : Nat) (hk : 1 ≤ k) : (k : Rat) * (1 / (k : Rat)) = 1 := by
  have : (k : Rat) ≠ 0 := by
    intro h
    have : k = 0 := by exact_mod_cast h
    omega
  rw [Rat.div_def, Rat.one_mul, Rat.mul_inv_cancel _ this]

end EspadaVerif.C11
