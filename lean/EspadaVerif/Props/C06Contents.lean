/-
C06 (gap F4) — the round trip with the hypothesis on the range's CONTENTS.

`C06_range` asks `∀ e ∈ r, ComboOk e.1 ∧ inDom e.2` of the insert HISTORY, overwritten inserts included:
`[(AsKs, 0.5), (AsKs, 2.0)]` (2.0 inserted first, then overwritten) has contents `{AsKs: 0.5}` but violates it.
Here the hypothesis is on what `lookup` answers.  Text and lookups depend only on the contents (`C17_canonical`,
`C12.lookup_contents`), so `C06_range` applied to `HandRange.contents r` transfers to `r`.
-/
import EspadaVerif.Props.C06
import EspadaVerif.Props.C17
import EspadaVerif.Props.C12General
import EspadaVerif.Props.Witness.Common

set_option Elab.async false

namespace EspadaVerif.C06
open EspadaVerif TextDefs

variable {W : Type}

/-- **C06 (range), contents form.** For every range whose CURRENT entries are pairs of distinct cards (in canonical
order) with weights in the domain — whatever was inserted and overwritten before — the text form parses back to a range
with the same combos and the same weights. -/
theorem C06_range_contents (wt : WText W) (inDom : W → Prop) (hok : WTextOk wt inDom) (r : HandRange W)
    (hr : ∀ c w, r.lookup c = some w → ComboOk c ∧ inDom w) :
    ∃ txt r', showRange wt r = .ok txt ∧ parseRange wt txt = .ok r' ∧ ∀ c, r'.lookup c = r.lookup c := by
  have hc : ∀ e ∈ HandRange.contents r, ComboOk e.1 ∧ inDom e.2 :=
    fun e he => hr e.1 e.2 (C12.lookup_of_mem_contents r e he)
  obtain ⟨txt, r', h1, h2, h3⟩ := C06_range wt inDom hok (HandRange.contents r) hc
  have hshow : showRange wt (HandRange.contents r) = showRange wt r :=
    (C17.C17_canonical wt (HandRange.contents r) r (C12.lookup_contents r)).1
  exact ⟨txt, r', hshow ▸ h1, h2, fun c => (h3 c).trans (C12.lookup_contents r c)⟩

/-- `C06_range` is the special case of a history that satisfies the hypothesis throughout -/
theorem C06_range_of_contents (wt : WText W) (inDom : W → Prop) (hok : WTextOk wt inDom) (r : HandRange W)
    (hr : ∀ e ∈ r, ComboOk e.1 ∧ inDom e.2) :
    ∃ txt r', showRange wt r = .ok txt ∧ parseRange wt txt = .ok r' ∧ ∀ c, r'.lookup c = r.lookup c :=
  C06_range_contents wt inDom hok r
    (C12.contents_hyp_of_history (P := fun c w => ComboOk c ∧ inDom w) r hr)

/-! ### a history with an overwritten out-of-domain weight and an overwritten malformed key -/

open EspadaVerif.Witness

/-- A♠K♠ inserted with weight 2 (outside the domain {0, 0.5, 1}) and then overwritten with 0.5; the other three suited
ace-kings at 0.5; 7♦7♣ at 1 -/
def rOver : HandRange Wt :=
  [(⟨⟨0, 0⟩, ⟨1, 0⟩⟩, .half), (⟨⟨7, 2⟩, ⟨7, 3⟩⟩, .one), (⟨⟨0, 3⟩, ⟨1, 3⟩⟩, .half), (⟨⟨0, 2⟩, ⟨1, 2⟩⟩, .half),
   (⟨⟨0, 1⟩, ⟨1, 1⟩⟩, .half), (⟨⟨0, 0⟩, ⟨1, 0⟩⟩, .two)]

/-- the history hypothesis of `C06_range` fails on it … -/
example : ¬ ∀ e ∈ rOver, ComboOk e.1 ∧ wtDom e.2 :=
  fun h => (h (⟨⟨0, 0⟩, ⟨1, 0⟩⟩, .two) (by decide)).2 rfl

/-- … the contents hypothesis holds -/
theorem rOver_ok : ∀ c w, rOver.lookup c = some w → ComboOk c ∧ wtDom w := by
  intro c w h
  simp only [rOver, HandRange.lookup] at h
  repeat' split at h
  all_goals first
    | (cases h; subst_vars; exact ⟨⟨by decide, by decide, by decide⟩, by decide⟩)
    | cases h

theorem C06_range_contents_at_witness :
    ∃ txt r', showRange wtText rOver = .ok txt ∧ parseRange wtText txt = .ok r' ∧ ∀ c, r'.lookup c = rOver.lookup c :=
  C06_range_contents wtText wtDom wtextOk rOver rOver_ok

/-- by evaluation: the text is `AKs:0.5,7d7c,7d7c` (the leftover pass meets a pocket combo under both suit orders and
writes it twice; parsing is idempotent on repeated tokens) and it parses back to the same five current entries -/
example : showRange wtText rOver = .ok [65, 75, 115, 58, 48, 46, 53, 44, 55, 100, 55, 99, 44, 55, 100, 55, 99] := by
  decide +kernel
example : (match parseRange wtText [65, 75, 115, 58, 48, 46, 53, 44, 55, 100, 55, 99, 44, 55, 100, 55, 99] with
    | .ok r' => some (r'.lookup ⟨⟨0, 0⟩, ⟨1, 0⟩⟩, r'.lookup ⟨⟨7, 2⟩, ⟨7, 3⟩⟩, r'.lookup ⟨⟨0, 0⟩, ⟨2, 0⟩⟩)
    | _ => none) = some (some .half, some .one, none) := by decide +kernel

end EspadaVerif.C06
