/-
Props/C05Oracle: two facts about the *specification side* of C05 (`Spec/Notation.lean`), independent of the crate.

* the notation is unambiguous: two well-formed tokens with the same text are the same token, so "the standard meaning of a
  token text" (C05) is well defined;
* the reader the correspondence oracle uses to attach `Spec.denote` to a request (`Spec.readToken`, run by the driver)
  recognises every well-formed token from its text and never returns anything but the token whose text it was given —
  so no well-formed request escapes the `[C05]` oracle predicate, and the predicate is never attached to the wrong token.
-/
import EspadaVerif.Lemmas.ReadToken

namespace EspadaVerif.C05

theorem C05_notation_unambiguous (w₁ w₂ : Spec.WfToken) (h₁ : w₁.wf = true) (h₂ : w₂.wf = true)
    (h : w₁.text = w₂.text) : w₁ = w₂ :=
  Spec.text_injective w₁ w₂ h₁ h₂ h

theorem C05_oracle_reader_complete (w : Spec.WfToken) (h : w.wf = true) : Spec.readToken w.text = some w :=
  Spec.readToken_complete w h

theorem C05_oracle_reader_sound (t : List Nat) (w : Spec.WfToken) (h : Spec.readToken t = some w) :
    w.wf = true ∧ w.text = t :=
  Spec.readToken_sound t w h

/-- the hypotheses are satisfiable: "A9s+" is a well-formed token, read back from its text -/
example : (Spec.WfToken.pairPlus 0 5 true).wf = true ∧
    Spec.readToken (Spec.WfToken.pairPlus 0 5 true).text = some (.pairPlus 0 5 true) := by decide

end EspadaVerif.C05
