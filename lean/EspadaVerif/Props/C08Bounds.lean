/-
C08 (bounds) — the `Nat` arithmetic of the iterator model is faithful to the machine integers of the code.

The model (`Model/Iter.lean`) computes `t + 1`, `r + 1`, `idx + 1` on unbounded naturals; the Rust code keeps
`current_turn_index`, `current_river_index`, `turn_to`, `river_to` in `u8` and the per-player counters in
`usize`.  This file proves the invariant that makes the two agree: in EVERY state the iterator can be in
between two iterations of the loop of `next` (`Reachable`: the initial state and every state produced by one
more `step`, so the intermediate states of the skip loop inside one `next()` call are included)

  `t ≤ 48`, `r ≤ 49`, `t < r`, `turn_to ≤ 48`, `river_to ≤ 49`, every counter `<` its player's entry count
  (`= 0` for an empty list),

hence every value ever stored in a `u8` field is `≤ 49 < 256`, every `+ 1` performed on one yields at most 49
and every `+ 1` performed on a counter yields at most the length of a `Vec` (`C08_u8`, `C08_advance_arith`).
No debug-build overflow trap and no release-build wrap-around can occur, so "debug and release alike" holds for
the arithmetic.  Only `ValidScope a b` is needed (not even a well-formed input).

`C08_steps` exports the exact number of loop iterations of a full run (the `hfuel` of `C02_refines`).

The file ends with a finding about `scope()` that needs the invariant (namespace `EspadaVerif.C04`): the
`debug_assert!`s are weaker than `ValidScope`; a bound `(tt, 49)` acts like `(48, 49)` (`C04_to_river49`), other
arguments they let through make `next()` panic.
-/
import EspadaVerif.Props.C08
import EspadaVerif.Props.C04Model

set_option Elab.async false

namespace EspadaVerif.C08
open EspadaVerif Spec C02 EspadaVerif.IterLemmas

variable {W : Type}

/-! ### reachable iterator states -/

/-- the states the iterator passes through, one loop iteration (`step`) at a time, starting from `s₀`;
`step` answers `done` without changing the state, `yield`/`skip` with the advanced state -/
inductive Reachable (ops : WOps W) (s₀ : IterState W) : IterState W → Prop
  | init : Reachable ops s₀ s₀
  | after {s s' : IterState W} {o : StepOut W} :
      Reachable ops s₀ s → EspadaVerif.step ops s = .ok (o, s') → Reachable ops s₀ s'

theorem Reachable.trans {ops : WOps W} {s₀ s₁ s₂ : IterState W}
    (h1 : Reachable ops s₀ s₁) (h2 : Reachable ops s₁ s₂) : Reachable ops s₀ s₂ := by
  induction h2 with
  | init => exact h1
  | after _ hs ih => exact Reachable.after ih hs

/-- every state on a run (`Runs`, the relation `C02_refines` is proved with) is reachable -/
theorem Reachable.of_runs {ops : WOps W} {s s' : IterState W} {outs : List (Option (Showdown W))}
    (h : Runs ops s outs s') : Reachable ops s s' := by
  induction h with
  | nil s => exact Reachable.init
  | yield hs _ ih => exact (Reachable.after Reachable.init hs).trans ih
  | skip hs _ ih => exact (Reachable.after Reachable.init hs).trans ih

/-- the state in which a `next()` call leaves the iterator is reachable from the one it started in -/
theorem Reachable.of_nextFuel (ops : WOps W) :
    ∀ (fuel : Nat) (s s' : IterState W) (o : Option (Showdown W)),
      nextFuel ops fuel s = .ok (o, s') → Reachable ops s s' := by
  intro fuel
  induction fuel with
  | zero => intro s s' o h; cases h
  | succ f ih =>
    intro s s' o h
    rw [nextFuel] at h
    split at h
    · next s1 hs =>
      have e := (Prod.mk.inj (Res.ok.inj h)).2
      rw [← e]
      exact Reachable.after Reachable.init hs
    · next sd s1 hs =>
      have e := (Prod.mk.inj (Res.ok.inj h)).2
      rw [← e]
      exact Reachable.after Reachable.init hs
    · next s1 hs =>
      exact (Reachable.after Reachable.init hs).trans (ih s1 s' o h)
    · cases h
    · cases h

theorem Reachable.of_next (ops : WOps W) {s s' : IterState W} {o : Option (Showdown W)}
    (h : next ops s = .ok (o, s')) : Reachable ops s s' :=
  Reachable.of_nextFuel ops _ s s' o h

/-- the state in which a drain (any number of `next()` calls) leaves the iterator is reachable -/
theorem Reachable.of_drain (ops : WOps W) :
    ∀ (limit : Nat) (s s' : IterState W) (acc l : List (Showdown W)),
      drainFuel ops limit s acc = .ok (l, s') → Reachable ops s s' := by
  intro limit
  induction limit with
  | zero =>
    intro s s' acc l h
    rw [drainFuel] at h
    rw [← (Prod.mk.inj (Res.ok.inj h)).2]
    exact Reachable.init
  | succ n ih =>
    intro s s' acc l h
    rw [drainFuel] at h
    split at h
    · next sd s1 hs => exact (Reachable.of_next ops hs).trans (ih s1 s' _ l h)
    · next s1 hs =>
      rw [← (Prod.mk.inj (Res.ok.inj h)).2]
      exact Reachable.of_next ops hs
    · cases h
    · cases h

/-! ### the counters -/

/-- every counter is below its player's entry count, or is 0 for an empty list; same number of both -/
def CountersOk : List Nat → List Nat → Prop
  | [], [] => True
  | i :: v, n :: lens => (i < n ∨ (n = 0 ∧ i = 0)) ∧ CountersOk v lens
  | _, _ => False

theorem countersOk_replicate : ∀ lens : List Nat, CountersOk (List.replicate lens.length 0) lens := by
  intro lens
  induction lens with
  | nil => exact True.intro
  | cons n lens ih =>
    refine ⟨?_, ih⟩
    omega

theorem CountersOk.length : ∀ {v lens : List Nat}, CountersOk v lens → v.length = lens.length := by
  intro v
  induction v with
  | nil =>
    intro lens h
    cases lens with
    | nil => rfl
    | cons _ _ => exact absurd h (by simp [CountersOk])
  | cons i v ih =>
    intro lens h
    cases lens with
    | nil => exact absurd h (by simp [CountersOk])
    | cons n lens => simp [ih h.2]

theorem CountersOk.get : ∀ {v lens : List Nat}, CountersOk v lens →
    ∀ (i c n : Nat), v[i]? = some c → lens[i]? = some n → c < n ∨ (n = 0 ∧ c = 0) := by
  intro v
  induction v with
  | nil => intro lens _ i c n hc _; simp at hc
  | cons x v ih =>
    intro lens h i c n hc hn
    cases lens with
    | nil => simp at hn
    | cons m lens =>
      cases i with
      | zero =>
        simp only [List.getElem?_cons_zero, Option.some.injEq] at hc hn
        subst hc; subst hn
        exact h.1
      | succ i =>
        simp only [List.getElem?_cons_succ] at hc hn
        exact ih h.2 i c n hc hn

/-- the odometer step keeps the counters in range -/
theorem CountersOk.bump : ∀ {v lens : List Nat} {k : Nat}, incrementable v lens = some k →
    CountersOk v lens → CountersOk (bump v k) lens := by
  intro v
  induction v with
  | nil => intro lens k h _; simp [incrementable] at h
  | cons i v ih =>
    intro lens k h hc
    cases lens with
    | nil => simp [incrementable] at h
    | cons n lens =>
      rw [incrementable] at h
      split at h
      · next k' hk' =>
        have e : k = k' + 1 := (Option.some.inj h).symm
        rw [e, bump_succ]
        exact ⟨hc.1, ih hk' hc.2⟩
      · next hk' =>
        split at h
        · next hlt =>
          have e : k = 0 := (Option.some.inj h).symm
          rw [e, bump_zero, hc.2.length]
          exact ⟨Or.inl hlt, countersOk_replicate lens⟩
        · cases h

/-! ### the invariant -/

/-- what holds in every reachable state of the iterator of `mkEvaluator flop ranges a b` -/
structure Inv (ranges : List (List (Combo × W))) (b : Nat × Nat) (s : IterState W) : Prop where
  turnTo : s.turnTo = b.1
  riverTo : s.riverTo = b.2
  entries : s.entries = ranges
  pos_valid : validPos (s.t, s.r) = true
  pos_le : posLe (s.t, s.r) b = true
  counters : CountersOk s.idx (ranges.map List.length)

/-- the fields `into_iter` fills in -/
theorem intoIter_fields (e : Evaluator W) (s₀ : IterState W) (h : e.intoIter = .ok s₀) :
    s₀.turnTo = e.turnTo ∧ s₀.riverTo = e.riverTo ∧ s₀.entries = e.ranges ∧ s₀.board = e.board
      ∧ s₀.t = e.turnFrom ∧ s₀.r = e.riverFrom ∧ s₀.idx = List.replicate e.ranges.length 0
      ∧ s₀.deck.length = 49 := by
  unfold Evaluator.intoIter at h
  split at h
  · dsimp only at h
    split at h
    · next hlen =>
      have e := Res.ok.inj h
      rw [← e]
      exact ⟨rfl, rfl, rfl, rfl, rfl, rfl, rfl, hlen⟩
    · cases h
  · cases h

theorem inv_init (flop : List Card) (ranges : List (List (Combo × W))) (a b : Nat × Nat) (hs : ValidScope a b)
    (s₀ : IterState W) (h0 : (mkEvaluator flop ranges a b).intoIter = .ok s₀) : Inv ranges b s₀ := by
  obtain ⟨h1, h2, h3, _, h5, h6, h7, _⟩ := intoIter_fields _ s₀ h0
  refine ⟨h1, h2, h3, ?_, ?_, ?_⟩
  · rw [h5, h6]; exact hs.from_valid
  · rw [h5, h6]; exact hs.ordered
  · rw [h7]
    have := countersOk_replicate (ranges.map List.length)
    rw [List.length_map] at this
    exact this

/-- the two shapes of `advance`: an odometer step, or the river / turn step with all counters reset -/
theorem advance_cases (s : IterState W) :
    (∃ k, incrementable s.idx (s.entries.map List.length) = some k
        ∧ advance s = { s with idx := bump s.idx k })
    ∨ (incrementable s.idx (s.entries.map List.length) = none
        ∧ advance s = { s with t := (nextPos (s.t, s.r)).1, r := (nextPos (s.t, s.r)).2,
                               idx := List.replicate s.idx.length 0 }) := by
  unfold advance
  cases hinc : incrementable s.idx (s.entries.map List.length) with
  | some k => exact Or.inl ⟨k, rfl, rfl⟩
  | none =>
    refine Or.inr ⟨rfl, ?_⟩
    simp only [nextPos, show Gen.riverRollover = 48 from rfl]
    split <;> rfl

/-- in a state where the stop test of `next` fails, the position is a real one strictly before the bound -/
theorem inv_not_stopped {ranges : List (List (Combo × W))} {b : Nat × Nat} {s : IterState W}
    (hb : validPos b = true) (hi : Inv ranges b s)
    (hstop : ¬ ((decide (s.t ≥ s.turnTo) && decide (s.r ≥ s.riverTo)) = true)) :
    posLt (s.t, s.r) b = true ∧ (s.t < s.r ∧ s.r < 49) ∧ validPos (nextPos (s.t, s.r)) = true
      ∧ posLe (nextPos (s.t, s.r)) b = true := by
  have hlt : posLt (s.t, s.r) b = true := by
    rcases (posLe_iff _ _).mp hi.pos_le with h | h
    · exact h
    · exfalso
      apply hstop
      rw [hi.turnTo, hi.riverTo, ← h]
      simp
  obtain ⟨h1, h2, h3⟩ := nextPos_valid hi.pos_valid hb hlt
  exact ⟨hlt, h1, h2, h3⟩

theorem inv_advance {ranges : List (List (Combo × W))} {b : Nat × Nat} {s : IterState W}
    (hb : validPos b = true) (hi : Inv ranges b s)
    (hstop : ¬ ((decide (s.t ≥ s.turnTo) && decide (s.r ≥ s.riverTo)) = true)) :
    Inv ranges b (advance s) := by
  obtain ⟨_, _, hv, hle⟩ := inv_not_stopped hb hi hstop
  rcases advance_cases s with ⟨k, hk, e⟩ | ⟨_, e⟩
  · rw [e]
    rw [hi.entries] at hk
    exact ⟨hi.turnTo, hi.riverTo, hi.entries, hi.pos_valid, hi.pos_le, hi.counters.bump hk⟩
  · rw [e]
    refine ⟨hi.turnTo, hi.riverTo, hi.entries, hv, hle, ?_⟩
    have := countersOk_replicate (ranges.map List.length)
    rw [← hi.counters.length] at this
    exact this

/-- the three outcomes of one loop iteration: `done` leaves the state alone; `yield` and `skip` happen only
when the stop test failed and every range is non-empty, and move to `advance s` -/
theorem step_cases (ops : WOps W) {s s' : IterState W} {o : StepOut W} (h : step ops s = .ok (o, s')) :
    (o = .done ∧ s' = s)
    ∨ (s' = advance s ∧ ¬ ((decide (s.t ≥ s.turnTo) && decide (s.r ≥ s.riverTo)) = true)
        ∧ ¬ (s.entries.any List.isEmpty = true) ∧ (o = .skip ∨ ∃ sd, o = .yield sd)) := by
  unfold step at h
  split at h
  · have e := Prod.mk.inj (Res.ok.inj h)
    exact Or.inl ⟨e.1.symm, e.2.symm⟩
  · next hstop =>
    split at h
    · have e := Prod.mk.inj (Res.ok.inj h)
      exact Or.inl ⟨e.1.symm, e.2.symm⟩
    · next hemp =>
      split at h
      · next sd _ =>
        have e := Prod.mk.inj (Res.ok.inj h)
        exact Or.inr ⟨e.2.symm, hstop, hemp, Or.inr ⟨sd, e.1.symm⟩⟩
      · have e := Prod.mk.inj (Res.ok.inj h)
        exact Or.inr ⟨e.2.symm, hstop, hemp, Or.inl e.1.symm⟩
      · cases h

theorem inv_step (ops : WOps W) {ranges : List (List (Combo × W))} {b : Nat × Nat} {s s' : IterState W}
    {o : StepOut W} (hb : validPos b = true) (hi : Inv ranges b s) (h : step ops s = .ok (o, s')) :
    Inv ranges b s' := by
  rcases step_cases ops h with ⟨_, e⟩ | ⟨e, hstop, _, _⟩
  · rw [e]; exact hi
  · rw [e]; exact inv_advance hb hi hstop

/-- the invariant is kept along any number of loop iterations -/
theorem inv_reachable (ops : WOps W) {ranges : List (List (Combo × W))} {b : Nat × Nat} (hb : validPos b = true)
    {s s' : IterState W} (hi : Inv ranges b s) (hr : Reachable ops s s') : Inv ranges b s' := by
  induction hr with
  | init => exact hi
  | after _ hstep ih => exact inv_step ops hb ih hstep

/-- **C08 (invariant).** Every reachable state of the iterator of a validly scoped evaluator satisfies `Inv`. -/
theorem C08_inv (ops : WOps W) (flop : List Card) (ranges : List (List (Combo × W))) (a b : Nat × Nat)
    (hs : ValidScope a b) (s₀ : IterState W) (h0 : (mkEvaluator flop ranges a b).intoIter = .ok s₀)
    (s : IterState W) (hr : Reachable ops s₀ s) : Inv ranges b s := by
  induction hr with
  | init => exact inv_init flop ranges a b hs s₀ h0
  | after _ hstep ih => exact inv_step ops hs.to_valid ih hstep

/-! ### the machine-integer bounds -/

theorem validPos_bounds {p : Nat × Nat} (h : validPos p = true) : p.1 ≤ 48 ∧ p.2 ≤ 49 ∧ p.1 < p.2 := by
  obtain ⟨t, r⟩ := p
  have := (validPos_iff _).mp h
  simp only [Prod.mk.injEq] at this ⊢
  omega

/-- **C08 (`u8` fields and counters stay in range).** In every reachable state `s` of the iterator of a
validly scoped evaluator — every state between two loop iterations, inside or between `next()` calls —
* the two `u8` indices satisfy `t ≤ 48`, `r ≤ 49`, `t < r`, and so do the two `u8` bounds `turn_to`, `river_to`
  (which are the `b` of the scope and never change): all four are `< 256`;
* the position is not beyond the bound of the scope;
* there is one counter per player, and each is `<` that player's entry count, or is `0` if the player's list
  is empty; the entry lists are those of the evaluator. -/
theorem C08_u8 (ops : WOps W) (flop : List Card) (ranges : List (List (Combo × W))) (a b : Nat × Nat)
    (hs : ValidScope a b) (s₀ : IterState W) (h0 : (mkEvaluator flop ranges a b).intoIter = .ok s₀) :
    ∀ s, Reachable ops s₀ s →
      (s.t ≤ 48 ∧ s.r ≤ 49 ∧ s.t < s.r)
      ∧ (s.turnTo = b.1 ∧ s.riverTo = b.2 ∧ s.turnTo ≤ 48 ∧ s.riverTo ≤ 49 ∧ s.turnTo < s.riverTo)
      ∧ (s.t < 256 ∧ s.r < 256 ∧ s.turnTo < 256 ∧ s.riverTo < 256)
      ∧ posLe (s.t, s.r) (s.turnTo, s.riverTo) = true
      ∧ s.entries = ranges ∧ s.idx.length = ranges.length
      ∧ ∀ (i c : Nat) (es : List (Combo × W)), s.idx[i]? = some c → s.entries[i]? = some es →
          c < es.length ∨ (es = [] ∧ c = 0) := by
  intro s hr
  have hi := C08_inv ops flop ranges a b hs s₀ h0 s hr
  have h1 := validPos_bounds hi.pos_valid
  have h2 := validPos_bounds hs.to_valid
  simp only at h1
  refine ⟨h1, ⟨hi.turnTo, hi.riverTo, ?_, ?_, ?_⟩, ?_, ?_, hi.entries, ?_, ?_⟩
  · rw [hi.turnTo]; exact h2.1
  · rw [hi.riverTo]; exact h2.2.1
  · rw [hi.turnTo, hi.riverTo]; exact h2.2.2
  · rw [hi.turnTo, hi.riverTo]; omega
  · rw [hi.turnTo, hi.riverTo]; exact hi.pos_le
  · rw [hi.counters.length, List.length_map]
  · intro i c es hc hes
    rw [hi.entries] at hes
    have hn : (ranges.map List.length)[i]? = some es.length := by
      rw [List.getElem?_map, hes]; rfl
    rcases hi.counters.get i c es.length hc hn with h | ⟨h, h'⟩
    · exact Or.inl h
    · exact Or.inr ⟨List.eq_nil_of_length_eq_zero h, h'⟩

/-- **C08 (no `+ 1` overflows).**  One loop iteration from a reachable state either answers `done` and leaves
the state alone (no arithmetic is performed), or moves to `advance s`; in that case the position is a real one
(`t < r ≤ 48`), so each of the additions `advance` can perform on a `u8` — `current_river_index += 1`,
`current_turn_index += 1`, `current_turn_index + 1` — has a result `≤ 49`, and each addition
`current_player_indexes[ri] + 1` of the scan for the counter to increment (and the increment itself) has a
result `≤` the length of that player's `Vec`; the deck indices `t`, `r` are `< 49`. -/
theorem C08_advance_arith (ops : WOps W) (flop : List Card) (ranges : List (List (Combo × W))) (a b : Nat × Nat)
    (hs : ValidScope a b) (s₀ : IterState W) (h0 : (mkEvaluator flop ranges a b).intoIter = .ok s₀)
    (s s' : IterState W) (o : StepOut W) (hr : Reachable ops s₀ s) (hstep : step ops s = .ok (o, s')) :
    (o = .done ∧ s' = s)
    ∨ ((o = .skip ∨ ∃ sd, o = .yield sd) ∧ s' = advance s
        ∧ s.t < s.r ∧ s.r < 49
        ∧ s.r + 1 ≤ 49 ∧ s.t + 1 ≤ 48 ∧ s.t + 1 + 1 ≤ 49
        ∧ (s'.t ≤ 48 ∧ s'.r ≤ 49 ∧ s'.t < s'.r)
        ∧ ∀ (i c : Nat) (es : List (Combo × W)), s.idx[i]? = some c → s.entries[i]? = some es →
            c + 1 ≤ es.length) := by
  have hi := C08_inv ops flop ranges a b hs s₀ h0 s hr
  rcases step_cases ops hstep with h | ⟨e, hstop, hemp, ho⟩
  · exact Or.inl h
  · obtain ⟨_, hp, _, _⟩ := inv_not_stopped hs.to_valid hi hstop
    have hu := (C08_u8 ops flop ranges a b hs s₀ h0 s' (Reachable.after hr hstep)).1
    have hc := (C08_u8 ops flop ranges a b hs s₀ h0 s hr).2.2.2.2.2.2
    refine Or.inr ⟨ho, e, hp.1, hp.2, by omega, by omega, by omega, hu, ?_⟩
    intro i c es hci hes
    rcases hc i c es hci hes with h | ⟨h, _⟩
    · exact h
    · exfalso
      apply hemp
      rw [List.any_eq_true]
      exact ⟨es, List.mem_of_getElem? hes, by rw [h]; rfl⟩

/-- the same bounds for what a caller can observe: the state after any number of `next()` calls -/
theorem C08_u8_after_drain (ops : WOps W) (flop : List Card) (ranges : List (List (Combo × W))) (a b : Nat × Nat)
    (hs : ValidScope a b) (s₀ : IterState W) (h0 : (mkEvaluator flop ranges a b).intoIter = .ok s₀)
    (limit : Nat) (l : List (Showdown W)) (s : IterState W) (hd : drainFuel ops limit s₀ [] = .ok (l, s)) :
    s.t ≤ 48 ∧ s.r ≤ 49 ∧ s.t < s.r :=
  (C08_u8 ops flop ranges a b hs s₀ h0 s (Reachable.of_drain ops limit s₀ s [] l hd)).1

/-! ### the number of loop iterations -/

/-- `step` is a function: the run from a state to a `done` state is unique -/
theorem Runs.unique {ops : WOps W} {s e1 : IterState W} {o1 : List (Option (Showdown W))}
    (h1 : Runs ops s o1 e1) (d1 : step ops e1 = .ok (.done, e1)) :
    ∀ {e2 : IterState W} {o2 : List (Option (Showdown W))}, Runs ops s o2 e2 →
      step ops e2 = .ok (.done, e2) → o1 = o2 ∧ e1 = e2 := by
  induction h1 with
  | nil s =>
    intro e2 o2 h2 d2
    cases h2 with
    | nil => exact ⟨rfl, rfl⟩
    | yield hs _ => rw [d1] at hs; cases hs
    | skip hs _ => rw [d1] at hs; cases hs
  | @yield s s1 s' sd outs hs _ ih =>
    intro e2 o2 h2 d2
    cases h2 with
    | nil => rw [d2] at hs; cases hs
    | @yield _ s1' _ sd' outs' hs' hr' =>
      rw [hs] at hs'
      have e := Prod.mk.inj (Res.ok.inj hs')
      have esd : sd = sd' := StepOut.yield.inj e.1
      rw [← e.2] at hr'
      obtain ⟨h3, h4⟩ := ih d1 hr' d2
      rw [esd, h3]
      exact ⟨rfl, h4⟩
    | skip hs' _ => rw [hs] at hs'; cases hs'
  | @skip s s1 s' outs hs _ ih =>
    intro e2 o2 h2 d2
    cases h2 with
    | nil => rw [d2] at hs; cases hs
    | yield hs' _ => rw [hs] at hs'; cases hs'
    | @skip _ s1' _ outs' hs' hr' =>
      rw [hs] at hs'
      have e := Prod.mk.inj (Res.ok.inj hs')
      rw [← e.2] at hr'
      obtain ⟨h3, h4⟩ := ih d1 hr' d2
      rw [h3]
      exact ⟨rfl, h4⟩

/-- **C08 (number of loop iterations).**  The full run of the iterator of a proper input scoped to `[a, b)`
consists of EXACTLY `(number of positions in [a, b)) × Π (entry counts)` iterations that yield or skip
(`outs`: one entry per iteration, `some` = yield, `none` = skip; `0` of them when some range is empty), followed
by a state in which every further iteration answers `done` (one such iteration per `next()` call that returns
`None`).  That number is at most `1176 × Π (entry counts)` and is below the fuel `next` runs with, so the loop
of `next` always terminates; the showdowns yielded are the drain.  The run is the only one (`step` is a
function). -/
theorem C08_steps (ops : WOps W) (flop : List Card) (ranges : List (List (Combo × W))) (a b : Nat × Nat)
    (h : WfInput flop ranges) (hs : ValidScope a b) :
    ∃ (s₀ sEnd : IterState W) (outs : List (Option (Showdown W))),
      (mkEvaluator flop ranges a b).intoIter = .ok s₀
      ∧ Runs ops s₀ outs sEnd ∧ step ops sEnd = .ok (.done, sEnd)
      ∧ outs.length = (positionsBetween a b).length * (ranges.map List.length).foldl (· * ·) 1
      ∧ outs.length ≤ 1176 * (ranges.map List.length).foldl (· * ·) 1
      ∧ outs.length < fuelFor s₀
      ∧ (∀ limit, (outs.filterMap id).length < limit →
          drainFuel ops limit s₀ [] = .ok (outs.filterMap id, sEnd))
      ∧ ∀ (sEnd' : IterState W) (outs' : List (Option (Showdown W))), Runs ops s₀ outs' sEnd' →
          step ops sEnd' = .ok (.done, sEnd') → outs' = outs ∧ sEnd' = sEnd := by
  obtain ⟨s₀, sEnd, h0, hrun, hdone, hfuel⟩ := C04.run_explicit ops flop ranges a b h hs
  have hlen : (C04.outsOf ops flop ranges a b).length
      = (positionsBetween a b).length * (ranges.map List.length).foldl (· * ·) 1 := by
    rw [C04.outsOf_length, product_length ranges 1, Nat.one_mul]
  refine ⟨s₀, sEnd, _, h0, hrun, hdone, hlen, ?_, ?_, ?_, ?_⟩
  · rw [hlen]
    exact Nat.mul_le_mul_right _ (positionsBetween_length_le a b)
  · rw [← fuelFor_eq hrun.entries]
    exact hfuel
  · intro limit hlim
    have := drain_spec ops _ hdone _ _ _ [] limit hrun hfuel rfl hlim
    simpa using this
  · intro sEnd' outs' hrun' hdone'
    obtain ⟨e1, e2⟩ := Runs.unique hrun hdone hrun' hdone'
    exact ⟨e1.symm, e2.symm⟩

/-- every state on that run is within the machine-integer bounds (`C08_u8` applies to it) -/
theorem C08_steps_bounded (ops : WOps W) (flop : List Card) (ranges : List (List (Combo × W))) (a b : Nat × Nat)
    (hs : ValidScope a b) (s₀ : IterState W) (h0 : (mkEvaluator flop ranges a b).intoIter = .ok s₀)
    (outs₁ : List (Option (Showdown W))) (s : IterState W) (hrun : Runs ops s₀ outs₁ s) :
    s.t ≤ 48 ∧ s.r ≤ 49 ∧ s.t < s.r :=
  (C08_u8 ops flop ranges a b hs s₀ h0 s (Reachable.of_runs hrun)).1

end EspadaVerif.C08

/-! ### a finding about `scope()`: the assertions are weaker than `ValidScope`

The three `debug_assert!`s accept arguments that are not a `ValidScope`.  Two kinds are harmless or fatal:
* `to = (tt, 49)` with `tt < 48` (not a position: river index 49 goes with turn index 48 only) passes the
  assertions — the crate's own test `it_iterates_scoped_from_32_48_to_47_49` uses it.  The stop test
  `t ≥ tt && r ≥ 49` can only fire at `(48, 49)`, so such an evaluator runs to the END of the enumeration:
  it behaves exactly like `to = (48, 49)` (`C04_to_river49`, proved by simulation: `retarget` commutes with
  `step` on every reachable state).  This is the model-level fact behind defect D10.
* `river_from = 49` with `turn_from < 48`, or `river_to > 49`, also pass the assertions and make `next()` index
  the 49-card deck at 49: a panic (examples in `BoundsWitness` below).  `ValidScope` excludes them; nothing in
  the crate's public API does.
-/
namespace EspadaVerif.C04
open EspadaVerif Spec C02 EspadaVerif.IterLemmas EspadaVerif.C08

variable {W : Type}

/-- the same iterator state with another `turn_to` -/
def retarget (tt : Nat) (s : IterState W) : IterState W := { s with turnTo := tt }

def mapStep (tt : Nat) : Res (StepOut W × IterState W) → Res (StepOut W × IterState W)
  | .ok (o, s') => .ok (o, retarget tt s')
  | .err => .err
  | .panic => .panic

theorem attempt_retarget (ops : WOps W) (tt : Nat) (s : IterState W) :
    attempt ops (retarget tt s) = attempt ops s := rfl

theorem advance_retarget (tt : Nat) (s : IterState W) : advance (retarget tt s) = retarget tt (advance s) := by
  unfold advance
  show (match incrementable s.idx (s.entries.map List.length) with
    | some k => _
    | none => _) = _
  cases incrementable s.idx (s.entries.map List.length) with
  | some k => rfl
  | none =>
    dsimp only
    show (if s.r < Gen.riverRollover then _ else _) = _
    split <;> rfl

theorem step_retarget (ops : WOps W) (tt : Nat) (htt : tt ≤ 48) (s : IterState W)
    (h1 : s.turnTo = 48) (h2 : s.riverTo = 49) (hv : validPos (s.t, s.r) = true) :
    step ops (retarget tt s) = mapStep tt (step ops s) := by
  have hc : (decide (s.t ≥ tt) && decide (s.r ≥ s.riverTo))
      = (decide (s.t ≥ s.turnTo) && decide (s.r ≥ s.riverTo)) := by
    rw [h1, h2]
    have := (validPos_iff _).mp hv
    simp only [Prod.mk.injEq] at this
    rw [Bool.eq_iff_iff]
    simp only [Bool.and_eq_true, decide_eq_true_eq]
    omega
  unfold step
  show (if (decide (s.t ≥ tt) && decide (s.r ≥ s.riverTo)) = true then _ else
    if s.entries.any List.isEmpty = true then _ else
      match attempt ops s with
      | .ok (some sd) => _
      | .ok none => _
      | _ => _) = _
  rw [hc]
  split
  · rfl
  · split
    · rfl
    · rw [advance_retarget]
      cases attempt ops s with
      | ok x => cases x <;> rfl
      | err => rfl
      | panic => rfl

def mapNext (tt : Nat) : Res (Option (Showdown W) × IterState W) → Res (Option (Showdown W) × IterState W)
  | .ok (o, s') => .ok (o, retarget tt s')
  | .err => .err
  | .panic => .panic

def mapDrain (tt : Nat) : Res (List (Showdown W) × IterState W) → Res (List (Showdown W) × IterState W)
  | .ok (l, s') => .ok (l, retarget tt s')
  | .err => .err
  | .panic => .panic

theorem nextFuel_retarget (ops : WOps W) (ranges : List (List (Combo × W))) (tt : Nat) (htt : tt ≤ 48) :
    ∀ (fuel : Nat) (s : IterState W), Inv ranges (48, 49) s →
      nextFuel ops fuel (retarget tt s) = mapNext tt (nextFuel ops fuel s) := by
  intro fuel
  induction fuel with
  | zero => intro s _; rfl
  | succ f ih =>
    intro s hi
    rw [nextFuel, nextFuel, step_retarget ops tt htt s hi.turnTo hi.riverTo hi.pos_valid]
    cases hs : step ops s with
    | ok x =>
      obtain ⟨o, s'⟩ := x
      have hi' : Inv ranges (48, 49) s' := inv_step ops (by decide) hi hs
      cases o with
      | done => rfl
      | yield sd => rfl
      | skip => exact ih s' hi'
    | err => rfl
    | panic => rfl

theorem next_retarget (ops : WOps W) (ranges : List (List (Combo × W))) (tt : Nat) (htt : tt ≤ 48)
    (s : IterState W) (hi : Inv ranges (48, 49) s) :
    next ops (retarget tt s) = mapNext tt (next ops s) :=
  nextFuel_retarget ops ranges tt htt (fuelFor s) s hi

theorem drainFuel_retarget (ops : WOps W) (ranges : List (List (Combo × W))) (tt : Nat) (htt : tt ≤ 48) :
    ∀ (limit : Nat) (s : IterState W) (acc : List (Showdown W)), Inv ranges (48, 49) s →
      drainFuel ops limit (retarget tt s) acc = mapDrain tt (drainFuel ops limit s acc) := by
  intro limit
  induction limit with
  | zero => intro s acc _; rfl
  | succ n ih =>
    intro s acc hi
    rw [drainFuel, drainFuel, next_retarget ops ranges tt htt s hi]
    cases hs : next ops s with
    | ok x =>
      obtain ⟨o, s'⟩ := x
      have hi' : Inv ranges (48, 49) s' := inv_reachable ops (by decide) hi (Reachable.of_next ops hs)
      cases o with
      | none => rfl
      | some sd => exact ih s' (sd :: acc) hi'
    | err => rfl
    | panic => rfl

theorem intoIter_retarget (flop : List Card) (ranges : List (List (Combo × W))) (a : Nat × Nat) (tt : Nat)
    (s₀ : IterState W) (h : (mkEvaluator flop ranges a (48, 49)).intoIter = .ok s₀) :
    (mkEvaluator flop ranges a (tt, 49)).intoIter = .ok (retarget tt s₀) := by
  unfold Evaluator.intoIter at h ⊢
  split at h
  · next d hd =>
    dsimp only at h ⊢
    split at h
    · next hlen =>
      split
      · rw [← Res.ok.inj h]
        rfl
      · next hn => exact absurd hlen hn
    · cases h
  · cases h

/-- **C04 (a bound `(tt, 49)` acts like the terminal).**  For every `tt ≤ 48` the evaluator scoped to
`[a, (tt, 49))` has exactly the drain of the evaluator scoped to `[a, (48, 49))`: it runs to the end of the
enumeration (no well-formedness of the input is needed). -/
theorem C04_to_river49 (ops : WOps W) (flop : List Card) (ranges : List (List (Combo × W))) (a : Nat × Nat)
    (tt : Nat) (htt : tt ≤ 48) (ha : validPos a = true) (sds : List (Showdown W))
    (hd : IsDrain ops (mkEvaluator flop ranges a (48, 49)) sds) :
    IsDrain ops (mkEvaluator flop ranges a (tt, 49)) sds := by
  obtain ⟨s₀, sEnd, h0, hdr, hend⟩ := hd
  have hs : ValidScope a (48, 49) := scope_after ha
  have hi0 : Inv ranges (48, 49) s₀ := inv_init flop ranges a (48, 49) hs s₀ h0
  refine ⟨retarget tt s₀, retarget tt sEnd, intoIter_retarget flop ranges a tt s₀ h0, ?_, ?_⟩
  · intro limit hlim
    rw [drainFuel_retarget ops ranges tt htt limit s₀ [] hi0, hdr limit hlim]
    rfl
  · have hiE : Inv ranges (48, 49) sEnd :=
      inv_reachable ops (by decide) hi0
        (Reachable.of_drain ops (sds.length + 1) s₀ sEnd [] sds (hdr _ (by omega)))
    rw [next_retarget ops ranges tt htt sEnd hiE, hend]
    rfl

/-- `scope(a.0, a.1, tt, 49)` passes the three assertions whenever `a` is a valid start with `a.0 ≤ tt ≤ 48` -/
theorem C04_scope_river49_ok (flop : List Card) (ranges : List (List (Combo × W))) (a : Nat × Nat) (tt : Nat)
    (ha : validPos a = true) (h1 : a.1 ≤ tt) (h2 : tt ≤ 48) (dbg : Bool) :
    (Evaluator.new (flop.map some ++ [none, none]) ranges).scope a.1 a.2 tt 49 dbg
      = .ok (mkEvaluator flop ranges a (tt, 49)) := by
  have h3 := (validPos_bounds ha).2.2
  unfold Evaluator.scope
  have : (decide (a.1 ≤ tt) && decide (a.1 < a.2) && decide (tt < 49)) = true := by
    simp only [Bool.and_eq_true, decide_eq_true_eq]
    omega
  rw [this]
  simp only [Bool.not_true, Bool.and_false, Bool.false_eq_true, if_false]
  rfl

end EspadaVerif.C04

namespace EspadaVerif.C08
open EspadaVerif Spec C02 EspadaVerif.IterLemmas

variable {W : Type}

/-! ### non-vacuity: the theorems at concrete data

Flop A♠ K♦ 7♣, two weighted two-combo ranges (weights in `Nat`); `rangesE`: the second player's range is empty.
Scopes: the full one, and the last position (47,48)–(48,49), where the model is also run in the kernel. -/
namespace BoundsWitness
open EspadaVerif.Witness

def flop : List Card := [⟨0, 0⟩, ⟨1, 2⟩, ⟨7, 3⟩]
def ranges : List (List (Combo × Nat)) :=
  [[(⟨⟨2, 0⟩, ⟨2, 1⟩⟩, 2), (⟨⟨0, 1⟩, ⟨1, 1⟩⟩, 3)], [(⟨⟨3, 0⟩, ⟨4, 0⟩⟩, 1), (⟨⟨2, 1⟩, ⟨3, 1⟩⟩, 5)]]
def rangesE : List (List (Combo × Nat)) :=
  [[(⟨⟨2, 0⟩, ⟨2, 1⟩⟩, 2), (⟨⟨0, 1⟩, ⟨1, 1⟩⟩, 3)], []]

theorem wf : WfInput flop ranges := ⟨by decide, by decide, by decide, by decide, by decide⟩
theorem wfE : WfInput flop rangesE := ⟨by decide, by decide, by decide, by decide, by decide⟩
theorem scope_full : ValidScope (0, 1) (48, 49) := ⟨by decide, by decide, by decide⟩
theorem scope_last : ValidScope (47, 48) (48, 49) := ⟨by decide, by decide, by decide⟩

/-- `n` loop iterations -/
def stepsN (ops : WOps W) : Nat → IterState W → Option (IterState W)
  | 0, s => some s
  | n + 1, s =>
    match step ops s with
    | .ok (_, s') => stepsN ops n s'
    | _ => none

theorem reachable_stepsN (ops : WOps W) : ∀ (n : Nat) (s s' : IterState W),
    stepsN ops n s = some s' → Reachable ops s s' := by
  intro n
  induction n with
  | zero => intro s s' h; rw [stepsN] at h; rw [← Option.some.inj h]; exact Reachable.init
  | succ n ih =>
    intro s s' h
    rw [stepsN] at h
    split at h
    · next o s1 hs => exact (Reachable.after Reachable.init hs).trans (ih s1 s' h)
    · cases h

/-- the initial state of the scope (47,48)–(48,49) -/
def sLast : IterState Nat :=
  { turnTo := 48, riverTo := 49, entries := ranges, deck := (allCards.filter fun c => !flop.contains c),
    board := flop.map some ++ [none, none], t := 47, r := 48, idx := [0, 0] }

theorem sLast_is_start : (mkEvaluator flop ranges (47, 48) (48, 49)).intoIter = .ok sLast := by decide +kernel

/-- `C08_u8` on the full scope: the initial state exists (C02) and every reachable state is in range -/
theorem C08_u8_at_witness :
    ∃ s₀ : IterState Nat, (mkEvaluator flop ranges (0, 1) (48, 49)).intoIter = .ok s₀ ∧
      ∀ s, Reachable natOps s₀ s → s.t ≤ 48 ∧ s.r ≤ 49 ∧ s.t < s.r := by
  obtain ⟨s₀, h0, _⟩ := C02_refines natOps flop ranges (0, 1) (48, 49) wf scope_full
  exact ⟨s₀, h0, fun s hr => (C08_u8 natOps flop ranges (0, 1) (48, 49) scope_full s₀ h0 s hr).1⟩

/-- the same with an empty range (no well-formedness is needed, only the initial state) -/
example : ∃ s₀ : IterState Nat, (mkEvaluator flop rangesE (0, 1) (48, 49)).intoIter = .ok s₀ ∧
    ∀ s, Reachable natOps s₀ s → s.t ≤ 48 ∧ s.r ≤ 49 ∧ s.t < s.r := by
  obtain ⟨s₀, h0, _⟩ := C02_refines natOps flop rangesE (0, 1) (48, 49) wfE scope_full
  exact ⟨s₀, h0, fun s hr => (C08_u8 natOps flop rangesE (0, 1) (48, 49) scope_full s₀ h0 s hr).1⟩

/-- `Reachable` is not only the initial state: four loop iterations (one position × 2 × 2 choices) lead, by
running the model, to the state `t = 48`, `r = 49` — so the bounds 48 and 49 of `C08_u8` are attained -/
theorem reach_end : ∃ s, Reachable natOps sLast s ∧ s.t = 48 ∧ s.r = 49 ∧ s.idx = [0, 0] := by
  have h : stepsN natOps 4 sLast = some { sLast with t := 48, r := 49 } := by decide +kernel
  exact ⟨_, reachable_stepsN natOps 4 _ _ h, rfl, rfl, rfl⟩

/-- intermediate states of the run, from the kernel: the counters walk (0,0) (0,1) (1,0) (1,1) -/
example : (stepsN natOps 1 sLast).map (·.idx) = some [0, 1] ∧ (stepsN natOps 2 sLast).map (·.idx) = some [1, 0]
    ∧ (stepsN natOps 3 sLast).map (·.idx) = some [1, 1]
    ∧ (stepsN natOps 3 sLast).map (fun s => (s.t, s.r)) = some (47, 48) := by decide +kernel

/-- `C08_advance_arith` at the first iteration of that run -/
example (o : StepOut Nat) (s' : IterState Nat) (hstep : step natOps sLast = .ok (o, s')) :
    (o = .done ∧ s' = sLast)
    ∨ ((o = .skip ∨ ∃ sd, o = .yield sd) ∧ s' = advance sLast
        ∧ sLast.t < sLast.r ∧ sLast.r < 49
        ∧ sLast.r + 1 ≤ 49 ∧ sLast.t + 1 ≤ 48 ∧ sLast.t + 1 + 1 ≤ 49
        ∧ (s'.t ≤ 48 ∧ s'.r ≤ 49 ∧ s'.t < s'.r)
        ∧ ∀ (i c : Nat) (es : List (Combo × Nat)), sLast.idx[i]? = some c → sLast.entries[i]? = some es →
            c + 1 ≤ es.length) :=
  C08_advance_arith natOps flop ranges (47, 48) (48, 49) scope_last sLast sLast_is_start sLast s' o
    Reachable.init hstep

/-- `C08_steps`: the full scope takes exactly 1176 × 4 = 4704 yielding-or-skipping iterations -/
theorem C08_steps_at_witness :
    ∃ (s₀ sEnd : IterState Nat) (outs : List (Option (Showdown Nat))),
      (mkEvaluator flop ranges (0, 1) (48, 49)).intoIter = .ok s₀
      ∧ Runs natOps s₀ outs sEnd ∧ step natOps sEnd = .ok (.done, sEnd) ∧ outs.length = 4704 := by
  obtain ⟨s₀, sEnd, outs, h0, hrun, hdone, hlen, _⟩ := C08_steps natOps flop ranges (0, 1) (48, 49) wf scope_full
  refine ⟨s₀, sEnd, outs, h0, hrun, hdone, ?_⟩
  rw [hlen, C04.positionsBetween_full, allPositions_length]
  rfl

/-- with an empty range: no iteration but the final one -/
example : ∃ (s₀ sEnd : IterState Nat) (outs : List (Option (Showdown Nat))),
    (mkEvaluator flop rangesE (0, 1) (48, 49)).intoIter = .ok s₀
    ∧ Runs natOps s₀ outs sEnd ∧ step natOps sEnd = .ok (.done, sEnd) ∧ outs.length = 0 := by
  obtain ⟨s₀, sEnd, outs, h0, hrun, hdone, hlen, _⟩ := C08_steps natOps flop rangesE (0, 1) (48, 49) wfE scope_full
  refine ⟨s₀, sEnd, outs, h0, hrun, hdone, ?_⟩
  have e : (rangesE.map List.length).foldl (· * ·) 1 = 0 := by decide
  rw [hlen, e, Nat.mul_zero]

/-! #### the finding about `scope()` -/

/-- the scope of the crate's test `it_iterates_scoped_from_32_48_to_47_49` passes the assertions … -/
example (dbg : Bool) : (Evaluator.new (flop.map some ++ [none, none]) ranges).scope 32 48 47 49 dbg
    = .ok (mkEvaluator flop ranges (32, 48) (47, 49)) :=
  C04.C04_scope_river49_ok flop ranges (32, 48) 47 (by decide) (by decide) (by decide) dbg
/-- … is not a `ValidScope` … -/
example : ¬ ValidScope (32, 48) (47, 49) := fun h => absurd h.to_valid (by decide)
/-- … and yields what the scope (32,48)–(48,49) yields -/
example (sds : List (Showdown Nat)) (h : C04.IsDrain natOps (mkEvaluator flop ranges (32, 48) (48, 49)) sds) :
    C04.IsDrain natOps (mkEvaluator flop ranges (32, 48) (47, 49)) sds :=
  C04.C04_to_river49 natOps flop ranges (32, 48) 47 (by decide) (by decide) sds h

/-- run `into_iter` and then collect `next()` with room for 50 showdowns; `none` = panic (or out of fuel) -/
def drained (a b : Nat × Nat) : Option Nat :=
  match (mkEvaluator flop ranges a b).intoIter with
  | .ok s =>
    match drainFuel natOps 50 s [] with
    | .ok (l, _) => some l.length
    | _ => none
  | _ => none

/-- `ValidScope` is needed: `scope(10, 49, 20, 30)` and `scope(47, 48, 47, 50)` pass the three assertions
(even in a debug build) and the iteration then panics (deck index 49), at once resp. after its three showdowns;
the valid (47,48)–(48,49) and the tolerated (47,48)–(47,49) return normally -/
example : (Evaluator.new (flop.map some ++ [none, none]) ranges).scope 10 49 20 30 true
      = .ok (mkEvaluator flop ranges (10, 49) (20, 30))
    ∧ (Evaluator.new (flop.map some ++ [none, none]) ranges).scope 47 48 47 50 true
      = .ok (mkEvaluator flop ranges (47, 48) (47, 50)) := ⟨rfl, rfl⟩
example : drained (10, 49) (20, 30) = none ∧ drained (47, 48) (47, 50) = none
    ∧ drained (47, 48) (48, 49) = some 3 ∧ drained (47, 48) (47, 49) = some 3 := by decide +kernel

end BoundsWitness

end EspadaVerif.C08
