/-
C10 — Every parsed range holds only real combos with weights between 0 and 1.
-/
import EspadaVerif.Lemmas.TextDefs
import EspadaVerif.Props.C09

namespace EspadaVerif.C10
open EspadaVerif TextDefs TokenFacts RangeAux

variable {W : Type}

/-- **C10 (combos).** Whatever string is parsed as a range, every entry is a combo of two different valid cards
(stored in canonical order). -/
theorem C10_combo (wt : WText W) (s : Bytes) (r : HandRange W) (h : parseRange wt s = .ok r) :
    ∀ e ∈ r, ComboOk e.1 :=
  parseRange_comboOk wt s r h

/-- **C10 (weights).** Every weight of a parsed token / range lies in the weight domain (= [0,1]), given only that
the weight grammar's texts parse into the domain, that 1 is in it, and that the empty text is not a number
(`hempty`: a token without `:w` suffix reaches `f32::from_str("")`, which must fail for the weight to be 1). -/
theorem C10_weight_token (wt : WText W) (inDom : W → Prop) (hone : inDom wt.one)
    (hparse : ∀ t w, isWeightText t = true → wt.parseW t = some w → inDom w)
    (hempty : wt.parseW [] = none)
    (s : Bytes) (t : Token W) (h : parseToken wt s = .ok t) : inDom t.prob := by
  obtain ⟨_, rest, hs, hp⟩ := parseToken_tokenOk wt s t h
  rw [hp]
  unfold isWeightSuffix at hs
  split at hs
  · rw [sufW_nil, hempty]; exact hone
  · rename_i w
    rw [sufW_colon]
    cases hw : wt.parseW w with
    | none => exact hone
    | some x => exact hparse w x hs hw
  · cases hs

theorem C10_weight (wt : WText W) (inDom : W → Prop) (hone : inDom wt.one)
    (hparse : ∀ t w, isWeightText t = true → wt.parseW t = some w → inDom w)
    (hempty : wt.parseW [] = none)
    (s : Bytes) (r : HandRange W) (h : parseRange wt s = .ok r) : ∀ e ∈ r, inDom e.2 := by
  obtain ⟨r', hr', hP⟩ := parseRange_spec wt (fun e => inDom e.2) (by
    intro piece t es ht hes e he
    obtain ⟨es', hes', hall⟩ := C09.C09_use_total wt piece t ht
    rw [hes] at hes'; cases hes'
    show inDom e.2
    rw [(hall e he).2]
    exact C10_weight_token wt inDom hone hparse hempty piece t ht) s
  rw [h] at hr'; cases hr'
  exact hP

/-- the weight grammar admits exactly `0`, `0.d+`, `1`, `1.0+` -/
theorem C10_grammar (t : Bytes) : isWeightText t = true ↔
    (t = [48] ∨ (∃ ds, ds ≠ [] ∧ (∀ d ∈ ds, 48 ≤ d ∧ d ≤ 57) ∧ t = 48 :: 46 :: ds)
     ∨ t = [49] ∨ (∃ zs, zs ≠ [] ∧ (∀ z ∈ zs, z = 48) ∧ t = 49 :: 46 :: zs)) := by
  constructor
  · intro h
    unfold isWeightText at h
    split at h
    · exact .inl rfl
    · rename_i d ds
      refine .inr (.inl ⟨d :: ds, by simp, ?_, rfl⟩)
      intro x hx
      have := List.all_eq_true.mp h x hx
      simpa [isDigit] using this
    · exact .inr (.inr (.inl rfl))
    · rename_i d ds
      refine .inr (.inr (.inr ⟨d :: ds, by simp, ?_, rfl⟩))
      intro x hx
      have := List.all_eq_true.mp h x hx
      simpa using this
    · cases h
  · rintro (rfl | ⟨ds, hne, hd, rfl⟩ | rfl | ⟨zs, hne, hz, rfl⟩)
    · rfl
    · cases ds with
      | nil => exact absurd rfl hne
      | cons d ds =>
        simp only [isWeightText]
        apply List.all_eq_true.mpr
        intro x hx
        have := hd x hx
        simp [isDigit, this.1, this.2]
    · rfl
    · cases zs with
      | nil => exact absurd rfl hne
      | cons d ds =>
        simp only [isWeightText]
        apply List.all_eq_true.mpr
        intro x hx
        simp [hz x hx]

/-- **C10 (probabilities).** A product, taken left to right from 1, of weights of the domain stays in the domain,
for every product under which the domain is closed (binary32 multiplication on [0,1] is: rounding is
monotone and fixes 0 and 1). -/
theorem C10_prob (ops : WOps W) (inDom : W → Prop) (hone : inDom ops.one)
    (hmul : ∀ a b, inDom a → inDom b → inDom (ops.mul a b)) (ws : List W) (h : ∀ w ∈ ws, inDom w) :
    inDom (ws.foldl ops.mul ops.one) := by
  have key : ∀ (ws : List W) (acc : W), inDom acc → (∀ w ∈ ws, inDom w) → inDom (ws.foldl ops.mul acc) := by
    intro ws
    induction ws with
    | nil => intro acc ha _; exact ha
    | cons w ws ih =>
      intro acc ha hw
      exact ih _ (hmul acc w ha (hw w List.mem_cons_self)) (fun x hx => hw x (List.mem_cons_of_mem _ hx))
  exact key ws ops.one hone h

/-- **C10 (cards).** No showdown enumerated from proper ranges (in particular parsed ones, by `C10_combo`)
contains the same card twice: this is `C02_payload`. -/
theorem C10_cards (ops : WOps W) (flop : List Card) (ranges : List (List (Combo × W))) (a b : Nat × Nat)
    (h : C02.WfInput flop ranges) (d : Spec.Deal W)
    (hd : d ∈ Spec.deals (flop.map Card.code) (C02.specEntries ranges) a b) :
    ∃ sd : Showdown W, C02.showdownOfDeal ops flop d = .ok (some sd)
      ∧ (sd.board ++ sd.players.flatMap (fun p => [p.hole.fst, p.hole.snd])).Nodup := by
  obtain ⟨sd, h1, h2, _, _, h5⟩ := C02.C02_payload ops flop ranges a b h d hd
  exact ⟨sd, h1, by rw [h2]; exact h5⟩

/-- the closure hypothesis of `C10_prob` holds for every rounded product `rnd (a * b)` over the rationals whose
rounding is monotone and fixes 0 and 1 — which is what IEEE-754 round-to-nearest is on binary32 -/
theorem C10_prob_rounding (rnd : Rat → Rat) (hmono : ∀ x y, x ≤ y → rnd x ≤ rnd y) (h0 : rnd 0 = 0) (h1 : rnd 1 = 1)
    (a b : Rat) (ha : 0 ≤ a ∧ a ≤ 1) (hb : 0 ≤ b ∧ b ≤ 1) : 0 ≤ rnd (a * b) ∧ rnd (a * b) ≤ 1 := by
  have hab0 : 0 ≤ a * b := Rat.mul_nonneg ha.1 hb.1
  have hab1 : a * b ≤ 1 := by
    have : a * b ≤ a * 1 := Rat.mul_le_mul_of_nonneg_left hb.2 ha.1
    rw [Rat.mul_one] at this
    exact Rat.le_trans this ha.2
  constructor
  · have := hmono 0 (a * b) hab0; rw [h0] at this; exact this
  · have := hmono (a * b) 1 hab1; rw [h1] at this; exact this

end EspadaVerif.C10
