/-
C10 — Every parsed range holds only real combos with weights between 0 and 1.
-/
import EspadaVerif.Lemmas.TextDefs
import EspadaVerif.Props.C09

namespace EspadaVerif.C10
open EspadaVerif TextDefs

variable {W : Type}

/-- **C10 (combos).** Whatever string is parsed as a range, every entry is a combo of two different valid cards
(stored in canonical order). -/
theorem C10_combo (wt : WText W) (s : Bytes) (r : HandRange W) (h : parseRange wt s = .ok r) :
    ∀ e ∈ r, ComboOk e.1 := by
  sorry

/-- **C10 (weights).** Every weight of a parsed token / range lies in the weight domain (= [0,1]), given only that
the weight grammar's texts parse into the domain and that 1 is in it. -/
theorem C10_weight_token (wt : WText W) (inDom : W → Prop) (hone : inDom wt.one)
    (hparse : ∀ t w, isWeightText t = true → wt.parseW t = some w → inDom w)
    (s : Bytes) (t : Token W) (h : parseToken wt s = .ok t) : inDom t.prob := by
  sorry

theorem C10_weight (wt : WText W) (inDom : W → Prop) (hone : inDom wt.one)
    (hparse : ∀ t w, isWeightText t = true → wt.parseW t = some w → inDom w)
    (s : Bytes) (r : HandRange W) (h : parseRange wt s = .ok r) : ∀ e ∈ r, inDom e.2 := by
  sorry

/-- the weight grammar admits exactly `0`, `0.d+`, `1`, `1.0+` -/
theorem C10_grammar (t : Bytes) : isWeightText t = true ↔
    (t = [48] ∨ (∃ ds, ds ≠ [] ∧ (∀ d ∈ ds, 48 ≤ d ∧ d ≤ 57) ∧ t = 48 :: 46 :: ds)
     ∨ t = [49] ∨ (∃ zs, zs ≠ [] ∧ (∀ z ∈ zs, z = 48) ∧ t = 49 :: 46 :: zs)) := by
  sorry

/-- **C10 (probabilities).** A product, taken left to right from 1, of weights of the domain stays in the domain,
for every product under which the domain is closed (binary32 multiplication on [0,1] is: rounding is
monotone and fixes 0 and 1). -/
theorem C10_prob (ops : WOps W) (inDom : W → Prop) (hone : inDom ops.one)
    (hmul : ∀ a b, inDom a → inDom b → inDom (ops.mul a b)) (ws : List W) (h : ∀ w ∈ ws, inDom w) :
    inDom (ws.foldl ops.mul ops.one) := by
  sorry

/-- **C10 (cards).** No showdown enumerated from proper ranges (in particular parsed ones, by `C10_combo`)
contains the same card twice: this is `C02_payload`. -/
theorem C10_cards (ops : WOps W) (flop : List Card) (ranges : List (List (Combo × W))) (a b : Nat × Nat)
    (h : C02.WfInput flop ranges) (d : Spec.Deal W)
    (hd : d ∈ Spec.deals (flop.map Card.code) (C02.specEntries ranges) a b) :
    ∃ sd : Showdown W, C02.showdownOfDeal ops flop d = .ok (some sd)
      ∧ (sd.board ++ sd.players.flatMap (fun p => [p.hole.fst, p.hole.snd])).Nodup := by
  sorry

end EspadaVerif.C10
