import EspadaVerif.Model.Range
namespace EspadaVerif.C10
end EspadaVerif.C10
