/-
C16 — The example's work splitter tiles the enumeration for every worker count.

`calculateScopes F n` is the model of `calculate_scopes(n)` with the `f32` pipeline abstracted into an
arbitrary function `F` (two `u8` results per worker): the tiling holds whatever the float arithmetic yields,
for every `n ≥ 1` — there is no bound on `n` and nothing about IEEE arithmetic is assumed.
-/
import EspadaVerif.Model.Scopes
import EspadaVerif.Props.C04

namespace EspadaVerif.C16
open EspadaVerif Spec C02


/-! ### helper lemmas -/

theorem validPos_iff (a b : Nat) : validPos (a, b) = true ↔ (a < b ∧ b < 49) ∨ (a = 48 ∧ b = 49) := by
  simp [validPos]

theorem posLe_iff' (a b c d : Nat) : posLe (a, b) (c, d) = true ↔ a < c ∨ (a = c ∧ b ≤ d) := by
  simp [posLe, posLt]
  omega

theorem tupleLt_iff (a b c d : Nat) : tupleLt a b c d = true ↔ a < c ∨ (a = c ∧ b < d) := by
  simp [tupleLt]

/-- the clamp step -/
theorem clamp_spec (t r pt pr : Nat) (hv : validPos (pt, pr) = true) (hc : validPos (t, r) = true) :
    ∃ t' r', (if tupleLt t r pt pr then (Res.ok (pt, pr) : Res (Nat × Nat)) else .ok (t, r)) = .ok (t', r')
      ∧ validPos (t', r') = true ∧ posLe (pt, pr) (t', r') = true
      ∧ ((t, r) = (48, 49) → (t', r') = (48, 49)) := by
  by_cases h : tupleLt t r pt pr = true
  · refine ⟨pt, pr, by simp [h], hv, IterLemmas.posLe_refl _, ?_⟩
    intro he
    rw [tupleLt_iff] at h
    rw [validPos_iff] at hv
    simp only [Prod.mk.injEq] at he ⊢
    omega
  · refine ⟨t, r, by simp [h], hc, ?_, fun he => he⟩
    rw [tupleLt_iff] at h
    rw [posLe_iff']
    omega

/-- one loop iteration never panics, yields a valid position not before the previous cut, and the last
worker's cut is the terminal -/
theorem cutPoint_spec (f : Nat × Nat) (i count pt pr : Nat) (hv : validPos (pt, pr) = true) :
    ∃ t r, cutPoint f i count pt pr = .ok (t, r) ∧ validPos (t, r) = true
      ∧ posLe (pt, pr) (t, r) = true ∧ (i + 1 = count → (t, r) = (48, 49)) := by
  unfold cutPoint
  simp only []
  by_cases h1 : (decide (i + 1 = count) || decide (f.1 % 256 ≥ 48)) = true
  · rw [if_pos h1]
    obtain ⟨t', r', e, v, le, last⟩ := clamp_spec 48 49 pt pr hv (by decide)
    exact ⟨t', r', e, v, le, fun _ => last rfl⟩
  · rw [if_neg h1]
    have h1' : ¬ (i + 1 = count) ∧ f.1 % 256 < 48 := by
      simp at h1
      omega
    have hr0 : ¬ (f.1 % 256 + 1 + min (f.2 % 256) (48 - f.1 % 256) > 255) := by omega
    rw [if_neg hr0]
    by_cases h2 : f.1 % 256 + 1 + min (f.2 % 256) (48 - f.1 % 256) > 48
    · rw [if_pos h2]
      have hc : validPos (f.1 % 256 + 1, f.1 % 256 + 1 + 1) = true := by
        rw [validPos_iff]; omega
      obtain ⟨t', r', e, v, le, _⟩ := clamp_spec _ _ pt pr hv hc
      exact ⟨t', r', e, v, le, fun hh => absurd hh h1'.1⟩
    · rw [if_neg h2]
      have hc : validPos (f.1 % 256, f.1 % 256 + 1 + min (f.2 % 256) (48 - f.1 % 256)) = true := by
        rw [validPos_iff]; omega
      obtain ⟨t', r', e, v, le, _⟩ := clamp_spec _ _ pt pr hv hc
      exact ⟨t', r', e, v, le, fun hh => absurd hh h1'.1⟩

/-- `l` is a chain of valid scopes from `a` to `b` -/
def Tiles : List CalcScope → Nat × Nat → Nat × Nat → Prop
  | [], a, b => a = b
  | s :: rest, a, b =>
    (s.turnFrom, s.riverFrom) = a ∧ ValidScope a (s.turnTo, s.riverTo) ∧ Tiles rest (s.turnTo, s.riverTo) b

theorem loop_spec (F : Nat → Nat → Nat × Nat) (count : Nat) :
    ∀ (fuel i pt pr : Nat), validPos (pt, pr) = true → i + fuel = count → 1 ≤ fuel →
      ∃ l, scopesLoop F count fuel i pt pr = .ok l ∧ l.length = fuel ∧ Tiles l (pt, pr) (48, 49) := by
  intro fuel
  induction fuel with
  | zero => intro i pt pr _ _ h; omega
  | succ fuel ih =>
    intro i pt pr hv hc _
    obtain ⟨t, r, e, v, le, last⟩ := cutPoint_spec (F i count) i count pt pr hv
    cases fuel with
    | zero =>
      have hl := last (by omega)
      refine ⟨[⟨pt, pr, t, r⟩], ?_, rfl, ?_⟩
      · simp only [scopesLoop, e]
      · exact ⟨rfl, ⟨hv, v, le⟩, hl⟩
    | succ fuel =>
      obtain ⟨rest, e2, hlen, ht⟩ := ih (i + 1) t r v (by omega) (by omega)
      refine ⟨⟨pt, pr, t, r⟩ :: rest, ?_, by simp [hlen], ?_⟩
      · simp only [scopesLoop] at e2 ⊢
        simp only [e, e2]
      · exact ⟨rfl, ⟨hv, v, le⟩, ht⟩

theorem Tiles.head {l : List CalcScope} {a b : Nat × Nat} (h : Tiles l a b) (hne : l ≠ []) :
    (l.head?.map fun s => (s.turnFrom, s.riverFrom)) = some a := by
  cases l with
  | nil => exact absurd rfl hne
  | cons s rest => simp [h.1]

theorem Tiles.last : ∀ {l : List CalcScope} {a b : Nat × Nat}, Tiles l a b → l ≠ [] →
    (l.getLast?.map fun s => (s.turnTo, s.riverTo)) = some b := by
  intro l
  induction l with
  | nil => intro a b _ hne; exact absurd rfl hne
  | cons s rest ih =>
    intro a b h _
    cases rest with
    | nil =>
      have := h.2.2
      simp only [Tiles] at this
      simp [this]
    | cons s' rest' =>
      have := ih h.2.2 (by simp)
      rw [List.getLast?_cons_cons]
      exact this

theorem Tiles.chained : ∀ {l : List CalcScope} {a b : Nat × Nat}, Tiles l a b →
    ∀ k s s', l[k]? = some s → l[k + 1]? = some s' → (s'.turnFrom, s'.riverFrom) = (s.turnTo, s.riverTo) := by
  intro l
  induction l with
  | nil => intro a b _ k s s' h; simp at h
  | cons x rest ih =>
    intro a b h k s s' hk hk1
    cases k with
    | zero =>
      simp only [List.getElem?_cons_zero, Option.some.injEq] at hk
      subst hk
      cases rest with
      | nil => simp at hk1
      | cons y rest' =>
        simp only [Nat.zero_add, List.getElem?_cons_succ, List.getElem?_cons_zero, Option.some.injEq] at hk1
        subst hk1
        exact h.2.2.1
    | succ k =>
      simp only [List.getElem?_cons_succ] at hk hk1
      exact ih h.2.2 k s s' hk hk1

theorem Tiles.valid : ∀ {l : List CalcScope} {a b : Nat × Nat}, Tiles l a b →
    ∀ s ∈ l, ValidScope (s.turnFrom, s.riverFrom) (s.turnTo, s.riverTo) := by
  intro l
  induction l with
  | nil => intro a b _ s hs; simp at hs
  | cons x rest ih =>
    intro a b h s hs
    rcases List.mem_cons.mp hs with rfl | hs
    · rw [h.1]; exact h.2.1
    · exact ih h.2.2 s hs

theorem Tiles.sum {W : Type} (flop : List Nat) (entries : List (List (Nat × Nat × W))) :
    ∀ {l : List CalcScope} {a b : Nat × Nat}, Tiles l a b → validPos a = true →
    l.flatMap (fun s => deals flop entries (s.turnFrom, s.riverFrom) (s.turnTo, s.riverTo))
        = deals flop entries a b ∧ ValidScope a b := by
  intro l
  induction l with
  | nil =>
    intro a b h hv
    simp only [Tiles] at h
    subst h
    exact ⟨by simp [C04.deals_self], ⟨hv, hv, IterLemmas.posLe_refl a⟩⟩
  | cons x rest ih =>
    intro a b h hv
    obtain ⟨h1, h2⟩ := ih h.2.2 h.2.1.to_valid
    refine ⟨?_, ⟨hv, h2.to_valid, IterLemmas.posLe_trans h.2.1.ordered h2.ordered⟩⟩
    rw [List.flatMap_cons, h1, h.1]
    exact C04.deals_append flop entries a _ b h.2.1 h2

/-- **C16.** For every worker count `n ≥ 1` (and every behaviour `F` of the float pipeline) the scope list is
computed without overflow, has `n` scopes, starts at (0,1), ends at (48,49), each scope starts where the
previous one ended, never steps backwards and names only valid positions. -/
theorem C16_tiles (F : Nat → Nat → Nat × Nat) (n : Nat) (hn : 1 ≤ n) :
    ∃ l : List CalcScope, calculateScopes F n = .ok l ∧ l.length = n
      ∧ (l.head?.map fun s => (s.turnFrom, s.riverFrom)) = some (0, 1)
      ∧ (l.getLast?.map fun s => (s.turnTo, s.riverTo)) = some (48, 49)
      ∧ (∀ k s s', l[k]? = some s → l[k + 1]? = some s' → (s'.turnFrom, s'.riverFrom) = (s.turnTo, s.riverTo))
      ∧ (∀ s ∈ l, ValidScope (s.turnFrom, s.riverFrom) (s.turnTo, s.riverTo)) := by
  obtain ⟨l, e, hlen, ht⟩ := loop_spec F n n 0 0 1 (by decide) (by omega) hn
  have hne : l ≠ [] := by
    intro h; rw [h] at hlen; simp at hlen; omega
  exact ⟨l, e, hlen, ht.head hne, ht.last hne, ht.chained, ht.valid⟩

/-- Hence the per-scope enumerations add up to the single-threaded one: the legal deals of the scopes, scope
after scope, are exactly the legal deals of the full enumeration, each once (with `C04_scoped` each worker
yields exactly its piece). -/
theorem C16_sum {W : Type} (F : Nat → Nat → Nat × Nat) (n : Nat) (hn : 1 ≤ n)
    (flop : List Nat) (entries : List (List (Nat × Nat × W))) :
    ∃ l : List CalcScope, calculateScopes F n = .ok l ∧
      l.flatMap (fun s => deals flop entries (s.turnFrom, s.riverFrom) (s.turnTo, s.riverTo))
        = deals flop entries (0, 1) (48, 49) := by
  obtain ⟨l, e, _, ht⟩ := loop_spec F n n 0 0 1 (by decide) (by omega) hn
  exact ⟨l, e, (ht.sum flop entries (by decide)).1⟩

/-- non-vacuity: with a constant pipeline the splitter still tiles -/
example : calculateScopes (fun _ _ => (7, 200)) 3
    = .ok [⟨0, 1, 8, 9⟩, ⟨8, 9, 8, 9⟩, ⟨8, 9, 48, 49⟩] := by decide

end EspadaVerif.C16
