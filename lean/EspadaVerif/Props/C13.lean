/-
C13 — Card, rank and suit encodings are mutually inverse and order-consistent.

Every statement is over a finite domain whose data (`Gen.*`) are regenerated from the Rust source
on each run; the proofs are kernel evaluations (`decide`) lifted to the universally quantified form.
-/
import EspadaVerif.Model.Pair

namespace EspadaVerif.C13
open EspadaVerif Gen

theorem mem_allCards (c : Card) (h : c.valid = true) : c ∈ allCards := by
  obtain ⟨r, s⟩ := c
  simp only [Card.valid, Bool.and_eq_true, decide_eq_true_eq] at h
  simp only [allCards, List.mem_map, List.mem_range]
  refine ⟨r * 4 + s, by omega, ?_⟩
  simp only [Card.ofCode, Card.mk.injEq]
  omega

theorem valid_of_mem_allCards (c : Card) (h : c ∈ allCards) : c.valid = true := by
  simp only [allCards, List.mem_map, List.mem_range] at h
  obtain ⟨n, hn, rfl⟩ := h
  simp only [Card.valid, Card.ofCode, Bool.and_eq_true]
  exact ⟨decide_eq_true (by omega), decide_eq_true (by omega)⟩

/-! #### ranks and suits: numbering, names, order, successor / predecessor -/

/-- Ranks are declared ace … deuce and `u8::from` numbers them 0–12 in that same (derived-`Ord`) order. -/
theorem rank_numbering :
    rankNames = ["Ace", "King", "Queen", "Jack", "Ten", "Nine", "Eight", "Seven", "Six", "Five",
                 "Four", "Trey", "Deuce"]
    ∧ (∀ r, r < 13 → rankU8 r = r)
    ∧ "Ord" ∈ rankDerives ∧ "PartialOrd" ∈ rankDerives ∧ "Eq" ∈ rankDerives ∧ "Hash" ∈ rankDerives := by
  refine ⟨by decide, ?_, by decide, by decide, by decide, by decide⟩
  intro r hr
  have : ∀ r ∈ List.range 13, rankU8 r = r := by decide
  exact this r (List.mem_range.mpr hr)

theorem suit_numbering :
    suitNames = ["Spade", "Heart", "Diamond", "Club"]
    ∧ (∀ s, s < 4 → suitU8 s = s)
    ∧ "Ord" ∈ suitDerives ∧ "PartialOrd" ∈ suitDerives ∧ "Eq" ∈ suitDerives ∧ "Hash" ∈ suitDerives := by
  refine ⟨by decide, ?_, by decide, by decide, by decide, by decide⟩
  intro r hr
  have : ∀ r ∈ List.range 4, suitU8 r = r := by decide
  exact this r (List.mem_range.mpr hr)

/-- `next` is +1 on the code and `None` exactly at deuce; `prev` is −1 and `None` exactly at ace. -/
theorem rank_next_prev (r : Nat) (hr : r < 13) :
    rankNext r = (if r + 1 < 13 then some (r + 1) else none)
    ∧ rankPrev r = (if 0 < r then some (r - 1) else none) := by
  have : ∀ r ∈ List.range 13, rankNext r = (if r + 1 < 13 then some (r + 1) else none)
      ∧ rankPrev r = (if 0 < r then some (r - 1) else none) := by decide
  exact this r (List.mem_range.mpr hr)

/-- the derived card order is lexicographic (rank, then suit) and `Card` derives the full order/hash set -/
theorem card_order_fields :
    cardFields = ["Rank", "Suit"] ∧ "Ord" ∈ cardDerives ∧ "PartialOrd" ∈ cardDerives
    ∧ "Eq" ∈ cardDerives ∧ "PartialEq" ∈ cardDerives ∧ "Hash" ∈ cardDerives := by decide

/-! #### rank and suit text -/

theorem rank_text (r : Nat) (hr : r < 13) :
    rankOfChar (rankChar r) = some r ∧ rankChar r < 128 := by
  have : ∀ r ∈ List.range 13, rankOfChar (rankChar r) = some r ∧ rankChar r < 128 := by decide
  exact this r (List.mem_range.mpr hr)

theorem suit_text (s : Nat) (hs : s < 4) :
    suitOfChar (suitChar s) = some s ∧ suitChar s < 128 := by
  have : ∀ r ∈ List.range 4, suitOfChar (suitChar r) = some r ∧ suitChar r < 128 := by decide
  exact this s (List.mem_range.mpr hs)

/-- only the 13 rank letters parse as a rank, only the 4 suit letters as a suit -/
theorem rank_char_only (b : Nat) (hb : b < 128) (r : Nat) (e : rankOfChar b = some r) :
    r < 13 ∧ rankChar r = b := by
  have h : ∀ b ∈ List.range 128, (match rankOfChar b with
      | some r => decide (r < 13) && rankChar r == b
      | none => true) = true := by decide +kernel
  have := h b (List.mem_range.mpr hb)
  rw [e] at this
  simpa using this

theorem suit_char_only (b : Nat) (hb : b < 128) (s : Nat) (e : suitOfChar b = some s) :
    s < 4 ∧ suitChar s = b := by
  have h : ∀ b ∈ List.range 128, (match suitOfChar b with
      | some r => decide (r < 4) && suitChar r == b
      | none => true) = true := by decide +kernel
  have := h b (List.mem_range.mpr hb)
  rw [e] at this
  simpa using this

/-! #### cards ↔ single bits of a 64-bit word -/

/-- each card converts to a single bit among the low 52 and back to itself -/
theorem card_bits_roundtrip (c : Card) (h : c.valid = true) :
    cardOfU64 (u64OfCard c) = .ok c ∧ ∃ k, k < 52 ∧ u64OfCard c = 2 ^ k := by
  have key : ∀ c ∈ allCards, cardOfU64 (u64OfCard c) = .ok c
      ∧ (List.range 52).any (fun k => u64OfCard c == 2 ^ k) = true := by decide
  obtain ⟨h1, h2⟩ := key c (mem_allCards c h)
  refine ⟨h1, ?_⟩
  simp only [List.any_eq_true, List.mem_range, beq_iff_eq] at h2
  exact h2

/-- distinct cards give distinct bits -/
theorem card_bits_injective : (allCards.map u64OfCard).Nodup := by decide

theorem card_bits_inj (a b : Card) (ha : a.valid = true) (hb : b.valid = true)
    (h : u64OfCard a = u64OfCard b) : a = b := by
  have h1 := (card_bits_roundtrip a ha).1
  have h2 := (card_bits_roundtrip b hb).1
  rw [h] at h1; rw [h1] at h2; exact (Res.ok.inj h2)

/-- each of the 52 low single-bit words converts to a card and back to itself; 0 panics -/
theorem bits_card_roundtrip (k : Nat) (hk : k < 52) :
    ∃ c, cardOfU64 (2 ^ k) = .ok c ∧ c.valid = true ∧ u64OfCard c = 2 ^ k := by
  have key : ∀ k ∈ List.range 52, (match cardOfU64 (2 ^ k) with
      | .ok c => c.valid && u64OfCard c == 2 ^ k
      | _ => false) = true := by decide
  have := key k (List.mem_range.mpr hk)
  split at this
  · rename_i c hc
    simp only [Bool.and_eq_true, beq_iff_eq] at this
    exact ⟨c, hc, this.1, this.2⟩
  · exact absurd this (by decide)

theorem zero_word_panics : cardOfU64 0 = .panic := by decide

/-! #### cards ↔ two-character text -/

theorem card_text_roundtrip (c : Card) (h : c.valid = true) :
    parseCard (showCard c) = .ok c ∧ (showCard c).length = 2 ∧ isAscii (showCard c) = true := by
  have key : ∀ c ∈ allCards, parseCard (showCard c) = .ok c ∧ (showCard c).length = 2
      ∧ isAscii (showCard c) = true := by decide
  exact key c (mem_allCards c h)

theorem card_text_distinct : (allCards.map showCard).Nodup := by decide

/-- the canonical spellings 'As' … '2c' -/
theorem card_text_ends : showCard ⟨0, 0⟩ = [65, 115] ∧ showCard ⟨12, 3⟩ = [50, 99] := by decide

/-- any two-character ASCII text that parses as a card *is* that card's text (so every other
two-character ASCII text is rejected); parsing never panics on ASCII of length ≤ 2. -/
theorem parseCard_two (b₁ b₂ : Nat) (h₁ : b₁ < 128) (h₂ : b₂ < 128) :
    parseCard [b₁, b₂] = (match rankOfChar b₁, suitOfChar b₂ with
      | some r, some s => .ok ⟨r, s⟩
      | _, _ => .err) := by
  have c2 : isCont b₂ = false := by simp [isCont]; omega
  simp [parseCard, isAscii, slice, isBoundary, parseRank, parseSuit, firstChar, h₁, h₂, c2]
  cases rankOfChar b₁ <;> cases suitOfChar b₂ <;> simp

theorem two_char_ascii (b₁ b₂ : Nat) (h₁ : b₁ < 128) (h₂ : b₂ < 128) :
    parseCard [b₁, b₂] ≠ .panic ∧
    ∀ c, parseCard [b₁, b₂] = .ok c → c.valid = true ∧ showCard c = [b₁, b₂] := by
  rw [parseCard_two b₁ b₂ h₁ h₂]
  cases hr : rankOfChar b₁ <;> cases hs : suitOfChar b₂ <;> simp
  rename_i r s
  have := rank_char_only b₁ h₁ r hr
  have := suit_char_only b₂ h₂ s hs
  simp [Card.valid, showCard, *]

/-- every one-character text (and the empty text) is rejected -/
theorem short_text_rejected : parseCard [] = .err ∧ ∀ b, parseCard [b] = .err := by
  refine ⟨by decide, fun b => ?_⟩
  simp [parseCard]

/-! #### ranges enumerate exactly the contiguous run between their endpoints -/

theorem rank_range_run (a b : Nat) (ha : a < 13) (hb : b < 13) (hab : a ≤ b) :
    rankRange a b false = .ok (List.range' a (b - a))
    ∧ rankRange a b true = .ok (List.range' a (b + 1 - a)) := by
  have key : ∀ a ∈ List.range 13, ∀ b ∈ List.range 13, a ≤ b →
      rankRange a b false = .ok (List.range' a (b - a))
      ∧ rankRange a b true = .ok (List.range' a (b + 1 - a)) := by decide
  exact key a (List.mem_range.mpr ha) b (List.mem_range.mpr hb) hab

theorem rank_range_all : rankRangeAll = .ok (List.range 13) := by decide

theorem suit_range_run (a b : Nat) (ha : a < 4) (hb : b < 4) (hab : a ≤ b) :
    suitRange a b false = .ok (List.range' a (b - a))
    ∧ suitRange a b true = .ok (List.range' a (b + 1 - a)) := by
  have key : ∀ a ∈ List.range 4, ∀ b ∈ List.range 4, a ≤ b →
      suitRange a b false = .ok (List.range' a (b - a))
      ∧ suitRange a b true = .ok (List.range' a (b + 1 - a)) := by decide
  exact key a (List.mem_range.mpr ha) b (List.mem_range.mpr hb) hab

theorem suit_range_all : suitRangeAll = .ok (List.range 4) := by decide

/-- non-vacuity: the hypotheses are met by concrete cards -/
example : (⟨3, 2⟩ : Card).valid = true ∧ u64OfCard ⟨3, 2⟩ = 2 ^ 14 ∧ showCard ⟨3, 2⟩ = [74, 100] := by decide

end EspadaVerif.C13
