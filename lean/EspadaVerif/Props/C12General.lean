/-
C12 (gaps F3, F4) — the rank-pair / leftover split for ANY weight domain on which `==` is equality, with the
hypotheses on the range's CONTENTS (what `lookup` answers), not on its insert history.

* F3: `C12_report` / `C12_orphans` / `C12_cover` take the whole bundle `WTextOk wt inDom` (text conversion included)
  although only `eq_iff` matters; here the only assumption about the weights is
  `heq : ∀ a b, inDom a → inDom b → (wt.eq a b = true ↔ a = b)` for an ARBITRARY `inDom`
  (e.g. "any f32 that is not NaN and not -0.0": a range with weight 1.5 built through `FromIterator` is covered).
* F4: `∀ e ∈ r, …` ranges over the insert history, overwritten inserts included; here the hypothesis is
  `∀ c w, r.lookup c = some w → inDom w` (`C12_*_contents`); the history forms (`C12_*_general`) are corollaries.
  `lookup_contents` says `HandRange.contents` answers every lookup as the history does.
-/
import EspadaVerif.Props.C12
import EspadaVerif.Lemmas.RangeAux
import EspadaVerif.Props.Witness.Common

set_option Elab.async false

namespace EspadaVerif.C12
open EspadaVerif TextDefs RankPairFacts

variable {W : Type}

/-! ### contents and history answer the same lookups -/

/-- **the map's contents answer every lookup as the insert history does** -/
theorem lookup_contents (r : HandRange W) : ∀ c, HandRange.lookup (HandRange.contents r) c = r.lookup c := by
  induction r using HandRange.contents.induct with
  | case1 => intro c; rw [HandRange.contents]
  | case2 k v rest ih =>
    intro c
    rw [HandRange.contents]
    simp only [HandRange.lookup]
    by_cases hk : k = c
    · rw [if_pos hk, if_pos hk]
    · rw [if_neg hk, if_neg hk, ih c, lookup_remove, if_neg (fun e => hk e.symm)]

/-- in an association list with distinct keys every entry is what `lookup` answers for its key -/
theorem lookup_of_mem_nodup (l : HandRange W) (h : (l.map (·.1)).Nodup) (e : Combo × W) (he : e ∈ l) :
    l.lookup e.1 = some e.2 := by
  induction l with
  | nil => cases he
  | cons x rest ih =>
    obtain ⟨k, v⟩ := x
    simp only [List.map_cons, List.nodup_cons] at h
    simp only [HandRange.lookup]
    rcases List.mem_cons.mp he with rfl | he'
    · simp
    · have hne : k ≠ e.1 := by
        intro hk
        exact h.1 (List.mem_map.mpr ⟨e, he', hk.symm⟩)
      rw [if_neg hne]
      exact ih h.2 he'

/-- an entry of the contents is a current entry of the range -/
theorem lookup_of_mem_contents (r : HandRange W) (e : Combo × W) (he : e ∈ HandRange.contents r) :
    r.lookup e.1 = some e.2 := by
  rw [← lookup_contents]
  exact lookup_of_mem_nodup _ (RangeAux.contents_nodup r) e he

/-- the contents are exactly the answers of `lookup` -/
theorem mem_contents_iff (r : HandRange W) (c : Combo) (w : W) :
    (c, w) ∈ HandRange.contents r ↔ r.lookup c = some w := by
  constructor
  · exact lookup_of_mem_contents r (c, w)
  · intro h
    rw [← lookup_contents] at h
    exact lookup_mem h

/-- a hypothesis on the history implies the same hypothesis on the contents (not conversely: overwritten inserts) -/
theorem contents_hyp_of_history {P : Combo → W → Prop} (r : HandRange W) (h : ∀ e ∈ r, P e.1 e.2) :
    ∀ c w, r.lookup c = some w → P c w :=
  fun _ _ hl => h _ (lookup_mem hl)

/-! ### the probe test from `heq` alone -/

/-- `RankPairFacts.rankPairWeight_probe_iff` from `heq` only, with the domain hypothesis on the lookups -/
theorem probe_iff_of_heq (wt : WText W) (inDom : W → Prop)
    (heq : ∀ a b, inDom a → inDom b → (wt.eq a b = true ↔ a = b)) (r : HandRange W)
    (hr : ∀ c w, r.lookup c = some w → inDom w) (rp : RankPair) (probe : Combo) (hprobe : probe ∈ rp.combos) (p : W) :
    rankPairWeight wt r rp probe = some p ↔ ∀ cp ∈ rp.combos, r.lookup cp = some p := by
  rw [rankPairWeight_eq_some_iff]
  constructor
  · rintro ⟨hp, hall⟩ cp hcp
    obtain ⟨q, hq, he⟩ := hall cp hcp
    rw [hq, (heq q p (hr _ _ hq) (hr _ _ hp)).mp he]
  · intro hall
    have hp := hall probe hprobe
    exact ⟨hp, fun cp hcp => ⟨p, hall cp hcp, (heq p p (hr _ _ hp) (hr _ _ hp)).mpr rfl⟩⟩

theorem report_rpList_contents (wt : WText W) (inDom : W → Prop)
    (heq : ∀ a b, inDom a → inDom b → (wt.eq a b = true ↔ a = b)) (r : HandRange W)
    (hr : ∀ c w, r.lookup c = some w → inDom w) (rp : RankPair) (w : W) :
    rpLookup (rpList wt r) rp = some w ↔ (RankPair.canonical rp ∧ ∀ c ∈ rp.combos, r.lookup c = some w) := by
  rw [rpLookup_rpList, entryW, probe_iff_of_heq wt inDom heq r hr rp _ (probeOf_mem rp)]

/-! ### C12 with hypotheses on the contents -/

/-- **C12 (rank pairs), contents form.** For any weight domain on which `==` is equality and any range all of whose
CURRENT weights lie in it: a rank pair is reported with weight `w` exactly when it is canonical and all of its combos are
present with that same weight `w`. -/
theorem C12_report_contents (wt : WText W) (inDom : W → Prop)
    (heq : ∀ a b, inDom a → inDom b → (wt.eq a b = true ↔ a = b)) (r : HandRange W)
    (hr : ∀ c w, r.lookup c = some w → inDom w) :
    ∃ l, rankPairs wt r = .ok l ∧
      ∀ rp w, rpLookup l rp = some w ↔ (RankPair.canonical rp ∧ ∀ c ∈ rp.combos, r.lookup c = some w) :=
  ⟨rpList wt r, rankPairs_eq wt r, report_rpList_contents wt inDom heq r hr⟩

/-- **C12 (leftovers), no hypothesis at all.** For ANY range and ANY `==` (NaN weights included) the leftover view holds
exactly the combos not covered by a reported rank pair, with their own weights. -/
theorem C12_orphans_contents (wt : WText W) (r : HandRange W) :
    ∃ l o, rankPairs wt r = .ok l ∧ orphans wt r = .ok o ∧
      ∀ c, ((∃ rp w, rpLookup l rp = some w ∧ c ∈ rp.combos) → o.lookup c = none)
         ∧ ((∀ rp w, rpLookup l rp = some w → c ∉ rp.combos) → o.lookup c = r.lookup c) := by
  obtain ⟨o, ho, hl⟩ := orphans_lookup wt r
  refine ⟨rpList wt r, o, rankPairs_eq wt r, ho, fun c => ⟨fun h => ?_, fun h => ?_⟩⟩
  · rw [hl c, if_pos ((mem_reported_combos wt r c).mpr h)]
  · rw [hl c, if_neg]
    intro hm
    obtain ⟨rp, w, h1, h2⟩ := (mem_reported_combos wt r c).mp hm
    exact h rp w h1 h2

/-- **C12 (cover), contents form.** Every combo of the range lies in exactly one of the two views, with its weight. -/
theorem C12_cover_contents (wt : WText W) (inDom : W → Prop)
    (heq : ∀ a b, inDom a → inDom b → (wt.eq a b = true ↔ a = b)) (r : HandRange W)
    (hr : ∀ c w, r.lookup c = some w → inDom w) :
    ∃ l o, rankPairs wt r = .ok l ∧ orphans wt r = .ok o ∧
      ∀ c w, r.lookup c = some w →
        (o.lookup c = some w ∧ ∀ rp w', rpLookup l rp = some w' → c ∉ rp.combos)
        ∨ (o.lookup c = none ∧ ∃ rp, rpLookup l rp = some w ∧ c ∈ rp.combos
             ∧ ∀ rp' w', rpLookup l rp' = some w' → c ∈ rp'.combos → rp' = rp) := by
  obtain ⟨o, ho, hl⟩ := orphans_lookup wt r
  refine ⟨rpList wt r, o, rankPairs_eq wt r, ho, fun c w hw => ?_⟩
  have hrep := report_rpList_contents wt inDom heq r hr
  by_cases hm : c ∈ (rpList wt r).flatMap (fun e => e.1.combos)
  · right
    obtain ⟨rp, w', h1, h2⟩ := (mem_reported_combos wt r c).mp hm
    have h3 := (hrep rp w').mp h1
    have hww : w' = w := by
      have := h3.2 c h2
      rw [hw] at this
      exact (Option.some.inj this).symm
    subst hww
    refine ⟨by rw [hl c, if_pos hm], rp, h1, h2, fun rp' w'' h1' h2' => ?_⟩
    exact C12_disjoint rp' rp ((hrep rp' w'').mp h1').1 h3.1 c h2' h2
  · left
    refine ⟨by rw [hl c, if_neg hm, hw], fun rp w' h1 h2 => ?_⟩
    exact hm ((mem_reported_combos wt r c).mpr ⟨rp, w', h1, h2⟩)

/-! ### the history forms (F3): `heq` instead of the bundle -/

/-- **C12 (rank pairs), any domain.** `C12_report` with `heq` as the only assumption about the weights. -/
theorem C12_report_general (wt : WText W) (inDom : W → Prop)
    (heq : ∀ a b, inDom a → inDom b → (wt.eq a b = true ↔ a = b)) (r : HandRange W)
    (hr : ∀ e ∈ r, inDom e.2) :
    ∃ l, rankPairs wt r = .ok l ∧
      ∀ rp w, rpLookup l rp = some w ↔ (RankPair.canonical rp ∧ ∀ c ∈ rp.combos, r.lookup c = some w) :=
  C12_report_contents wt inDom heq r (contents_hyp_of_history (P := fun _ w => inDom w) r hr)

set_option linter.unusedVariables false in
/-- **C12 (leftovers), any domain.** (The hypotheses are not used: see `C12_orphans_contents`.) -/
theorem C12_orphans_general (wt : WText W) (inDom : W → Prop)
    (heq : ∀ a b, inDom a → inDom b → (wt.eq a b = true ↔ a = b)) (r : HandRange W)
    (hr : ∀ e ∈ r, inDom e.2) :
    ∃ l o, rankPairs wt r = .ok l ∧ orphans wt r = .ok o ∧
      ∀ c, ((∃ rp w, rpLookup l rp = some w ∧ c ∈ rp.combos) → o.lookup c = none)
         ∧ ((∀ rp w, rpLookup l rp = some w → c ∉ rp.combos) → o.lookup c = r.lookup c) :=
  C12_orphans_contents wt r

/-- **C12 (cover), any domain.** -/
theorem C12_cover_general (wt : WText W) (inDom : W → Prop)
    (heq : ∀ a b, inDom a → inDom b → (wt.eq a b = true ↔ a = b)) (r : HandRange W)
    (hr : ∀ e ∈ r, inDom e.2) :
    ∃ l o, rankPairs wt r = .ok l ∧ orphans wt r = .ok o ∧
      ∀ c w, r.lookup c = some w →
        (o.lookup c = some w ∧ ∀ rp w', rpLookup l rp = some w' → c ∉ rp.combos)
        ∨ (o.lookup c = none ∧ ∃ rp, rpLookup l rp = some w ∧ c ∈ rp.combos
             ∧ ∀ rp' w', rpLookup l rp' = some w' → c ∈ rp'.combos → rp' = rp) :=
  C12_cover_contents wt inDom heq r (contents_hyp_of_history (P := fun _ w => inDom w) r hr)

/-- `C12_disjoint` has no hypothesis about weights; restated for completeness -/
theorem C12_disjoint_general (rp rp' : RankPair) (h : RankPair.canonical rp) (h' : RankPair.canonical rp') (c : Combo)
    (hc : c ∈ rp.combos) (hc' : c ∈ rp'.combos) : rp = rp' :=
  C12_disjoint rp rp' h h' c hc hc'

/-! ### a float-like weight type: a NaN, weights above 1, and an overwritten insert -/

/-- weights in tenths, `none` = NaN -/
abbrev FW := Option Nat

/-- `==` of floats: NaN is not equal to itself -/
def fwText : WText FW :=
  { one := some 10
    eq := fun a b => match a, b with
      | some x, some y => x == y
      | _, _ => false
    showW := fun _ => [], parseW := fun _ => none }

/-- "not NaN" -/
def fwDom (w : FW) : Prop := w ≠ none

theorem fw_heq : ∀ a b, fwDom a → fwDom b → (fwText.eq a b = true ↔ a = b) := by
  intro a b ha hb
  cases a with
  | none => exact absurd rfl ha
  | some x =>
    cases b with
    | none => exact absurd rfl hb
    | some y => simp [fwText]

/-- `==` is NOT reflexive on the whole type, so `heq` for `inDom := fun _ => True` would be false -/
example : fwText.eq none none = false := rfl

/-- the four suited ace-kings at weight 1.5 and 7♦7♣ at 0.3; A♠K♠ was first inserted with a NaN and then overwritten -/
def fwRange : HandRange FW :=
  [(⟨⟨0, 0⟩, ⟨1, 0⟩⟩, some 15), (⟨⟨7, 2⟩, ⟨7, 3⟩⟩, some 3), (⟨⟨0, 3⟩, ⟨1, 3⟩⟩, some 15), (⟨⟨0, 2⟩, ⟨1, 2⟩⟩, some 15),
   (⟨⟨0, 1⟩, ⟨1, 1⟩⟩, some 15), (⟨⟨0, 0⟩, ⟨1, 0⟩⟩, none)]

/-- the history hypothesis of `C12_report` / `C12_report_general` FAILS on this range … -/
example : ¬ ∀ e ∈ fwRange, fwDom e.2 := fun h => h (⟨⟨0, 0⟩, ⟨1, 0⟩⟩, none) (by decide) rfl

/-- … the contents hypothesis holds -/
theorem fwRange_dom : ∀ c w, fwRange.lookup c = some w → fwDom w := by
  intro c w h
  simp only [fwRange, HandRange.lookup] at h
  repeat' split at h
  all_goals first
    | (cases h; intro hh; cases hh)
    | cases h

/-- `AKs` is reported with weight 1.5 (outside [0,1], not in the scope of `WTextOk`), the pocket sevens are not
reported (one combo of six), and 7♦7♣ is a leftover with its weight -/
example : ∃ l o, rankPairs fwText fwRange = .ok l ∧ orphans fwText fwRange = .ok o
    ∧ rpLookup l (.suited 0 1) = some (some 15) ∧ rpLookup l (.pocket 7) = none
    ∧ o.lookup ⟨⟨7, 2⟩, ⟨7, 3⟩⟩ = some (some 3) ∧ o.lookup ⟨⟨0, 0⟩, ⟨1, 0⟩⟩ = none := by
  obtain ⟨l, hl, hrep⟩ := C12_report_contents fwText fwDom fw_heq fwRange fwRange_dom
  obtain ⟨l', o, hl', ho, hcov⟩ := C12_cover_contents fwText fwDom fw_heq fwRange fwRange_dom
  have : l' = l := Res.ok.inj (hl'.symm.trans hl)
  subst this
  have hAK : rpLookup l' (.suited 0 1) = some (some 15) :=
    (hrep _ _).mpr ⟨⟨by decide, by decide⟩, by decide⟩
  have h77 : rpLookup l' (.pocket 7) = none := by
    cases h : rpLookup l' (.pocket 7) with
    | none => rfl
    | some w =>
      have := ((hrep _ _).mp h).2 ⟨⟨7, 0⟩, ⟨7, 1⟩⟩ (by decide)
      have e : fwRange.lookup ⟨⟨7, 0⟩, ⟨7, 1⟩⟩ = none := by decide
      rw [e] at this
      cases this
  refine ⟨l', o, hl, ho, hAK, h77, ?_, ?_⟩
  · rcases hcov ⟨⟨7, 2⟩, ⟨7, 3⟩⟩ (some 3) (by decide) with ⟨h1, _⟩ | ⟨_, rp, h1, h2, _⟩
    · exact h1
    · exfalso
      have hc := ((hrep rp _).mp h1).1
      have := classify_of_mem hc h2
      have e : classify ⟨⟨7, 2⟩, ⟨7, 3⟩⟩ = .pocket 7 := by decide
      rw [e] at this
      rw [← this, h77] at h1
      cases h1
  · rcases hcov ⟨⟨0, 0⟩, ⟨1, 0⟩⟩ (some 15) (by decide) with ⟨_, h2⟩ | ⟨h1, _⟩
    · exact absurd (show (⟨⟨0, 0⟩, ⟨1, 0⟩⟩ : Combo) ∈ (RankPair.suited 0 1).combos by decide) (h2 _ _ hAK)
    · exact h1

end EspadaVerif.C12
