/-
C13 (additions) — what the review found unstated in `Props/C13.lean`.

* F7: `rank_range_run` / `suit_range_run` assume `a ≤ b`.  Here the remaining endpoint pairs are stated
  too, and all endpoint pairs are put into one total characterisation (`rank_range_total`,
  `suit_range_total`).  The model (`sliceTbl`, Model/Card.lean) panics exactly where the Rust slice
  expressions of `IntoIterator for RankRange` / `SuitRange` (src/card/rank_range.rs, suit_range.rs) do:
  `RANKS[a..b]` panics iff `a > b` or `b > 13`; `RANKS[a..=b]` panics iff `b = usize::MAX`, `a > b + 1` or
  `b + 1 > 13` — with `b ≤ 12` (every `u8::from(Rank)`) this is `a > b` resp. `a > b + 1`, and
  `RANKS[b+1..=b]` is the empty slice.
* F8: the card texts were pinned at `As` and `2c` only.  Here all 52 texts, the 13 + 4 single letters and
  the acceptance set of `Card::from_str` on two-byte texts are tied to the vocabulary of
  `Spec/Cards.lean`, which is written down independently of `Gen` ("AKQJT98765432", "shdc").

All proofs are kernel evaluations over the finite domains, lifted to the quantified form.
-/
import EspadaVerif.Props.C13
import EspadaVerif.Spec.Cards

set_option Elab.async false

namespace EspadaVerif.C13
open EspadaVerif Gen

/-! #### F7: ranges on all ordered endpoint pairs -/

/-- `RankRange::new(a, b)` with `a` after `b`: the slice `RANKS[a..b]` panics -/
theorem rank_range_excl_panics (a b : Nat) (ha : a < 13) (hb : b < 13) (hab : a > b) :
    rankRange a b false = .panic := by
  have key : ∀ a ∈ List.range 13, ∀ b ∈ List.range 13, a > b → rankRange a b false = .panic := by decide
  exact key a (List.mem_range.mpr ha) b (List.mem_range.mpr hb) hab

/-- `RankRange::inclusive(a, b)` with `a` more than one step after `b`: `RANKS[a..=b]` panics -/
theorem rank_range_incl_panics (a b : Nat) (ha : a < 13) (hb : b < 13) (hab : a > b + 1) :
    rankRange a b true = .panic := by
  have key : ∀ a ∈ List.range 13, ∀ b ∈ List.range 13, a > b + 1 → rankRange a b true = .panic := by decide
  exact key a (List.mem_range.mpr ha) b (List.mem_range.mpr hb) hab

/-- `RankRange::inclusive(b + 1, b)`: `RANKS[b+1..=b]` is the empty slice, not a panic -/
theorem rank_range_incl_empty (b : Nat) (hb : b + 1 < 13) : rankRange (b + 1) b true = .ok [] := by
  have key : ∀ b ∈ List.range 12, rankRange (b + 1) b true = .ok [] := by decide
  exact key b (List.mem_range.mpr (by omega))

theorem suit_range_excl_panics (a b : Nat) (ha : a < 4) (hb : b < 4) (hab : a > b) :
    suitRange a b false = .panic := by
  have key : ∀ a ∈ List.range 4, ∀ b ∈ List.range 4, a > b → suitRange a b false = .panic := by decide
  exact key a (List.mem_range.mpr ha) b (List.mem_range.mpr hb) hab

theorem suit_range_incl_panics (a b : Nat) (ha : a < 4) (hb : b < 4) (hab : a > b + 1) :
    suitRange a b true = .panic := by
  have key : ∀ a ∈ List.range 4, ∀ b ∈ List.range 4, a > b + 1 → suitRange a b true = .panic := by decide
  exact key a (List.mem_range.mpr ha) b (List.mem_range.mpr hb) hab

theorem suit_range_incl_empty (b : Nat) (hb : b + 1 < 4) : suitRange (b + 1) b true = .ok [] := by
  have key : ∀ b ∈ List.range 3, suitRange (b + 1) b true = .ok [] := by decide
  exact key b (List.mem_range.mpr (by omega))

/-- **all ordered endpoint pairs of a rank range.**  With `e` the exclusive end (`b` for `new`, `b + 1`
for `inclusive`): the range is the contiguous run `a, a+1, …, e-1` (`Spec.run`) when `a ≤ e`, and a
panic otherwise. -/
theorem rank_range_total (a b : Nat) (ha : a < 13) (hb : b < 13) (incl : Bool) :
    rankRange a b incl
      = if a ≤ (if incl then b + 1 else b) then .ok (Spec.run a b incl) else .panic := by
  have key : ∀ a ∈ List.range 13, ∀ b ∈ List.range 13, ∀ incl : Bool, rankRange a b incl
      = if a ≤ (if incl then b + 1 else b) then .ok (Spec.run a b incl) else .panic := by decide
  exact key a (List.mem_range.mpr ha) b (List.mem_range.mpr hb) incl

theorem suit_range_total (a b : Nat) (ha : a < 4) (hb : b < 4) (incl : Bool) :
    suitRange a b incl
      = if a ≤ (if incl then b + 1 else b) then .ok (Spec.run a b incl) else .panic := by
  have key : ∀ a ∈ List.range 4, ∀ b ∈ List.range 4, ∀ incl : Bool, suitRange a b incl
      = if a ≤ (if incl then b + 1 else b) then .ok (Spec.run a b incl) else .panic := by decide
  exact key a (List.mem_range.mpr ha) b (List.mem_range.mpr hb) incl

/-- the run of the total characterisation, spelled out: `a, a+1, …` up to (but excluding) the end -/
theorem run_mem (a b : Nat) (incl : Bool) (x : Nat) :
    x ∈ Spec.run a b incl ↔ a ≤ x ∧ x < (if incl then b + 1 else b) := by
  simp only [Spec.run, List.mem_range'_1]
  cases incl <;> simp <;> omega

/-- a range never panics on `a ≤ b`, and on `a > b` only `inclusive(b + 1, b)` survives -/
theorem rank_range_panic_iff (a b : Nat) (ha : a < 13) (hb : b < 13) (incl : Bool) :
    rankRange a b incl = .panic ↔ (if incl then b + 1 else b) < a := by
  rw [rank_range_total a b ha hb incl]
  split <;> simp <;> omega

theorem suit_range_panic_iff (a b : Nat) (ha : a < 4) (hb : b < 4) (incl : Bool) :
    suitRange a b incl = .panic ↔ (if incl then b + 1 else b) < a := by
  rw [suit_range_total a b ha hb incl]
  split <;> simp <;> omega

/-- non-vacuity: `RankRange::new(Six, Jack)` panics, `inclusive(Ten, Jack)` is empty,
`inclusive(Nine, Jack)` panics, `inclusive(Jack, Six)` is J T 9 8 7 6; same for suits -/
example : rankRange 8 3 false = .panic ∧ rankRange 4 3 true = .ok [] ∧ rankRange 5 3 true = .panic
    ∧ rankRange 3 8 true = .ok [3, 4, 5, 6, 7, 8] ∧ rankRange 3 3 false = .ok [] :=
  ⟨rank_range_excl_panics 8 3 (by decide) (by decide) (by decide),
   rank_range_incl_empty 3 (by decide),
   rank_range_incl_panics 5 3 (by decide) (by decide) (by decide),
   by rw [rank_range_total 3 8 (by decide) (by decide)]; decide,
   by rw [rank_range_total 3 3 (by decide) (by decide)]; decide⟩

example : suitRange 3 1 false = .panic ∧ suitRange 2 1 true = .ok [] ∧ suitRange 3 1 true = .panic
    ∧ suitRange 1 3 true = .ok [1, 2, 3] :=
  ⟨suit_range_excl_panics 3 1 (by decide) (by decide) (by decide),
   suit_range_incl_empty 1 (by decide),
   suit_range_incl_panics 3 1 (by decide) (by decide) (by decide),
   by rw [suit_range_total 1 3 (by decide) (by decide)]; decide⟩

/-! #### F8: the texts are the standard ones -/

/-- `char::from(&Rank)`: the rank letters in declaration order are "AKQJT98765432" -/
theorem rank_char_spec (r : Nat) (hr : r < 13) : rankChar r = Spec.rankChars.getD r 0 := by
  have key : ∀ r ∈ List.range 13, rankChar r = Spec.rankChars.getD r 0 := by decide
  exact key r (List.mem_range.mpr hr)

/-- `char::from(&Suit)`: the suit letters in declaration order are "shdc" -/
theorem suit_char_spec (s : Nat) (hs : s < 4) : suitChar s = Spec.suitChars.getD s 0 := by
  have key : ∀ s ∈ List.range 4, suitChar s = Spec.suitChars.getD s 0 := by decide
  exact key s (List.mem_range.mpr hs)

theorem rank_chars_list : (List.range 13).map rankChar = Spec.rankChars
    ∧ (List.range 4).map suitChar = Spec.suitChars := by decide

/-- `Rank::try_from(&char)` on every ASCII char: the position of the char in "AKQJT98765432", if any -/
theorem rank_of_char_spec (b : Nat) (hb : b < 128) : rankOfChar b = Spec.rankChars.idxOf? b := by
  have key : ∀ b ∈ List.range 128, rankOfChar b = Spec.rankChars.idxOf? b := by decide +kernel
  exact key b (List.mem_range.mpr hb)

/-- `Suit::try_from(&char)` on every ASCII char: the position of the char in "shdc", if any -/
theorem suit_of_char_spec (b : Nat) (hb : b < 128) : suitOfChar b = Spec.suitChars.idxOf? b := by
  have key : ∀ b ∈ List.range 128, suitOfChar b = Spec.suitChars.idxOf? b := by decide +kernel
  exact key b (List.mem_range.mpr hb)

/-- all 52 card texts are the standard ones: rank letter from "AKQJT98765432", suit letter from "shdc" -/
theorem card_text_spec : ∀ c ∈ allCards, showCard c = Spec.cardText c.code := by decide

theorem card_text_spec' (c : Card) (h : c.valid = true) : showCard c = Spec.cardText c.code :=
  card_text_spec c (mem_allCards c h)

/-- the 52 texts in wire-code order, as one list -/
theorem card_texts_list : allCards.map showCard = (List.range 52).map Spec.cardText := by decide

/-- `Card::from_str` on every two-byte ASCII text: exactly the 52 standard texts are accepted, each
as the right card; everything else is an error (never a panic). -/
theorem parse_card_spec (b₁ b₂ : Nat) (h₁ : b₁ < 128) (h₂ : b₂ < 128) :
    parseCard [b₁, b₂] = (match Spec.cardOfText [b₁, b₂] with
      | some n => .ok (Card.ofCode n)
      | none => .err) := by
  rw [parseCard_two b₁ b₂ h₁ h₂]
  simp only [Spec.cardOfText, ← rank_of_char_spec b₁ h₁, ← suit_of_char_spec b₂ h₂]
  cases hr : rankOfChar b₁ <;> cases hs : suitOfChar b₂ <;> simp only []
  rename_i r s
  have hs4 := (suit_char_only b₂ h₂ s hs).1
  congr 1
  simp only [Card.ofCode, Card.mk.injEq]
  omega

private theorem idxOf?_none_of_not_mem (l : List Nat) (b : Nat) (h : b ∉ l) : l.idxOf? b = none := by
  simp [List.idxOf?, List.findIdx?_eq_none_iff]
  intro x hx e; exact h (e ▸ hx)

private theorem rank_idx_big (b : Nat) (hb : 128 ≤ b) : Spec.rankChars.idxOf? b = none := by
  apply idxOf?_none_of_not_mem
  simp [Spec.rankChars]; omega

private theorem suit_idx_big (b : Nat) (hb : 128 ≤ b) : Spec.suitChars.idxOf? b = none := by
  apply idxOf?_none_of_not_mem
  simp [Spec.suitChars]; omega

/-- the same without the ASCII hypothesis: a two-byte text with a byte `≥ 128` (one two-byte UTF-8
char) is an error on both sides — `Card::from_str` after the D6 repair tests `is_ascii` before
slicing, and no standard letter is `≥ 128`. -/
theorem parse_card_spec_all (b₁ b₂ : Nat) :
    parseCard [b₁, b₂] = (match Spec.cardOfText [b₁, b₂] with
      | some n => .ok (Card.ofCode n)
      | none => .err) := by
  by_cases h₁ : b₁ < 128
  · by_cases h₂ : b₂ < 128
    · exact parse_card_spec b₁ b₂ h₁ h₂
    · have : parseCard [b₁, b₂] = .err := by simp [parseCard, isAscii, h₂]
      rw [this]
      simp only [Spec.cardOfText, suit_idx_big b₂ (by omega)]
      cases Spec.rankChars.idxOf? b₁ <;> rfl
  · have : parseCard [b₁, b₂] = .err := by simp [parseCard, isAscii, h₁]
    rw [this]
    simp only [Spec.cardOfText, rank_idx_big b₁ (by omega)]

/-- the code returned by the specification's reader is a wire code `< 52` whose text is the input -/
theorem cardOfText_code (b₁ b₂ n : Nat) (h₁ : b₁ < 128) (h₂ : b₂ < 128)
    (e : Spec.cardOfText [b₁, b₂] = some n) : n < 52 ∧ Spec.cardText n = [b₁, b₂] := by
  simp only [Spec.cardOfText, ← rank_of_char_spec b₁ h₁, ← suit_of_char_spec b₂ h₂] at e
  cases hr : rankOfChar b₁ <;> cases hs : suitOfChar b₂ <;> rw [hr, hs] at e <;> simp only [] at e
  · exact absurd e (by simp)
  · exact absurd e (by simp)
  · exact absurd e (by simp)
  rename_i r s
  injection e with e
  obtain ⟨hr13, hrc⟩ := rank_char_only b₁ h₁ r hr
  obtain ⟨hs4, hsc⟩ := suit_char_only b₂ h₂ s hs
  have e1 : n / 4 = r := by omega
  have e2 : n % 4 = s := by omega
  refine ⟨by omega, ?_⟩
  rw [Spec.cardText, e1, e2, ← rank_char_spec r hr13, ← suit_char_spec s hs4, hrc, hsc]

/-- acceptance set of `Card::from_str` on two-byte ASCII texts, as an equivalence -/
theorem parse_card_accepts_iff (b₁ b₂ : Nat) (h₁ : b₁ < 128) (h₂ : b₂ < 128) (c : Card) :
    parseCard [b₁, b₂] = .ok c ↔ c ∈ allCards ∧ Spec.cardText c.code = [b₁, b₂] := by
  constructor
  · intro e
    obtain ⟨hv, hshow⟩ := (two_char_ascii b₁ b₂ h₁ h₂).2 c e
    exact ⟨mem_allCards c hv, by rw [← card_text_spec' c hv, hshow]⟩
  · rintro ⟨hm, ht⟩
    have hv := valid_of_mem_allCards c hm
    rw [← ht, ← card_text_spec' c hv]
    exact (card_text_roundtrip c hv).1

/-- non-vacuity: "Jd" is the jack of diamonds (code 14); "dJ", "1s" and "jd" are rejected -/
example : parseCard [74, 100] = .ok ⟨3, 2⟩ ∧ parseCard [100, 74] = .err ∧ parseCard [49, 115] = .err
    ∧ parseCard [106, 100] = .err := by
  refine ⟨?_, ?_, ?_, ?_⟩
  · rw [parse_card_spec 74 100 (by decide) (by decide)]; decide
  · rw [parse_card_spec 100 74 (by decide) (by decide)]; decide
  · rw [parse_card_spec 49 115 (by decide) (by decide)]; decide
  · rw [parse_card_spec 106 100 (by decide) (by decide)]; decide

/-- "é" (two bytes, one char) is rejected, not a panic -/
example : parseCard [195, 169] = .err := by rw [parse_card_spec_all]; decide

example : showCard ⟨3, 2⟩ = [74, 100] ∧ Spec.cardText (Card.code ⟨3, 2⟩) = [74, 100] :=
  ⟨card_text_spec' ⟨3, 2⟩ (by decide) ▸ (by decide), by decide⟩

end EspadaVerif.C13
