/-
C15 — Evaluator instances are independent under any interleaving or thread schedule.

In the model `next` is a function of the iterator's own state: there is no other component it could read or
write.  The theorem below is the resulting frame property for arbitrary interleavings of `next()` calls over
any family of live iterators.  What ties it to the crate: (a) the translator's audit that the crate's
non-test code has no `static`, `thread_local!`, interior-mutable, lazily initialised or `unsafe` item
(`Gen.sharedStateHits`, regenerated on every run — the regexes are compiled per call); (b) compile-time
`Send + Sync` assertions in the harness; (c) the correspondence: interleaved and multi-threaded runs of the
real crate compared with solo runs.  OS thread schedules themselves are not modelled.
-/
import EspadaVerif.Model.Iter
import EspadaVerif.Gen.Audit

namespace EspadaVerif.C15
open EspadaVerif

variable {W : Type}

/-- one `next()` call: the observable result and the iterator afterwards (unchanged if the call fails) -/
def call (ops : WOps W) (s : IterState W) : Res (Option (Showdown W)) × IterState W :=
  match next ops s with
  | .ok (o, s') => (.ok o, s')
  | .err => (.err, s)
  | .panic => (.panic, s)

/-- `k` calls on one iterator alone -/
def solo (ops : WOps W) : Nat → IterState W → List (Res (Option (Showdown W)))
  | 0, _ => []
  | k + 1, s => (call ops s).1 :: solo ops k (call ops s).2

/-- calls on a family of iterators (indexed by naturals) in the order given by the schedule; every result is
tagged with the instance that produced it -/
def interleaved (ops : WOps W) (states : Nat → IterState W) : List Nat → List (Nat × Res (Option (Showdown W)))
  | [] => []
  | i :: rest =>
    (i, (call ops (states i)).1) ::
      interleaved ops (fun j => if j = i then (call ops (states i)).2 else states j) rest

/-- **C15.** Under any schedule, what instance `i` returns is exactly what it returns when iterated alone the same
number of times. -/
theorem C15_interleave (ops : WOps W) (sched : List Nat) (states : Nat → IterState W) (i : Nat) :
    ((interleaved ops states sched).filter (fun x => x.1 == i)).map (·.2)
      = solo ops (sched.count i) (states i) := by
  induction sched generalizing states with
  | nil => simp [interleaved, solo]
  | cons j rest ih =>
    by_cases hji : j = i
    · subst hji
      simp only [interleaved, List.filter_cons, beq_self_eq_true, ↓reduceIte, List.map_cons, List.count_cons_self, solo]
      rw [ih]
      simp
    · have hne : (j == i) = false := by simp [hji]
      simp only [interleaved, List.filter_cons, hne, Bool.false_eq_true, ↓reduceIte]
      rw [ih]
      have : (List.count i (j :: rest)) = List.count i rest := by
        simp [List.count_cons, hne]
      rw [this]
      have hij : ¬ i = j := fun h => hji h.symm
      simp [hij]

/-- the crate's non-test code contains no item that could carry state shared between instances -/
theorem C15_no_shared_state : Gen.sharedStateHits = [] := by decide

end EspadaVerif.C15
