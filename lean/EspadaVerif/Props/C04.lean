/-
C04 — Scoped evaluators tile the enumeration: chained scopes reproduce the full run.

Everything is a corollary of the refinement theorem `C02.C02_refines`, which is already stated for an
arbitrary scope `[a, b)`, plus the fact that the specification's position lists concatenate.
-/
import EspadaVerif.Props.C02
import EspadaVerif.Lemmas.IterCorollaries

namespace EspadaVerif.C04
open EspadaVerif Spec C02 EspadaVerif.IterLemmas

variable {W : Type}

/-- `k` further `next()` calls, collecting what they return -/
def nextN (ops : WOps W) : Nat → IterState W → Res (List (Option (Showdown W)) × IterState W)
  | 0, s => .ok ([], s)
  | k + 1, s =>
    match next ops s with
    | .ok (o, s') =>
      match nextN ops k s' with
      | .ok (os, s'') => .ok (o :: os, s'')
      | .err => .err
      | .panic => .panic
    | .err => .err
    | .panic => .panic

/-- **C04 (scoped).** An evaluator scoped to `[a, b)` yields exactly the showdowns of the legal deals at the
positions `a ≤ p < b`, position by position in lexicographic order. (This is `C02_refines`.) -/
theorem C04_scoped (ops : WOps W) (flop : List Card) (ranges : List (List (Combo × W))) (a b : Nat × Nat)
    (h : WfInput flop ranges) (hs : ValidScope a b) :
    ∃ s₀ : IterState W, (mkEvaluator flop ranges a b).intoIter = .ok s₀ ∧
    ∃ (sds : List (Showdown W)) (sEnd : IterState W),
      (∀ limit, sds.length < limit → drainFuel ops limit s₀ [] = .ok (sds, sEnd))
      ∧ (deals (flop.map Card.code) (specEntries ranges) a b).map (showdownOfDeal ops flop)
          = sds.map (fun sd => .ok (some sd))
      ∧ next ops sEnd = .ok (none, sEnd) :=
  C02_refines ops flop ranges a b h hs

/-- **C04 (stays exhausted).** After the enumeration has ended, any number of further `next()` calls return
`None` and leave the iterator unchanged. -/
theorem C04_exhausted (ops : WOps W) (sEnd : IterState W) (hend : next ops sEnd = .ok (none, sEnd)) (k : Nat) :
    nextN ops k sEnd = .ok (List.replicate k none, sEnd) := by
  induction k with
  | zero => rfl
  | succ k ih =>
    simp only [nextN, hend, ih, List.replicate_succ]

/-- the specification's deals of consecutive scopes concatenate -/
theorem deals_append (flop : List Nat) (entries : List (List (Nat × Nat × W))) (a b c : Nat × Nat)
    (hab : ValidScope a b) (hbc : ValidScope b c) :
    deals flop entries a b ++ deals flop entries b c = deals flop entries a c := by
  unfold deals
  simp only []
  rw [← List.flatMap_append,
    positionsBetween_append hab.to_valid hbc.ordered _ a rfl hab.from_valid hab.ordered]

/-- an empty scope has no deal -/
theorem deals_self (flop : List Nat) (entries : List (List (Nat × Nat × W))) (p : Nat × Nat) :
    deals flop entries p p = [] := by
  unfold deals
  simp only []
  rw [positionsBetween_self]
  rfl

/-- `C04_chain` together with the validity of the accumulated scope, from a valid start -/
theorem chain_aux (flop : List Nat) (entries : List (List (Nat × Nat × W))) :
    ∀ (cuts : List (Nat × Nat)) (p₀ : Nat × Nat), validPos p₀ = true →
      (∀ xy ∈ (p₀ :: cuts).zip cuts, ValidScope xy.1 xy.2) →
      ((p₀ :: cuts).zip cuts).flatMap (fun xy => deals flop entries xy.1 xy.2)
          = deals flop entries p₀ ((p₀ :: cuts).getLast (by simp))
        ∧ ValidScope p₀ ((p₀ :: cuts).getLast (by simp)) := by
  intro cuts
  induction cuts with
  | nil =>
    intro p₀ hv _
    refine ⟨?_, ⟨hv, hv, posLe_refl p₀⟩⟩
    simp only [List.zip_nil_right, List.flatMap_nil, List.getLast_singleton]
    exact (deals_self flop entries p₀).symm
  | cons c cs ih =>
    intro p₀ hv hchain
    have h0 : ValidScope p₀ c := hchain (p₀, c) (by simp)
    obtain ⟨ih1, ih2⟩ := ih c h0.to_valid (fun xy hxy => hchain xy (by
      simp only [List.zip_cons_cons, List.mem_cons]
      exact Or.inr hxy))
    have hlast : (p₀ :: c :: cs).getLast (by simp) = (c :: cs).getLast (by simp) :=
      List.getLast_cons_cons
    rw [hlast]
    refine ⟨?_, ⟨hv, ih2.to_valid, posLe_trans h0.ordered ih2.ordered⟩⟩
    simp only [List.zip_cons_cons, List.flatMap_cons]
    rw [ih1]
    exact deals_append flop entries p₀ c _ h0 ih2

/-- **C04 (chain).** Any chain of scopes in which each starts where the previous one ended yields, piece after
piece, exactly the deals of the scope from the first start to the last end: every showdown of the full
enumeration exactly once when the chain runs from `(0,1)` to `(48,49)`. -/
theorem C04_chain (flop : List Nat) (entries : List (List (Nat × Nat × W))) (p₀ : Nat × Nat) (cuts : List (Nat × Nat))
    (hchain : ∀ xy ∈ (p₀ :: cuts).zip cuts, ValidScope xy.1 xy.2) :
    ((p₀ :: cuts).zip cuts).flatMap (fun xy => deals flop entries xy.1 xy.2)
      = deals flop entries p₀ ((p₀ :: cuts).getLast (by simp)) := by
  cases cuts with
  | nil =>
    simp only [List.zip_nil_right, List.flatMap_nil, List.getLast_singleton]
    exact (deals_self flop entries p₀).symm
  | cons c cs =>
    have h0 : ValidScope p₀ c := hchain (p₀, c) (by simp)
    exact (chain_aux flop entries (c :: cs) p₀ h0.from_valid hchain).1

/-- the unscoped evaluator is the one scoped from the first position to the terminal -/
theorem C04_default_scope (flop : List Card) (ranges : List (List (Combo × W))) :
    Evaluator.new (flop.map some ++ [none, none]) ranges = mkEvaluator flop ranges (0, 1) (48, 49) := by
  rfl

/-- **C04 (re-scoping).** A later `scope()` call replaces an earlier one. -/
theorem C04_rescope (e e' : Evaluator W) (x y : Nat × Nat × Nat × Nat) (dbg : Bool)
    (h1 : e.scope x.1 x.2.1 x.2.2.1 x.2.2.2 dbg = .ok e') :
    e'.scope y.1 y.2.1 y.2.2.1 y.2.2.2 dbg = e.scope y.1 y.2.1 y.2.2.1 y.2.2.2 dbg := by
  unfold Evaluator.scope at h1
  split at h1
  · cases h1
  · cases h1
    rfl

end EspadaVerif.C04
