/-
Props/C06FromIter: `impl FromIterator<(CardPair, f32)> for HandRange` as repaired by D11.

Before the repair a weight of −0.0 — numerically inside [0,1] — could be stored through `collect()`; it prints as `:-0`,
which the weight grammar rejects, so the formatted range lost the combo on re-reading (C06) and the two `==`-equal ranges
`{AsKs: 0.0}` and `{AsKs: -0.0}` printed differently (C17).  The repaired constructor stores `if p == 0.0 { 0.0 } else { p }`.

The theorems below are about an abstract per-entry normalisation `norm`: every weight stored by `collectWith norm` is a
normalised input weight, so if `norm` maps every weight of the closed unit interval into the domain `inDom` on which the
C06 / C12 / C17 theorems are stated (for f32: the sign-less bit patterns 0x00000000..=0x3F800000; `norm` sends −0.0 to
+0.0 and is the identity elsewhere), every range built through the public constructor from weights in [0,1] satisfies
the domain hypothesis of those theorems.  With the other constructor, `parseRange`, this is `C10_weight`.
-/
import EspadaVerif.Props.C06

namespace EspadaVerif.C06

variable {W : Type}

/-- `iter.into_iter().map(|(cards, p)| (cards, norm p)).collect()` : inserts in iteration order -/
def collectWith (norm : W → W) (es : List (Combo × W)) : HandRange W :=
  es.foldl (fun m e => HandRange.insert m e.1 (norm e.2)) []

theorem mem_collectWith_aux (norm : W → W) (es : List (Combo × W)) (m : HandRange W) (x : Combo × W)
    (h : x ∈ es.foldl (fun m e => HandRange.insert m e.1 (norm e.2)) m) :
    x ∈ m ∨ ∃ e ∈ es, x = (e.1, norm e.2) := by
  induction es generalizing m with
  | nil => exact Or.inl h
  | cons e rest ih =>
    rcases ih (HandRange.insert m e.1 (norm e.2)) h with h' | ⟨e', he', hx⟩
    · rcases List.mem_cons.mp h' with h'' | h''
      · exact Or.inr ⟨e, List.mem_cons_self, h''⟩
      · exact Or.inl h''
    · exact Or.inr ⟨e', List.mem_cons_of_mem _ he', hx⟩

/-- every stored entry is an input entry with its weight normalised -/
theorem mem_collectWith (norm : W → W) (es : List (Combo × W)) (x : Combo × W) (h : x ∈ collectWith norm es) :
    ∃ e ∈ es, x = (e.1, norm e.2) := by
  rcases mem_collectWith_aux norm es [] x h with h' | h'
  · cases h'
  · exact h'

/-- D11: a range collected from proper combos with weights of the unit interval satisfies the hypothesis of `C06_range`,
hence (by `C06_range`) its text parses back to a range with the same lookups -/
theorem C06_collect (wt : WText W) (inDom inUnit : W → Prop) (norm : W → W)
    (hok : TextDefs.WTextOk wt inDom) (hnorm : ∀ w, inUnit w → inDom (norm w))
    (es : List (Combo × W)) (hes : ∀ e ∈ es, TextDefs.ComboOk e.1 ∧ inUnit e.2) :
    ∃ txt r', showRange wt (collectWith norm es) = .ok txt ∧ parseRange wt txt = .ok r' ∧
      ∀ c, r'.lookup c = (collectWith norm es).lookup c := by
  apply C06_range wt inDom hok
  intro x hx
  obtain ⟨e, he, rfl⟩ := mem_collectWith norm es x hx
  exact ⟨(hes e he).1, hnorm _ (hes e he).2⟩

end EspadaVerif.C06
