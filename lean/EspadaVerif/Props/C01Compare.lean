/-
C01 (second half) — the index order is the poker order.

`Lemmas.Numbering` shows the closed-form class is the order rank of the rule-book `strength` on
shapes.  Here this is transported to seven cards: the evaluated index of seven cards is the class of
their strongest five-card hand, so of two evaluated hands the smaller index is exactly the hand
whose best five cards are stronger under the rule book, and equal indexes are exactly the ties.
-/
import EspadaVerif.Props.C01
import EspadaVerif.Lemmas.Numbering

namespace EspadaVerif.C01
open EspadaVerif Spec Kernel Lemmas

/-- seven distinct valid cards -/
structure Seven (cs : List Card) : Prop where
  len : cs.length = 7
  nodup : cs.Nodup
  valid : ∀ c ∈ cs, c.valid = true

/-! ### `foldl max` -/

theorem foldl_max_ge_init (l : List Nat) (a : Nat) : a ≤ l.foldl max a := by
  induction l generalizing a with
  | nil => simp
  | cons x xs ih => simp only [List.foldl_cons]; exact Nat.le_trans (Nat.le_max_left _ _) (ih _)

theorem foldl_max_ge_of_mem {l : List Nat} {x : Nat} (a : Nat) (h : x ∈ l) : x ≤ l.foldl max a := by
  induction l generalizing a with
  | nil => simp at h
  | cons y ys ih =>
    simp only [List.foldl_cons]
    rcases List.mem_cons.mp h with rfl | h
    · exact Nat.le_trans (Nat.le_max_right _ _) (foldl_max_ge_init _ _)
    · exact ih _ h

theorem foldl_max_mem_or (l : List Nat) (a : Nat) : l.foldl max a = a ∨ l.foldl max a ∈ l := by
  induction l generalizing a with
  | nil => simp
  | cons y ys ih =>
    simp only [List.foldl_cons]
    rcases ih (max a y) with h | h
    · rw [h]
      rcases Nat.le_total a y with hay | hay
      · right; rw [Nat.max_eq_right hay]; simp
      · left; exact Nat.max_eq_left hay
    · right; exact List.mem_cons_of_mem _ h

/-! ### the shape of a five-card hand -/

/-- five distinct valid cards have a valid shape, which carries their class and their strength -/
theorem shape_of_five (S₀ : List Card) (hl : S₀.length = 5) (hnd : S₀.Nodup)
    (hv : ∀ c ∈ S₀, c.valid = true) :
    ∃ s : Shape, s.valid = true ∧ class5 (S₀.map toSpec) = s.cls ∧ strength5 (S₀.map toSpec) = s.str := by
  have tr : ∀ a b c : Nat, decide (a ≤ b) = true → decide (b ≤ c) = true → decide (a ≤ c) = true := by
    intro a b c; simp; omega
  have tot : ∀ a b : Nat, (decide (a ≤ b) || decide (b ≤ a)) = true := by
    intro a b; simp; omega
  have hperm : (sortRanks (S₀.map (·.rank))).Perm (S₀.map (·.rank)) := List.mergeSort_perm _ _
  have hsorted : (sortRanks (S₀.map (·.rank))).Pairwise (· ≤ ·) := by
    have := List.pairwise_mergeSort (le := fun a b : Nat => decide (a ≤ b)) tr tot (S₀.map (·.rank))
    simpa [sortRanks] using this
  have hlen : (sortRanks (S₀.map (·.rank))).length = 5 := by rw [hperm.length_eq]; simp [hl]
  have hb : ∀ r ∈ sortRanks (S₀.map (·.rank)), r < 13 := by
    intro r hr
    obtain ⟨c, hc, rfl⟩ := List.mem_map.mp (hperm.mem_iff.mp hr)
    have := hv c hc
    simp [Card.valid] at this; omega
  have hc : ∀ r, (sortRanks (S₀.map (·.rank))).count r ≤ 4 := by
    intro r
    rw [hperm.count_eq]
    exact count_rank_le_four S₀ hnd hv r
  have hsuit : allSameSuit (S₀.map toSpec) = true → (sortRanks (S₀.map (·.rank))).Nodup := by
    intro hall
    rw [hperm.nodup_iff, List.Nodup, List.pairwise_map]
    rw [allSameSuit_iff] at hall
    refine hnd.imp_of_mem ?_
    intro x y hx hy hxy hr
    have := hall (toSpec x) (List.mem_map_of_mem hx) (toSpec y) (List.mem_map_of_mem hy)
    simp only [toSpec] at this
    apply hxy
    cases x; cases y; simp_all
  have hex : ∃ a b c d e, sortRanks (S₀.map (·.rank)) = [a, b, c, d, e] := by
    generalize sortRanks (S₀.map (·.rank)) = R at hlen
    match R, hlen with
    | [a, b, c, d, e], _ => exact ⟨a, b, c, d, e, rfl⟩
  obtain ⟨a, b, c, d, e, hR⟩ := hex
  have hcls : class5 (S₀.map toSpec)
      = if allSameSuit (S₀.map toSpec) then sclass a b c d e else uclass a b c d e := by
    unfold class5; rw [map_toSpec_fst, hR]
  have hstr : strength5 (S₀.map toSpec) = strength (allSameSuit (S₀.map toSpec)) a b c d e := by
    unfold strength5; rw [map_toSpec_fst, hR]
  rw [hcls, hstr]
  rw [hR] at hsorted hb hc hsuit
  refine ⟨⟨allSameSuit (S₀.map toSpec), a, b, c, d, e⟩, ?_, ?_, ?_⟩
  · have ha := hb a (by simp)
    have hbb := hb b (by simp)
    have hcc := hb c (by simp)
    have hd := hb d (by simp)
    have he := hb e (by simp)
    have hca := hc a
    simp at hsorted
    obtain ⟨⟨hab, -⟩, ⟨hbc, -⟩, ⟨hcd, -⟩, hde⟩ := hsorted
    have hae : a ≠ e := by
      intro h
      have : b = a := by omega
      have : c = a := by omega
      have : d = a := by omega
      subst_vars
      simp at hca
    simp only [Shape.valid, Bool.and_eq_true, decide_eq_true_eq, bne_iff_ne, ne_eq,
      Bool.or_eq_true, Bool.not_eq_true']
    refine ⟨⟨⟨⟨⟨⟨hab, hbc⟩, hcd⟩, hde⟩, he⟩, hae⟩, ?_⟩
    cases hall : allSameSuit (S₀.map toSpec) with
    | false => left; rfl
    | true =>
      right
      have hn := hsuit hall
      simp at hn
      omega
  · simp [Shape.cls]
  · simp [Shape.str]

/-- the five-card sub-hands of seven distinct valid cards are five distinct valid cards -/
theorem five_of_seven {cs S₀ : List Card} (h : Seven cs) (hS : S₀ ∈ choose 5 cs) :
    S₀.length = 5 ∧ S₀.Nodup ∧ ∀ c ∈ S₀, c.valid = true := by
  obtain ⟨hsub, hl⟩ := sublist_of_mem_choose hS
  exact ⟨hl, h.nodup.sublist hsub, fun c hc => h.valid c (hsub.subset hc)⟩

/-- the best class is attained by a sub-hand of maximal strength -/
theorem best_attained (cs : List Card) (h : Seven cs) :
    ∃ S₀ ∈ choose 5 cs, ∃ s : Shape, s.valid = true
      ∧ class5 (S₀.map toSpec) = s.cls ∧ strength5 (S₀.map toSpec) = s.str
      ∧ s.cls = best (cs.map toSpec) ∧ s.str = bestStrength (cs.map toSpec) := by
  have hbest : best (cs.map toSpec) = minList ((choose 5 cs).map (fun S₀ => class5 (S₀.map toSpec))) := by
    simp [best, choose_map, List.map_map, Function.comp_def]
  have hbs : bestStrength (cs.map toSpec)
      = ((choose 5 cs).map (fun S₀ => strength5 (S₀.map toSpec))).foldl max 0 := by
    simp [bestStrength, choose_map, List.map_map, Function.comp_def]
  have hne : choose 5 cs ≠ [] := choose_ne_nil 5 cs (by rw [h.len]; omega)
  -- the minimum is a member
  have hmem : minList ((choose 5 cs).map (fun S₀ => class5 (S₀.map toSpec)))
      ∈ (choose 5 cs).map (fun S₀ => class5 (S₀.map toSpec)) := by
    rcases minList_mem_or ((choose 5 cs).map (fun S₀ => class5 (S₀.map toSpec))) with h0 | h0
    · exfalso
      obtain ⟨T, hT⟩ := List.exists_mem_of_ne_nil _ hne
      obtain ⟨hTl, hTn, hTv⟩ := five_of_seven h hT
      obtain ⟨t, htv, htc, -⟩ := shape_of_five T hTl hTn hTv
      have h1 := minList_le_of_mem (List.mem_map.mpr ⟨T, hT, rfl⟩ :
        class5 (T.map toSpec) ∈ (choose 5 cs).map (fun S₀ => class5 (S₀.map toSpec)))
      have := (cls_range t htv).2
      omega
    · exact h0
  obtain ⟨S₀, hS₀, hval⟩ := List.mem_map.mp hmem
  obtain ⟨hl, hn, hv⟩ := five_of_seven h hS₀
  obtain ⟨s, hsv, hsc, hss⟩ := shape_of_five S₀ hl hn hv
  refine ⟨S₀, hS₀, s, hsv, hsc, hss, ?_, ?_⟩
  · rw [hbest, ← hsc]; exact hval
  · rw [hbs]
    apply Nat.le_antisymm
    · rw [← hss]
      exact foldl_max_ge_of_mem 0 (List.mem_map.mpr ⟨S₀, hS₀, rfl⟩)
    · rcases foldl_max_mem_or ((choose 5 cs).map (fun S₀ => strength5 (S₀.map toSpec))) 0 with h0 | h0
      · rw [h0]; omega
      · obtain ⟨T, hT, hTe⟩ := List.mem_map.mp h0
        rw [← hTe]
        obtain ⟨hTl, hTn, hTv⟩ := five_of_seven h hT
        obtain ⟨t, htv, htc, hts⟩ := shape_of_five T hTl hTn hTv
        have hle : s.cls ≤ t.cls := by
          rw [← hsc, ← htc, hval]
          exact minList_le_of_mem (List.mem_map.mpr ⟨T, hT, rfl⟩)
        rw [hts]
        rcases Nat.lt_or_ge t.str s.str with hlt | hge
        · omega
        · rcases Nat.lt_or_ge s.str t.str with hlt' | hge'
          · have := (cls_lt_iff t s htv hsv).mpr hlt'
            omega
          · omega

/-- every evaluated index is a class between 1 and 7462 -/
theorem C01_index_range (cs : List Card) (h : Seven cs) (i : Nat) (e : eval7 cs = .ok i) :
    1 ≤ i ∧ i ≤ 7462 := by
  rw [C01_eval cs h.len h.nodup h.valid] at e
  injection e with e
  obtain ⟨S₀, _, s, hsv, _, _, hb, _⟩ := best_attained cs h
  rw [← e, ← hb]
  exact cls_range s hsv

/-- the evaluated index is the class of a five-card sub-hand of maximal rule-book strength -/
theorem C01_best_is_strongest (cs : List Card) (h : Seven cs) (i : Nat) (e : eval7 cs = .ok i) :
    ∃ S ∈ choose 5 (cs.map toSpec), class5 S = i ∧ strength5 S = bestStrength (cs.map toSpec)
      ∧ catOfClass i = categoryOfStrength (strength5 S) := by
  rw [C01_eval cs h.len h.nodup h.valid] at e
  injection e with e
  obtain ⟨S₀, hS₀, s, hsv, hsc, hss, hb, hbs⟩ := best_attained cs h
  refine ⟨S₀.map toSpec, ?_, ?_, ?_, ?_⟩
  · rw [choose_map]; exact List.mem_map_of_mem hS₀
  · rw [hsc, hb, e]
  · rw [hss, hbs]
  · rw [← e, ← hb, hss]; exact (category_of_cls s hsv).symm

/-- **C01 (comparison).** Of two evaluated hands the smaller index is exactly the hand that wins under
the rule book (its best five cards are stronger), and equal indexes are exactly the ties. -/
theorem C01_compare (cs₁ cs₂ : List Card) (h₁ : Seven cs₁) (h₂ : Seven cs₂) (i j : Nat)
    (e₁ : eval7 cs₁ = .ok i) (e₂ : eval7 cs₂ = .ok j) :
    (i < j ↔ bestStrength (cs₂.map toSpec) < bestStrength (cs₁.map toSpec))
    ∧ (i = j ↔ bestStrength (cs₁.map toSpec) = bestStrength (cs₂.map toSpec)) := by
  rw [C01_eval cs₁ h₁.len h₁.nodup h₁.valid] at e₁
  rw [C01_eval cs₂ h₂.len h₂.nodup h₂.valid] at e₂
  injection e₁ with e₁
  injection e₂ with e₂
  obtain ⟨_, _, s, hsv, _, _, hsb, hss⟩ := best_attained cs₁ h₁
  obtain ⟨_, _, t, htv, _, _, htb, hts⟩ := best_attained cs₂ h₂
  rw [← e₁, ← e₂, ← hsb, ← htb, ← hss, ← hts]
  exact ⟨cls_lt_iff s t hsv htv, cls_eq_iff s t hsv htv⟩

/-- non-vacuity: a royal flush beats quad aces with a king -/
example : eval7 [⟨0,0⟩, ⟨1,0⟩, ⟨2,0⟩, ⟨3,0⟩, ⟨4,0⟩, ⟨7,1⟩, ⟨9,2⟩] = .ok 1 := by decide +kernel

end EspadaVerif.C01
