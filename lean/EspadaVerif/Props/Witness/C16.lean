/-
Non-vacuity witnesses for `Props/C16.lean`.

Data: seven workers; two concrete "float pipelines": `F₁` a plausible even split with small river
offsets, `F₂` a hostile one whose values leave the `u8` range and the 48 rows (so the `% 256`, the
"turn ≥ 48" branch and the no-step-backwards clamp are all exercised).  For `C16_sum`: the flop
A♠ K♦ 7♣ (codes 0, 6, 31) and two players with two weighted combos each (weights 2, 3, 1, 5 in `Nat`).
-/
import EspadaVerif.Props.C16

set_option Elab.async false

namespace EspadaVerif.C16.Witness
open EspadaVerif Spec C02

/-! ### data -/

def workers : Nat := 7
def F₁ (i n : Nat) : Nat × Nat := ((i + 1) * 48 / n, 5 * i + 3)
def F₂ (i n : Nat) : Nat × Nat := ((i + 1) * 300 / n, 77 * i + 3)

/-- A♠ K♦ 7♣ as card codes -/
def flop : List Nat := [0, 6, 31]
/-- player 1: Q♠Q♥ (weight 2), A♥K♥ (weight 3); player 2: J♠T♠ (weight 1), Q♥J♥ (weight 5) -/
def entries : List (List (Nat × Nat × Nat)) :=
  [[(8, 9, 2), (1, 5, 3)], [(12, 16, 1), (9, 13, 5)]]

def scopes₁ : List CalcScope :=
  [⟨0, 1, 6, 10⟩, ⟨6, 10, 13, 22⟩, ⟨13, 22, 20, 34⟩, ⟨20, 34, 27, 46⟩, ⟨27, 46, 35, 36⟩,
   ⟨35, 36, 42, 43⟩, ⟨42, 43, 48, 49⟩]
def scopes₂ : List CalcScope :=
  [⟨0, 1, 42, 46⟩, ⟨42, 46, 48, 49⟩, ⟨48, 49, 48, 49⟩, ⟨48, 49, 48, 49⟩, ⟨48, 49, 48, 49⟩,
   ⟨48, 49, 48, 49⟩, ⟨48, 49, 48, 49⟩]

/-! ### the hypothesis -/

theorem workers_pos : 1 ≤ workers := by decide

/-! ### `C16_tiles` at the data -/

theorem C16_tiles_at_witness :
    ∃ l : List CalcScope, calculateScopes F₁ workers = .ok l ∧ l.length = workers
      ∧ (l.head?.map fun s => (s.turnFrom, s.riverFrom)) = some (0, 1)
      ∧ (l.getLast?.map fun s => (s.turnTo, s.riverTo)) = some (48, 49)
      ∧ (∀ k s s', l[k]? = some s → l[k + 1]? = some s' → (s'.turnFrom, s'.riverFrom) = (s.turnTo, s.riverTo))
      ∧ (∀ s ∈ l, ValidScope (s.turnFrom, s.riverFrom) (s.turnTo, s.riverTo)) :=
  C16.C16_tiles F₁ workers workers_pos

theorem C16_tiles_at_witness₂ :
    ∃ l : List CalcScope, calculateScopes F₂ workers = .ok l ∧ l.length = workers
      ∧ (l.head?.map fun s => (s.turnFrom, s.riverFrom)) = some (0, 1)
      ∧ (l.getLast?.map fun s => (s.turnTo, s.riverTo)) = some (48, 49)
      ∧ (∀ k s s', l[k]? = some s → l[k + 1]? = some s' → (s'.turnFrom, s'.riverFrom) = (s.turnTo, s.riverTo))
      ∧ (∀ s ∈ l, ValidScope (s.turnFrom, s.riverFrom) (s.turnTo, s.riverTo)) :=
  C16.C16_tiles F₂ workers workers_pos

/-- independent evaluation: the concrete scope lists -/
theorem scopes₁_eval : calculateScopes F₁ workers = .ok scopes₁ := by decide
theorem scopes₂_eval : calculateScopes F₂ workers = .ok scopes₂ := by decide

/-- the list whose existence `C16_tiles` asserts is the evaluated one, so its conclusions are closed facts
about `scopes₁` -/
theorem C16_tiles_closed :
    scopes₁.length = 7
      ∧ (scopes₁.head?.map fun s => (s.turnFrom, s.riverFrom)) = some (0, 1)
      ∧ (scopes₁.getLast?.map fun s => (s.turnTo, s.riverTo)) = some (48, 49)
      ∧ (∀ s ∈ scopes₁, ValidScope (s.turnFrom, s.riverFrom) (s.turnTo, s.riverTo)) := by
  obtain ⟨l, e, h1, h2, h3, _, h5⟩ := C16_tiles_at_witness
  rw [scopes₁_eval] at e
  cases e
  exact ⟨h1, h2, h3, h5⟩

/-- the same facts by evaluation only (no use of `C16_tiles`) -/
example : scopes₁.length = 7
    ∧ (scopes₁.head?.map fun s => (s.turnFrom, s.riverFrom)) = some (0, 1)
    ∧ (scopes₁.getLast?.map fun s => (s.turnTo, s.riverTo)) = some (48, 49)
    ∧ (scopes₁.zip scopes₁.tail).all (fun (s, s') => (s'.turnFrom, s'.riverFrom) == (s.turnTo, s.riverTo)) = true
    ∧ scopes₁.all (fun s => validPos (s.turnFrom, s.riverFrom) && validPos (s.turnTo, s.riverTo)
        && posLe (s.turnFrom, s.riverFrom) (s.turnTo, s.riverTo)) = true := by decide

/-- the hypothesis `1 ≤ n` matters: with no worker there is no scope, hence no start at (0,1) -/
example : calculateScopes F₁ 0 = .ok [] := by decide

/-- one worker: the single scope is the whole enumeration -/
example : calculateScopes F₂ 1 = .ok [⟨0, 1, 48, 49⟩] := by decide

/-! ### `C16_sum` at the data -/

theorem C16_sum_at_witness :
    ∃ l : List CalcScope, calculateScopes F₁ workers = .ok l ∧
      l.flatMap (fun s => deals flop entries (s.turnFrom, s.riverFrom) (s.turnTo, s.riverTo))
        = deals flop entries (0, 1) (48, 49) :=
  C16.C16_sum F₁ workers workers_pos flop entries

/-- closed form: the seven concrete pieces concatenate to the full enumeration -/
theorem C16_sum_closed :
    scopes₁.flatMap (fun s => deals flop entries (s.turnFrom, s.riverFrom) (s.turnTo, s.riverTo))
      = deals flop entries (0, 1) (48, 49) := by
  obtain ⟨l, e, h⟩ := C16_sum_at_witness
  rw [scopes₁_eval] at e
  cases e
  exact h

/-- cross-check by evaluation on the last piece: 21 positions × 3 legal choices (of the 4 choices one is
illegal: both players would hold Q♥), and no turn/river card there collides with a hole card -/
theorem last_piece_size : (deals flop entries (42, 43) (48, 49)).length = 63 := by decide +kernel
/-- the first two positions, listed: the turn A♥ (code 1) blocks A♥K♥, and Q♥ cannot be held twice, so one
choice of four survives at each position -/
theorem first_positions :
    (deals flop entries (0, 1) (0, 3)).map (fun d => (d.turn, d.river, d.choice))
      = [(1, 2, [(8, 9, 2), (12, 16, 1)]), (1, 3, [(8, 9, 2), (12, 16, 1)])] := by decide +kernel

end EspadaVerif.C16.Witness
