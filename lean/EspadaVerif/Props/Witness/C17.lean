/-
Non-vacuity witnesses for `Props/C17.lean`.

Weights: the concrete `Wt` with `wtText` of `Witness/Common.lean`.
Data:
* `r₁` / `r₂` : two different construction histories of the same range — `r₁` is the history of parsing
  `QQ:0.5,QsQh:0,AKs,7d7c:0.5` (twelve inserts, one of them shadowed), `r₂` holds the same eleven combos once
  each, in another order;
* `rps` : a table of reported rank pairs with weights 0.5 / 1 / 0 whose pocket row has four maximal runs
  (AA–KK, QQ, 99, 33–22) and whose "suited ace" row has three;
* `rMix` : the range parsed from `7d7c:0.5,AQo:0,AKs,KK+:0.5` (written in the reverse of the canonical order).
-/
import EspadaVerif.Props.C17
import EspadaVerif.Props.Witness.Common

set_option Elab.async false

namespace EspadaVerif.C17.Witness
open EspadaVerif TextDefs EspadaVerif.Witness

/-! ### data -/

def r₁ : HandRange Wt :=
  [(⟨⟨7, 2⟩, ⟨7, 3⟩⟩, .half),
   (⟨⟨0, 3⟩, ⟨1, 3⟩⟩, .one), (⟨⟨0, 2⟩, ⟨1, 2⟩⟩, .one), (⟨⟨0, 1⟩, ⟨1, 1⟩⟩, .one), (⟨⟨0, 0⟩, ⟨1, 0⟩⟩, .one),
   (⟨⟨2, 0⟩, ⟨2, 1⟩⟩, .zero),
   (⟨⟨2, 2⟩, ⟨2, 3⟩⟩, .half), (⟨⟨2, 1⟩, ⟨2, 3⟩⟩, .half), (⟨⟨2, 1⟩, ⟨2, 2⟩⟩, .half), (⟨⟨2, 0⟩, ⟨2, 3⟩⟩, .half),
   (⟨⟨2, 0⟩, ⟨2, 2⟩⟩, .half), (⟨⟨2, 0⟩, ⟨2, 1⟩⟩, .half)]

def r₂ : HandRange Wt :=
  [(⟨⟨2, 0⟩, ⟨2, 1⟩⟩, .zero), (⟨⟨0, 0⟩, ⟨1, 0⟩⟩, .one), (⟨⟨2, 0⟩, ⟨2, 2⟩⟩, .half), (⟨⟨0, 1⟩, ⟨1, 1⟩⟩, .one),
   (⟨⟨2, 0⟩, ⟨2, 3⟩⟩, .half), (⟨⟨0, 2⟩, ⟨1, 2⟩⟩, .one), (⟨⟨2, 1⟩, ⟨2, 2⟩⟩, .half), (⟨⟨0, 3⟩, ⟨1, 3⟩⟩, .one),
   (⟨⟨2, 1⟩, ⟨2, 3⟩⟩, .half), (⟨⟨7, 2⟩, ⟨7, 3⟩⟩, .half), (⟨⟨2, 2⟩, ⟨2, 3⟩⟩, .half)]

def rps : List (RankPair × Wt) :=
  [(.pocket 0, .half), (.pocket 1, .half), (.pocket 2, .one), (.pocket 5, .half), (.pocket 11, .half), (.pocket 12, .half),
   (.suited 0 1, .one), (.suited 0 2, .one), (.suited 0 3, .half), (.suited 0 7, .zero), (.suited 0 8, .zero),
   (.suited 0 9, .zero)]

/-- the pocket row of `rps` -/
def pocketRow : List (Option Wt) := (List.range' 0 13).map fun k => rpLookup rps (.pocket k)

/-- `7d7c:0.5,AQo:0,AKs,KK+:0.5` -/
def mixTxt : Bytes :=
  [55, 100, 55, 99, 58, 48, 46, 53, 44, 65, 81, 111, 58, 48, 44, 65, 75, 115, 44, 75, 75, 43, 58, 48, 46, 53]
def rMix : HandRange Wt :=
  match parseRange wtText mixTxt with
  | .ok r => r
  | _ => []
/-- `KK+:0.5`, `AKs`, `AQo:0`, `7d7c:0.5` twice (the known doubled leftover of equal ranks) -/
def mixToks : List (Token Wt) :=
  [⟨.bottomClosed (.pocket 1), .half⟩, ⟨.singleRank (.suited 0 1), .one⟩, ⟨.singleRank (.ofsuit 0 2), .zero⟩,
   ⟨.singleCard ⟨⟨7, 2⟩, ⟨7, 3⟩⟩, .half⟩, ⟨.singleCard ⟨⟨7, 2⟩, ⟨7, 3⟩⟩, .half⟩]

/-! ### hypotheses hold -/

theorem lookup_none {W : Type} (r : HandRange W) (c : Combo) (h : c ∉ r.map (·.1)) : r.lookup c = none := by
  induction r with
  | nil => rfl
  | cons e r ih =>
    obtain ⟨k, v⟩ := e
    simp only [List.map_cons, List.mem_cons, not_or] at h
    simp only [HandRange.lookup]
    rw [if_neg (fun hk => h.1 hk.symm)]
    exact ih h.2

/-- the two histories answer every question alike -/
theorem same_contents : ∀ c, r₁.lookup c = r₂.lookup c := by
  intro c
  by_cases hm : c ∈ r₁.map (·.1)
  · have key : ∀ c ∈ r₁.map (·.1), r₁.lookup c = r₂.lookup c := by decide
    exact key c hm
  · have hm₂ : c ∉ r₂.map (·.1) := by
      intro h
      have sub : ∀ c ∈ r₂.map (·.1), c ∈ r₁.map (·.1) := by decide
      exact hm (sub c h)
    rw [lookup_none r₁ c hm, lookup_none r₂ c hm₂]
/-- yet they are different histories -/
example : r₁ ≠ r₂ ∧ r₁.length = 12 ∧ r₂.length = 11 := by decide

theorem eq_refl : ∀ a, wtText.eq a a = true := by
  intro a
  simp [wtText]

theorem mix_parsed : parseRange wtText mixTxt = .ok rMix := by decide +kernel
theorem mix_tokens : showRangeTokens wtText rMix = .ok mixToks := by decide +kernel
example : rMix.length = 29 := by decide +kernel

/-! ### `C17_canonical` -/

theorem C17_canonical_at_witness :
    showRange wtText r₁ = showRange wtText r₂ ∧ rankPairs wtText r₁ = rankPairs wtText r₂
    ∧ (∀ o₁ o₂, orphans wtText r₁ = .ok o₁ → orphans wtText r₂ = .ok o₂ → ∀ c, o₁.lookup c = o₂.lookup c) :=
  C17_canonical wtText r₁ r₂ same_contents

/-- cross-check by evaluating both texts and both rank-pair lists independently -/
theorem canonical_eval :
    showRange wtText r₁ = showRange wtText r₂ ∧ rankPairs wtText r₁ = .ok [(.suited 0 1, .one)]
    ∧ rankPairs wtText r₂ = .ok [(.suited 0 1, .one)] := by decide +kernel
/-- the hypothesis matters: change one weight and the text changes -/
example : showRange wtText r₁ ≠ showRange wtText ((⟨⟨7, 2⟩, ⟨7, 3⟩⟩, .zero) :: r₂) := by decide +kernel

/-! ### `C17_runs` -/

theorem C17_runs_at_witness :
    rowTokens wtText rps 0 12 .pocket (List.range' 0 (13 - 0))
      = .ok ((Spec.runs wtText.eq ((List.range' 0 (13 - 0)).map fun k => rpLookup rps (.pocket k))).map
          (runToken 0 .pocket)) :=
  C17_runs wtText rps 0 (by decide) .pocket

/-- the row under the ace (`first = 1`) -/
theorem C17_runs_at_witness₁ :
    rowTokens wtText rps 1 12 (.suited 0) (List.range' 1 (13 - 1))
      = .ok ((Spec.runs wtText.eq ((List.range' 1 (13 - 1)).map fun k => rpLookup rps (.suited 0 k))).map
          (runToken 1 (.suited 0))) :=
  C17_runs wtText rps 1 (by decide) (.suited 0)

/-- cross-check: the formatter's state machine run by the kernel — `KK+:0.5, QQ, 99:0.5, 33-22:0.5` … -/
theorem rowTokens_eval :
    rowTokens wtText rps 0 12 .pocket (List.range' 0 13)
      = .ok [⟨.bottomClosed (.pocket 1), .half⟩, ⟨.singleRank (.pocket 2), .one⟩, ⟨.singleRank (.pocket 5), .half⟩,
             ⟨.doubleClosed (.pocket 11) 12, .half⟩] := by decide +kernel
/-- … and the specification's maximal runs of the same row, evaluated separately -/
theorem runs_eval : Spec.runs wtText.eq pocketRow = [(0, 2, .half), (2, 1, .one), (5, 1, .half), (11, 2, .half)] := by
  decide +kernel
/-- `AQs+, AJs:0.5, A7s-A5s:0` -/
theorem rowTokens_eval₁ :
    rowTokens wtText rps 1 12 (.suited 0) (List.range' 1 12)
      = .ok [⟨.bottomClosed (.suited 0 2), .one⟩, ⟨.singleRank (.suited 0 3), .half⟩,
             ⟨.doubleClosed (.suited 0 7) 9, .zero⟩] := by decide +kernel
/-- the bound `first ≤ 12` matters: a row starting below the deuce is empty -/
example : List.range' 13 (13 - 13) = [] := by decide

/-! ### `C17_runs_maximal` -/

theorem C17_runs_maximal_at_witness :
    let rs := Spec.runs wtText.eq pocketRow
    (∀ run ∈ rs, 1 ≤ run.2.1 ∧ run.1 + run.2.1 ≤ pocketRow.length
        ∧ ∀ i, run.1 ≤ i → i < run.1 + run.2.1 → ∃ w', pocketRow[i]? = some (some w') ∧ wtText.eq w' run.2.2 = true)
    ∧ (∀ i w', pocketRow[i]? = some (some w') → ∃ run ∈ rs, run.1 ≤ i ∧ i < run.1 + run.2.1)
    ∧ List.Pairwise (fun a b => a.1 + a.2.1 ≤ b.1) rs
    ∧ (∀ k, ∀ a b, rs[k]? = some a → rs[k + 1]? = some b → a.1 + a.2.1 = b.1 →
          ∃ wb, pocketRow[b.1]? = some (some wb) ∧ wtText.eq wb a.2.2 = false) :=
  C17_runs_maximal wtText.eq eq_refl pocketRow

/-- closed instance of the last clause: the runs AA–KK and QQ touch, so their weights differ -/
theorem touching_runs_differ : ∃ wb, pocketRow[2]? = some (some wb) ∧ wtText.eq wb Wt.half = false := by
  have h := C17_runs_maximal_at_witness.2.2.2 0 (0, 2, .half) (2, 1, .one)
  rw [runs_eval] at h
  exact h rfl rfl rfl
example : pocketRow[2]? = some (some Wt.one) ∧ wtText.eq Wt.one Wt.half = false := by decide
/-- the hypothesis `hrefl` is a real restriction: NaN-like comparison (never equal) violates it -/
example : ¬ ∀ a : Wt, (fun _ _ => false) a a = true := by
  intro h; exact absurd (h .one) (by decide)

/-! ### `C17_order` -/

theorem C17_order_at_witness : List.Pairwise (fun a b => tokenRow a ≤ tokenRow b) mixToks :=
  C17_order wtText rMix mixToks mix_tokens
/-- by evaluation: pockets (row 0), suited ace (1), offsuit ace (2), leftovers (1000) — although the text listed
them in the opposite order -/
example : mixToks.map tokenRow = [0, 1, 2, 1000, 1000] := by decide
/-- and the canonical text is `KK+:0.5,AKs,AQo:0,7d7c:0.5,7d7c:0.5` -/
example : showRange wtText rMix
    = .ok [75, 75, 43, 58, 48, 46, 53, 44, 65, 75, 115, 44, 65, 81, 111, 58, 48, 44,
           55, 100, 55, 99, 58, 48, 46, 53, 44, 55, 100, 55, 99, 58, 48, 46, 53] := by decide +kernel

end EspadaVerif.C17.Witness
