/-
Non-vacuity witnesses for `Props/C12.lean`.

Weights: the concrete `Wt` with `wtText`, `wtDom`, `wtextOk` of `Witness/Common.lean` (the assumed bundle
`WTextOk` is PROVED for this instance there).
Data: the range `r₁` = the history of parsing `QQ:0.5,QsQh:0,AKs,7d7c:0.5` (twelve inserts, newest first):
* AKs is complete at one weight (1): a reported rank pair;
* the queens are complete as combos but NOT at one weight (Q♠Q♥ was overwritten with 0, the other five have 0.5;
  the history still holds the shadowed older entry): no rank pair, six leftovers;
* 7♦7♣ at 0.5 is a lone leftover.
-/
import EspadaVerif.Props.C12
import EspadaVerif.Props.Witness.Common

set_option Elab.async false

namespace EspadaVerif.C12.Witness
open EspadaVerif TextDefs EspadaVerif.Witness

/-! ### data -/

/-- `QQ:0.5,QsQh:0,AKs,7d7c:0.5` -/
def txt : Bytes :=
  [81, 81, 58, 48, 46, 53, 44, 81, 115, 81, 104, 58, 48, 44, 65, 75, 115, 44, 55, 100, 55, 99, 58, 48, 46, 53]

def r₁ : HandRange Wt :=
  [(⟨⟨7, 2⟩, ⟨7, 3⟩⟩, .half),
   (⟨⟨0, 3⟩, ⟨1, 3⟩⟩, .one), (⟨⟨0, 2⟩, ⟨1, 2⟩⟩, .one), (⟨⟨0, 1⟩, ⟨1, 1⟩⟩, .one), (⟨⟨0, 0⟩, ⟨1, 0⟩⟩, .one),
   (⟨⟨2, 0⟩, ⟨2, 1⟩⟩, .zero),
   (⟨⟨2, 2⟩, ⟨2, 3⟩⟩, .half), (⟨⟨2, 1⟩, ⟨2, 3⟩⟩, .half), (⟨⟨2, 1⟩, ⟨2, 2⟩⟩, .half), (⟨⟨2, 0⟩, ⟨2, 3⟩⟩, .half),
   (⟨⟨2, 0⟩, ⟨2, 2⟩⟩, .half), (⟨⟨2, 0⟩, ⟨2, 1⟩⟩, .half)]

/-- the reported rank pairs -/
def l₁ : List (RankPair × Wt) := [(.suited 0 1, .one)]
/-- the leftover view (a history again: the shadowed Q♠Q♥ entry is still there, behind the current one) -/
def o₁ : HandRange Wt :=
  [(⟨⟨7, 2⟩, ⟨7, 3⟩⟩, .half), (⟨⟨2, 0⟩, ⟨2, 1⟩⟩, .zero),
   (⟨⟨2, 2⟩, ⟨2, 3⟩⟩, .half), (⟨⟨2, 1⟩, ⟨2, 3⟩⟩, .half), (⟨⟨2, 1⟩, ⟨2, 2⟩⟩, .half), (⟨⟨2, 0⟩, ⟨2, 3⟩⟩, .half),
   (⟨⟨2, 0⟩, ⟨2, 2⟩⟩, .half), (⟨⟨2, 0⟩, ⟨2, 1⟩⟩, .half)]

def asks : Combo := ⟨⟨0, 0⟩, ⟨1, 0⟩⟩    -- A♠K♠
def qsqh : Combo := ⟨⟨2, 0⟩, ⟨2, 1⟩⟩    -- Q♠Q♥
def qdqc : Combo := ⟨⟨2, 2⟩, ⟨2, 3⟩⟩    -- Q♦Q♣
def c2s2h : Combo := ⟨⟨12, 0⟩, ⟨12, 1⟩⟩  -- 2♠2♥, absent

/-! ### hypotheses hold -/

/-- the range really is a parsed one -/
theorem r₁_parsed : parseRange wtText txt = .ok r₁ := by decide +kernel
theorem r₁_dom : ∀ e ∈ r₁, wtDom e.2 := by decide
theorem canon_AKs : RankPair.canonical (.suited 0 1) := ⟨by decide, by decide⟩
theorem canon_AKo : RankPair.canonical (.ofsuit 0 1) := ⟨by decide, by decide⟩
theorem asks_in_AKs : asks ∈ (RankPair.suited 0 1).combos := by decide
/-- `canonical` is a real restriction -/
example : ¬ RankPair.canonical (.suited 1 0) ∧ ¬ RankPair.canonical (.pocket 13) := by
  constructor
  · rintro ⟨h, _⟩; exact absurd h (by decide)
  · intro h; exact absurd (show 13 < 13 from h) (by decide)

/-! ### direct evaluation of the two views -/

theorem views_eval : rankPairs wtText r₁ = .ok l₁ ∧ orphans wtText r₁ = .ok o₁ := by decide +kernel

/-! ### `C12_report` -/

theorem C12_report_at_witness :
    ∃ l, rankPairs wtText r₁ = .ok l ∧
      ∀ rp w, rpLookup l rp = some w ↔ (RankPair.canonical rp ∧ ∀ c ∈ rp.combos, r₁.lookup c = some w) :=
  C12_report wtText wtDom wtextOk r₁ r₁_dom

/-- closed form: the list is the evaluated one -/
theorem C12_report_closed (rp : RankPair) (w : Wt) :
    rpLookup l₁ rp = some w ↔ (RankPair.canonical rp ∧ ∀ c ∈ rp.combos, r₁.lookup c = some w) := by
  obtain ⟨l, hl, h⟩ := C12_report_at_witness
  rw [views_eval.1] at hl
  cases hl
  exact h rp w

/-- left to right at AKs: all four suited ace-kings are in the range with weight 1 -/
theorem AKs_complete : ∀ c ∈ (RankPair.suited 0 1).combos, r₁.lookup c = some Wt.one :=
  ((C12_report_closed (.suited 0 1) .one).mp (by decide)).2
example : (RankPair.suited 0 1).combos.all (fun c => r₁.lookup c == some Wt.one) = true := by decide

/-- right to left, contrapositive, at the queens: they are not reported at 0.5, so (being canonical) some
queen combo does not have weight 0.5 -/
theorem QQ_not_uniform : ¬ ∀ c ∈ (RankPair.pocket 2).combos, r₁.lookup c = some Wt.half := by
  intro h
  have := (C12_report_closed (.pocket 2) .half).mpr ⟨show 2 < 13 by decide, h⟩
  revert this
  decide
example : r₁.lookup qsqh = some Wt.zero ∧ r₁.lookup qdqc = some Wt.half := by decide

/-! ### `C12_orphans` -/

theorem C12_orphans_at_witness :
    ∃ l o, rankPairs wtText r₁ = .ok l ∧ orphans wtText r₁ = .ok o ∧
      ∀ c, ((∃ rp w, rpLookup l rp = some w ∧ c ∈ rp.combos) → o.lookup c = none)
         ∧ ((∀ rp w, rpLookup l rp = some w → c ∉ rp.combos) → o.lookup c = r₁.lookup c) :=
  C12_orphans wtText wtDom wtextOk r₁ r₁_dom

theorem C12_orphans_closed (c : Combo) :
    ((∃ rp w, rpLookup l₁ rp = some w ∧ c ∈ rp.combos) → o₁.lookup c = none)
    ∧ ((∀ rp w, rpLookup l₁ rp = some w → c ∉ rp.combos) → o₁.lookup c = r₁.lookup c) := by
  obtain ⟨l, o, hl, ho, h⟩ := C12_orphans_at_witness
  rw [views_eval.1] at hl
  rw [views_eval.2] at ho
  cases hl
  cases ho
  exact h c

/-- first half at A♠K♠ (covered by AKs): not a leftover -/
theorem asks_not_orphan : o₁.lookup asks = none :=
  (C12_orphans_closed asks).1 ⟨.suited 0 1, .one, by decide, asks_in_AKs⟩
/-- cross-check by evaluation, also for leftovers: they keep their own (current) weights -/
example : o₁.lookup asks = none ∧ o₁.lookup qsqh = some Wt.zero ∧ o₁.lookup qdqc = some Wt.half
    ∧ o₁.lookup c2s2h = none := by decide

/-! ### `C12_disjoint` -/

/-- contrapositive use: AKs and AKo are different canonical rank pairs, so A♠K♠ (a combo of AKs) is no combo of AKo -/
theorem C12_disjoint_at_witness : asks ∉ (RankPair.ofsuit 0 1).combos := by
  intro h
  have := C12_disjoint (.suited 0 1) (.ofsuit 0 1) canon_AKs canon_AKo asks asks_in_AKs h
  cases this
example : asks ∉ (RankPair.ofsuit 0 1).combos := by decide

/-! ### `C12_cover` -/

theorem C12_cover_at_witness :
    ∃ l o, rankPairs wtText r₁ = .ok l ∧ orphans wtText r₁ = .ok o ∧
      ∀ c w, r₁.lookup c = some w →
        (o.lookup c = some w ∧ ∀ rp w', rpLookup l rp = some w' → c ∉ rp.combos)
        ∨ (o.lookup c = none ∧ ∃ rp, rpLookup l rp = some w ∧ c ∈ rp.combos
             ∧ ∀ rp' w', rpLookup l rp' = some w' → c ∈ rp'.combos → rp' = rp) :=
  C12_cover wtText wtDom wtextOk r₁ r₁_dom

/-- closed form at two combos of the range: Q♠Q♥ (weight 0) is a leftover, A♠K♠ (weight 1) is not -/
theorem C12_cover_closed :
    (o₁.lookup qsqh = some Wt.zero ∨ o₁.lookup qsqh = none)
    ∧ (o₁.lookup asks = some Wt.one ∨ (o₁.lookup asks = none ∧ ∃ rp, rpLookup l₁ rp = some Wt.one ∧ asks ∈ rp.combos)) := by
  obtain ⟨l, o, hl, ho, h⟩ := C12_cover_at_witness
  rw [views_eval.1] at hl
  rw [views_eval.2] at ho
  cases hl
  cases ho
  constructor
  · rcases h qsqh .zero (by decide) with h1 | h1
    · exact .inl h1.1
    · exact .inr h1.1
  · rcases h asks .one (by decide) with h1 | h1
    · exact .inl h1.1
    · obtain ⟨h2, rp, h3, h4, _⟩ := h1
      exact .inr ⟨h2, rp, h3, h4⟩
/-- which alternative holds, by evaluation -/
example : o₁.lookup qsqh = some Wt.zero ∧ o₁.lookup asks = none := by decide

example : (RankPair.pocket 9).combos.length = 6 := C12_sizes.1

end EspadaVerif.C12.Witness
