/-
Non-vacuity witnesses for `Props/C04.lean`.

Data: flop A♠ K♦ 7♣ and the two weighted two-combo ranges of `Witness/C02.lean` (weights 2, 3, 1, 5 in `Nat`);
the worker cuts (0,1) → (6,10) → (13,22) → (48,49) for the statements, and the one-position pieces
(46,47) → (46,48) → (47,48) → (48,49) where the specification is also evaluated by the kernel.
-/
import EspadaVerif.Props.C04
import EspadaVerif.Props.Witness.Common

set_option Elab.async false

namespace EspadaVerif.C04.Witness
open EspadaVerif Spec C02 EspadaVerif.Witness

/-! ### data -/

def flop : List Card := [⟨0, 0⟩, ⟨1, 2⟩, ⟨7, 3⟩]
def ranges : List (List (Combo × Nat)) :=
  [[(⟨⟨2, 0⟩, ⟨2, 1⟩⟩, 2), (⟨⟨0, 1⟩, ⟨1, 1⟩⟩, 3)], [(⟨⟨3, 0⟩, ⟨4, 0⟩⟩, 1), (⟨⟨2, 1⟩, ⟨3, 1⟩⟩, 5)]]
def flopCodes : List Nat := [0, 6, 31]
def entries : List (List (Nat × Nat × Nat)) := [[(8, 9, 2), (1, 5, 3)], [(12, 16, 1), (9, 13, 5)]]

def cuts : List (Nat × Nat) := [(6, 10), (13, 22), (48, 49)]
def smallCuts : List (Nat × Nat) := [(46, 48), (47, 48), (48, 49)]

/-- the iterator of the empty scope (48,49)–(48,49): exhausted from the start -/
def sEnd : IterState Nat :=
  { turnTo := 48, riverTo := 49, entries := ranges,
    deck := (allCards.filter fun c => !flop.contains c),
    board := flop.map some ++ [none, none], t := 48, r := 49, idx := [0, 0] }

/-! ### hypotheses hold -/

theorem wf : WfInput flop ranges := ⟨by decide, by decide, by decide, by decide, by decide⟩
example : flop.map Card.code = flopCodes ∧ specEntries ranges = entries := by decide

theorem vs (a b : Nat × Nat) (h1 : validPos a = true) (h2 : validPos b = true) (h3 : posLe a b = true) :
    ValidScope a b := ⟨h1, h2, h3⟩

theorem scope_mid : ValidScope (6, 10) (13, 22) := vs _ _ (by decide) (by decide) (by decide)

theorem chain_ok : ∀ xy ∈ ((0, 1) :: cuts).zip cuts, ValidScope xy.1 xy.2 := by
  intro xy h
  simp only [cuts, List.zip_cons_cons, List.zip_nil_right, List.mem_cons, List.not_mem_nil, or_false] at h
  rcases h with rfl | rfl | rfl <;> exact vs _ _ (by decide) (by decide) (by decide)

theorem smallChain_ok : ∀ xy ∈ ((46, 47) :: smallCuts).zip smallCuts, ValidScope xy.1 xy.2 := by
  intro xy h
  simp only [smallCuts, List.zip_cons_cons, List.zip_nil_right, List.mem_cons, List.not_mem_nil, or_false] at h
  rcases h with rfl | rfl | rfl <;> exact vs _ _ (by decide) (by decide) (by decide)

theorem sEnd_is_start : (mkEvaluator flop ranges (48, 49) (48, 49)).intoIter = .ok sEnd := by decide +kernel
theorem sEnd_exhausted : next natOps sEnd = .ok (none, sEnd) := by decide +kernel

/-! ### `C04_scoped` -/

theorem C04_scoped_at_witness :
    ∃ s₀ : IterState Nat, (mkEvaluator flop ranges (6, 10) (13, 22)).intoIter = .ok s₀ ∧
    ∃ (sds : List (Showdown Nat)) (sEnd : IterState Nat),
      (∀ limit, sds.length < limit → drainFuel natOps limit s₀ [] = .ok (sds, sEnd))
      ∧ (deals (flop.map Card.code) (specEntries ranges) (6, 10) (13, 22)).map (showdownOfDeal natOps flop)
          = sds.map (fun sd => .ok (some sd))
      ∧ next natOps sEnd = .ok (none, sEnd) :=
  C04_scoped natOps flop ranges (6, 10) (13, 22) wf scope_mid

/-! ### `C04_exhausted` -/

theorem C04_exhausted_at_witness : nextN natOps 5 sEnd = .ok (List.replicate 5 none, sEnd) :=
  C04_exhausted natOps sEnd sEnd_exhausted 5
/-- the same by running `next` five times in the kernel -/
example : nextN natOps 5 sEnd = .ok ([none, none, none, none, none], sEnd) := by decide +kernel

/-- and for the end state whose existence `C04_scoped` asserts (hypothesis supplied by that theorem) -/
theorem C04_exhausted_after_scope :
    ∃ s : IterState Nat, next natOps s = .ok (none, s) ∧ nextN natOps 1000 s = .ok (List.replicate 1000 none, s) := by
  obtain ⟨_, _, _, s, _, _, hend⟩ := C04_scoped_at_witness
  exact ⟨s, hend, C04_exhausted natOps s hend 1000⟩

/-! ### `deals_append`, `C04_chain` -/

theorem deals_append_at_witness :
    deals flopCodes entries (0, 1) (6, 10) ++ deals flopCodes entries (6, 10) (13, 22)
      = deals flopCodes entries (0, 1) (13, 22) :=
  deals_append flopCodes entries (0, 1) (6, 10) (13, 22)
    (vs _ _ (by decide) (by decide) (by decide)) scope_mid

theorem C04_chain_at_witness :
    (((0, 1) :: cuts).zip cuts).flatMap (fun xy => deals flopCodes entries xy.1 xy.2)
      = deals flopCodes entries (0, 1) (((0, 1) :: cuts).getLast (by simp)) :=
  C04_chain flopCodes entries (0, 1) cuts chain_ok

/-- closed form: the three workers' pieces make up the whole enumeration -/
theorem C04_chain_closed :
    deals flopCodes entries (0, 1) (6, 10) ++ (deals flopCodes entries (6, 10) (13, 22)
      ++ deals flopCodes entries (13, 22) (48, 49)) = deals flopCodes entries (0, 1) (48, 49) := by
  have h := C04_chain_at_witness
  simpa [cuts] using h

theorem C04_chain_at_small :
    (((46, 47) :: smallCuts).zip smallCuts).flatMap (fun xy => deals flopCodes entries xy.1 xy.2)
      = deals flopCodes entries (46, 47) (((46, 47) :: smallCuts).getLast (by simp)) :=
  C04_chain flopCodes entries (46, 47) smallCuts smallChain_ok

/-- cross-check by evaluating the specification on both sides: three one-position pieces (three legal deals
each) against the three-position scope -/
theorem small_pieces_eval :
    deals flopCodes entries (46, 47) (46, 48) ++ (deals flopCodes entries (46, 48) (47, 48)
      ++ deals flopCodes entries (47, 48) (48, 49)) = deals flopCodes entries (46, 47) (48, 49) := by
  decide +kernel
example : (deals flopCodes entries (46, 48) (47, 48)).map (fun d => (d.turn, d.river, d.choice.map (·.2.2)))
    = [(49, 51, [2, 1]), (49, 51, [3, 1]), (49, 51, [3, 5])] := by decide +kernel

/-- the chain hypothesis is a real restriction: a cut that steps backwards is not a valid scope -/
example : posLe (13, 22) (6, 10) = false := by decide

/-! ### `C04_default_scope`, `C04_rescope` -/

example : Evaluator.new (flop.map some ++ [none, none]) ranges = mkEvaluator flop ranges (0, 1) (48, 49) :=
  C04_default_scope flop ranges

def e₀ : Evaluator Nat := mkEvaluator flop ranges (0, 1) (48, 49)
def e₁ : Evaluator Nat := { e₀ with turnFrom := 6, riverFrom := 10, turnTo := 13, riverTo := 22 }

/-- the hypothesis: the first `scope()` call (in a debug build, so its three assertions are checked) succeeds -/
theorem first_scope : e₀.scope 6 10 13 22 true = .ok e₁ := rfl

theorem C04_rescope_at_witness : e₁.scope 13 22 20 34 true = e₀.scope 13 22 20 34 true :=
  C04_rescope e₀ e₁ (6, 10, 13, 22) (13, 22, 20, 34) true first_scope

/-- cross-check: both calls give the evaluator scoped to (13,22)–(20,34) -/
example : e₁.scope 13 22 20 34 true
    = .ok { e₀ with turnFrom := 13, riverFrom := 22, turnTo := 20, riverTo := 34 } := rfl
example : e₀.scope 13 22 20 34 true
    = .ok { e₀ with turnFrom := 13, riverFrom := 22, turnTo := 20, riverTo := 34 } := rfl
/-- in a debug build an ill-ordered first call panics, so the hypothesis of `C04_rescope` fails for it -/
example (e' : Evaluator Nat) : e₀.scope 13 22 6 10 true ≠ .ok e' := by
  intro h; cases h

end EspadaVerif.C04.Witness
