/-
Non-vacuity witnesses for `Props/C07.lean`.

Data (board A♠ K♦ 7♣ 9♠ 2♠ throughout):
* `flushHand`  : hole Q♠ J♠ — an ace-high spade flush A Q J 9 2, class 501;
* `tripsHand`  : hole K♥ K♣ — three kings with A, 9, class 1679.
Both are given in the order the model hands them to the evaluator (hole cards, flop, turn, river), which is
not rank order; `…Sorted` are the same cards in rank order, used where the specification is evaluated
(`Spec.bestStrength` sorts with `List.mergeSort`, which the kernel cannot unfold; on rank-sorted input it
equals the sort-free `Witness.bestStrengthS`, see `Witness/Common.lean`).
-/
import EspadaVerif.Props.C07
import EspadaVerif.Props.Witness.Common

set_option Elab.async false

namespace EspadaVerif.C07.Witness
open EspadaVerif Spec EspadaVerif.Witness

/-! ### data -/

def flushHand : List Card := [⟨2, 0⟩, ⟨3, 0⟩, ⟨0, 0⟩, ⟨1, 2⟩, ⟨7, 3⟩, ⟨5, 0⟩, ⟨12, 0⟩]
def flushSorted : List Card := [⟨0, 0⟩, ⟨1, 2⟩, ⟨2, 0⟩, ⟨3, 0⟩, ⟨5, 0⟩, ⟨7, 3⟩, ⟨12, 0⟩]
def tripsHand : List Card := [⟨1, 1⟩, ⟨1, 3⟩, ⟨0, 0⟩, ⟨1, 2⟩, ⟨7, 3⟩, ⟨5, 0⟩, ⟨12, 0⟩]
def tripsSorted : List Card := [⟨0, 0⟩, ⟨1, 1⟩, ⟨1, 2⟩, ⟨1, 3⟩, ⟨5, 0⟩, ⟨7, 3⟩, ⟨12, 0⟩]

/-! ### hypotheses hold -/

theorem seven_flushHand : C01.Seven flushHand := ⟨by decide, by decide, by decide⟩
theorem seven_flushSorted : C01.Seven flushSorted := ⟨by decide, by decide, by decide⟩
theorem seven_tripsHand : C01.Seven tripsHand := ⟨by decide, by decide, by decide⟩
theorem seven_tripsSorted : C01.Seven tripsSorted := ⟨by decide, by decide, by decide⟩

theorem eval_flushHand : eval7 flushHand = .ok 501 := by decide +kernel
theorem eval_flushSorted : eval7 flushSorted = .ok 501 := by decide +kernel
theorem eval_tripsHand : eval7 tripsHand = .ok 1679 := by decide +kernel
theorem eval_tripsSorted : eval7 tripsSorted = .ok 1679 := by decide +kernel

theorem flush_perm : flushHand.Perm flushSorted := by decide
theorem trips_perm : tripsHand.Perm tripsSorted := by decide

/-! ### `C07_intervals` -/

theorem C07_intervals_at_witness : handType 501 = Spec.catOfClass 501 :=
  C07.C07_intervals 501 (by decide) (by decide)
theorem C07_intervals_at_witness₂ : handType 1679 = Spec.catOfClass 1679 :=
  C07.C07_intervals 1679 (by decide) (by decide)
/-- by evaluation: a flush (category 5) and trips (category 3) -/
example : handType 501 = Spec.catFlush ∧ Spec.catOfClass 501 = 5 := by decide
example : handType 1679 = Spec.catTrips ∧ Spec.catOfClass 1679 = 3 := by decide
/-- the bounds matter on the upper side: beyond 7462 both sides still agree only because the wildcard arm
is high card; at 0 the arms say straight flush — an index the evaluator never produces (`C01_index_range`) -/
example : handType 0 = Spec.catStraightFlush ∧ handType 7463 = Spec.catHighCard := by decide

/-! ### `C07` -/

theorem C07_at_witness :
    handType 501 = Spec.categoryOfStrength (Spec.bestStrength (flushHand.map C01.toSpec)) :=
  C07.C07 flushHand seven_flushHand 501 eval_flushHand

theorem C07_at_witness₂ :
    handType 1679 = Spec.categoryOfStrength (Spec.bestStrength (tripsHand.map C01.toSpec)) :=
  C07.C07 tripsHand seven_tripsHand 1679 eval_tripsHand

theorem C07_at_sorted :
    handType 501 = Spec.categoryOfStrength (Spec.bestStrength (flushSorted.map C01.toSpec)) :=
  C07.C07 flushSorted seven_flushSorted 501 eval_flushSorted

theorem C07_at_sorted₂ :
    handType 1679 = Spec.categoryOfStrength (Spec.bestStrength (tripsSorted.map C01.toSpec)) :=
  C07.C07 tripsSorted seven_tripsSorted 1679 eval_tripsSorted

/-! ### cross-check: the right-hand side evaluated independently of `C07` and of the tables -/

theorem flushSorted_sorted : ((flushSorted.map C01.toSpec).map (·.1)).Pairwise (· ≤ ·) :=
  pairwise_of_rankSorted _ (by decide)
theorem tripsSorted_sorted : ((tripsSorted.map C01.toSpec).map (·.1)).Pairwise (· ≤ ·) :=
  pairwise_of_rankSorted _ (by decide)

/-- the strongest five-card hand in the flush hand has strength 5·14⁵ + (13,11,10,8,1): a flush A Q J 9 2 -/
theorem bestStrength_flush : Spec.bestStrength (flushSorted.map C01.toSpec) = 3220785 := by
  rw [bestStrength_sorted _ flushSorted_sorted]; decide +kernel
/-- three kings with ace and nine: 3·14⁵ + (12,13,8,0,0) -/
theorem bestStrength_trips : Spec.bestStrength (tripsSorted.map C01.toSpec) = 2111704 := by
  rw [bestStrength_sorted _ tripsSorted_sorted]; decide +kernel

example : Spec.categoryOfStrength 3220785 = Spec.catFlush
    ∧ 3220785 = ((((5 * 14 + 13) * 14 + 11) * 14 + 10) * 14 + 8) * 14 + 1 := by decide
example : Spec.categoryOfStrength 2111704 = Spec.catTrips
    ∧ 2111704 = ((((3 * 14 + 12) * 14 + 13) * 14 + 8) * 14 + 0) * 14 + 0 := by decide

/-- both sides of `C07_at_sorted`, evaluated separately, agree -/
example : handType 501 = 5 ∧ Spec.categoryOfStrength (Spec.bestStrength (flushSorted.map C01.toSpec)) = 5 := by
  rw [bestStrength_flush]; decide
example : handType 1679 = 3 ∧ Spec.categoryOfStrength (Spec.bestStrength (tripsSorted.map C01.toSpec)) = 3 := by
  rw [bestStrength_trips]; decide

end EspadaVerif.C07.Witness
