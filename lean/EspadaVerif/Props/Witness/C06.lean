/-
Non-vacuity witnesses for `Props/C06.lean`.

Weights: the concrete `Wt` = {0, 0.5, 1, 2}, domain `wtDom` = {0, 0.5, 1}, with `wtextOk : WTextOk wtText wtDom`
PROVED in `Witness/Common.lean` — so the assumption bundle of C06 is satisfiable, by a domain that contains
weights other than 1 and excludes a value of the type.
Data:
* tokens `A7s-A5s:0`, `Kd7c:0.5` (a single combo given as 7♣ K♦ and normalised), `KK+` (weight 1: no suffix);
* `r₁` : the twelve-insert history of `QQ:0.5,QsQh:0,AKs,7d7c:0.5` (a complete rank pair, six leftovers that
  do not form one, a lone leftover, one shadowed entry);
* `rMix` : the range parsed from `7d7c:0.5,AQo:0,AKs,KK+:0.5` (29 entries; a run of pocket pairs).
-/
import EspadaVerif.Props.C06
import EspadaVerif.Props.Witness.Common

set_option Elab.async false

namespace EspadaVerif.C06.Witness
open EspadaVerif TextDefs EspadaVerif.Witness

/-! ### data -/

def tokA : Token Wt := ⟨.doubleClosed (.suited 0 7) 9, .zero⟩
def tokB : Token Wt := ⟨.singleCard (mkPair ⟨7, 3⟩ ⟨1, 2⟩), .half⟩
def tokC : Token Wt := ⟨.bottomClosed (.pocket 1), .one⟩

def r₁ : HandRange Wt :=
  [(⟨⟨7, 2⟩, ⟨7, 3⟩⟩, .half),
   (⟨⟨0, 3⟩, ⟨1, 3⟩⟩, .one), (⟨⟨0, 2⟩, ⟨1, 2⟩⟩, .one), (⟨⟨0, 1⟩, ⟨1, 1⟩⟩, .one), (⟨⟨0, 0⟩, ⟨1, 0⟩⟩, .one),
   (⟨⟨2, 0⟩, ⟨2, 1⟩⟩, .zero),
   (⟨⟨2, 2⟩, ⟨2, 3⟩⟩, .half), (⟨⟨2, 1⟩, ⟨2, 3⟩⟩, .half), (⟨⟨2, 1⟩, ⟨2, 2⟩⟩, .half), (⟨⟨2, 0⟩, ⟨2, 3⟩⟩, .half),
   (⟨⟨2, 0⟩, ⟨2, 2⟩⟩, .half), (⟨⟨2, 0⟩, ⟨2, 1⟩⟩, .half)]

/-- `7d7c:0.5,AQo:0,AKs,KK+:0.5` -/
def mixTxt : Bytes :=
  [55, 100, 55, 99, 58, 48, 46, 53, 44, 65, 81, 111, 58, 48, 44, 65, 75, 115, 44, 75, 75, 43, 58, 48, 46, 53]
def rMix : HandRange Wt :=
  match parseRange wtText mixTxt with
  | .ok r => r
  | _ => []

/-- the text the formatter writes for a range (empty if it failed) and what the parser makes of it -/
def textOf (r : HandRange Wt) : Bytes :=
  match showRange wtText r with
  | .ok t => t
  | _ => []
def reparsed (r : HandRange Wt) : HandRange Wt :=
  match parseRange wtText (textOf r) with
  | .ok r' => r'
  | _ => []

def asks : Combo := ⟨⟨0, 0⟩, ⟨1, 0⟩⟩
def qsqh : Combo := ⟨⟨2, 0⟩, ⟨2, 1⟩⟩
def qdqc : Combo := ⟨⟨2, 2⟩, ⟨2, 3⟩⟩
def c7d7c : Combo := ⟨⟨7, 2⟩, ⟨7, 3⟩⟩
def c2s2h : Combo := ⟨⟨12, 0⟩, ⟨12, 1⟩⟩

/-! ### hypotheses hold -/

theorem okA : TokenFacts.TokenOk tokA.kind := ⟨by decide, by decide, by decide⟩
theorem okB : TokenFacts.TokenOk tokB.kind := ⟨⟨7, 3⟩, ⟨1, 2⟩, by decide, by decide, by decide, rfl⟩
theorem okC : TokenFacts.TokenOk tokC.kind := (by decide : 1 < 13)
theorem domA : wtDom tokA.prob := by decide
theorem domB : wtDom tokB.prob := by decide
theorem domC : wtDom tokC.prob := by decide

/-- Boolean form of the range hypothesis -/
def rangeOk (r : HandRange Wt) : Bool :=
  r.all fun e => e.1.fst.valid && e.1.snd.valid && Card.lt e.1.fst e.1.snd && decide (wtDom e.2)

theorem hr_of_rangeOk (r : HandRange Wt) (h : rangeOk r = true) : ∀ e ∈ r, ComboOk e.1 ∧ wtDom e.2 := by
  intro e he
  have := List.all_eq_true.mp h e he
  simp only [Bool.and_eq_true, decide_eq_true_eq] at this
  exact ⟨⟨this.1.1.1, this.1.1.2, this.1.2⟩, this.2⟩

theorem r₁_ok : ∀ e ∈ r₁, ComboOk e.1 ∧ wtDom e.2 := hr_of_rangeOk r₁ (by decide)
theorem rMix_ok : ∀ e ∈ rMix, ComboOk e.1 ∧ wtDom e.2 := hr_of_rangeOk rMix (by decide +kernel)
/-- the hypothesis is a real restriction: a weight outside the domain, or a key stored in the wrong order -/
example : rangeOk [(asks, .two)] = false ∧ rangeOk [(⟨⟨1, 0⟩, ⟨0, 0⟩⟩, .one)] = false := by decide

/-! ### `C06_token` -/

theorem C06_token_at_witness_A : parseToken wtText (tokA.show wtText) = .ok tokA :=
  C06_token wtText wtDom wtextOk tokA okA domA
theorem C06_token_at_witness_B : parseToken wtText (tokB.show wtText) = .ok tokB :=
  C06_token wtText wtDom wtextOk tokB okB domB
theorem C06_token_at_witness_C : parseToken wtText (tokC.show wtText) = .ok tokC :=
  C06_token wtText wtDom wtextOk tokC okC domC

/-- cross-check by evaluation: the three texts (`A7s-A5s:0`, `Kd7c:0.5`, `KK+`), and the parser run on them -/
example : tokA.show wtText = [65, 55, 115, 45, 65, 53, 115, 58, 48]
    ∧ tokB.show wtText = [75, 100, 55, 99, 58, 48, 46, 53] ∧ tokC.show wtText = [75, 75, 43] := by decide
example : parseToken wtText [65, 55, 115, 45, 65, 53, 115, 58, 48] = .ok tokA
    ∧ parseToken wtText [75, 100, 55, 99, 58, 48, 46, 53] = .ok tokB
    ∧ parseToken wtText [75, 75, 43] = .ok tokC := by decide +kernel

/-- both hypotheses matter: a weight outside the domain prints as `KK+:2`, which does not parse; a reversed span
(`TokenOk` fails: 9 is not above 7) prints as `A5s-A7s`, which the parser rejects -/
example : parseToken wtText ((⟨.bottomClosed (.pocket 1), .two⟩ : Token Wt).show wtText) = .err
    ∧ parseToken wtText ((⟨.doubleClosed (.suited 0 9) 7, .one⟩ : Token Wt).show wtText) = .err := by decide +kernel

/-! ### `C06_range` -/

theorem C06_range_at_witness :
    ∃ txt r', showRange wtText r₁ = .ok txt ∧ parseRange wtText txt = .ok r' ∧ ∀ c, r'.lookup c = r₁.lookup c :=
  C06_range wtText wtDom wtextOk r₁ r₁_ok

theorem C06_range_at_witness_mix :
    ∃ txt r', showRange wtText rMix = .ok txt ∧ parseRange wtText txt = .ok r' ∧ ∀ c, r'.lookup c = rMix.lookup c :=
  C06_range wtText wtDom wtextOk rMix rMix_ok

/-- the text of `r₁`, evaluated: `AKs`, then the six queen combos and 7♦7♣ as leftovers -/
theorem text_r₁ : showRange wtText r₁ = .ok (textOf r₁) := by decide +kernel
theorem reparse_r₁ : parseRange wtText (textOf r₁) = .ok (reparsed r₁) := by decide +kernel
example : (textOf r₁).take 12 = [65, 75, 115, 44, 81, 115, 81, 104, 58, 48, 44, 81] ∧ (textOf r₁).length = 125 := by
  decide +kernel

/-- closed form: the range re-read from its own text answers every question like `r₁` -/
theorem C06_range_closed : ∀ c, (reparsed r₁).lookup c = r₁.lookup c := by
  obtain ⟨t, r', h1, h2, h3⟩ := C06_range_at_witness
  have ht : t = textOf r₁ := Res.ok.inj (h1.symm.trans text_r₁)
  rw [ht] at h2
  have hr : r' = reparsed r₁ := Res.ok.inj (h2.symm.trans reparse_r₁)
  intro c
  rw [← hr]
  exact h3 c

/-- cross-check at five combos, both sides evaluated: the overwritten Q♠Q♥ keeps its CURRENT weight 0 -/
example : [asks, qsqh, qdqc, c7d7c, c2s2h].map (reparsed r₁).lookup
    = [some .one, some .zero, some .half, some .half, none]
    ∧ [asks, qsqh, qdqc, c7d7c, c2s2h].map r₁.lookup = [some .one, some .zero, some .half, some .half, none] := by
  decide +kernel
/-- the re-read history is not the original history (different length): equality is of contents, as stated -/
example : (reparsed r₁).length = 18 ∧ r₁.length = 12 := by decide +kernel

/-- the mixed range: its canonical text is `KK+:0.5,AKs,AQo:0,7d7c:0.5,7d7c:0.5` and reading that back gives the
same weights -/
example : showRange wtText rMix
    = .ok [75, 75, 43, 58, 48, 46, 53, 44, 65, 75, 115, 44, 65, 81, 111, 58, 48, 44,
           55, 100, 55, 99, 58, 48, 46, 53, 44, 55, 100, 55, 99, 58, 48, 46, 53] := by decide +kernel
example : [asks, ⟨⟨0, 0⟩, ⟨2, 1⟩⟩, ⟨⟨1, 0⟩, ⟨1, 1⟩⟩, c7d7c, c2s2h].map (reparsed rMix).lookup
    = [some .one, some .zero, some .half, some .half, none] := by decide +kernel

end EspadaVerif.C06.Witness
