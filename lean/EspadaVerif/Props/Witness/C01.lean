/-
Non-vacuity witnesses for `Props/C01.lean` and `Props/C01Compare.lean` (both in namespace `EspadaVerif.C01`).

Data (board A♠ K♦ 7♣ 9♠ 2♠ throughout):
* `flushHand` : hole Q♠ J♠ in evaluator order (hole, flop, turn, river) — spade flush A Q J 9 2, class 501;
  `flushSorted` the same seven cards in rank order;
* `tripsSorted` : hole K♥ K♣ — three kings, class 1679;
* `tieA`, `tieB` : holes Q♥ J♦ and Q♦ J♣ — the same high-card hand A K Q J 9, class 6186 (a tie).
`Spec.best` / `Spec.bestStrength` are cross-checked through the sort-free forms of `Witness/Common.lean`
(they agree on rank-sorted cards; the kernel cannot unfold `List.mergeSort`).
-/
import EspadaVerif.Props.C01Compare
import EspadaVerif.Props.Witness.Common

set_option Elab.async false

namespace EspadaVerif.C01.Witness
open EspadaVerif Spec Kernel Lemmas EspadaVerif.Witness

/-! ### data -/

def flushHand : List Card := [⟨2, 0⟩, ⟨3, 0⟩, ⟨0, 0⟩, ⟨1, 2⟩, ⟨7, 3⟩, ⟨5, 0⟩, ⟨12, 0⟩]
def flushSorted : List Card := [⟨0, 0⟩, ⟨1, 2⟩, ⟨2, 0⟩, ⟨3, 0⟩, ⟨5, 0⟩, ⟨7, 3⟩, ⟨12, 0⟩]
def tripsSorted : List Card := [⟨0, 0⟩, ⟨1, 1⟩, ⟨1, 2⟩, ⟨1, 3⟩, ⟨5, 0⟩, ⟨7, 3⟩, ⟨12, 0⟩]
def tieA : List Card := [⟨0, 0⟩, ⟨1, 2⟩, ⟨2, 1⟩, ⟨3, 2⟩, ⟨5, 0⟩, ⟨7, 3⟩, ⟨12, 0⟩]
def tieB : List Card := [⟨0, 0⟩, ⟨1, 2⟩, ⟨2, 2⟩, ⟨3, 3⟩, ⟨5, 0⟩, ⟨7, 3⟩, ⟨12, 0⟩]
/-- the five spades of `flushSorted`, as the specification sees them -/
def flushFive : List (Nat × Nat) := [(0, 0), (2, 0), (3, 0), (5, 0), (12, 0)]

/-! ### hypotheses hold -/

theorem flushHand_len : flushHand.length = 7 := by decide
theorem flushHand_nodup : flushHand.Nodup := by decide
theorem flushHand_valid : ∀ c ∈ flushHand, c.valid = true := by decide
theorem flushSorted_len : flushSorted.length = 7 := by decide
theorem flushSorted_nodup : flushSorted.Nodup := by decide
theorem flushSorted_valid : ∀ c ∈ flushSorted, c.valid = true := by decide
theorem flushSorted_ranks : (flushSorted.map (·.rank)).Pairwise (· ≤ ·) := pairwise_of_rankSorted _ (by decide)
theorem flush_perm : flushHand.Perm flushSorted := by decide
/-- the evaluator order is really not the sorted order -/
example : flushHand ≠ flushSorted := by decide

theorem seven_flushHand : Seven flushHand := ⟨flushHand_len, flushHand_nodup, flushHand_valid⟩
theorem seven_flushSorted : Seven flushSorted := ⟨flushSorted_len, flushSorted_nodup, flushSorted_valid⟩
theorem seven_tripsSorted : Seven tripsSorted := ⟨by decide, by decide, by decide⟩
theorem seven_tieA : Seven tieA := ⟨by decide, by decide, by decide⟩
theorem seven_tieB : Seven tieB := ⟨by decide, by decide, by decide⟩

theorem eval_flushHand : eval7 flushHand = .ok 501 := by decide +kernel
theorem eval_flushSorted : eval7 flushSorted = .ok 501 := by decide +kernel
theorem eval_tripsSorted : eval7 tripsSorted = .ok 1679 := by decide +kernel
theorem eval_tieA : eval7 tieA = .ok 6186 := by decide +kernel
theorem eval_tieB : eval7 tieB = .ok 6186 := by decide +kernel

theorem sorted_spec (cs : List Card) (h : rankSorted (cs.map (·.rank)) = true) :
    ((cs.map toSpec).map (·.1)).Pairwise (· ≤ ·) := by
  rw [map_toSpec_fst]; exact pairwise_of_rankSorted _ h

/-! ### independent evaluation of the specification side -/

theorem best_flushSorted : best (flushSorted.map toSpec) = 501 := by
  rw [best_sorted _ (sorted_spec _ (by decide))]; decide +kernel
theorem best_tripsSorted : best (tripsSorted.map toSpec) = 1679 := by
  rw [best_sorted _ (sorted_spec _ (by decide))]; decide +kernel
theorem bestStrength_flushSorted : bestStrength (flushSorted.map toSpec) = 3220785 := by
  rw [bestStrength_sorted _ (sorted_spec _ (by decide))]; decide +kernel
theorem bestStrength_tripsSorted : bestStrength (tripsSorted.map toSpec) = 2111704 := by
  rw [bestStrength_sorted _ (sorted_spec _ (by decide))]; decide +kernel
theorem bestStrength_tieA : bestStrength (tieA.map toSpec) = 534640 := by
  rw [bestStrength_sorted _ (sorted_spec _ (by decide))]; decide +kernel
theorem bestStrength_tieB : bestStrength (tieB.map toSpec) = 534640 := by
  rw [bestStrength_sorted _ (sorted_spec _ (by decide))]; decide +kernel

/-! ### `C01_eval_sorted`, `C01_eval`, `C01_order` -/

theorem C01_eval_sorted_at_witness : eval7 flushSorted = .ok (best (flushSorted.map toSpec)) :=
  C01_eval_sorted flushSorted flushSorted_len flushSorted_nodup flushSorted_valid flushSorted_ranks

theorem C01_eval_at_witness : eval7 flushHand = .ok (best (flushHand.map toSpec)) :=
  C01_eval flushHand flushHand_len flushHand_nodup flushHand_valid

/-- closed consequence: the specification's best class of the seven cards in evaluator order is 501 -/
theorem C01_eval_closed : best (flushHand.map toSpec) = 501 := by
  have h := C01_eval_at_witness
  rw [eval_flushHand] at h
  exact (Res.ok.inj h).symm

/-- cross-check: table lookup (`eval7`) and specification (`best`, evaluated without any table) agree, both
computed directly -/
example : eval7 flushSorted = .ok 501 ∧ best (flushSorted.map toSpec) = 501 :=
  ⟨eval_flushSorted, best_flushSorted⟩
/-- and the two orders of the cards have the same best class, as `best_perm` says -/
example : best (flushHand.map toSpec) = best (flushSorted.map toSpec) := by
  rw [C01_eval_closed, best_flushSorted]

theorem C01_order_at_witness : eval7 flushHand = eval7 flushSorted :=
  C01_order flushHand flushSorted flush_perm flushHand_len flushHand_nodup flushHand_valid
example : eval7 flushHand = eval7 flushSorted := by rw [eval_flushHand, eval_flushSorted]

/-- the `Nodup` hypothesis is a real restriction: seven "cards" with A♠ twice are outside the theorem -/
example : ¬ ([⟨0, 0⟩, ⟨0, 0⟩, ⟨0, 1⟩, ⟨0, 2⟩, ⟨0, 3⟩, ⟨1, 0⟩, ⟨2, 0⟩] : List Card).Nodup := by decide

/-! ### `C01_index_range`, `C01_best_is_strongest` -/

theorem C01_index_range_at_witness : 1 ≤ 501 ∧ 501 ≤ 7462 :=
  C01_index_range flushHand seven_flushHand 501 eval_flushHand

theorem C01_best_is_strongest_at_witness :
    ∃ S ∈ choose 5 (flushSorted.map toSpec), class5 S = 501 ∧ strength5 S = bestStrength (flushSorted.map toSpec)
      ∧ catOfClass 501 = categoryOfStrength (strength5 S) :=
  C01_best_is_strongest flushSorted seven_flushSorted 501 eval_flushSorted

/-- cross-check: the sub-hand is the five spades; each conjunct evaluated directly -/
theorem flushFive_is_it :
    flushFive ∈ choose 5 (flushSorted.map toSpec) ∧ class5 flushFive = 501
      ∧ strength5 flushFive = bestStrength (flushSorted.map toSpec)
      ∧ catOfClass 501 = categoryOfStrength (strength5 flushFive) := by
  have hs : (flushFive.map (·.1)).Pairwise (· ≤ ·) := pairwise_of_rankSorted _ (by decide)
  have h1 : class5 flushFive = 501 := by
    rw [class5_of_sorted flushFive (by decide) hs]; decide
  have h2 : strength5 flushFive = 3220785 := by
    rw [strength5_of_sorted flushFive hs]; decide
  refine ⟨by decide, h1, ?_, ?_⟩
  · rw [h2, bestStrength_flushSorted]
  · rw [h2]; decide

/-! ### `C01_compare` -/

/-- flush against trips: different indexes -/
theorem C01_compare_at_witness :
    (501 < 1679 ↔ bestStrength (tripsSorted.map toSpec) < bestStrength (flushSorted.map toSpec))
    ∧ (501 = 1679 ↔ bestStrength (flushSorted.map toSpec) = bestStrength (tripsSorted.map toSpec)) :=
  C01_compare flushSorted tripsSorted seven_flushSorted seven_tripsSorted 501 1679 eval_flushSorted eval_tripsSorted

/-- closed consequence: the flush is strictly stronger under the rule book, and it is not a tie -/
theorem C01_compare_closed :
    bestStrength (tripsSorted.map toSpec) < bestStrength (flushSorted.map toSpec)
    ∧ bestStrength (flushSorted.map toSpec) ≠ bestStrength (tripsSorted.map toSpec) :=
  ⟨C01_compare_at_witness.1.mp (by decide), fun h => absurd (C01_compare_at_witness.2.mpr h) (by decide)⟩

/-- cross-check by evaluating both strengths -/
example : bestStrength (tripsSorted.map toSpec) < bestStrength (flushSorted.map toSpec) := by
  rw [bestStrength_tripsSorted, bestStrength_flushSorted]; decide

/-- in evaluator order too (no evaluation of the specification possible there; only the theorem) -/
theorem C01_compare_at_unsorted :
    (501 < 1679 ↔ bestStrength (tripsSorted.map toSpec) < bestStrength (flushHand.map toSpec))
    ∧ (501 = 1679 ↔ bestStrength (flushHand.map toSpec) = bestStrength (tripsSorted.map toSpec)) :=
  C01_compare flushHand tripsSorted seven_flushHand seven_tripsSorted 501 1679 eval_flushHand eval_tripsSorted

/-- a tie: different hole cards, equal index, equal strength -/
theorem C01_compare_at_tie :
    (6186 < 6186 ↔ bestStrength (tieB.map toSpec) < bestStrength (tieA.map toSpec))
    ∧ (6186 = 6186 ↔ bestStrength (tieA.map toSpec) = bestStrength (tieB.map toSpec)) :=
  C01_compare tieA tieB seven_tieA seven_tieB 6186 6186 eval_tieA eval_tieB
theorem C01_compare_tie_closed : bestStrength (tieA.map toSpec) = bestStrength (tieB.map toSpec) :=
  C01_compare_at_tie.2.mp rfl
example : tieA ≠ tieB ∧ bestStrength (tieA.map toSpec) = 534640 ∧ bestStrength (tieB.map toSpec) = 534640 :=
  ⟨by decide, bestStrength_tieA, bestStrength_tieB⟩

end EspadaVerif.C01.Witness
