/-
Non-vacuity witness for `Props/C06FromIter.lean` (`C06_collect`, the public constructor as repaired by D11).

The concrete weight type `Wt` = {0, 0.5, 1, 2} of `Witness/Common.lean` has one value, `2`, whose text the weight grammar
of the parser does not accept — the rôle −0.0 plays for `f32` (it prints as `-0`).  The normalisation `norm2` stores it as
`0`, as the repaired `FromIterator<(CardPair, f32)>` stores −0.0 as 0.0, and is the identity elsewhere; `inUnit` is the whole
type.  The entry list holds the offending weight twice (once shadowed by a later insert of the same combo, once live), a
complete suited rank pair and a lone pocket combo.
-/
import EspadaVerif.Props.C06FromIter
import EspadaVerif.Props.Witness.C06

set_option Elab.async false

namespace EspadaVerif.C06.Witness
open EspadaVerif TextDefs EspadaVerif.Witness

/-- the analogue of `if p == 0.0 { 0.0 } else { p }`: the one weight outside the text domain is stored as 0 -/
def norm2 : Wt → Wt
  | .two => .zero
  | w => w

theorem norm2_dom : ∀ w, (fun _ : Wt => True) w → wtDom (norm2 w) := by
  intro w _; cases w <;> decide

/-- `AsKs:2` (shadowed), `QsQh:2` (live), `AKs` complete with weight 0.5, `AsKs` again, `7d7c` -/
def esIn : List (Combo × Wt) :=
  [(asks, .two), (qsqh, .two),
   (⟨⟨0, 3⟩, ⟨1, 3⟩⟩, .half), (⟨⟨0, 2⟩, ⟨1, 2⟩⟩, .half), (⟨⟨0, 1⟩, ⟨1, 1⟩⟩, .half), (asks, .half),
   (c7d7c, .one)]

theorem esIn_ok : ∀ e ∈ esIn, ComboOk e.1 ∧ (fun _ : Wt => True) e.2 := by
  intro e he
  refine ⟨?_, trivial⟩
  have h : (esIn.all fun e => e.1.fst.valid && e.1.snd.valid && Card.lt e.1.fst e.1.snd) = true := by decide
  have := List.all_eq_true.mp h e he
  simp only [Bool.and_eq_true] at this
  exact ⟨this.1.1, this.1.2, this.2⟩

/-- `C06_collect` at the witness: every hypothesis discharged -/
theorem C06_collect_at_witness :
    ∃ txt r', showRange wtText (collectWith norm2 esIn) = .ok txt ∧ parseRange wtText txt = .ok r' ∧
      ∀ c, r'.lookup c = (collectWith norm2 esIn).lookup c :=
  C06_collect wtText wtDom (fun _ => True) norm2 wtextOk norm2_dom esIn esIn_ok

/-- the conclusion evaluated independently: the collected range prints as `AKs:0.5,QsQh:0,QsQh:0,7d7c,7d7c` (the crate
writes a leftover pocket combo once per ordered suit pair — pinned by its own tests, DESIGN §7.5) and that text is read
back with the same answers; the weight `2` given for Q♠Q♥ was stored as 0, the one for A♠K♠ was overwritten -/
example : textOf (collectWith norm2 esIn)
    = [65, 75, 115, 58, 48, 46, 53, 44, 81, 115, 81, 104, 58, 48, 44, 81, 115, 81, 104, 58, 48, 44, 55, 100, 55, 99, 44,
       55, 100, 55, 99] := by decide +kernel
example : [asks, qsqh, qdqc, c7d7c].map (reparsed (collectWith norm2 esIn)).lookup
      = [some .half, some .zero, none, some .one]
    ∧ [asks, qsqh, qdqc, c7d7c].map (collectWith norm2 esIn).lookup
      = [some .half, some .zero, none, some .one] := by decide +kernel

/-- the normalisation matters: collected with the identity, the live weight `2` prints as `QsQh:2`, a text outside the
weight grammar which the range parser drops — the re-read range has lost Q♠Q♥, the pre-D11 behaviour that the theorem's
`hnorm` excludes -/
example : (reparsed (collectWith id esIn)).lookup qsqh = none ∧ (collectWith id esIn).lookup qsqh = some .two := by
  decide +kernel
example : ¬ (∀ w, (fun _ : Wt => True) w → wtDom (id w)) := fun h => h .two trivial rfl

end EspadaVerif.C06.Witness
