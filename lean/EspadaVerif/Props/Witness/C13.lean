/-
Non-vacuity witnesses for `Props/C13.lean`.

`Props/C13.lean` has no theorem named `C13_…`; every theorem there that carries hypotheses is treated
as a main theorem.  Data: K♦ = ⟨1, 2⟩ (code 6), 7♣ = ⟨7, 3⟩ (code 31), the text "7c" = [55, 99],
the rank run Jack..Eight (3..6), the suit run Heart..Club (1..3).
-/
import EspadaVerif.Props.C13

set_option Elab.async false

namespace EspadaVerif.C13.Witness
open EspadaVerif Gen

/-! ### data -/

/-- K♦ -/
def kd : Card := ⟨1, 2⟩
/-- 7♣ -/
def c7 : Card := ⟨7, 3⟩
/-- the text "7c" -/
def txt7c : Bytes := [55, 99]

/-! ### hypotheses hold -/

theorem kd_valid : kd.valid = true := by decide
theorem c7_valid : c7.valid = true := by decide
theorem kd_ne_c7 : kd ≠ c7 := by decide
theorem kd_mem : kd ∈ allCards := by decide
theorem byte55_lt : (55 : Nat) < 128 := by decide
theorem byte99_lt : (99 : Nat) < 128 := by decide
theorem rank_of_55 : rankOfChar 55 = some 7 := by decide
theorem suit_of_99 : suitOfChar 99 = some 3 := by decide

/-! ### the theorems applied to the data, and the same facts by direct evaluation -/

theorem mem_allCards_at_witness : c7 ∈ allCards := C13.mem_allCards c7 c7_valid
theorem valid_of_mem_allCards_at_witness : kd.valid = true := C13.valid_of_mem_allCards kd kd_mem

/-- Seven (code 7) : next is Six (8), previous is Eight (6) -/
theorem rank_next_prev_at_witness :
    rankNext 7 = (if 7 + 1 < 13 then some (7 + 1) else none)
    ∧ rankPrev 7 = (if 0 < 7 then some (7 - 1) else none) := C13.rank_next_prev 7 (by decide)
example : rankNext 7 = some 8 ∧ rankPrev 7 = some 6 := by decide
/-- the two ends: Deuce has no next, Ace has no previous -/
theorem rank_next_prev_at_ends : rankNext 12 = none ∧ rankPrev 0 = none :=
  ⟨by simpa using (C13.rank_next_prev 12 (by decide)).1, by simpa using (C13.rank_next_prev 0 (by decide)).2⟩
example : rankNext 12 = none ∧ rankPrev 0 = none := by decide

theorem rank_text_at_witness : rankOfChar (rankChar 7) = some 7 ∧ rankChar 7 < 128 :=
  C13.rank_text 7 (by decide)
example : rankChar 7 = 55 := by decide
theorem suit_text_at_witness : suitOfChar (suitChar 3) = some 3 ∧ suitChar 3 < 128 :=
  C13.suit_text 3 (by decide)
example : suitChar 3 = 99 := by decide

theorem rank_char_only_at_witness : 7 < 13 ∧ rankChar 7 = 55 :=
  C13.rank_char_only 55 byte55_lt 7 rank_of_55
theorem suit_char_only_at_witness : 3 < 4 ∧ suitChar 3 = 99 :=
  C13.suit_char_only 99 byte99_lt 3 suit_of_99
/-- the hypothesis `rankOfChar b = some r` is not met by other bytes, e.g. 'x' and 'a' (lower case) -/
example : rankOfChar 120 = none ∧ rankOfChar 97 = none ∧ suitOfChar 83 = none := by decide

theorem card_bits_roundtrip_at_witness :
    cardOfU64 (u64OfCard kd) = .ok kd ∧ ∃ k, k < 52 ∧ u64OfCard kd = 2 ^ k :=
  C13.card_bits_roundtrip kd kd_valid
example : u64OfCard kd = 2 ^ 6 ∧ u64OfCard c7 = 2 ^ 31 ∧ cardOfU64 (2 ^ 31) = .ok c7 := by decide

/-- contrapositive use: different cards, different bits -/
theorem card_bits_inj_at_witness : u64OfCard kd ≠ u64OfCard c7 :=
  fun h => kd_ne_c7 (C13.card_bits_inj kd c7 kd_valid c7_valid h)
example : u64OfCard kd = 64 ∧ u64OfCard c7 = 2147483648 := by decide
/-- direct use with a satisfied equation -/
example : (⟨1, 2⟩ : Card) = kd :=
  C13.card_bits_inj ⟨1, 2⟩ kd (by decide) kd_valid rfl

theorem bits_card_roundtrip_at_witness :
    ∃ c, cardOfU64 (2 ^ 31) = .ok c ∧ c.valid = true ∧ u64OfCard c = 2 ^ 31 :=
  C13.bits_card_roundtrip 31 (by decide)
example : cardOfU64 (2 ^ 31) = .ok c7 := by decide
/-- the bound `k < 52` matters: bit 52 is no card -/
example : cardOfU64 (2 ^ 52) = .panic := by decide

theorem card_text_roundtrip_at_witness :
    parseCard (showCard c7) = .ok c7 ∧ (showCard c7).length = 2 ∧ isAscii (showCard c7) = true :=
  C13.card_text_roundtrip c7 c7_valid
example : showCard c7 = txt7c ∧ showCard kd = [75, 100] ∧ parseCard txt7c = .ok c7 := by decide

theorem parseCard_two_at_witness :
    parseCard [55, 99] = (match rankOfChar 55, suitOfChar 99 with
      | some r, some s => .ok ⟨r, s⟩
      | _, _ => .err) := C13.parseCard_two 55 99 byte55_lt byte99_lt
example : parseCard [55, 99] = .ok c7 := by decide
/-- a rejected two-character ASCII text ("c7": suit first) -/
theorem parseCard_two_at_reject : parseCard [99, 55] = .err := by
  rw [C13.parseCard_two 99 55 byte99_lt byte55_lt]; decide
example : parseCard [99, 55] = .err := by decide

theorem two_char_ascii_at_witness :
    parseCard [55, 99] ≠ .panic ∧
    ∀ c, parseCard [55, 99] = .ok c → c.valid = true ∧ showCard c = [55, 99] :=
  C13.two_char_ascii 55 99 byte55_lt byte99_lt
/-- the inner implication is used, not only stated -/
theorem two_char_ascii_used : c7.valid = true ∧ showCard c7 = [55, 99] :=
  two_char_ascii_at_witness.2 c7 (by decide)

/-- Jack..Eight: exclusive gives J,T,9 ; inclusive J,T,9,8 -/
theorem rank_range_run_at_witness :
    rankRange 3 6 false = .ok (List.range' 3 (6 - 3))
    ∧ rankRange 3 6 true = .ok (List.range' 3 (6 + 1 - 3)) :=
  C13.rank_range_run 3 6 (by decide) (by decide) (by decide)
example : rankRange 3 6 false = .ok [3, 4, 5] ∧ rankRange 3 6 true = .ok [3, 4, 5, 6] := by decide
/-- the hypothesis `a ≤ b` matters: a reversed exclusive range panics -/
example : rankRange 6 3 false = .panic := by decide

theorem suit_range_run_at_witness :
    suitRange 1 3 false = .ok (List.range' 1 (3 - 1))
    ∧ suitRange 1 3 true = .ok (List.range' 1 (3 + 1 - 1)) :=
  C13.suit_range_run 1 3 (by decide) (by decide) (by decide)
example : suitRange 1 3 false = .ok [1, 2] ∧ suitRange 1 3 true = .ok [1, 2, 3] := by decide

/-! ### hypothesis-free statements instantiated -/

example : (allCards.map u64OfCard).length = 52 := by decide
example : cardOfU64 0 = .panic := C13.zero_word_panics
example : parseCard [55] = .err := C13.short_text_rejected.2 55

end EspadaVerif.C13.Witness
