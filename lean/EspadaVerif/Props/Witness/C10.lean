/-
Non-vacuity witnesses for `Props/C10.lean`.

Weights: the concrete `Wt` = {0, 0.5, 1, 2} with domain `wtDom` = {0, 0.5, 1} (`Witness/Common.lean`): the value 2
exists in the type but is outside the domain, so "every parsed weight lies in the domain" and "the domain is
closed under the product" are real statements about this instance.
Data: the token text `AJs+:0.5`, the range text `AKs,7d7c:0.5` with its parsed history `r₀`, the weight list
[0.5, 1, 0.5], the deal "turn 2♥, river 2♣, A♥K♥ against Q♥J♥" on the flop A♠ K♦ 7♣, and a rounding function on
the rationals (round down to a multiple of 1/2).
-/
import EspadaVerif.Props.C10
import EspadaVerif.Props.Witness.Common

set_option Elab.async false

namespace EspadaVerif.C10.Witness
open EspadaVerif TextDefs EspadaVerif.Witness

/-! ### data -/

/-- `AJs+:0.5` -/
def tokTxt : Bytes := [65, 74, 115, 43, 58, 48, 46, 53]
def tok : Token Wt := ⟨.bottomClosed (.suited 0 3), .half⟩
/-- `AKs,7d7c:0.5` -/
def txt : Bytes := [65, 75, 115, 44, 55, 100, 55, 99, 58, 48, 46, 53]
def r₀ : HandRange Wt :=
  [(⟨⟨7, 2⟩, ⟨7, 3⟩⟩, .half), (⟨⟨0, 3⟩, ⟨1, 3⟩⟩, .one), (⟨⟨0, 2⟩, ⟨1, 2⟩⟩, .one), (⟨⟨0, 1⟩, ⟨1, 1⟩⟩, .one),
   (⟨⟨0, 0⟩, ⟨1, 0⟩⟩, .one)]
def ws : List Wt := [.half, .one, .half]

def flop : List Card := [⟨0, 0⟩, ⟨1, 2⟩, ⟨7, 3⟩]
def ranges : List (List (Combo × Nat)) :=
  [[(⟨⟨2, 0⟩, ⟨2, 1⟩⟩, 2), (⟨⟨0, 1⟩, ⟨1, 1⟩⟩, 3)], [(⟨⟨3, 0⟩, ⟨4, 0⟩⟩, 1), (⟨⟨2, 1⟩, ⟨3, 1⟩⟩, 5)]]
def d₀ : Spec.Deal Nat := { turn := 49, river := 51, choice := [(1, 5, 3), (9, 13, 5)] }

/-- round down to a multiple of 1/2 (and to 1 from 1 on): monotone, fixes 0 and 1, not the identity -/
def rnd (x : Rat) : Rat := if x < 1/2 then 0 else if x < 1 then 1/2 else 1

/-! ### hypotheses hold -/

theorem tok_parses : parseToken wtText tokTxt = .ok tok := by decide +kernel
theorem txt_parses : parseRange wtText txt = .ok r₀ := by decide +kernel
theorem ws_dom : ∀ w ∈ ws, wtDom w := by decide
theorem wf : C02.WfInput flop ranges := ⟨by decide, by decide, by decide, by decide, by decide⟩
theorem d₀_mem : d₀ ∈ Spec.deals (flop.map Card.code) (C02.specEntries ranges) (46, 47) (48, 49) := by decide +kernel

theorem rnd_mono : ∀ x y : Rat, x ≤ y → rnd x ≤ rnd y := by
  intro x y h
  simp only [rnd]
  split <;> split <;> (try split) <;> (try split) <;> grind
theorem rnd_zero : rnd 0 = 0 := by decide +kernel
theorem rnd_one : rnd 1 = 1 := by decide +kernel
example : rnd (3/4) = 1/2 := by decide +kernel

/-! ### `C10_combo` -/

theorem C10_combo_at_witness : ∀ e ∈ r₀, ComboOk e.1 := C10_combo wtText txt r₀ txt_parses
/-- the same by evaluation -/
example : r₀.all (fun e => e.1.fst.valid && e.1.snd.valid && Card.lt e.1.fst e.1.snd) = true := by decide

/-! ### `C10_weight_token`, `C10_weight` -/

theorem C10_weight_token_at_witness : wtDom tok.prob :=
  C10_weight_token wtText wtDom wt_one_dom wt_parse_dom wt_parse_empty tokTxt tok tok_parses
example : tok.prob = Wt.half ∧ Wt.half ≠ Wt.two := by decide

theorem C10_weight_at_witness : ∀ e ∈ r₀, wtDom e.2 :=
  C10_weight wtText wtDom wt_one_dom wt_parse_dom wt_parse_empty txt r₀ txt_parses
example : r₀.map (·.2) = [.half, .one, .one, .one, .one] := by decide

/-- why no parsed weight can be the out-of-domain value 2, although `wtText.parseW` does read "2": the token
grammar does not let the text "2" through -/
example : wtText.parseW [50] = some Wt.two ∧ isWeightText [50] = false
    ∧ parseToken wtText [65, 75, 115, 58, 50] = .err := by decide +kernel
/-- the hypothesis `hparse` is a real restriction on a text interface: one that reads "0.5" as 2 violates it -/
example : ¬ (∀ t w, isWeightText t = true → (fun t => if t = [48, 46, 53] then some Wt.two else wtText.parseW t) t = some w
    → wtDom w) := by
  intro h
  exact h [48, 46, 53] .two (by decide) (by decide) rfl

/-! ### `C10_grammar` (an equivalence; both directions used) -/

theorem C10_grammar_at_witness : isWeightText [48, 46, 53] = true ↔
    ([48, 46, 53] = [48] ∨ (∃ ds, ds ≠ [] ∧ (∀ d ∈ ds, 48 ≤ d ∧ d ≤ 57) ∧ [48, 46, 53] = 48 :: 46 :: ds)
     ∨ [48, 46, 53] = [49] ∨ (∃ zs, zs ≠ [] ∧ (∀ z ∈ zs, z = 48) ∧ [48, 46, 53] = 49 :: 46 :: zs)) :=
  C10_grammar [48, 46, 53]
/-- right to left, with the second alternative supplied: "0.5" is a weight text -/
example : isWeightText [48, 46, 53] = true :=
  C10_grammar_at_witness.mpr (.inr (.inl ⟨[53], by simp, by simp, rfl⟩))
/-- left to right, contrapositive: "1.5" satisfies no alternative, so it is not a weight text -/
example : isWeightText [49, 46, 53] = false := by decide

/-! ### `C10_prob` -/

theorem C10_prob_at_witness : wtDom (ws.foldl wtOps.mul wtOps.one) :=
  C10_prob wtOps wtDom wtDom_one wtDom_mul ws ws_dom
example : ws.foldl wtOps.mul wtOps.one = Wt.half := by decide
/-- the closure hypothesis is needed: with the value 2 among the weights the product leaves the domain -/
example : ¬ wtDom ([Wt.two].foldl wtOps.mul wtOps.one) := by decide

/-! ### `C10_cards` -/

theorem C10_cards_at_witness :
    ∃ sd : Showdown Nat, C02.showdownOfDeal natOps flop d₀ = .ok (some sd)
      ∧ (sd.board ++ sd.players.flatMap (fun p => [p.hole.fst, p.hole.snd])).Nodup :=
  C10_cards natOps flop ranges (46, 47) (48, 49) wf d₀ d₀_mem
/-- by evaluation: the nine cards of that showdown -/
example : (match C02.showdownOfDeal natOps flop d₀ with
    | .ok (some sd) => some (sd.board ++ sd.players.flatMap (fun p => [p.hole.fst, p.hole.snd]))
    | _ => none)
    = some [⟨0, 0⟩, ⟨1, 2⟩, ⟨7, 3⟩, ⟨12, 1⟩, ⟨12, 3⟩, ⟨0, 1⟩, ⟨1, 1⟩, ⟨2, 1⟩, ⟨3, 1⟩] := by decide +kernel

/-! ### `C10_prob_rounding` -/

theorem C10_prob_rounding_at_witness : 0 ≤ rnd ((3/4 : Rat) * (3/4)) ∧ rnd ((3/4 : Rat) * (3/4)) ≤ 1 :=
  C10_prob_rounding rnd rnd_mono rnd_zero rnd_one (3/4) (3/4) (by decide +kernel) (by decide +kernel)
/-- by evaluation: 9/16 rounds to 1/2 -/
example : rnd ((3/4 : Rat) * (3/4)) = 1/2 := by decide +kernel

end EspadaVerif.C10.Witness
