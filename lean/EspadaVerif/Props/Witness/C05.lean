/-
Non-vacuity witnesses for `Props/C05.lean`.

Weights: the concrete `Wt` = {0, 0.5, 1, 2} with text interface `wtText` of `Witness/Common.lean`
(`wt_parse_empty` is the hypothesis `wt.parseW [] = none`).
Data:
* the token `AJs+` (`pairPlus 0 3 true`: AKs, AQs, AJs = 12 combos) with the suffix `:0.5`;
* the list  ` KK+:0.5, AKs,AsKs:0 ,7d7c:0.5 `  (spaces included): a run of pocket pairs at weight 0.5, the four
  suited ace-kings at weight 1, then A♠K♠ again at weight 0 (an OVERLAP: the later token must win), and the
  single combo 7♦7♣ at weight 0.5.
-/
import EspadaVerif.Props.C05
import EspadaVerif.Props.Witness.Common

set_option Elab.async false

namespace EspadaVerif.C05.Witness
open EspadaVerif Spec TextDefs EspadaVerif.Witness

/-! ### data -/

/-- `AJs+` -/
def tok₁ : WfToken := .pairPlus 0 3 true
/-- `:0.5` -/
def suf₁ : Bytes := [58, 48, 46, 53]

/-- `KK+:0.5`, `AKs`, `AsKs:0`, `7d7c:0.5` -/
def toks : List (WfToken × Bytes) :=
  [(.pocketPlus 1, [58, 48, 46, 53]), (.pair 0 1 true, []), (.cards 0 4, [58, 48]), (.cards 30 31, [58, 48, 46, 53])]

/-- ` KK+:0.5, AKs,AsKs:0 ,7d7c:0.5 ` -/
def txt : Bytes :=
  [32, 75, 75, 43, 58, 48, 46, 53, 44, 32, 65, 75, 115, 44, 65, 115, 75, 115, 58, 48, 32, 44,
   55, 100, 55, 99, 58, 48, 46, 53, 32]

def asks : Combo := ⟨⟨0, 0⟩, ⟨1, 0⟩⟩   -- A♠K♠
def ahkh : Combo := ⟨⟨0, 1⟩, ⟨1, 1⟩⟩   -- A♥K♥
def kskh : Combo := ⟨⟨1, 0⟩, ⟨1, 1⟩⟩   -- K♠K♥
def c7d7c : Combo := ⟨⟨7, 2⟩, ⟨7, 3⟩⟩  -- 7♦7♣
def c2s2h : Combo := ⟨⟨12, 0⟩, ⟨12, 1⟩⟩ -- 2♠2♥ (not in the range)

/-! ### hypotheses hold -/

theorem tok₁_wf : tok₁.wf = true := by decide
theorem suf₁_ok : SuffixOk suf₁ := Or.inr ⟨[48, 46, 53], rfl, by decide⟩
theorem toks_ok : ∀ p ∈ toks, p.1.wf = true ∧ SuffixOk p.2 := by
  intro p hp
  simp only [toks, List.mem_cons, List.not_mem_nil, or_false] at hp
  rcases hp with rfl | rfl | rfl | rfl
  · exact ⟨by decide, Or.inr ⟨[48, 46, 53], rfl, by decide⟩⟩
  · exact ⟨by decide, Or.inl rfl⟩
  · exact ⟨by decide, Or.inr ⟨[48], rfl, by decide⟩⟩
  · exact ⟨by decide, Or.inr ⟨[48, 46, 53], rfl, by decide⟩⟩
theorem txt_is_list : stripSpaces txt = joinCommas (toks.map fun p => p.1.text ++ p.2) := by decide
/-- the stripped text: `KK+:0.5,AKs,AsKs:0,7d7c:0.5` -/
example : stripSpaces txt
    = [75, 75, 43, 58, 48, 46, 53, 44, 65, 75, 115, 44, 65, 115, 75, 115, 58, 48, 44, 55, 100, 55, 99, 58, 48, 46, 53] := by
  decide
theorem combos_ok : ComboOk asks ∧ ComboOk ahkh ∧ ComboOk kskh ∧ ComboOk c7d7c ∧ ComboOk c2s2h :=
  ⟨⟨by decide, by decide, by decide⟩, ⟨by decide, by decide, by decide⟩, ⟨by decide, by decide, by decide⟩,
   ⟨by decide, by decide, by decide⟩, ⟨by decide, by decide, by decide⟩⟩
/-- `SuffixOk` is a real restriction: `:2` and `:.5` are not weight suffixes -/
example : ¬ SuffixOk [58, 50] ∧ ¬ SuffixOk [58, 46, 53] := by
  constructor <;>
  · rintro (h | ⟨w, h, hw⟩)
    · cases h
    · cases h; revert hw; decide

/-! ### `C05_token` -/

theorem C05_token_at_witness :
    ∃ tok es, parseToken wtText (tok₁.text ++ suf₁) = .ok tok ∧ tok.expand = .ok es
      ∧ (C05.codesOf es).Perm tok₁.denote ∧ (C05.codesOf es).Nodup ∧ ∀ e ∈ es, e.2 = suffixWeight wtText suf₁ :=
  C05.C05_token wtText wt_parse_empty tok₁ tok₁_wf suf₁ suf₁_ok

/-- cross-check by evaluation: the text is `AJs+:0.5`, it parses to "suited ace, kickers down to the jack" at
weight 0.5, which expands to the twelve combos the notation denotes -/
example : tok₁.text ++ suf₁ = [65, 74, 115, 43, 58, 48, 46, 53] := by decide
theorem parse_tok₁ : parseToken wtText (tok₁.text ++ suf₁) = .ok ⟨.bottomClosed (.suited 0 3), .half⟩ := by
  decide +kernel
theorem expand_tok₁ :
    (match (⟨.bottomClosed (.suited 0 3), .half⟩ : Token Wt).expand with
     | .ok es => some (C05.codesOf es, es.map (·.2))
     | _ => none)
    = some ([(0, 4), (1, 5), (2, 6), (3, 7), (0, 8), (1, 9), (2, 10), (3, 11), (0, 12), (1, 13), (2, 14), (3, 15)],
            List.replicate 12 Wt.half) := by decide +kernel
example : tok₁.denote
    = [(0, 4), (1, 5), (2, 6), (3, 7), (0, 8), (1, 9), (2, 10), (3, 11), (0, 12), (1, 13), (2, 14), (3, 15)] := by decide
example : suffixWeight wtText suf₁ = Wt.half ∧ suffixWeight wtText [] = Wt.one := by decide

/-- without a suffix the weight is 1 (this is where `wt.parseW [] = none` is used) -/
theorem C05_token_no_suffix :
    ∃ tok es, parseToken wtText (tok₁.text ++ []) = .ok tok ∧ tok.expand = .ok es
      ∧ (C05.codesOf es).Perm tok₁.denote ∧ (C05.codesOf es).Nodup ∧ ∀ e ∈ es, e.2 = suffixWeight wtText [] :=
  C05.C05_token wtText wt_parse_empty tok₁ tok₁_wf [] (Or.inl rfl)
example : parseToken wtText (tok₁.text ++ []) = .ok ⟨.bottomClosed (.suited 0 3), .one⟩ := by decide +kernel

/-! ### `C05_list` -/

theorem C05_list_at_witness :
    ∃ r, parseRange wtText txt = .ok r
      ∧ ∀ c : Combo, ComboOk c → r.lookup c = C05.lastWeight wtText toks (comboCodes c) :=
  C05.C05_list wtText wt_parse_empty toks toks_ok txt txt_is_list

/-- closed consequence at five combos: the overlap A♠K♠ takes the LATER weight 0, the other suited ace-kings
keep 1, the kings and 7♦7♣ have 0.5, the deuces are absent -/
theorem C05_list_closed :
    ∃ r, parseRange wtText txt = .ok r
      ∧ r.lookup asks = some .zero ∧ r.lookup ahkh = some .one ∧ r.lookup kskh = some .half
      ∧ r.lookup c7d7c = some .half ∧ r.lookup c2s2h = none := by
  obtain ⟨r, hr, h⟩ := C05_list_at_witness
  obtain ⟨h1, h2, h3, h4, h5⟩ := combos_ok
  refine ⟨r, hr, ?_, ?_, ?_, ?_, ?_⟩
  · rw [h asks h1]; decide
  · rw [h ahkh h2]; decide
  · rw [h kskh h3]; decide
  · rw [h c7d7c h4]; decide
  · rw [h c2s2h h5]; decide

/-- cross-check: the model's parser run by the kernel on the text, then asked the same five questions
(no use of `C05_list`) -/
theorem parse_eval :
    (match parseRange wtText txt with
     | .ok r => some (r.length, [r.lookup asks, r.lookup ahkh, r.lookup kskh, r.lookup c7d7c, r.lookup c2s2h])
     | _ => none)
    = some (18, [some .zero, some .one, some .half, some .half, none]) := by decide +kernel

/-- the empty list of tokens: the empty range -/
theorem C05_list_at_nil : ∃ r, parseRange wtText [32, 32] = .ok r
    ∧ ∀ c : Combo, ComboOk c → r.lookup c = C05.lastWeight wtText [] (comboCodes c) :=
  C05.C05_list wtText wt_parse_empty [] (by simp) [32, 32] (by decide)

/-! ### `C05_empty` -/

theorem C05_empty_at_witness : parseRange wtText [32, 32, 32] = .ok [] :=
  C05.C05_empty wtText [32, 32, 32] (by decide)
example : parseRange wtText [32, 32, 32] = .ok [] := by decide +kernel
example : parseRange wtText [] = .ok [] := C05.C05_empty wtText [] (by simp)

end EspadaVerif.C05.Witness
