/-
Shared material of the non-vacuity witnesses (`Props/Witness/Cxx.lean`).

1. A small concrete weight type `Wt` = {0, 0.5, 1, 2} with text conversion (`wtText : WText Wt`), a weight
   domain `wtDom` = {0, 0.5, 1} (the value 2 is a real value of the type that lies OUTSIDE the domain, so
   that "parses into the domain" and "the domain is closed under the product" are not trivially true), a
   product `wtOps`, and the proof that the assumption bundle `TextDefs.WTextOk` — which the text-side
   properties take as a hypothesis about `f32` — is satisfiable: `wtextOk`, `wtextOk_inhabited`.
2. `natOps`: natural numbers under multiplication, for the theorems that only need a `WOps`.
3. Evaluation helpers for the poker specification: `Spec.best` / `Spec.bestStrength` go through
   `List.mergeSort`, which the kernel cannot unfold; on rank-sorted cards they equal sort-free forms
   that `decide +kernel` evaluates.

Imports only Model / Spec / Lemmas files.
-/
import EspadaVerif.Model.Iter
import EspadaVerif.Spec.Deals
import EspadaVerif.Lemmas.TextDefs
import EspadaVerif.Lemmas.ListAux

namespace EspadaVerif.Witness
open EspadaVerif

/-! ### 1. a concrete weight type -/

/-- four weights: 0, 0.5, 1 (the domain) and 2 (outside the domain) -/
inductive Wt where
  | zero | half | one | two
  deriving DecidableEq, Repr, Inhabited

namespace Wt

/-- `Display`: "0", "0.5", "1", "2" -/
def showW : Wt → Bytes
  | zero => [48]
  | half => [48, 46, 53]
  | one => [49]
  | two => [50]

/-- `FromStr`: the four printed forms, and a few more spellings of the same numbers ("0.0", "0.50",
"1.0", "1.00"); every other text — in particular the empty one — is not a number -/
def parseW : Bytes → Option Wt
  | [48] => some zero
  | [48, 46, 48] => some zero
  | [48, 46, 53] => some half
  | [48, 46, 53, 48] => some half
  | [49] => some one
  | [49, 46, 48] => some one
  | [49, 46, 48, 48] => some one
  | [50] => some two
  | _ => none

/-- order 0 < 0.5 < 2 < 1 used only to define an associative product with neutral element 1 -/
def key : Wt → Nat
  | zero => 0
  | half => 1
  | two => 2
  | one => 3

/-- a product: the smaller key wins (so 1 is neutral, 0 absorbing, and {0, 0.5, 1} is closed) -/
def mul (a b : Wt) : Wt := if a.key ≤ b.key then a else b

theorem mul_assoc (a b c : Wt) : mul (mul a b) c = mul a (mul b c) := by
  cases a <;> cases b <;> cases c <;> rfl
theorem mul_comm (a b : Wt) : mul a b = mul b a := by
  cases a <;> cases b <;> rfl
theorem one_mul (a : Wt) : mul one a = a := by cases a <;> rfl
theorem mul_one (a : Wt) : mul a one = a := by cases a <;> rfl

end Wt

/-- the text interface of the concrete weights -/
def wtText : WText Wt :=
  { one := .one, eq := fun a b => decide (a = b), showW := Wt.showW, parseW := Wt.parseW }

/-- the weight domain: 0, 0.5 and 1, not 2 -/
def wtDom (w : Wt) : Prop := w ≠ .two

instance : DecidablePred wtDom := fun w => inferInstanceAs (Decidable (w ≠ .two))

/-- the product on the concrete weights -/
def wtOps : WOps Wt := { one := .one, mul := Wt.mul }

theorem wtDom_one : wtDom wtOps.one := by decide
theorem wtDom_mul (a b : Wt) (ha : wtDom a) (hb : wtDom b) : wtDom (wtOps.mul a b) := by
  cases a <;> cases b <;> first | decide | exact absurd rfl ha | exact absurd rfl hb
/-- the closure statement is not trivial: outside the domain the product can stay outside -/
theorem wtDom_not_all : ¬ wtDom (wtOps.mul .two .two) := by decide

/-- **the `f32` assumption bundle is satisfiable** (all six fields), on a domain that is neither everything
nor just {1} -/
theorem wtextOk : TextDefs.WTextOk wtText wtDom where
  eq_iff := by
    intro a b _ _
    simp [wtText]
  one_dom := by decide
  show_grammar := by
    intro w hd hne
    cases w
    · decide
    · decide
    · exact absurd rfl hne
    · exact absurd rfl hd
  roundtrip := by
    intro w _
    cases w <;> rfl
  parse_dom := by
    intro t w ht hp
    simp only [wtText] at hp
    unfold Wt.parseW at hp
    split at hp
    all_goals first
      | (cases hp; decide)
      | (exact absurd ht (by decide))
      | cases hp
  parse_empty := rfl

theorem wtextOk_inhabited :
    ∃ (W : Type) (wt : WText W) (inDom : W → Prop), TextDefs.WTextOk wt inDom ∧ ∃ w, inDom w ∧ w ≠ wt.one :=
  ⟨Wt, wtText, wtDom, wtextOk, .half, by decide, by decide⟩

/-- the three separate hypotheses some theorems take instead of the bundle -/
theorem wt_parse_empty : wtText.parseW [] = none := rfl
theorem wt_parse_dom : ∀ t w, isWeightText t = true → wtText.parseW t = some w → wtDom w := wtextOk.parse_dom
theorem wt_one_dom : wtDom wtText.one := wtextOk.one_dom

/-! ### 2. natural-number weights -/

/-- `Nat` under multiplication -/
def natOps : WOps Nat := { one := 1, mul := (· * ·) }

/- decidable equality for the records the iterator theorems speak about, so that concrete runs can be
compared by `decide` (new instances only; the structures themselves are untouched) -/
deriving instance DecidableEq for Showdown
deriving instance DecidableEq for IterState
deriving instance DecidableEq for Spec.Deal
deriving instance DecidableEq for Token

/-! ### 3. evaluating the poker specification on rank-sorted cards -/

open Spec Kernel Lemmas

/-- class of five cards whose ranks are already sorted (no sorting step) -/
def class5s (S : List (Nat × Nat)) : Nat :=
  if allSameSuit S then sclassL (S.map (·.1)) else uclassL (S.map (·.1))

/-- rule-book strength of five cards whose ranks are already sorted -/
def strength5s (S : List (Nat × Nat)) : Nat :=
  match S.map (·.1) with
  | [a, b, c, d, e] => strength (allSameSuit S) a b c d e
  | _ => 0

def bestS (X : List (Nat × Nat)) : Nat := minList ((choose 5 X).map class5s)
def bestStrengthS (X : List (Nat × Nat)) : Nat := ((choose 5 X).map strength5s).foldl max 0

theorem strength5_of_sorted (S : List (Nat × Nat)) (hs : (S.map (·.1)).Pairwise (· ≤ ·)) :
    strength5 S = strength5s S := by
  unfold strength5 strength5s
  rw [sortRanks_of_sorted hs]
  generalize S.map (·.1) = R
  rcases R with _ | ⟨a, _ | ⟨b, _ | ⟨c, _ | ⟨d, _ | ⟨e, _ | ⟨f, t⟩⟩⟩⟩⟩⟩ <;> rfl

theorem sorted_of_mem_choose {X S : List (Nat × Nat)} (hs : (X.map (·.1)).Pairwise (· ≤ ·))
    (hS : S ∈ choose 5 X) : S.length = 5 ∧ (S.map (·.1)).Pairwise (· ≤ ·) := by
  obtain ⟨hsub, hl⟩ := sublist_of_mem_choose hS
  exact ⟨hl, hs.sublist (hsub.map _)⟩

/-- on rank-sorted cards `Spec.best` is the sort-free `bestS` -/
theorem best_sorted (X : List (Nat × Nat)) (hs : (X.map (·.1)).Pairwise (· ≤ ·)) : best X = bestS X := by
  unfold best bestS
  congr 1
  apply List.map_congr_left
  intro S hS
  obtain ⟨hl, hss⟩ := sorted_of_mem_choose hs hS
  exact class5_of_sorted S hl hss

/-- on rank-sorted cards `Spec.bestStrength` is the sort-free `bestStrengthS` -/
theorem bestStrength_sorted (X : List (Nat × Nat)) (hs : (X.map (·.1)).Pairwise (· ≤ ·)) :
    bestStrength X = bestStrengthS X := by
  unfold bestStrength bestStrengthS
  congr 1
  apply List.map_congr_left
  intro S hS
  exact strength5_of_sorted S (sorted_of_mem_choose hs hS).2

/-- Boolean form of "sorted by rank" that `decide` evaluates -/
def rankSorted : List Nat → Bool
  | a :: b :: t => decide (a ≤ b) && rankSorted (b :: t)
  | _ => true

theorem pairwise_of_rankSorted : ∀ (l : List Nat), rankSorted l = true → l.Pairwise (· ≤ ·)
  | [], _ => List.Pairwise.nil
  | [_], _ => by simp
  | a :: b :: t, h => by
    simp only [rankSorted, Bool.and_eq_true, decide_eq_true_eq] at h
    have ih := pairwise_of_rankSorted (b :: t) h.2
    refine List.Pairwise.cons ?_ ih
    intro x hx
    rcases List.mem_cons.mp hx with rfl | hx
    · exact h.1
    · exact Nat.le_trans h.1 (List.rel_of_pairwise_cons ih hx)

end EspadaVerif.Witness
