/-
Sanity instances for `Props/C15.lean`.

`C15_interleave` has no hypotheses (it is a universally quantified equation), so there is nothing to be
vacuous about; it is instantiated at three live iterators on the flop A♠ K♦ 7♣ with different ranges and
scopes, under a schedule that interleaves them unevenly, and both sides are also computed by the kernel.
-/
import EspadaVerif.Props.C15
import EspadaVerif.Props.Witness.Common

set_option Elab.async false

namespace EspadaVerif.C15.Witness
open EspadaVerif EspadaVerif.Witness

/-! ### data -/

def flop : List Card := [⟨0, 0⟩, ⟨1, 2⟩, ⟨7, 3⟩]
def deck : List Card := allCards.filter fun c => !flop.contains c
def board : List (Option Card) := flop.map some ++ [none, none]

def rangesA : List (List (Combo × Nat)) :=
  [[(⟨⟨2, 0⟩, ⟨2, 1⟩⟩, 2), (⟨⟨0, 1⟩, ⟨1, 1⟩⟩, 3)], [(⟨⟨3, 0⟩, ⟨4, 0⟩⟩, 1), (⟨⟨2, 1⟩, ⟨3, 1⟩⟩, 5)]]
def rangesB : List (List (Combo × Nat)) :=
  [[(⟨⟨1, 0⟩, ⟨1, 1⟩⟩, 7)], [(⟨⟨12, 0⟩, ⟨12, 1⟩⟩, 4), (⟨⟨5, 2⟩, ⟨6, 2⟩⟩, 9)]]

/-- instance 0: ranges A from position (46,47) to the end -/
def s0 : IterState Nat :=
  { turnTo := 48, riverTo := 49, entries := rangesA, deck := deck, board := board, t := 46, r := 47, idx := [0, 0] }
/-- instance 1: ranges B from position (46,48) to the end; its first choice there is blocked (2♥ is the turn
and player 2's first combo is 2♠2♥), so its first `next()` skips -/
def s1 : IterState Nat :=
  { turnTo := 48, riverTo := 49, entries := rangesB, deck := deck, board := board, t := 46, r := 48, idx := [0, 0] }
/-- every other instance: ranges A, already exhausted -/
def s2 : IterState Nat :=
  { turnTo := 48, riverTo := 49, entries := rangesA, deck := deck, board := board, t := 48, r := 49, idx := [0, 0] }

def states : Nat → IterState Nat
  | 0 => s0
  | 1 => s1
  | _ => s2

def sched : List Nat := [0, 1, 1, 0, 2, 0, 1, 0, 1]

/-- the states are what `into_iter` produces for evaluators scoped that way -/
example : ({ board := board, ranges := rangesA, turnFrom := 46, riverFrom := 47, turnTo := 48, riverTo := 49 }
    : Evaluator Nat).intoIter = .ok s0 := by decide +kernel
example : ({ board := board, ranges := rangesB, turnFrom := 46, riverFrom := 48, turnTo := 48, riverTo := 49 }
    : Evaluator Nat).intoIter = .ok s1 := by decide +kernel

/-! ### `C15_interleave` at the data -/

theorem C15_interleave_at_witness₀ :
    ((C15.interleaved natOps states sched).filter (fun x => x.1 == 0)).map (·.2) = C15.solo natOps 4 s0 :=
  C15.C15_interleave natOps sched states 0

theorem C15_interleave_at_witness₁ :
    ((C15.interleaved natOps states sched).filter (fun x => x.1 == 1)).map (·.2) = C15.solo natOps 4 s1 :=
  C15.C15_interleave natOps sched states 1

theorem C15_interleave_at_witness₂ :
    ((C15.interleaved natOps states sched).filter (fun x => x.1 == 2)).map (·.2) = C15.solo natOps 1 s2 :=
  C15.C15_interleave natOps sched states 2

/-! ### both sides computed -/

/-- what the instances return alone: probabilities of the showdowns (`none` once exhausted) -/
def probs (l : List (Res (Option (Showdown Nat)))) : List (Option Nat) :=
  l.map fun r => match r with
    | .ok (some sd) => some sd.prob
    | _ => none

theorem solo0_eval : probs (C15.solo natOps 4 s0) = [some 2, some 3, some 15, some 2] := by decide +kernel
theorem solo1_eval : probs (C15.solo natOps 4 s1) = [some 63, some 28, some 63, none] := by decide +kernel

/-- the interleaved run, computed directly: tags and probabilities in schedule order -/
theorem interleaved_eval :
    (C15.interleaved natOps states sched).map (fun x => (x.1, (probs [x.2]).head!))
      = [(0, some 2), (1, some 63), (1, some 28), (0, some 3), (2, none), (0, some 15), (1, some 63), (0, some 2),
         (1, none)] := by
  decide +kernel

/-- the equation of `C15_interleave_at_witness₀`, checked by evaluating both sides in full -/
example : ((C15.interleaved natOps states sched).filter (fun x => x.1 == 0)).map (·.2) = C15.solo natOps 4 s0 := by
  decide +kernel

example : Gen.sharedStateHits = [] := C15.C15_no_shared_state

end EspadaVerif.C15.Witness
