/-
Non-vacuity witnesses for `Props/C03.lean`.

Data: board A♠ K♦ 7♣ 9♠ 2♠; probability 6 in `Nat`;
* `ps`  : K♥K♣ (three kings, 1679), Q♠J♠ (spade flush, 501), Q♥J♦ (ace high, 6186) — one winner, not the
  first player;
* `ps₂` : Q♥J♦ (6186), 8♥3♦ (6294), Q♦J♣ (6186) — a split pot between players 0 and 2;
* `ps₃` : Q♠J♠ and A♠Q♥ — the second player holds the A♠ that lies on the board (collision).
-/
import EspadaVerif.Props.C03

set_option Elab.async false

namespace EspadaVerif.C03.Witness
open EspadaVerif Spec

/-! ### data -/

def board : List Card := [⟨0, 0⟩, ⟨1, 2⟩, ⟨7, 3⟩, ⟨5, 0⟩, ⟨12, 0⟩]
def ps : List Combo := [⟨⟨1, 1⟩, ⟨1, 3⟩⟩, ⟨⟨2, 0⟩, ⟨3, 0⟩⟩, ⟨⟨2, 1⟩, ⟨3, 2⟩⟩]
def ps₂ : List Combo := [⟨⟨2, 1⟩, ⟨3, 2⟩⟩, ⟨⟨6, 1⟩, ⟨11, 2⟩⟩, ⟨⟨2, 2⟩, ⟨3, 3⟩⟩]
def ps₃ : List Combo := [⟨⟨2, 0⟩, ⟨3, 0⟩⟩, ⟨⟨0, 0⟩, ⟨2, 1⟩⟩]
def prob : Nat := 6

def players : List ShowdownPlayer :=
  [⟨⟨⟨1, 1⟩, ⟨1, 3⟩⟩, 1679, false⟩, ⟨⟨⟨2, 0⟩, ⟨3, 0⟩⟩, 501, true⟩, ⟨⟨⟨2, 1⟩, ⟨3, 2⟩⟩, 6186, false⟩]
def players₂ : List ShowdownPlayer :=
  [⟨⟨⟨2, 1⟩, ⟨3, 2⟩⟩, 6186, true⟩, ⟨⟨⟨6, 1⟩, ⟨11, 2⟩⟩, 6294, false⟩, ⟨⟨⟨2, 2⟩, ⟨3, 3⟩⟩, 6186, true⟩]

/-- what can be compared by evaluation (`Showdown W` has no decidable equality) -/
def view {W : Type} : Res (Option (Showdown W)) → Option (List Card × List ShowdownPlayer × W)
  | .ok (some sd) => some (sd.board, sd.players, sd.prob)
  | _ => none

def isOkNone {α : Type} : Res (Option α) → Bool
  | .ok none => true
  | _ => false

theorem isOkNone_iff {α : Type} (r : Res (Option α)) : isOkNone r = true ↔ r = .ok none := by
  cases r with
  | ok o => cases o <;> simp [isOkNone]
  | err => simp [isOkNone]
  | panic => simp [isOkNone]

/-! ### hypotheses hold -/

theorem wf : WfTable board ps := ⟨by decide, by decide, by decide, by decide⟩
theorem wf₂ : WfTable board ps₂ := ⟨by decide, by decide, by decide, by decide⟩
theorem wf₃ : WfTable board ps₃ := ⟨by decide, by decide, by decide, by decide⟩
theorem no_collision : ∀ p ∈ ps, collides board p = false := by decide
theorem no_collision₂ : ∀ p ∈ ps₂, collides board p = false := by decide
theorem collision₃ : ∃ p ∈ ps₃, collides board p = true := ⟨⟨⟨0, 0⟩, ⟨2, 1⟩⟩, by decide, by decide⟩

/-! ### direct evaluation of the model -/

theorem showdown_eval : view (showdownNew ps board prob) = some (board, players, 6) := by decide +kernel
theorem showdown_eval₂ : view (showdownNew ps₂ board prob) = some (board, players₂, 6) := by decide +kernel
theorem showdown_eval₃ : isOkNone (showdownNew ps₃ board prob) = true := by decide +kernel

theorem players_of_eval {sd : Showdown Nat} {l : List ShowdownPlayer} {qs : List Combo}
    (h : showdownNew qs board prob = .ok (some sd))
    (e : view (showdownNew qs board prob) = some (board, l, 6)) : sd.players = l := by
  rw [h] at e
  simp only [view, Option.some.injEq, Prod.mk.injEq] at e
  exact e.2.1

/-! ### `C03_none_iff` -/

theorem C03_none_iff_at_witness :
    showdownNew ps₃ board prob = .ok none ↔ ∃ p ∈ ps₃, collides board p = true :=
  C03_none_iff board ps₃ prob wf₃

/-- closed consequence (right to left): the collision gives no showdown -/
theorem C03_none_closed : showdownNew ps₃ board prob = .ok none := C03_none_iff_at_witness.mpr collision₃
/-- the same by evaluation -/
example : showdownNew ps₃ board prob = .ok none := (isOkNone_iff _).mp showdown_eval₃

/-- closed consequence (left to right, contrapositive) on the collision-free table: a showdown is not refused -/
theorem C03_none_closed' : showdownNew ps board prob ≠ .ok none := by
  intro h
  obtain ⟨p, hp, hc⟩ := (C03_none_iff board ps prob wf).mp h
  rw [no_collision p hp] at hc
  cases hc
example : isOkNone (showdownNew ps board prob) = false := by decide +kernel

/-! ### `C03_some` -/

theorem C03_some_at_witness :
    ∃ sd : Showdown Nat, showdownNew ps board prob = .ok (some sd)
      ∧ sd.board = board ∧ sd.prob = prob
      ∧ sd.players.map (·.hole) = ps
      ∧ (∀ pl ∈ sd.players, eval7 (sevenCards pl.hole board) = .ok pl.hand
            ∧ pl.hand = best ((sevenCards pl.hole board).map C01.toSpec))
      ∧ sd.players.map (·.win) = winnersOf (sd.players.map (·.hand))
      ∧ (ps.length ≤ 255 → ∀ dbg, winnerLen sd dbg = .ok (sd.players.countP (·.win)))
      ∧ (ps ≠ [] → 1 ≤ sd.players.countP (·.win)) :=
  C03_some board ps prob wf no_collision

/-- closed form: the showdown that exists is the evaluated one; with all side hypotheses discharged -/
theorem C03_some_closed :
    ∃ sd : Showdown Nat, showdownNew ps board prob = .ok (some sd) ∧ sd.players = players
      ∧ players.map (·.hole) = ps
      ∧ (∀ pl ∈ players, eval7 (sevenCards pl.hole board) = .ok pl.hand
            ∧ pl.hand = best ((sevenCards pl.hole board).map C01.toSpec))
      ∧ players.map (·.win) = winnersOf [1679, 501, 6186]
      ∧ (∀ dbg, winnerLen sd dbg = .ok 1) := by
  obtain ⟨sd, h, _, _, h3, h4, h5, h6, _⟩ := C03_some_at_witness
  have hp := players_of_eval h showdown_eval
  rw [hp] at h3 h4 h5 h6
  exact ⟨sd, h, hp, h3, h4, h5, h6 (by decide)⟩

/-- cross-check of the flags by evaluating the specification: only the flush wins -/
example : winnersOf [1679, 501, 6186] = [false, true, false] ∧ players.map (·.win) = [false, true, false] := by decide
/-- cross-check of the evaluations by running the evaluator on each player's own seven cards -/
example : players.all (fun pl => eval7 (sevenCards pl.hole board) == .ok pl.hand) = true := by decide +kernel

/-- the split pot -/
theorem C03_some_at_witness₂ :
    ∃ sd : Showdown Nat, showdownNew ps₂ board prob = .ok (some sd) ∧ sd.players = players₂
      ∧ players₂.map (·.win) = winnersOf [6186, 6294, 6186]
      ∧ winnerLen sd true = .ok 2 ∧ 1 ≤ players₂.countP (·.win) := by
  obtain ⟨sd, h, _, _, _, _, h5, h6, h7⟩ := C03_some board ps₂ prob wf₂ no_collision₂
  have hp := players_of_eval h showdown_eval₂
  rw [hp] at h5 h6 h7
  exact ⟨sd, h, hp, h5, h6 (by decide) true, h7 (by decide)⟩
example : winnersOf [6186, 6294, 6186] = [true, false, true] := by decide

/-! ### `C03_winner_iff` -/

/-- the theorem with the table hypothesis discharged -/
theorem C03_winner_iff_at_witness (sd : Showdown Nat) (hsd : showdownNew ps board prob = .ok (some sd)) :
    ∀ pl ∈ sd.players, (pl.win = true ↔ ∀ pl' ∈ sd.players, pl.hand ≤ pl'.hand) :=
  C03_winner_iff board ps prob wf sd hsd

/-- closed form: its remaining hypothesis is met (by `C03_some`), and the players are the evaluated ones -/
theorem C03_winner_iff_closed :
    ∀ pl ∈ players, (pl.win = true ↔ ∀ pl' ∈ players, pl.hand ≤ pl'.hand) := by
  obtain ⟨sd, h, hp, _⟩ := C03_some_closed
  have := C03_winner_iff_at_witness sd h
  rw [hp] at this
  exact this
/-- the same by evaluation -/
example : ∀ pl ∈ players, (pl.win = true ↔ ∀ pl' ∈ players, pl.hand ≤ pl'.hand) := by decide

theorem C03_winner_iff_closed₂ :
    ∀ pl ∈ players₂, (pl.win = true ↔ ∀ pl' ∈ players₂, pl.hand ≤ pl'.hand) := by
  obtain ⟨sd, h, hp, _⟩ := C03_some_at_witness₂
  have := C03_winner_iff board ps₂ prob wf₂ sd h
  rw [hp] at this
  exact this

/-! ### the helper `eval_own_seven` -/

theorem eval_own_seven_at_witness :
    eval7 (sevenCards ⟨⟨2, 0⟩, ⟨3, 0⟩⟩ board) = .ok (best ((sevenCards ⟨⟨2, 0⟩, ⟨3, 0⟩⟩ board).map C01.toSpec)) :=
  eval_own_seven board ⟨⟨2, 0⟩, ⟨3, 0⟩⟩ (by decide) (by decide) (by decide) (by decide) (by decide)

end EspadaVerif.C03.Witness
