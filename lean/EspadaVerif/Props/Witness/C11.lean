/-
Non-vacuity witnesses for `Props/C11.lean`.

Data: the suit relabelling `σ` = spade → heart → diamond → spade, club fixed (a 3-cycle, not the identity);
flop A♠ K♦ 7♣ (codes 0, 6, 31); three players with weighted ranges in `Nat`
(Q♠Q♥ ×2, A♥K♥ ×3 | J♠T♠ ×1, Q♥J♥ ×5 | 8♦8♣ ×4); the seven cards A♠ K♦ Q♠ J♠ 9♠ 7♣ 2♠ (a spade flush).

`Spec.tally` ranges over the whole enumeration and goes through `Spec.best` (whose `List.mergeSort` the kernel
cannot unfold), so the two tally theorems are instantiated (hypotheses discharged, closed conclusion) but not
re-evaluated; the per-hand and per-deal statements are cross-checked by evaluation.
-/
import EspadaVerif.Props.C11
import EspadaVerif.Props.Witness.Common

set_option Elab.async false

namespace EspadaVerif.C11.Witness
open EspadaVerif Spec EspadaVerif.Witness

/-! ### data -/

/-- spade → heart → diamond → spade, club ↦ club -/
def σ (s : Nat) : Nat := [1, 2, 0, 3].getD s s

def flopCodes : List Nat := [0, 6, 31]
def entries : List (List (Nat × Nat × Nat)) :=
  [[(8, 9, 2), (1, 5, 3)], [(12, 16, 1), (9, 13, 5)], [(26, 27, 4)]]
def seven : List Nat := [0, 6, 8, 12, 20, 31, 48]

def flop : List Card := [⟨0, 0⟩, ⟨1, 2⟩, ⟨7, 3⟩]
def ranges : List (List (Combo × Nat)) :=
  [[(⟨⟨2, 0⟩, ⟨2, 1⟩⟩, 2), (⟨⟨0, 1⟩, ⟨1, 1⟩⟩, 3)], [(⟨⟨3, 0⟩, ⟨4, 0⟩⟩, 1), (⟨⟨2, 1⟩, ⟨3, 1⟩⟩, 5)]]
/-- turn 2♥, river 2♣, A♥K♥ against Q♥J♥ -/
def d₀ : Deal Nat := { turn := 49, river := 51, choice := [(1, 5, 3), (9, 13, 5)] }

/-! ### hypotheses hold -/

theorem σ_perm : SuitPerm σ := by
  refine ⟨by decide, ?_⟩
  intro s t hs ht h
  have key : ∀ s, s < 4 → ∀ t, t < 4 → σ s = σ t → s = t := by decide
  exact key s hs t ht h
/-- `σ` is not the identity: A♠ (0) becomes A♥ (1), K♦ (6) becomes K♠ (4), 7♣ stays -/
example : flopCodes.map (relabel σ) = [1, 4, 31] := by decide
example : relabelEntries σ entries = [[(9, 10, 2), (2, 6, 3)], [(13, 17, 1), (10, 14, 5)], [(24, 27, 4)]] := by decide

theorem wf_spec : WfSpecInput flopCodes entries := ⟨by decide, by decide, by decide, by decide⟩
theorem seven_lt : ∀ c ∈ seven, c < 52 := by decide
theorem swap_ok : 1 + 1 < entries.length := by decide
theorem d₀_players : d₀.choice ≠ [] := by decide
theorem wf_model : C02.WfInput flop ranges := ⟨by decide, by decide, by decide, by decide, by decide⟩
theorem d₀_mem : d₀ ∈ deals (flop.map Card.code) (C02.specEntries ranges) (46, 47) (48, 49) := by decide +kernel

/-! ### `C11_best_suit` -/

theorem C11_best_suit_at_witness :
    best ((seven.map (relabel σ)).map cardOfCode) = best (seven.map cardOfCode) :=
  C11_best_suit σ σ_perm seven seven_lt

/-- cross-check: both sides evaluated (the cards are in rank order, so the sort-free form applies): the spade
flush and its image, a heart flush, are both class 501 -/
theorem best_seven : best (seven.map cardOfCode) = 501 := by
  rw [best_sorted _ (pairwise_of_rankSorted _ (by decide))]; decide +kernel
theorem best_seven_relabelled : best ((seven.map (relabel σ)).map cardOfCode) = 501 := by
  rw [best_sorted _ (pairwise_of_rankSorted _ (by decide))]; decide +kernel
example : seven.map (relabel σ) = [1, 4, 9, 13, 21, 31, 49] := by decide

/-- the hypothesis is a real restriction: a map that merges two suits (diamond ↦ spade) is no `SuitPerm` -/
example : ¬ SuitPerm (fun s => if s = 2 then 0 else s) := by
  intro h
  have := h.2 0 2 (by decide) (by decide) (by decide)
  cases this

/-! ### `C11_suits`, `C11_players` -/

theorem C11_suits_at_witness (p k : Nat) :
    tally (flopCodes.map (relabel σ)) (relabelEntries σ entries) p k = tally flopCodes entries p k :=
  C11_suits σ σ_perm flopCodes entries wf_spec p k

/-- closed instance: player 0's outright wins, and player 2's two-way ties -/
theorem C11_suits_closed :
    tally [1, 4, 31] [[(9, 10, 2), (2, 6, 3)], [(13, 17, 1), (10, 14, 5)], [(24, 27, 4)]] 0 1
      = tally [0, 6, 31] [[(8, 9, 2), (1, 5, 3)], [(12, 16, 1), (9, 13, 5)], [(26, 27, 4)]] 0 1 :=
  C11_suits_at_witness 0 1

theorem C11_players_at_witness (p k : Nat) :
    tally flopCodes (swapAt 1 entries) (swapIdx 1 p) k = tally flopCodes entries p k :=
  C11_players flopCodes entries 1 swap_ok p k

/-- closed instance: after exchanging players 1 and 2, the old player 1 is found at seat 2, player 0 stays -/
theorem C11_players_closed :
    tally flopCodes [[(8, 9, 2), (1, 5, 3)], [(26, 27, 4)], [(12, 16, 1), (9, 13, 5)]] 2 1
        = tally flopCodes entries 1 1
    ∧ tally flopCodes [[(8, 9, 2), (1, 5, 3)], [(26, 27, 4)], [(12, 16, 1), (9, 13, 5)]] 0 1
        = tally flopCodes entries 0 1 :=
  ⟨C11_players_at_witness 1 1, C11_players_at_witness 0 1⟩
example : swapAt 1 entries = [[(8, 9, 2), (1, 5, 3)], [(26, 27, 4)], [(12, 16, 1), (9, 13, 5)]]
    ∧ swapIdx 1 1 = 2 ∧ swapIdx 1 2 = 1 ∧ swapIdx 1 0 = 0 := by decide
/-- the hypothesis `i + 1 < entries.length` matters: there is no player 3 to exchange player 2 with -/
example : ¬ (2 + 1 < entries.length) := by decide

/-! ### `C11_model_flags`, `C11_pot` -/

theorem C11_model_flags_at_witness :
    ∃ sd : Showdown Nat, C02.showdownOfDeal natOps flop d₀ = .ok (some sd)
      ∧ sd.players.map (·.hand) = dealHands (flop.map Card.code) d₀
      ∧ sd.players.map (·.win) = dealWins (flop.map Card.code) d₀ :=
  C11_model_flags natOps flop ranges (46, 47) (48, 49) wf_model d₀ d₀_mem

/-- the model's showdown of `d₀`, evaluated -/
theorem showdown_d₀ :
    C02.showdownOfDeal natOps flop d₀ = .ok (some
      { board := [⟨0, 0⟩, ⟨1, 2⟩, ⟨7, 3⟩, ⟨12, 1⟩, ⟨12, 3⟩],
        players := [⟨⟨⟨0, 1⟩, ⟨1, 1⟩⟩, 2473, true⟩, ⟨⟨⟨2, 1⟩, ⟨3, 1⟩⟩, 5966, false⟩],
        prob := 15 }) := by decide +kernel

/-- closed consequence: the specification's hands and winner flags of the deal (which the kernel cannot
evaluate directly) are those of the evaluated showdown -/
theorem C11_model_flags_closed :
    dealHands flopCodes d₀ = [2473, 5966] ∧ dealWins flopCodes d₀ = [true, false] := by
  obtain ⟨sd, h, hh, hw⟩ := C11_model_flags_at_witness
  rw [showdown_d₀] at h
  cases h
  exact ⟨hh.symm, hw.symm⟩

theorem C11_pot_at_witness :
    1 ≤ (dealWins flopCodes d₀).countP id
    ∧ ((dealWins flopCodes d₀).filter id).length = (dealWins flopCodes d₀).countP id :=
  C11_pot flopCodes d₀ d₀_players

/-- cross-check with the flags just obtained: exactly one winner -/
example : (dealWins flopCodes d₀).countP id = 1 := by
  rw [C11_model_flags_closed.2]; decide

/-- the hypothesis matters: a deal without players has no winner -/
example : (dealWins flopCodes ({ turn := 49, river := 51, choice := [] } : Deal Nat)).countP id = 0 := by decide

/-! ### `C11_pot_shares` -/

theorem C11_pot_shares_at_witness : ((3 : Nat) : Rat) * (1 / ((3 : Nat) : Rat)) = 1 :=
  C11_pot_shares 3 (by decide)

end EspadaVerif.C11.Witness
