/-
Non-vacuity witnesses for `Props/C02.lean`.

Data: flop A♠ K♦ 7♣; two players with weights in `Nat` (product = multiplication):
  player 1: Q♠Q♥ (weight 2), A♥K♥ (weight 3);   player 2: J♠T♠ (weight 1), Q♥J♥ (weight 5).
Of the four choices one is never legal (both players would hold Q♥).  The theorems are instantiated at the
full scope (0,1)–(48,49) and at the last three positions `A`–`B` = (46,47)–(48,49), where turn and river are
among 2♥ 2♦ 2♣; there the model is also run by the kernel and compared with the specification.
-/
import EspadaVerif.Props.C02
import EspadaVerif.Props.Witness.Common

set_option Elab.async false

namespace EspadaVerif.C02.Witness
open EspadaVerif Spec EspadaVerif.Witness

/-! ### data -/

def flop : List Card := [⟨0, 0⟩, ⟨1, 2⟩, ⟨7, 3⟩]
def ranges : List (List (Combo × Nat)) :=
  [[(⟨⟨2, 0⟩, ⟨2, 1⟩⟩, 2), (⟨⟨0, 1⟩, ⟨1, 1⟩⟩, 3)], [(⟨⟨3, 0⟩, ⟨4, 0⟩⟩, 1), (⟨⟨2, 1⟩, ⟨3, 1⟩⟩, 5)]]
def A : Nat × Nat := (46, 47)
def B : Nat × Nat := (48, 49)

/-- the model run: build the iterator, drain it (at most `limit` showdowns), keep the showdowns -/
def run (a b : Nat × Nat) (limit : Nat) : Res (List (Showdown Nat)) :=
  match (mkEvaluator flop ranges a b).intoIter with
  | .ok s =>
    match drainFuel natOps limit s [] with
    | .ok (l, _) => .ok l
    | .err => .err
    | .panic => .panic
  | .err => .err
  | .panic => .panic

/-- the specification side -/
def specDeals (a b : Nat × Nat) : List (Deal Nat) := deals (flop.map Card.code) (specEntries ranges) a b

/-! ### hypotheses hold -/

theorem wf : WfInput flop ranges := ⟨by decide, by decide, by decide, by decide, by decide⟩
theorem scope_full : ValidScope (0, 1) (48, 49) := ⟨by decide, by decide, by decide⟩
theorem scope_AB : ValidScope A B := ⟨by decide, by decide, by decide⟩
/-- the data is not degenerate: two players, two entries each, weights other than 1 -/
example : ranges.length = 2 ∧ ranges.map List.length = [2, 2] ∧ (ranges.flatMap (·.map (·.2))) = [2, 3, 1, 5] := by decide

/-! ### `C02_refines` -/

theorem C02_refines_at_witness :
    ∃ s₀ : IterState Nat, (mkEvaluator flop ranges (0, 1) (48, 49)).intoIter = .ok s₀ ∧
    ∃ (sds : List (Showdown Nat)) (sEnd : IterState Nat),
      (∀ limit, sds.length < limit → drainFuel natOps limit s₀ [] = .ok (sds, sEnd))
      ∧ (deals (flop.map Card.code) (specEntries ranges) (0, 1) (48, 49)).map (showdownOfDeal natOps flop)
          = sds.map (fun sd => .ok (some sd))
      ∧ next natOps sEnd = .ok (none, sEnd) :=
  C02_refines natOps flop ranges (0, 1) (48, 49) wf scope_full

theorem C02_refines_at_scope :
    ∃ s₀ : IterState Nat, (mkEvaluator flop ranges A B).intoIter = .ok s₀ ∧
    ∃ (sds : List (Showdown Nat)) (sEnd : IterState Nat),
      (∀ limit, sds.length < limit → drainFuel natOps limit s₀ [] = .ok (sds, sEnd))
      ∧ (specDeals A B).map (showdownOfDeal natOps flop) = sds.map (fun sd => .ok (some sd))
      ∧ next natOps sEnd = .ok (none, sEnd) :=
  C02_refines natOps flop ranges A B wf scope_AB

/-- the specification evaluated directly: 3 positions × 3 legal choices -/
theorem specDeals_length : (specDeals A B).length = 9 := by decide +kernel
theorem specDeals_listed :
    (specDeals A B).map (fun d => (d.turn, d.river, d.choice.map (·.2.2)))
      = [(49, 50, [2, 1]), (49, 50, [3, 1]), (49, 50, [3, 5]),
         (49, 51, [2, 1]), (49, 51, [3, 1]), (49, 51, [3, 5]),
         (50, 51, [2, 1]), (50, 51, [3, 1]), (50, 51, [3, 5])] := by decide +kernel

/-- closed consequence of the theorem: a drain with room for 20 showdowns returns exactly nine, namely the
showdowns of the nine legal deals in the specification's order -/
theorem C02_refines_closed :
    ∃ sds : List (Showdown Nat), run A B 20 = .ok sds ∧ sds.length = 9
      ∧ (specDeals A B).map (showdownOfDeal natOps flop) = sds.map (fun sd => .ok (some sd)) := by
  obtain ⟨s₀, h0, sds, sEnd, hdrain, hspec, _⟩ := C02_refines_at_scope
  have hlen : sds.length = 9 := by
    have := congrArg List.length hspec
    simp only [List.length_map] at this
    rw [← this, specDeals_length]
  refine ⟨sds, ?_, hlen, hspec⟩
  simp only [run, h0, hdrain 20 (by omega)]

/-- cross-check by running the model in the kernel, with no use of `C02_refines`: same statement -/
theorem run_eval :
    (match run A B 20 with
     | .ok sds => decide (sds.length = 9
          ∧ (specDeals A B).map (showdownOfDeal natOps flop) = sds.map (fun sd => .ok (some sd)))
     | _ => false) = true := by decide +kernel

/-- what the run yields, listed: turn and river, each player's hand class and winner flag (two pair beats a
pair of deuces every time), the probability (products 2·1, 3·1, 3·5 taken from 1) -/
theorem run_listed :
    (match run A B 20 with
     | .ok sds => sds.map (fun sd => (sd.board.drop 3, sd.players.map (fun p => (p.hand, p.win)), sd.prob))
     | _ => []) =
    [([⟨12, 1⟩, ⟨12, 2⟩], [(2820, true), (5967, false)], 2),
     ([⟨12, 1⟩, ⟨12, 2⟩], [(2473, true), (5967, false)], 3),
     ([⟨12, 1⟩, ⟨12, 2⟩], [(2473, true), (5966, false)], 15),
     ([⟨12, 1⟩, ⟨12, 3⟩], [(2820, true), (5967, false)], 2),
     ([⟨12, 1⟩, ⟨12, 3⟩], [(2473, true), (5967, false)], 3),
     ([⟨12, 1⟩, ⟨12, 3⟩], [(2473, true), (5966, false)], 15),
     ([⟨12, 2⟩, ⟨12, 3⟩], [(2820, true), (5967, false)], 2),
     ([⟨12, 2⟩, ⟨12, 3⟩], [(2473, true), (5967, false)], 3),
     ([⟨12, 2⟩, ⟨12, 3⟩], [(2473, true), (5966, false)], 15)] := by decide +kernel

/-! ### `C02_payload` -/

/-- the deal "turn 2♥, river 2♣, A♥K♥ against Q♥J♥" -/
def d₀ : Deal Nat := { turn := 49, river := 51, choice := [(1, 5, 3), (9, 13, 5)] }

theorem d₀_mem : d₀ ∈ deals (flop.map Card.code) (specEntries ranges) A B := by decide +kernel

theorem C02_payload_at_witness :
    ∃ sd : Showdown Nat, showdownOfDeal natOps flop d₀ = .ok (some sd)
      ∧ sd.board = flop ++ [Card.ofCode d₀.turn, Card.ofCode d₀.river]
      ∧ sd.players.map (·.hole) = d₀.choice.map (fun c => (⟨Card.ofCode c.1, Card.ofCode c.2.1⟩ : Combo))
      ∧ sd.prob = d₀.choice.foldl (fun p c => natOps.mul p c.2.2) natOps.one
      ∧ (flop ++ [Card.ofCode d₀.turn, Card.ofCode d₀.river] ++ sd.players.flatMap (fun p => [p.hole.fst, p.hole.snd])).Nodup :=
  C02_payload natOps flop ranges A B wf d₀ d₀_mem

/-- cross-check by evaluation: the showdown of `d₀`, in full -/
theorem payload_eval :
    showdownOfDeal natOps flop d₀ = .ok (some
      { board := [⟨0, 0⟩, ⟨1, 2⟩, ⟨7, 3⟩, ⟨12, 1⟩, ⟨12, 3⟩],
        players := [⟨⟨⟨0, 1⟩, ⟨1, 1⟩⟩, 2473, true⟩, ⟨⟨⟨2, 1⟩, ⟨3, 1⟩⟩, 5966, false⟩],
        prob := 15 }) := by decide +kernel

/-- the membership hypothesis is a real restriction: the choice "Q♠Q♥ against Q♥J♥" is no deal of the scope -/
example : ({ turn := 49, river := 51, choice := [(8, 9, 2), (9, 13, 5)] } : Deal Nat)
    ∉ deals (flop.map Card.code) (specEntries ranges) A B := by decide +kernel

end EspadaVerif.C02.Witness
