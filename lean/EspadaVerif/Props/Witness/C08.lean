/-
Non-vacuity witnesses for `Props/C08.lean`.

Data: flop A♠ K♦ 7♣; `ranges` = the two weighted two-combo ranges of `Witness/C02.lean` (weights 2, 3, 1, 5 in
`Nat`); `rangesE` = player 1 as before, player 2 with an EMPTY range (the hypothesis of `C08_empty`); scopes:
the full one and the last three positions `A`–`B` = (46,47)–(48,49), where the model is also run in the kernel.
-/
import EspadaVerif.Props.C08
import EspadaVerif.Props.Witness.Common

set_option Elab.async false

namespace EspadaVerif.C08.Witness
open EspadaVerif Spec C02 EspadaVerif.Witness

/-! ### data -/

def flop : List Card := [⟨0, 0⟩, ⟨1, 2⟩, ⟨7, 3⟩]
def ranges : List (List (Combo × Nat)) :=
  [[(⟨⟨2, 0⟩, ⟨2, 1⟩⟩, 2), (⟨⟨0, 1⟩, ⟨1, 1⟩⟩, 3)], [(⟨⟨3, 0⟩, ⟨4, 0⟩⟩, 1), (⟨⟨2, 1⟩, ⟨3, 1⟩⟩, 5)]]
def rangesE : List (List (Combo × Nat)) :=
  [[(⟨⟨2, 0⟩, ⟨2, 1⟩⟩, 2), (⟨⟨0, 1⟩, ⟨1, 1⟩⟩, 3)], []]
def A : Nat × Nat := (46, 47)
def B : Nat × Nat := (48, 49)

/-- drain with the given limit; keep the number of showdowns returned (`none` = panic or out of fuel) -/
def drained (rs : List (List (Combo × Nat))) (a b : Nat × Nat) (limit : Nat) : Option Nat :=
  match (mkEvaluator flop rs a b).intoIter with
  | .ok s =>
    match drainFuel natOps limit s [] with
    | .ok (l, _) => some l.length
    | _ => none
  | _ => none

/-! ### hypotheses hold -/

theorem wf : WfInput flop ranges := ⟨by decide, by decide, by decide, by decide, by decide⟩
theorem wfE : WfInput flop rangesE := ⟨by decide, by decide, by decide, by decide, by decide⟩
theorem scope_full : ValidScope (0, 1) (48, 49) := ⟨by decide, by decide, by decide⟩
theorem scope_AB : ValidScope A B := ⟨by decide, by decide, by decide⟩
theorem has_empty : [] ∈ rangesE := by decide

/-! ### `C08_total` -/

theorem C08_total_at_witness :
    ∃ s₀ : IterState Nat, (mkEvaluator flop ranges (0, 1) (48, 49)).intoIter = .ok s₀ ∧
      ∀ limit, ∃ sds s', drainFuel natOps limit s₀ [] = .ok (sds, s') :=
  C08_total natOps flop ranges (0, 1) (48, 49) wf scope_full

theorem C08_total_at_scope :
    ∃ s₀ : IterState Nat, (mkEvaluator flop ranges A B).intoIter = .ok s₀ ∧
      ∀ limit, ∃ sds s', drainFuel natOps limit s₀ [] = .ok (sds, s') :=
  C08_total natOps flop ranges A B wf scope_AB

/-- closed consequence: whatever the limit, the run on the scope is neither a panic nor out of fuel -/
theorem C08_total_closed (limit : Nat) : (drained ranges A B limit).isSome = true := by
  obtain ⟨s₀, h0, h⟩ := C08_total_at_scope
  obtain ⟨sds, s', hd⟩ := h limit
  simp [drained, h0, hd]

/-- cross-check by running the model: a limit below, at and above the nine showdowns of the scope -/
example : drained ranges A B 3 = some 3 ∧ drained ranges A B 9 = some 9 ∧ drained ranges A B 50 = some 9 := by
  decide +kernel

/-! ### `C08_empty` -/

theorem C08_empty_at_witness :
    ∃ s₀ : IterState Nat, (mkEvaluator flop rangesE (0, 1) (48, 49)).intoIter = .ok s₀ ∧
      ∀ limit, drainFuel natOps (limit + 1) s₀ [] = .ok ([], s₀) :=
  C08_empty natOps flop rangesE (0, 1) (48, 49) wfE scope_full has_empty

theorem C08_empty_closed (limit : Nat) : drained rangesE (0, 1) (48, 49) (limit + 1) = some 0 := by
  obtain ⟨s₀, h0, h⟩ := C08_empty_at_witness
  simp [drained, h0, h limit]

/-- the same by running the model (the full scope: the emptiness test comes before any position is tried) -/
example : drained rangesE (0, 1) (48, 49) 7 = some 0 := by decide +kernel

/-! ### `C08_yield_bound` -/

theorem C08_yield_bound_at_witness :
    (deals (flop.map Card.code) (specEntries ranges) (0, 1) (48, 49)).length
      ≤ 1176 * (ranges.map List.length).foldl (· * ·) 1 :=
  C08_yield_bound natOps flop ranges (0, 1) (48, 49) wf scope_full

theorem C08_yield_bound_at_scope :
    (deals (flop.map Card.code) (specEntries ranges) A B).length
      ≤ 1176 * (ranges.map List.length).foldl (· * ·) 1 :=
  C08_yield_bound natOps flop ranges A B wf scope_AB

/-- both sides evaluated: 9 ≤ 1176 · 4 -/
example : (deals (flop.map Card.code) (specEntries ranges) A B).length = 9
    ∧ 1176 * (ranges.map List.length).foldl (· * ·) 1 = 4704 := by decide +kernel

example : Gen.nextSelfCalls = 0 := C08_no_recursion

end EspadaVerif.C08.Witness
