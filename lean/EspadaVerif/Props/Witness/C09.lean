/-
Non-vacuity witnesses for `Props/C09.lean` (and, through it, `Props/C09Regex.lean`).

Weights: the concrete `Wt` with `wtText` / `wtOps` of `Witness/Common.lean`.
Data: the token text `AJs+:0.5`; the range text `AKs,7d7c:0.5` and its parsed history `r₀` (five entries);
the flop A♠ K♦ 7♣ (so two of the parsed combos collide with the board and must be skipped, not panic) with a
second player holding Q♠Q♥ at weight 0.5; some hostile byte strings (not ASCII, not UTF-8, over-long).
`C09_parse_total` and `C09_range_views_total` have no hypotheses; they are instantiated as sanity checks.
-/
import EspadaVerif.Props.C09
import EspadaVerif.Props.Witness.Common

set_option Elab.async false

namespace EspadaVerif.C09.Witness
open EspadaVerif TextDefs EspadaVerif.Witness

/-! ### data -/

/-- `AJs+:0.5` -/
def tokTxt : Bytes := [65, 74, 115, 43, 58, 48, 46, 53]
def tok : Token Wt := ⟨.bottomClosed (.suited 0 3), .half⟩

/-- `AKs,7d7c:0.5` -/
def txt : Bytes := [65, 75, 115, 44, 55, 100, 55, 99, 58, 48, 46, 53]
/-- its insert history, newest first -/
def r₀ : HandRange Wt :=
  [(⟨⟨7, 2⟩, ⟨7, 3⟩⟩, .half), (⟨⟨0, 3⟩, ⟨1, 3⟩⟩, .one), (⟨⟨0, 2⟩, ⟨1, 2⟩⟩, .one), (⟨⟨0, 1⟩, ⟨1, 1⟩⟩, .one),
   (⟨⟨0, 0⟩, ⟨1, 0⟩⟩, .one)]

def flop : List Card := [⟨0, 0⟩, ⟨1, 2⟩, ⟨7, 3⟩]
def others : List (List (Combo × Wt)) := [[(⟨⟨2, 0⟩, ⟨2, 1⟩⟩, .half)]]
def A : Nat × Nat := (46, 47)
def B : Nat × Nat := (48, 49)

/-- é (two bytes), a rank letter, a lone continuation byte -/
def hostile : Bytes := [195, 169, 65, 128]

/-! ### hypotheses hold -/

theorem tok_parses : parseToken wtText tokTxt = .ok tok := by decide +kernel
theorem txt_parses : parseRange wtText txt = .ok r₀ := by decide +kernel
theorem flop_ok : flop.length = 3 ∧ flop.Nodup ∧ ∀ c ∈ flop, c.valid = true := ⟨by decide, by decide, by decide⟩
theorem others_ok : C02.WfInput flop others := ⟨by decide, by decide, by decide, by decide, by decide⟩
theorem scope_ok : C02.ValidScope A B := ⟨by decide, by decide, by decide⟩

/-! ### `C09_parse_total` (no hypotheses) -/

theorem C09_parse_total_at_witness :
    parseRank hostile ≠ .panic ∧ parseSuit hostile ≠ .panic ∧ parseCard hostile ≠ .panic ∧ parsePair hostile ≠ .panic
    ∧ parseToken wtText hostile ≠ .panic ∧ parseRange wtText hostile ≠ .panic :=
  C09_parse_total wtText hostile
/-- by evaluation: five errors and (the range parser skips what it cannot read) an empty range -/
example : parseRank hostile = .err ∧ parseSuit hostile = .err ∧ parseCard hostile = .err ∧ parsePair hostile = .err
    ∧ parseToken wtText hostile = .err ∧ parseRange wtText hostile = .ok [] := by decide +kernel
/-- the slices of the model do panic off a character boundary, so "never a panic" says something -/
example : slice hostile 0 1 = .panic ∧ slice hostile 0 2 = .ok [195, 169] := by decide

/-! ### `C09_use_total` -/

theorem C09_use_total_at_witness :
    ∃ es, tok.expand = .ok es ∧ (∀ e ∈ es, ComboOk e.1 ∧ e.2 = tok.prob) :=
  C09_use_total wtText tokTxt tok tok_parses
/-- by evaluation: twelve combos (AKs, AQs, AJs), all with the token's weight -/
example : (match tok.expand with
    | .ok es => some (es.length, es.all (fun e => e.1.fst.valid && e.1.snd.valid && Card.lt e.1.fst e.1.snd && e.2 == Wt.half))
    | _ => none) = some (12, true) := by decide +kernel

/-! ### `C09_range_views_total` (no hypotheses) -/

/-- a range no parser would produce: a non-canonical key (K♠ before A♠), a card that is no card, the weight 2 -/
def weird : HandRange Wt := [(⟨⟨1, 0⟩, ⟨0, 0⟩⟩, .two), (⟨⟨40, 9⟩, ⟨0, 0⟩⟩, .half)]
theorem C09_range_views_total_at_witness :
    (∃ l, rankPairs wtText weird = .ok l) ∧ (∃ o, orphans wtText weird = .ok o) ∧ (∃ t, showRange wtText weird = .ok t) :=
  C09_range_views_total wtText weird
example : rankPairs wtText weird = .ok [] ∧ orphans wtText weird = .ok weird := by decide +kernel

/-! ### `C09_range_total` -/

theorem C09_range_total_at_witness :
    (∃ l, rankPairs wtText r₀ = .ok l) ∧ (∃ o, orphans wtText r₀ = .ok o) ∧ (∃ t, showRange wtText r₀ = .ok t)
    ∧ ∃ s₀ : IterState Wt, (C02.mkEvaluator flop (HandRange.contents r₀ :: others) A B).intoIter = .ok s₀ ∧
        ∀ limit, ∃ sds s', drainFuel wtOps limit s₀ [] = .ok (sds, s') :=
  C09_range_total wtText wtOps txt r₀ txt_parses flop flop_ok others others_ok A B scope_ok

/-- cross-check of the three views by evaluation: one complete rank pair (AKs at weight 1), one leftover combo,
and the text `AKs,7d7c:0.5,7d7c:0.5` (the formatter writes a leftover pair of equal ranks once per ordered
suit pair: a known quirk of the crate, harmless when parsed back) -/
theorem views_eval :
    rankPairs wtText r₀ = .ok [(.suited 0 1, .one)]
    ∧ orphans wtText r₀ = .ok [(⟨⟨7, 2⟩, ⟨7, 3⟩⟩, .half)]
    ∧ showRange wtText r₀ = .ok [65, 75, 115, 44, 55, 100, 55, 99, 58, 48, 46, 53, 44, 55, 100, 55, 99, 58, 48, 46, 53] := by
  decide +kernel

/-- the history has no repeated key, so the map's contents are the history itself (`contents` is defined by
well-founded recursion, which the kernel does not unfold; hence this rewriting step) -/
theorem contents_r₀ : HandRange.contents r₀ = r₀ := by
  simp [r₀, HandRange.contents, HandRange.remove]

/-- cross-check of the enumeration by running the model: over the last three positions the drain returns
normally with 3 positions × 2 legal combos of the first player (A♠K♠, A♦K♦ and 7♦7♣ collide with the flop and
are skipped) -/
theorem drain_eval :
    (match (C02.mkEvaluator flop (r₀ :: others) A B).intoIter with
     | .ok s =>
       match drainFuel wtOps 50 s [] with
       | .ok (sds, _) => some (sds.length, sds.map (·.prob))
       | _ => none
     | _ => none)
    = some (6, [.half, .half, .half, .half, .half, .half]) := by decide +kernel
example : Wt.mul .half .half = .half ∧ Wt.mul (Wt.mul .one .one) .half = .half := by decide

/-! ### `C09_regex_semantics`, `C09_regex_count` -/

theorem C09_regex_semantics_at_witness :
    ∃ r, Rx.parse (Gen.tokenRegexCodes.getD 3 []) = some r ∧
         (C09Regex.recognisers.getD 3 (fun _ => false)) tokTxt = Rx.matches r tokTxt :=
  C09_regex_semantics 3 (by decide) tokTxt

/-- both sides by evaluation: the hand-written recogniser of branch 3 (`[R]{2}[so]\+(:W)?`) and the regex
literal read from the source, parsed and matched by derivatives, accept `AJs+:0.5` -/
example : (C09Regex.recognisers.getD 3 (fun _ => false)) tokTxt = true := by decide
example : (match Rx.parse (Gen.tokenRegexCodes.getD 3 []) with
    | some r => Rx.matches r tokTxt
    | none => false) = true := by decide +kernel
/-- and both reject `AJs+:0.5x` and `AJs+:2` -/
example : (C09Regex.recognisers.getD 3 (fun _ => false)) (tokTxt ++ [120]) = false
    ∧ (C09Regex.recognisers.getD 3 (fun _ => false)) [65, 74, 115, 43, 58, 50] = false := by decide
example : (match Rx.parse (Gen.tokenRegexCodes.getD 3 []) with
    | some r => Rx.matches r (tokTxt ++ [120]) || Rx.matches r [65, 74, 115, 43, 58, 50]
    | none => true) = false := by decide +kernel
/-- the bound `i < 7` matters: there is no eighth literal to parse -/
example : Rx.parse (Gen.tokenRegexCodes.getD 7 []) = none := by decide +kernel

example : Gen.tokenRegexCodes.length = 7 := C09_regex_count

end EspadaVerif.C09.Witness
