/-
Non-vacuity witnesses for `Props/C14.lean` (no theorem there is named `C14_…`; every theorem with
hypotheses is covered).  Data: K♦ = ⟨1, 2⟩ and 7♣ = ⟨7, 3⟩, given in the "wrong" order (7♣ first), so
that `mkPair` really swaps; the text "7cKd" = [55, 99, 75, 100].
-/
import EspadaVerif.Props.C14

set_option Elab.async false

namespace EspadaVerif.C14.Witness
open EspadaVerif Gen

/-- K♦ -/
def kd : Card := ⟨1, 2⟩
/-- 7♣ -/
def c7 : Card := ⟨7, 3⟩
/-- "7cKd" -/
def txt : Bytes := [55, 99, 75, 100]

theorem kd_valid : kd.valid = true := by decide
theorem c7_valid : c7.valid = true := by decide
theorem c7_ne_kd : c7 ≠ kd := by decide
theorem kd_lt_c7 : Card.lt kd c7 = true := by decide

theorem lt_asymm_at_witness : Card.lt c7 kd = false := C14.lt_asymm kd c7 kd_lt_c7
theorem lt_total_at_witness : Card.lt c7 kd = true ∨ Card.lt kd c7 = true := C14.lt_total c7 kd c7_ne_kd

theorem pair_canonical_at_witness :
    mkPair c7 kd = mkPair kd c7 ∧ Card.lt (mkPair c7 kd).fst (mkPair c7 kd).snd = true
    ∧ ((mkPair c7 kd).fst = c7 ∧ (mkPair c7 kd).snd = kd ∨ (mkPair c7 kd).fst = kd ∧ (mkPair c7 kd).snd = c7) :=
  C14.pair_canonical c7 kd c7_ne_kd
/-- cross-check by evaluation: the pair is stored king first, i.e. the constructor swapped -/
example : mkPair c7 kd = ⟨kd, c7⟩ ∧ mkPair kd c7 = ⟨kd, c7⟩ := by decide
/-- the hypothesis `a ≠ b` matters for the strict order of the fields -/
example : Card.lt (mkPair kd kd).fst (mkPair kd kd).snd = false := by decide

theorem equal_pairs_equal_hash_at_witness :
    (fun a b : Card => 31 * a.code + b.code) (mkPair c7 kd).fst (mkPair c7 kd).snd
      = (fun a b : Card => 31 * a.code + b.code) (mkPair kd c7).fst (mkPair kd c7).snd :=
  C14.equal_pairs_equal_hash (fun a b => 31 * a.code + b.code) c7 kd c7_ne_kd
/-- the hash above is not symmetric in its arguments, so the statement is not trivial for it -/
example : (31 * c7.code + kd.code) ≠ (31 * kd.code + c7.code) := by decide

theorem parsePair_four_at_witness :
    parsePair [55, 99, 75, 100] = pairOfRes (parseCard [55, 99]) (parseCard [75, 100]) :=
  C14.parsePair_four 55 99 75 100 (by decide) (by decide) (by decide) (by decide)

theorem pair_text_at_witness :
    parsePair (showPair (mkPair c7 kd)) = .ok (mkPair c7 kd)
    ∧ parsePair (showCard c7 ++ showCard kd) = .ok (mkPair c7 kd)
    ∧ parsePair (showCard kd ++ showCard c7) = .ok (mkPair c7 kd) :=
  C14.pair_text c7 kd c7_valid kd_valid c7_ne_kd
/-- cross-check by evaluation: "7cKd" and "Kd7c" both parse to (K♦, 7♣), which prints as "Kd7c" -/
example : showCard c7 ++ showCard kd = txt ∧ parsePair txt = .ok ⟨kd, c7⟩
    ∧ parsePair [75, 100, 55, 99] = .ok ⟨kd, c7⟩ ∧ showPair (mkPair c7 kd) = [75, 100, 55, 99] := by decide

end EspadaVerif.C14.Witness
