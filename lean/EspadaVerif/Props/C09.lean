/-
C09 — Parsers are total: any string yields a value or an error, never a panic; every value obtained this
way can be expanded, formatted, decomposed into rank pairs and handed to the evaluator without panicking.

Strings are arbitrary byte lists here (a superset of valid UTF-8): the byte-offset slices of the model
panic exactly where Rust's would (non-boundary / out of range).
-/
import EspadaVerif.Lemmas.TextDefs
import EspadaVerif.Props.C08
import EspadaVerif.Lemmas.RangeAux
import EspadaVerif.Props.C09Regex

namespace EspadaVerif.C09
open EspadaVerif TextDefs TokenFacts RangeAux

variable {W : Type}

/-- **C09 (parsers).** No input makes any of the six parsers panic. -/
theorem C09_parse_total (wt : WText W) (s : Bytes) :
    parseRank s ≠ .panic ∧ parseSuit s ≠ .panic ∧ parseCard s ≠ .panic ∧ parsePair s ≠ .panic
    ∧ parseToken wt s ≠ .panic ∧ parseRange wt s ≠ .panic := by
  refine ⟨parseRank_ne_panic s, parseSuit_ne_panic s, parseCard_ne_panic s, parsePair_ne_panic s,
    parseToken_ne_panic wt s, ?_⟩
  obtain ⟨r, hr, _⟩ := parseRange_spec wt (fun _ => True) (fun _ _ _ _ _ _ _ => trivial) s
  rw [hr]
  exact fun e => nomatch e

/-- every token that parses satisfies the order conditions its expansion relies on, so expanding and printing it
cannot panic; the expansion holds real combos -/
theorem C09_use_total (wt : WText W) (s : Bytes) (t : Token W) (h : parseToken wt s = .ok t) :
    ∃ es, t.expand = .ok es ∧ (∀ e ∈ es, ComboOk e.1 ∧ e.2 = t.prob) :=
  expand_ok t (parseToken_tokenOk wt s t h).1

/-- formatting and decomposing never panic, for any range whatsoever -/
theorem C09_range_views_total (wt : WText W) (r : HandRange W) :
    (∃ l, rankPairs wt r = .ok l) ∧ (∃ o, orphans wt r = .ok o) ∧ (∃ txt, showRange wt r = .ok txt) :=
  ⟨⟨_, rankPairs_eq wt r⟩, ⟨_, orphans_eq wt r⟩, showRange_ok wt r⟩

/-- **C09 (ranges).** A parsed range can be formatted, decomposed and evaluated on any flop without panicking. -/
theorem C09_range_total (wt : WText W) (ops : WOps W) (s : Bytes) (r : HandRange W) (h : parseRange wt s = .ok r)
    (flop : List Card) (hf : flop.length = 3 ∧ flop.Nodup ∧ ∀ c ∈ flop, c.valid = true) (others : List (List (Combo × W)))
    (ho : C02.WfInput flop others) (a b : Nat × Nat) (hs : C02.ValidScope a b) :
    (∃ l, rankPairs wt r = .ok l) ∧ (∃ o, orphans wt r = .ok o) ∧ (∃ txt, showRange wt r = .ok txt)
    ∧ ∃ s₀ : IterState W, (C02.mkEvaluator flop (HandRange.contents r :: others) a b).intoIter = .ok s₀ ∧
        ∀ limit, ∃ sds s', drainFuel ops limit s₀ [] = .ok (sds, s') := by
  obtain ⟨h1, h2, h3⟩ := C09_range_views_total wt r
  refine ⟨h1, h2, h3, ?_⟩
  have hw : C02.WfInput flop (HandRange.contents r :: others) := by
    refine ⟨hf.1, hf.2.1, hf.2.2, ?_, ?_⟩
    · intro es hes
      rcases List.mem_cons.mp hes with rfl | hes
      · intro e he
        exact parseRange_comboOk wt s r h e (mem_contents r e he)
      · exact ho.combos es hes
    · intro es hes
      rcases List.mem_cons.mp hes with rfl | hes
      · exact contents_nodup r
      · exact ho.nodup es hes
  exact C08.C08_total ops flop _ a b hw hs

end EspadaVerif.C09

namespace EspadaVerif.C09

/-- The `regex` crate is modelled, for the pattern subset the crate uses (anchored, ASCII literals and classes, groups,
alternation, `?` `+` `*` `{n}`), by Brzozowski derivatives (`Model/Regex.lean`).  Each of the seven pattern literals read
from the source of `HandRangeToken::from_str` ON THIS RUN parses in that subset, and the model's hand-written recogniser
for that branch accepts exactly the byte strings the pattern matches.  (The literal is compared with the pattern the
recogniser was written for by a proved-sound equivalence checker run in the kernel, not by text equality, so an
equivalent rewrite of a pattern still proves and a language-changing one does not.) -/
theorem C09_regex_semantics (i : Nat) (hi : i < 7) (s : Bytes) :
    ∃ r, Rx.parse (Gen.tokenRegexCodes.getD i []) = some r ∧
         (C09Regex.recognisers.getD i (fun _ => false)) s = Rx.matches r s :=
  C09Regex.C09_regex_semantics i hi s

/-- there are exactly seven literals -/
theorem C09_regex_count : Gen.tokenRegexCodes.length = 7 := C09Regex.C09_regex_count

end EspadaVerif.C09
