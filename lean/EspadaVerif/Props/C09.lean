import EspadaVerif.Model.Range
namespace EspadaVerif.C09
end EspadaVerif.C09
