/-
C09 — Parsers are total: any string yields a value or an error, never a panic; every value obtained this
way can be expanded, formatted, decomposed into rank pairs and handed to the evaluator without panicking.

Strings are arbitrary byte lists here (a superset of valid UTF-8): the byte-offset slices of the model
panic exactly where Rust's would (non-boundary / out of range).
-/
import EspadaVerif.Lemmas.TextDefs
import EspadaVerif.Props.C08

namespace EspadaVerif.C09
open EspadaVerif TextDefs

variable {W : Type}

/-- **C09 (parsers).** No input makes any of the six parsers panic. -/
theorem C09_parse_total (wt : WText W) (s : Bytes) :
    parseRank s ≠ .panic ∧ parseSuit s ≠ .panic ∧ parseCard s ≠ .panic ∧ parsePair s ≠ .panic
    ∧ parseToken wt s ≠ .panic ∧ parseRange wt s ≠ .panic := by
  sorry

/-- every token that parses satisfies the order conditions its expansion relies on, so expanding and printing it
cannot panic; the expansion holds real combos -/
theorem C09_use_total (wt : WText W) (s : Bytes) (t : Token W) (h : parseToken wt s = .ok t) :
    ∃ es, t.expand = .ok es ∧ (∀ e ∈ es, ComboOk e.1 ∧ e.2 = t.prob) := by
  sorry

/-- formatting and decomposing never panic, for any range whatsoever -/
theorem C09_range_views_total (wt : WText W) (r : HandRange W) :
    (∃ l, rankPairs wt r = .ok l) ∧ (∃ o, orphans wt r = .ok o) ∧ (∃ txt, showRange wt r = .ok txt) := by
  sorry

/-- **C09 (ranges).** A parsed range can be formatted, decomposed and evaluated on any flop without panicking. -/
theorem C09_range_total (wt : WText W) (ops : WOps W) (s : Bytes) (r : HandRange W) (h : parseRange wt s = .ok r)
    (flop : List Card) (hf : flop.length = 3 ∧ flop.Nodup ∧ ∀ c ∈ flop, c.valid = true) (others : List (List (Combo × W)))
    (ho : C02.WfInput flop others) (a b : Nat × Nat) (hs : C02.ValidScope a b) :
    (∃ l, rankPairs wt r = .ok l) ∧ (∃ o, orphans wt r = .ok o) ∧ (∃ txt, showRange wt r = .ok txt)
    ∧ ∃ s₀ : IterState W, (C02.mkEvaluator flop (HandRange.contents r :: others) a b).intoIter = .ok s₀ ∧
        ∀ limit, ∃ sds s', drainFuel ops limit s₀ [] = .ok (sds, s') := by
  sorry

end EspadaVerif.C09
