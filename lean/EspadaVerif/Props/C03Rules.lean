/-
C03 (closing review gaps F9, F10, F11) — the showdown's flags by the RULE BOOK, `winner_len` under the
property's own precondition, and the card order of `ShowdownPlayer::cards()`.

* `C03_rules`      : a player is flagged iff no other player's best five-card hand is stronger by the rule
                     book (`Spec.bestStrength`), composing `C03_winner_iff` with `C01_compare`.
* `C03_winner_len` : when all 5 + 2n cards are valid and pairwise different there are at most 23 players
                     (pigeonhole over the 52 codes), so `winner_len()` is the number of flagged players in a
                     debug and in a release build alike, and it is at least one.
* `C03_cards_order`, `C03_cards_hand` : `cards()` lists the board first and the hole cards last, while the
                     hand was evaluated hole cards first; both orders evaluate equally.
-/
import EspadaVerif.Props.C03
import EspadaVerif.Props.C01Compare
import EspadaVerif.Lemmas.IterDeck
import EspadaVerif.Lemmas.IterOdometer
import EspadaVerif.Props.Witness.C03

set_option Elab.async false

namespace EspadaVerif.C03
open EspadaVerif Spec

/-! ### what a produced showdown carries -/

/-- a showdown was produced: nobody collides with the board, and the showdown is the one of `C03_some` -/
theorem some_facts {W : Type} (board : List Card) (ps : List Combo) (prob : W) (h : WfTable board ps)
    (sd : Showdown W) (hsd : showdownNew ps board prob = .ok (some sd)) :
    (∀ p ∈ ps, collides board p = false)
      ∧ sd.board = board ∧ sd.prob = prob
      ∧ sd.players.map (·.hole) = ps
      ∧ (∀ pl ∈ sd.players, eval7 (sevenCards pl.hole board) = .ok pl.hand
            ∧ pl.hand = best ((sevenCards pl.hole board).map C01.toSpec))
      ∧ sd.players.map (·.win) = winnersOf (sd.players.map (·.hand))
      ∧ (ps.length ≤ 255 → ∀ dbg, winnerLen sd dbg = .ok (sd.players.countP (·.win)))
      ∧ (ps ≠ [] → 1 ≤ sd.players.countP (·.win)) := by
  have hno : ∀ p ∈ ps, collides board p = false := by
    intro p hp
    cases hcp : collides board p with
    | false => rfl
    | true =>
      have := (C03_none_iff board ps prob h).mpr ⟨p, hp, hcp⟩
      rw [this] at hsd
      cases hsd
  obtain ⟨sd', hsd', h1, h2, h3, h4, h5, h6, h7⟩ := C03_some board ps prob h hno
  rw [hsd] at hsd'
  cases hsd'
  exact ⟨hno, h1, h2, h3, h4, h5, h6, h7⟩

/-- a player who does not collide with the board holds seven distinct valid cards -/
theorem seven_of_hole (board : List Card) (p : Combo) (hb : board.length = 5) (hnd : board.Nodup)
    (hbv : ∀ c ∈ board, c.valid = true) (hp : p.fst.valid = true ∧ p.snd.valid = true ∧ p.fst ≠ p.snd)
    (hc : collides board p = false) : C01.Seven (sevenCards p board) := by
  unfold collides at hc
  simp only [Bool.or_eq_false_iff, List.contains_eq_mem, decide_eq_false_iff_not] at hc
  refine ⟨by simp [sevenCards, hb], ?_, ?_⟩
  · simp only [sevenCards, List.nodup_cons, List.mem_cons]
    exact ⟨fun h => h.elim hp.2.2 hc.1, hc.2, hnd⟩
  · intro c hcm
    simp only [sevenCards, List.mem_cons] at hcm
    rcases hcm with rfl | rfl | h
    · exact hp.1
    · exact hp.2.1
    · exact hbv c h

/-- every listed player of a produced showdown holds seven distinct valid cards -/
theorem seven_of_player {W : Type} (board : List Card) (ps : List Combo) (prob : W) (h : WfTable board ps)
    (sd : Showdown W) (hsd : showdownNew ps board prob = .ok (some sd)) (pl : ShowdownPlayer)
    (hpl : pl ∈ sd.players) : C01.Seven (sevenCards pl.hole board) := by
  obtain ⟨hno, _, _, hh, _⟩ := some_facts board ps prob h sd hsd
  have hm : pl.hole ∈ ps := by
    rw [← hh]
    exact List.mem_map_of_mem hpl
  exact seven_of_hole board pl.hole h.board_len h.board_nodup h.board_valid (h.holes _ hm) (hno _ hm)

/-! ### F10: the flags by the rule book -/

/-- **C03 (rule book).** In a produced showdown a player is flagged a winner exactly when no player's best
five-card hand (out of that player's own seven cards) is stronger under the rule book than his. -/
theorem C03_rules {W : Type} (board : List Card) (ps : List Combo) (prob : W) (h : WfTable board ps)
    (sd : Showdown W) (hsd : showdownNew ps board prob = .ok (some sd)) :
    ∀ pl ∈ sd.players, (pl.win = true ↔ ∀ pl' ∈ sd.players,
      bestStrength ((sevenCards pl'.hole board).map C01.toSpec)
        ≤ bestStrength ((sevenCards pl.hole board).map C01.toSpec)) := by
  obtain ⟨_, _, _, _, hev, _⟩ := some_facts board ps prob h sd hsd
  intro pl hpl
  rw [C03_winner_iff board ps prob h sd hsd pl hpl]
  have key : ∀ pl' ∈ sd.players, (pl.hand ≤ pl'.hand ↔
      bestStrength ((sevenCards pl'.hole board).map C01.toSpec)
        ≤ bestStrength ((sevenCards pl.hole board).map C01.toSpec)) := by
    intro pl' hpl'
    have hc := C01.C01_compare (sevenCards pl'.hole board) (sevenCards pl.hole board)
      (seven_of_player board ps prob h sd hsd pl' hpl') (seven_of_player board ps prob h sd hsd pl hpl)
      pl'.hand pl.hand (hev pl' hpl').1 (hev pl hpl).1
    have h1 := hc.1
    omega
  constructor
  · intro H pl' hpl'
    exact (key pl' hpl').mp (H pl' hpl')
  · intro H pl' hpl'
    exact (key pl' hpl').mpr (H pl' hpl')

/-- the same read the other way: an unflagged player is beaten, by the rule book, by some listed player -/
theorem C03_rules_loser {W : Type} (board : List Card) (ps : List Combo) (prob : W) (h : WfTable board ps)
    (sd : Showdown W) (hsd : showdownNew ps board prob = .ok (some sd)) :
    ∀ pl ∈ sd.players, (pl.win = false ↔ ∃ pl' ∈ sd.players,
      bestStrength ((sevenCards pl.hole board).map C01.toSpec)
        < bestStrength ((sevenCards pl'.hole board).map C01.toSpec)) := by
  intro pl hpl
  have hr := C03_rules board ps prob h sd hsd pl hpl
  constructor
  · intro hf
    apply Decidable.byContradiction
    intro hne
    have : pl.win = true := hr.mpr (by
      intro pl' hpl'
      apply Decidable.byContradiction
      intro hlt
      exact hne ⟨pl', hpl', by omega⟩)
    rw [hf] at this
    cases this
  · rintro ⟨pl', hpl', hlt⟩
    cases hw : pl.win with
    | false => rfl
    | true =>
      have := hr.mp hw pl' hpl'
      omega

/-! ### F9: `winner_len` under the property's precondition -/

/-- the 5 + 2n cards on the table: the board, then every player's two hole cards -/
def tableCards (board : List Card) (ps : List Combo) : List Card :=
  board ++ ps.flatMap fun p => [p.fst, p.snd]

/-- pigeonhole: a list of different naturals below `n` has at most `n` elements -/
theorem nodup_lt_length_le (n : Nat) : ∀ (l : List Nat), l.Nodup → (∀ x ∈ l, x < n) → l.length ≤ n := by
  induction n with
  | zero =>
    intro l _ hlt
    cases l with
    | nil => simp
    | cons x l => exact absurd (hlt x (by simp)) (by omega)
  | succ n ih =>
    intro l hnd hlt
    have h1 : (l.erase n).length ≤ n := by
      apply ih _ (hnd.erase n)
      intro x hx
      have hx' := (hnd.mem_erase_iff).mp hx
      have := hlt x hx'.2
      have := hx'.1
      omega
    have h2 : l.length ≤ (l.erase n).length + 1 := by
      rw [List.length_erase]
      split <;> omega
    omega

/-- different valid cards: at most 52 -/
theorem nodup_valid_length_le (l : List Card) (hnd : l.Nodup) (hv : ∀ c ∈ l, c.valid = true) : l.length ≤ 52 := by
  have h1 := nodup_lt_length_le 52 (l.map Card.code) ((IterLemmas.nodup_map_code l hv).mpr hnd) (by
    intro x hx
    obtain ⟨c, hc, rfl⟩ := List.mem_map.mp hx
    exact IterLemmas.code_lt c (hv c hc))
  simpa using h1

theorem tableCards_length (board : List Card) (ps : List Combo) :
    (tableCards board ps).length = board.length + ps.length * 2 := by
  unfold tableCards
  rw [List.length_append, IterLemmas.length_flatMap_const ps _ 2 (fun _ _ => rfl)]

theorem tableCards_valid (board : List Card) (ps : List Combo) (h : WfTable board ps) :
    ∀ c ∈ tableCards board ps, c.valid = true := by
  intro c hc
  unfold tableCards at hc
  rcases List.mem_append.mp hc with hc | hc
  · exact h.board_valid c hc
  · obtain ⟨p, hp, hcp⟩ := List.mem_flatMap.mp hc
    simp only [List.mem_cons, List.not_mem_nil, or_false] at hcp
    rcases hcp with rfl | rfl
    · exact (h.holes p hp).1
    · exact (h.holes p hp).2.1

/-- **at most 23 players** can sit at a table whose 5 + 2n cards are valid and pairwise different -/
theorem players_le_23 (board : List Card) (ps : List Combo) (h : WfTable board ps)
    (hnd : (tableCards board ps).Nodup) : ps.length ≤ 23 := by
  have h1 := nodup_valid_length_le _ hnd (tableCards_valid board ps h)
  rw [tableCards_length, h.board_len] at h1
  omega

/-- pairwise different cards: nobody's hole card lies on the board -/
theorem no_collision_of_nodup (board : List Card) (ps : List Combo) (hnd : (tableCards board ps).Nodup) :
    ∀ p ∈ ps, collides board p = false := by
  intro p hp
  unfold tableCards at hnd
  have hd := (List.nodup_append.mp hnd).2.2
  have h1 : p.fst ∈ ps.flatMap fun p => [p.fst, p.snd] := List.mem_flatMap.mpr ⟨p, hp, by simp⟩
  have h2 : p.snd ∈ ps.flatMap fun p => [p.fst, p.snd] := List.mem_flatMap.mpr ⟨p, hp, by simp⟩
  unfold collides
  simp only [Bool.or_eq_false_iff, List.contains_eq_mem, decide_eq_false_iff_not]
  exact ⟨fun hb => hd _ hb _ h1 rfl, fun hb => hd _ hb _ h2 rfl⟩

/-- **C03 (`winner_len`).** Under the property's precondition — five board cards and two hole cards per player,
all valid and pairwise different, at least one player — `winner_len()` returns, in a debug and in a release
build alike, the number of flagged players, and that number is at least one.  (The bound `n ≤ 255` that the
`u8` counter needs is derived: at most 23 players fit into 52 cards.) -/
theorem C03_winner_len {W : Type} (board : List Card) (ps : List Combo) (prob : W) (h : WfTable board ps)
    (hnd : (tableCards board ps).Nodup) (hne : ps ≠ [])
    (sd : Showdown W) (hsd : showdownNew ps board prob = .ok (some sd)) (dbg : Bool) :
    ∃ k, winnerLen sd dbg = .ok k ∧ k = (sd.players.filter (·.win)).length ∧ 1 ≤ k := by
  obtain ⟨_, _, _, _, _, _, hlen, hone⟩ := some_facts board ps prob h sd hsd
  have h23 := players_le_23 board ps h hnd
  exact ⟨_, hlen (by omega) dbg, List.countP_eq_length_filter, hone hne⟩

/-- the same with the existence of the showdown included (pairwise different cards never collide) -/
theorem C03_winner_len_exists {W : Type} (board : List Card) (ps : List Combo) (prob : W) (h : WfTable board ps)
    (hnd : (tableCards board ps).Nodup) (hne : ps ≠ []) :
    ∃ sd : Showdown W, showdownNew ps board prob = .ok (some sd) ∧ sd.players.length = ps.length
      ∧ ∀ dbg, ∃ k, winnerLen sd dbg = .ok k ∧ k = (sd.players.filter (·.win)).length ∧ 1 ≤ k ∧ k ≤ 23 := by
  obtain ⟨sd, hsd, _, _, hh, _⟩ := C03_some board ps prob h (no_collision_of_nodup board ps hnd)
  have hl : sd.players.length = ps.length := by
    have := congrArg List.length hh
    simpa using this
  refine ⟨sd, hsd, hl, ?_⟩
  intro dbg
  obtain ⟨k, hk, he, h1⟩ := C03_winner_len board ps prob h hnd hne sd hsd dbg
  refine ⟨k, hk, he, h1, ?_⟩
  have := players_le_23 board ps h hnd
  have := List.length_filter_le (fun pl : ShowdownPlayer => pl.win) sd.players
  omega

/-! ### F11: `ShowdownPlayer::cards()` -/

/-- `ShowdownPlayer::cards()`: the five board cards first, then the two hole cards -/
def playerCards (board : List Card) (hole : Combo) : List Card := board ++ [hole.fst, hole.snd]

/-- **C03 (`cards()` order).** Evaluating `player.cards()` (board first) gives what the evaluation of the
hole cards followed by the board gave: `MadeHand::from(player.cards()) == player.hand()`. -/
theorem C03_cards_order (board : List Card) (hole : Combo) (hb : board.length = 5) (hnd : board.Nodup)
    (hbv : ∀ c ∈ board, c.valid = true)
    (hp : hole.fst.valid = true ∧ hole.snd.valid = true ∧ hole.fst ≠ hole.snd)
    (hc : collides board hole = false) :
    eval7 (playerCards board hole) = eval7 ([hole.fst, hole.snd] ++ board) := by
  have h7 := seven_of_hole board hole hb hnd hbv hp hc
  have e : [hole.fst, hole.snd] ++ board = sevenCards hole board := rfl
  rw [e]
  symm
  exact C01.C01_order (sevenCards hole board) (playerCards board hole)
    (List.perm_append_comm (l₁ := [hole.fst, hole.snd]) (l₂ := board)) h7.len h7.nodup h7.valid

/-- for every listed player of a produced showdown, `cards()` evaluates to the stored hand, and it is the
class of the best five-card hand among these seven cards -/
theorem C03_cards_hand {W : Type} (board : List Card) (ps : List Combo) (prob : W) (h : WfTable board ps)
    (sd : Showdown W) (hsd : showdownNew ps board prob = .ok (some sd)) :
    ∀ pl ∈ sd.players, eval7 (playerCards sd.board pl.hole) = .ok pl.hand
      ∧ pl.hand = best ((playerCards sd.board pl.hole).map C01.toSpec) := by
  obtain ⟨hno, hbd, _, hh, hev, _⟩ := some_facts board ps prob h sd hsd
  intro pl hpl
  have hm : pl.hole ∈ ps := by
    rw [← hh]
    exact List.mem_map_of_mem hpl
  rw [hbd]
  have e := C03_cards_order board pl.hole h.board_len h.board_nodup h.board_valid (h.holes _ hm) (hno _ hm)
  refine ⟨by rw [e]; exact (hev pl hpl).1, ?_⟩
  rw [(hev pl hpl).2]
  apply Lemmas.best_perm
  apply List.Perm.map
  exact List.perm_append_comm (l₁ := [pl.hole.fst, pl.hole.snd]) (l₂ := board)

/-! ### instances at the data of `Props/Witness/C03.lean` -/

namespace RulesWitness
open EspadaVerif.C03.Witness

/-- board A♠ K♦ 7♣ 9♠ 2♠ with K♥K♣, Q♠J♠, Q♥J♦: eleven different cards -/
theorem table_nodup : (tableCards board ps).Nodup := by decide
theorem table_nodup₂ : (tableCards board ps₂).Nodup := by decide
/-- the hypothesis is a real restriction: with `ps₃` the A♠ is both on the board and in a hand -/
example : ¬ (tableCards board ps₃).Nodup := by decide

/-- `C03_rules` on the one-winner table and on the split pot, with the showdown that exists -/
example : ∃ sd : Showdown Nat, showdownNew ps board prob = .ok (some sd) ∧ sd.players = players
    ∧ ∀ pl ∈ players, (pl.win = true ↔ ∀ pl' ∈ players,
        bestStrength ((sevenCards pl'.hole board).map C01.toSpec)
          ≤ bestStrength ((sevenCards pl.hole board).map C01.toSpec)) := by
  obtain ⟨sd, hsd, hp, _⟩ := C03_some_closed
  have := C03_rules board ps prob wf sd hsd
  rw [hp] at this
  exact ⟨sd, hsd, hp, this⟩

example : ∃ sd : Showdown Nat, showdownNew ps₂ board prob = .ok (some sd) ∧ sd.players = players₂
    ∧ ∀ pl ∈ players₂, (pl.win = true ↔ ∀ pl' ∈ players₂,
        bestStrength ((sevenCards pl'.hole board).map C01.toSpec)
          ≤ bestStrength ((sevenCards pl.hole board).map C01.toSpec)) := by
  obtain ⟨sd, hsd, hp, _⟩ := C03_some_at_witness₂
  have := C03_rules board ps₂ prob wf₂ sd hsd
  rw [hp] at this
  exact ⟨sd, hsd, hp, this⟩

/-- `C03_winner_len` on the split pot: two winners, in a debug and in a release build -/
example : ∃ sd : Showdown Nat, showdownNew ps₂ board prob = .ok (some sd)
    ∧ winnerLen sd true = .ok 2 ∧ winnerLen sd false = .ok 2 := by
  obtain ⟨sd, hsd, hp, _⟩ := C03_some_at_witness₂
  refine ⟨sd, hsd, ?_, ?_⟩
  · obtain ⟨k, hk, he, _⟩ := C03_winner_len board ps₂ prob wf₂ table_nodup₂ (by decide) sd hsd true
    rw [hp] at he
    rw [hk, he]; rfl
  · obtain ⟨k, hk, he, _⟩ := C03_winner_len board ps₂ prob wf₂ table_nodup₂ (by decide) sd hsd false
    rw [hp] at he
    rw [hk, he]; rfl

example : ∃ sd : Showdown Nat, showdownNew ps board prob = .ok (some sd) ∧ sd.players.length = ps.length
    ∧ ∀ dbg, ∃ k, winnerLen sd dbg = .ok k ∧ k = (sd.players.filter (·.win)).length ∧ 1 ≤ k ∧ k ≤ 23 :=
  C03_winner_len_exists board ps prob wf table_nodup (by decide)

example : ps.length ≤ 23 := players_le_23 board ps wf table_nodup

/-- `C03_cards_order` for Q♠J♠ on the witness board; cross-check: both orders evaluate to the flush 501 -/
example : eval7 (playerCards board ⟨⟨2, 0⟩, ⟨3, 0⟩⟩) = eval7 ([⟨2, 0⟩, ⟨3, 0⟩] ++ board) :=
  C03_cards_order board ⟨⟨2, 0⟩, ⟨3, 0⟩⟩ (by decide) (by decide) (by decide) (by decide) (by decide)
example : eval7 (playerCards board ⟨⟨2, 0⟩, ⟨3, 0⟩⟩) = .ok 501
    ∧ eval7 ([⟨2, 0⟩, ⟨3, 0⟩] ++ board) = .ok 501 := by decide +kernel
example : playerCards board ⟨⟨2, 0⟩, ⟨3, 0⟩⟩ ≠ [⟨2, 0⟩, ⟨3, 0⟩] ++ board := by decide

example : ∃ sd : Showdown Nat, showdownNew ps board prob = .ok (some sd)
    ∧ ∀ pl ∈ sd.players, eval7 (playerCards sd.board pl.hole) = .ok pl.hand
      ∧ pl.hand = best ((playerCards sd.board pl.hole).map C01.toSpec) := by
  obtain ⟨sd, hsd, _⟩ := C03_some_closed
  exact ⟨sd, hsd, C03_cards_hand board ps prob wf sd hsd⟩

end RulesWitness

end EspadaVerif.C03
