/-
C02 (specification side) — `Spec.deals` really is "every legal combination exactly once and nothing else".

`C02_refines` shows that the drain of the model iterator is the list `(Spec.deals …).map showdownOfDeal`.
This file states what that list IS:
* `deck49_spec`      — the deck: the 49 unseen cards, each once, in code order (ace to deuce; spade, heart,
                       diamond, club within a rank);
* `unordered_once`   — every unordered pair of different unseen cards is the turn/river of exactly one position
                       (and `deals_turn_lt_river`: the turn is always the card that comes first in deck order);
* `deals_mem_iff`    — membership in the full enumeration: a position, one entry per player taken from that
                       player's list, all `5 + 2n` cards distinct (`mem_deals_iff`: the same for any scope);
* `deals_nodup`      — no deal occurs twice (for any scope), provided no player's list repeats an entry;
* `C02_exactly_once` — the same two facts for what the ITERATOR yields (through `C02_refines`): the drained
                       showdowns have no duplicate and are exactly the showdowns of the deals characterised above.
Spec-level statements take spec-level hypotheses (`WfSpecFlop`, entry lists without duplicate); the `_wf`
corollaries derive them from `WfInput` (whose field `nodup` is used here).
-/
import EspadaVerif.Props.C02
import EspadaVerif.Lemmas.TallyPairs
import EspadaVerif.Props.Witness.Common

namespace EspadaVerif.C02
open EspadaVerif Spec EspadaVerif.IterLemmas

variable {W : Type}

/-! ### hypotheses at the level of the specification -/

/-- a proper flop as the specification sees it: three different card codes -/
structure WfSpecFlop (F : List Nat) : Prop where
  len : F.length = 3
  nodup : F.Nodup
  lt : ∀ c ∈ F, c < 52

/-- the combo (two card codes) of a spec entry -/
def entryKey (e : Nat × Nat × W) : Nat × Nat := (e.1, e.2.1)

/-- no player's list names the same combo twice (`HandRange` is a map keyed by combos) -/
def KeysNodup (E : List (List (Nat × Nat × W))) : Prop := ∀ es ∈ E, (es.map entryKey).Nodup

theorem wfSpecFlop_of_wf {flop : List Card} {ranges : List (List (Combo × W))} (h : WfInput flop ranges) :
    WfSpecFlop (flop.map Card.code) where
  len := by simpa using h.flop_len
  nodup := (nodup_map_code flop h.flop_valid).mpr h.flop_nodup
  lt := by
    intro n hn
    obtain ⟨c, hc, rfl⟩ := List.mem_map.mp hn
    exact code_lt c (h.flop_valid c hc)

theorem nodup_of_map {α β : Type} (f : α → β) {l : List α} (h : (l.map f).Nodup) : l.Nodup := by
  unfold List.Nodup at h ⊢
  rw [List.pairwise_map] at h
  exact h.imp (fun hne e => hne (congrArg f e))

theorem eq_of_nodup_map {α β : Type} (f : α → β) {l : List α} (h : (l.map f).Nodup) {x y : α}
    (hx : x ∈ l) (hy : y ∈ l) (hxy : f x = f y) : x = y := by
  induction l with
  | nil => cases hx
  | cons a l ih =>
    rw [List.map_cons, List.nodup_cons] at h
    rcases List.mem_cons.mp hx with ex | hx <;> rcases List.mem_cons.mp hy with ey | hy
    · rw [ex, ey]
    · exact absurd (by rw [← ex, hxy]; exact List.mem_map_of_mem hy) h.1
    · exact absurd (by rw [← ey, ← hxy]; exact List.mem_map_of_mem hx) h.1
    · exact ih h.2 hx hy

/-- `WfInput.nodup` at the level of the specification -/
theorem keysNodup_of_wf {flop : List Card} {ranges : List (List (Combo × W))} (h : WfInput flop ranges) :
    KeysNodup (specEntries ranges) := by
  intro es hes
  obtain ⟨rs, hrs, rfl⟩ := List.mem_map.mp hes
  have hnd := h.nodup rs hrs
  have hc := h.combos rs hrs
  unfold List.Nodup at hnd ⊢
  rw [List.pairwise_map] at hnd
  rw [List.pairwise_map, List.pairwise_map]
  refine hnd.imp_of_mem ?_
  intro a b ha hb hne e
  apply hne
  simp only [entryKey, Prod.mk.injEq] at e
  obtain ⟨a1, a2, _⟩ := hc a ha
  obtain ⟨b1, b2, _⟩ := hc b hb
  have e1 := code_inj a1 b1 e.1
  have e2 := code_inj a2 b2 e.2
  cases ha' : a.1 with
  | mk af as =>
    cases hb' : b.1 with
    | mk bf bs =>
      rw [ha'] at e1 e2
      rw [hb'] at e1 e2
      simp only at e1 e2
      rw [e1, e2]

theorem entriesNodup_of_keys {E : List (List (Nat × Nat × W))} (h : KeysNodup E) : ∀ es ∈ E, es.Nodup :=
  fun es hes => nodup_of_map entryKey (h es hes)

/-! ### 1. the deck -/

theorem deck49_sorted (F : List Nat) : (deck49 F).Pairwise (· < ·) :=
  List.Pairwise.filter _ List.pairwise_lt_range

/-- **the deck.** 49 cards; none twice; exactly the valid card codes not on the flop; in code order, i.e. ace to
deuce and, within a rank, spade, heart, diamond, club. -/
theorem deck49_spec (F : List Nat) (hF : WfSpecFlop F) :
    (deck49 F).length = 49 ∧ (deck49 F).Nodup ∧ (∀ n, n ∈ deck49 F ↔ n < 52 ∧ n ∉ F)
      ∧ (deck49 F).Pairwise (· < ·) :=
  ⟨deck49_length F hF.len hF.nodup hF.lt, deck49_nodup F, mem_deck49 F, deck49_sorted F⟩

theorem deck49_spec_wf (flop : List Card) (ranges : List (List (Combo × W))) (h : WfInput flop ranges) :
    (deck49 (flop.map Card.code)).length = 49 ∧ (deck49 (flop.map Card.code)).Nodup
      ∧ (∀ n, n ∈ deck49 (flop.map Card.code) ↔ n < 52 ∧ n ∉ flop.map Card.code)
      ∧ (deck49 (flop.map Card.code)).Pairwise (· < ·) :=
  deck49_spec _ (wfSpecFlop_of_wf h)

/-- the code order IS "rank first (0 = ace … 12 = deuce), then suit (0 = s, 1 = h, 2 = d, 3 = c)" -/
theorem code_order (a b : Nat) : a < b ↔ a / 4 < b / 4 ∨ (a / 4 = b / 4 ∧ a % 4 < b % 4) := by omega

/-- reading the deck with `getD` (as `deals` does) at an index inside the deck -/
theorem getD_eq_iff (D : List Nat) (i v : Nat) (hi : i < D.length) : D.getD i 0 = v ↔ D[i]? = some v := by
  simp [List.getD_eq_getElem?_getD, List.getElem?_eq_getElem hi]

theorem getElem?_inj_of_nodup {D : List Nat} (hD : D.Nodup) {i j v : Nat} (hi : D[i]? = some v)
    (hj : D[j]? = some v) : i = j := by
  obtain ⟨h1, e1⟩ := List.getElem?_eq_some_iff.mp hi
  obtain ⟨h2, e2⟩ := List.getElem?_eq_some_iff.mp hj
  exact (List.getElem_inj hD).mp (e1.trans e2.symm)

/-! ### 2. unordered turn/river pairs -/

/-- the cards at position `p` are `x` and `y`, in either order -/
def pairAt (D : List Nat) (p : Nat × Nat) (x y : Nat) : Prop :=
  (D[p.1]? = some x ∧ D[p.2]? = some y) ∨ (D[p.1]? = some y ∧ D[p.2]? = some x)

/-- **unordered pairs.** Every unordered pair of different unseen cards is the turn/river of exactly one
position of `allPositions` (existence and uniqueness). -/
theorem unordered_once (F : List Nat) (hF : WfSpecFlop F) (x y : Nat) (hx : x ∈ deck49 F) (hy : y ∈ deck49 F)
    (hxy : x ≠ y) :
    ∃ p, p ∈ allPositions ∧ pairAt (deck49 F) p x y
      ∧ ∀ q, q ∈ allPositions → pairAt (deck49 F) q x y → q = p := by
  have hnd := deck49_nodup F
  have hlen := deck49_length F hF.len hF.nodup hF.lt
  obtain ⟨i, hi, ei⟩ := List.getElem_of_mem hx
  obtain ⟨j, hj, ej⟩ := List.getElem_of_mem hy
  have gi : (deck49 F)[i]? = some x := by rw [List.getElem?_eq_getElem hi, ei]
  have gj : (deck49 F)[j]? = some y := by rw [List.getElem?_eq_getElem hj, ej]
  have hij : i ≠ j := by
    intro e
    subst e
    exact hxy (ei.symm.trans ej)
  have uniq : ∀ q : Nat × Nat, q.1 < q.2 → pairAt (deck49 F) q x y →
      (q.1 = i ∧ q.2 = j) ∨ (q.1 = j ∧ q.2 = i) := by
    intro q _ hq
    rcases hq with ⟨h1, h2⟩ | ⟨h1, h2⟩
    · exact Or.inl ⟨getElem?_inj_of_nodup hnd h1 gi, getElem?_inj_of_nodup hnd h2 gj⟩
    · exact Or.inr ⟨getElem?_inj_of_nodup hnd h1 gj, getElem?_inj_of_nodup hnd h2 gi⟩
  by_cases hlt : i < j
  · refine ⟨(i, j), (mem_allPositions _).mpr ⟨hlt, by omega⟩, Or.inl ⟨gi, gj⟩, ?_⟩
    intro q hq hp
    have hq' := (mem_allPositions q).mp hq
    obtain ⟨q1, q2⟩ := q
    rcases uniq _ hq'.1 hp with ⟨e1, e2⟩ | ⟨e1, e2⟩
    · simp only at e1 e2; rw [e1, e2]
    · simp only at e1 e2 hq'; omega
  · refine ⟨(j, i), (mem_allPositions _).mpr ⟨by omega, by omega⟩, Or.inr ⟨gj, gi⟩, ?_⟩
    intro q hq hp
    have hq' := (mem_allPositions q).mp hq
    obtain ⟨q1, q2⟩ := q
    rcases uniq _ hq'.1 hp with ⟨e1, e2⟩ | ⟨e1, e2⟩
    · simp only at e1 e2 hq'; omega
    · simp only at e1 e2; rw [e1, e2]

/-! ### 3. membership in the enumeration -/

/-- `product L`: one element per list, taken from that list -/
theorem mem_product_iff {α : Type} (L : List (List α)) (ch : List α) :
    ch ∈ product L ↔ ch.length = L.length ∧ ∀ i (h₁ : i < ch.length) (h₂ : i < L.length), ch[i] ∈ L[i] := by
  induction L generalizing ch with
  | nil =>
    simp only [product, List.mem_singleton, List.length_nil, List.length_eq_zero_iff]
    constructor
    · rintro rfl
      exact ⟨rfl, fun i h => absurd h (by simp)⟩
    · exact fun h => h.1
  | cons l rest ih =>
    simp only [product, List.mem_flatMap, List.mem_map]
    cases ch with
    | nil =>
      constructor
      · rintro ⟨x, _, xs, _, e⟩
        cases e
      · rintro ⟨h, _⟩
        simp at h
    | cons x xs =>
      constructor
      · rintro ⟨x', hx', xs', hxs', e⟩
        cases e
        obtain ⟨hl, hm⟩ := (ih xs).mp hxs'
        refine ⟨by simp [hl], ?_⟩
        intro i h₁ h₂
        cases i with
        | zero => exact hx'
        | succ i =>
          simp only [List.getElem_cons_succ]
          exact hm i (by simpa using h₁) (by simpa using h₂)
      · rintro ⟨hl, hm⟩
        refine ⟨x, hm 0 (by simp) (by simp), xs, (ih xs).mpr ⟨by simpa using hl, ?_⟩, rfl⟩
        intro i h₁ h₂
        exact hm (i + 1) (by simpa using h₁) (by simpa using h₂)

/-- "one entry per player, taken from that player's list" -/
def ChoiceFrom (E : List (List (Nat × Nat × W))) (ch : List (Nat × Nat × W)) : Prop :=
  ch.length = E.length ∧ ∀ i (h₁ : i < ch.length) (h₂ : i < E.length), ch[i] ∈ E[i]

theorem mem_positionsBetween_iff (a b p : Nat × Nat) :
    p ∈ positionsBetween a b ↔ (p.1 < p.2 ∧ p.2 < 49) ∧ posLe a p = true ∧ posLt p b = true := by
  unfold positionsBetween
  rw [List.mem_filter, mem_allPositions, Bool.and_eq_true]

/-- **membership, any scope.** A deal is in the enumeration of the scope `[a, b)` iff its turn and river are the
deck cards at a position `a ≤ (t, r) < b` (turn index < river index < 49), it has one entry per player taken
from that player's list, and all `5 + 2n` cards are distinct. -/
theorem mem_deals_iff (F : List Nat) (E : List (List (Nat × Nat × W))) (a b : Nat × Nat) (hF : WfSpecFlop F)
    (d : Deal W) :
    d ∈ deals F E a b ↔
      (∃ t r, (t < r ∧ r < 49) ∧ posLe a (t, r) = true ∧ posLt (t, r) b = true
          ∧ (deck49 F)[t]? = some d.turn ∧ (deck49 F)[r]? = some d.river)
      ∧ ChoiceFrom E d.choice ∧ Deal.legal F d = true := by
  have hlen := deck49_length F hF.len hF.nodup hF.lt
  unfold deals
  simp only [List.mem_flatMap, List.mem_filter, List.mem_map]
  constructor
  · rintro ⟨p, hp, ⟨ch, hch, rfl⟩, hleg⟩
    obtain ⟨hpos, hle, hlt⟩ := (mem_positionsBetween_iff a b p).mp hp
    refine ⟨⟨p.1, p.2, hpos, hle, hlt, ?_, ?_⟩, (mem_product_iff E ch).mp hch, hleg⟩
    · exact (getD_eq_iff _ _ _ (by omega)).mp rfl
    · exact (getD_eq_iff _ _ _ (by omega)).mp rfl
  · rintro ⟨⟨t, r, hpos, hle, hlt, ht, hr⟩, hch, hleg⟩
    refine ⟨(t, r), (mem_positionsBetween_iff a b (t, r)).mpr ⟨hpos, hle, hlt⟩,
      ⟨d.choice, (mem_product_iff E d.choice).mpr hch, ?_⟩, hleg⟩
    have e1 := (getD_eq_iff (deck49 F) t d.turn (by omega)).mpr ht
    have e2 := (getD_eq_iff (deck49 F) r d.river (by omega)).mpr hr
    simp only [e1, e2]

/-- **membership, full enumeration** (the unscoped evaluator): an unordered turn/river pair from the 49 unseen
cards — presented as the position `t < r < 49` of the deck —, one entry per player taken from that player's
list, all `5 + 2n` cards distinct. -/
theorem deals_mem_iff (F : List Nat) (E : List (List (Nat × Nat × W))) (hF : WfSpecFlop F) (d : Deal W) :
    d ∈ deals F E (0, 1) (48, 49) ↔
      (∃ t r, t < r ∧ r < 49 ∧ (deck49 F)[t]? = some d.turn ∧ (deck49 F)[r]? = some d.river)
      ∧ ChoiceFrom E d.choice ∧ Deal.legal F d = true := by
  rw [mem_deals_iff F E _ _ hF]
  constructor
  · rintro ⟨⟨t, r, hpos, _, _, ht, hr⟩, h⟩
    exact ⟨⟨t, r, hpos.1, hpos.2, ht, hr⟩, h⟩
  · rintro ⟨⟨t, r, h1, h2, ht, hr⟩, h⟩
    refine ⟨⟨t, r, ⟨h1, h2⟩, ?_, ?_, ht, hr⟩, h⟩
    · simp only [posLe, posLt, Bool.or_eq_true, Bool.and_eq_true, decide_eq_true_eq, beq_iff_eq,
        Prod.mk.injEq]
      omega
    · simp only [posLt, Bool.or_eq_true, Bool.and_eq_true, decide_eq_true_eq, beq_iff_eq]
      omega

theorem deals_mem_iff_wf (flop : List Card) (ranges : List (List (Combo × W))) (h : WfInput flop ranges)
    (d : Deal W) :
    d ∈ deals (flop.map Card.code) (specEntries ranges) (0, 1) (48, 49) ↔
      (∃ t r, t < r ∧ r < 49 ∧ (deck49 (flop.map Card.code))[t]? = some d.turn
          ∧ (deck49 (flop.map Card.code))[r]? = some d.river)
      ∧ ChoiceFrom (specEntries ranges) d.choice ∧ Deal.legal (flop.map Card.code) d = true :=
  deals_mem_iff _ _ (wfSpecFlop_of_wf h) d

/-- in every deal the turn is the card that comes first in deck order: the pair is unordered, each pair is
presented once, smaller code first (together with `unordered_once`) -/
theorem deals_turn_lt_river (F : List Nat) (E : List (List (Nat × Nat × W))) (a b : Nat × Nat)
    (hF : WfSpecFlop F) (d : Deal W) (hd : d ∈ deals F E a b) :
    d.turn < d.river ∧ d.turn ∈ deck49 F ∧ d.river ∈ deck49 F := by
  obtain ⟨⟨t, r, hpos, _, _, ht, hr⟩, _⟩ := (mem_deals_iff F E a b hF d).mp hd
  obtain ⟨h1, e1⟩ := List.getElem?_eq_some_iff.mp ht
  obtain ⟨h2, e2⟩ := List.getElem?_eq_some_iff.mp hr
  refine ⟨?_, e1 ▸ List.getElem_mem h1, e2 ▸ List.getElem_mem h2⟩
  rw [← e1, ← e2]
  exact (List.pairwise_iff_getElem.mp (deck49_sorted F)) t r h1 h2 hpos.1

/-! ### 4. no deal twice -/

theorem product_nodup {α : Type} (L : List (List α)) (h : ∀ l ∈ L, l.Nodup) : (product L).Nodup := by
  induction L with
  | nil => simp [product]
  | cons l rest ih =>
    have ih' := ih (fun l' hl' => h l' (List.mem_cons_of_mem _ hl'))
    have hl : l.Nodup := h l (by simp)
    unfold List.Nodup at ih' hl ⊢
    simp only [product]
    rw [List.pairwise_flatMap]
    constructor
    · intro x _
      rw [List.pairwise_map]
      exact ih'.imp (fun hne e => hne (List.cons.inj e).2)
    · refine hl.imp ?_
      intro x y hxy a ha b hb e
      obtain ⟨_, _, rfl⟩ := List.mem_map.mp ha
      obtain ⟨_, _, rfl⟩ := List.mem_map.mp hb
      exact hxy (List.cons.inj e).1

theorem positionsBetween_sorted (a b : Nat × Nat) :
    (positionsBetween a b).Pairwise (fun p q => posLt p q = true) :=
  List.Pairwise.filter _ allPositions_sorted

/-- **no deal twice.** In every scope the enumeration has no duplicate, provided no player's list has a
duplicate entry. -/
theorem deals_nodup (F : List Nat) (E : List (List (Nat × Nat × W))) (a b : Nat × Nat) (hF : WfSpecFlop F)
    (hE : ∀ es ∈ E, es.Nodup) : (deals F E a b).Nodup := by
  have hlen := deck49_length F hF.len hF.nodup hF.lt
  have hnd := deck49_nodup F
  have hprod := product_nodup E hE
  unfold List.Nodup at hprod ⊢
  unfold deals
  simp only []
  rw [List.pairwise_flatMap]
  constructor
  · intro p _
    apply List.Pairwise.filter
    rw [List.pairwise_map]
    exact hprod.imp (fun hne e => hne (congrArg Deal.choice e))
  · refine (positionsBetween_sorted a b).imp_of_mem ?_
    intro p q hp hq hpq d₁ h₁ d₂ h₂ e
    obtain ⟨hp1, hp2⟩ := mem_positionsBetween hp
    obtain ⟨hq1, hq2⟩ := mem_positionsBetween hq
    obtain ⟨ch₁, _, rfl⟩ := List.mem_map.mp (List.mem_filter.mp h₁).1
    obtain ⟨ch₂, _, e₂⟩ := List.mem_map.mp (List.mem_filter.mp h₂).1
    rw [← e₂] at e
    have et := congrArg Deal.turn e
    have er := congrArg Deal.river e
    simp only at et er
    have g1 := (getD_eq_iff (deck49 F) p.1 _ (by omega)).mp et
    have g2 := (getD_eq_iff (deck49 F) q.1 _ (by omega)).mp rfl
    have g3 := (getD_eq_iff (deck49 F) p.2 _ (by omega)).mp er
    have g4 := (getD_eq_iff (deck49 F) q.2 _ (by omega)).mp rfl
    have i1 := getElem?_inj_of_nodup hnd g1 g2
    have i2 := getElem?_inj_of_nodup hnd g3 g4
    have : p = q := Prod.ext i1 i2
    rw [this, posLt_irrefl] at hpq
    cases hpq

theorem deals_nodup_wf (flop : List Card) (ranges : List (List (Combo × W))) (a b : Nat × Nat)
    (h : WfInput flop ranges) : (deals (flop.map Card.code) (specEntries ranges) a b).Nodup :=
  deals_nodup _ _ a b (wfSpecFlop_of_wf h) (entriesNodup_of_keys (keysNodup_of_wf h))

/-! ### 5. the iterator: every legal combination exactly once, nothing else -/

theorem Deal.ext' {d d' : Deal W} (h1 : d.turn = d'.turn) (h2 : d.river = d'.river)
    (h3 : d.choice = d'.choice) : d = d' := by
  cases d; cases d'; cases h1; cases h2; cases h3; rfl

/-- when no list names a combo twice, the combos of a choice determine the choice (weights included) -/
theorem choice_eq_of_keys {E : List (List (Nat × Nat × W))} (hk : KeysNodup E) {ch ch' : List (Nat × Nat × W)}
    (h : ChoiceFrom E ch) (h' : ChoiceFrom E ch') (hkeys : ch.map entryKey = ch'.map entryKey) : ch = ch' := by
  apply List.ext_getElem (h.1.trans h'.1.symm)
  intro i h₁ h₂
  have hE : i < E.length := h.1 ▸ h₁
  have hkey : entryKey ch[i] = entryKey ch'[i] := by
    have := List.getElem_of_eq hkeys (by simpa using h₁)
    simpa using this
  exact eq_of_nodup_map entryKey (hk E[i] (List.getElem_mem hE)) (h.2 i h₁ hE) (h'.2 i h₂ hE) hkey

/-- **different combinations give different showdowns**: two deals of the enumeration (of any two scopes)
that stand for the same showdown are the same deal.  (The board gives turn and river, the players' hole
cards give the combos, and a combo occurs once in a player's list, which gives the weights.) -/
theorem showdownOfDeal_inj (ops : WOps W) (flop : List Card) (ranges : List (List (Combo × W)))
    (a b a' b' : Nat × Nat) (h : WfInput flop ranges) {d d' : Deal W}
    (hd : d ∈ deals (flop.map Card.code) (specEntries ranges) a b)
    (hd' : d' ∈ deals (flop.map Card.code) (specEntries ranges) a' b')
    (e : showdownOfDeal ops flop d = showdownOfDeal ops flop d') : d = d' := by
  obtain ⟨sd, h1, hb, hp, _, _⟩ := C02_payload ops flop ranges a b h d hd
  obtain ⟨sd', h1', hb', hp', _, _⟩ := C02_payload ops flop ranges a' b' h d' hd'
  have esd : sd = sd' := by
    rw [h1, h1'] at e
    exact Option.some.inj (Res.ok.inj e)
  subst esd
  have hF := wfSpecFlop_of_wf h
  have hc := ((mem_deals_iff _ _ a b hF d).mp hd).2.1
  have hc' := ((mem_deals_iff _ _ a' b' hF d').mp hd').2.1
  rw [hb] at hb'
  have hb2 := List.append_cancel_left hb'
  simp only [List.cons.injEq, and_true] at hb2
  have et : d.turn = d'.turn := by
    have := congrArg Card.code hb2.1
    simpa only [code_ofCode] using this
  have er : d.river = d'.river := by
    have := congrArg Card.code hb2.2
    simpa only [code_ofCode] using this
  rw [hp] at hp'
  have hkeys : d.choice.map entryKey = d'.choice.map entryKey := by
    have := congrArg (List.map fun c : Combo => (c.fst.code, c.snd.code)) hp'
    simp only [List.map_map, Function.comp_def, code_ofCode] at this
    exact this
  exact Deal.ext' et er (choice_eq_of_keys (keysNodup_of_wf h) hc hc' hkeys)

theorem mem_of_map_ok_some {sds : List (Showdown W)} {sd : Showdown W} :
    (Res.ok (some sd) : Res (Option (Showdown W))) ∈ sds.map (fun sd => .ok (some sd)) ↔ sd ∈ sds := by
  rw [List.mem_map]
  constructor
  · rintro ⟨x, hx, e⟩
    have := Option.some.inj (Res.ok.inj e)
    exact this ▸ hx
  · exact fun h => ⟨sd, h, rfl⟩

/-- **C02, any scope, about the iterator.** Draining the evaluator scoped to `[a, b)` yields a list of showdowns
without duplicate; a showdown is yielded iff it is the showdown of a deal made of the deck cards at a position
`a ≤ (t, r) < b`, one entry per player from that player's range and `5 + 2n` distinct cards; and different
such deals stand for different showdowns. -/
theorem C02_exactly_once_scoped (ops : WOps W) (flop : List Card) (ranges : List (List (Combo × W)))
    (a b : Nat × Nat) (h : WfInput flop ranges) (hs : ValidScope a b) :
    ∃ s₀ : IterState W, (mkEvaluator flop ranges a b).intoIter = .ok s₀ ∧
    ∃ (sds : List (Showdown W)) (sEnd : IterState W),
      (∀ limit, sds.length < limit → drainFuel ops limit s₀ [] = .ok (sds, sEnd))
      ∧ next ops sEnd = .ok (none, sEnd)
      ∧ sds.Nodup
      ∧ sds.length = (deals (flop.map Card.code) (specEntries ranges) a b).length
      ∧ (∀ sd, sd ∈ sds ↔ ∃ d : Deal W,
          ((∃ t r, (t < r ∧ r < 49) ∧ posLe a (t, r) = true ∧ posLt (t, r) b = true
              ∧ (deck49 (flop.map Card.code))[t]? = some d.turn
              ∧ (deck49 (flop.map Card.code))[r]? = some d.river)
            ∧ ChoiceFrom (specEntries ranges) d.choice ∧ Deal.legal (flop.map Card.code) d = true)
          ∧ showdownOfDeal ops flop d = .ok (some sd))
      ∧ (∀ d d' : Deal W, d ∈ deals (flop.map Card.code) (specEntries ranges) a b →
          d' ∈ deals (flop.map Card.code) (specEntries ranges) a b →
          showdownOfDeal ops flop d = showdownOfDeal ops flop d' → d = d') := by
  obtain ⟨s₀, h0, sds, sEnd, hdrain, hspec, hend⟩ := C02_refines ops flop ranges a b h hs
  have hF := wfSpecFlop_of_wf h
  have hinj : ∀ d d' : Deal W, d ∈ deals (flop.map Card.code) (specEntries ranges) a b →
      d' ∈ deals (flop.map Card.code) (specEntries ranges) a b →
      showdownOfDeal ops flop d = showdownOfDeal ops flop d' → d = d' :=
    fun d d' hd hd' e => showdownOfDeal_inj ops flop ranges a b a b h hd hd' e
  refine ⟨s₀, h0, sds, sEnd, hdrain, hend, ?_, ?_, ?_, hinj⟩
  · have hnd := deals_nodup_wf flop ranges a b h
    have hm : ((deals (flop.map Card.code) (specEntries ranges) a b).map (showdownOfDeal ops flop)).Nodup := by
      unfold List.Nodup at hnd ⊢
      rw [List.pairwise_map]
      exact hnd.imp_of_mem (fun hd hd' hne e => hne (hinj _ _ hd hd' e))
    rw [hspec] at hm
    exact nodup_of_map _ hm
  · have := congrArg List.length hspec
    simpa using this.symm
  · intro sd
    rw [← mem_of_map_ok_some, ← hspec, List.mem_map]
    constructor
    · rintro ⟨d, hd, e⟩
      exact ⟨d, (mem_deals_iff _ _ a b hF d).mp hd, e⟩
    · rintro ⟨d, hd, e⟩
      exact ⟨d, (mem_deals_iff _ _ a b hF d).mpr hd, e⟩

/-- **C02, about the iterator** (unscoped evaluator `FlopExhaustiveEvaluator::new(flop, ranges)`): the drained
list has exactly one showdown for every combination of an unordered turn/river pair from the 49 unseen cards
(the deck cards at indices `t < r < 49`; by `unordered_once` every unordered pair is at exactly one such index
pair) and one entry per player taken from that player's range such that all `5 + 2n` cards are distinct, and
no other showdown: no duplicate; membership characterised; different combinations give different showdowns. -/
theorem C02_exactly_once (ops : WOps W) (flop : List Card) (ranges : List (List (Combo × W)))
    (h : WfInput flop ranges) :
    ∃ s₀ : IterState W, (Evaluator.new (flop.map some ++ [none, none]) ranges).intoIter = .ok s₀ ∧
    ∃ (sds : List (Showdown W)) (sEnd : IterState W),
      (∀ limit, sds.length < limit → drainFuel ops limit s₀ [] = .ok (sds, sEnd))
      ∧ next ops sEnd = .ok (none, sEnd)
      ∧ sds.Nodup
      ∧ (∀ sd, sd ∈ sds ↔ ∃ d : Deal W,
          ((∃ t r, t < r ∧ r < 49 ∧ (deck49 (flop.map Card.code))[t]? = some d.turn
              ∧ (deck49 (flop.map Card.code))[r]? = some d.river)
            ∧ ChoiceFrom (specEntries ranges) d.choice ∧ Deal.legal (flop.map Card.code) d = true)
          ∧ showdownOfDeal ops flop d = .ok (some sd))
      ∧ (∀ d d' : Deal W, d ∈ deals (flop.map Card.code) (specEntries ranges) (0, 1) (48, 49) →
          d' ∈ deals (flop.map Card.code) (specEntries ranges) (0, 1) (48, 49) →
          showdownOfDeal ops flop d = showdownOfDeal ops flop d' → d = d') := by
  obtain ⟨s₀, h0, sds, sEnd, hdrain, hend, hnd, _, hmem, hinj⟩ :=
    C02_exactly_once_scoped ops flop ranges (0, 1) (48, 49) h ⟨by decide, by decide, by decide⟩
  refine ⟨s₀, h0, sds, sEnd, hdrain, hend, hnd, ?_, hinj⟩
  intro sd
  have hF := wfSpecFlop_of_wf h
  rw [hmem sd]
  constructor
  · rintro ⟨d, hd, e⟩
    exact ⟨d, (deals_mem_iff _ _ hF d).mp ((mem_deals_iff _ _ _ _ hF d).mpr hd), e⟩
  · rintro ⟨d, hd, e⟩
    exact ⟨d, (mem_deals_iff _ _ _ _ hF d).mp ((deals_mem_iff _ _ hF d).mpr hd), e⟩

/-! ### instances at concrete data

Flop A♠ K♦ 7♣ (codes 0, 6, 31); player 1: Q♠Q♥ (weight 2), A♥K♥ (weight 3); player 2: J♠T♠ (weight 1),
Q♥J♥ (weight 5) — the data of `Props/Witness/C02.lean`. -/
namespace SpecWitness
open EspadaVerif.Witness

def flop : List Card := [⟨0, 0⟩, ⟨1, 2⟩, ⟨7, 3⟩]
def ranges : List (List (Combo × Nat)) :=
  [[(⟨⟨2, 0⟩, ⟨2, 1⟩⟩, 2), (⟨⟨0, 1⟩, ⟨1, 1⟩⟩, 3)], [(⟨⟨3, 0⟩, ⟨4, 0⟩⟩, 1), (⟨⟨2, 1⟩, ⟨3, 1⟩⟩, 5)]]

theorem wf : WfInput flop ranges := ⟨by decide, by decide, by decide, by decide, by decide⟩
theorem codes : flop.map Card.code = [0, 6, 31] := by decide
theorem entries : specEntries ranges = [[(8, 9, 2), (1, 5, 3)], [(12, 16, 1), (9, 13, 5)]] := by decide

/-- `deck49_spec` at the data, and the deck itself by evaluation -/
example : (deck49 (flop.map Card.code)).length = 49 ∧ (deck49 (flop.map Card.code)).Nodup
    ∧ (∀ n, n ∈ deck49 (flop.map Card.code) ↔ n < 52 ∧ n ∉ flop.map Card.code)
    ∧ (deck49 (flop.map Card.code)).Pairwise (· < ·) := deck49_spec_wf flop ranges wf
example : deck49 [0, 6, 31] = [1, 2, 3, 4, 5, 7, 8, 9, 10, 11, 12, 13, 14, 15, 16, 17, 18, 19, 20, 21, 22, 23,
    24, 25, 26, 27, 28, 29, 30, 32, 33, 34, 35, 36, 37, 38, 39, 40, 41, 42, 43, 44, 45, 46, 47, 48, 49, 50,
    51] := by decide
/-- without the flop hypothesis the deck is not 49 cards (a repeated flop card leaves 50) -/
example : (deck49 [0, 0, 31]).length = 50 := by decide

/-- `unordered_once` at the pair {2♣, 2♥} = codes {51, 49}, given in the "wrong" order: the position is
(46, 48), where the turn is 2♥ -/
example : ∃ p, p ∈ allPositions ∧ pairAt (deck49 [0, 6, 31]) p 51 49
    ∧ ∀ q, q ∈ allPositions → pairAt (deck49 [0, 6, 31]) q 51 49 → q = p :=
  unordered_once [0, 6, 31] (codes ▸ wfSpecFlop_of_wf wf) 51 49 (by decide) (by decide) (by decide)
example : pairAt (deck49 [0, 6, 31]) (46, 48) 51 49 := Or.inr ⟨by decide, by decide⟩

/-- the deal "turn 2♥, river 2♣, A♥K♥ against Q♥J♥" -/
def d₀ : Deal Nat := { turn := 49, river := 51, choice := [(1, 5, 3), (9, 13, 5)] }
/-- the blocked choice "Q♠Q♥ against Q♥J♥" at the same position -/
def d₁ : Deal Nat := { turn := 49, river := 51, choice := [(8, 9, 2), (9, 13, 5)] }

/-- `deals_mem_iff` used from right to left: `d₀` is in the full enumeration because it satisfies the
characterisation (position (46, 48), entries taken from the lists, nine distinct cards) -/
theorem d₀_mem : d₀ ∈ deals (flop.map Card.code) (specEntries ranges) (0, 1) (48, 49) := by
  rw [deals_mem_iff_wf flop ranges wf, codes, entries]
  refine ⟨⟨46, 48, by decide, by decide, by decide, by decide⟩, ?_, by decide⟩
  refine ⟨rfl, ?_⟩
  intro i h₁ h₂
  have : i = 0 ∨ i = 1 := by simp [d₀] at h₁; omega
  rcases this with rfl | rfl <;> decide +revert

/-- … and from left to right: `d₁` is not, because Q♥ would be held twice -/
theorem d₁_not_mem : d₁ ∉ deals (flop.map Card.code) (specEntries ranges) (0, 1) (48, 49) := by
  rw [deals_mem_iff_wf flop ranges wf, codes]
  intro h
  exact absurd h.2.2 (by decide)

/-- `deals_nodup` at the data (full scope and the last three positions) -/
example : (deals (flop.map Card.code) (specEntries ranges) (0, 1) (48, 49)).Nodup :=
  deals_nodup_wf flop ranges _ _ wf
example : (deals (flop.map Card.code) (specEntries ranges) (46, 47) (48, 49)).Nodup :=
  deals_nodup_wf flop ranges _ _ wf
/-- the hypothesis "no list has a duplicate entry" is needed: a list naming Q♠Q♥ twice yields the deal twice
(not reachable through the crate: `HandRange` is a map keyed by the combo) -/
example : ¬ (deals [0, 6, 31] [[(8, 9, 2), (8, 9, 2)]] (47, 48) (48, 49)).Nodup := by decide +kernel

/-- `C02_exactly_once` at the data -/
theorem C02_exactly_once_at_witness :
    ∃ s₀ : IterState Nat, (Evaluator.new (flop.map some ++ [none, none]) ranges).intoIter = .ok s₀ ∧
    ∃ (sds : List (Showdown Nat)) (sEnd : IterState Nat),
      (∀ limit, sds.length < limit → drainFuel natOps limit s₀ [] = .ok (sds, sEnd))
      ∧ next natOps sEnd = .ok (none, sEnd)
      ∧ sds.Nodup
      ∧ (∀ sd, sd ∈ sds ↔ ∃ d : Deal Nat,
          ((∃ t r, t < r ∧ r < 49 ∧ (deck49 (flop.map Card.code))[t]? = some d.turn
              ∧ (deck49 (flop.map Card.code))[r]? = some d.river)
            ∧ ChoiceFrom (specEntries ranges) d.choice ∧ Deal.legal (flop.map Card.code) d = true)
          ∧ showdownOfDeal natOps flop d = .ok (some sd))
      ∧ (∀ d d' : Deal Nat, d ∈ deals (flop.map Card.code) (specEntries ranges) (0, 1) (48, 49) →
          d' ∈ deals (flop.map Card.code) (specEntries ranges) (0, 1) (48, 49) →
          showdownOfDeal natOps flop d = showdownOfDeal natOps flop d' → d = d') :=
  C02_exactly_once natOps flop ranges wf

/-- a closed consequence: the showdown of `d₀` is among the drained showdowns of the unscoped evaluator -/
example : ∃ s₀ : IterState Nat, (Evaluator.new (flop.map some ++ [none, none]) ranges).intoIter = .ok s₀ ∧
    ∃ (sds : List (Showdown Nat)) (sEnd : IterState Nat),
      (∀ limit, sds.length < limit → drainFuel natOps limit s₀ [] = .ok (sds, sEnd)) ∧
      ∃ sd ∈ sds, showdownOfDeal natOps flop d₀ = .ok (some sd) ∧ sd.prob = 15 := by
  obtain ⟨s₀, h0, sds, sEnd, hdrain, _, _, hmem, _⟩ := C02_exactly_once_at_witness
  obtain ⟨sd, hsd, _, _, hprob, _⟩ := C02_payload natOps flop ranges (0, 1) (48, 49) wf d₀ d₀_mem
  refine ⟨s₀, h0, sds, sEnd, hdrain, sd, ?_, hsd, by rw [hprob]; decide⟩
  exact (hmem sd).mpr ⟨d₀, (deals_mem_iff_wf flop ranges wf d₀).mp d₀_mem, hsd⟩

end SpecWitness

end EspadaVerif.C02
