/-
C16 (integer results) — "the per-thread results add up to the single-threaded result", for the numbers the
example accumulates.

`C16_sum` / `Tiles.sum` say that the deal LISTS of the scopes concatenate to the full enumeration.  The example
(examples/multi-thread/main.rs) does not concatenate lists: each worker counts (`materialized += 1`, and per
player and combo `entry.1 += 1`), and the main thread adds the workers' counters.  Here:
* `C16_counts`        — for EVERY predicate `q` on deals, the numbers of deals satisfying `q` in the scopes of
                        `calculateScopes F n` add up to the number in the full enumeration (`n ≥ 1`, any `F`);
* `C16_tally`         — the same for the equity tally of `Spec/Tally.lean` (`Spec.tally` is the full-scope
                        instance of `scopeTally`);
* `C16_model_counts`  — the same for what the ITERATORS yield (through `C02_refines`): the drains of the `n`
                        scoped evaluators concatenate to the drain of the unscoped evaluator, so every counter
                        over showdowns adds up;
* `C16_zero`, `C16_zero_counts`, `C16_zero_loses` — the remark for `n = 0`: no scope, no worker, every summed
                        counter is 0, which is the single-threaded result only when that is 0 too.
  (The example calls `calculate_scopes(num_cpus::get() as u32 - 1)`, so `n = 0` is what a one-CPU machine gets.)
Floating-point accumulators (`entry.0 += 1.0 / winner_len * probability`) are NOT covered: `f64` addition is not
associative, so their sum depends on the grouping; only the integer counters are exact.
-/
import EspadaVerif.Props.C16
import EspadaVerif.Spec.Tally
import EspadaVerif.Props.Witness.Common

set_option Elab.async false

namespace EspadaVerif.C16
open EspadaVerif Spec C02

variable {W : Type}

/-! ### counters on the specification's deals -/

/-- **C16 (counters).** For every worker count `n ≥ 1`, every behaviour `F` of the float pipeline and every
predicate `q` on deals (the scope list does not depend on `q`): the per-scope counts add up to the count over
the full enumeration. -/
theorem C16_counts (F : Nat → Nat → Nat × Nat) (n : Nat) (hn : 1 ≤ n)
    (flop : List Nat) (entries : List (List (Nat × Nat × W))) :
    ∃ l : List CalcScope, calculateScopes F n = .ok l ∧ l.length = n ∧
      ∀ q : Deal W → Bool,
        (l.map fun s => (deals flop entries (s.turnFrom, s.riverFrom) (s.turnTo, s.riverTo)).countP q).sum
          = (deals flop entries (0, 1) (48, 49)).countP q := by
  obtain ⟨l, e, hlen, ht⟩ := loop_spec F n n 0 0 1 (by decide) (by omega) hn
  refine ⟨l, e, hlen, ?_⟩
  intro q
  rw [← (ht.sum flop entries (by decide)).1, List.countP_flatMap]
  rfl

/-- the equity tally restricted to a scope: in how many showdowns of `[a, b)` player `p` is flagged a winner
while exactly `k` players are -/
def scopeTally (flop : List Nat) (entries : List (List (Nat × Nat × W))) (a b : Nat × Nat) (p k : Nat) : Nat :=
  (deals flop entries a b).countP fun d =>
    (dealWins flop d)[p]? == some true && (dealWins flop d).countP id == k

/-- `Spec.tally` is the tally of the full scope -/
theorem tally_eq_scopeTally (flop : List Nat) (entries : List (List (Nat × Nat × W))) (p k : Nat) :
    tally flop entries p k = scopeTally flop entries (0, 1) (48, 49) p k := rfl

/-- **C16 (tallies).** The per-scope equity tallies add up to `Spec.tally`, for every player `p` and every
number of winners `k`. -/
theorem C16_tally (F : Nat → Nat → Nat × Nat) (n : Nat) (hn : 1 ≤ n)
    (flop : List Nat) (entries : List (List (Nat × Nat × W))) :
    ∃ l : List CalcScope, calculateScopes F n = .ok l ∧ l.length = n ∧
      ∀ p k : Nat,
        (l.map fun s => scopeTally flop entries (s.turnFrom, s.riverFrom) (s.turnTo, s.riverTo) p k).sum
          = tally flop entries p k := by
  obtain ⟨l, e, hlen, h⟩ := C16_counts F n hn flop entries
  exact ⟨l, e, hlen, fun p k => h _⟩

/-! ### the example's integer counters as predicates -/

/-- `materialized += 1`: every deal counts -/
def qAll : Deal W → Bool := fun _ => true

/-- `player_results[p][combo].1 += 1`: player `p` holds the combo with card codes `(c₁, c₂)` -/
def qHolds (p c₁ c₂ : Nat) : Deal W → Bool :=
  fun d => (d.choice[p]?.map fun c => (c.1, c.2.1)) == some (c₁, c₂)

/-- the summand of the example's win accumulator is non-zero: player `p` holds `(c₁, c₂)`, is flagged a winner,
and exactly `k` players are flagged -/
def qWins (flop : List Nat) (p c₁ c₂ k : Nat) : Deal W → Bool :=
  fun d => qHolds p c₁ c₂ d && ((dealWins flop d)[p]? == some true && (dealWins flop d).countP id == k)

/-- the worker totals `materialized` add up to the number of deals of the full enumeration -/
theorem C16_materialized (F : Nat → Nat → Nat × Nat) (n : Nat) (hn : 1 ≤ n)
    (flop : List Nat) (entries : List (List (Nat × Nat × W))) :
    ∃ l : List CalcScope, calculateScopes F n = .ok l ∧
      (l.map fun s => (deals flop entries (s.turnFrom, s.riverFrom) (s.turnTo, s.riverTo)).length).sum
        = (deals flop entries (0, 1) (48, 49)).length := by
  obtain ⟨l, e, _, h⟩ := C16_counts F n hn flop entries
  refine ⟨l, e, ?_⟩
  have hq : ∀ ds : List (Deal W), ds.countP qAll = ds.length := by
    intro ds
    unfold qAll
    simp
  have := h qAll
  simp only [hq] at this
  exact this

/-! ### the iterators -/

/-- draining evaluator `e` returns normally with the showdowns `sds` -/
def Drains (ops : WOps W) (e : Evaluator W) (sds : List (Showdown W)) : Prop :=
  ∃ s₀ sEnd : IterState W, e.intoIter = .ok s₀ ∧
    ∀ limit, sds.length < limit → drainFuel ops limit s₀ [] = .ok (sds, sEnd)

/-- an evaluator has at most one drain -/
theorem Drains.unique {ops : WOps W} {e : Evaluator W} {sds sds' : List (Showdown W)}
    (h : Drains ops e sds) (h' : Drains ops e sds') : sds = sds' := by
  obtain ⟨s₀, sEnd, h0, hd⟩ := h
  obtain ⟨s₀', sEnd', h0', hd'⟩ := h'
  rw [h0] at h0'
  have es : s₀ = s₀' := Res.ok.inj h0'
  subst es
  have h1 := hd (sds.length + sds'.length + 1) (by omega)
  have h2 := hd' (sds.length + sds'.length + 1) (by omega)
  rw [h1] at h2
  exact (Prod.mk.inj (Res.ok.inj h2)).1

theorem map_ok_some_inj {l l' : List (Showdown W)}
    (h : l.map (fun sd => (Res.ok (some sd) : Res (Option (Showdown W)))) = l'.map (fun sd => .ok (some sd))) :
    l = l' := by
  induction l generalizing l' with
  | nil =>
    cases l' with
    | nil => rfl
    | cons _ _ => simp at h
  | cons x l ih =>
    cases l' with
    | nil => simp at h
    | cons y l' =>
      simp only [List.map_cons, List.cons.injEq] at h
      rw [Option.some.inj (Res.ok.inj h.1), ih h.2]

/-- every worker of a chain of valid scopes drains normally, and the drains, worker after worker, are the
showdowns of the deals of the scopes, scope after scope -/
theorem parts_exist (ops : WOps W) (flop : List Card) (ranges : List (List (Combo × W)))
    (h : WfInput flop ranges) :
    ∀ l : List CalcScope, (∀ s ∈ l, ValidScope (s.turnFrom, s.riverFrom) (s.turnTo, s.riverTo)) →
      ∃ parts : List (List (Showdown W)), parts.length = l.length
        ∧ (∀ x ∈ l.zip parts,
            Drains ops (mkEvaluator flop ranges (x.1.turnFrom, x.1.riverFrom) (x.1.turnTo, x.1.riverTo)) x.2)
        ∧ (l.flatMap fun s => deals (flop.map Card.code) (specEntries ranges) (s.turnFrom, s.riverFrom)
              (s.turnTo, s.riverTo)).map (showdownOfDeal ops flop)
            = parts.flatten.map (fun sd => .ok (some sd)) := by
  intro l
  induction l with
  | nil => intro _; exact ⟨[], rfl, by simp, rfl⟩
  | cons s l ih =>
    intro hv
    obtain ⟨parts, hlen, hdr, hsp⟩ := ih (fun s' hs' => hv s' (List.mem_cons_of_mem _ hs'))
    obtain ⟨s₀, h0, sds, sEnd, hdrain, hspec, _⟩ := C02_refines ops flop ranges _ _ h (hv s (by simp))
    refine ⟨sds :: parts, by simp [hlen], ?_, ?_⟩
    · intro x hx
      rw [List.zip_cons_cons, List.mem_cons] at hx
      rcases hx with rfl | hx
      · exact ⟨s₀, sEnd, h0, hdrain⟩
      · exact hdr x hx
    · rw [List.flatMap_cons, List.map_append, hspec, hsp, List.flatten_cons, List.map_append]

/-- **C16 (the iterators).** For every worker count `n ≥ 1` and every `F`: each of the `n` scoped evaluators
drains normally (`parts`: worker by worker), the unscoped evaluator drains normally (`full`), the workers'
showdowns concatenated are exactly the single-threaded showdowns, and therefore every integer counter over
showdowns (any predicate `q`) summed over the workers equals the single-threaded counter. -/
theorem C16_model_counts (ops : WOps W) (F : Nat → Nat → Nat × Nat) (n : Nat) (hn : 1 ≤ n)
    (flop : List Card) (ranges : List (List (Combo × W))) (h : WfInput flop ranges) :
    ∃ l : List CalcScope, calculateScopes F n = .ok l ∧ l.length = n ∧
    ∃ (parts : List (List (Showdown W))) (full : List (Showdown W)), parts.length = n
      ∧ (∀ x ∈ l.zip parts,
          Drains ops (mkEvaluator flop ranges (x.1.turnFrom, x.1.riverFrom) (x.1.turnTo, x.1.riverTo)) x.2)
      ∧ Drains ops (Evaluator.new (flop.map some ++ [none, none]) ranges) full
      ∧ parts.flatten = full
      ∧ ∀ q : Showdown W → Bool, (parts.map (List.countP q)).sum = full.countP q := by
  obtain ⟨l, e, hlen, ht⟩ := loop_spec F n n 0 0 1 (by decide) (by omega) hn
  obtain ⟨parts, hpl, hdr, hsp⟩ := parts_exist ops flop ranges h l ht.valid
  obtain ⟨s₀, h0, full, sEnd, hdrain, hspec, _⟩ :=
    C02_refines ops flop ranges (0, 1) (48, 49) h ⟨by decide, by decide, by decide⟩
  have hcat : parts.flatten = full := by
    apply map_ok_some_inj
    rw [← hsp, ← hspec, (ht.sum (flop.map Card.code) (specEntries ranges) (by decide)).1]
  refine ⟨l, e, hlen, parts, full, hpl.trans hlen, hdr, ⟨s₀, sEnd, h0, hdrain⟩, hcat, ?_⟩
  intro q
  rw [← hcat, List.countP_flatten]

/-! ### remark: `n = 0` -/

/-- with no worker there is no scope (whatever the float pipeline does) -/
theorem C16_zero (F : Nat → Nat → Nat × Nat) : calculateScopes F 0 = .ok [] := rfl

/-- … so nothing is enumerated and every summed counter is 0 -/
theorem C16_zero_counts (F : Nat → Nat → Nat × Nat) (flop : List Nat) (entries : List (List (Nat × Nat × W)))
    (q : Deal W → Bool) :
    ∃ l : List CalcScope, calculateScopes F 0 = .ok l ∧ l = [] ∧
      (l.map fun s => (deals flop entries (s.turnFrom, s.riverFrom) (s.turnTo, s.riverTo)).countP q).sum = 0 :=
  ⟨[], rfl, rfl, rfl⟩

/-- … which is the single-threaded result exactly when that is 0 as well: for `n = 0` the conclusion of
`C16_counts` holds iff no deal of the full enumeration satisfies `q`.  The hypothesis `1 ≤ n` is necessary. -/
theorem C16_zero_loses (F : Nat → Nat → Nat × Nat) (flop : List Nat) (entries : List (List (Nat × Nat × W)))
    (q : Deal W → Bool) :
    (∃ l : List CalcScope, calculateScopes F 0 = .ok l ∧
      (l.map fun s => (deals flop entries (s.turnFrom, s.riverFrom) (s.turnTo, s.riverTo)).countP q).sum
        = (deals flop entries (0, 1) (48, 49)).countP q)
    ↔ (deals flop entries (0, 1) (48, 49)).countP q = 0 := by
  constructor
  · rintro ⟨l, e, hsum⟩
    rw [C16_zero] at e
    have : l = [] := (Res.ok.inj e).symm
    subst this
    exact hsum.symm
  · intro h0
    exact ⟨[], rfl, by rw [h0]; rfl⟩

/-! ### instances at concrete data

Seven workers, the even split `F₁` and the hostile pipeline `F₂` of `Props/Witness/C16.lean`; flop A♠ K♦ 7♣;
player 1: Q♠Q♥ (2), A♥K♥ (3); player 2: J♠T♠ (1), Q♥J♥ (5). -/
namespace CountsWitness
open EspadaVerif.Witness

def workers : Nat := 7
def F₁ (i n : Nat) : Nat × Nat := ((i + 1) * 48 / n, 5 * i + 3)
def F₂ (i n : Nat) : Nat × Nat := ((i + 1) * 300 / n, 77 * i + 3)
def flopCodes : List Nat := [0, 6, 31]
def entries : List (List (Nat × Nat × Nat)) := [[(8, 9, 2), (1, 5, 3)], [(12, 16, 1), (9, 13, 5)]]
def flop : List Card := [⟨0, 0⟩, ⟨1, 2⟩, ⟨7, 3⟩]
def ranges : List (List (Combo × Nat)) :=
  [[(⟨⟨2, 0⟩, ⟨2, 1⟩⟩, 2), (⟨⟨0, 1⟩, ⟨1, 1⟩⟩, 3)], [(⟨⟨3, 0⟩, ⟨4, 0⟩⟩, 1), (⟨⟨2, 1⟩, ⟨3, 1⟩⟩, 5)]]

theorem wf : WfInput flop ranges := ⟨by decide, by decide, by decide, by decide, by decide⟩

/-- `C16_counts` at the data, for the counter "player 1 holds A♥K♥" and the hostile pipeline -/
example : ∃ l : List CalcScope, calculateScopes F₂ workers = .ok l ∧
    (l.map fun s => (deals flopCodes entries (s.turnFrom, s.riverFrom) (s.turnTo, s.riverTo)).countP
        (qHolds 0 1 5)).sum
      = (deals flopCodes entries (0, 1) (48, 49)).countP (qHolds 0 1 5) := by
  obtain ⟨l, e, _, h⟩ := C16_counts F₂ workers (by decide) flopCodes entries
  exact ⟨l, e, h _⟩

/-- `C16_tally` at the data -/
example : ∃ l : List CalcScope, calculateScopes F₁ workers = .ok l ∧ l.length = workers ∧
    ∀ p k : Nat,
      (l.map fun s => scopeTally flopCodes entries (s.turnFrom, s.riverFrom) (s.turnTo, s.riverTo) p k).sum
        = tally flopCodes entries p k :=
  C16_tally F₁ workers (by decide) flopCodes entries

/-- a closed cross-check by evaluation, independent of the theorems: a constant pipeline and two workers cut
at (46, 48); the second worker's scope holds the last two positions, where the counter "player 1 holds A♥K♥"
is 4 (two legal choices per position); cutting that scope once more at (47, 48) separates it as 2 + 2 -/
example : calculateScopes (fun _ _ => (46, 1)) 2 = .ok [⟨0, 1, 46, 48⟩, ⟨46, 48, 48, 49⟩] := by decide
example : (deals flopCodes entries (46, 48) (48, 49)).countP (qHolds 0 1 5) = 4 := by decide +kernel
example : (deals flopCodes entries (46, 48) (47, 48)).countP (qHolds 0 1 5)
    + (deals flopCodes entries (47, 48) (48, 49)).countP (qHolds 0 1 5) = 4 := by decide +kernel

/-- `C16_model_counts` at the data -/
example : ∃ l : List CalcScope, calculateScopes F₂ workers = .ok l ∧ l.length = workers ∧
    ∃ (parts : List (List (Showdown Nat))) (full : List (Showdown Nat)), parts.length = workers
      ∧ (∀ x ∈ l.zip parts,
          Drains natOps (mkEvaluator flop ranges (x.1.turnFrom, x.1.riverFrom) (x.1.turnTo, x.1.riverTo)) x.2)
      ∧ Drains natOps (Evaluator.new (flop.map some ++ [none, none]) ranges) full
      ∧ parts.flatten = full
      ∧ ∀ q : Showdown Nat → Bool, (parts.map (List.countP q)).sum = full.countP q :=
  C16_model_counts natOps F₂ workers (by decide) flop ranges wf

/-- `n = 0` really loses something here: the last position alone has three legal deals -/
example : ¬ ∃ l : List CalcScope, calculateScopes F₁ 0 = .ok l ∧
    (l.map fun s => (deals flopCodes entries (s.turnFrom, s.riverFrom) (s.turnTo, s.riverTo)).countP
        qAll).sum
      = (deals flopCodes entries (0, 1) (48, 49)).countP qAll := by
  rw [C16_zero_loses]
  have h3 : (deals flopCodes entries (47, 48) (48, 49)).countP qAll = 3 := by decide +kernel
  have happ := C04.deals_append flopCodes entries (0, 1) (47, 48) (48, 49)
    ⟨by decide, by decide, by decide⟩ ⟨by decide, by decide, by decide⟩
  rw [← happ, List.countP_append, h3]
  omega

end CountsWitness

end EspadaVerif.C16
