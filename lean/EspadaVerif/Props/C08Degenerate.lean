/-
C08 / C02 / C09 on ranges that hold DEGENERATE pairs (a pair of two equal cards).

`CardPair::new(c, c)` and `"AsAs".parse::<CardPair>()` succeed, and `HandRange: FromIterator<CardPair>` /
`FromIterator<(CardPair, f32)>` accept such pairs, so they reach `FlopExhaustiveEvaluator` through the public
API.  `C02.WfInput` demands the strict `Card.lt fst snd`, so these inputs lie outside `C02_refines`, `C04_*`,
`C08_total`, `C09_range_total`.  Here the hypothesis is weakened to `WfInputLe` (`Card.le fst snd`: what
`CardPair::new` guarantees for ANY two cards) and the theorems are proved again:

* `C02_refines_le`  — the refinement theorem verbatim.  On the specification side nothing has to change:
  `specEntries` maps a pair of equal cards to a pair of equal codes and `Deal.legal` asks for all 5 + 2n codes
  to be different, so a deal choosing such a pair is not legal and is absent from `Spec.deals`; the iterator
  skips it because the second `used.insert` of that player returns `false` (`attempt_degenerate`).
* `C08_total_le`    — terminates, never panics, for every valid scope and every limit.
* `C08_degenerate_skipped` — a player holding only degenerate pairs makes the enumeration empty, by skipping
  every raw position up to the end of the scope (not by stopping early as for an empty range).
* `C09.C09_pair_total` — a range built from a parsed range by inserting a pair obtained from `parsePair`
  (possibly degenerate) can be evaluated without panic.

The proofs go through `Lemmas/IterDegenerate.lean`, which shows more: the ORDER of the two cards of a combo
plays no role at all (`refines_v` assumes only that the cards are valid).  The strict order was used by the
library in one place (`IterLemmas.wfTable`: `fst ≠ snd` for `C03.WfTable`), on the branch where the deal is
materialised, and there it follows from the flag of `pickLoop`.
-/
import EspadaVerif.Lemmas.IterDegenerate
import EspadaVerif.Props.C09
import EspadaVerif.Props.C14
import EspadaVerif.Props.Witness.C09

set_option Elab.async false

namespace EspadaVerif.C08
open EspadaVerif Spec C02 EspadaVerif.IterLemmas

variable {W : Type}

/-- `C02.WfInput` with `Card.le` in place of `Card.lt`: a flop of three distinct valid cards; every entry is
a combo of two valid cards, the first not after the second — EQUAL CARDS ALLOWED; a player's list has no
duplicate combo.  Lists may be empty and of any length. -/
structure WfInputLe (flop : List Card) (ranges : List (List (Combo × W))) : Prop where
  flop_len : flop.length = 3
  flop_nodup : flop.Nodup
  flop_valid : ∀ c ∈ flop, c.valid = true
  combos : ∀ es ∈ ranges, ∀ e ∈ es, e.1.fst.valid = true ∧ e.1.snd.valid = true ∧ Card.le e.1.fst e.1.snd = true
  nodup : ∀ es ∈ ranges, (es.map (·.1)).Nodup

/-- the new hypothesis is weaker than the old one -/
theorem WfInput.toLe {flop : List Card} {ranges : List (List (Combo × W))} (h : WfInput flop ranges) :
    WfInputLe flop ranges :=
  ⟨h.flop_len, h.flop_nodup, h.flop_valid,
    fun es hes e he => ⟨(h.combos es hes e he).1, (h.combos es hes e he).2.1, by
      simp [Card.le, (h.combos es hes e he).2.2]⟩,
    h.nodup⟩

theorem WfInputLe.wfFlop {flop : List Card} {ranges : List (List (Combo × W))} (h : WfInputLe flop ranges) :
    WfFlop flop := ⟨h.flop_len, h.flop_nodup, h.flop_valid⟩

theorem WfInputLe.rv {flop : List Card} {ranges : List (List (Combo × W))} (h : WfInputLe flop ranges) :
    RV ranges := fun es hes e he => ⟨(h.combos es hes e he).1, (h.combos es hes e he).2.1⟩

/-- **C02 / C04 (refinement), degenerate pairs allowed.**  The statement of `C02.C02_refines` with
`WfInputLe`: draining the iterator scoped to `[a, b)` returns normally and yields exactly the showdowns of the
legal deals at the positions `a ≤ p < b`, in order, each once, and nothing else; afterwards `next` keeps
returning `None`.  (A choice that contains a pair of equal cards is not a legal deal: see `legal_degenerate`.) -/
theorem C02_refines_le (ops : WOps W) (flop : List Card) (ranges : List (List (Combo × W))) (a b : Nat × Nat)
    (h : WfInputLe flop ranges) (hs : ValidScope a b) :
    ∃ s₀ : IterState W, (mkEvaluator flop ranges a b).intoIter = .ok s₀ ∧
    ∃ (sds : List (Showdown W)) (sEnd : IterState W),
      (∀ limit, sds.length < limit → drainFuel ops limit s₀ [] = .ok (sds, sEnd))
      ∧ (deals (flop.map Card.code) (specEntries ranges) a b).map (showdownOfDeal ops flop)
          = sds.map (fun sd => .ok (some sd))
      ∧ next ops sEnd = .ok (none, sEnd) := by
  obtain ⟨s₀, h0, sds, sEnd, h1, h2, h3, _⟩ := refines_v ops flop ranges a b h.wfFlop h.rv hs
  exact ⟨s₀, h0, sds, sEnd, h1, h2, h3⟩

/-- `C02.C02_payload` with `WfInputLe`: every legal deal really produces a showdown, with the expected board,
players and probability -/
theorem C02_payload_le (ops : WOps W) (flop : List Card) (ranges : List (List (Combo × W))) (a b : Nat × Nat)
    (h : WfInputLe flop ranges) (d : Deal W) (hd : d ∈ deals (flop.map Card.code) (specEntries ranges) a b) :
    ∃ sd : Showdown W, showdownOfDeal ops flop d = .ok (some sd)
      ∧ sd.board = flop ++ [Card.ofCode d.turn, Card.ofCode d.river]
      ∧ sd.players.map (·.hole) = d.choice.map (fun c => (⟨Card.ofCode c.1, Card.ofCode c.2.1⟩ : Combo))
      ∧ sd.prob = d.choice.foldl (fun p c => ops.mul p c.2.2) ops.one
      ∧ (flop ++ [Card.ofCode d.turn, Card.ofCode d.river] ++ sd.players.flatMap (fun p => [p.hole.fst, p.hole.snd])).Nodup := by
  have hf := h.wfFlop
  have hr := h.rv
  rw [deals_eq] at hd
  simp only [List.mem_flatMap, List.mem_filter, List.mem_map] at hd
  obtain ⟨p, hp, ⟨ch, hch, rfl⟩, hleg⟩ := hd
  have hchw : ChV ch := chV_of_product hr hch
  obtain ⟨sd, h1, h2, h3, h4, h5⟩ := payload_core_v ops flop p ch hf (mem_positionsBetween hp) hchw hleg
  have e1 : ((dealOf flop p ch).choice.map fun c => (⟨Card.ofCode c.1, Card.ofCode c.2.1⟩ : Combo))
      = ch.map (·.1) := by
    simp only [dealOf, List.map_map]
    apply List.map_congr_left
    intro e he
    obtain ⟨hv1, hv2⟩ := hchw e he
    simp only [Function.comp, toSpec, ofCode_code _ hv1, ofCode_code _ hv2]
  have e2 : (dealOf flop p ch).choice.foldl (fun p c => ops.mul p c.2.2) ops.one
      = ch.foldl (fun p c => ops.mul p c.2) ops.one := by
    simp only [dealOf, List.foldl_map, toSpec]
  have e3 : sd.players.flatMap (fun p => [p.hole.fst, p.hole.snd]) = holes ch := by
    have : sd.players.flatMap (fun p => [p.hole.fst, p.hole.snd])
        = (sd.players.map (·.hole)).flatMap (fun c => [c.fst, c.snd]) := by
      rw [List.flatMap_map]
    rw [this, h3, List.flatMap_map]
    rfl
  exact ⟨sd, h1, h2, by rw [h3, e1], by rw [h4, e2], by rw [e3]; exact h5⟩

/-- **C08 (total), degenerate pairs allowed.**  The statement of `C08_total` with `WfInputLe`: for every
such input, every valid scope and every bound on the number of showdowns the drain returns normally —
never a panic, never out of fuel. -/
theorem C08_total_le (ops : WOps W) (flop : List Card) (ranges : List (List (Combo × W))) (a b : Nat × Nat)
    (h : WfInputLe flop ranges) (hs : ValidScope a b) :
    ∃ s₀ : IterState W, (mkEvaluator flop ranges a b).intoIter = .ok s₀ ∧
      ∀ limit, ∃ sds s', drainFuel ops limit s₀ [] = .ok (sds, s') := by
  obtain ⟨s₀, h0, sds, sEnd, hdrain, _, _⟩ := C02_refines_le ops flop ranges a b h hs
  refine ⟨s₀, h0, fun limit => ?_⟩
  have hbig := hdrain (limit + (sds.length + 1)) (by omega)
  obtain ⟨⟨sds', s'⟩, hr⟩ := drainFuel_ok_le ops s₀ [] (sds.length + 1) limit _ hbig
  exact ⟨sds', s', hr⟩

/-- **C08 (degenerate range).**  A player whose range consists only of pairs of two equal cards (beside any
other ranges) makes the enumeration empty: the specification has no legal deal, and the drain returns
normally with no showdown, after which `next` keeps returning `None`.  When no range is empty (in particular
the degenerate one is not) the iterator gets there by SKIPPING every raw position: its final state stands at
the end `b` of the scope.  (`es ≠ []` is not needed for the emptiness: an empty range ends the enumeration
too, by the early exit of `C08_empty`.) -/
theorem C08_degenerate_skipped (ops : WOps W) (flop : List Card) (ranges : List (List (Combo × W))) (a b : Nat × Nat)
    (h : WfInputLe flop ranges) (hs : ValidScope a b)
    (es : List (Combo × W)) (hes : es ∈ ranges) (hdeg : ∀ e ∈ es, e.1.fst = e.1.snd) :
    deals (flop.map Card.code) (specEntries ranges) a b = [] ∧
    ∃ s₀ : IterState W, (mkEvaluator flop ranges a b).intoIter = .ok s₀ ∧
    ∃ sEnd : IterState W,
      (∀ limit, drainFuel ops (limit + 1) s₀ [] = .ok ([], sEnd))
      ∧ next ops sEnd = .ok (none, sEnd)
      ∧ ((∀ es' ∈ ranges, es' ≠ []) → sEnd.t = b.1 ∧ sEnd.r = b.2 ∧ sEnd.entries = ranges) := by
  have hd := deals_degenerate flop ranges a b es hes hdeg
  refine ⟨hd, ?_⟩
  obtain ⟨s₀, h0, sds, sEnd, h1, h2, h3, h4⟩ := refines_v ops flop ranges a b h.wfFlop h.rv hs
  rw [hd] at h2
  have hnil : sds = [] := by
    cases sds with
    | nil => rfl
    | cons _ _ => simp at h2
  subst hnil
  refine ⟨s₀, h0, sEnd, fun limit => h1 (limit + 1) (by simp), h3, fun hne => ?_⟩
  rw [h4 hne]
  exact ⟨rfl, rfl, rfl⟩

/-! ### instances at concrete data -/

namespace DegenerateWitness
open EspadaVerif.Witness

/-- A♠ K♦ 7♣ -/
def flop : List Card := [⟨0, 0⟩, ⟨1, 2⟩, ⟨7, 3⟩]
/-- player 1: A♥A♥ (degenerate, weight 7) and Q♠Q♥ (weight 2); player 2: J♠T♠ (weight 3) -/
def rangesDeg : List (List (Combo × Nat)) :=
  [[(⟨⟨0, 1⟩, ⟨0, 1⟩⟩, 7), (⟨⟨2, 0⟩, ⟨2, 1⟩⟩, 2)], [(⟨⟨3, 0⟩, ⟨4, 0⟩⟩, 3)]]
/-- the same with the degenerate entry removed -/
def rangesClean : List (List (Combo × Nat)) :=
  [[(⟨⟨2, 0⟩, ⟨2, 1⟩⟩, 2)], [(⟨⟨3, 0⟩, ⟨4, 0⟩⟩, 3)]]
/-- player 1 holds ONLY degenerate pairs: A♥A♥ and A♠A♠ (the second even sits on the flop) -/
def rangesOnly : List (List (Combo × Nat)) :=
  [[(⟨⟨0, 1⟩, ⟨0, 1⟩⟩, 7), (⟨⟨0, 0⟩, ⟨0, 0⟩⟩, 5)], [(⟨⟨3, 0⟩, ⟨4, 0⟩⟩, 3)]]
def A : Nat × Nat := (46, 47)
def B : Nat × Nat := (48, 49)

/-- the model run: build the iterator, drain it (at most `limit` showdowns), keep the showdowns -/
def run (rs : List (List (Combo × Nat))) (a b : Nat × Nat) (limit : Nat) : Res (List (Showdown Nat)) :=
  match (mkEvaluator flop rs a b).intoIter with
  | .ok s =>
    match drainFuel natOps limit s [] with
    | .ok (l, _) => .ok l
    | .err => .err
    | .panic => .panic
  | .err => .err
  | .panic => .panic

theorem wfDeg : WfInputLe flop rangesDeg := ⟨by decide, by decide, by decide, by decide, by decide⟩
theorem wfOnly : WfInputLe flop rangesOnly := ⟨by decide, by decide, by decide, by decide, by decide⟩
theorem scope_full : ValidScope (0, 1) (48, 49) := ⟨by decide, by decide, by decide⟩
theorem scope_AB : ValidScope A B := ⟨by decide, by decide, by decide⟩

/-- these inputs are outside the hypothesis of the original theorems -/
example : ¬ WfInput flop rangesDeg := fun h => by
  have := (h.combos _ (List.mem_cons_self) _ (List.mem_cons_self)).2.2
  revert this
  decide

theorem C02_refines_le_at_witness :
    ∃ s₀ : IterState Nat, (mkEvaluator flop rangesDeg (0, 1) (48, 49)).intoIter = .ok s₀ ∧
    ∃ (sds : List (Showdown Nat)) (sEnd : IterState Nat),
      (∀ limit, sds.length < limit → drainFuel natOps limit s₀ [] = .ok (sds, sEnd))
      ∧ (deals (flop.map Card.code) (specEntries rangesDeg) (0, 1) (48, 49)).map (showdownOfDeal natOps flop)
          = sds.map (fun sd => .ok (some sd))
      ∧ next natOps sEnd = .ok (none, sEnd) :=
  C02_refines_le natOps flop rangesDeg (0, 1) (48, 49) wfDeg scope_full

theorem C08_total_le_at_witness :
    ∃ s₀ : IterState Nat, (mkEvaluator flop rangesDeg (0, 1) (48, 49)).intoIter = .ok s₀ ∧
      ∀ limit, ∃ sds s', drainFuel natOps limit s₀ [] = .ok (sds, s') :=
  C08_total_le natOps flop rangesDeg (0, 1) (48, 49) wfDeg scope_full

/-- **the model run on the small scope** (the last three positions; turn and river among 2♥ 2♦ 2♣): with the
degenerate entry A♥A♥ the drain is the drain of the input without it — three showdowns, the weight 7 of the
degenerate entry never shows — evaluated by the kernel with no use of the theorems -/
example : run rangesDeg A B 20 = run rangesClean A B 20
    ∧ (match run rangesDeg A B 20 with
       | .ok sds => sds.map (fun sd => (sd.board.drop 3, sd.players.map (·.hole), sd.prob))
       | _ => [])
      = [([⟨12, 1⟩, ⟨12, 2⟩], [⟨⟨2, 0⟩, ⟨2, 1⟩⟩, ⟨⟨3, 0⟩, ⟨4, 0⟩⟩], 6),
         ([⟨12, 1⟩, ⟨12, 3⟩], [⟨⟨2, 0⟩, ⟨2, 1⟩⟩, ⟨⟨3, 0⟩, ⟨4, 0⟩⟩], 6),
         ([⟨12, 2⟩, ⟨12, 3⟩], [⟨⟨2, 0⟩, ⟨2, 1⟩⟩, ⟨⟨3, 0⟩, ⟨4, 0⟩⟩], 6)] := by decide +kernel

/-- the specification on the same scope: the three deals that choose Q♠Q♥; none chooses A♥A♥ (codes 1, 1) -/
example : (deals (flop.map Card.code) (specEntries rangesDeg) A B).map (fun d => (d.turn, d.river, d.choice))
    = [(49, 50, [(8, 9, 2), (12, 16, 3)]), (49, 51, [(8, 9, 2), (12, 16, 3)]), (50, 51, [(8, 9, 2), (12, 16, 3)])] := by
  decide +kernel

/-- closed consequence of `C02_refines_le` on the small scope, compared with the kernel run -/
example : ∃ sds : List (Showdown Nat), run rangesDeg A B 20 = .ok sds
    ∧ (deals (flop.map Card.code) (specEntries rangesDeg) A B).map (showdownOfDeal natOps flop)
        = sds.map (fun sd => .ok (some sd)) := by
  obtain ⟨s₀, h0, sds, sEnd, hdrain, hspec, _⟩ := C02_refines_le natOps flop rangesDeg A B wfDeg scope_AB
  have hlen : sds.length = 3 := by
    have := congrArg List.length hspec
    simp only [List.length_map] at this
    rw [← this]
    decide +kernel
  exact ⟨sds, by simp only [run, h0, hdrain 20 (by omega)], hspec⟩

theorem C08_degenerate_skipped_at_witness :
    deals (flop.map Card.code) (specEntries rangesOnly) (0, 1) (48, 49) = [] ∧
    ∃ s₀ : IterState Nat, (mkEvaluator flop rangesOnly (0, 1) (48, 49)).intoIter = .ok s₀ ∧
    ∃ sEnd : IterState Nat,
      (∀ limit, drainFuel natOps (limit + 1) s₀ [] = .ok ([], sEnd))
      ∧ next natOps sEnd = .ok (none, sEnd)
      ∧ ((∀ es' ∈ rangesOnly, es' ≠ []) → sEnd.t = (48, 49).1 ∧ sEnd.r = (48, 49).2 ∧ sEnd.entries = rangesOnly) :=
  C08_degenerate_skipped natOps flop rangesOnly (0, 1) (48, 49) wfOnly scope_full
    [(⟨⟨0, 1⟩, ⟨0, 1⟩⟩, 7), (⟨⟨0, 0⟩, ⟨0, 0⟩⟩, 5)] (by decide) (by decide)

/-- closed consequence on the FULL scope (1176 positions × 2 choices, all skipped): the run returns no showdown -/
theorem degenerate_run_full (limit : Nat) : run rangesOnly (0, 1) (48, 49) (limit + 1) = .ok [] := by
  obtain ⟨_, s₀, h0, sEnd, hdrain, _, _⟩ := C08_degenerate_skipped_at_witness
  simp only [run, h0, hdrain limit]

/-- the same on the small scope by running the model in the kernel; the iterator ends at `B` after skipping
3 positions × 2 choices (an empty range would have left it at `A`) -/
example : (match (mkEvaluator flop rangesOnly A B).intoIter with
    | .ok s =>
      match drainFuel natOps 5 s [] with
      | .ok (l, s') => some (l.length, s'.t, s'.r)
      | _ => none
    | _ => none) = some (0, 48, 49) := by decide +kernel

end DegenerateWitness

end EspadaVerif.C08

/-! ### the C09 corollary: a parsed pair (possibly degenerate) beside parsed ranges -/

namespace EspadaVerif.C09
open EspadaVerif TextDefs TokenFacts RangeAux

variable {W : Type}

/-- the derived card order is total: `¬ (b < a)` gives `a ≤ b` -/
theorem le_of_not_gt (a b : Card) (h : Card.gt a b = false) : Card.le a b = true := by
  by_cases hab : a = b
  · subst hab
    simp [Card.le]
  · rcases C14.lt_total a b hab with h1 | h1
    · simp [Card.le, h1]
    · simp only [Card.gt] at h
      rw [h] at h1
      cases h1

/-- `CardPair::new` on any two valid cards — EQUAL ONES INCLUDED — stores two valid cards, the first not
after the second -/
theorem mkPair_le (l r : Card) (hl : l.valid = true) (hr : r.valid = true) :
    (mkPair l r).fst.valid = true ∧ (mkPair l r).snd.valid = true
      ∧ Card.le (mkPair l r).fst (mkPair l r).snd = true := by
  rw [C14.mkPair_eq]
  cases hg : Card.gt l r with
  | true =>
    simp only [if_true]
    refine ⟨hr, hl, ?_⟩
    simp only [Card.gt] at hg
    simp [Card.le, hg]
  | false =>
    simp only [Bool.false_eq_true, if_false]
    exact ⟨hl, hr, le_of_not_gt l r hg⟩

/-- whatever `CardPair::from_str` returns is a pair of two valid cards, the first not after the second
(possibly the same card twice) -/
theorem parsePair_le (v : Bytes) (cp : Combo) (h : parsePair v = .ok cp) :
    cp.fst.valid = true ∧ cp.snd.valid = true ∧ Card.le cp.fst cp.snd = true := by
  have hlen : v.length = 4 := by
    apply Decidable.byContradiction
    intro hn
    simp [parsePair, hn] at h
  have hasc : isAscii v = true := by
    cases ha : isAscii v with
    | true => rfl
    | false => simp [parsePair, hlen, ha] at h
  match v, hlen with
  | [b₁, b₂, b₃, b₄], _ =>
    simp only [isAscii, List.all_cons, List.all_nil, Bool.and_true, Bool.and_eq_true,
      decide_eq_true_eq] at hasc
    obtain ⟨h₁, h₂, h₃, h₄⟩ := hasc
    rw [C14.parsePair_four _ _ _ _ h₁ h₂ h₃ h₄] at h
    have v1 := (C13.two_char_ascii b₁ b₂ h₁ h₂).2
    have v2 := (C13.two_char_ascii b₃ b₄ h₃ h₄).2
    cases h1 : parseCard [b₁, b₂] with
    | ok l =>
      cases h2 : parseCard [b₃, b₄] with
      | ok r =>
        rw [h1, h2] at h
        simp only [pairOfRes, Res.ok.injEq] at h
        subst h
        exact mkPair_le l r (v1 l h1).1 (v2 r h2).1
      | err => rw [h1, h2] at h; simp [pairOfRes] at h
      | panic => rw [h1, h2] at h; simp [pairOfRes] at h
    | err => rw [h1] at h; cases h2 : parseCard [b₃, b₄] <;> simp [pairOfRes, h2] at h
    | panic => rw [h1] at h; simp [pairOfRes] at h

/-- `"AsAs".parse::<CardPair>()` succeeds and is the pair (A♠, A♠) -/
example : parsePair [65, 115, 65, 115] = .ok ⟨⟨0, 0⟩, ⟨0, 0⟩⟩ := by decide

/-- **C09 (a parsed pair beside parsed ranges).**  Take a range parsed from any text, insert (with any
weight) a pair obtained from `CardPair::from_str` — which may be a pair of two equal cards — and hand the
result to the evaluator beside any other ranges of the same kind: for every flop of three distinct cards,
every valid scope and every limit the enumeration returns normally (no panic, no fuel exhaustion). -/
theorem C09_pair_total (wt : WText W) (ops : WOps W) (sp : Bytes) (cp : Combo) (hp : parsePair sp = .ok cp) (w : W)
    (s : Bytes) (r : HandRange W) (h : parseRange wt s = .ok r)
    (flop : List Card) (hf : flop.length = 3 ∧ flop.Nodup ∧ ∀ c ∈ flop, c.valid = true)
    (others : List (List (Combo × W))) (ho : C08.WfInputLe flop others) (a b : Nat × Nat) (hs : C02.ValidScope a b) :
    ∃ s₀ : IterState W,
      (C02.mkEvaluator flop (HandRange.contents (HandRange.insert r cp w) :: others) a b).intoIter = .ok s₀ ∧
        ∀ limit, ∃ sds s', drainFuel ops limit s₀ [] = .ok (sds, s') := by
  have hw : C08.WfInputLe flop (HandRange.contents (HandRange.insert r cp w) :: others) := by
    refine ⟨hf.1, hf.2.1, hf.2.2, ?_, ?_⟩
    · intro es hes
      rcases List.mem_cons.mp hes with rfl | hes
      · intro e he
        have hm := mem_contents _ e he
        rcases List.mem_cons.mp hm with rfl | hm
        · exact parsePair_le sp cp hp
        · obtain ⟨c1, c2, c3⟩ := parseRange_comboOk wt s r h e hm
          exact ⟨c1, c2, by simp [Card.le, c3]⟩
      · exact ho.combos es hes
    · intro es hes
      rcases List.mem_cons.mp hes with rfl | hes
      · exact contents_nodup _
      · exact ho.nodup es hes
  exact C08.C08_total_le ops flop _ a b hw hs

/-- instance: the range text `AKs,7d7c:0.5` of `Witness/C09.lean`, the pair text `AhAh` (degenerate) inserted
at weight 0.5, a second player holding Q♠Q♥, the flop A♠ K♦ 7♣, the last three positions -/
theorem C09_pair_total_at_witness :
    ∃ s₀ : IterState Witness.Wt,
      (C02.mkEvaluator Witness.flop
        (HandRange.contents (HandRange.insert Witness.r₀ ⟨⟨0, 1⟩, ⟨0, 1⟩⟩ .half) :: Witness.others)
        Witness.A Witness.B).intoIter = .ok s₀ ∧
        ∀ limit, ∃ sds s', drainFuel Witness.wtOps limit s₀ [] = .ok (sds, s') :=
  C09_pair_total Witness.wtText Witness.wtOps [65, 104, 65, 104] ⟨⟨0, 1⟩, ⟨0, 1⟩⟩ (by decide) .half
    Witness.txt Witness.r₀ Witness.txt_parses Witness.flop Witness.flop_ok Witness.others
    (C08.WfInput.toLe Witness.others_ok) Witness.A Witness.B Witness.scope_ok

/-- cross-check by running the model: the history has no repeated key (so `contents` is the history itself);
over the last three positions the drain returns normally with 3 positions × 2 legal combos of the first
player (A♥K♥, A♣K♣) — exactly what `Witness/C09.lean` finds without the degenerate entry -/
example :
    (match (C02.mkEvaluator Witness.flop
        (((⟨⟨0, 1⟩, ⟨0, 1⟩⟩, Witness.Wt.half) :: Witness.r₀) :: Witness.others) Witness.A Witness.B).intoIter with
     | .ok s =>
       match drainFuel Witness.wtOps 50 s [] with
       | .ok (sds, _) => some sds.length
       | _ => none
     | _ => none) = some 6 := by decide +kernel

end EspadaVerif.C09
