/-
C03 — A showdown flags exactly the players holding the strongest hand as winners.

`showdownNew` is the executable model of `Showdown::new` (single pass keeping the minimum power
index and the set of positions attaining it, then the flag pass).  The theorems are stated for
every board of five distinct cards and every list of players (any length) whose hole cards are
two different valid cards.
-/
import EspadaVerif.Model.Showdown
import EspadaVerif.Spec.ShowdownSpec
import EspadaVerif.Props.C01

namespace EspadaVerif.C03
open EspadaVerif Spec

/-- a hole card of the player also lies on the board -/
def collides (board : List Card) (p : Combo) : Bool := board.contains p.fst || board.contains p.snd

/-- hypotheses on the table: five distinct valid board cards; every player holds two different valid cards -/
structure WfTable (board : List Card) (ps : List Combo) : Prop where
  board_len : board.length = 5
  board_nodup : board.Nodup
  board_valid : ∀ c ∈ board, c.valid = true
  holes : ∀ p ∈ ps, p.fst.valid = true ∧ p.snd.valid = true ∧ p.fst ≠ p.snd

/-- a player who does not collide with the board is evaluated on seven distinct cards:
the evaluation is the class of the best five-card hand among the player's own seven cards (C01) -/
theorem eval_own_seven (board : List Card) (p : Combo) (hb : board.length = 5) (hnd : board.Nodup)
    (hbv : ∀ c ∈ board, c.valid = true) (hp : p.fst.valid = true ∧ p.snd.valid = true ∧ p.fst ≠ p.snd)
    (hc : collides board p = false) :
    eval7 (sevenCards p board) = .ok (best ((sevenCards p board).map C01.toSpec)) := by
  sorry

/-- No showdown is produced exactly when some player's hole card lies on the board. -/
theorem C03_none_iff {W : Type} (board : List Card) (ps : List Combo) (prob : W) (h : WfTable board ps) :
    showdownNew ps board prob = .ok none ↔ ∃ p ∈ ps, collides board p = true := by
  sorry

/-- Otherwise a showdown is produced; it lists the players in input order, each with the evaluation of
that player's own seven cards; the winners are exactly the players whose index no other player
undercuts; `winner_len` is the number of flagged players and is at least one (for a non-empty table). -/
theorem C03_some {W : Type} (board : List Card) (ps : List Combo) (prob : W) (h : WfTable board ps)
    (hno : ∀ p ∈ ps, collides board p = false) :
    ∃ sd : Showdown W, showdownNew ps board prob = .ok (some sd)
      ∧ sd.board = board ∧ sd.prob = prob
      ∧ sd.players.map (·.hole) = ps
      ∧ (∀ pl ∈ sd.players, eval7 (sevenCards pl.hole board) = .ok pl.hand
            ∧ pl.hand = best ((sevenCards pl.hole board).map C01.toSpec))
      ∧ sd.players.map (·.win) = winnersOf (sd.players.map (·.hand))
      ∧ (ps.length ≤ 255 → ∀ dbg, winnerLen sd dbg = .ok (sd.players.countP (·.win)))
      ∧ (ps ≠ [] → 1 ≤ sd.players.countP (·.win)) := by
  sorry

/-- in particular: a flagged player's class is minimal, an unflagged player's is not -/
theorem C03_winner_iff {W : Type} (board : List Card) (ps : List Combo) (prob : W) (h : WfTable board ps)
    (sd : Showdown W) (hsd : showdownNew ps board prob = .ok (some sd)) :
    ∀ pl ∈ sd.players, (pl.win = true ↔ ∀ pl' ∈ sd.players, pl.hand ≤ pl'.hand) := by
  sorry

end EspadaVerif.C03
