/-
C03 — A showdown flags exactly the players holding the strongest hand as winners.

`showdownNew` is the executable model of `Showdown::new` (single pass keeping the minimum power
index and the set of positions attaining it, then the flag pass).  The theorems are stated for
every board of five distinct cards and every list of players (any length) whose hole cards are
two different valid cards.
-/
import EspadaVerif.Model.Showdown
import EspadaVerif.Spec.ShowdownSpec
import EspadaVerif.Props.C01

namespace EspadaVerif.C03
open EspadaVerif Spec

/-- a hole card of the player also lies on the board -/
def collides (board : List Card) (p : Combo) : Bool := board.contains p.fst || board.contains p.snd

/-- hypotheses on the table: five distinct valid board cards; every player holds two different valid cards -/
structure WfTable (board : List Card) (ps : List Combo) : Prop where
  board_len : board.length = 5
  board_nodup : board.Nodup
  board_valid : ∀ c ∈ board, c.valid = true
  holes : ∀ p ∈ ps, p.fst.valid = true ∧ p.snd.valid = true ∧ p.fst ≠ p.snd

/-- a player who does not collide with the board is evaluated on seven distinct cards:
the evaluation is the class of the best five-card hand among the player's own seven cards (C01) -/
theorem eval_own_seven (board : List Card) (p : Combo) (hb : board.length = 5) (hnd : board.Nodup)
    (hbv : ∀ c ∈ board, c.valid = true) (hp : p.fst.valid = true ∧ p.snd.valid = true ∧ p.fst ≠ p.snd)
    (hc : collides board p = false) :
    eval7 (sevenCards p board) = .ok (best ((sevenCards p board).map C01.toSpec)) := by
  unfold collides at hc
  simp only [Bool.or_eq_false_iff, List.contains_eq_mem, decide_eq_false_iff_not] at hc
  apply C01.C01_eval
  · simp [sevenCards, hb]
  · simp only [sevenCards, List.nodup_cons, List.mem_cons]
    exact ⟨fun h => h.elim hp.2.2 hc.1, hc.2, hnd⟩
  · intro c hcm
    simp only [sevenCards, List.mem_cons] at hcm
    rcases hcm with rfl | rfl | h
    · exact hp.1
    · exact hp.2.1
    · exact hbv c h

/-- every evaluation fits the `u16` sentinel: `best ≤ 7463 ≤ u16::MAX` -/
theorem best_le (X : List (Nat × Nat)) : best X ≤ 65535 := by
  have : best X ≤ 7463 := Lemmas.foldl_min_le_init _ _
  omega

/-- invariant of the single pass: the players so far carry the evaluation of their own seven cards and
are not yet flagged; `strongest` is a lower bound of their indexes, attained as soon as there is a
player (it is the `u16::MAX` sentinel before); `winners` holds exactly the positions attaining it -/
structure Inv (board : List Card) (acc : SdAcc) : Prop where
  evals : ∀ pl ∈ acc.players, eval7 (sevenCards pl.hole board) = .ok pl.hand
            ∧ pl.hand = best ((sevenCards pl.hole board).map C01.toSpec) ∧ pl.win = false
  low : ∀ pl ∈ acc.players, acc.strongest ≤ pl.hand
  att : acc.players ≠ [] → ∃ pl ∈ acc.players, pl.hand = acc.strongest
  le : acc.strongest ≤ 65535
  init : acc.players = [] → acc.strongest = 65535
  win : ∀ j, j ∈ acc.winners ↔ ∃ pl, acc.players[j]? = some pl ∧ pl.hand = acc.strongest

/-- one iteration on a non-colliding player: no panic, the invariant is kept, the player is appended -/
theorem sdStep_ok (board : List Card) (acc : SdAcc) (p : Combo) (hI : Inv board acc)
    (hb : board.length = 5) (hnd : board.Nodup)
    (hbv : ∀ c ∈ board, c.valid = true) (hp : p.fst.valid = true ∧ p.snd.valid = true ∧ p.fst ≠ p.snd)
    (hc : collides board p = false) :
    ∃ acc', sdStep board acc.players.length acc p = .ok (some acc') ∧ Inv board acc'
      ∧ acc'.players.map (·.hole) = acc.players.map (·.hole) ++ [p] := by
  have he := eval_own_seven board p hb hnd hbv hp hc
  have hle := best_le ((sevenCards p board).map C01.toSpec)
  generalize hpi : best ((sevenCards p board).map C01.toSpec) = pi at he hle
  unfold sdStep
  rw [show (board.contains p.fst || board.contains p.snd) = false from hc]
  simp only [he, Bool.false_eq_true, if_false]
  obtain ⟨pls, s, w⟩ := acc
  obtain ⟨ev, low, att, le, init, win⟩ := hI
  simp only at ev low att le init win ⊢
  have hev : ∀ pl ∈ pls ++ [{ hole := p, hand := pi, win := false }],
      eval7 (sevenCards pl.hole board) = .ok pl.hand
            ∧ pl.hand = best ((sevenCards pl.hole board).map C01.toSpec) ∧ pl.win = false := by
    intro pl hpl
    rcases List.mem_append.mp hpl with h | h
    · exact ev pl h
    · simp only [List.mem_singleton] at h
      subst h
      exact ⟨he, hpi.symm, rfl⟩
  by_cases h1 : pi ≤ s
  · by_cases h2 : pi < s
    · simp only [h1, h2, if_true]
      refine ⟨_, rfl, ⟨hev, ?_, ?_, hle, by simp, ?_⟩, by simp⟩
      · intro pl hpl
        rcases List.mem_append.mp hpl with h | h
        · have := low pl h; simp only; omega
        · simp only [List.mem_singleton] at h
          subst h; simp
      · intro _
        exact ⟨_, List.mem_append_right _ (List.mem_singleton.mpr rfl), rfl⟩
      · intro j
        simp only [List.mem_singleton]
        constructor
        · rintro rfl
          exact ⟨⟨p, pi, false⟩, by simp, rfl⟩
        · rintro ⟨pl, hj, hh⟩
          rcases Nat.lt_trichotomy j pls.length with hlt | heq | hgt
          · rw [List.getElem?_append_left hlt] at hj
            have := low pl (List.mem_of_getElem? hj)
            omega
          · exact heq
          · rw [List.getElem?_eq_none (by simp; omega)] at hj
            cases hj
    · have hs : pi = s := by omega
      subst hs
      simp only [Nat.le_refl, Nat.lt_irrefl, if_true, if_false]
      refine ⟨_, rfl, ⟨hev, ?_, ?_, hle, by simp, ?_⟩, by simp⟩
      · intro pl hpl
        rcases List.mem_append.mp hpl with h | h
        · exact low pl h
        · simp only [List.mem_singleton] at h
          subst h; simp
      · intro _
        exact ⟨_, List.mem_append_right _ (List.mem_singleton.mpr rfl), rfl⟩
      · intro j
        simp only [List.mem_cons, win]
        constructor
        · rintro (rfl | ⟨pl, hj, hh⟩)
          · exact ⟨⟨p, pi, false⟩, by simp, rfl⟩
          · exact ⟨pl, by rw [List.getElem?_append_left (List.getElem?_eq_some_iff.mp hj).1]; exact hj, hh⟩
        · rintro ⟨pl, hj, hh⟩
          rcases Nat.lt_trichotomy j pls.length with hlt | heq | hgt
          · rw [List.getElem?_append_left hlt] at hj
            exact Or.inr ⟨pl, hj, hh⟩
          · exact Or.inl heq
          · rw [List.getElem?_eq_none (by simp; omega)] at hj
            cases hj
  · simp only [h1, if_false]
    refine ⟨_, rfl, ⟨hev, ?_, ?_, le, by simp, ?_⟩, by simp⟩
    · intro pl hpl
      rcases List.mem_append.mp hpl with h | h
      · exact low pl h
      · simp only [List.mem_singleton] at h
        subst h; simp only; omega
    · intro _
      have hne : pls ≠ [] := by
        intro h0
        have := init h0
        omega
      obtain ⟨pl, hm, hh⟩ := att hne
      exact ⟨pl, List.mem_append_left _ hm, hh⟩
    · intro j
      simp only [win]
      constructor
      · rintro ⟨pl, hj, hh⟩
        exact ⟨pl, by rw [List.getElem?_append_left (List.getElem?_eq_some_iff.mp hj).1]; exact hj, hh⟩
      · rintro ⟨pl, hj, hh⟩
        rcases Nat.lt_trichotomy j pls.length with hlt | heq | hgt
        · rw [List.getElem?_append_left hlt] at hj
          exact ⟨pl, hj, hh⟩
        · subst heq
          simp at hj
          subst hj
          simp only at hh
          omega
        · rw [List.getElem?_eq_none (by simp; omega)] at hj
          cases hj

/-- the loop on players none of whom collides -/
theorem sdLoop_ok (board : List Card) (hb : board.length = 5) (hnd : board.Nodup)
    (hbv : ∀ c ∈ board, c.valid = true) (rest : List Combo) :
    ∀ (i : Nat) (acc : SdAcc), Inv board acc → i = acc.players.length →
      (∀ p ∈ rest, p.fst.valid = true ∧ p.snd.valid = true ∧ p.fst ≠ p.snd) →
      (∀ p ∈ rest, collides board p = false) →
      ∃ acc', sdLoop board rest i acc = .ok (some acc') ∧ Inv board acc'
        ∧ acc'.players.map (·.hole) = acc.players.map (·.hole) ++ rest := by
  induction rest with
  | nil => intro i acc hI _ _ _; exact ⟨acc, rfl, hI, by simp⟩
  | cons p rest ih =>
    intro i acc hI hi hw hno
    subst hi
    obtain ⟨acc1, h1, hI1, hm1⟩ :=
      sdStep_ok board acc p hI hb hnd hbv (hw p (by simp)) (hno p (by simp))
    have hlen : acc1.players.length = acc.players.length + 1 := by
      have := congrArg List.length hm1
      simpa using this
    obtain ⟨acc2, h2, hI2, hm2⟩ := ih (acc.players.length + 1) acc1 hI1 hlen.symm
      (fun q hq => hw q (List.mem_cons_of_mem _ hq)) (fun q hq => hno q (List.mem_cons_of_mem _ hq))
    refine ⟨acc2, ?_, hI2, ?_⟩
    · simp only [sdLoop, h1]; exact h2
    · rw [hm2, hm1]; simp

/-- the loop on players one of whom collides: the early `return None` -/
theorem sdLoop_none (board : List Card) (hb : board.length = 5) (hnd : board.Nodup)
    (hbv : ∀ c ∈ board, c.valid = true) (rest : List Combo) :
    ∀ (i : Nat) (acc : SdAcc), Inv board acc → i = acc.players.length →
      (∀ p ∈ rest, p.fst.valid = true ∧ p.snd.valid = true ∧ p.fst ≠ p.snd) →
      (∃ p ∈ rest, collides board p = true) →
      sdLoop board rest i acc = .ok none := by
  induction rest with
  | nil => intro i acc _ _ _ h; obtain ⟨p, hp, _⟩ := h; cases hp
  | cons p rest ih =>
    intro i acc hI hi hw hex
    subst hi
    cases hcp : collides board p with
    | true =>
      have : sdStep board acc.players.length acc p = .ok none := by
        unfold sdStep
        rw [show (board.contains p.fst || board.contains p.snd) = true from hcp]
        simp
      simp only [sdLoop, this]
    | false =>
      obtain ⟨acc1, h1, hI1, hm1⟩ := sdStep_ok board acc p hI hb hnd hbv (hw p (by simp)) hcp
      have hlen : acc1.players.length = acc.players.length + 1 := by
        have := congrArg List.length hm1
        simpa using this
      have hex' : ∃ q ∈ rest, collides board q = true := by
        obtain ⟨q, hq, hcq⟩ := hex
        rcases List.mem_cons.mp hq with rfl | hq
        · rw [hcp] at hcq; cases hcq
        · exact ⟨q, hq, hcq⟩
      simp only [sdLoop, h1]
      exact ih (acc.players.length + 1) acc1 hI1 hlen.symm
        (fun q hq => hw q (List.mem_cons_of_mem _ hq)) hex'

theorem inv_init (board : List Card) : Inv board { players := [], strongest := 65535, winners := [] } :=
  ⟨by simp, by simp, by simp, by simp, by simp, by simp⟩

/-- the flag pass, position by position -/
theorem flag_getElem? (players : List ShowdownPlayer) (winners : List Nat) (j : Nat) :
    (flagWinners players winners)[j]? =
      players[j]?.map (fun pl => if winners.contains j then { pl with win := true } else pl) := by
  unfold flagWinners
  simp only [List.getElem?_map, List.getElem?_zipIdx, Option.map_map, Nat.zero_add]
  rfl

theorem flag_length (players : List ShowdownPlayer) (winners : List Nat) :
    (flagWinners players winners).length = players.length := by
  simp [flagWinners]

theorem flag_hole (players : List ShowdownPlayer) (winners : List Nat) :
    (flagWinners players winners).map (·.hole) = players.map (·.hole) := by
  apply List.ext_getElem?
  intro j
  simp only [List.getElem?_map, flag_getElem?]
  cases players[j]? with
  | none => rfl
  | some pl => simp only [Option.map_some]; split <;> rfl

theorem flag_hand (players : List ShowdownPlayer) (winners : List Nat) :
    (flagWinners players winners).map (·.hand) = players.map (·.hand) := by
  apply List.ext_getElem?
  intro j
  simp only [List.getElem?_map, flag_getElem?]
  cases players[j]? with
  | none => rfl
  | some pl => simp only [Option.map_some]; split <;> rfl

/-- attaining `strongest` is the same as being undercut by nobody -/
theorem min_iff (board : List Card) (acc : SdAcc) (hI : Inv board acc) (pl : ShowdownPlayer)
    (hm : pl ∈ acc.players) :
    pl.hand = acc.strongest ↔ ∀ pl' ∈ acc.players, pl.hand ≤ pl'.hand := by
  constructor
  · intro h pl' hm'
    rw [h]; exact hI.low pl' hm'
  · intro h
    obtain ⟨pl0, hm0, h0⟩ := hI.att (List.ne_nil_of_mem hm)
    have h1 := h pl0 hm0
    have h2 := hI.low pl hm
    omega

theorem flag_win (board : List Card) (acc : SdAcc) (hI : Inv board acc) :
    (flagWinners acc.players acc.winners).map (·.win) = winnersOf (acc.players.map (·.hand)) := by
  apply List.ext_getElem?
  intro j
  simp only [winnersOf, List.getElem?_map, flag_getElem?]
  cases hj : acc.players[j]? with
  | none => rfl
  | some pl =>
    simp only [Option.map_some]
    congr 1
    have hm : pl ∈ acc.players := List.mem_of_getElem? hj
    have hw := (hI.evals pl hm).2.2
    have hiff := min_iff board acc hI pl hm
    have hwin := hI.win j
    by_cases hc : j ∈ acc.winners
    · have hc' : acc.winners.contains j = true := by simpa using hc
      simp only [hc', if_true]
      symm
      rw [List.all_eq_true]
      intro h' hh'
      obtain ⟨pl', hm', rfl⟩ := List.mem_map.mp hh'
      obtain ⟨pl2, hj2, hs2⟩ := hwin.mp hc
      rw [hj] at hj2
      cases hj2
      simpa using hiff.mp hs2 pl' hm'
    · have hc' : acc.winners.contains j = false := by simpa using hc
      simp only [hc', Bool.false_eq_true, if_false, hw]
      symm
      rw [Bool.eq_false_iff]
      intro hall
      rw [List.all_eq_true] at hall
      apply hc
      apply hwin.mpr
      refine ⟨pl, hj, hiff.mpr ?_⟩
      intro pl' hm'
      simpa using hall pl'.hand (List.mem_map.mpr ⟨pl', hm', rfl⟩)

/-- No showdown is produced exactly when some player's hole card lies on the board. -/
theorem C03_none_iff {W : Type} (board : List Card) (ps : List Combo) (prob : W) (h : WfTable board ps) :
    showdownNew ps board prob = .ok none ↔ ∃ p ∈ ps, collides board p = true := by
  constructor
  · intro hs
    apply Decidable.byContradiction
    intro hne
    have hno : ∀ p ∈ ps, collides board p = false := by
      intro p hp
      cases hcp : collides board p with
      | false => rfl
      | true => exact absurd ⟨p, hp, hcp⟩ hne
    obtain ⟨acc, hl, _, _⟩ := sdLoop_ok board h.board_len h.board_nodup h.board_valid ps 0 _
      (inv_init board) rfl h.holes hno
    simp only [showdownNew, hl] at hs
    cases hs
  · intro hex
    have := sdLoop_none board h.board_len h.board_nodup h.board_valid ps 0 _
      (inv_init board) rfl h.holes hex
    simp only [showdownNew, this]

/-- Otherwise a showdown is produced; it lists the players in input order, each with the evaluation of
that player's own seven cards; the winners are exactly the players whose index no other player
undercuts; `winner_len` is the number of flagged players and is at least one (for a non-empty table). -/
theorem C03_some {W : Type} (board : List Card) (ps : List Combo) (prob : W) (h : WfTable board ps)
    (hno : ∀ p ∈ ps, collides board p = false) :
    ∃ sd : Showdown W, showdownNew ps board prob = .ok (some sd)
      ∧ sd.board = board ∧ sd.prob = prob
      ∧ sd.players.map (·.hole) = ps
      ∧ (∀ pl ∈ sd.players, eval7 (sevenCards pl.hole board) = .ok pl.hand
            ∧ pl.hand = best ((sevenCards pl.hole board).map C01.toSpec))
      ∧ sd.players.map (·.win) = winnersOf (sd.players.map (·.hand))
      ∧ (ps.length ≤ 255 → ∀ dbg, winnerLen sd dbg = .ok (sd.players.countP (·.win)))
      ∧ (ps ≠ [] → 1 ≤ sd.players.countP (·.win)) := by
  obtain ⟨acc, hl, hI, hm⟩ := sdLoop_ok board h.board_len h.board_nodup h.board_valid ps 0 _
    (inv_init board) rfl h.holes hno
  simp only [List.map_nil, List.nil_append] at hm
  refine ⟨{ board := board, players := flagWinners acc.players acc.winners, prob := prob }, ?_, rfl, rfl,
    ?_, ?_, ?_, ?_, ?_⟩
  · simp only [showdownNew, hl]
  · simp only [flag_hole, hm]
  · intro pl hpl
    simp only at hpl
    obtain ⟨j, hj⟩ := List.mem_iff_getElem?.mp hpl
    rw [flag_getElem?] at hj
    cases hj0 : acc.players[j]? with
    | none => rw [hj0] at hj; cases hj
    | some pl0 =>
      rw [hj0] at hj
      simp only [Option.map_some, Option.some.injEq] at hj
      have hev := hI.evals pl0 (List.mem_of_getElem? hj0)
      subst hj
      split
      · exact ⟨hev.1, hev.2.1⟩
      · exact ⟨hev.1, hev.2.1⟩
  · simp only [flag_hand]
    exact flag_win board acc hI
  · intro hlen dbg
    have h1 : (flagWinners acc.players acc.winners).countP (·.win) ≤ 255 := by
      have := List.countP_le_length (p := (·.win)) (l := flagWinners acc.players acc.winners)
      rw [flag_length] at this
      have h2 : acc.players.length = ps.length := by
        have := congrArg List.length hm
        simpa using this
      omega
    simp only [winnerLen, h1, if_true]
  · intro hne
    simp only
    rw [List.one_le_countP_iff]
    have hne' : acc.players ≠ [] := by
      intro h0
      rw [h0] at hm
      exact hne hm.symm
    obtain ⟨pl, hpl, hs⟩ := hI.att hne'
    obtain ⟨j, hj⟩ := List.mem_iff_getElem?.mp hpl
    have hjw : acc.winners.contains j = true := by
      simpa using (hI.win j).mpr ⟨pl, hj, hs⟩
    refine ⟨{ pl with win := true }, ?_, rfl⟩
    apply List.mem_iff_getElem?.mpr
    refine ⟨j, ?_⟩
    rw [flag_getElem?, hj]
    simp only [Option.map_some, hjw, if_true]

/-- in particular: a flagged player's class is minimal, an unflagged player's is not -/
theorem C03_winner_iff {W : Type} (board : List Card) (ps : List Combo) (prob : W) (h : WfTable board ps)
    (sd : Showdown W) (hsd : showdownNew ps board prob = .ok (some sd)) :
    ∀ pl ∈ sd.players, (pl.win = true ↔ ∀ pl' ∈ sd.players, pl.hand ≤ pl'.hand) := by
  have hno : ∀ p ∈ ps, collides board p = false := by
    intro p hp
    cases hcp : collides board p with
    | false => rfl
    | true =>
      have := (C03_none_iff board ps prob h).mpr ⟨p, hp, hcp⟩
      rw [this] at hsd
      cases hsd
  obtain ⟨sd', hsd', _, _, _, _, hwin, _, _⟩ := C03_some board ps prob h hno
  rw [hsd] at hsd'
  cases hsd'
  intro pl hpl
  obtain ⟨j, hj⟩ := List.mem_iff_getElem?.mp hpl
  have := congrArg (·[j]?) hwin
  simp only [winnersOf, List.getElem?_map, hj, Option.map_some, Option.some.injEq] at this
  rw [this, List.all_eq_true]
  constructor
  · intro hall pl' hm'
    simpa using hall pl'.hand (List.mem_map.mpr ⟨pl', hm', rfl⟩)
  · intro hall h' hh'
    obtain ⟨pl', hm', rfl⟩ := List.mem_map.mp hh'
    simpa using hall pl' hm'

end EspadaVerif.C03
