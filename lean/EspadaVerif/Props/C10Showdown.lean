/-
C10 (showdowns, gaps F5 F6) — "every showdown probability computed from parsed ranges also lies in [0,1] and no
showdown ever contains the same card twice", as ONE statement about the iterator's output on PARSED ranges.

`C10_prob` is about a list fold and `C10_cards` about `Spec.deals` on any well-formed input; here they are composed with
`C10_combo` / `C10_weight` (what the parser produces), `C02_refines` (what the iterator emits) and `C02_payload`
(what a deal's showdown holds): for any texts, the evaluator built from their parsed ranges drains, and EVERY showdown it
emits has its probability in the weight domain and 5 + 2n pairwise different cards.
-/
import EspadaVerif.Props.C10
import EspadaVerif.Props.C02
import EspadaVerif.Props.Witness.C10

set_option Elab.async false

namespace EspadaVerif.C10
open EspadaVerif TextDefs RangeAux

variable {W : Type}

/-- every member of a deal's choice is an entry of one of the players' lists -/
theorem choice_mem_entries (flop : List Nat) (entries : List (List (Nat × Nat × W))) (a b : Nat × Nat)
    (d : Spec.Deal W) (hd : d ∈ Spec.deals flop entries a b) : ∀ c ∈ d.choice, ∃ es ∈ entries, c ∈ es := by
  simp only [Spec.deals, List.mem_flatMap, List.mem_filter, List.mem_map] at hd
  obtain ⟨p, _, ⟨ch, hch, rfl⟩, _⟩ := hd
  exact IterLemmas.mem_product hch

/-- the evaluator's input built from parsed ranges is proper (C10_combo + the map's keys are distinct) -/
theorem wfInput_of_parsed (wt : WText W) (flop : List Card)
    (hf : flop.length = 3 ∧ flop.Nodup ∧ ∀ c ∈ flop, c.valid = true)
    (rs : List (HandRange W)) (hrs : ∀ r ∈ rs, ∃ s, parseRange wt s = .ok r) :
    C02.WfInput flop (rs.map HandRange.contents) := by
  refine ⟨hf.1, hf.2.1, hf.2.2, ?_, ?_⟩
  · intro es hes e he
    obtain ⟨r, hr, rfl⟩ := List.mem_map.mp hes
    obtain ⟨s, hs⟩ := hrs r hr
    exact C10_combo wt s r hs e (mem_contents r e he)
  · intro es hes
    obtain ⟨r, _, rfl⟩ := List.mem_map.mp hes
    exact contents_nodup r

/-- **C10 (showdowns of parsed ranges).** For any list of texts `ss` with parsed ranges `rs`, any flop of three different
valid cards and any valid scope: the evaluator over the ranges' contents drains (with any fuel limit above the number of
showdowns) and EVERY emitted showdown has a probability in the weight domain, a five-card board, and no card twice among
the board cards and all players' hole cards. -/
theorem C10_showdown (wt : WText W) (ops : WOps W) (inDom : W → Prop) (hone : inDom wt.one)
    (hparse : ∀ t w, isWeightText t = true → wt.parseW t = some w → inDom w)
    (hempty : wt.parseW [] = none)
    (hone' : inDom ops.one) (hmul : ∀ a b, inDom a → inDom b → inDom (ops.mul a b))
    (ss : List Bytes) (rs : List (HandRange W)) (hlen : rs.length = ss.length)
    (hrs : ∀ (i : Nat) s r, ss[i]? = some s → rs[i]? = some r → parseRange wt s = .ok r)
    (flop : List Card) (hf : flop.length = 3 ∧ flop.Nodup ∧ ∀ c ∈ flop, c.valid = true)
    (a b : Nat × Nat) (hs : C02.ValidScope a b) :
    ∃ s₀ : IterState W, (C02.mkEvaluator flop (rs.map HandRange.contents) a b).intoIter = .ok s₀ ∧
    ∃ (sds : List (Showdown W)) (sEnd : IterState W),
      (∀ limit, sds.length < limit → drainFuel ops limit s₀ [] = .ok (sds, sEnd))
      ∧ EspadaVerif.next ops sEnd = .ok (none, sEnd)
      ∧ ∀ sd ∈ sds, inDom sd.prob ∧ sd.board.length = 5
          ∧ (sd.board ++ sd.players.flatMap fun p => [p.hole.fst, p.hole.snd]).Nodup := by
  have hrs' : ∀ r ∈ rs, ∃ s, parseRange wt s = .ok r := by
    intro r hr
    obtain ⟨i, hi, hir⟩ := List.getElem_of_mem hr
    have hi' : i < ss.length := by omega
    refine ⟨ss[i], hrs i ss[i] r (List.getElem?_eq_getElem hi') ?_⟩
    rw [List.getElem?_eq_getElem hi, hir]
  have hw := wfInput_of_parsed wt flop hf rs hrs'
  obtain ⟨s₀, hs₀, sds, sEnd, hdrain, hmap, hnext⟩ := C02.C02_refines ops flop _ a b hw hs
  refine ⟨s₀, hs₀, sds, sEnd, hdrain, hnext, fun sd hsd => ?_⟩
  -- the showdown is the showdown of a legal deal
  have hmem : (Res.ok (some sd) : Res (Option (Showdown W))) ∈ sds.map (fun sd => Res.ok (some sd)) :=
    List.mem_map.mpr ⟨sd, hsd, rfl⟩
  rw [← hmap] at hmem
  obtain ⟨d, hd, hdsd⟩ := List.mem_map.mp hmem
  obtain ⟨sd', h1, h2, _, h4, h5⟩ := C02.C02_payload ops flop _ a b hw d hd
  have hsd' : sd' = sd := by
    rw [h1] at hdsd
    exact Option.some.inj (Res.ok.inj hdsd)
  subst hsd'
  refine ⟨?_, ?_, ?_⟩
  · -- the probability: a product, from one, of weights of the parsed ranges
    rw [h4]
    have hws : ∀ w ∈ d.choice.map (fun c => c.2.2), inDom w := by
      intro w hwm
      obtain ⟨c, hc, rfl⟩ := List.mem_map.mp hwm
      obtain ⟨es, hes, hces⟩ := choice_mem_entries _ _ a b d hd c hc
      simp only [C02.specEntries, List.mem_map] at hes
      obtain ⟨es', ⟨r, hr, rfl⟩, rfl⟩ := hes
      obtain ⟨e, he, rfl⟩ := List.mem_map.mp hces
      obtain ⟨s, hs⟩ := hrs' r hr
      exact C10_weight wt inDom hone hparse hempty s r hs e (mem_contents r e he)
    have := C10_prob ops inDom hone' hmul _ hws
    rw [List.foldl_map] at this
    exact this
  · rw [h2]; simp [hf.1]
  · rw [h2]; exact h5

/-! ### the hypotheses at concrete data -/

open EspadaVerif.Witness in
/-- two players, both with the range `AKs,7d7c:0.5` (weights 1 and 0.5 of the four-element weight type whose value 2 lies
outside the domain), flop A♠ K♦ 7♣, the last three positions: every emitted showdown has its probability in
{0, 0.5, 1} and nine different cards -/
example :
    ∃ s₀ : IterState Wt,
      (C02.mkEvaluator Witness.flop ([Witness.r₀, Witness.r₀].map HandRange.contents) (46, 47) (48, 49)).intoIter = .ok s₀ ∧
    ∃ (sds : List (Showdown Wt)) (sEnd : IterState Wt),
      (∀ limit, sds.length < limit → drainFuel wtOps limit s₀ [] = .ok (sds, sEnd))
      ∧ EspadaVerif.next wtOps sEnd = .ok (none, sEnd)
      ∧ ∀ sd ∈ sds, wtDom sd.prob ∧ sd.board.length = 5
          ∧ (sd.board ++ sd.players.flatMap fun p => [p.hole.fst, p.hole.snd]).Nodup :=
  C10_showdown wtText wtOps wtDom wt_one_dom wt_parse_dom wt_parse_empty wtDom_one wtDom_mul
    [Witness.txt, Witness.txt] [Witness.r₀, Witness.r₀] rfl
    (by
      intro i s r hs hr
      match i with
      | 0 => cases hs; cases hr; exact Witness.txt_parses
      | 1 => cases hs; cases hr; exact Witness.txt_parses
      | i + 2 => cases hs)
    Witness.flop ⟨by decide, by decide, by decide⟩ (46, 47) (48, 49) ⟨by decide, by decide, by decide⟩

end EspadaVerif.C10
