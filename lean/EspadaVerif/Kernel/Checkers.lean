/-
Kernel/Checkers: the finite-table obligations of C01 as Boolean checkers, with the lemmas that
lift a successful kernel evaluation (`decide +kernel`) to the universally quantified statement.

* `rainbowOK R` : for a sorted list `R` of seven rank codes, the no-flush table holds at the hash of
  `R` the best class among the 21 five-rank sub-hands of `R` (as unsuited hands); and when `R` has at
  least five different ranks that class is ≥ 1600 (so any flush beats it).
* `flushOK F`   : for strictly increasing `F` (5..7 ranks of one suit) the flush table holds at the
  13-bit mask of `F` the best suited class among the five-rank subsets of `F`, which is ≤ 1599.
* `chkFrom` / `chkInc` enumerate all sorted / strictly increasing lists by construction (no list
  whose completeness would itself need a proof).
-/
import EspadaVerif.Model.Eval
import EspadaVerif.Spec.Poker

namespace EspadaVerif.Kernel
open EspadaVerif Spec

def uclassL : List Nat → Nat
  | [a, b, c, d, e] => uclass a b c d e
  | _ => 0

def sclassL : List Nat → Nat
  | [a, b, c, d, e] => sclass a b c d e
  | _ => 0

/-- best unsuited class among the five-element sublists of a sorted rank list -/
def nf7 (R : List Nat) : Nat := minList ((choose 5 R).map uclassL)
/-- best suited class among the five-element sublists of a strictly increasing rank list -/
def fl7 (F : List Nat) : Nat := minList ((choose 5 F).map sclassL)

/-- sum of the flush weights of a rank list (`hash_for_flush` restricted to the cards of the suit) -/
def flushHash (rs : List Nat) : Nat := (rs.map (fun r => Gen.flushWeightTbl.getD r 0)).sum

/-- a sorted list of seven ranks holds some rank (at least) five times -/
def fiveEq : List Nat → Bool
  | [a, b, c, _, e, f, g] => a == e || b == f || c == g
  | _ => false

/-- number of strict ascents between neighbours (= number of distinct ranks − 1 for a sorted list) -/
def ascents : List Nat → Nat
  | a :: b :: t => (if a < b then 1 else 0) + ascents (b :: t)
  | _ => 0

def rainbowOK (R : List Nat) : Bool :=
  fiveEq R ||
  (match hashRanks R with
   | .ok h =>
     match asRainbow h with
     | .ok v => (v == nf7 R) && (decide (ascents R < 4) || decide (1600 ≤ v))
     | _ => false
   | _ => false)

def flushOK (F : List Nat) : Bool :=
  match asFlush (flushHash F) with
  | .ok v => (v == fl7 F) && decide (v ≤ 1599)
  | _ => false

/-- all non-decreasing continuations of length `k` with entries in `lo..12`, appended to the reversed
accumulator, satisfy `P` -/
def chkFrom (P : List Nat → Bool) : Nat → Nat → List Nat → Bool
  | 0, _, acc => P acc.reverse
  | k + 1, lo, acc => (List.range' lo (13 - lo)).all (fun r => chkFrom P k r (r :: acc))

/-- same for strictly increasing continuations -/
def chkInc (P : List Nat → Bool) : Nat → Nat → List Nat → Bool
  | 0, _, acc => P acc.reverse
  | k + 1, lo, acc => (List.range' lo (13 - lo)).all (fun r => chkInc P k (r + 1) (r :: acc))

theorem chkFrom_sound (P : List Nat → Bool) : ∀ (k lo : Nat) (acc : List Nat), chkFrom P k lo acc = true →
    ∀ t : List Nat, t.length = k → t.Pairwise (· ≤ ·) → (∀ r ∈ t, lo ≤ r ∧ r < 13) →
    P (acc.reverse ++ t) = true := by
  intro k
  induction k with
  | zero =>
    intro lo acc h t ht _ _
    have : t = [] := List.eq_nil_of_length_eq_zero ht
    subst this
    simpa [chkFrom] using h
  | succ k ih =>
    intro lo acc h t ht hs hb
    match t, ht with
    | r :: t', ht =>
      have hr := hb r (List.mem_cons_self)
      simp only [chkFrom, List.all_eq_true] at h
      have hmem : r ∈ List.range' lo (13 - lo) := by
        simp only [List.mem_range'_1]; omega
      have h1 := h r hmem
      have hs' := List.pairwise_cons.mp hs
      have := ih r (r :: acc) h1 t' (by simpa using ht) hs'.2
        (fun x hx => ⟨hs'.1 x hx, (hb x (List.mem_cons_of_mem _ hx)).2⟩)
      simpa using this

theorem chkInc_sound (P : List Nat → Bool) : ∀ (k lo : Nat) (acc : List Nat), chkInc P k lo acc = true →
    ∀ t : List Nat, t.length = k → t.Pairwise (· < ·) → (∀ r ∈ t, lo ≤ r ∧ r < 13) →
    P (acc.reverse ++ t) = true := by
  intro k
  induction k with
  | zero =>
    intro lo acc h t ht _ _
    have : t = [] := List.eq_nil_of_length_eq_zero ht
    subst this
    simpa [chkInc] using h
  | succ k ih =>
    intro lo acc h t ht hs hb
    match t, ht with
    | r :: t', ht =>
      have hr := hb r (List.mem_cons_self)
      simp only [chkInc, List.all_eq_true] at h
      have hmem : r ∈ List.range' lo (13 - lo) := by
        simp only [List.mem_range'_1]; omega
      have h1 := h r hmem
      have hs' := List.pairwise_cons.mp hs
      have := ih (r + 1) (r :: acc) h1 t' (by simpa using ht) hs'.2
        (fun x hx => ⟨hs'.1 x hx, (hb x (List.mem_cons_of_mem _ hx)).2⟩)
      simpa using this

/-! ### leaves: the enumeration is cut after a prefix so that the kernel work splits into many small
obligations (one `decide +kernel` per prefix, grouped into files built in parallel) -/

/-- rainbow leaf for the prefix `a ≤ b ≤ c ≤ d` -/
def rainbowLeaf (p : Nat × Nat × Nat × Nat) : Bool :=
  chkFrom rainbowOK 3 p.2.2.2 [p.2.2.2, p.2.2.1, p.2.1, p.1]

def allPrefixes4 : List (Nat × Nat × Nat × Nat) :=
  (List.range' 0 13).flatMap fun a => (List.range' a (13 - a)).flatMap fun b =>
    (List.range' b (13 - b)).flatMap fun c => (List.range' c (13 - c)).map fun d => (a, b, c, d)

theorem rainbow_sound (hleaf : ∀ p ∈ allPrefixes4, rainbowLeaf p = true) :
    ∀ R : List Nat, R.length = 7 → R.Pairwise (· ≤ ·) → (∀ r ∈ R, r < 13) → rainbowOK R = true := by
  intro R hl hs hb
  match R, hl with
  | a :: b :: c :: d :: t, hl =>
    have hmem : (a, b, c, d) ∈ allPrefixes4 := by
      simp only [allPrefixes4, List.mem_flatMap, List.mem_map, List.mem_range'_1]
      have h1 := List.pairwise_cons.mp hs
      have h2 := List.pairwise_cons.mp h1.2
      have h3 := List.pairwise_cons.mp h2.2
      have ha := hb a (by simp); have hb' := hb b (by simp); have hc := hb c (by simp); have hd := hb d (by simp)
      have hab := h1.1 b (by simp); have hbc := h2.1 c (by simp); have hcd := h3.1 d (by simp)
      exact ⟨a, by omega, b, by omega, c, by omega, d, by omega, rfl⟩
    have h := hleaf _ hmem
    have h1 := List.pairwise_cons.mp hs
    have h2 := List.pairwise_cons.mp h1.2
    have h3 := List.pairwise_cons.mp h2.2
    have h4 := List.pairwise_cons.mp h3.2
    have := chkFrom_sound rainbowOK 3 d [d, c, b, a] h t (by simpa using hl) h4.2
      (fun x hx => ⟨h4.1 x hx, hb x (by simp [hx])⟩)
    simpa using this

/-- flush leaf: strictly increasing lists of length `n` starting with `a < b` -/
def flushLeaf (n : Nat) (p : Nat × Nat) : Bool := chkInc flushOK (n - 2) (p.2 + 1) [p.2, p.1]

def allPrefixes2 : List (Nat × Nat) :=
  (List.range' 0 13).flatMap fun a => (List.range' (a + 1) (13 - (a + 1))).map fun b => (a, b)

theorem flush_sound (n : Nat) (hn : 2 ≤ n) (hleaf : ∀ p ∈ allPrefixes2, flushLeaf n p = true) :
    ∀ F : List Nat, F.length = n → F.Pairwise (· < ·) → (∀ r ∈ F, r < 13) → flushOK F = true := by
  intro F hl hs hb
  match F, hl with
  | a :: b :: t, hl =>
    have h1 := List.pairwise_cons.mp hs
    have h2 := List.pairwise_cons.mp h1.2
    have hmem : (a, b) ∈ allPrefixes2 := by
      simp only [allPrefixes2, List.mem_flatMap, List.mem_map, List.mem_range'_1]
      have ha := hb a (by simp); have hb' := hb b (by simp)
      have hab := h1.1 b (by simp)
      exact ⟨a, by omega, b, by omega, rfl⟩
    have h := hleaf _ hmem
    have := chkInc_sound flushOK (n - 2) (b + 1) [b, a] h t (by simp at hl; omega) h2.2
      (fun x hx => ⟨h2.1 x hx, hb x (by simp [hx])⟩)
    simpa using this
  | [], hl => simp at hl; omega
  | [_], hl => simp at hl; omega

end EspadaVerif.Kernel
