/-
Kernel/NumDefs: Boolean checkers behind Lemmas/Numbering (the closed-form class numbering is the
order rank of the rule-book strength), and the lemmas that lift their kernel evaluation.

* `unrank i` : the shape of class `i`, read from the packed table `numWords` (generated, untrusted:
  everything used about it is checked by the kernel in the two passes below).
* pass A (`leafA`) : every valid shape `s` has `1 ≤ cls s ≤ 7462`, `unrank (cls s) = s`, and the
  category of its strength is the category of its class.  The valid shapes are enumerated by
  construction (`a ≤ b ≤ c ≤ d ≤ e < 13`, both values of `suited`); a leaf fixes the prefix `(a,b,c)`.
* pass B (`leafB`) : every `i` in `1..7462` has `unrank i` valid of class `i`, and `unrank i` is
  strictly stronger than `unrank (i+1)`.
* `chkRange f lo n` : `f` holds on `lo, lo+1, …, lo+n-1`; the generated files prove it on small ranges
  by `decide +kernel` and `chkRange_append` glues the ranges.
-/
import EspadaVerif.Spec.Poker
import EspadaVerif.Kernel.NumTable

namespace EspadaVerif.Kernel
open EspadaVerif Spec

/-- `f` is true on the `n` numbers starting at `lo` -/
def chkRange (f : Nat → Bool) : Nat → Nat → Bool
  | _, 0 => true
  | lo, n + 1 => f lo && chkRange f (lo + 1) n

theorem chkRange_sound (f : Nat → Bool) : ∀ (n lo : Nat), chkRange f lo n = true →
    ∀ i, lo ≤ i → i < lo + n → f i = true := by
  intro n
  induction n with
  | zero => intro lo _ i h1 h2; omega
  | succ n ih =>
    intro lo h i h1 h2
    simp only [chkRange, Bool.and_eq_true] at h
    by_cases hi : i = lo
    · subst hi; exact h.1
    · exact ih (lo + 1) h.2 i (by omega) (by omega)

theorem chkRange_append (f : Nat → Bool) (lo m n : Nat) (h1 : chkRange f lo m = true)
    (h2 : chkRange f (lo + m) n = true) : chkRange f lo (m + n) = true := by
  induction m generalizing lo with
  | zero => simpa using h2
  | succ m ih =>
    simp only [chkRange, Bool.and_eq_true] at h1
    have e : m + 1 + n = (m + n) + 1 := by omega
    rw [e]
    simp only [chkRange, Bool.and_eq_true]
    refine ⟨h1.1, ih (lo + 1) h1.2 ?_⟩
    have e2 : lo + 1 + m = lo + (m + 1) := by omega
    rw [e2]; exact h2

/-! ### the table -/

/-- a shape from its 24-bit code: bit 20 = suited, then `a b c d e` as hex digits -/
def decodeShape (w : Nat) : Shape :=
  ⟨w / 0x100000 % 2 == 1, w / 0x10000 % 16, w / 0x1000 % 16, w / 0x100 % 16, w / 0x10 % 16, w % 16⟩

/-- the shape listed at position `i` (1-based) of the table -/
def unrank (i : Nat) : Shape :=
  decodeShape ((numWords.getD ((i - 1) / 64) 0 >>> (24 * ((i - 1) % 64))) % 0x1000000)

/-! ### pass A -/

def okShape (s : Shape) : Bool :=
  !s.valid ||
  (decide (1 ≤ s.cls) && decide (s.cls ≤ 7462) && decide (unrank s.cls = s)
    && (categoryOfStrength s.str == catOfClass s.cls))

/-- all shapes with ranks `a b c ≤ d ≤ e < 13` are fine (provided `a ≤ b ≤ c`) -/
def leafP (a b c : Nat) : Bool :=
  !(decide (a ≤ b) && decide (b ≤ c)) ||
  chkRange (fun d => chkRange (fun e => okShape ⟨false, a, b, c, d, e⟩ && okShape ⟨true, a, b, c, d, e⟩) d (13 - d))
    c (13 - c)

/-- leaf of pass A for the prefix `(a, b, c)` coded as `169 a + 13 b + c` -/
def leafA (n : Nat) : Bool := leafP (n / 169) (n / 13 % 13) (n % 13)

/-! ### pass B -/

def leafB (i : Nat) : Bool :=
  (unrank i).valid && ((unrank i).cls == i) && (i == 7462 || decide ((unrank (i + 1)).str < (unrank i).str))

end EspadaVerif.Kernel
