/-
`#audit_ns Foo.Bar` prints, for every theorem whose name starts with `Foo.Bar.`, one line
`AUDIT <name> [<axioms it depends on>] #<hash of the statement>`.  The check script counts obligations from these lines and
requires every axiom set to be within {propext, Classical.choice, Quot.sound}.
-/
import Lean
open Lean Elab Command

elab "#audit_ns " ns:ident : command => do
  let env ← getEnv
  let pfx := ns.getId
  let mut names : Array Name := #[]
  for (name, info) in env.constants.toList do
    if pfx.isPrefixOf name && name != pfx then
      match info with
      | .thmInfo _ =>
        if !name.isInternalDetail then names := names.push name
      | _ => pure ()
  let sorted := names.qsort (fun a b => a.toString < b.toString)
  for name in sorted do
    let axs ← collectAxioms name
    let axs := axs.qsort (fun a b => a.toString < b.toString)
    -- `#<hash>`: structural hash of the theorem's STATEMENT (its type), so that a statement changed under an unchanged
    -- name is noticed by the check script (it compares with the recorded statements in checklib/statements.json)
    let ty := (← getConstInfo name).type
    logInfo m!"AUDIT {name} {axs.toList} #{ty.hash}"
