/-
Model/Token: `RankPair` (src/hand_range/rank_pair.rs) and `HandRangeToken` (src/hand_range/hand_range_token.rs):
`from_str` (as repaired by D7–D9: reversed spans and equal-card pairs are rejected, the weight grammar is
`0(.d+)?` or `1(.0+)?`), `into_iter`, `Display`.

The `regex` crate is not modelled: each of the seven anchored patterns is a hand-written recogniser over
bytes; `Gen.tokenRegexSrc` carries the pattern literals read from the source and `Props` checks they are
the literals these recognisers were written for.  Weights are abstract: text conversion is a parameter.
-/
import EspadaVerif.Model.Pair
import EspadaVerif.Gen.RankPair
import EspadaVerif.Gen.Token

namespace EspadaVerif

/-- what the model needs to know about `f32` beyond the product: `== 1.0`, `==`, `Display`, `FromStr` -/
structure WText (W : Type) where
  one : W
  eq : W → W → Bool            -- `f32 ==`
  showW : W → Bytes            -- `format!("{}", w)`
  parseW : Bytes → Option W    -- `f32::from_str(text).ok()`

inductive RankPair where
  | pocket (r : Nat)
  | suited (high kicker : Nat)
  | ofsuit (high kicker : Nat)
  deriving DecidableEq, Repr

/-- `RankPair::into_iter`: the suit pairs come from the source, every combo goes through `CardPair::new` -/
def RankPair.combos : RankPair → List Combo
  | .pocket r => Gen.pocketSuits.map fun s => mkPair ⟨r, s.1⟩ ⟨r, s.2⟩
  | .suited h k => Gen.suitedSuits.map fun s => mkPair ⟨h, s.1⟩ ⟨k, s.2⟩
  | .ofsuit h k => Gen.ofsuitSuits.map fun s => mkPair ⟨h, s.1⟩ ⟨k, s.2⟩

/-- `Display for RankPair` -/
def RankPair.show : RankPair → Bytes
  | .pocket r => [rankChar r, rankChar r]
  | .suited h k => [rankChar h, rankChar k, 115]      -- 's'
  | .ofsuit h k => [rankChar h, rankChar k, 111]      -- 'o'

inductive TokenKind where
  | bottomClosed (rp : RankPair)
  | doubleClosed (rp : RankPair) (last : Nat)
  | singleRank (rp : RankPair)
  | singleCard (cp : Combo)
  deriving DecidableEq, Repr

structure Token (W : Type) where
  kind : TokenKind
  prob : W

/-! ### recognisers for the seven patterns -/

def isRankByte (b : Nat) : Bool := [65, 75, 81, 74, 84, 57, 56, 55, 54, 53, 52, 51, 50].contains b   -- [AKQJT98765432]
def isSuitByte (b : Nat) : Bool := [115, 104, 100, 99].contains b                                   -- [shdc]
def isSoByte (b : Nat) : Bool := b == 115 || b == 111                                               -- [so]
def isDigit (b : Nat) : Bool := 48 ≤ b && b ≤ 57

/-- `0(\.[0-9]+)?|1(\.0+)?` -/
def isWeightText : Bytes → Bool
  | [48] => true
  | 48 :: 46 :: d :: ds => (d :: ds).all isDigit
  | [49] => true
  | 49 :: 46 :: d :: ds => (d :: ds).all (· == 48)
  | _ => false

/-- `(:W)?$` -/
def isWeightSuffix : Bytes → Bool
  | [] => true
  | 58 :: w => isWeightText w
  | _ => false

/-- `^[R]{2}-[R]{2}(:W)?$` -/
def reDoublePocket : Bytes → Bool
  | a :: b :: 45 :: c :: d :: rest => isRankByte a && isRankByte b && isRankByte c && isRankByte d && isWeightSuffix rest
  | _ => false
/-- `^[R]{2}[so]-[R]{2}[so](:W)?$` -/
def reDoubleRankPair : Bytes → Bool
  | a :: b :: x :: 45 :: c :: d :: y :: rest =>
    isRankByte a && isRankByte b && isSoByte x && isRankByte c && isRankByte d && isSoByte y && isWeightSuffix rest
  | _ => false
/-- `^[R]{2}\+(:W)?$` -/
def reBottomPocket : Bytes → Bool
  | a :: b :: 43 :: rest => isRankByte a && isRankByte b && isWeightSuffix rest
  | _ => false
/-- `^[R]{2}[so]\+(:W)?$` -/
def reBottomRankPair : Bytes → Bool
  | a :: b :: x :: 43 :: rest => isRankByte a && isRankByte b && isSoByte x && isWeightSuffix rest
  | _ => false
/-- `^[R]{2}(:W)?$` -/
def reSinglePocket : Bytes → Bool
  | a :: b :: rest => isRankByte a && isRankByte b && isWeightSuffix rest
  | _ => false
/-- `^[R]{2}[so](:W)?$` -/
def reSingleRankPair : Bytes → Bool
  | a :: b :: x :: rest => isRankByte a && isRankByte b && isSoByte x && isWeightSuffix rest
  | _ => false
/-- `^([R][shdc]){2}(:W)?$` -/
def reSingleCardPair : Bytes → Bool
  | a :: s :: b :: t :: rest => isRankByte a && isSuitByte s && isRankByte b && isSuitByte t && isWeightSuffix rest
  | _ => false

/-- the pattern literals the recognisers above stand for (weight grammar as repaired) -/
def expectedRegexSrc : List String := [
  "^[AKQJT98765432]{2}-[AKQJT98765432]{2}(:(0(\\.[0-9]+)?|1(\\.0+)?))?$",
  "^[AKQJT98765432]{2}[so]-[AKQJT98765432]{2}[so](:(0(\\.[0-9]+)?|1(\\.0+)?))?$",
  "^[AKQJT98765432]{2}\\+(:(0(\\.[0-9]+)?|1(\\.0+)?))?$",
  "^[AKQJT98765432]{2}[so]\\+(:(0(\\.[0-9]+)?|1(\\.0+)?))?$",
  "^[AKQJT98765432]{2}(:(0(\\.[0-9]+)?|1(\\.0+)?))?$",
  "^[AKQJT98765432]{2}[so](:(0(\\.[0-9]+)?|1(\\.0+)?))?$",
  "^([AKQJT98765432][shdc]){2}(:(0(\\.[0-9]+)?|1(\\.0+)?))?$"]

/-! ### `from_str` -/

/-- `parse_probability`: drop a leading ':', then `f32::from_str(..).unwrap_or(1.0)` -/
def parseProbability {W : Type} (wt : WText W) (v : Bytes) : Res W :=
  let body : Res Bytes :=
    match v with
    | 58 :: _ => sliceFrom v 1
    | _ => .ok v
  match body with
  | .ok t => .ok ((wt.parseW t).getD wt.one)
  | .err => .err
  | .panic => .panic

/-- `&s[a..b] == &s[c..d]` on one-byte slices -/
def sliceEq (s : Bytes) (a c : Nat) : Res Bool :=
  match slice s a (a + 1), slice s c (c + 1) with
  | .ok x, .ok y => .ok (x == y)
  | _, _ => .panic

def rankAt (s : Bytes) (i : Nat) : Res Nat :=
  match slice s i (i + 1) with
  | .ok x => parseRank x
  | _ => .panic

/-- result of one branch of the cascade: a token, or "fall through to the next pattern" -/
inductive Branch (W : Type) where
  | hit (t : Token W)
  | next
  | panic

def mkHit {W : Type} (wt : WText W) (kind : TokenKind) (s : Bytes) (from_ : Nat) : Branch W :=
  match sliceFrom s from_ with
  | .ok v =>
    match parseProbability wt v with
    | .ok p => .hit ⟨kind, p⟩
    | _ => .panic
  | _ => .panic

def brDoublePocket {W : Type} (wt : WText W) (s : Bytes) : Branch W :=
  if reDoublePocket s then
    match sliceEq s 0 1, sliceEq s 3 4 with
    | .ok true, .ok true =>
      match rankAt s 0, rankAt s 3 with
      | .ok top, .ok bottom =>
        if top ≤ bottom then mkHit wt (.doubleClosed (.pocket top) bottom) s 5 else .next
      | .panic, _ => .panic
      | _, .panic => .panic
      | _, _ => .next
    | .ok _, .ok _ => .next
    | _, _ => .panic
  else .next

def brDoubleRankPair {W : Type} (wt : WText W) (s : Bytes) : Branch W :=
  if reDoubleRankPair s then
    match sliceEq s 0 4, sliceEq s 1 5, sliceEq s 2 6 with
    | .ok true, .ok false, .ok true =>
      match rankAt s 0, rankAt s 1, rankAt s 5 with
      | .ok high, .ok kt, .ok kb =>
        if high < kt && kt < kb then
          match slice s 2 3 with
          | .ok x => if x == [115] then mkHit wt (.doubleClosed (.suited high kt) kb) s 7
                     else mkHit wt (.doubleClosed (.ofsuit high kt) kb) s 7
          | _ => .panic
        else .next
      | .panic, _, _ => .panic
      | _, .panic, _ => .panic
      | _, _, .panic => .panic
      | _, _, _ => .next
    | .ok _, .ok _, .ok _ => .next
    | _, _, _ => .panic
  else .next

def brBottomPocket {W : Type} (wt : WText W) (s : Bytes) : Branch W :=
  if reBottomPocket s then
    match sliceEq s 0 1 with
    | .ok true =>
      match rankAt s 0 with
      | .ok bottom => mkHit wt (.bottomClosed (.pocket bottom)) s 3
      | .panic => .panic
      | _ => .next
    | .ok false => .next
    | _ => .panic
  else .next

def brBottomRankPair {W : Type} (wt : WText W) (s : Bytes) : Branch W :=
  if reBottomRankPair s then
    match sliceEq s 0 1 with
    | .ok false =>
      match rankAt s 0, rankAt s 1 with
      | .ok high, .ok kicker =>
        if high < kicker then
          match slice s 2 3 with
          | .ok x => if x == [115] then mkHit wt (.bottomClosed (.suited high kicker)) s 4
                     else mkHit wt (.bottomClosed (.ofsuit high kicker)) s 4
          | _ => .panic
        else .next
      | .panic, _ => .panic
      | _, .panic => .panic
      | _, _ => .next
    | .ok true => .next
    | _ => .panic
  else .next

def brSinglePocket {W : Type} (wt : WText W) (s : Bytes) : Branch W :=
  if reSinglePocket s then
    match sliceEq s 0 1 with
    | .ok true =>
      match rankAt s 0 with
      | .ok r => mkHit wt (.singleRank (.pocket r)) s 2
      | .panic => .panic
      | _ => .next
    | .ok false => .next
    | _ => .panic
  else .next

def brSingleRankPair {W : Type} (wt : WText W) (s : Bytes) : Branch W :=
  if reSingleRankPair s then
    match sliceEq s 0 1 with
    | .ok false =>
      match rankAt s 0, rankAt s 1 with
      | .ok high, .ok kicker =>
        match slice s 2 3 with
        | .ok x => if x == [115] then mkHit wt (.singleRank (.suited high kicker)) s 3
                   else mkHit wt (.singleRank (.ofsuit high kicker)) s 3
        | _ => .panic
      | .panic, _ => .panic
      | _, .panic => .panic
      | _, _ => .next
    | .ok true => .next
    | _ => .panic
  else .next

def brSingleCardPair {W : Type} (wt : WText W) (s : Bytes) : Branch W :=
  if reSingleCardPair s then
    match slice s 0 4 with
    | .ok t =>
      match parsePair t with
      | .ok cp => if cp.fst != cp.snd then mkHit wt (.singleCard cp) s 4 else .next
      | .panic => .panic
      | .err => .next
    | _ => .panic
  else .next

/-- `HandRangeToken::from_str`: the seven branches in source order, `Err(())` at the end -/
def parseToken {W : Type} (wt : WText W) (s : Bytes) : Res (Token W) :=
  let rec go : List (Bytes → Branch W) → Res (Token W)
    | [] => .err
    | b :: rest =>
      match b s with
      | .hit t => .ok t
      | .next => go rest
      | .panic => .panic
  go [brDoublePocket wt, brDoubleRankPair wt, brBottomPocket wt, brBottomRankPair wt,
      brSinglePocket wt, brSingleRankPair wt, brSingleCardPair wt]

/-! ### `into_iter` -/

/-- `RankRange::inclusive(a, b).into_iter().flat_map(|r| mk(r).into_iter().map(|cp| (cp, p)))` -/
def expandRun {W : Type} (a b : Nat) (mk : Nat → RankPair) (p : W) : Res (List (Combo × W)) :=
  match rankRange a b true with
  | .ok rs => .ok (rs.flatMap fun r => (mk r).combos.map fun cp => (cp, p))
  | .err => .err
  | .panic => .panic

/-- declaration index of `Rank::Ace` (the name the source writes; `C13.rank_numbering` pins the names) -/
def rankAce : Nat := 0
def rankTrey : Nat := 11
def rankDeuce : Nat := 12

/-- `HandRangeToken::into_iter` -/
def Token.expand {W : Type} (t : Token W) : Res (List (Combo × W)) :=
  match t.kind with
  | .bottomClosed (.pocket r) => expandRun rankAce r .pocket t.prob
  | .bottomClosed (.suited h k) =>
    match rankNext h with
    | some n => expandRun n k (.suited h) t.prob
    | none => .panic
  | .bottomClosed (.ofsuit h k) =>
    match rankNext h with
    | some n => expandRun n k (.ofsuit h) t.prob
    | none => .panic
  | .doubleClosed (.pocket r) e => expandRun r e .pocket t.prob
  | .doubleClosed (.suited h k) e => expandRun k e (.suited h) t.prob
  | .doubleClosed (.ofsuit h k) e => expandRun k e (.ofsuit h) t.prob
  | .singleRank rp => .ok (rp.combos.map fun cp => (cp, t.prob))
  | .singleCard cp => .ok [(cp, t.prob)]

/-! ### `Display` -/

def TokenKind.show : TokenKind → Bytes
  | .bottomClosed rp => rp.show ++ [43]
  | .doubleClosed (.pocket r) e => (RankPair.pocket r).show ++ [45] ++ (RankPair.pocket e).show
  | .doubleClosed (.suited h k) e => [rankChar h, rankChar k, 115, 45, rankChar h, rankChar e, 115]
  | .doubleClosed (.ofsuit h k) e => [rankChar h, rankChar k, 111, 45, rankChar h, rankChar e, 111]
  | .singleRank rp => rp.show
  | .singleCard cp => showPair cp

/-- `Display for HandRangeToken`: the weight is omitted when it `== 1.0` -/
def Token.show {W : Type} (wt : WText W) (t : Token W) : Bytes :=
  if wt.eq t.prob wt.one then t.kind.show else t.kind.show ++ [58] ++ wt.showW t.prob

end EspadaVerif
