/-
Model/Scopes: `calculate_scopes` of examples/multi-thread/scope.rs (as repaired by the D10 fix: the last scope
always ends at (48,49), a river index past the last card is normalised to the first position of the next
row, a cut never steps backwards, and the `u8` sum is capped so it cannot overflow).

The `f32` pipeline is NOT modelled: it is a parameter `F i n = (floor(x) as u8, ceil((48 - turn) * frac) as u8)`
about which nothing is assumed (the theorems quantify over every `F`); only the load balance depends on it.
-/
import EspadaVerif.Model.Basic

namespace EspadaVerif

structure CalcScope where
  turnFrom : Nat
  riverFrom : Nat
  turnTo : Nat
  riverTo : Nat
  deriving DecidableEq, Repr

/-- `(a, b) < (c, d)` on tuples -/
def tupleLt (a b c d : Nat) : Bool := a < c || (a == c && b < d)

/-- one iteration of the `for i in 0..count` loop: the cut point `(turn_to, river_to)` for worker `i`.
`f = F i count` are the two float-derived `u8` values (anything in 0..=255). -/
def cutPoint (f : Nat × Nat) (i count prevT prevR : Nat) : Res (Nat × Nat) :=
  let t0 := f.1 % 256
  let off := f.2 % 256
  let cand : Res (Nat × Nat) :=
    if i + 1 = count || t0 ≥ 48 then .ok (48, 49)
    else
      -- `48 - turn_to` cannot underflow here (t0 < 48); the sum is at most 49
      let r0 := t0 + 1 + min off (48 - t0)
      if r0 > 255 then .panic
      else if r0 > 48 then .ok (t0 + 1, t0 + 1 + 1)
      else .ok (t0, r0)
  match cand with
  | .ok (t, r) => if tupleLt t r prevT prevR then .ok (prevT, prevR) else .ok (t, r)
  | .err => .err
  | .panic => .panic

def scopesLoop (F : Nat → Nat → Nat × Nat) (count : Nat) : Nat → Nat → Nat → Nat → Res (List CalcScope)
  | 0, _, _, _ => .ok []
  | fuel + 1, i, prevT, prevR =>
    match cutPoint (F i count) i count prevT prevR with
    | .ok (t, r) =>
      match scopesLoop F count fuel (i + 1) t r with
      | .ok rest => .ok ({ turnFrom := prevT, riverFrom := prevR, turnTo := t, riverTo := r } :: rest)
      | .err => .err
      | .panic => .panic
    | .err => .err
    | .panic => .panic

/-- `calculate_scopes(count)` -/
def calculateScopes (F : Nat → Nat → Nat × Nat) (count : Nat) : Res (List CalcScope) :=
  scopesLoop F count count 0 0 1

end EspadaVerif
