/-
Model/Regex: a small regular-expression semantics (Brzozowski derivatives over bytes), a parser for the subset
of the Rust `regex` syntax that `HandRangeToken::from_str` uses, and an equivalence checker on derivative
pairs (proved sound in `Lemmas/RegexSound`).

What is modelled: `Regex::is_match` on a `&str` for a pattern that is anchored at both ends (`^…$`, no flags:
`^`/`$` only match at the very start/end of the haystack), so `is_match` holds exactly when the whole haystack
is in the language of the body.  The supported subset has ASCII literals and ASCII classes only (no `.`, no
`\d`/`\w`/`\s`, no negated class), so matching on the UTF-8 bytes of the haystack is the same as matching on
its chars: a byte ≥ 128 belongs to no class.  Bytes are `Nat` (`Bytes = List Nat` in the rest of the model).

This file has no imports (it is linkable into the driver executable).
-/

namespace EspadaVerif.Rx

/-- regular expressions over bytes; `cls bs` is "one byte out of `bs`" -/
inductive Re where
  | empty
  | eps
  | cls (bs : List Nat)
  | seq (a b : Re)
  | alt (a b : Re)
  | star (a : Re)
  deriving DecidableEq, Repr

open Re

def nullable : Re → Bool
  | empty => false
  | eps => true
  | cls _ => false
  | seq a b => nullable a && nullable b
  | alt a b => nullable a || nullable b
  | star _ => true

/-- Brzozowski derivative -/
def deriv (c : Nat) : Re → Re
  | empty => empty
  | eps => empty
  | cls bs => if bs.contains c then eps else empty
  | seq a b => if nullable a then alt (seq (deriv c a) b) (deriv c b) else seq (deriv c a) b
  | alt a b => alt (deriv c a) (deriv c b)
  | star a => seq (deriv c a) (star a)

/-- does the whole byte string `s` belong to the language of `r` -/
def «matches» (r : Re) (s : List Nat) : Bool :=
  nullable (s.foldl (fun r c => deriv c r) r)

/-! ### normalising constructors and the normalised derivative -/

/-- syntactic equality as a plain structural `Bool` function (cheap in the kernel) -/
def beq : Re → Re → Bool
  | empty, empty => true
  | eps, eps => true
  | cls a, cls b => a == b
  | seq a b, seq c d => beq a c && beq b d
  | alt a b, alt c d => beq a c && beq b d
  | star a, star b => beq a b
  | _, _ => false

/-- `seq` that drops `∅` / `ε` units -/
def mkSeq : Re → Re → Re
  | empty, _ => empty
  | _, empty => empty
  | eps, b => b
  | a, eps => a
  | a, b => seq a b

/-- is `a` one of the summands of the right-nested sum `b` -/
def altMem (a : Re) : Re → Bool
  | alt x rest => beq a x || altMem a rest
  | x => beq a x

/-- `alt` of a non-sum `a` and a right-nested sum `b`: drops `∅`, drops `a` when it is already a summand -/
def mkAlt1 : Re → Re → Re
  | empty, b => b
  | a, empty => a
  | a, b => if altMem a b then b else alt a b

/-- `alt` modulo associativity, idempotence and the `∅` unit: the result is a right-nested duplicate-free sum -/
def mkAlt : Re → Re → Re
  | alt x y, b => mkAlt x (mkAlt y b)
  | a, b => mkAlt1 a b

/-- the derivative, built with the normalising constructors -/
def nderiv (c : Nat) : Re → Re
  | empty => empty
  | eps => empty
  | cls bs => if bs.contains c then eps else empty
  | seq a b => if nullable a then mkAlt (mkSeq (nderiv c a) b) (nderiv c b) else mkSeq (nderiv c a) b
  | alt a b => mkAlt (nderiv c a) (nderiv c b)
  | star a => mkSeq (nderiv c a) (star a)

/-! ### equivalence checker -/

/-- every byte that occurs in some class of `r` -/
def mentioned : Re → List Nat
  | empty => []
  | eps => []
  | cls bs => bs
  | seq a b => mentioned a ++ mentioned b
  | alt a b => mentioned a ++ mentioned b
  | star a => mentioned a

def insertNew (x : Nat) (l : List Nat) : List Nat := if l.contains x then l else x :: l

def dedup (l : List Nat) : List Nat := l.foldr insertNew []

def maxOf : List Nat → Nat
  | [] => 0
  | x :: xs => if maxOf xs ≤ x then x else maxOf xs

/-- a byte that is mentioned nowhere: it stands for all the (infinitely many) unmentioned naturals -/
def fresh (l : List Nat) : Nat := maxOf l + 1

/-- the representative bytes of a pair of expressions -/
def repsOf (r₁ r₂ : Re) : List Nat :=
  let m := mentioned r₁ ++ mentioned r₂
  fresh m :: dedup m

def pairMem (a b : Re) : List (Re × Re) → Bool
  | [] => false
  | p :: ps => (beq a p.1 && beq b p.2) || pairMem a b ps

def succs (reps : List Nat) (a b : Re) (rest : List (Re × Re)) : List (Re × Re) :=
  reps.foldr (fun c acc => (nderiv c a, nderiv c b) :: acc) rest

/-- work-list exploration of derivative pairs; `false` on a `nullable` disagreement or when fuel runs out -/
def equivLoop (reps : List Nat) : Nat → List (Re × Re) → List (Re × Re) → Bool
  | 0, _, _ => false
  | _ + 1, [], _ => true
  | fuel + 1, p :: rest, seen =>
    if pairMem p.1 p.2 seen then equivLoop reps fuel rest seen
    else if nullable p.1 == nullable p.2 then
      equivLoop reps fuel (succs reps p.1 p.2 rest) (p :: seen)
    else false

/-- `true` only if `r₁` and `r₂` have the same language (`equivCheck_sound`) -/
def equivCheck (fuel : Nat) (r₁ r₂ : Re) : Bool :=
  equivLoop (repsOf r₁ r₂) fuel [(r₁, r₂)] []

/-- how many pairs a successful run visits (diagnostics only) -/
def equivCount (reps : List Nat) : Nat → List (Re × Re) → List (Re × Re) → Option Nat
  | 0, _, _ => none
  | _ + 1, [], seen => some seen.length
  | fuel + 1, p :: rest, seen =>
    if pairMem p.1 p.2 seen then equivCount reps fuel rest seen
    else if nullable p.1 == nullable p.2 then
      equivCount reps fuel (succs reps p.1 p.2 rest) (p :: seen)
    else none

/-! ### parser

Input: the pattern as Unicode code points.  Anything outside the subset gives `none`.

* the pattern is start-anchor body end-anchor, where the start anchor is `^` or `\A` and the end anchor is `$`
  or `\z` (no flags: all four only match at the very start/end of the haystack); no anchor anywhere else
  (`\Z`, `\b`, `\B` are not in the subset);
* literals: printable ASCII that is not one of ``\ . + * ? ( ) | [ ] { } ^ $``;
* escapes ``\. \+ \- \\ \( \) \[ \] \? \* \| \:`` (that literal char); every other escape (`\d \w \s \b \B \pX`
  …) is rejected;
* classes `[…]` whose members are single chars or ranges `a-b` with `a ≤ b`; a single char is a letter, a
  digit, one of ``space ! " # $ % ' ( ) * + , . / : ; < = > ? @ _ { | }`` written as is, or one of the escapes
  above or `\^`; a bare `-` is only the range operator (so no leading/trailing `-`, no `--`), and `&`, `~`,
  `[`, `^` are rejected unescaped (no negation, no nested class, no `[:alpha:]`, no set operators);
* groups `(…)` and `(?:…)` (any other `(?`, so flags and named groups, is rejected), alternation `|` inside a
  group (no empty branch; a top-level `|` is rejected: `^a|b$` means `(^a)|(b$)`, which is not of the form
  `^body$`);
* one postfix operator per atom: `?`, `+`, `*`, `{n}`, `{n,}`, `{n,m}` (decimal, `n ≤ m`, both at most 64); a
  second postfix char (so also the lazy forms `??`, `+?`, `*?`, `{n}?`) is rejected;
* any code point ≥ 128, and any control char, is rejected.
-/

inductive Tok where
  | atom (r : Re)
  | lpar
  | rpar
  | bar
  | opt
  | plus
  | star
  | rep (lo : Nat) (hi : Option Nat)     -- `{lo,hi}`; `hi = none` is `{lo,}`
  deriving Repr

def Tok.isPostfix : Tok → Bool
  | .opt => true
  | .plus => true
  | .star => true
  | .rep _ _ => true
  | _ => false

def isAlnum (c : Nat) : Bool :=
  (48 ≤ c && c ≤ 57) || (65 ≤ c && c ≤ 90) || (97 ≤ c && c ≤ 122)

/-- chars allowed unescaped inside a class: letters, digits and
``space ! " # $ % ' ( ) * + , . / : ; < = > ? @ _ { | }`` -/
def isClassLit (c : Nat) : Bool :=
  isAlnum c ||
    [32, 33, 34, 35, 36, 37, 39, 40, 41, 42, 43, 44, 46, 47, 58, 59, 60, 61, 62, 63, 64, 95, 123, 124, 125].contains c

/-- the metacharacters outside a class: ``$ ( ) * + . ? [ \ ] ^ { | }`` -/
def isMeta (c : Nat) : Bool :=
  [36, 40, 41, 42, 43, 46, 63, 91, 92, 93, 94, 123, 124, 125].contains c

/-- the chars `x` for which ``\x`` is accepted: ``. + - \ ( ) [ ] ? * | :`` -/
def isEscapable (c : Nat) : Bool :=
  [46, 43, 45, 92, 40, 41, 91, 93, 63, 42, 124, 58].contains c

/-- `[lo, lo+1, …]` of length `n` -/
def rangeFrom (lo : Nat) : Nat → List Nat
  | 0 => []
  | n + 1 => lo :: rangeFrom (lo + 1) n

/-- the chars `x` for which ``\x`` is accepted inside a class: the ones accepted outside, and `^` -/
def isClassEscapable (c : Nat) : Bool := isEscapable c || c == 94

/-- one member char of a class (plain or escaped) and what follows it -/
def classItem : List Nat → Option (Nat × List Nat)
  | [] => none
  | c :: rest =>
    if c == 92 then
      match rest with
      | [] => none
      | x :: r1 => if isClassEscapable x then some (x, r1) else none
    else if isClassLit c then some (c, rest)
    else none

/-- the body of a class, after `[`: returns the byte set and what follows the closing `]` -/
def lexClass : Nat → List Nat → List Nat → Option (List Nat × List Nat)
  | 0, _, _ => none
  | _ + 1, [], _ => none
  | fuel + 1, c :: cs, acc =>
    if c == 93 then (if acc.isEmpty then none else some (acc.reverse, cs))
    else
      match classItem (c :: cs) with
      | none => none
      | some (lo, rest) =>
        match rest with
        | 45 :: r1 =>                                     -- a `-` after a member: must be a range
          match classItem r1 with
          | none => none
          | some (hi, r2) =>
            if lo ≤ hi then lexClass fuel r2 ((rangeFrom lo (hi - lo + 1)).reverse ++ acc) else none
        | _ => lexClass fuel rest (lo :: acc)

/-- decimal digits (at least one, value at most 64) and what follows them -/
def lexNat : List Nat → Option Nat → Option (Nat × List Nat)
  | [], _ => none
  | c :: rest, acc =>
    if 48 ≤ c && c ≤ 57 then
      let v := acc.getD 0 * 10 + (c - 48)
      if v ≤ 64 then lexNat rest (some v) else none
    else
      match acc with
      | none => none
      | some n => some (n, c :: rest)

/-- the inside of a counted repetition, after `{`: `n}`, `n,}` or `n,m}` -/
def lexCount (cs : List Nat) : Option (Nat × Option Nat × List Nat) :=
  match lexNat cs none with
  | none => none
  | some (n, rest) =>
    match rest with
    | 125 :: r1 => some (n, some n, r1)
    | 44 :: r1 =>
      match r1 with
      | 125 :: r2 => some (n, none, r2)
      | _ =>
        match lexNat r1 none with
        | none => none
        | some (m, r2) =>
          match r2 with
          | 125 :: r3 => if n ≤ m then some (n, some m, r3) else none
          | _ => none
    | _ => none

def lex : Nat → List Nat → List Tok → Option (List Tok)
  | 0, _, _ => none
  | _ + 1, [], acc => some acc.reverse
  | fuel + 1, c :: cs, acc =>
    if c == 92 then                                   -- backslash
      match cs with
      | [] => none
      | x :: cs' => if isEscapable x then lex fuel cs' (.atom (cls [x]) :: acc) else none
    else if c == 91 then                              -- [
      match lexClass (cs.length + 1) cs [] with
      | none => none
      | some (bs, rest) => lex fuel rest (.atom (cls bs) :: acc)
    else if c == 40 then                              -- (
      match cs with
      | 63 :: cs' =>
        match cs' with
        | 58 :: cs'' => lex fuel cs'' (.lpar :: acc)
        | _ => none
      | _ => lex fuel cs (.lpar :: acc)
    else if c == 41 then lex fuel cs (.rpar :: acc)
    else if c == 124 then lex fuel cs (.bar :: acc)
    else if c == 63 then lex fuel cs (.opt :: acc)
    else if c == 43 then lex fuel cs (.plus :: acc)
    else if c == 42 then lex fuel cs (.star :: acc)
    else if c == 123 then                             -- {
      match lexCount cs with
      | none => none
      | some (lo, hi, rest) => lex fuel rest (.rep lo hi :: acc)
    else if 32 ≤ c && c ≤ 126 && !isMeta c then lex fuel cs (.atom (cls [c]) :: acc)
    else none

/-- no two adjacent postfix operators -/
def postfixOk : List Tok → Bool
  | [] => true
  | t :: ts =>
    match ts with
    | [] => true
    | u :: _ => !(t.isPostfix && u.isPostfix) && postfixOk ts

/-- `n` copies of `r`, then `tail` -/
def repeatThen (r : Re) (tail : Re) : Nat → Re
  | 0 => tail
  | n + 1 => seq r (repeatThen r tail n)

/-- up to `k` copies of `r` -/
def optRepeat (r : Re) : Nat → Re
  | 0 => eps
  | k + 1 => alt (seq r (optRepeat r k)) eps

/-- `r{lo,hi}` (`hi = none`: `r{lo,}`) -/
def countedRe (r : Re) (lo : Nat) (hi : Option Nat) : Re :=
  match hi with
  | none => repeatThen r (Re.star r) lo
  | some m => repeatThen r (optRepeat r (m - lo)) lo

/-- items (most recent first) to a right-nested `seq`; an empty concatenation is rejected -/
def closeSeq : List Re → Option Re
  | [] => none
  | x :: xs => some (xs.foldl (fun acc y => seq y acc) x)

/-- finished branches (most recent first) to a right-nested `alt` -/
def closeAlt (last : Re) (branches : List Re) : Re :=
  branches.foldl (fun acc y => alt y acc) last

structure Frame where
  branches : List Re
  cur : List Re

def Frame.close (f : Frame) : Option Re :=
  match closeSeq f.cur with
  | none => none
  | some r => some (closeAlt r f.branches)

def applyPostfix (t : Tok) (a : Re) : Re :=
  match t with
  | .opt => alt a eps
  | .plus => seq a (Re.star a)
  | .star => Re.star a
  | .rep lo hi => countedRe a lo hi
  | _ => a

def parseToks : List Tok → Frame → List Frame → Option Re
  | [], f, st =>
    match st with
    | [] => if f.branches.isEmpty then f.close else none     -- `^a|b$` is `(^a)|(b$)`: not in the subset
    | _ :: _ => none
  | t :: ts, f, st =>
    match t with
    | .atom r => parseToks ts { f with cur := r :: f.cur } st
    | .lpar => parseToks ts ⟨[], []⟩ (f :: st)
    | .rpar =>
      match st with
      | [] => none
      | p :: st' =>
        match f.close with
        | none => none
        | some g => parseToks ts { p with cur := g :: p.cur } st'
    | .bar =>
      match closeSeq f.cur with
      | none => none
      | some r => parseToks ts ⟨r :: f.branches, []⟩ st
    | t =>
      match f.cur with
      | [] => none
      | a :: cur' => parseToks ts { f with cur := applyPostfix t a :: cur' } st

/-- the body between the anchors -/
def parseBody (cs : List Nat) : Option Re :=
  match lex (cs.length + 1) cs [] with
  | none => none
  | some ts => if postfixOk ts then parseToks ts ⟨[], []⟩ [] else none

/-- `body` end-anchor, the end anchor being `$` or `\z`.  (If the final `z` is a literal preceded by an escaped
backslash, what is left ends in a dangling backslash and is rejected by `lex`.) -/
def parseToEnd (rest : List Nat) : Option Re :=
  match rest.reverse with
  | 36 :: rb => parseBody rb.reverse
  | 122 :: rb1 =>
    match rb1 with
    | 92 :: rb => parseBody rb.reverse
    | _ => none
  | _ => none

/-- an anchored pattern (`^body$`, with `\A` / `\z` as alternative spellings) given as code points -/
def parse (cs : List Nat) : Option Re :=
  match cs with
  | 94 :: rest => parseToEnd rest
  | 92 :: r1 =>
    match r1 with
    | 65 :: rest => parseToEnd rest
    | _ => none
  | _ => none

end EspadaVerif.Rx
