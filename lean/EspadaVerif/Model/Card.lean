/-
Model/Card: `Rank`, `Suit`, `Card`, `RankRange`, `SuitRange` of src/card/*.rs.

A rank / suit is identified by its DECLARATION INDEX in the Rust `enum` (what derived
`PartialEq/Ord/Hash` see).  Every `match` table of the crate is read from `Gen` (regenerated
from the source on every run); the functions below only give them Rust's semantics.
-/
import EspadaVerif.Model.Basic
import EspadaVerif.Gen.Rank
import EspadaVerif.Gen.RankSucc
import EspadaVerif.Gen.Suit
import EspadaVerif.Gen.CardBits
import EspadaVerif.Gen.Ranges

namespace EspadaVerif
open Gen

/-- `u8::from(&Rank)` (total `match`; the translator guarantees 13 arms) -/
def rankU8 (r : Nat) : Nat := rankU8Tbl.getD r 0
def suitU8 (s : Nat) : Nat := suitU8Tbl.getD s 0
/-- `char::from(&Rank)` as a byte -/
def rankChar (r : Nat) : Nat := rankCharTbl.getD r 0
def suitChar (s : Nat) : Nat := suitCharTbl.getD s 0
def rankNext (r : Nat) : Option Nat := (rankNextTbl.getD r none)
def rankPrev (r : Nat) : Option Nat := (rankPrevTbl.getD r none)

/-- first matching arm of a `match c { 'x' => Ok(V), .., _ => Err(()) }` -/
def armLookup (arms : List (Nat × Nat)) (c : Nat) : Option Nat :=
  match arms with
  | [] => none
  | (k, v) :: rest => if k = c then some v else armLookup rest c

/-- `Rank::try_from(char)` -/
def rankOfChar (c : Nat) : Option Nat := armLookup rankOfCharArms c
def suitOfChar (c : Nat) : Option Nat := armLookup suitOfCharArms c

/-- `Rank::from_str` : first char, then `try_from`; `Err(())` otherwise.  Never panics. -/
def parseRank (s : Bytes) : Res Nat :=
  match firstChar s with
  | none => .err
  | some c => match rankOfChar c with
    | some r => .ok r
    | none => .err

def parseSuit (s : Bytes) : Res Nat :=
  match firstChar s with
  | none => .err
  | some c => match suitOfChar c with
    | some r => .ok r
    | none => .err

structure Card where
  rank : Nat
  suit : Nat
  deriving DecidableEq, Repr, Inhabited

namespace Card
/-- derived `Ord` of `struct Card(Rank, Suit)`: lexicographic on declaration indexes (`a < b`) -/
def lt (a b : Card) : Bool := a.rank < b.rank || (a.rank == b.rank && a.suit < b.suit)
/-- `a > b` -/
def gt (a b : Card) : Bool := lt b a
def le (a b : Card) : Bool := lt a b || a == b
def valid (c : Card) : Bool := c.rank < 13 && c.suit < 4
/-- wire code used by the line protocol: rank declaration index * 4 + suit declaration index -/
def code (c : Card) : Nat := c.rank * 4 + c.suit
def ofCode (n : Nat) : Card := ⟨n / 4, n % 4⟩
end Card

def allRanks : List Nat := List.range 13
def allSuits : List Nat := List.range 4
def allCards : List Card := (List.range 52).map Card.ofCode

/-- `u64::from(&Card)` : rank mask AND suit mask -/
def u64OfCard (c : Card) : Nat := (rankMaskTbl.getD c.rank 0) &&& (suitMaskTbl.getD c.suit 0)

/-- the `if value & MASK >= 1 {..} else if ..` chain; no hit = `panic!()` -/
def probe (chain : List (Nat × Nat)) (v : Nat) : Res Nat :=
  match chain with
  | [] => .panic
  | (m, x) :: rest => if v &&& m ≥ 1 then .ok x else probe rest v

/-- `Card::from(&u64)` (suit chain first, then rank chain, as in the source) -/
def cardOfU64 (v : Nat) : Res Card :=
  match probe suitProbe v with
  | .ok s => match probe rankProbe v with
    | .ok r => .ok ⟨r, s⟩
    | .err => .err
    | .panic => .panic
  | .err => .err
  | .panic => .panic

/-- `Display for Card` : rank char then suit char -/
def showCard (c : Card) : Bytes := [rankChar c.rank, suitChar c.suit]

/-- `Card::from_str` (as repaired by the D6 fix: the byte-length test is followed by an ASCII test,
so the two one-byte slices are always on char boundaries). -/
def parseCard (v : Bytes) : Res Card :=
  if v.length = 2 && isAscii v then
    match slice v 0 1, slice v 1 2 with
    | .ok a, .ok b =>
      match parseRank a, parseSuit b with
      | .ok r, .ok s => .ok ⟨r, s⟩
      | .panic, _ => .panic
      | _, .panic => .panic
      | _, _ => .err
    | _, _ => .panic
  else .err

/-! ### RankRange / SuitRange: slice a constant table by the u8 codes -/

/-- `TABLE[a..b]` / `TABLE[a..=b]` with Rust's slice panics -/
def sliceTbl (tbl : List Nat) (a b : Nat) (inclusive : Bool) : Res (List Nat) :=
  if inclusive then
    -- `a..=b` : panics if b ≥ len or a > b + 1
    if b < tbl.length && a ≤ b + 1 then .ok ((tbl.drop a).take (b + 1 - a)) else .panic
  else
    if b ≤ tbl.length && a ≤ b then .ok ((tbl.drop a).take (b - a)) else .panic

def rankRange (a b : Nat) (inclusive : Bool) : Res (List Nat) :=
  sliceTbl rangeRanks (rankU8 a) (rankU8 b) inclusive
def rankRangeAll : Res (List Nat) := sliceTbl rangeRanks 0 rangeRanks.length false
def suitRange (a b : Nat) (inclusive : Bool) : Res (List Nat) :=
  sliceTbl rangeSuits (suitU8 a) (suitU8 b) inclusive
def suitRangeAll : Res (List Nat) := sliceTbl rangeSuits 0 rangeSuits.length false

end EspadaVerif
