/-
Model/HandType: `MadeHand::hand_type` (src/evaluator/made_hand.rs): interval arms read from the source.
Kept apart from Model/Eval so that a change of the arms does not invalidate the kernel obligations of the
lookup tables.
-/
import EspadaVerif.Gen.HandType

namespace EspadaVerif
open Gen

/-- `hand_type`: first matching interval arm, else the wildcard arm (category declaration index) -/
def handTypeArmsLookup (arms : List (Nat × Nat × Nat)) (i : Nat) : Nat :=
  match arms with
  | [] => handTypeWild
  | (lo, hi, c) :: rest => if lo ≤ i && i ≤ hi then c else handTypeArmsLookup rest i

def handType (i : Nat) : Nat := handTypeArmsLookup handTypeArms i

end EspadaVerif
