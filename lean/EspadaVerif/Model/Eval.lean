/-
Model/Eval: `MadeHand::from([Card; 7])`, `hand_type` of src/evaluator/made_hand.rs and `dp_ref`,
`AS_FLUSH`, `AS_RAINBOW` of src/evaluator/dp_table.rs.  All tables / weights / walk order /
threshold / interval arms come from `Gen`.
-/
import EspadaVerif.Model.Card
import EspadaVerif.Gen.DpRef
import EspadaVerif.Gen.AsFlush
import EspadaVerif.Gen.AsRainbow
import EspadaVerif.Gen.MadeHand

namespace EspadaVerif
open Gen

/-- slot `i` of a table packed 16 bits per slot into chunk literals -/
def tblGet (chunks : List Nat) (slots i : Nat) : Nat :=
  ((chunks.getD (i / slots) 0) >>> (16 * (i % slots))) &&& 65535

/-- `AS_FLUSH[i]` (out of range panics) -/
def asFlush (i : Nat) : Res Nat :=
  if i < asFlushLen then .ok (tblGet asFlushChunks asFlushChunkSlots i) else .panic

/-- `AS_RAINBOW[i]` -/
def asRainbow (i : Nat) : Res Nat :=
  if i < asRainbowLen then .ok (tblGet asRainbowChunks asRainbowChunkSlots i) else .panic

/-- `dp_ref(len, rank, remaining_len)`: `len` arm, rank row, then `ROW[remaining_len as usize]` -/
def dpRef (len rank rem : Nat) : Res Nat :=
  match dpRefLens.idxOf? len with
  | none => .panic
  | some li =>
    match ((dpRefRows.getD li []).getD rank [])[rem]? with
    | some v => .ok v
    | none => .panic

/-- loop of `find_flush_suit`: per-suit counters, early return when one reaches the threshold -/
def ffsLoop (counts : List Nat) : List Card → Res (Option Nat)
  | [] => .ok none
  | c :: rest =>
    let i := suitU8 c.suit
    match counts[i]? with
    | none => .panic
    | some k =>
      if k + 1 ≥ flushThreshold then .ok (some c.suit)
      else ffsLoop (counts.set i (k + 1)) rest

def findFlushSuit (cs : List Card) : Res (Option Nat) := ffsLoop [0, 0, 0, 0] cs

/-- `hash_for_flush`: sum of the rank weights of the cards of that suit -/
def hashFlush (cs : List Card) (suit : Nat) : Nat :=
  cs.foldl (fun h c => if c.suit = suit then h + flushWeightTbl.getD c.rank 0 else h) 0

/-- first loop of `hash_for_rainbow` over the cards' ranks: `card_len_each_rank[u8::from(rank)] += 1` -/
def rankCounts : List Nat → List Nat → Res (List Nat)
  | counts, [] => .ok counts
  | counts, r :: rest =>
    let i := rankU8 r
    match counts[i]? with
    | none => .panic
    | some k => rankCounts (counts.set i (k + 1)) rest

/-- second loop: walk `RANKS`, add `dp_ref(len, rank, remaining)`, stop when nothing remains -/
def rainbowWalkLoop (counts : List Nat) : List Nat → Nat → Nat → Res Nat
  | [], h, _ => .ok h
  | r :: rs, h, rem =>
    match counts[rankU8 r]? with
    | none => .panic
    | some 0 => rainbowWalkLoop counts rs h rem
    | some len =>
      match dpRef len r rem with
      | .ok v =>
        -- `remaining_card_len -= len` on u8: underflow would trap (debug) / wrap (release); unreachable
        -- because the counters sum to `remaining`
        if len > rem then .panic
        else if rem - len = 0 then .ok (h + v)
        else rainbowWalkLoop counts rs (h + v) (rem - len)
      | _ => .panic

/-- `hash_for_rainbow` as a function of the cards' ranks (it never looks at suits) -/
def hashRanks (rs : List Nat) : Res Nat :=
  match rankCounts (List.replicate 13 0) rs with
  | .ok counts => rainbowWalkLoop counts rainbowWalk 0 rs.length
  | _ => .panic

def hashRainbow (cs : List Card) : Res Nat := hashRanks (cs.map (·.rank))

/-- `MadeHand::from(cards).power_index()` -/
def eval7 (cs : List Card) : Res Nat :=
  match findFlushSuit cs with
  | .ok (some s) => asFlush (hashFlush cs s)
  | .ok none =>
    match hashRainbow cs with
    | .ok h => asRainbow h
    | _ => .panic
  | _ => .panic

end EspadaVerif
