/-
Model/Range: `HandRange` (src/hand_range/hand_range.rs): `from_str`, `rank_pairs`, `orphan_card_pairs`, `Display`.

A range is the HISTORY of inserts into the hash map (newest first); everything observable goes through
`lookup` (first match = latest insert wins), so two histories with the same contents are the same range
extensionally — which is exactly what C17 is about.
-/
import EspadaVerif.Model.Token

namespace EspadaVerif

/-- history of `map.insert(k, v)` calls, newest first -/
abbrev HandRange (W : Type) := List (Combo × W)

namespace HandRange
variable {W : Type}

def lookup (r : HandRange W) (c : Combo) : Option W :=
  match r with
  | [] => none
  | (k, v) :: rest => if k = c then some v else lookup rest c

def insert (r : HandRange W) (c : Combo) (w : W) : HandRange W := (c, w) :: r

/-- `map.remove(&c)` -/
def remove (r : HandRange W) (c : Combo) : HandRange W := r.filter (fun e => e.1 ≠ c)

/-- the map's contents: each present combo once with its current weight (order: newest key first) -/
def contents (r : HandRange W) : List (Combo × W) :=
  match r with
  | [] => []
  | (k, v) :: rest => (k, v) :: contents (remove rest k)
termination_by r.length
decreasing_by
  simp only [remove, List.length_cons]
  exact Nat.lt_succ_of_le (List.length_filter_le _ _)

end HandRange

/-- `s.replace(" ", "")` -/
def stripSpaces (s : Bytes) : Bytes := s.filter (· != 32)

/-- `str::split(",")` : always at least one piece -/
def splitCommas (s : Bytes) : List Bytes :=
  let rec go : Bytes → Bytes → List Bytes
    | [], cur => [cur.reverse]
    | b :: rest, cur => if b = 44 then cur.reverse :: go rest [] else go rest (b :: cur)
  go s []

/-- `HandRange::from_str`: never an error; malformed tokens are skipped -/
def parseRange {W : Type} (wt : WText W) (s : Bytes) : Res (HandRange W) :=
  let trimmed := stripSpaces s
  if trimmed.length = 0 then .ok []
  else
    let rec go : List Bytes → HandRange W → Res (HandRange W)
      | [], m => .ok m
      | h :: rest, m =>
        match parseToken wt h with
        | .ok tok =>
          match tok.expand with
          | .ok es => go rest (es.foldl (fun m e => HandRange.insert m e.1 e.2) m)
          | _ => .panic
        | .err => go rest m
        | .panic => .panic
    go (splitCommas trimmed) []

/-! ### `rank_pairs`, `orphan_card_pairs` -/

/-- the probe-and-all test of `rank_pairs` for one rank pair: `contains_key(probe)`, then every combo of the
rank pair present with a weight `==` the probe's -/
def rankPairWeight {W : Type} (wt : WText W) (r : HandRange W) (rp : RankPair) (probe : Combo) : Option W :=
  match r.lookup probe with
  | none => none
  | some p =>
    if rp.combos.all (fun cp => match r.lookup cp with
      | some q => wt.eq q p
      | none => false) then some p else none

/-- `rank_pairs()` as an association list in the order the loops visit the rank pairs
(the Rust result is a hash map: order is not observable) -/
def rankPairs {W : Type} (wt : WText W) (r : HandRange W) : Res (List (RankPair × W)) :=
  match rankRangeAll, rankRange rankAce rankTrey true with
  | .ok allR, .ok highs =>
    let pockets := allR.filterMap fun rank =>
      (rankPairWeight wt r (.pocket rank) (mkPair ⟨rank, 0⟩ ⟨rank, 1⟩)).map fun p => (RankPair.pocket rank, p)
    let rec rows : List Nat → Res (List (RankPair × W))
      | [] => .ok []
      | high :: rest =>
        match rankNext high with
        | none => .panic
        | some first =>
          match rankRange first rankDeuce true, rows rest with
          | .ok kickers, .ok tl =>
            .ok ((kickers.flatMap fun kicker =>
              ((rankPairWeight wt r (.suited high kicker) (mkPair ⟨high, 0⟩ ⟨kicker, 0⟩)).map fun p => (RankPair.suited high kicker, p)).toList
              ++ ((rankPairWeight wt r (.ofsuit high kicker) (mkPair ⟨high, 0⟩ ⟨kicker, 1⟩)).map fun p => (RankPair.ofsuit high kicker, p)).toList)
              ++ tl)
          | _, _ => .panic
    match rows highs with
    | .ok rs => .ok (pockets ++ rs)
    | _ => .panic
  | _, _ => .panic

def rpLookup {W : Type} (l : List (RankPair × W)) (rp : RankPair) : Option W :=
  match l with
  | [] => none
  | (k, v) :: rest => if k = rp then some v else rpLookup rest rp

/-- `orphan_card_pairs()`: the clone minus every combo of every reported rank pair -/
def orphans {W : Type} (wt : WText W) (r : HandRange W) : Res (HandRange W) :=
  match rankPairs wt r with
  | .ok rps => .ok (rps.foldl (fun m rp => rp.1.combos.foldl (fun m cp => HandRange.remove m cp) m) r)
  | _ => .panic

/-! ### `Display for HandRange` -/

/-- the run-length pass over one row of rank pairs (`row` = the ranks visited, `first` = the rank at the top of
the row, `last` = deuce, `mk` builds the rank pair of a rank of the row).  Returns the tokens in emission order. -/
def rowTokens {W : Type} (wt : WText W) (rps : List (RankPair × W)) (first last : Nat) (mk : Nat → RankPair)
    (row : List Nat) : Res (List (Token W)) :=
  let look (rank : Nat) : Option W := rpLookup rps (mk rank)
  let rec loop : List Nat → Option Nat → List (Token W) → Res (Option Nat × List (Token W))
    | [], start, acc => .ok (start, acc)
    | rank :: rest, start, acc =>
      let probability := look rank
      let step : Res (Option Nat × List (Token W)) :=
        match start with
        | none => .ok (none, acc)
        | some s =>
          match look s with
          | none => .panic                                   -- `.unwrap()`
          | some sp =>
            let differs := match probability with
              | none => true
              | some p => !(wt.eq p sp)
            if differs then
              match rankPrev rank with
              | none => .panic                               -- `rank.prev().unwrap()`
              | some prev =>
                let tok : Token W :=
                  if s = first && prev ≠ first then ⟨.bottomClosed (mk prev), sp⟩
                  else if s = prev then ⟨.singleRank (mk prev), sp⟩
                  else ⟨.doubleClosed (mk s) prev, sp⟩
                .ok (none, acc ++ [tok])
            else .ok (some s, acc)
      match step with
      | .ok (start', acc') =>
        let start'' := if start'.isNone && probability.isSome then some rank else start'
        loop rest start'' acc'
      | .err => .err
      | .panic => .panic
  match loop row none [] with
  | .ok (none, acc) => .ok acc
  | .ok (some s, acc) =>
    match look s with
    | none => .panic
    | some sp =>
      let tok : Token W :=
        if s = first && last ≠ first then ⟨.bottomClosed (mk last), sp⟩
        else if s = last then ⟨.singleRank (mk s), sp⟩
        else ⟨.doubleClosed (mk s) last, sp⟩
      .ok (acc ++ [tok])
  | .err => .err
  | .panic => .panic

/-- the orphan pass: for every (high, kicker ≥ high in the table, high suit, kicker suit) the pair, if it is a leftover -/
def orphanTokens {W : Type} (orph : HandRange W) : Res (List (Token W)) :=
  match rankRangeAll, suitRangeAll with
  | .ok ranks, .ok suits =>
    let rec outer : List Nat → Res (List (Token W))
      | [] => .ok []
      | high :: rest =>
        match rankRange high rankDeuce true, outer rest with
        | .ok kickers, .ok tl =>
          .ok ((kickers.flatMap fun kicker => suits.flatMap fun hs => suits.flatMap fun ks =>
            let pair := mkPair ⟨high, hs⟩ ⟨kicker, ks⟩
            match orph.lookup pair with
            | some p => [(⟨.singleCard pair, p⟩ : Token W)]
            | none => []) ++ tl)
        | _, _ => .panic
    outer ranks
  | _, _ => .panic

/-- `Display for HandRange`: pocket row, then per high card the suited row and the offsuit row, then leftovers -/
def showRangeTokens {W : Type} (wt : WText W) (r : HandRange W) : Res (List (Token W)) :=
  match rankPairs wt r, orphans wt r, rankRangeAll, rankRange rankAce rankTrey true with
  | .ok rps, .ok orph, .ok allR, .ok highs =>
    match rowTokens wt rps rankAce rankDeuce .pocket allR with
    | .ok pocketToks =>
      let rec rows : List Nat → Res (List (Token W))
        | [] => .ok []
        | high :: rest =>
          match rankNext high with
          | none => .panic
          | some first =>
            match rankRange first rankDeuce true with
            | .ok kickers =>
              match rowTokens wt rps first rankDeuce (.suited high) kickers,
                    rowTokens wt rps first rankDeuce (.ofsuit high) kickers, rows rest with
              | .ok a, .ok b, .ok tl => .ok (a ++ b ++ tl)
              | _, _, _ => .panic
            | _ => .panic
      match rows highs, orphanTokens orph with
      | .ok rowToks, .ok orphToks => .ok (pocketToks ++ rowToks ++ orphToks)
      | _, _ => .panic
    | _ => .panic
  | _, _, _, _ => .panic

def joinCommas : List Bytes → Bytes
  | [] => []
  | [t] => t
  | t :: rest => t ++ [44] ++ joinCommas rest

def showRange {W : Type} (wt : WText W) (r : HandRange W) : Res Bytes :=
  match showRangeTokens wt r with
  | .ok toks => .ok (joinCommas (toks.map (Token.show wt)))
  | .err => .err
  | .panic => .panic

end EspadaVerif
