/-
Model/Showdown: `Showdown::new`, `winner_len` of src/evaluator/showdown.rs.
The probability is carried, never inspected: the model is polymorphic in its type `W`.
-/
import EspadaVerif.Model.Eval
import EspadaVerif.Model.Pair

namespace EspadaVerif

structure ShowdownPlayer where
  hole : Combo
  hand : Nat        -- power index of the player's own seven cards
  win : Bool
  deriving DecidableEq, Repr

structure Showdown (W : Type) where
  board : List Card
  players : List ShowdownPlayer
  prob : W

/-- state of the single pass of `Showdown::new`: players so far (in order), `strongest_index`,
`winner_indexes` (a hash set in Rust; only membership is ever asked) -/
structure SdAcc where
  players : List ShowdownPlayer
  strongest : Nat
  winners : List Nat
  deriving Repr

/-- the seven cards handed to the evaluator: hole cards first, then the board -/
def sevenCards (p : Combo) (board : List Card) : List Card := p.fst :: p.snd :: board

/-- one iteration of the `for (i, player)` loop; `none` = the early `return None` -/
def sdStep (board : List Card) (i : Nat) (acc : SdAcc) (p : Combo) : Res (Option SdAcc) :=
  if board.contains p.fst || board.contains p.snd then .ok none
  else
    match eval7 (sevenCards p board) with
    | .ok pi =>
      let pl : ShowdownPlayer := { hole := p, hand := pi, win := false }
      if pi ≤ acc.strongest then
        if pi < acc.strongest then
          .ok (some { players := acc.players ++ [pl], strongest := pi, winners := [i] })
        else
          .ok (some { players := acc.players ++ [pl], strongest := acc.strongest, winners := i :: acc.winners })
      else
        .ok (some { players := acc.players ++ [pl], strongest := acc.strongest, winners := acc.winners })
    | _ => .panic

def sdLoop (board : List Card) : List Combo → Nat → SdAcc → Res (Option SdAcc)
  | [], _, acc => .ok (some acc)
  | p :: rest, i, acc =>
    match sdStep board i acc p with
    | .ok (some acc') => sdLoop board rest (i + 1) acc'
    | .ok none => .ok none
    | _ => .panic

/-- second pass: `if winner_indexes.contains(&i) { player.win = true }` -/
def flagWinners (players : List ShowdownPlayer) (winners : List Nat) : List ShowdownPlayer :=
  (players.zipIdx).map fun (pl, i) => if winners.contains i then { pl with win := true } else pl

/-- `Showdown::new(players, board, probability)`; `u16::MAX` is the initial strongest index -/
def showdownNew {W : Type} (players : List Combo) (board : List Card) (prob : W) : Res (Option (Showdown W)) :=
  match sdLoop board players 0 { players := [], strongest := 65535, winners := [] } with
  | .ok (some acc) => .ok (some { board := board, players := flagWinners acc.players acc.winners, prob := prob })
  | .ok none => .ok none
  | _ => .panic

/-- `winner_len()`: a `u8` counter of flagged players (`len += 1` traps in a debug build when it
would pass 255, wraps in a release build) -/
def winnerLen {W : Type} (sd : Showdown W) (debug : Bool) : Res Nat :=
  let n := sd.players.countP (·.win)
  if n ≤ 255 then .ok n else if debug then .panic else .ok (n % 256)

end EspadaVerif
