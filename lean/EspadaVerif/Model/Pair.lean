/-
Model/Pair: `CardPair` of src/hand_range/card_pair.rs.
-/
import EspadaVerif.Model.Card
import EspadaVerif.Gen.Pair

namespace EspadaVerif

/-- `CardPair(Card, Card)`; derived `PartialEq/Eq/Hash` on the stored tuple -/
structure Combo where
  fst : Card
  snd : Card
  deriving DecidableEq, Repr, Inhabited

/-- the comparison operator read from the source of `CardPair::new` (0 `>`, 1 `<`, 2 `>=`, 3 `<=`),
under the derived card order -/
def cmpOp (op : Nat) (l r : Card) : Bool :=
  match op with
  | 0 => Card.gt l r
  | 1 => Card.lt l r
  | 2 => Card.le r l
  | _ => Card.le l r

/-- `CardPair::new` : `if left OP right { CardPair(a, b) } else { CardPair(c, d) }` with OP and the
operand order read from the source (on the pinned tree: swap when `left > right`). -/
def mkPair (l r : Card) : Combo :=
  let pick (i : Nat) : Card := if i = 0 then l else r
  if cmpOp Gen.pairNewOp l r then ⟨pick Gen.pairNewThen.1, pick Gen.pairNewThen.2⟩
  else ⟨pick Gen.pairNewElse.1, pick Gen.pairNewElse.2⟩

/-- `pair[i]` : `Index<usize>`; anything but 0/1 panics -/
def Combo.index (p : Combo) (i : Nat) : Res Card :=
  match i with
  | 0 => .ok p.fst
  | 1 => .ok p.snd
  | _ => .panic

/-- `Display for CardPair` -/
def showPair (p : Combo) : Bytes := showCard p.fst ++ showCard p.snd

/-- `match (Card::from_str(..), Card::from_str(..)) { (Ok(l), Ok(r)) => Ok(new(l, r)), _ => Err(..) }` -/
def pairOfRes (a b : Res Card) : Res Combo :=
  match a, b with
  | .ok l, .ok r => .ok (mkPair l r)
  | .panic, _ => .panic
  | _, .panic => .panic
  | _, _ => .err

/-- `CardPair::from_str` (as repaired by the D6 fix: non-ASCII input is an error before slicing) -/
def parsePair (v : Bytes) : Res Combo :=
  if v.length != 4 then .err
  else if !isAscii v then .err
  else match slice v 0 2, slice v 2 4 with
    | .ok a, .ok b => pairOfRes (parseCard a) (parseCard b)
    | _, _ => .panic

/-- wire code of a combo: 52 * code fst + code snd -/
def Combo.code (p : Combo) : Nat := 52 * p.fst.code + p.snd.code
def Combo.ofCode (n : Nat) : Combo := ⟨Card.ofCode (n / 52), Card.ofCode (n % 52)⟩

end EspadaVerif
