/-
Model/Basic: result type with explicit panic, byte strings with UTF-8 char boundaries.
Core Lean only (the driver executable links this).
-/
namespace EspadaVerif

/-- Outcome of a modelled Rust call: a value, a recoverable error (`Err(..)`; payload dropped),
or a panic (index out of range, `unwrap` on `None`, debug overflow trap, non-boundary slice). -/
inductive Res (α : Type) where
  | ok (a : α)
  | err
  | panic
  deriving DecidableEq, Repr

namespace Res
@[inline] def bind {α β} (r : Res α) (f : α → Res β) : Res β :=
  match r with
  | ok a => f a
  | err => err
  | panic => panic
instance : Monad Res where
  pure := ok
  bind := bind
def isPanic {α} : Res α → Bool
  | panic => true
  | _ => false
def toOption {α} : Res α → Option α
  | ok a => some a
  | _ => none
/-- `Option::unwrap` -/
def ofUnwrap {α} : Option α → Res α
  | some a => ok a
  | none => panic
@[simp] theorem bind_ok {α β} (a : α) (f : α → Res β) : (ok a).bind f = f a := rfl
@[simp] theorem bind_err {α β} (f : α → Res β) : (err : Res α).bind f = err := rfl
@[simp] theorem bind_panic {α β} (f : α → Res β) : (panic : Res α).bind f = panic := rfl
end Res

/-- `v[i]` on a slice / array / Vec: out of range panics. -/
def idx {α} (l : List α) (i : Nat) : Res α :=
  match l[i]? with
  | some a => .ok a
  | none => .panic

/-! ### Strings are byte lists (`List Nat`, every element < 256), assumed valid UTF-8 -/

abbrev Bytes := List Nat

/-- UTF-8 continuation byte `10xxxxxx` -/
def isCont (b : Nat) : Bool := 128 ≤ b && b < 192

/-- `str::is_char_boundary(i)` -/
def isBoundary (s : Bytes) (i : Nat) : Bool :=
  if i = 0 then true
  else if i = s.length then true
  else match s[i]? with
    | some b => !isCont b
    | none => false

/-- `&s[a..b]` : panics unless `a ≤ b ≤ len` and both are char boundaries. -/
def slice (s : Bytes) (a b : Nat) : Res Bytes :=
  if a ≤ b && b ≤ s.length && isBoundary s a && isBoundary s b then
    .ok ((s.drop a).take (b - a))
  else .panic

/-- `&s[a..]` -/
def sliceFrom (s : Bytes) (a : Nat) : Res Bytes := slice s a s.length

/-- `s.chars().nth(0)` restricted to what the crate needs: `some b` when the first char is the ASCII
char `b`; `none` when the string is empty; a non-ASCII first char is reported as `some 0x110000+`
(it can never equal an ASCII match arm). -/
def firstChar (s : Bytes) : Option Nat :=
  match s with
  | [] => none
  | b :: _ => if b < 128 then some b else some (0x110000 + b)

def isAscii (s : Bytes) : Bool := s.all (· < 128)

end EspadaVerif
