/-
Model/Iter: `FlopExhaustiveEvaluator` and its iterator (src/evaluator/flop_exhaustive.rs), as repaired
by the D2–D5 fixes: hole cards enter the used-card set, the per-player counters are `usize`, an empty
range ends the enumeration, blocked deals are skipped by a loop.

The iteration order of each player's hash map (`card_pairs()`) is an INPUT of the model: `ranges`
holds each player's entries in the order the map iterates them.  Weights are abstract (`W` with a
unit and a product).
-/
import EspadaVerif.Model.Showdown
import EspadaVerif.Gen.Iter

namespace EspadaVerif

structure WOps (W : Type) where
  one : W
  mul : W → W → W

/-- `FlopExhaustiveEvaluator` -/
structure Evaluator (W : Type) where
  board : List (Option Card)            -- `[Option<Card>; 5]`
  ranges : List (List (Combo × W))      -- per player: entries in map-iteration order
  turnFrom : Nat
  riverFrom : Nat
  turnTo : Nat
  riverTo : Nat

/-- `FlopExhaustiveEvaluator::new` -/
def Evaluator.new {W : Type} (board : List (Option Card)) (ranges : List (List (Combo × W))) : Evaluator W :=
  { board := board, ranges := ranges,
    turnFrom := Gen.scopeDefault.1, riverFrom := Gen.scopeDefault.2.1,
    turnTo := Gen.scopeDefault.2.2.1, riverTo := Gen.scopeDefault.2.2.2 }

/-- `scope(..)`: three `debug_assert!`s (they trap in a debug build only), then the four stores -/
def Evaluator.scope {W : Type} (e : Evaluator W) (tf rf tt rt : Nat) (debug : Bool) : Res (Evaluator W) :=
  if debug && !(decide (tf ≤ tt) && decide (tf < rf) && decide (tt < rt)) then .panic
  else .ok { e with turnFrom := tf, riverFrom := rf, turnTo := tt, riverTo := rt }

/-- `FlopExhaustiveEvaluatorIterator` -/
structure IterState (W : Type) where
  turnTo : Nat
  riverTo : Nat
  entries : List (List (Combo × W))
  deck : List Card
  board : List (Option Card)
  t : Nat
  r : Nat
  idx : List Nat

/-- the 52 cards in rank-major, suit-minor order of `RankRange::all()` × `SuitRange::all()` -/
def fullDeck : Res (List Card) :=
  match rankRangeAll, suitRangeAll with
  | .ok rs, .ok ss => .ok (rs.flatMap fun r => ss.map fun s => (⟨r, s⟩ : Card))
  | _, _ => .panic

/-- `into_iter`: deck = cards different from every `Some` board card; `try_into().unwrap()` needs exactly 49 -/
def Evaluator.intoIter {W : Type} (e : Evaluator W) : Res (IterState W) :=
  match fullDeck with
  | .ok d =>
    let deck := d.filter fun c => e.board.all fun b => match b with
      | some x => x != c
      | none => true
    if deck.length = Gen.deckSize then
      .ok { turnTo := e.turnTo, riverTo := e.riverTo, entries := e.ranges, deck := deck, board := e.board,
            t := e.turnFrom, r := e.riverFrom, idx := List.replicate e.ranges.length 0 }
    else .panic
  | _ => .panic

/-- `HashSet::insert`: `true` when the value was not present -/
def usedInsert (used : List Card) (c : Card) : List Card × Bool :=
  if used.contains c then (used, false) else (c :: used, true)

/-- the per-player loop of `next`: picks `entry = player_entry[index]`, inserts both hole cards into the
used set (both inserts always happen), accumulates pairs and the probability product -/
def pickLoop {W : Type} (ops : WOps W) :
    List (List (Combo × W)) → List Nat → List Card → Bool → List Combo → W → Res (Bool × List Combo × W)
  | [], _, _, ok, pairs, prob => .ok (ok, pairs.reverse, prob)
  | es :: rest, idxs, used, ok, pairs, prob =>
    match idxs with
    | [] => .panic
    | i :: idxs' =>
      match es[i]? with
      | none => .panic
      | some (cp, w) =>
        let (used1, new1) := usedInsert used cp.fst
        let (used2, new2) := usedInsert used1 cp.snd
        pickLoop ops rest idxs' used2 (ok && new1 && new2) (cp :: pairs) (ops.mul prob w)

/-- `board[k].unwrap()` -/
def boardCard (board : List (Option Card)) (k : Nat) : Res Card :=
  match board[k]? with
  | some (some c) => .ok c
  | _ => .panic

/-- the deal at the current raw position: `none` when blocked -/
def attempt {W : Type} (ops : WOps W) (s : IterState W) : Res (Option (Showdown W)) :=
  match idx s.deck s.t, idx s.deck s.r with
  | .ok turn, .ok river =>
    -- `used.insert(turn); used.insert(river)` on the cleared set
    let used := (usedInsert (usedInsert [] turn).1 river).1
    match pickLoop ops s.entries s.idx used true [] ops.one with
    | .ok (materialized, pairs, prob) =>
      if materialized then
        match boardCard s.board 0, boardCard s.board 1, boardCard s.board 2 with
        | .ok b0, .ok b1, .ok b2 => showdownNew pairs [b0, b1, b2, turn, river] prob
        | _, _, _ => .panic
      else .ok none
    | _ => .panic
  | _, _ => .panic

/-- rightmost player whose counter can still be incremented (`idx + 1 < len`) -/
def incrementable : List Nat → List Nat → Option Nat
  | i :: idxs, n :: lens =>
    match incrementable idxs lens with
    | some k => some (k + 1)
    | none => if i + 1 < n then some 0 else none
  | _, _ => none

/-- odometer / river / turn step at the end of an iteration -/
def advance {W : Type} (s : IterState W) : IterState W :=
  match incrementable s.idx (s.entries.map List.length) with
  | some k =>
    { s with idx := (s.idx.take k) ++ [s.idx.getD k 0 + 1] ++ List.replicate (s.idx.length - k - 1) 0 }
  | none =>
    if s.r < Gen.riverRollover then
      { s with r := s.r + 1, idx := List.replicate s.idx.length 0 }
    else
      { s with t := s.t + 1, r := s.t + 1 + 1, idx := List.replicate s.idx.length 0 }

inductive StepOut (W : Type) where
  | done
  | yield (sd : Showdown W)
  | skip

/-- one iteration of the loop in `next` -/
def step {W : Type} (ops : WOps W) (s : IterState W) : Res (StepOut W × IterState W) :=
  if s.t ≥ s.turnTo && s.r ≥ s.riverTo then .ok (.done, s)
  else if s.entries.any List.isEmpty then .ok (.done, s)
  else
    match attempt ops s with
    | .ok (some sd) => .ok (.yield sd, advance s)
    | .ok none => .ok (.skip, advance s)
    | _ => .panic

/-- `next()` with an explicit bound on the number of loop iterations; running out of fuel is reported
as `err` (the theorems show it never happens for `fuelFor`) -/
def nextFuel {W : Type} (ops : WOps W) : Nat → IterState W → Res (Option (Showdown W) × IterState W)
  | 0, _ => .err
  | fuel + 1, s =>
    match step ops s with
    | .ok (.done, s') => .ok (none, s')
    | .ok (.yield sd, s') => .ok (some sd, s')
    | .ok (.skip, s') => nextFuel ops fuel s'
    | .err => .err
    | .panic => .panic

/-- enough fuel for every raw position that can still follow: (rows × columns + 1) × odometer size + 1 -/
def fuelFor {W : Type} (s : IterState W) : Nat :=
  (256 * 256 + 1) * ((s.entries.map List.length).foldl (· * ·) 1 + 1) + 1

def next {W : Type} (ops : WOps W) (s : IterState W) : Res (Option (Showdown W) × IterState W) :=
  nextFuel ops (fuelFor s) s

/-- iterate `next` until it returns `None`, collecting the showdowns (at most `limit` of them) -/
def drainFuel {W : Type} (ops : WOps W) : Nat → IterState W → List (Showdown W) → Res (List (Showdown W) × IterState W)
  | 0, s, acc => .ok (acc.reverse, s)
  | limit + 1, s, acc =>
    match next ops s with
    | .ok (some sd, s') => drainFuel ops limit s' (sd :: acc)
    | .ok (none, s') => .ok (acc.reverse, s')
    | .err => .err
    | .panic => .panic

end EspadaVerif
