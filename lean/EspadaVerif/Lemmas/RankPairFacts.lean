/-
Lemmas/RankPairFacts: reusable facts about `rankPairs`, `rpLookup`, `HandRange.remove` / `lookup`, `orphans`
and the combos of a rank pair (used by C12; meant for C06 as well).
-/
import EspadaVerif.Lemmas.TextDefs
import EspadaVerif.Props.C14

namespace EspadaVerif.RankPairFacts
open EspadaVerif TextDefs

variable {W : Type}

/-! ### association lists keyed by rank pairs -/

theorem rpLookup_mem {l : List (RankPair × W)} {k : RankPair} {v : W} (h : rpLookup l k = some v) :
    (k, v) ∈ l := by
  induction l with
  | nil => simp [rpLookup] at h
  | cons e rest ih =>
    obtain ⟨k', v'⟩ := e
    simp only [rpLookup] at h
    split at h
    · next hk => subst hk; cases h; exact List.mem_cons_self
    · exact List.mem_cons_of_mem _ (ih h)

theorem rpLookup_eq_none_iff {l : List (RankPair × W)} {k : RankPair} :
    rpLookup l k = none ↔ ∀ v, (k, v) ∉ l := by
  induction l with
  | nil => simp [rpLookup]
  | cons e rest ih =>
    obtain ⟨k', v'⟩ := e
    simp only [rpLookup]
    by_cases hk : k' = k
    · subst hk
      rw [if_pos rfl]
      constructor
      · intro h; cases h
      · intro h; exact absurd List.mem_cons_self (h v')
    · rw [if_neg hk, ih]
      constructor
      · intro h v hm
        rcases List.mem_cons.mp hm with e | hm
        · cases e; exact hk rfl
        · exact h v hm
      · intro h v hm; exact h v (List.mem_cons_of_mem _ hm)

/-- every key carries at most one value -/
def Functional (l : List (RankPair × W)) : Prop := ∀ k v v', (k, v) ∈ l → (k, v') ∈ l → v = v'

theorem Functional.tail {e : RankPair × W} {l : List (RankPair × W)} (h : Functional (e :: l)) :
    Functional l :=
  fun k v v' h1 h2 => h k v v' (List.mem_cons_of_mem _ h1) (List.mem_cons_of_mem _ h2)

/-- on a list in which every key carries one value, `rpLookup` is membership -/
theorem rpLookup_eq_some_iff {l : List (RankPair × W)} (hf : Functional l) (k : RankPair) (v : W) :
    rpLookup l k = some v ↔ (k, v) ∈ l := by
  refine ⟨rpLookup_mem, ?_⟩
  induction l with
  | nil => intro h; cases h
  | cons e rest ih =>
    obtain ⟨k', v'⟩ := e
    intro hm
    simp only [rpLookup]
    split
    · next hk =>
      subst hk
      rw [hf k' v' v List.mem_cons_self hm]
    · next hk =>
      rcases List.mem_cons.mp hm with e | hm
      · cases e; exact absurd rfl hk
      · exact ih hf.tail hm

theorem functional_of_nodup_keys {l : List (RankPair × W)} (h : (l.map Prod.fst).Nodup) : Functional l := by
  induction l with
  | nil => intro k v v' h; cases h
  | cons e rest ih =>
    simp only [List.map_cons, List.nodup_cons] at h
    intro k v v' h1 h2
    rcases List.mem_cons.mp h1 with e1 | m1 <;> rcases List.mem_cons.mp h2 with e2 | m2
    · rw [← e2] at e1; cases e1; rfl
    · subst e1
      have : (k, v).fst ∈ rest.map Prod.fst := List.mem_map.mpr ⟨(k, v'), m2, rfl⟩
      exact absurd this h.1
    · subst e2
      have : (k, v').fst ∈ rest.map Prod.fst := List.mem_map.mpr ⟨(k, v), m1, rfl⟩
      exact absurd this h.1
    · exact ih h.2 k v v' m1 m2

/-- for a list with `Nodup` keys, `rpLookup` is membership -/
theorem rpLookup_eq_some_iff_of_nodup {l : List (RankPair × W)} (h : (l.map Prod.fst).Nodup)
    (k : RankPair) (v : W) : rpLookup l k = some v ↔ (k, v) ∈ l :=
  rpLookup_eq_some_iff (functional_of_nodup_keys h) k v

/-! ### `lookup` and `remove` -/

theorem lookup_mem {r : HandRange W} {c : Combo} {w : W} (h : r.lookup c = some w) : (c, w) ∈ r := by
  induction r with
  | nil => simp [HandRange.lookup] at h
  | cons e rest ih =>
    obtain ⟨k, v⟩ := e
    simp only [HandRange.lookup] at h
    split at h
    · next hk => subst hk; cases h; exact List.mem_cons_self
    · exact List.mem_cons_of_mem _ (ih h)

/-- a property of all stored weights holds of every weight looked up -/
theorem lookup_dom {inDom : W → Prop} {r : HandRange W} (hr : ∀ e ∈ r, inDom e.2) {c : Combo} {w : W}
    (h : r.lookup c = some w) : inDom w := hr _ (lookup_mem h)

theorem lookup_remove (m : HandRange W) (c c' : Combo) :
    (HandRange.remove m c).lookup c' = if c' = c then none else m.lookup c' := by
  induction m with
  | nil => simp [HandRange.remove, HandRange.lookup]
  | cons e rest ih =>
    obtain ⟨k, v⟩ := e
    simp only [HandRange.remove] at ih
    by_cases hk : k = c
    · subst hk
      simp only [HandRange.remove, List.filter_cons, ne_eq, not_true_eq_false, decide_false,
        Bool.false_eq_true, if_false, ih, HandRange.lookup]
      by_cases h : c' = k
      · simp [h]
      · have : ¬ k = c' := fun e => h e.symm
        simp [h, this]
    · simp only [HandRange.remove, List.filter_cons, ne_eq, hk, not_false_eq_true, decide_true,
        if_true, HandRange.lookup, ih]
      by_cases h : k = c'
      · subst h; simp [hk]
      · simp [h]

theorem lookup_foldl_remove (cs : List Combo) (m : HandRange W) (c' : Combo) :
    (cs.foldl (fun m cp => HandRange.remove m cp) m).lookup c' = if c' ∈ cs then none else m.lookup c' := by
  induction cs generalizing m with
  | nil => simp
  | cons c rest ih =>
    simp only [List.foldl_cons, ih, lookup_remove, List.mem_cons]
    by_cases h1 : c' ∈ rest <;> by_cases h2 : c' = c <;> simp [h1, h2]

/-- the nested fold of `orphans` removes exactly the combos of the listed rank pairs -/
theorem lookup_foldl_remove_combos (rps : List (RankPair × W)) (m : HandRange W) (c' : Combo) :
    (rps.foldl (fun m rp => rp.1.combos.foldl (fun m cp => HandRange.remove m cp) m) m).lookup c'
      = if c' ∈ rps.flatMap (fun e => e.1.combos) then none else m.lookup c' := by
  rw [← lookup_foldl_remove, List.foldl_flatMap]

/-! ### the probe test -/

/-- the combo `rank_pairs` probes for a rank pair -/
def probeOf : RankPair → Combo
  | .pocket r => mkPair ⟨r, 0⟩ ⟨r, 1⟩
  | .suited h k => mkPair ⟨h, 0⟩ ⟨k, 0⟩
  | .ofsuit h k => mkPair ⟨h, 0⟩ ⟨k, 1⟩

theorem probeOf_mem (rp : RankPair) : probeOf rp ∈ rp.combos := by
  cases rp with
  | pocket r => exact List.mem_map.mpr ⟨(0, 1), by decide, rfl⟩
  | suited h k => exact List.mem_map.mpr ⟨(0, 0), by decide, rfl⟩
  | ofsuit h k => exact List.mem_map.mpr ⟨(0, 1), by decide, rfl⟩

theorem combos_ne_nil (rp : RankPair) : rp.combos ≠ [] := fun h => by
  have := probeOf_mem rp
  rw [h] at this
  cases this

theorem rankPairWeight_eq_some_iff (wt : WText W) (r : HandRange W) (rp : RankPair) (probe : Combo) (p : W) :
    rankPairWeight wt r rp probe = some p ↔
      r.lookup probe = some p ∧ ∀ cp ∈ rp.combos, ∃ q, r.lookup cp = some q ∧ wt.eq q p = true := by
  unfold rankPairWeight
  cases hp : r.lookup probe with
  | none => simp
  | some p' =>
    simp only [List.all_eq_true, Option.some.injEq]
    constructor
    · intro h
      split at h
      · next hall =>
        cases h
        refine ⟨rfl, fun cp hcp => ?_⟩
        have := hall cp hcp
        cases hq : r.lookup cp with
        | none => simp only [hq] at this; cases this
        | some q => simp only [hq] at this; exact ⟨q, rfl, this⟩
      · cases h
    · rintro ⟨rfl, hall⟩
      rw [if_pos]
      intro cp hcp
      obtain ⟨q, hq, he⟩ := hall cp hcp
      rw [hq]; exact he

/-- on a weight domain where `==` is equality, the probe test of a rank pair succeeds with `p` exactly when
every combo of the rank pair is present with weight `p` -/
theorem rankPairWeight_probe_iff (wt : WText W) (inDom : W → Prop) (hok : WTextOk wt inDom) (r : HandRange W)
    (hr : ∀ e ∈ r, inDom e.2) (rp : RankPair) (probe : Combo) (hprobe : probe ∈ rp.combos) (p : W) :
    rankPairWeight wt r rp probe = some p ↔ ∀ cp ∈ rp.combos, r.lookup cp = some p := by
  rw [rankPairWeight_eq_some_iff]
  constructor
  · rintro ⟨hp, hall⟩ cp hcp
    obtain ⟨q, hq, he⟩ := hall cp hcp
    rw [hq, (hok.eq_iff q p (lookup_dom hr hq) (lookup_dom hr hp)).mp he]
  · intro hall
    have hp := hall probe hprobe
    refine ⟨hp, fun cp hcp => ⟨p, hall cp hcp, ?_⟩⟩
    exact (hok.eq_iff p p (lookup_dom hr hp) (lookup_dom hr hp)).mpr rfl

/-! ### closed form of `rankPairs` -/

/-- the weight `rank_pairs` reports for a rank pair, if any -/
def entryW (wt : WText W) (r : HandRange W) (rp : RankPair) : Option W :=
  rankPairWeight wt r rp (probeOf rp)

/-- zero or one entry for a rank pair -/
def entryOf (wt : WText W) (r : HandRange W) (rp : RankPair) : Option (RankPair × W) :=
  (entryW wt r rp).map fun p => (rp, p)

/-- the two cells (suited, offsuit) of a (high, kicker) position -/
def cellEntries (wt : WText W) (r : HandRange W) (high kicker : Nat) : List (RankPair × W) :=
  (entryOf wt r (.suited high kicker)).toList ++ (entryOf wt r (.ofsuit high kicker)).toList

/-- the row of a high card: kickers `high + 1 … 12` -/
def rowEntries (wt : WText W) (r : HandRange W) (high : Nat) : List (RankPair × W) :=
  (List.range' (high + 1) (12 - high)).flatMap (cellEntries wt r high)

/-- the list `rankPairs` returns: pockets A…2, then for each high card A…3 its row -/
def rpList (wt : WText W) (r : HandRange W) : List (RankPair × W) :=
  (List.range 13).filterMap (fun rank => entryOf wt r (.pocket rank))
    ++ (List.range 12).flatMap (rowEntries wt r)

theorem rows_eq (wt : WText W) (r : HandRange W) (hs : List Nat) (hh : ∀ h ∈ hs, h ≤ 11) :
    rankPairs.rows wt r hs = .ok (hs.flatMap (rowEntries wt r)) := by
  induction hs with
  | nil => simp [rankPairs.rows]
  | cons h rest ih =>
    have hle : h ≤ 11 := hh h List.mem_cons_self
    have hn : rankNext h = some (h + 1) := by
      rw [(C13.rank_next_prev h (by omega)).1, if_pos (by omega)]
    have hr : rankRange (h + 1) rankDeuce true = .ok (List.range' (h + 1) (12 - h)) := by
      have := (C13.rank_range_run (h + 1) 12 (by omega) (by omega) (by omega)).2
      rw [show 12 + 1 - (h + 1) = 12 - h by omega] at this
      exact this
    rw [rankPairs.rows, hn]
    simp only [hr, ih (fun x hx => hh x (List.mem_cons_of_mem _ hx)), List.flatMap_cons]
    rfl

/-- **closed form of `rankPairs`** -/
theorem rankPairs_eq (wt : WText W) (r : HandRange W) : rankPairs wt r = .ok (rpList wt r) := by
  have h2 : rankRange rankAce rankTrey true = .ok (List.range 12) := by decide
  unfold rankPairs
  simp only [C13.rank_range_all, h2]
  rw [rows_eq wt r (List.range 12) (fun h hh => by have := List.mem_range.mp hh; omega)]
  rfl

theorem orphans_eq (wt : WText W) (r : HandRange W) :
    orphans wt r = .ok ((rpList wt r).foldl (fun m rp => rp.1.combos.foldl (fun m cp => HandRange.remove m cp) m) r) := by
  simp only [orphans, rankPairs_eq]

theorem entryOf_eq_some (wt : WText W) (r : HandRange W) (rp' rp : RankPair) (w : W) :
    entryOf wt r rp' = some (rp, w) ↔ rp' = rp ∧ entryW wt r rp = some w := by
  unfold entryOf
  cases h : entryW wt r rp' with
  | none =>
    simp only [Option.map_none, reduceCtorEq, false_iff, not_and]
    rintro rfl; rw [h]; simp
  | some p =>
    simp only [Option.map_some, Option.some.injEq, Prod.mk.injEq]
    constructor
    · rintro ⟨rfl, rfl⟩; exact ⟨rfl, h⟩
    · rintro ⟨rfl, h'⟩; rw [h] at h'; exact ⟨rfl, Option.some.inj h'⟩

theorem mem_cellEntries (wt : WText W) (r : HandRange W) (h k : Nat) (rp : RankPair) (w : W) :
    (rp, w) ∈ cellEntries wt r h k ↔ (rp = .suited h k ∨ rp = .ofsuit h k) ∧ entryW wt r rp = some w := by
  unfold cellEntries
  rw [List.mem_append, Option.mem_toList, Option.mem_toList, entryOf_eq_some, entryOf_eq_some]
  constructor
  · rintro (⟨e, he⟩ | ⟨e, he⟩)
    · exact ⟨Or.inl e.symm, he⟩
    · exact ⟨Or.inr e.symm, he⟩
  · rintro ⟨(e | e), he⟩
    · exact Or.inl ⟨e.symm, he⟩
    · exact Or.inr ⟨e.symm, he⟩

theorem mem_rowEntries (wt : WText W) (r : HandRange W) (h : Nat) (rp : RankPair) (w : W) (hh : h ≤ 12) :
    (rp, w) ∈ rowEntries wt r h ↔
      ∃ k, h < k ∧ k < 13 ∧ (rp = .suited h k ∨ rp = .ofsuit h k) ∧ entryW wt r rp = some w := by
  unfold rowEntries
  rw [List.mem_flatMap]
  constructor
  · rintro ⟨k, hk, hm⟩
    have := List.mem_range'_1.mp hk
    obtain ⟨h1, h2⟩ := (mem_cellEntries wt r h k rp w).mp hm
    exact ⟨k, by omega, by omega, h1, h2⟩
  · rintro ⟨k, h1, h2, h3, h4⟩
    exact ⟨k, List.mem_range'_1.mpr (by omega), (mem_cellEntries wt r h k rp w).mpr ⟨h3, h4⟩⟩

/-- membership in the closed form -/
theorem mem_rpList (wt : WText W) (r : HandRange W) (rp : RankPair) (w : W) :
    (rp, w) ∈ rpList wt r ↔ RankPair.canonical rp ∧ entryW wt r rp = some w := by
  unfold rpList
  rw [List.mem_append, List.mem_filterMap, List.mem_flatMap]
  constructor
  · rintro (⟨a, ha, he⟩ | ⟨h, hh, hm⟩)
    · obtain ⟨rfl, he⟩ := (entryOf_eq_some wt r _ rp w).mp he
      exact ⟨List.mem_range.mp ha, he⟩
    · have hh := List.mem_range.mp hh
      obtain ⟨k, h1, h2, (rfl | rfl), he⟩ := (mem_rowEntries wt r h rp w (by omega)).mp hm
      · exact ⟨⟨h1, h2⟩, he⟩
      · exact ⟨⟨h1, h2⟩, he⟩
  · rintro ⟨hc, he⟩
    cases rp with
    | pocket a =>
      exact Or.inl ⟨a, List.mem_range.mpr hc, (entryOf_eq_some wt r _ _ w).mpr ⟨rfl, he⟩⟩
    | suited h k =>
      obtain ⟨h1, h2⟩ := hc
      exact Or.inr ⟨h, List.mem_range.mpr (by omega),
        (mem_rowEntries wt r h _ w (by omega)).mpr ⟨k, h1, h2, Or.inl rfl, he⟩⟩
    | ofsuit h k =>
      obtain ⟨h1, h2⟩ := hc
      exact Or.inr ⟨h, List.mem_range.mpr (by omega),
        (mem_rowEntries wt r h _ w (by omega)).mpr ⟨k, h1, h2, Or.inr rfl, he⟩⟩

theorem rpList_functional (wt : WText W) (r : HandRange W) : Functional (rpList wt r) := by
  intro k v v' h1 h2
  have e1 := ((mem_rpList wt r k v).mp h1).2
  have e2 := ((mem_rpList wt r k v').mp h2).2
  rw [e1] at e2
  exact Option.some.inj e2

/-- `rpLookup` on the result of `rankPairs` -/
theorem rpLookup_rpList (wt : WText W) (r : HandRange W) (rp : RankPair) (w : W) :
    rpLookup (rpList wt r) rp = some w ↔ RankPair.canonical rp ∧ entryW wt r rp = some w := by
  rw [rpLookup_eq_some_iff (rpList_functional wt r), mem_rpList]

/-- all canonical rank pairs, in the order `rank_pairs` visits them -/
def allRankPairs : List RankPair :=
  (List.range 13).map .pocket
    ++ (List.range 12).flatMap fun h => (List.range' (h + 1) (12 - h)).flatMap fun k => [.suited h k, .ofsuit h k]

theorem flatMap_congr_mem {α β : Type} {l : List α} {f g : α → List β} (h : ∀ a ∈ l, f a = g a) :
    l.flatMap f = l.flatMap g := by
  induction l with
  | nil => rfl
  | cons a rest ih =>
    rw [List.flatMap_cons, List.flatMap_cons, h a List.mem_cons_self,
      ih fun x hx => h x (List.mem_cons_of_mem _ hx)]

/-- second closed form: one optional entry per canonical rank pair -/
theorem rpList_eq_filterMap (wt : WText W) (r : HandRange W) :
    rpList wt r = allRankPairs.filterMap (entryOf wt r) := by
  unfold rpList allRankPairs
  rw [List.filterMap_append, List.filterMap_map, List.filterMap_flatMap]
  congr 1
  apply flatMap_congr_mem
  intro h _
  unfold rowEntries
  rw [List.filterMap_flatMap]
  apply flatMap_congr_mem
  intro k _
  unfold cellEntries
  cases h1 : entryOf wt r (.suited h k) <;> cases h2 : entryOf wt r (.ofsuit h k) <;> simp [h1, h2]

theorem mem_allRankPairs (rp : RankPair) : rp ∈ allRankPairs ↔ RankPair.canonical rp := by
  unfold allRankPairs
  simp only [List.mem_append, List.mem_map, List.mem_flatMap, List.mem_range, List.mem_range'_1,
    List.mem_cons, List.not_mem_nil, or_false]
  constructor
  · rintro (⟨a, ha, rfl⟩ | ⟨h, hh, k, hk, (rfl | rfl)⟩)
    · exact ha
    · exact ⟨by omega, by omega⟩
    · exact ⟨by omega, by omega⟩
  · intro hc
    cases rp with
    | pocket a => exact Or.inl ⟨a, hc, rfl⟩
    | suited h k => exact Or.inr ⟨h, by have := hc.1; have := hc.2; omega, k, by have := hc.1; have := hc.2; omega, Or.inl rfl⟩
    | ofsuit h k => exact Or.inr ⟨h, by have := hc.1; have := hc.2; omega, k, by have := hc.1; have := hc.2; omega, Or.inr rfl⟩

theorem allRankPairs_nodup : allRankPairs.Nodup := by decide +kernel

theorem filterMap_const_eq_filter {α β : Type} (g : α → Option β) (l : List α) :
    l.filterMap (fun a => (g a).map fun _ => a) = l.filter (fun a => (g a).isSome) := by
  induction l with
  | nil => rfl
  | cons a rest ih => cases h : g a <;> simp [h, ih]

/-- the keys of the result, in order: the canonical rank pairs that pass the probe test -/
theorem rpList_keys (wt : WText W) (r : HandRange W) :
    (rpList wt r).map Prod.fst = allRankPairs.filter (fun rp => (entryW wt r rp).isSome) := by
  rw [rpList_eq_filterMap, List.map_filterMap, ← filterMap_const_eq_filter]
  congr 1
  funext rp
  simp [entryOf, Option.map_map, Function.comp_def]

/-- each rank pair is reported at most once -/
theorem rpList_keys_nodup (wt : WText W) (r : HandRange W) : ((rpList wt r).map Prod.fst).Nodup := by
  rw [rpList_keys]
  exact List.Nodup.sublist List.filter_sublist allRankPairs_nodup

/-- `orphans`: the range minus the combos of the reported rank pairs -/
theorem orphans_lookup (wt : WText W) (r : HandRange W) :
    ∃ o, orphans wt r = .ok o ∧ ∀ c, o.lookup c =
      if c ∈ (rpList wt r).flatMap (fun e => e.1.combos) then none else r.lookup c :=
  ⟨_, orphans_eq wt r, fun c => lookup_foldl_remove_combos _ r c⟩

/-! ### the combos of a rank pair; `classify` -/

theorem mkPair_of_lt {a b : Card} (h : Card.lt a b = true) : mkPair a b = ⟨a, b⟩ := by
  rw [C14.mkPair_eq]
  simp [Card.gt, C14.lt_asymm a b h]

theorem mkPair_of_rank_lt {h k : Nat} (hk : h < k) (s t : Nat) : mkPair ⟨h, s⟩ ⟨k, t⟩ = ⟨⟨h, s⟩, ⟨k, t⟩⟩ :=
  mkPair_of_lt (by simp [Card.lt, hk])

theorem pocketSuits_lt : ∀ s ∈ Gen.pocketSuits, s.1 < s.2 := by decide
theorem suitedSuits_eq : ∀ s ∈ Gen.suitedSuits, s.1 = s.2 := by decide
theorem ofsuitSuits_ne : ∀ s ∈ Gen.ofsuitSuits, s.1 ≠ s.2 := by decide
theorem mem_pocketSuits : ∀ s ∈ List.range 4, ∀ t ∈ List.range 4, s < t → (s, t) ∈ Gen.pocketSuits := by decide
theorem mem_suitedSuits : ∀ s ∈ List.range 4, (s, s) ∈ Gen.suitedSuits := by decide
theorem mem_ofsuitSuits : ∀ s ∈ List.range 4, ∀ t ∈ List.range 4, s ≠ t → (s, t) ∈ Gen.ofsuitSuits := by decide

/-- closed forms of the combos (no `mkPair`) -/
theorem combos_pocket (r : Nat) :
    (RankPair.pocket r).combos = Gen.pocketSuits.map fun s => (⟨⟨r, s.1⟩, ⟨r, s.2⟩⟩ : Combo) := by
  unfold RankPair.combos
  apply List.map_congr_left
  intro s hs
  exact mkPair_of_lt (by simp [Card.lt, pocketSuits_lt s hs])

theorem combos_suited {h k : Nat} (hk : h < k) :
    (RankPair.suited h k).combos = Gen.suitedSuits.map fun s => (⟨⟨h, s.1⟩, ⟨k, s.2⟩⟩ : Combo) := by
  unfold RankPair.combos
  exact List.map_congr_left fun s _ => mkPair_of_rank_lt hk _ _

theorem combos_ofsuit {h k : Nat} (hk : h < k) :
    (RankPair.ofsuit h k).combos = Gen.ofsuitSuits.map fun s => (⟨⟨h, s.1⟩, ⟨k, s.2⟩⟩ : Combo) := by
  unfold RankPair.combos
  exact List.map_congr_left fun s _ => mkPair_of_rank_lt hk _ _

theorem pocketSuits_valid : ∀ s ∈ Gen.pocketSuits, s.1 < 4 ∧ s.2 < 4 := by decide
theorem suitedSuits_valid : ∀ s ∈ Gen.suitedSuits, s.1 < 4 ∧ s.2 < 4 := by decide
theorem ofsuitSuits_valid : ∀ s ∈ Gen.ofsuitSuits, s.1 < 4 ∧ s.2 < 4 := by decide

/-- the combos of a canonical rank pair are real combos in canonical form -/
theorem combos_ok {rp : RankPair} (hc : RankPair.canonical rp) {c : Combo} (h : c ∈ rp.combos) : ComboOk c := by
  cases rp with
  | pocket r =>
    rw [combos_pocket] at h
    obtain ⟨s, hs, rfl⟩ := List.mem_map.mp h
    have hr : r < 13 := hc
    have := pocketSuits_valid s hs
    have := pocketSuits_lt s hs
    simp [ComboOk, Card.valid, Card.lt, *]
  | suited hi k =>
    obtain ⟨h1, h2⟩ := hc
    rw [combos_suited h1] at h
    obtain ⟨s, hs, rfl⟩ := List.mem_map.mp h
    have := suitedSuits_valid s hs
    have : hi < 13 := by omega
    simp [ComboOk, Card.valid, Card.lt, *]
  | ofsuit hi k =>
    obtain ⟨h1, h2⟩ := hc
    rw [combos_ofsuit h1] at h
    obtain ⟨s, hs, rfl⟩ := List.mem_map.mp h
    have := ofsuitSuits_valid s hs
    have : hi < 13 := by omega
    simp [ComboOk, Card.valid, Card.lt, *]

/-- the rank pair a combo belongs to: same rank → pocket; else same suit → suited, else offsuit, with the
smaller rank index (the higher card) first -/
def classify (c : Combo) : RankPair :=
  if c.fst.rank = c.snd.rank then .pocket c.fst.rank
  else if c.fst.suit = c.snd.suit then .suited (min c.fst.rank c.snd.rank) (max c.fst.rank c.snd.rank)
  else .ofsuit (min c.fst.rank c.snd.rank) (max c.fst.rank c.snd.rank)

/-- a combo of a canonical rank pair classifies as that rank pair -/
theorem classify_of_mem {rp : RankPair} (hc : RankPair.canonical rp) {c : Combo} (h : c ∈ rp.combos) :
    classify c = rp := by
  cases rp with
  | pocket r =>
    rw [combos_pocket] at h
    obtain ⟨s, _, rfl⟩ := List.mem_map.mp h
    simp [classify]
  | suited hi k =>
    obtain ⟨h1, _⟩ := hc
    rw [combos_suited h1] at h
    obtain ⟨s, hs, rfl⟩ := List.mem_map.mp h
    have := suitedSuits_eq s hs
    have hne : hi ≠ k := by omega
    simp [classify, hne, this, Nat.min_eq_left (Nat.le_of_lt h1), Nat.max_eq_right (Nat.le_of_lt h1)]
  | ofsuit hi k =>
    obtain ⟨h1, _⟩ := hc
    rw [combos_ofsuit h1] at h
    obtain ⟨s, hs, rfl⟩ := List.mem_map.mp h
    have := ofsuitSuits_ne s hs
    have hne : hi ≠ k := by omega
    simp [classify, hne, this, Nat.min_eq_left (Nat.le_of_lt h1), Nat.max_eq_right (Nat.le_of_lt h1)]

/-- different canonical rank pairs have no combo in common -/
theorem combos_disjoint {rp rp' : RankPair} (h : RankPair.canonical rp) (h' : RankPair.canonical rp')
    {c : Combo} (hc : c ∈ rp.combos) (hc' : c ∈ rp'.combos) : rp = rp' := by
  rw [← classify_of_mem h hc, ← classify_of_mem h' hc']

/-- a real combo belongs to the (canonical) rank pair it classifies as -/
theorem classify_spec {c : Combo} (hc : ComboOk c) : RankPair.canonical (classify c) ∧ c ∈ (classify c).combos := by
  obtain ⟨⟨r1, s1⟩, ⟨r2, s2⟩⟩ := c
  obtain ⟨v1, v2, hlt⟩ := hc
  simp only [Card.valid, Bool.and_eq_true, decide_eq_true_eq] at v1 v2
  simp only [Card.lt, Bool.or_eq_true, Bool.and_eq_true, decide_eq_true_eq, beq_iff_eq] at hlt
  have m1 := List.mem_range.mpr v1.2
  have m2 := List.mem_range.mpr v2.2
  by_cases hr : r1 = r2
  · subst hr
    have hs : s1 < s2 := by omega
    have e : classify ⟨⟨r1, s1⟩, ⟨r1, s2⟩⟩ = .pocket r1 := by simp [classify]
    rw [e, combos_pocket]
    exact ⟨v1.1, List.mem_map.mpr ⟨(s1, s2), mem_pocketSuits s1 m1 s2 m2 hs, rfl⟩⟩
  · have hlt' : r1 < r2 := by omega
    by_cases hs : s1 = s2
    · subst hs
      have e : classify ⟨⟨r1, s1⟩, ⟨r2, s1⟩⟩ = .suited r1 r2 := by
        simp [classify, hr, Nat.min_eq_left (Nat.le_of_lt hlt'), Nat.max_eq_right (Nat.le_of_lt hlt')]
      rw [e, combos_suited hlt']
      exact ⟨⟨hlt', v2.1⟩, List.mem_map.mpr ⟨(s1, s1), mem_suitedSuits s1 m1, rfl⟩⟩
    · have e : classify ⟨⟨r1, s1⟩, ⟨r2, s2⟩⟩ = .ofsuit r1 r2 := by
        simp [classify, hr, hs, Nat.min_eq_left (Nat.le_of_lt hlt'), Nat.max_eq_right (Nat.le_of_lt hlt')]
      rw [e, combos_ofsuit hlt']
      exact ⟨⟨hlt', v2.1⟩, List.mem_map.mpr ⟨(s1, s2), mem_ofsuitSuits s1 m1 s2 m2 hs, rfl⟩⟩

end EspadaVerif.RankPairFacts
