/-
Lemmas/RankPairFacts: reusable facts about `rankPairs`, `rpLookup`, `HandRange.remove` / `lookup`, `orphans`
and the combos of a rank pair (used by C12; meant for C06 as well).
-/
import EspadaVerif.Lemmas.TextDefs
import EspadaVerif.Props.C14

namespace EspadaVerif.RankPairFacts
open EspadaVerif TextDefs

variable {W : Type}

/-! ### association lists keyed by rank pairs -/

theorem rpLookup_mem {l : List (RankPair × W)} {k : RankPair} {v : W} (h : rpLookup l k = some v) :
    (k, v) ∈ l := by
  induction l with
  | nil => simp [rpLookup] at h
  | cons e rest ih =>
    obtain ⟨k', v'⟩ := e
    simp only [rpLookup] at h
    split at h
    · next hk => subst hk; cases h; exact List.mem_cons_self
    · exact List.mem_cons_of_mem _ (ih h)

theorem rpLookup_eq_none_iff {l : List (RankPair × W)} {k : RankPair} :
    rpLookup l k = none ↔ ∀ v, (k, v) ∉ l := by
  induction l with
  | nil => simp [rpLookup]
  | cons e rest ih =>
    obtain ⟨k', v'⟩ := e
    simp only [rpLookup]
    by_cases hk : k' = k
    · subst hk
      rw [if_pos rfl]
      constructor
      · intro h; cases h
      · intro h; exact absurd List.mem_cons_self (h v')
    · rw [if_neg hk, ih]
      constructor
      · intro h v hm
        rcases List.mem_cons.mp hm with e | hm
        · cases e; exact hk rfl
        · exact h v hm
      · intro h v hm; exact h v (List.mem_cons_of_mem _ hm)

/-- every key carries at most one value -/
def Functional (l : List (RankPair × W)) : Prop := ∀ k v v', (k, v) ∈ l → (k, v') ∈ l → v = v'

theorem Functional.tail {e : RankPair × W} {l : List (RankPair × W)} (h : Functional (e :: l)) :
    Functional l :=
  fun k v v' h1 h2 => h k v v' (List.mem_cons_of_mem _ h1) (List.mem_cons_of_mem _ h2)

/-- on a list in which every key carries one value, `rpLookup` is membership -/
theorem rpLookup_eq_some_iff {l : List (RankPair × W)} (hf : Functional l) (k : RankPair) (v : W) :
    rpLookup l k = some v ↔ (k, v) ∈ l := by
  refine ⟨rpLookup_mem, ?_⟩
  induction l with
  | nil => intro h; cases h
  | cons e rest ih =>
    obtain ⟨k', v'⟩ := e
    intro hm
    simp only [rpLookup]
    split
    · next hk =>
      subst hk
      rw [hf k' v' v List.mem_cons_self hm]
    · next hk =>
      rcases List.mem_cons.mp hm with e | hm
      · cases e; exact absurd rfl hk
      · exact ih hf.tail hm

theorem functional_of_nodup_keys {l : List (RankPair × W)} (h : (l.map Prod.fst).Nodup) : Functional l := by
  induction l with
  | nil => intro k v v' h; cases h
  | cons e rest ih =>
    simp only [List.map_cons, List.nodup_cons] at h
    intro k v v' h1 h2
    rcases List.mem_cons.mp h1 with e1 | m1 <;> rcases List.mem_cons.mp h2 with e2 | m2
    · rw [← e2] at e1; cases e1; rfl
    · subst e1
      have : (k, v).fst ∈ rest.map Prod.fst := List.mem_map.mpr ⟨(k, v'), m2, rfl⟩
      exact absurd this h.1
    · subst e2
      have : (k, v').fst ∈ rest.map Prod.fst := List.mem_map.mpr ⟨(k, v), m1, rfl⟩
      exact absurd this h.1
    · exact ih h.2 k v v' m1 m2

/-- for a list with `Nodup` keys, `rpLookup` is membership -/
theorem rpLookup_eq_some_iff_of_nodup {l : List (RankPair × W)} (h : (l.map Prod.fst).Nodup)
    (k : RankPair) (v : W) : rpLookup l k = some v ↔ (k, v) ∈ l :=
  rpLookup_eq_some_iff (functional_of_nodup_keys h) k v

/-! ### `lookup` and `remove` -/

theorem lookup_mem {r : HandRange W} {c : Combo} {w : W} (h : r.lookup c = some w) : (c, w) ∈ r := by
  induction r with
  | nil => simp [HandRange.lookup] at h
  | cons e rest ih =>
    obtain ⟨k, v⟩ := e
    simp only [HandRange.lookup] at h
    split at h
    · next hk => subst hk; cases h; exact List.mem_cons_self
    · exact List.mem_cons_of_mem _ (ih h)

/-- a property of all stored weights holds of every weight looked up -/
theorem lookup_dom {inDom : W → Prop} {r : HandRange W} (hr : ∀ e ∈ r, inDom e.2) {c : Combo} {w : W}
    (h : r.lookup c = some w) : inDom w := hr _ (lookup_mem h)

theorem lookup_remove (m : HandRange W) (c c' : Combo) :
    (HandRange.remove m c).lookup c' = if c' = c then none else m.lookup c' := by
  induction m with
  | nil => simp [HandRange.remove, HandRange.lookup]
  | cons e rest ih =>
    obtain ⟨k, v⟩ := e
    simp only [HandRange.remove] at ih
    by_cases hk : k = c
    · subst hk
      simp only [HandRange.remove, List.filter_cons, ne_eq, not_true_eq_false, decide_false,
        Bool.false_eq_true, if_false, ih, HandRange.lookup]
      by_cases h : c' = k
      · simp [h]
      · have : ¬ k = c' := fun e => h e.symm
        simp [h, this]
    · simp only [HandRange.remove, List.filter_cons, ne_eq, hk, not_false_eq_true, decide_true,
        if_true, HandRange.lookup, ih]
      by_cases h : k = c'
      · subst h; simp [hk]
      · simp [h]

theorem lookup_foldl_remove (cs : List Combo) (m : HandRange W) (c' : Combo) :
    (cs.foldl (fun m cp => HandRange.remove m cp) m).lookup c' = if c' ∈ cs then none else m.lookup c' := by
  induction cs generalizing m with
  | nil => simp
  | cons c rest ih =>
    simp only [List.foldl_cons, ih, lookup_remove, List.mem_cons]
    by_cases h1 : c' ∈ rest <;> by_cases h2 : c' = c <;> simp [h1, h2]

/-- the nested fold of `orphans` removes exactly the combos of the listed rank pairs -/
theorem lookup_foldl_remove_combos (rps : List (RankPair × W)) (m : HandRange W) (c' : Combo) :
    (rps.foldl (fun m rp => rp.1.combos.foldl (fun m cp => HandRange.remove m cp) m) m).lookup c'
      = if c' ∈ rps.flatMap (fun e => e.1.combos) then none else m.lookup c' := by
  rw [← lookup_foldl_remove, List.foldl_flatMap]

/-! ### the probe test -/

/-- the combo `rank_pairs` probes for a rank pair -/
def probeOf : RankPair → Combo
  | .pocket r => mkPair ⟨r, 0⟩ ⟨r, 1⟩
  | .suited h k => mkPair ⟨h, 0⟩ ⟨k, 0⟩
  | .ofsuit h k => mkPair ⟨h, 0⟩ ⟨k, 1⟩

theorem probeOf_mem (rp : RankPair) : probeOf rp ∈ rp.combos := by
  cases rp with
  | pocket r => exact List.mem_map.mpr ⟨(0, 1), by decide, rfl⟩
  | suited h k => exact List.mem_map.mpr ⟨(0, 0), by decide, rfl⟩
  | ofsuit h k => exact List.mem_map.mpr ⟨(0, 1), by decide, rfl⟩

theorem combos_ne_nil (rp : RankPair) : rp.combos ≠ [] := fun h => by
  have := probeOf_mem rp
  rw [h] at this
  cases this

theorem rankPairWeight_eq_some_iff (wt : WText W) (r : HandRange W) (rp : RankPair) (probe : Combo) (p : W) :
    rankPairWeight wt r rp probe = some p ↔
      r.lookup probe = some p ∧ ∀ cp ∈ rp.combos, ∃ q, r.lookup cp = some q ∧ wt.eq q p = true := by
  unfold rankPairWeight
  cases hp : r.lookup probe with
  | none => simp
  | some p' =>
    simp only [List.all_eq_true, Option.some.injEq]
    constructor
    · intro h
      split at h
      · next hall =>
        cases h
        refine ⟨rfl, fun cp hcp => ?_⟩
        have := hall cp hcp
        cases hq : r.lookup cp with
        | none => simp only [hq] at this; cases this
        | some q => simp only [hq] at this; exact ⟨q, rfl, this⟩
      · cases h
    · rintro ⟨rfl, hall⟩
      rw [if_pos]
      intro cp hcp
      obtain ⟨q, hq, he⟩ := hall cp hcp
      rw [hq]; exact he

/-- on a weight domain where `==` is equality, the probe test of a rank pair succeeds with `p` exactly when
every combo of the rank pair is present with weight `p` -/
theorem rankPairWeight_probe_iff (wt : WText W) (inDom : W → Prop) (hok : WTextOk wt inDom) (r : HandRange W)
    (hr : ∀ e ∈ r, inDom e.2) (rp : RankPair) (probe : Combo) (hprobe : probe ∈ rp.combos) (p : W) :
    rankPairWeight wt r rp probe = some p ↔ ∀ cp ∈ rp.combos, r.lookup cp = some p := by
  rw [rankPairWeight_eq_some_iff]
  constructor
  · rintro ⟨hp, hall⟩ cp hcp
    obtain ⟨q, hq, he⟩ := hall cp hcp
    rw [hq, (hok.eq_iff q p (lookup_dom hr hq) (lookup_dom hr hp)).mp he]
  · intro hall
    have hp := hall probe hprobe
    refine ⟨hp, fun cp hcp => ⟨p, hall cp hcp, ?_⟩⟩
    exact (hok.eq_iff p p (lookup_dom hr hp) (lookup_dom hr hp)).mpr rfl

/-! ### closed form of `rankPairs` -/

/-- the weight `rank_pairs` reports for a rank pair, if any -/
def entryW (wt : WText W) (r : HandRange W) (rp : RankPair) : Option W :=
  rankPairWeight wt r rp (probeOf rp)

/-- zero or one entry for a rank pair -/
def entryOf (wt : WText W) (r : HandRange W) (rp : RankPair) : Option (RankPair × W) :=
  (entryW wt r rp).map fun p => (rp, p)

/-- the two cells (suited, offsuit) of a (high, kicker) position -/
def cellEntries (wt : WText W) (r : HandRange W) (high kicker : Nat) : List (RankPair × W) :=
  (entryOf wt r (.suited high kicker)).toList ++ (entryOf wt r (.ofsuit high kicker)).toList

/-- the row of a high card: kickers `high + 1 … 12` -/
def rowEntries (wt : WText W) (r : HandRange W) (high : Nat) : List (RankPair × W) :=
  (List.range' (high + 1) (12 - high)).flatMap (cellEntries wt r high)

/-- the list `rankPairs` returns: pockets A…2, then for each high card A…3 its row -/
def rpList (wt : WText W) (r : HandRange W) : List (RankPair × W) :=
  (List.range 13).filterMap (fun rank => entryOf wt r (.pocket rank))
    ++ (List.range 12).flatMap (rowEntries wt r)

theorem rows_eq (wt : WText W) (r : HandRange W) (hs : List Nat) (hh : ∀ h ∈ hs, h ≤ 11) :
    rankPairs.rows wt r hs = .ok (hs.flatMap (rowEntries wt r)) := by
  induction hs with
  | nil => simp [rankPairs.rows]
  | cons h rest ih =>
    have hle : h ≤ 11 := hh h List.mem_cons_self
    have hn : rankNext h = some (h + 1) := by
      rw [(C13.rank_next_prev h (by omega)).1, if_pos (by omega)]
    have hr : rankRange (h + 1) rankDeuce true = .ok (List.range' (h + 1) (12 - h)) := by
      have := (C13.rank_range_run (h + 1) 12 (by omega) (by omega) (by omega)).2
      rw [show 12 + 1 - (h + 1) = 12 - h by omega] at this
      exact this
    rw [rankPairs.rows, hn]
    simp only [hr, ih (fun x hx => hh x (List.mem_cons_of_mem _ hx)), List.flatMap_cons]
    rfl

/-- **closed form of `rankPairs`** -/
theorem rankPairs_eq (wt : WText W) (r : HandRange W) : rankPairs wt r = .ok (rpList wt r) := by
  have h2 : rankRange rankAce rankTrey true = .ok (List.range 12) := by decide
  unfold rankPairs
  simp only [C13.rank_range_all, h2]
  rw [rows_eq wt r (List.range 12) (fun h hh => by have := List.mem_range.mp hh; omega)]
  rfl

theorem orphans_eq (wt : WText W) (r : HandRange W) :
    orphans wt r = .ok ((rpList wt r).foldl (fun m rp => rp.1.combos.foldl (fun m cp => HandRange.remove m cp) m) r) := by
  simp only [orphans, rankPairs_eq]

theorem entryOf_eq_some (wt : WText W) (r : HandRange W) (rp' rp : RankPair) (w : W) :
    entryOf wt r rp' = some (rp, w) ↔ rp' = rp ∧ entryW wt r rp = some w := by
  unfold entryOf
  cases h : entryW wt r rp' with
  | none =>
    simp only [Option.map_none, reduceCtorEq, false_iff, not_and]
    rintro rfl; rw [h]; simp
  | some p =>
    simp only [Option.map_some, Option.some.injEq, Prod.mk.injEq]
    constructor
    · rintro ⟨rfl, rfl⟩; exact ⟨rfl, h⟩
    · rintro ⟨rfl, h'⟩; rw [h] at h'; exact ⟨rfl, Option.some.inj h'⟩

theorem mem_cellEntries (wt : WText W) (r : HandRange W) (h k : Nat) (rp : RankPair) (w : W) :
    (rp, w) ∈ cellEntries wt r h k ↔ (rp = .suited h k ∨ rp = .ofsuit h k) ∧ entryW wt r rp = some w := by
  unfold cellEntries
  rw [List.mem_append, Option.mem_toList, Option.mem_toList, entryOf_eq_some, entryOf_eq_some]
  constructor
  · rintro (⟨e, he⟩ | ⟨e, he⟩)
    · exact ⟨Or.inl e.symm, he⟩
    · exact ⟨Or.inr e.symm, he⟩
  · rintro ⟨(e | e), he⟩
    · exact Or.inl ⟨e.symm, he⟩
    · exact Or.inr ⟨e.symm, he⟩

theorem mem_rowEntries (wt : WText W) (r : HandRange W) (h : Nat) (rp : RankPair) (w : W) (hh : h ≤ 12) :
    (rp, w) ∈ rowEntries wt r h ↔
      ∃ k, h < k ∧ k < 13 ∧ (rp = .suited h k ∨ rp = .ofsuit h k) ∧ entryW wt r rp = some w := by
  unfold rowEntries
  rw [List.mem_flatMap]
  constructor
  · rintro ⟨k, hk, hm⟩
    have := List.mem_range'_1.mp hk
    obtain ⟨h1, h2⟩ := (mem_cellEntries wt r h k rp w).mp hm
    exact ⟨k, by omega, by omega, h1, h2⟩
  · rintro ⟨k, h1, h2, h3, h4⟩
    exact ⟨k, List.mem_range'_1.mpr (by omega), (mem_cellEntries wt r h k rp w).mpr ⟨h3, h4⟩⟩

/-- membership in the closed form -/
theorem mem_rpList (wt : WText W) (r : HandRange W) (rp : RankPair) (w : W) :
    (rp, w) ∈ rpList wt r ↔ RankPair.canonical rp ∧ entryW wt r rp = some w := by
  unfold rpList
  rw [List.mem_append, List.mem_filterMap, List.mem_flatMap]
  constructor
  · rintro (⟨a, ha, he⟩ | ⟨h, hh, hm⟩)
    · obtain ⟨rfl, he⟩ := (entryOf_eq_some wt r _ rp w).mp he
      exact ⟨List.mem_range.mp ha, he⟩
    · have hh := List.mem_range.mp hh
      obtain ⟨k, h1, h2, (rfl | rfl), he⟩ := (mem_rowEntries wt r h rp w (by omega)).mp hm
      · exact ⟨⟨h1, h2⟩, he⟩
      · exact ⟨⟨h1, h2⟩, he⟩
  · rintro ⟨hc, he⟩
    cases rp with
    | pocket a =>
      exact Or.inl ⟨a, List.mem_range.mpr hc, (entryOf_eq_some wt r _ _ w).mpr ⟨rfl, he⟩⟩
    | suited h k =>
      obtain ⟨h1, h2⟩ := hc
      exact Or.inr ⟨h, List.mem_range.mpr (by omega),
        (mem_rowEntries wt r h _ w (by omega)).mpr ⟨k, h1, h2, Or.inl rfl, he⟩⟩
    | ofsuit h k =>
      obtain ⟨h1, h2⟩ := hc
      exact Or.inr ⟨h, List.mem_range.mpr (by omega),
        (mem_rowEntries wt r h _ w (by omega)).mpr ⟨k, h1, h2, Or.inr rfl, he⟩⟩

theorem rpList_functional (wt : WText W) (r : HandRange W) : Functional (rpList wt r) := by
  intro k v v' h1 h2
  have e1 := ((mem_rpList wt r k v).mp h1).2
  have e2 := ((mem_rpList wt r k v').mp h2).2
  rw [e1] at e2
  exact Option.some.inj e2

/-- `rpLookup` on the result of `rankPairs` -/
theorem rpLookup_rpList (wt : WText W) (r : HandRange W) (rp : RankPair) (w : W) :
    rpLookup (rpList wt r) rp = some w ↔ RankPair.canonical rp ∧ entryW wt r rp = some w := by
  rw [rpLookup_eq_some_iff (rpList_functional wt r), mem_rpList]

end EspadaVerif.RankPairFacts
