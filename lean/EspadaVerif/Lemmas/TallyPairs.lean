/-
Lemmas/TallyPairs: sums over the unordered pairs of a list (`pairSum`), their invariance under
permutation for a symmetric summand, and the positions `(t, r)`, `t < r < 49`, of `Spec.allPositions`
as an enumeration of the pairs of a 49-element list.
-/
import EspadaVerif.Spec.Tally
import EspadaVerif.Lemmas.IterPositions

namespace EspadaVerif.TallyLemmas
open EspadaVerif Spec

/-- `Σ F x y` over the pairs `x` before `y` of the list -/
def pairSum (F : Nat → Nat → Nat) : List Nat → Nat
  | [] => 0
  | x :: rest => (rest.map (F x)).sum + pairSum F rest

theorem pairSum_perm (F : Nat → Nat → Nat) (hF : ∀ x y, F x y = F y x) {l l' : List Nat} (h : l.Perm l') :
    pairSum F l = pairSum F l' := by
  induction h with
  | nil => rfl
  | cons x h ih =>
    simp only [pairSum, ih, (h.map (F x)).sum_nat]
  | swap x y l =>
    simp only [pairSum, List.map_cons, List.sum_cons, hF x y]
    omega
  | trans _ _ ih1 ih2 => exact ih1.trans ih2

theorem pairSum_map (F : Nat → Nat → Nat) (f : Nat → Nat) (l : List Nat) :
    pairSum F (l.map f) = pairSum (fun a b => F (f a) (f b)) l := by
  induction l with
  | nil => rfl
  | cons x l ih => simp only [List.map_cons, pairSum, ih, List.map_map, Function.comp_def]

theorem sum_map_congr {α : Type} (l : List α) (f g : α → Nat) (h : ∀ x ∈ l, f x = g x) :
    (l.map f).sum = (l.map g).sum := by
  rw [List.map_congr_left h]

theorem pairSum_congr (F G : Nat → Nat → Nat) (l : List Nat) (h : ∀ x ∈ l, ∀ y ∈ l, F x y = G x y) :
    pairSum F l = pairSum G l := by
  induction l with
  | nil => rfl
  | cons x l ih =>
    simp only [pairSum]
    rw [ih fun a ha b hb => h a (List.mem_cons_of_mem _ ha) b (List.mem_cons_of_mem _ hb),
      sum_map_congr l (F x) (G x) fun y hy => h x (by simp) y (List.mem_cons_of_mem _ hy)]

theorem sum_flatMap {α β : Type} (l : List α) (f : α → List β) (g : β → Nat) :
    ((l.flatMap f).map g).sum = (l.map fun a => ((f a).map g).sum).sum := by
  induction l with
  | nil => rfl
  | cons x l ih => simp only [List.flatMap_cons, List.map_append, List.sum_append, List.map_cons, List.sum_cons, ih]

theorem drop_eq_map_range' (D : List Nat) (k : Nat) :
    D.drop k = (List.range' k (D.length - k)).map fun r => D.getD r 0 := by
  apply List.ext_getElem
  · simp
  · intro i h1 h2
    simp only [List.length_drop] at h1
    simp only [List.getElem_drop, List.getElem_map, List.getElem_range', Nat.one_mul]
    rw [List.getD_eq_getElem?_getD, List.getElem?_eq_getElem (by omega)]
    simp

/-- pairs by index -/
theorem pairSum_eq_index (F : Nat → Nat → Nat) (D : List Nat) :
    pairSum F D = ((List.range D.length).map fun t => ((D.drop (t + 1)).map (F (D.getD t 0))).sum).sum := by
  induction D with
  | nil => rfl
  | cons x D ih =>
    simp only [pairSum, List.length_cons, List.range_succ_eq_map, List.map_cons, List.sum_cons, List.map_map,
      Function.comp_def, Nat.succ_eq_add_one, List.drop_succ_cons, List.drop_zero, List.getD_cons_zero,
      List.getD_cons_succ]
    rw [ih]

/-- the positions of the full scope enumerate the pairs of a 49-card deck -/
theorem sum_allPositions (F : Nat → Nat → Nat) (D : List Nat) (hD : D.length = 49) :
    (allPositions.map fun p => F (D.getD p.1 0) (D.getD p.2 0)).sum = pairSum F D := by
  rw [pairSum_eq_index, hD]
  unfold allPositions
  rw [sum_flatMap]
  rw [show List.range 49 = List.range 48 ++ [48] from List.range_succ]
  rw [List.map_append, List.sum_append]
  have e : D.drop (48 + 1) = [] := List.drop_eq_nil_of_le (by omega)
  simp only [List.map_cons, List.map_nil, e, List.sum_cons, List.sum_nil, Nat.add_zero]
  apply sum_map_congr
  intro t ht
  rw [drop_eq_map_range', hD]
  simp only [List.map_map, Function.comp_def]
  congr 3
  omega

theorem positionsBetween_full : positionsBetween (0, 1) (48, 49) = allPositions := by
  unfold positionsBetween
  rw [List.filter_eq_self]
  intro q hq
  obtain ⟨h1, h2⟩ := (IterLemmas.mem_allPositions q).mp hq
  obtain ⟨t, r⟩ := q
  simp only at h1 h2
  simp only [posLe, posLt, Bool.and_eq_true, Bool.or_eq_true, decide_eq_true_eq, beq_iff_eq, Prod.mk.injEq]
  omega

end EspadaVerif.TallyLemmas
