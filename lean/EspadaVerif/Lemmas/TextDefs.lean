/-
Lemmas/TextDefs: shared vocabulary of the text-side properties (C05 C06 C09 C10 C12 C17).
-/
import EspadaVerif.Model.Range
import EspadaVerif.Spec.Notation
import EspadaVerif.Spec.RangeViews

namespace EspadaVerif.TextDefs
open EspadaVerif

variable {W : Type}

/-- what is assumed of `f32` text conversion and comparison on the weight domain `inDom` (the weights in
[0,1]: bit patterns 0x00000000..=0x3F800000).  None of this is proved; the harness validates it against
Rust's `f32` (`Display`, `FromStr`, `==`). -/
structure WTextOk (wt : WText W) (inDom : W → Prop) : Prop where
  /-- on the domain, `f32 ==` is equality of values -/
  eq_iff : ∀ a b, inDom a → inDom b → (wt.eq a b = true ↔ a = b)
  one_dom : inDom wt.one
  /-- a weight other than 1 prints in the weight grammar `0(.d+)?` / `1(.0+)?` -/
  show_grammar : ∀ w, inDom w → w ≠ wt.one → isWeightText (wt.showW w) = true
  /-- printing then parsing gives the same weight back -/
  roundtrip : ∀ w, inDom w → wt.parseW (wt.showW w) = some w
  /-- a text of the weight grammar parses to a weight of the domain -/
  parse_dom : ∀ t w, isWeightText t = true → wt.parseW t = some w → inDom w
  /-- the empty text is not a number (`f32::from_str("")` is an error) -/
  parse_empty : wt.parseW [] = none

/-- a real hole-card combo in canonical form: two valid cards, the first ordering first (hence different) -/
def ComboOk (c : Combo) : Prop := c.fst.valid = true ∧ c.snd.valid = true ∧ Card.lt c.fst c.snd = true

/-- the combo as the specification sees it: a pair of card codes -/
def comboCodes (c : Combo) : Nat × Nat := (c.fst.code, c.snd.code)

/-- canonical rank pairs: pocket of a rank, suited / offsuit with the high card first -/
def RankPair.canonical : RankPair → Prop
  | .pocket r => r < 13
  | .suited h k => h < k ∧ k < 13
  | .ofsuit h k => h < k ∧ k < 13

/-- weight suffix of a token text: nothing, or `:` followed by a text of the weight grammar -/
def SuffixOk (suffix : Bytes) : Prop := suffix = [] ∨ ∃ w, suffix = 58 :: w ∧ isWeightText w = true

/-- the weight a suffix stands for -/
def suffixWeight (wt : WText W) (suffix : Bytes) : W :=
  match suffix with
  | 58 :: w => (wt.parseW w).getD wt.one
  | _ => wt.one

end EspadaVerif.TextDefs
