/-
Lemmas/TokenFacts: general facts about the token model (`Model/Token.lean`): one-byte slices of ASCII
prefixes, the byte classes of the recognisers, an exact description of each of the seven branches of
`parseToken` on the shape its recogniser pins, the well-formedness predicate `TokenOk` of parsed tokens and
the totality of `Token.expand` on it.  Shared by C05 C06 C09 C10 C12 C17.
-/
import EspadaVerif.Lemmas.TextDefs
import EspadaVerif.Props.C14

namespace EspadaVerif.TokenFacts
open EspadaVerif TextDefs

variable {W : Type}

/-! ### slices -/

theorem isCont_ascii (b : Nat) (h : b < 128) : isCont b = false := by
  simp [isCont]; omega

theorem isBoundary_of (s : Bytes) (i : Nat) (hi : i ≤ s.length)
    (h : ∀ y, s[i]? = some y → isCont y = false) : isBoundary s i = true := by
  unfold isBoundary
  split
  · rfl
  · split
    · rfl
    · cases hs : s[i]? with
      | none =>
        have := List.getElem?_eq_none_iff.mp hs
        omega
      | some y => simp [h y hs]

/-- a slice between two char boundaries -/
theorem slice_ok (s : Bytes) (i j : Nat) (hij : i ≤ j) (hj : j ≤ s.length)
    (hi : ∀ y, s[i]? = some y → isCont y = false) (hj' : ∀ y, s[j]? = some y → isCont y = false) :
    slice s i j = .ok ((s.drop i).take (j - i)) := by
  unfold slice
  rw [isBoundary_of s i (by omega) hi, isBoundary_of s j hj hj']
  simp [hij, hj]

theorem sliceFrom_ok (s : Bytes) (i : Nat) (hi : i ≤ s.length)
    (h : ∀ y, s[i]? = some y → isCont y = false) : sliceFrom s i = .ok (s.drop i) := by
  unfold sliceFrom
  rw [slice_ok s i s.length hi (Nat.le_refl _) h (by simp)]
  rw [List.take_of_length_le (by simp)]

/-- the first `n` bytes of `s`, and the byte after them if any, are ASCII -/
structure AsciiUpTo (s : Bytes) (n : Nat) : Prop where
  len : n ≤ s.length
  asc : ∀ i, i ≤ n → ∀ y, s[i]? = some y → y < 128

theorem asciiUpTo_append (pre rest : Bytes) (hp : ∀ y ∈ pre, y < 128)
    (hr : ∀ y, rest.head? = some y → y < 128) : AsciiUpTo (pre ++ rest) pre.length := by
  refine ⟨by simp, fun i hi y hy => ?_⟩
  by_cases hlt : i < pre.length
  · rw [List.getElem?_append_left hlt] at hy
    exact hp y (List.mem_of_getElem? hy)
  · have : i = pre.length := by omega
    subst this
    rw [List.getElem?_append_right (Nat.le_refl _), Nat.sub_self] at hy
    exact hr y (by rw [List.head?_eq_getElem?]; exact hy)

theorem slice_asc {s : Bytes} {n : Nat} (A : AsciiUpTo s n) (i j : Nat) (hij : i ≤ j) (hj : j ≤ n) :
    slice s i j = .ok ((s.drop i).take (j - i)) :=
  slice_ok s i j hij (Nat.le_trans hj A.len)
    (fun y hy => isCont_ascii y (A.asc i (by omega) y hy))
    (fun y hy => isCont_ascii y (A.asc j hj y hy))

theorem sliceFrom_asc {s : Bytes} {n : Nat} (A : AsciiUpTo s n) (i : Nat) (hi : i ≤ n) :
    sliceFrom s i = .ok (s.drop i) :=
  sliceFrom_ok s i (Nat.le_trans hi A.len) (fun y hy => isCont_ascii y (A.asc i hi y hy))

/-! ### bytes of the token alphabet -/

/-- `b` is the (ASCII) letter of rank `r` -/
def IsRank (b r : Nat) : Prop := b < 128 ∧ rankOfChar b = some r
def IsSuit (b s : Nat) : Prop := b < 128 ∧ suitOfChar b = some s

theorem isRankByte_iff (b : Nat) : isRankByte b = true ↔ ∃ r, IsRank b r := by
  constructor
  · intro h
    simp only [isRankByte, List.contains_eq_mem, List.mem_cons, List.mem_nil_iff, or_false,
      decide_eq_true_eq] at h
    have : b < 128 ∧ ∃ r, rankOfChar b = some r := by
      rcases h with h | h | h | h | h | h | h | h | h | h | h | h | h <;> subst h <;>
        exact ⟨by omega, Option.isSome_iff_exists.mp (by decide)⟩
    obtain ⟨h1, r, h2⟩ := this
    exact ⟨r, h1, h2⟩
  · rintro ⟨r, hb, hr⟩
    have key : ∀ b ∈ List.range 128, (rankOfChar b).isSome = true → isRankByte b = true := by decide +kernel
    exact key b (List.mem_range.mpr hb) (by simp [hr])

theorem isSuitByte_iff (b : Nat) : isSuitByte b = true ↔ ∃ s, IsSuit b s := by
  constructor
  · intro h
    simp only [isSuitByte, List.contains_eq_mem, List.mem_cons, List.mem_nil_iff, or_false,
      decide_eq_true_eq] at h
    have : b < 128 ∧ ∃ r, suitOfChar b = some r := by
      rcases h with h | h | h | h <;> subst h <;>
        exact ⟨by omega, Option.isSome_iff_exists.mp (by decide)⟩
    obtain ⟨h1, r, h2⟩ := this
    exact ⟨r, h1, h2⟩
  · rintro ⟨r, hb, hr⟩
    have key : ∀ b ∈ List.range 128, (suitOfChar b).isSome = true → isSuitByte b = true := by decide +kernel
    exact key b (List.mem_range.mpr hb) (by simp [hr])

theorem isSoByte_iff (b : Nat) : isSoByte b = true ↔ b = 115 ∨ b = 111 := by
  simp [isSoByte]

theorem IsRank.lt {b r : Nat} (h : IsRank b r) : r < 13 := (C13.rank_char_only b h.1 r h.2).1
theorem IsRank.char {b r : Nat} (h : IsRank b r) : rankChar r = b := (C13.rank_char_only b h.1 r h.2).2
theorem IsRank.byte {b r : Nat} (h : IsRank b r) : isRankByte b = true := (isRankByte_iff b).mpr ⟨r, h⟩
theorem IsRank.inj {a b r : Nat} (ha : IsRank a r) (hb : IsRank b r) : a = b := by
  rw [← ha.char, ← hb.char]
theorem IsRank.unique {b r r' : Nat} (h : IsRank b r) (h' : IsRank b r') : r = r' := by
  have := h.2; rw [h'.2] at this; exact (Option.some.inj this).symm
theorem isRank_rankChar (r : Nat) (hr : r < 13) : IsRank (rankChar r) r :=
  ⟨(C13.rank_text r hr).2, (C13.rank_text r hr).1⟩
/-- equal letters iff equal ranks -/
theorem IsRank.eq_iff {a b ra rb : Nat} (ha : IsRank a ra) (hb : IsRank b rb) : a = b ↔ ra = rb :=
  ⟨fun h => by subst h; exact ha.unique hb, fun h => by subst h; exact ha.inj hb⟩

theorem IsSuit.lt {b s : Nat} (h : IsSuit b s) : s < 4 := (C13.suit_char_only b h.1 s h.2).1
theorem IsSuit.char {b s : Nat} (h : IsSuit b s) : suitChar s = b := (C13.suit_char_only b h.1 s h.2).2
theorem IsSuit.byte {b s : Nat} (h : IsSuit b s) : isSuitByte b = true := (isSuitByte_iff b).mpr ⟨s, h⟩
theorem isSuit_suitChar (s : Nat) (hs : s < 4) : IsSuit (suitChar s) s :=
  ⟨(C13.suit_text s hs).2, (C13.suit_text s hs).1⟩

theorem parseRank_single (x : Nat) (hx : x < 128) :
    parseRank [x] = (match rankOfChar x with | some r => .ok r | none => .err) := by
  simp only [parseRank, firstChar, hx, if_true]
  cases rankOfChar x <;> rfl

theorem parseRank_of_isRank {x r : Nat} (h : IsRank x r) : parseRank [x] = .ok r := by
  rw [parseRank_single x h.1, h.2]

/-! ### weight suffix -/

/-- the weight the model computes from the text after the token body (`parse_probability`):
note the empty suffix goes through `parseW []` (Rust: `"".parse::<f32>()` is an error, hence 1.0) -/
def sufW (wt : WText W) (suffix : Bytes) : W :=
  match suffix with
  | 58 :: w => (wt.parseW w).getD wt.one
  | v => (wt.parseW v).getD wt.one

theorem sufW_nil (wt : WText W) : sufW wt [] = (wt.parseW []).getD wt.one := rfl
theorem sufW_colon (wt : WText W) (w : Bytes) : sufW wt (58 :: w) = (wt.parseW w).getD wt.one := rfl

theorem sufW_eq_suffixWeight (wt : WText W) (hempty : wt.parseW [] = none) (suffix : Bytes)
    (h : isWeightSuffix suffix = true) : sufW wt suffix = suffixWeight wt suffix := by
  unfold isWeightSuffix at h
  split at h
  · simp [sufW, suffixWeight, hempty]
  · rfl
  · cases h

theorem isWeightSuffix_iff (suffix : Bytes) : isWeightSuffix suffix = true ↔ SuffixOk suffix := by
  unfold isWeightSuffix SuffixOk
  split
  · simp
  · simp
  · rename_i h1 h2
    constructor
    · intro h; cases h
    · rintro (h | ⟨w, h, _⟩)
      · exact absurd h h1
      · exact absurd h (h2 w)

theorem isWeightText_head (w : Bytes) (h : isWeightText w = true) :
    ∃ d ds, w = d :: ds ∧ d < 128 := by
  unfold isWeightText at h
  split at h
  · exact ⟨_, _, rfl, by omega⟩
  · exact ⟨_, _, rfl, by omega⟩
  · exact ⟨_, _, rfl, by omega⟩
  · exact ⟨_, _, rfl, by omega⟩
  · cases h

theorem isWeightSuffix_head (suffix : Bytes) (h : isWeightSuffix suffix = true) :
    ∀ y, suffix.head? = some y → y < 128 := by
  unfold isWeightSuffix at h
  split at h
  · simp
  · simp
  · cases h

theorem parseProbability_suffix (wt : WText W) (suffix : Bytes) (h : isWeightSuffix suffix = true) :
    parseProbability wt suffix = .ok (sufW wt suffix) := by
  unfold isWeightSuffix at h
  split at h
  · rfl
  · rename_i w
    obtain ⟨d, ds, rfl, hd⟩ := isWeightText_head w h
    have : sliceFrom (58 :: d :: ds) 1 = .ok (d :: ds) := by
      rw [sliceFrom_ok _ 1 (by simp) (by simp; exact isCont_ascii d hd)]
      rfl
    simp [parseProbability, this, sufW]
  · cases h

theorem mkHit_eq (wt : WText W) (kind : TokenKind) (s : Bytes) (n : Nat) (A : AsciiUpTo s n)
    (h : isWeightSuffix (s.drop n) = true) : mkHit wt kind s n = .hit ⟨kind, sufW wt (s.drop n)⟩ := by
  simp [mkHit, sliceFrom_asc A n (Nat.le_refl _), parseProbability_suffix wt _ h]

/-! ### one-byte slices at a position of an ASCII prefix -/

theorem take_one_drop (s : Bytes) (i x : Nat) (hx : s[i]? = some x) : (s.drop i).take 1 = [x] := by
  rw [List.take_one, List.head?_drop, hx]; rfl

theorem slice_one_asc {s : Bytes} {n : Nat} (A : AsciiUpTo s n) (i x : Nat) (hi : i + 1 ≤ n)
    (hx : s[i]? = some x) : slice s i (i + 1) = .ok [x] := by
  rw [slice_asc A i (i + 1) (by omega) hi, Nat.add_sub_cancel_left, take_one_drop s i x hx]

theorem rankAt_asc {s : Bytes} {n : Nat} (A : AsciiUpTo s n) (i x r : Nat) (hi : i + 1 ≤ n)
    (hx : s[i]? = some x) (hr : IsRank x r) : rankAt s i = .ok r := by
  simp [rankAt, slice_one_asc A i x hi hx, parseRank_of_isRank hr]

theorem sliceEq_asc {s : Bytes} {n : Nat} (A : AsciiUpTo s n) (i j x y : Nat) (hi : i + 1 ≤ n) (hj : j + 1 ≤ n)
    (hx : s[i]? = some x) (hy : s[j]? = some y) : sliceEq s i j = .ok (x == y) := by
  simp [sliceEq, slice_one_asc A i x hi hx, slice_one_asc A j y hj hy]

/-! ### the seven branches, exactly, on the shape their recogniser pins -/

/-- `s` / `o` (any other byte counts as `o`, as in the source's `if &v[2..3] == "s" .. else ..`) -/
def soPair (x h k : Nat) : RankPair := if x = 115 then .suited h k else .ofsuit h k

theorem brDoublePocket_eq (wt : WText W) (a b c d : Nat) (rest : Bytes) (ra rb rc rd : Nat)
    (ha : IsRank a ra) (hb : IsRank b rb) (hc : IsRank c rc) (hd : IsRank d rd)
    (hs : isWeightSuffix rest = true) :
    brDoublePocket wt (a :: b :: 45 :: c :: d :: rest) =
      if a = b ∧ c = d ∧ ra ≤ rc then .hit ⟨.doubleClosed (.pocket ra) rc, sufW wt rest⟩ else .next := by
  have A : AsciiUpTo (a :: b :: 45 :: c :: d :: rest) 5 :=
    asciiUpTo_append [a, b, 45, c, d] rest (by simp [ha.1, hb.1, hc.1, hd.1]) (isWeightSuffix_head rest hs)
  have hre : reDoublePocket (a :: b :: 45 :: c :: d :: rest) = true := by
    simp [reDoublePocket, ha.byte, hb.byte, hc.byte, hd.byte, hs]
  have hm : ∀ kind, mkHit wt kind (a :: b :: 45 :: c :: d :: rest) 5 = .hit ⟨kind, sufW wt rest⟩ :=
    fun kind => mkHit_eq wt kind _ 5 A hs
  unfold brDoublePocket
  rw [if_pos hre, sliceEq_asc A 0 1 a b (by omega) (by omega) rfl rfl,
    sliceEq_asc A 3 4 c d (by omega) (by omega) rfl rfl,
    rankAt_asc A 0 a ra (by omega) rfl ha, rankAt_asc A 3 c rc (by omega) rfl hc]
  simp only [hm]
  by_cases h1 : a = b <;> by_cases h2 : c = d <;> by_cases h3 : ra ≤ rc <;> simp [h1, h2, h3]

theorem brDoubleRankPair_eq (wt : WText W) (a b x c d y : Nat) (rest : Bytes) (ra rb rc rd : Nat)
    (ha : IsRank a ra) (hb : IsRank b rb) (hx : isSoByte x = true) (hc : IsRank c rc) (hd : IsRank d rd)
    (hy : isSoByte y = true) (hs : isWeightSuffix rest = true) :
    brDoubleRankPair wt (a :: b :: x :: 45 :: c :: d :: y :: rest) =
      if a = c ∧ x = y ∧ ra < rb ∧ rb < rd then .hit ⟨.doubleClosed (soPair x ra rb) rd, sufW wt rest⟩
      else .next := by
  have hx' : x < 128 := by rcases (isSoByte_iff x).mp hx with h | h <;> omega
  have hy' : y < 128 := by rcases (isSoByte_iff y).mp hy with h | h <;> omega
  have A : AsciiUpTo (a :: b :: x :: 45 :: c :: d :: y :: rest) 7 :=
    asciiUpTo_append [a, b, x, 45, c, d, y] rest (by simp [ha.1, hb.1, hc.1, hd.1, hx', hy'])
      (isWeightSuffix_head rest hs)
  have hre : reDoubleRankPair (a :: b :: x :: 45 :: c :: d :: y :: rest) = true := by
    simp [reDoubleRankPair, ha.byte, hb.byte, hc.byte, hd.byte, hs, hx, hy]
  have hm : ∀ kind, mkHit wt kind (a :: b :: x :: 45 :: c :: d :: y :: rest) 7 = .hit ⟨kind, sufW wt rest⟩ :=
    fun kind => mkHit_eq wt kind _ 7 A hs
  have hbd : (b == d) = (rb == rd) := by
    have := hb.eq_iff hd
    rw [Bool.eq_iff_iff]; simpa using this
  unfold brDoubleRankPair
  rw [if_pos hre, sliceEq_asc A 0 4 a c (by omega) (by omega) rfl rfl,
    sliceEq_asc A 1 5 b d (by omega) (by omega) rfl rfl,
    sliceEq_asc A 2 6 x y (by omega) (by omega) rfl rfl,
    rankAt_asc A 0 a ra (by omega) rfl ha, rankAt_asc A 1 b rb (by omega) rfl hb,
    rankAt_asc A 5 d rd (by omega) rfl hd, slice_one_asc A 2 x (by omega) rfl]
  simp only [hm, soPair, hbd]
  by_cases hcond : a = c ∧ x = y ∧ ra < rb ∧ rb < rd
  · obtain ⟨rfl, rfl, h4, h5⟩ := hcond
    have h2 : (rb == rd) = false := by simp; omega
    by_cases h6 : x = 115 <;> simp [h2, h4, h5, h6]
  · rw [if_neg hcond]
    cases h1 : (a == c) <;> cases h2 : (rb == rd) <;> cases h3 : (x == y) <;> try rfl
    simp only [beq_iff_eq] at h1 h3
    have : ¬ (ra < rb ∧ rb < rd) := fun h => hcond ⟨h1, h3, h⟩
    simp [this]

theorem brBottomPocket_eq (wt : WText W) (a b : Nat) (rest : Bytes) (ra rb : Nat)
    (ha : IsRank a ra) (hb : IsRank b rb) (hs : isWeightSuffix rest = true) :
    brBottomPocket wt (a :: b :: 43 :: rest) =
      if a = b then .hit ⟨.bottomClosed (.pocket ra), sufW wt rest⟩ else .next := by
  have A : AsciiUpTo (a :: b :: 43 :: rest) 3 :=
    asciiUpTo_append [a, b, 43] rest (by simp [ha.1, hb.1]) (isWeightSuffix_head rest hs)
  have hre : reBottomPocket (a :: b :: 43 :: rest) = true := by
    simp [reBottomPocket, ha.byte, hb.byte, hs]
  have hm : ∀ kind, mkHit wt kind (a :: b :: 43 :: rest) 3 = .hit ⟨kind, sufW wt rest⟩ :=
    fun kind => mkHit_eq wt kind _ 3 A hs
  unfold brBottomPocket
  rw [if_pos hre, sliceEq_asc A 0 1 a b (by omega) (by omega) rfl rfl,
    rankAt_asc A 0 a ra (by omega) rfl ha]
  simp only [hm]
  by_cases h : a = b
  · simp [h]
  · have h2 : (a == b) = false := by simpa using h
    simp [h, h2]

theorem brBottomRankPair_eq (wt : WText W) (a b x : Nat) (rest : Bytes) (ra rb : Nat)
    (ha : IsRank a ra) (hb : IsRank b rb) (hx : isSoByte x = true) (hs : isWeightSuffix rest = true) :
    brBottomRankPair wt (a :: b :: x :: 43 :: rest) =
      if ra < rb then .hit ⟨.bottomClosed (soPair x ra rb), sufW wt rest⟩ else .next := by
  have hx' : x < 128 := by rcases (isSoByte_iff x).mp hx with h | h <;> omega
  have A : AsciiUpTo (a :: b :: x :: 43 :: rest) 4 :=
    asciiUpTo_append [a, b, x, 43] rest (by simp [ha.1, hb.1, hx']) (isWeightSuffix_head rest hs)
  have hre : reBottomRankPair (a :: b :: x :: 43 :: rest) = true := by
    simp [reBottomRankPair, ha.byte, hb.byte, hs, hx]
  have hm : ∀ kind, mkHit wt kind (a :: b :: x :: 43 :: rest) 4 = .hit ⟨kind, sufW wt rest⟩ :=
    fun kind => mkHit_eq wt kind _ 4 A hs
  have hab : (a == b) = (ra == rb) := by
    have := ha.eq_iff hb
    rw [Bool.eq_iff_iff]; simpa using this
  unfold brBottomRankPair
  rw [if_pos hre, sliceEq_asc A 0 1 a b (by omega) (by omega) rfl rfl,
    rankAt_asc A 0 a ra (by omega) rfl ha, rankAt_asc A 1 b rb (by omega) rfl hb,
    slice_one_asc A 2 x (by omega) rfl]
  simp only [hm, soPair, hab]
  by_cases h : ra < rb
  · have h2 : (ra == rb) = false := by simp; omega
    by_cases h6 : x = 115 <;> simp [h, h2, h6]
  · rw [if_neg h]
    cases h2 : (ra == rb) <;> simp [h]

theorem brSinglePocket_eq (wt : WText W) (a b : Nat) (rest : Bytes) (ra rb : Nat)
    (ha : IsRank a ra) (hb : IsRank b rb) (hs : isWeightSuffix rest = true) :
    brSinglePocket wt (a :: b :: rest) =
      if a = b then .hit ⟨.singleRank (.pocket ra), sufW wt rest⟩ else .next := by
  have A : AsciiUpTo (a :: b :: rest) 2 :=
    asciiUpTo_append [a, b] rest (by simp [ha.1, hb.1]) (isWeightSuffix_head rest hs)
  have hre : reSinglePocket (a :: b :: rest) = true := by
    simp [reSinglePocket, ha.byte, hb.byte, hs]
  have hm : ∀ kind, mkHit wt kind (a :: b :: rest) 2 = .hit ⟨kind, sufW wt rest⟩ :=
    fun kind => mkHit_eq wt kind _ 2 A hs
  unfold brSinglePocket
  rw [if_pos hre, sliceEq_asc A 0 1 a b (by omega) (by omega) rfl rfl,
    rankAt_asc A 0 a ra (by omega) rfl ha]
  simp only [hm]
  by_cases h : a = b
  · simp [h]
  · have h2 : (a == b) = false := by simpa using h
    simp [h, h2]

theorem brSingleRankPair_eq (wt : WText W) (a b x : Nat) (rest : Bytes) (ra rb : Nat)
    (ha : IsRank a ra) (hb : IsRank b rb) (hx : isSoByte x = true) (hs : isWeightSuffix rest = true) :
    brSingleRankPair wt (a :: b :: x :: rest) =
      if ra ≠ rb then .hit ⟨.singleRank (soPair x ra rb), sufW wt rest⟩ else .next := by
  have hx' : x < 128 := by rcases (isSoByte_iff x).mp hx with h | h <;> omega
  have A : AsciiUpTo (a :: b :: x :: rest) 3 :=
    asciiUpTo_append [a, b, x] rest (by simp [ha.1, hb.1, hx']) (isWeightSuffix_head rest hs)
  have hre : reSingleRankPair (a :: b :: x :: rest) = true := by
    simp [reSingleRankPair, ha.byte, hb.byte, hs, hx]
  have hm : ∀ kind, mkHit wt kind (a :: b :: x :: rest) 3 = .hit ⟨kind, sufW wt rest⟩ :=
    fun kind => mkHit_eq wt kind _ 3 A hs
  have hab : (a == b) = (ra == rb) := by
    have := ha.eq_iff hb
    rw [Bool.eq_iff_iff]; simpa using this
  unfold brSingleRankPair
  rw [if_pos hre, sliceEq_asc A 0 1 a b (by omega) (by omega) rfl rfl,
    rankAt_asc A 0 a ra (by omega) rfl ha, rankAt_asc A 1 b rb (by omega) rfl hb,
    slice_one_asc A 2 x (by omega) rfl]
  simp only [hm, soPair, hab]
  by_cases h : ra = rb
  · simp [h]
  · have h2 : (ra == rb) = false := by simpa using h
    by_cases h6 : x = 115 <;> simp [h, h2, h6]

theorem brSingleCardPair_eq (wt : WText W) (a s b t : Nat) (rest : Bytes) (ra sa rb sb : Nat)
    (ha : IsRank a ra) (hsa : IsSuit s sa) (hb : IsRank b rb) (hsb : IsSuit t sb)
    (hs : isWeightSuffix rest = true) :
    brSingleCardPair wt (a :: s :: b :: t :: rest) =
      if (⟨ra, sa⟩ : Card) ≠ ⟨rb, sb⟩ then .hit ⟨.singleCard (mkPair ⟨ra, sa⟩ ⟨rb, sb⟩), sufW wt rest⟩
      else .next := by
  have A : AsciiUpTo (a :: s :: b :: t :: rest) 4 :=
    asciiUpTo_append [a, s, b, t] rest (by simp [ha.1, hb.1, hsa.1, hsb.1]) (isWeightSuffix_head rest hs)
  have hre : reSingleCardPair (a :: s :: b :: t :: rest) = true := by
    simp [reSingleCardPair, ha.byte, hb.byte, hsa.byte, hsb.byte, hs]
  have hm : ∀ kind, mkHit wt kind (a :: s :: b :: t :: rest) 4 = .hit ⟨kind, sufW wt rest⟩ :=
    fun kind => mkHit_eq wt kind _ 4 A hs
  have hsl : slice (a :: s :: b :: t :: rest) 0 4 = .ok [a, s, b, t] := by
    rw [slice_asc A 0 4 (by omega) (by omega)]; rfl
  have hp : parsePair [a, s, b, t] = .ok (mkPair ⟨ra, sa⟩ ⟨rb, sb⟩) := by
    rw [C14.parsePair_four _ _ _ _ ha.1 hsa.1 hb.1 hsb.1, C13.parseCard_two _ _ ha.1 hsa.1,
      C13.parseCard_two _ _ hb.1 hsb.1, ha.2, hsa.2, hb.2, hsb.2]
    rfl
  have hne : ((mkPair ⟨ra, sa⟩ ⟨rb, sb⟩).fst != (mkPair ⟨ra, sa⟩ ⟨rb, sb⟩).snd)
      = decide ((⟨ra, sa⟩ : Card) ≠ ⟨rb, sb⟩) := by
    rw [C14.mkPair_eq]
    by_cases h : (⟨ra, sa⟩ : Card) = ⟨rb, sb⟩
    · rw [h]; split <;> simp
    · split <;> simp [h, Ne.symm h] <;> exact fun e => h e.symm
  unfold brSingleCardPair
  rw [if_pos hre, hsl]
  simp only [hp, hm, hne]
  by_cases h : (⟨ra, sa⟩ : Card) = ⟨rb, sb⟩ <;> simp [h]

/-! ### shapes pinned by the recognisers -/

theorem reDoublePocket_shape (s : Bytes) (h : reDoublePocket s = true) :
    ∃ a b c d rest ra rb rc rd, s = a :: b :: 45 :: c :: d :: rest ∧ IsRank a ra ∧ IsRank b rb
      ∧ IsRank c rc ∧ IsRank d rd ∧ isWeightSuffix rest = true := by
  unfold reDoublePocket at h
  split at h
  · simp only [Bool.and_eq_true, isRankByte_iff] at h
    obtain ⟨⟨⟨⟨⟨ra, ha⟩, ⟨rb, hb⟩⟩, ⟨rc, hc⟩⟩, ⟨rd, hd⟩⟩, hs⟩ := h
    exact ⟨_, _, _, _, _, ra, rb, rc, rd, rfl, ha, hb, hc, hd, hs⟩
  · cases h

theorem reDoubleRankPair_shape (s : Bytes) (h : reDoubleRankPair s = true) :
    ∃ a b x c d y rest ra rb rc rd, s = a :: b :: x :: 45 :: c :: d :: y :: rest ∧ IsRank a ra ∧ IsRank b rb
      ∧ isSoByte x = true ∧ IsRank c rc ∧ IsRank d rd ∧ isSoByte y = true ∧ isWeightSuffix rest = true := by
  unfold reDoubleRankPair at h
  split at h
  · simp only [Bool.and_eq_true, isRankByte_iff] at h
    obtain ⟨⟨⟨⟨⟨⟨⟨ra, ha⟩, ⟨rb, hb⟩⟩, hx⟩, ⟨rc, hc⟩⟩, ⟨rd, hd⟩⟩, hy⟩, hs⟩ := h
    exact ⟨_, _, _, _, _, _, _, ra, rb, rc, rd, rfl, ha, hb, hx, hc, hd, hy, hs⟩
  · cases h

theorem reBottomPocket_shape (s : Bytes) (h : reBottomPocket s = true) :
    ∃ a b rest ra rb, s = a :: b :: 43 :: rest ∧ IsRank a ra ∧ IsRank b rb ∧ isWeightSuffix rest = true := by
  unfold reBottomPocket at h
  split at h
  · simp only [Bool.and_eq_true, isRankByte_iff] at h
    obtain ⟨⟨⟨ra, ha⟩, ⟨rb, hb⟩⟩, hs⟩ := h
    exact ⟨_, _, _, ra, rb, rfl, ha, hb, hs⟩
  · cases h

theorem reBottomRankPair_shape (s : Bytes) (h : reBottomRankPair s = true) :
    ∃ a b x rest ra rb, s = a :: b :: x :: 43 :: rest ∧ IsRank a ra ∧ IsRank b rb ∧ isSoByte x = true
      ∧ isWeightSuffix rest = true := by
  unfold reBottomRankPair at h
  split at h
  · simp only [Bool.and_eq_true, isRankByte_iff] at h
    obtain ⟨⟨⟨⟨ra, ha⟩, ⟨rb, hb⟩⟩, hx⟩, hs⟩ := h
    exact ⟨_, _, _, _, ra, rb, rfl, ha, hb, hx, hs⟩
  · cases h

theorem reSinglePocket_shape (s : Bytes) (h : reSinglePocket s = true) :
    ∃ a b rest ra rb, s = a :: b :: rest ∧ IsRank a ra ∧ IsRank b rb ∧ isWeightSuffix rest = true := by
  unfold reSinglePocket at h
  split at h
  · simp only [Bool.and_eq_true, isRankByte_iff] at h
    obtain ⟨⟨⟨ra, ha⟩, ⟨rb, hb⟩⟩, hs⟩ := h
    exact ⟨_, _, _, ra, rb, rfl, ha, hb, hs⟩
  · cases h

theorem reSingleRankPair_shape (s : Bytes) (h : reSingleRankPair s = true) :
    ∃ a b x rest ra rb, s = a :: b :: x :: rest ∧ IsRank a ra ∧ IsRank b rb ∧ isSoByte x = true
      ∧ isWeightSuffix rest = true := by
  unfold reSingleRankPair at h
  split at h
  · simp only [Bool.and_eq_true, isRankByte_iff] at h
    obtain ⟨⟨⟨⟨ra, ha⟩, ⟨rb, hb⟩⟩, hx⟩, hs⟩ := h
    exact ⟨_, _, _, _, ra, rb, rfl, ha, hb, hx, hs⟩
  · cases h

theorem reSingleCardPair_shape (s : Bytes) (h : reSingleCardPair s = true) :
    ∃ a x b y rest ra sa rb sb, s = a :: x :: b :: y :: rest ∧ IsRank a ra ∧ IsSuit x sa ∧ IsRank b rb
      ∧ IsSuit y sb ∧ isWeightSuffix rest = true := by
  unfold reSingleCardPair at h
  split at h
  · simp only [Bool.and_eq_true, isRankByte_iff, isSuitByte_iff] at h
    obtain ⟨⟨⟨⟨⟨ra, ha⟩, ⟨sa, hsa⟩⟩, ⟨rb, hb⟩⟩, ⟨sb, hsb⟩⟩, hs⟩ := h
    exact ⟨_, _, _, _, _, ra, sa, rb, sb, rfl, ha, hsa, hb, hsb, hs⟩
  · cases h

/-- a branch whose recogniser fails falls through -/
theorem brDoublePocket_next (wt : WText W) (s : Bytes) (h : reDoublePocket s = false) :
    brDoublePocket wt s = .next := by simp [brDoublePocket, h]
theorem brDoubleRankPair_next (wt : WText W) (s : Bytes) (h : reDoubleRankPair s = false) :
    brDoubleRankPair wt s = .next := by simp [brDoubleRankPair, h]
theorem brBottomPocket_next (wt : WText W) (s : Bytes) (h : reBottomPocket s = false) :
    brBottomPocket wt s = .next := by simp [brBottomPocket, h]
theorem brBottomRankPair_next (wt : WText W) (s : Bytes) (h : reBottomRankPair s = false) :
    brBottomRankPair wt s = .next := by simp [brBottomRankPair, h]
theorem brSinglePocket_next (wt : WText W) (s : Bytes) (h : reSinglePocket s = false) :
    brSinglePocket wt s = .next := by simp [brSinglePocket, h]
theorem brSingleRankPair_next (wt : WText W) (s : Bytes) (h : reSingleRankPair s = false) :
    brSingleRankPair wt s = .next := by simp [brSingleRankPair, h]
theorem brSingleCardPair_next (wt : WText W) (s : Bytes) (h : reSingleCardPair s = false) :
    brSingleCardPair wt s = .next := by simp [brSingleCardPair, h]

/-! ### what a parsed token looks like -/

/-- the order conditions `from_str` establishes and `into_iter` / `Display` rely on -/
def TokenOk : TokenKind → Prop
  | .doubleClosed (.pocket top) bottom => top ≤ bottom ∧ bottom < 13
  | .doubleClosed (.suited h kt) kb => h < kt ∧ kt < kb ∧ kb < 13
  | .doubleClosed (.ofsuit h kt) kb => h < kt ∧ kt < kb ∧ kb < 13
  | .bottomClosed (.pocket r) => r < 13
  | .bottomClosed (.suited h k) => h < k ∧ k < 13
  | .bottomClosed (.ofsuit h k) => h < k ∧ k < 13
  | .singleRank (.pocket r) => r < 13
  | .singleRank (.suited x y) => x ≠ y ∧ x < 13 ∧ y < 13
  | .singleRank (.ofsuit x y) => x ≠ y ∧ x < 13 ∧ y < 13
  | .singleCard cp => ∃ l r : Card, l.valid = true ∧ r.valid = true ∧ l ≠ r ∧ cp = mkPair l r

theorem tokenOk_double_so (x h kt kb : Nat) (h1 : h < kt) (h2 : kt < kb) (h3 : kb < 13) :
    TokenOk (.doubleClosed (soPair x h kt) kb) := by
  unfold soPair; split <;> exact ⟨h1, h2, h3⟩
theorem tokenOk_bottom_so (x h k : Nat) (h1 : h < k) (h2 : k < 13) :
    TokenOk (.bottomClosed (soPair x h k)) := by
  unfold soPair; split <;> exact ⟨h1, h2⟩
theorem tokenOk_single_so (x a b : Nat) (h1 : a ≠ b) (h2 : a < 13) (h3 : b < 13) :
    TokenOk (.singleRank (soPair x a b)) := by
  unfold soPair; split <;> exact ⟨h1, h2, h3⟩

/-- outcome of a branch: falls through, or hits with a well-formed kind and the weight of a weight suffix -/
def BranchOk (wt : WText W) (r : Branch W) : Prop :=
  r = .next ∨ ∃ kind rest, r = .hit ⟨kind, sufW wt rest⟩ ∧ TokenOk kind ∧ isWeightSuffix rest = true

theorem brDoublePocket_ok (wt : WText W) (s : Bytes) : BranchOk wt (brDoublePocket wt s) := by
  cases hre : reDoublePocket s with
  | false => exact .inl (brDoublePocket_next wt s hre)
  | true =>
    obtain ⟨a, b, c, d, rest, ra, rb, rc, rd, rfl, ha, hb, hc, hd, hs⟩ := reDoublePocket_shape s hre
    rw [brDoublePocket_eq wt a b c d rest ra rb rc rd ha hb hc hd hs]
    split
    · rename_i h
      exact .inr ⟨_, rest, rfl, ⟨h.2.2, hc.lt⟩, hs⟩
    · exact .inl rfl

theorem brDoubleRankPair_ok (wt : WText W) (s : Bytes) : BranchOk wt (brDoubleRankPair wt s) := by
  cases hre : reDoubleRankPair s with
  | false => exact .inl (brDoubleRankPair_next wt s hre)
  | true =>
    obtain ⟨a, b, x, c, d, y, rest, ra, rb, rc, rd, rfl, ha, hb, hx, hc, hd, hy, hs⟩ :=
      reDoubleRankPair_shape s hre
    rw [brDoubleRankPair_eq wt a b x c d y rest ra rb rc rd ha hb hx hc hd hy hs]
    split
    · rename_i h
      exact .inr ⟨_, rest, rfl, tokenOk_double_so x ra rb rd h.2.2.1 h.2.2.2 hd.lt, hs⟩
    · exact .inl rfl

theorem brBottomPocket_ok (wt : WText W) (s : Bytes) : BranchOk wt (brBottomPocket wt s) := by
  cases hre : reBottomPocket s with
  | false => exact .inl (brBottomPocket_next wt s hre)
  | true =>
    obtain ⟨a, b, rest, ra, rb, rfl, ha, hb, hs⟩ := reBottomPocket_shape s hre
    rw [brBottomPocket_eq wt a b rest ra rb ha hb hs]
    split
    · exact .inr ⟨_, rest, rfl, ha.lt, hs⟩
    · exact .inl rfl

theorem brBottomRankPair_ok (wt : WText W) (s : Bytes) : BranchOk wt (brBottomRankPair wt s) := by
  cases hre : reBottomRankPair s with
  | false => exact .inl (brBottomRankPair_next wt s hre)
  | true =>
    obtain ⟨a, b, x, rest, ra, rb, rfl, ha, hb, hx, hs⟩ := reBottomRankPair_shape s hre
    rw [brBottomRankPair_eq wt a b x rest ra rb ha hb hx hs]
    split
    · rename_i h
      exact .inr ⟨_, rest, rfl, tokenOk_bottom_so x ra rb h hb.lt, hs⟩
    · exact .inl rfl

theorem brSinglePocket_ok (wt : WText W) (s : Bytes) : BranchOk wt (brSinglePocket wt s) := by
  cases hre : reSinglePocket s with
  | false => exact .inl (brSinglePocket_next wt s hre)
  | true =>
    obtain ⟨a, b, rest, ra, rb, rfl, ha, hb, hs⟩ := reSinglePocket_shape s hre
    rw [brSinglePocket_eq wt a b rest ra rb ha hb hs]
    split
    · exact .inr ⟨_, rest, rfl, ha.lt, hs⟩
    · exact .inl rfl

theorem brSingleRankPair_ok (wt : WText W) (s : Bytes) : BranchOk wt (brSingleRankPair wt s) := by
  cases hre : reSingleRankPair s with
  | false => exact .inl (brSingleRankPair_next wt s hre)
  | true =>
    obtain ⟨a, b, x, rest, ra, rb, rfl, ha, hb, hx, hs⟩ := reSingleRankPair_shape s hre
    rw [brSingleRankPair_eq wt a b x rest ra rb ha hb hx hs]
    split
    · rename_i h
      exact .inr ⟨_, rest, rfl, tokenOk_single_so x ra rb h ha.lt hb.lt, hs⟩
    · exact .inl rfl

theorem brSingleCardPair_ok (wt : WText W) (s : Bytes) : BranchOk wt (brSingleCardPair wt s) := by
  cases hre : reSingleCardPair s with
  | false => exact .inl (brSingleCardPair_next wt s hre)
  | true =>
    obtain ⟨a, x, b, y, rest, ra, sa, rb, sb, rfl, ha, hsa, hb, hsb, hs⟩ := reSingleCardPair_shape s hre
    rw [brSingleCardPair_eq wt a x b y rest ra sa rb sb ha hsa hb hsb hs]
    split
    · rename_i h
      refine .inr ⟨_, rest, rfl, ⟨⟨ra, sa⟩, ⟨rb, sb⟩, ?_, ?_, h, rfl⟩, hs⟩
      · simp [Card.valid, ha.lt, hsa.lt]
      · simp [Card.valid, hb.lt, hsb.lt]
    · exact .inl rfl

/-- `parseToken` is the cascade of the seven branches -/
theorem parseToken_unfold (wt : WText W) (s : Bytes) :
    parseToken wt s = parseToken.go s [brDoublePocket wt, brDoubleRankPair wt, brBottomPocket wt,
      brBottomRankPair wt, brSinglePocket wt, brSingleRankPair wt, brSingleCardPair wt] := rfl

theorem parseToken_go_ok (wt : WText W) (s : Bytes) (bs : List (Bytes → Branch W))
    (h : ∀ b ∈ bs, BranchOk wt (b s)) :
    parseToken.go s bs = .err ∨ ∃ kind rest, parseToken.go s bs = .ok ⟨kind, sufW wt rest⟩ ∧ TokenOk kind
      ∧ isWeightSuffix rest = true := by
  induction bs with
  | nil => exact .inl rfl
  | cons b bs ih =>
    rcases h b (List.mem_cons_self) with hb | ⟨kind, rest, hb, hk, hs⟩
    · simp only [parseToken.go, hb]
      exact ih (fun b' hb' => h b' (List.mem_cons_of_mem _ hb'))
    · simp only [parseToken.go, hb]
      exact .inr ⟨kind, rest, rfl, hk, hs⟩

/-- **the parsed token**: an error, or a well-formed kind with the weight of a weight suffix. Never a panic. -/
theorem parseToken_ok (wt : WText W) (s : Bytes) :
    parseToken wt s = .err ∨ ∃ kind rest, parseToken wt s = .ok ⟨kind, sufW wt rest⟩ ∧ TokenOk kind
      ∧ isWeightSuffix rest = true := by
  rw [parseToken_unfold]
  apply parseToken_go_ok
  intro b hb
  simp only [List.mem_cons, List.mem_nil_iff, or_false] at hb
  rcases hb with rfl | rfl | rfl | rfl | rfl | rfl | rfl
  · exact brDoublePocket_ok wt s
  · exact brDoubleRankPair_ok wt s
  · exact brBottomPocket_ok wt s
  · exact brBottomRankPair_ok wt s
  · exact brSinglePocket_ok wt s
  · exact brSingleRankPair_ok wt s
  · exact brSingleCardPair_ok wt s

theorem parseToken_ne_panic (wt : WText W) (s : Bytes) : parseToken wt s ≠ .panic := by
  rcases parseToken_ok wt s with h | ⟨_, _, h, _⟩ <;> rw [h] <;> exact fun e => nomatch e

theorem parseToken_tokenOk (wt : WText W) (s : Bytes) (t : Token W) (h : parseToken wt s = .ok t) :
    TokenOk t.kind ∧ ∃ rest, isWeightSuffix rest = true ∧ t.prob = sufW wt rest := by
  rcases parseToken_ok wt s with h' | ⟨kind, rest, h', hk, hs⟩
  · rw [h'] at h; cases h
  · rw [h'] at h; cases h; exact ⟨hk, rest, hs, rfl⟩

/-! ### combos of a rank pair, expansion of a token -/

theorem comboOk_mkPair (l r : Card) (hl : l.valid = true) (hr : r.valid = true) (hne : l ≠ r) :
    ComboOk (mkPair l r) := by
  obtain ⟨_, hlt, hc⟩ := C14.pair_canonical l r hne
  rcases hc with ⟨h1, h2⟩ | ⟨h1, h2⟩
  · exact ⟨by rw [h1]; exact hl, by rw [h2]; exact hr, hlt⟩
  · exact ⟨by rw [h1]; exact hr, by rw [h2]; exact hl, hlt⟩

theorem pocketSuits_facts : ∀ s ∈ Gen.pocketSuits, s.1 < 4 ∧ s.2 < 4 ∧ s.1 ≠ s.2 := by decide
theorem suitedSuits_facts : ∀ s ∈ Gen.suitedSuits, s.1 < 4 ∧ s.2 < 4 := by decide
theorem ofsuitSuits_facts : ∀ s ∈ Gen.ofsuitSuits, s.1 < 4 ∧ s.2 < 4 := by decide

theorem valid_mk (r s : Nat) (hr : r < 13) (hs : s < 4) : (⟨r, s⟩ : Card).valid = true := by
  simp [Card.valid, hr, hs]

theorem combos_pocket_ok (r : Nat) (hr : r < 13) : ∀ c ∈ (RankPair.pocket r).combos, ComboOk c := by
  intro c hc
  simp only [RankPair.combos, List.mem_map] at hc
  obtain ⟨s, hs, rfl⟩ := hc
  obtain ⟨h1, h2, h3⟩ := pocketSuits_facts s hs
  exact comboOk_mkPair _ _ (valid_mk r _ hr h1) (valid_mk r _ hr h2) (by simp [h3])

theorem combos_suited_ok (h k : Nat) (hh : h < 13) (hk : k < 13) (hne : h ≠ k) :
    ∀ c ∈ (RankPair.suited h k).combos, ComboOk c := by
  intro c hc
  simp only [RankPair.combos, List.mem_map] at hc
  obtain ⟨s, hs, rfl⟩ := hc
  obtain ⟨h1, h2⟩ := suitedSuits_facts s hs
  exact comboOk_mkPair _ _ (valid_mk h _ hh h1) (valid_mk k _ hk h2) (by simp [hne])

theorem combos_ofsuit_ok (h k : Nat) (hh : h < 13) (hk : k < 13) (hne : h ≠ k) :
    ∀ c ∈ (RankPair.ofsuit h k).combos, ComboOk c := by
  intro c hc
  simp only [RankPair.combos, List.mem_map] at hc
  obtain ⟨s, hs, rfl⟩ := hc
  obtain ⟨h1, h2⟩ := ofsuitSuits_facts s hs
  exact comboOk_mkPair _ _ (valid_mk h _ hh h1) (valid_mk k _ hk h2) (by simp [hne])

/-- the run of an in-order inclusive rank range -/
theorem expandRun_eq (a b : Nat) (mk : Nat → RankPair) (p : W) (hab : a ≤ b) (hb : b < 13) :
    expandRun a b mk p
      = .ok ((List.range' a (b + 1 - a)).flatMap fun r => (mk r).combos.map fun cp => (cp, p)) := by
  simp only [expandRun, (C13.rank_range_run a b (by omega) hb hab).2]

theorem expandRun_ok (a b : Nat) (mk : Nat → RankPair) (p : W) (hab : a ≤ b) (hb : b < 13)
    (hmk : ∀ r, a ≤ r → r ≤ b → ∀ c ∈ (mk r).combos, ComboOk c) :
    ∃ es, expandRun a b mk p = .ok es ∧ ∀ e ∈ es, ComboOk e.1 ∧ e.2 = p := by
  refine ⟨_, expandRun_eq a b mk p hab hb, ?_⟩
  intro e he
  simp only [List.mem_flatMap, List.mem_map, List.mem_range'_1] at he
  obtain ⟨r, ⟨h1, h2⟩, c, hc, rfl⟩ := he
  exact ⟨hmk r h1 (by omega) c hc, rfl⟩

theorem rankNext_lt (h : Nat) (hh : h + 1 < 13) : rankNext h = some (h + 1) := by
  have := (C13.rank_next_prev h (by omega)).1
  rw [this, if_pos hh]

/-- a well-formed token expands, without panicking, into real combos all carrying its weight -/
theorem expand_ok (t : Token W) (h : TokenOk t.kind) :
    ∃ es, t.expand = .ok es ∧ ∀ e ∈ es, ComboOk e.1 ∧ e.2 = t.prob := by
  obtain ⟨kind, p⟩ := t
  simp only at h ⊢
  match kind, h with
  | .doubleClosed (.pocket top) bottom, h =>
    obtain ⟨h1, h2⟩ := h
    exact expandRun_ok top bottom .pocket p h1 h2 (fun r _ hr => combos_pocket_ok r (by omega))
  | .doubleClosed (.suited hi kt) kb, h =>
    obtain ⟨h1, h2, h3⟩ := h
    exact expandRun_ok kt kb (.suited hi) p (by omega) h3
      (fun r _ hr => combos_suited_ok hi r (by omega) (by omega) (by omega))
  | .doubleClosed (.ofsuit hi kt) kb, h =>
    obtain ⟨h1, h2, h3⟩ := h
    exact expandRun_ok kt kb (.ofsuit hi) p (by omega) h3
      (fun r _ hr => combos_ofsuit_ok hi r (by omega) (by omega) (by omega))
  | .bottomClosed (.pocket r), h =>
    have h' : r < 13 := h
    exact expandRun_ok rankAce r .pocket p (Nat.zero_le _) h (fun r' _ hr => combos_pocket_ok r' (by omega))
  | .bottomClosed (.suited hi k), h =>
    obtain ⟨h1, h2⟩ := h
    simp only [Token.expand, rankNext_lt hi (by omega)]
    exact expandRun_ok (hi + 1) k (.suited hi) p (by omega) h2
      (fun r _ hr => combos_suited_ok hi r (by omega) (by omega) (by omega))
  | .bottomClosed (.ofsuit hi k), h =>
    obtain ⟨h1, h2⟩ := h
    simp only [Token.expand, rankNext_lt hi (by omega)]
    exact expandRun_ok (hi + 1) k (.ofsuit hi) p (by omega) h2
      (fun r _ hr => combos_ofsuit_ok hi r (by omega) (by omega) (by omega))
  | .singleRank (.pocket r), h =>
    refine ⟨_, rfl, fun e he => ?_⟩
    simp only [List.mem_map] at he
    obtain ⟨c, hc, rfl⟩ := he
    exact ⟨combos_pocket_ok r h c hc, rfl⟩
  | .singleRank (.suited x y), h =>
    obtain ⟨h1, h2, h3⟩ := h
    refine ⟨_, rfl, fun e he => ?_⟩
    simp only [List.mem_map] at he
    obtain ⟨c, hc, rfl⟩ := he
    exact ⟨combos_suited_ok x y h2 h3 h1 c hc, rfl⟩
  | .singleRank (.ofsuit x y), h =>
    obtain ⟨h1, h2, h3⟩ := h
    refine ⟨_, rfl, fun e he => ?_⟩
    simp only [List.mem_map] at he
    obtain ⟨c, hc, rfl⟩ := he
    exact ⟨combos_ofsuit_ok x y h2 h3 h1 c hc, rfl⟩
  | .singleCard cp, h =>
    obtain ⟨l, r, hl, hr, hne, rfl⟩ := h
    refine ⟨_, rfl, fun e he => ?_⟩
    simp only [List.mem_singleton] at he
    subst he
    exact ⟨comboOk_mkPair l r hl hr hne, rfl⟩

/-! ### the card and pair parsers never panic -/

theorem parseRank_ne_panic (s : Bytes) : parseRank s ≠ .panic := by
  unfold parseRank
  split
  · exact fun e => nomatch e
  · split <;> exact fun e => nomatch e

theorem parseSuit_ne_panic (s : Bytes) : parseSuit s ≠ .panic := by
  unfold parseSuit
  split
  · exact fun e => nomatch e
  · split <;> exact fun e => nomatch e

theorem parseCard_ne_panic (v : Bytes) : parseCard v ≠ .panic := by
  by_cases h : (v.length = 2 && isAscii v) = true
  · simp only [Bool.and_eq_true, decide_eq_true_eq] at h
    obtain ⟨hl, ha⟩ := h
    match v, hl with
    | [b₁, b₂], _ =>
      simp only [isAscii, List.all_cons, List.all_nil, Bool.and_true, Bool.and_eq_true,
        decide_eq_true_eq] at ha
      exact (C13.two_char_ascii b₁ b₂ ha.1 ha.2).1
  · unfold parseCard
    rw [if_neg h]
    exact fun e => nomatch e

theorem pairOfRes_ne_panic (a b : Res Card) (ha : a ≠ .panic) (hb : b ≠ .panic) : pairOfRes a b ≠ .panic := by
  cases a <;> cases b <;> simp_all [pairOfRes]

theorem parsePair_ne_panic (v : Bytes) : parsePair v ≠ .panic := by
  by_cases hl : v.length = 4
  · by_cases ha : isAscii v = true
    · match v, hl with
      | [b₁, b₂, b₃, b₄], _ =>
        simp only [isAscii, List.all_cons, List.all_nil, Bool.and_true, Bool.and_eq_true,
          decide_eq_true_eq] at ha
        rw [C14.parsePair_four b₁ b₂ b₃ b₄ ha.1 ha.2.1 ha.2.2.1 ha.2.2.2]
        exact pairOfRes_ne_panic _ _ (parseCard_ne_panic _) (parseCard_ne_panic _)
    · simp [parsePair, hl, ha]
  · simp [parsePair, hl]

end EspadaVerif.TokenFacts
