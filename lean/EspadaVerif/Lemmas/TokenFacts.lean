/-
Lemmas/TokenFacts: general facts about the token model (`Model/Token.lean`): one-byte slices of ASCII
prefixes, the byte classes of the recognisers, an exact description of each of the seven branches of
`parseToken` on the shape its recogniser pins, the well-formedness predicate `TokenOk` of parsed tokens and
the totality of `Token.expand` on it.  Shared by C05 C06 C09 C10 C12 C17.
-/
import EspadaVerif.Lemmas.TextDefs
import EspadaVerif.Props.C14

namespace EspadaVerif.TokenFacts
open EspadaVerif TextDefs

variable {W : Type}

/-! ### slices -/

theorem isCont_ascii (b : Nat) (h : b < 128) : isCont b = false := by
  simp [isCont]; omega

theorem isBoundary_of (s : Bytes) (i : Nat) (hi : i ≤ s.length)
    (h : ∀ y, s[i]? = some y → isCont y = false) : isBoundary s i = true := by
  unfold isBoundary
  split
  · rfl
  · split
    · rfl
    · cases hs : s[i]? with
      | none =>
        have := List.getElem?_eq_none_iff.mp hs
        omega
      | some y => simp [h y hs]

/-- a slice between two char boundaries -/
theorem slice_ok (s : Bytes) (i j : Nat) (hij : i ≤ j) (hj : j ≤ s.length)
    (hi : ∀ y, s[i]? = some y → isCont y = false) (hj' : ∀ y, s[j]? = some y → isCont y = false) :
    slice s i j = .ok ((s.drop i).take (j - i)) := by
  unfold slice
  rw [isBoundary_of s i (by omega) hi, isBoundary_of s j hj hj']
  simp [hij, hj]

theorem sliceFrom_ok (s : Bytes) (i : Nat) (hi : i ≤ s.length)
    (h : ∀ y, s[i]? = some y → isCont y = false) : sliceFrom s i = .ok (s.drop i) := by
  unfold sliceFrom
  rw [slice_ok s i s.length hi (Nat.le_refl _) h (by simp)]
  rw [List.take_of_length_le (by simp)]

/-- the first `n` bytes of `s`, and the byte after them if any, are ASCII -/
structure AsciiUpTo (s : Bytes) (n : Nat) : Prop where
  len : n ≤ s.length
  asc : ∀ i, i ≤ n → ∀ y, s[i]? = some y → y < 128

theorem asciiUpTo_append (pre rest : Bytes) (hp : ∀ y ∈ pre, y < 128)
    (hr : ∀ y, rest.head? = some y → y < 128) : AsciiUpTo (pre ++ rest) pre.length := by
  refine ⟨by simp, fun i hi y hy => ?_⟩
  by_cases hlt : i < pre.length
  · rw [List.getElem?_append_left hlt] at hy
    exact hp y (List.mem_of_getElem? hy)
  · have : i = pre.length := by omega
    subst this
    rw [List.getElem?_append_right (Nat.le_refl _), Nat.sub_self] at hy
    exact hr y (by rw [List.head?_eq_getElem?]; exact hy)

theorem slice_asc {s : Bytes} {n : Nat} (A : AsciiUpTo s n) (i j : Nat) (hij : i ≤ j) (hj : j ≤ n) :
    slice s i j = .ok ((s.drop i).take (j - i)) :=
  slice_ok s i j hij (Nat.le_trans hj A.len)
    (fun y hy => isCont_ascii y (A.asc i (by omega) y hy))
    (fun y hy => isCont_ascii y (A.asc j hj y hy))

theorem sliceFrom_asc {s : Bytes} {n : Nat} (A : AsciiUpTo s n) (i : Nat) (hi : i ≤ n) :
    sliceFrom s i = .ok (s.drop i) :=
  sliceFrom_ok s i (Nat.le_trans hi A.len) (fun y hy => isCont_ascii y (A.asc i hi y hy))

/-! ### bytes of the token alphabet -/

/-- `b` is the (ASCII) letter of rank `r` -/
def IsRank (b r : Nat) : Prop := b < 128 ∧ rankOfChar b = some r
def IsSuit (b s : Nat) : Prop := b < 128 ∧ suitOfChar b = some s

theorem isRankByte_iff (b : Nat) : isRankByte b = true ↔ ∃ r, IsRank b r := by
  constructor
  · intro h
    simp only [isRankByte, List.contains_eq_mem, List.mem_cons, List.mem_nil_iff, or_false,
      decide_eq_true_eq] at h
    have : b < 128 ∧ ∃ r, rankOfChar b = some r := by
      rcases h with h | h | h | h | h | h | h | h | h | h | h | h | h <;> subst h <;>
        exact ⟨by omega, Option.isSome_iff_exists.mp (by decide)⟩
    obtain ⟨h1, r, h2⟩ := this
    exact ⟨r, h1, h2⟩
  · rintro ⟨r, hb, hr⟩
    have key : ∀ b ∈ List.range 128, (rankOfChar b).isSome = true → isRankByte b = true := by decide +kernel
    exact key b (List.mem_range.mpr hb) (by simp [hr])

theorem isSuitByte_iff (b : Nat) : isSuitByte b = true ↔ ∃ s, IsSuit b s := by
  constructor
  · intro h
    simp only [isSuitByte, List.contains_eq_mem, List.mem_cons, List.mem_nil_iff, or_false,
      decide_eq_true_eq] at h
    have : b < 128 ∧ ∃ r, suitOfChar b = some r := by
      rcases h with h | h | h | h <;> subst h <;>
        exact ⟨by omega, Option.isSome_iff_exists.mp (by decide)⟩
    obtain ⟨h1, r, h2⟩ := this
    exact ⟨r, h1, h2⟩
  · rintro ⟨r, hb, hr⟩
    have key : ∀ b ∈ List.range 128, (suitOfChar b).isSome = true → isSuitByte b = true := by decide +kernel
    exact key b (List.mem_range.mpr hb) (by simp [hr])

theorem isSoByte_iff (b : Nat) : isSoByte b = true ↔ b = 115 ∨ b = 111 := by
  simp [isSoByte]

theorem IsRank.lt {b r : Nat} (h : IsRank b r) : r < 13 := (C13.rank_char_only b h.1 r h.2).1
theorem IsRank.char {b r : Nat} (h : IsRank b r) : rankChar r = b := (C13.rank_char_only b h.1 r h.2).2
theorem IsRank.byte {b r : Nat} (h : IsRank b r) : isRankByte b = true := (isRankByte_iff b).mpr ⟨r, h⟩
theorem IsRank.inj {a b r : Nat} (ha : IsRank a r) (hb : IsRank b r) : a = b := by
  rw [← ha.char, ← hb.char]
theorem IsRank.unique {b r r' : Nat} (h : IsRank b r) (h' : IsRank b r') : r = r' := by
  have := h.2; rw [h'.2] at this; exact (Option.some.inj this).symm
theorem isRank_rankChar (r : Nat) (hr : r < 13) : IsRank (rankChar r) r :=
  ⟨(C13.rank_text r hr).2, (C13.rank_text r hr).1⟩
/-- equal letters iff equal ranks -/
theorem IsRank.eq_iff {a b ra rb : Nat} (ha : IsRank a ra) (hb : IsRank b rb) : a = b ↔ ra = rb :=
  ⟨fun h => by subst h; exact ha.unique hb, fun h => by subst h; exact ha.inj hb⟩

theorem IsSuit.lt {b s : Nat} (h : IsSuit b s) : s < 4 := (C13.suit_char_only b h.1 s h.2).1
theorem IsSuit.char {b s : Nat} (h : IsSuit b s) : suitChar s = b := (C13.suit_char_only b h.1 s h.2).2
theorem IsSuit.byte {b s : Nat} (h : IsSuit b s) : isSuitByte b = true := (isSuitByte_iff b).mpr ⟨s, h⟩
theorem isSuit_suitChar (s : Nat) (hs : s < 4) : IsSuit (suitChar s) s :=
  ⟨(C13.suit_text s hs).2, (C13.suit_text s hs).1⟩

theorem parseRank_single (x : Nat) (hx : x < 128) :
    parseRank [x] = (match rankOfChar x with | some r => .ok r | none => .err) := by
  simp only [parseRank, firstChar, hx, if_true]
  cases rankOfChar x <;> rfl

theorem parseRank_of_isRank {x r : Nat} (h : IsRank x r) : parseRank [x] = .ok r := by
  rw [parseRank_single x h.1, h.2]

/-! ### weight suffix -/

/-- the weight the model computes from the text after the token body (`parse_probability`):
note the empty suffix goes through `parseW []` (Rust: `"".parse::<f32>()` is an error, hence 1.0) -/
def sufW (wt : WText W) (suffix : Bytes) : W :=
  match suffix with
  | 58 :: w => (wt.parseW w).getD wt.one
  | v => (wt.parseW v).getD wt.one

theorem sufW_nil (wt : WText W) : sufW wt [] = (wt.parseW []).getD wt.one := rfl
theorem sufW_colon (wt : WText W) (w : Bytes) : sufW wt (58 :: w) = (wt.parseW w).getD wt.one := rfl

theorem sufW_eq_suffixWeight (wt : WText W) (hempty : wt.parseW [] = none) (suffix : Bytes)
    (h : isWeightSuffix suffix = true) : sufW wt suffix = suffixWeight wt suffix := by
  unfold isWeightSuffix at h
  split at h
  · simp [sufW, suffixWeight, hempty]
  · rfl
  · cases h

theorem isWeightSuffix_iff (suffix : Bytes) : isWeightSuffix suffix = true ↔ SuffixOk suffix := by
  unfold isWeightSuffix SuffixOk
  split
  · simp
  · simp
  · rename_i h1 h2
    constructor
    · intro h; cases h
    · rintro (h | ⟨w, h, _⟩)
      · exact absurd h h1
      · exact absurd h (h2 w)

theorem isWeightText_head (w : Bytes) (h : isWeightText w = true) :
    ∃ d ds, w = d :: ds ∧ d < 128 := by
  unfold isWeightText at h
  split at h
  · exact ⟨_, _, rfl, by omega⟩
  · exact ⟨_, _, rfl, by omega⟩
  · exact ⟨_, _, rfl, by omega⟩
  · exact ⟨_, _, rfl, by omega⟩
  · cases h

theorem isWeightSuffix_head (suffix : Bytes) (h : isWeightSuffix suffix = true) :
    ∀ y, suffix.head? = some y → y < 128 := by
  unfold isWeightSuffix at h
  split at h
  · simp
  · simp
  · cases h

theorem parseProbability_suffix (wt : WText W) (suffix : Bytes) (h : isWeightSuffix suffix = true) :
    parseProbability wt suffix = .ok (sufW wt suffix) := by
  unfold isWeightSuffix at h
  split at h
  · rfl
  · rename_i w
    obtain ⟨d, ds, rfl, hd⟩ := isWeightText_head w h
    have : sliceFrom (58 :: d :: ds) 1 = .ok (d :: ds) := by
      rw [sliceFrom_ok _ 1 (by simp) (by simp; exact isCont_ascii d hd)]
      rfl
    simp [parseProbability, this, sufW]
  · cases h

theorem mkHit_eq (wt : WText W) (kind : TokenKind) (s : Bytes) (n : Nat) (A : AsciiUpTo s n)
    (h : isWeightSuffix (s.drop n) = true) : mkHit wt kind s n = .hit ⟨kind, sufW wt (s.drop n)⟩ := by
  simp [mkHit, sliceFrom_asc A n (Nat.le_refl _), parseProbability_suffix wt _ h]

end EspadaVerif.TokenFacts
