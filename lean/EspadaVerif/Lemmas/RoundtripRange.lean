/-
Lemmas/RoundtripRange: the pieces of C06 (range part): splitting a comma-joined text of clean pieces, the insert
loop of `parseRange` over the texts of well-formed tokens, the expansion of the token of a run, and the two facts
about the formatter's token list — every expanded entry is an entry of the range (soundness) and every entry of the
range is in some token's expansion (coverage).
-/
import EspadaVerif.Lemmas.RoundtripToken
import EspadaVerif.Lemmas.RangeAux
import EspadaVerif.Lemmas.FormatFacts
import EspadaVerif.Props.C12

namespace EspadaVerif.RoundtripRange
open EspadaVerif TextDefs TokenFacts RoundtripToken

variable {W : Type}

/-! ### strip, split, join -/

theorem stripSpaces_clean (s : Bytes) (h : ∀ b ∈ s, b ≠ 32) : stripSpaces s = s := by
  unfold stripSpaces
  rw [List.filter_eq_self]
  intro b hb
  simpa using h b hb

theorem splitGo_piece (p rest cur : Bytes) (h : ∀ b ∈ p, b ≠ 44) :
    splitCommas.go (p ++ rest) cur = splitCommas.go rest (p.reverse ++ cur) := by
  induction p generalizing cur with
  | nil => rfl
  | cons b p ih =>
    have hb : b ≠ 44 := h b (by simp)
    simp only [List.cons_append, splitCommas.go, hb, if_false]
    rw [ih _ (fun x hx => h x (by simp [hx]))]
    simp

theorem join_cons_cons (p q : Bytes) (qs : List Bytes) :
    joinCommas (p :: q :: qs) = p ++ [44] ++ joinCommas (q :: qs) := rfl

theorem split_join (ps : List Bytes) (hne : ps ≠ []) (h : ∀ p ∈ ps, ∀ b ∈ p, b ≠ 44) :
    splitCommas (joinCommas ps) = ps := by
  unfold splitCommas
  induction ps with
  | nil => exact absurd rfl hne
  | cons p ps ih =>
    cases ps with
    | nil =>
      have := splitGo_piece p [] [] (h p (by simp))
      simp only [List.append_nil] at this
      simp [joinCommas, this, splitCommas.go]
    | cons q qs =>
      rw [join_cons_cons, List.append_assoc, splitGo_piece p _ [] (h p (by simp))]
      simp only [List.singleton_append, splitCommas.go, if_true, List.append_nil, List.reverse_reverse]
      rw [ih (by simp) (fun x hx => h x (by simp [hx]))]

theorem join_no_space (ps : List Bytes) (h : ∀ p ∈ ps, ∀ b ∈ p, b ≠ 32) : ∀ b ∈ joinCommas ps, b ≠ 32 := by
  induction ps with
  | nil => intro b hb; cases hb
  | cons p ps ih =>
    cases ps with
    | nil => exact h p (by simp)
    | cons q qs =>
      intro b hb
      rw [join_cons_cons] at hb
      simp only [List.mem_append, List.mem_singleton] at hb
      rcases hb with (hb | hb) | hb
      · exact h p (by simp) b hb
      · omega
      · exact ih (fun x hx => h x (by simp [hx])) b hb

theorem join_ne_nil (p : Bytes) (ps : List Bytes) (hp : p ≠ []) : joinCommas (p :: ps) ≠ [] := by
  cases ps with
  | nil => exact hp
  | cons q qs => rw [join_cons_cons]; simp [hp]

/-! ### the insert loop over the texts of well-formed tokens -/

theorem go_mem (wt : WText W) (toks : List (Token W))
    (h : ∀ tok ∈ toks, parseToken wt (tok.show wt) = .ok tok ∧ TokenOk tok.kind) (m : HandRange W) :
    ∃ r', parseRange.go wt (toks.map (Token.show wt)) m = .ok r' ∧
      ∀ e, e ∈ r' ↔ (e ∈ m ∨ ∃ tok ∈ toks, ∃ es, tok.expand = .ok es ∧ e ∈ es) := by
  induction toks generalizing m with
  | nil => exact ⟨m, rfl, by simp⟩
  | cons tok rest ih =>
    obtain ⟨hp, hk⟩ := h tok (by simp)
    obtain ⟨es, hes, _⟩ := expand_ok tok hk
    obtain ⟨r', hr', hmem⟩ := ih (fun t ht => h t (by simp [ht])) (es.reverse ++ m)
    refine ⟨r', ?_, ?_⟩
    · simp only [List.map_cons, parseRange.go, hp, hes, RangeAux.foldl_insert_eq]
      exact hr'
    · intro e
      rw [hmem]
      constructor
      · rintro (he | ⟨t, ht, es', h1, h2⟩)
        · rcases List.mem_append.mp he with he | he
          · exact Or.inr ⟨tok, by simp, es, hes, List.mem_reverse.mp he⟩
          · exact Or.inl he
        · exact Or.inr ⟨t, by simp [ht], es', h1, h2⟩
      · rintro (he | ⟨t, ht, es', h1, h2⟩)
        · exact Or.inl (List.mem_append_right _ he)
        · rcases List.mem_cons.mp ht with rfl | ht
          · rw [hes] at h1; cases h1
            exact Or.inl (List.mem_append_left _ (List.mem_reverse.mpr h2))
          · exact Or.inr ⟨t, ht, es', h1, h2⟩

/-- the text of a list of clean non-empty pieces is taken apart into exactly those pieces -/
theorem parseRange_join (wt : WText W) (ps : List Bytes) (h : ∀ p ∈ ps, Clean p ∧ p ≠ []) :
    parseRange wt (joinCommas ps) = parseRange.go wt ps [] := by
  rw [RangeAux.parseRange_unfold,
    stripSpaces_clean _ (join_no_space ps (fun p hp b hb => ((h p hp).1 b hb).1))]
  cases ps with
  | nil => rfl
  | cons p ps =>
    have hne : (joinCommas (p :: ps)).length ≠ 0 := by
      intro e
      exact join_ne_nil p ps (h p (by simp)).2 (List.eq_nil_of_length_eq_zero e)
    rw [if_neg hne, split_join _ (by simp) (fun q hq b hb => ((h q hq).1 b hb).2)]

/-! ### two histories with the same entries look up the same -/

theorem lookup_none_iff (r : HandRange W) (c : Combo) : r.lookup c = none ↔ ∀ w, (c, w) ∉ r := by
  induction r with
  | nil => simp [HandRange.lookup]
  | cons e rest ih =>
    obtain ⟨k, v⟩ := e
    simp only [HandRange.lookup]
    by_cases hk : k = c
    · subst hk
      simp only [if_true, reduceCtorEq, false_iff]
      intro h
      exact h v List.mem_cons_self
    · rw [if_neg hk, ih]
      constructor
      · intro h w hm
        rcases List.mem_cons.mp hm with e | hm
        · cases e; exact hk rfl
        · exact h w hm
      · intro h w hm; exact h w (List.mem_cons_of_mem _ hm)

theorem lookup_eq_of (r r' : HandRange W) (hs : ∀ c w, (c, w) ∈ r' → r.lookup c = some w)
    (hc : ∀ c w, r.lookup c = some w → ∃ w', (c, w') ∈ r') (c : Combo) : r'.lookup c = r.lookup c := by
  cases h' : r'.lookup c with
  | some w => exact (hs c w (RankPairFacts.lookup_mem h')).symm
  | none =>
    cases h : r.lookup c with
    | none => rfl
    | some w =>
      obtain ⟨w', hw'⟩ := hc c w h
      exact absurd hw' ((lookup_none_iff r' c).mp h' w')

/-! ### the runs when `==` is equality on the weights of the row -/

theorem runs_go_congr (weq weq' : W → W → Bool) (P : W → Prop) (h : ∀ a b, P a → P b → weq a b = weq' a b)
    (rest : List (Option W)) : ∀ (i : Nat) (cur : Option (Nat × Nat × W)) (acc : List (Nat × Nat × W)),
    (∀ w, some w ∈ rest → P w) → (∀ c, cur = some c → P c.2.2) →
    Spec.runs.go weq rest i cur acc = Spec.runs.go weq' rest i cur acc := by
  induction rest with
  | nil => intro i cur acc _ _; cases cur <;> rfl
  | cons x rest ih =>
    intro i cur acc hrest hcur
    have hrest' : ∀ w, some w ∈ rest → P w := fun w hw => hrest w (List.mem_cons_of_mem _ hw)
    cases x with
    | none =>
      simp only [Spec.runs.go]
      exact ih _ _ _ hrest' (by intro c hc; cases hc)
    | some w =>
      have hw : P w := hrest w (by simp)
      cases cur with
      | none =>
        simp only [Spec.runs.go]
        exact ih _ _ _ hrest' (by intro c hc; cases hc; exact hw)
      | some c =>
        obtain ⟨s, n, w'⟩ := c
        have hw' : P w' := hcur _ rfl
        simp only [Spec.runs.go, h w w' hw hw']
        split
        · exact ih _ _ _ hrest' (by intro c hc; cases hc; exact hw')
        · exact ih _ _ _ hrest' (by intro c hc; cases hc; exact hw)

open Classical in
/-- on a row of weights of the domain, every run is a non-empty stretch of entries all EQUAL to the run's weight,
and every present entry is in a run -/
theorem runs_facts (wt : WText W) (inDom : W → Prop) (hok : WTextOk wt inDom) (row : List (Option W))
    (hrow : ∀ w, some w ∈ row → inDom w) :
    (∀ run ∈ Spec.runs wt.eq row, 1 ≤ run.2.1 ∧ run.1 + run.2.1 ≤ row.length
        ∧ ∀ j, run.1 ≤ j → j < run.1 + run.2.1 → row[j]? = some (some run.2.2))
    ∧ (∀ i w', row[i]? = some (some w') → ∃ run ∈ Spec.runs wt.eq row, run.1 ≤ i ∧ i < run.1 + run.2.1) := by
  have e : Spec.runs wt.eq row = Spec.runs (fun a b : W => decide (a = b)) row := by
    unfold Spec.runs
    exact runs_go_congr _ _ inDom (fun a b ha hb => by
      rw [Bool.eq_iff_iff]; simp [hok.eq_iff a b ha hb]) row 0 none [] hrow (by intro c hc; cases hc)
  rw [e]
  obtain ⟨hokk, hcov⟩ := FormatFacts.runs_final (fun a b : W => decide (a = b)) (by intro a; simp) row
  refine ⟨fun run hrun => ?_, hcov⟩
  obtain ⟨h1, h2, h3⟩ := hokk.body run hrun
  refine ⟨h1, h2, fun j hj1 hj2 => ?_⟩
  obtain ⟨w', hw', he⟩ := h3 j hj1 hj2
  rw [hw', of_decide_eq_true he]

/-! ### the rows of the table and the token of a run -/

/-- the 25 rows the formatter walks: the pockets, and under each high card the suited and the offsuit kickers -/
inductive RowOk : Nat → (Nat → RankPair) → Prop
  | pocket : RowOk 0 .pocket
  | suited (h : Nat) (hh : h < 12) : RowOk (h + 1) (.suited h)
  | ofsuit (h : Nat) (hh : h < 12) : RowOk (h + 1) (.ofsuit h)

theorem RowOk.first_le {first : Nat} {mk : Nat → RankPair} (h : RowOk first mk) : first ≤ 12 := by
  cases h <;> omega

theorem RowOk.canonical {first : Nat} {mk : Nat → RankPair} (h : RowOk first mk) (k : Nat) (h1 : first ≤ k)
    (h2 : k < 13) : RankPair.canonical (mk k) := by
  cases h with
  | pocket => exact h2
  | suited h hh => exact ⟨by omega, h2⟩
  | ofsuit h hh => exact ⟨by omega, h2⟩

theorem expandRun_eq' (a b n : Nat) (mk : Nat → RankPair) (p : W) (hn : 1 ≤ n) (hb : b < 13) (hab : a + n = b + 1) :
    expandRun a b mk p = .ok ((List.range' a n).flatMap fun r => (mk r).combos.map fun cp => (cp, p)) := by
  have : b + 1 - a = n := by omega
  rw [expandRun_eq a b mk p (by omega) hb, this]

/-- the token of the run `(s, n, w)` of a row is well formed, carries `w`, and expands to the combos of the rank
pairs `mk (first + s) … mk (first + s + n - 1)`, each with weight `w` -/
theorem runTok_spec {first : Nat} {mk : Nat → RankPair} (hrow : RowOk first mk) (s n : Nat) (w : W) (hn : 1 ≤ n)
    (hsn : s + n ≤ 13 - first) :
    TokenOk (FormatFacts.runTok first mk (s, n, w)).kind ∧ (FormatFacts.runTok first mk (s, n, w)).prob = w ∧
    (FormatFacts.runTok first mk (s, n, w)).expand
      = .ok ((List.range' (first + s) n).flatMap fun k => (mk k).combos.map fun cp => (cp, w)) := by
  have single : ∀ k : Nat, (List.range' k 1).flatMap (fun k => (mk k).combos.map fun cp => (cp, w))
      = (mk k).combos.map fun cp => (cp, w) := by
    intro k; simp
  cases hrow with
  | pocket =>
    simp only [FormatFacts.runTok]
    split
    · next h =>
      obtain ⟨rfl, h2⟩ := h
      refine ⟨show 0 + n - 1 < 13 by omega, rfl, ?_⟩
      exact expandRun_eq' 0 (0 + n - 1) n .pocket w hn (by omega) (by omega)
    · split
      · next h1 h2 =>
        subst h2
        refine ⟨show 0 + s < 13 by omega, rfl, ?_⟩
        rw [single]; rfl
      · next h1 h2 =>
        refine ⟨⟨by omega, by omega⟩, rfl, ?_⟩
        exact expandRun_eq' (0 + s) (0 + s + n - 1) n .pocket w hn (by omega) (by omega)
  | suited h hh =>
    simp only [FormatFacts.runTok]
    split
    · next h' =>
      obtain ⟨rfl, h2⟩ := h'
      refine ⟨⟨by omega, by omega⟩, rfl, ?_⟩
      simp only [Token.expand, rankNext_lt h (by omega)]
      exact expandRun_eq' (h + 1) (h + 1 + n - 1) n (.suited h) w hn (by omega) (by omega)
    · split
      · next h1 h2 =>
        subst h2
        refine ⟨⟨by omega, by omega, by omega⟩, rfl, ?_⟩
        rw [single]; rfl
      · next h1 h2 =>
        refine ⟨⟨by omega, by omega, by omega⟩, rfl, ?_⟩
        exact expandRun_eq' (h + 1 + s) (h + 1 + s + n - 1) n (.suited h) w hn (by omega) (by omega)
  | ofsuit h hh =>
    simp only [FormatFacts.runTok]
    split
    · next h' =>
      obtain ⟨rfl, h2⟩ := h'
      refine ⟨⟨by omega, by omega⟩, rfl, ?_⟩
      simp only [Token.expand, rankNext_lt h (by omega)]
      exact expandRun_eq' (h + 1) (h + 1 + n - 1) n (.ofsuit h) w hn (by omega) (by omega)
    · split
      · next h1 h2 =>
        subst h2
        refine ⟨⟨by omega, by omega, by omega⟩, rfl, ?_⟩
        rw [single]; rfl
      · next h1 h2 =>
        refine ⟨⟨by omega, by omega, by omega⟩, rfl, ?_⟩
        exact expandRun_eq' (h + 1 + s) (h + 1 + s + n - 1) n (.ofsuit h) w hn (by omega) (by omega)

/-- the row of table entries the run-length pass reads -/
def rowList (rps : List (RankPair × W)) (first : Nat) (mk : Nat → RankPair) : List (Option W) :=
  (List.range' first (13 - first)).map fun k => rpLookup rps (mk k)

theorem rowList_get (rps : List (RankPair × W)) (first : Nat) (mk : Nat → RankPair) (j : Nat) :
    (rowList rps first mk)[j]? = if j < 13 - first then some (rpLookup rps (mk (first + j))) else none := by
  unfold rowList
  by_cases hj : j < 13 - first
  · rw [List.getElem?_map, List.getElem?_range' hj, if_pos hj]
    simp
  · rw [if_neg hj, List.getElem?_eq_none (by simp; omega)]

theorem rowList_length (rps : List (RankPair × W)) (first : Nat) (mk : Nat → RankPair) :
    (rowList rps first mk).length = 13 - first := by
  simp [rowList]

theorem rowRuns_eq (wt : WText W) (rps : List (RankPair × W)) (first : Nat) (mk : Nat → RankPair) :
    FormatFacts.rowRuns wt rps first mk
      = (Spec.runs wt.eq (rowList rps first mk)).map (FormatFacts.runTok first mk) := rfl

/-! ### soundness and coverage of the token list -/

theorem rpList_eq (wt : WText W) (r : HandRange W) : FormatFacts.rpList wt r = RankPairFacts.rpList wt r :=
  Res.ok.inj ((FormatFacts.rankPairs_eq wt r).symm.trans (RankPairFacts.rankPairs_eq wt r))

section
variable (wt : WText W) (inDom : W → Prop) (hok : WTextOk wt inDom) (r : HandRange W)
  (hr : ∀ e ∈ r, ComboOk e.1 ∧ inDom e.2)

include hok hr

theorem report (rp : RankPair) (w : W) :
    rpLookup (FormatFacts.rpList wt r) rp = some w ↔ (RankPair.canonical rp ∧ ∀ c ∈ rp.combos, r.lookup c = some w) := by
  rw [rpList_eq]
  exact C12.report_rpList wt inDom hok r (fun e he => (hr e he).2) rp w

theorem report_dom (rp : RankPair) (w : W) (h : rpLookup (FormatFacts.rpList wt r) rp = some w) : inDom w := by
  obtain ⟨_, hall⟩ := (report wt inDom hok r hr rp w).mp h
  exact RankPairFacts.lookup_dom (fun e he => (hr e he).2) (hall _ (RankPairFacts.probeOf_mem rp))

theorem row_dom (first : Nat) (mk : Nat → RankPair) :
    ∀ w, some w ∈ rowList (FormatFacts.rpList wt r) first mk → inDom w := by
  intro w hw
  simp only [rowList, List.mem_map] at hw
  obtain ⟨k, _, hk⟩ := hw
  exact report_dom wt inDom hok r hr (mk k) w hk

/-- what the token of a run of a row is -/
theorem row_token (first : Nat) (mk : Nat → RankPair) (tok : Token W)
    (ht : tok ∈ FormatFacts.rowRuns wt (FormatFacts.rpList wt r) first mk) :
    ∃ s n w, 1 ≤ n ∧ s + n ≤ 13 - first ∧ tok = FormatFacts.runTok first mk (s, n, w)
      ∧ ∀ k, first + s ≤ k → k < first + s + n → rpLookup (FormatFacts.rpList wt r) (mk k) = some w := by
  rw [rowRuns_eq] at ht
  obtain ⟨run, hrun, rfl⟩ := List.mem_map.mp ht
  obtain ⟨hbody, _⟩ := runs_facts wt inDom hok _ (row_dom wt inDom hok r hr first mk)
  obtain ⟨h1, h2, h3⟩ := hbody run hrun
  rw [rowList_length] at h2
  obtain ⟨s, n, w⟩ := run
  refine ⟨s, n, w, h1, h2, rfl, ?_⟩
  intro k hk1 hk2
  have := h3 (k - first) (by simp only; omega) (by simp only; omega)
  rw [rowList_get, if_pos (by simp only at h2; omega)] at this
  have e : first + (k - first) = k := by omega
  rw [e] at this
  exact Option.some.inj this

/-- **soundness, rows**: a row token is well formed, its weight is in the domain, and every entry of its expansion
is an entry of the range -/
theorem row_sound (first : Nat) (mk : Nat → RankPair) (hrow : RowOk first mk) (tok : Token W)
    (ht : tok ∈ FormatFacts.rowRuns wt (FormatFacts.rpList wt r) first mk) :
    TokenOk tok.kind ∧ inDom tok.prob ∧ ∀ es, tok.expand = .ok es → ∀ e ∈ es, r.lookup e.1 = some e.2 := by
  obtain ⟨s, n, w, h1, h2, rfl, hall⟩ := row_token wt inDom hok r hr first mk tok ht
  obtain ⟨t1, t2, t3⟩ := runTok_spec hrow s n w h1 h2
  refine ⟨t1, ?_, ?_⟩
  · rw [t2]
    exact report_dom wt inDom hok r hr (mk (first + s)) w (hall (first + s) (by omega) (by omega))
  · intro es hes e he
    rw [t3] at hes
    cases hes
    simp only [List.mem_flatMap, List.mem_map, List.mem_range'_1] at he
    obtain ⟨k, ⟨hk1, hk2⟩, c, hc, rfl⟩ := he
    exact ((report wt inDom hok r hr (mk k) w).mp (hall k hk1 hk2)).2 c hc

/-- **coverage, rows**: the combos of a reported rank pair of a row are in the expansion of one of the row's tokens -/
theorem row_cover (first : Nat) (mk : Nat → RankPair) (hrow : RowOk first mk) (k : Nat) (hk1 : first ≤ k)
    (hk2 : k < 13) (w : W) (hl : rpLookup (FormatFacts.rpList wt r) (mk k) = some w) (c : Combo)
    (hc : c ∈ (mk k).combos) :
    ∃ tok ∈ FormatFacts.rowRuns wt (FormatFacts.rpList wt r) first mk, ∃ es w', tok.expand = .ok es ∧ (c, w') ∈ es := by
  obtain ⟨hbody, hcov⟩ := runs_facts wt inDom hok _ (row_dom wt inDom hok r hr first mk)
  have hget : (rowList (FormatFacts.rpList wt r) first mk)[k - first]? = some (some w) := by
    rw [rowList_get, if_pos (by omega)]
    have e : first + (k - first) = k := by omega
    rw [e, hl]
  obtain ⟨run, hrun, hr1, hr2⟩ := hcov (k - first) w hget
  obtain ⟨h1, h2, _⟩ := hbody run hrun
  rw [rowList_length] at h2
  obtain ⟨s, n, w'⟩ := run
  obtain ⟨_, _, t3⟩ := runTok_spec hrow s n w' h1 h2
  refine ⟨FormatFacts.runTok first mk (s, n, w'), ?_, _, w', t3, ?_⟩
  · rw [rowRuns_eq]
    exact List.mem_map.mpr ⟨_, hrun, rfl⟩
  · simp only [List.mem_flatMap, List.mem_map, List.mem_range'_1]
    simp only at hr1 hr2
    exact ⟨k, ⟨by omega, by omega⟩, c, hc, rfl⟩

omit hok in
/-- **soundness, leftovers** -/
theorem orph_sound (tok : Token W) (ht : tok ∈ FormatFacts.orphToks (FormatFacts.orphList wt r)) :
    TokenOk tok.kind ∧ inDom tok.prob ∧ ∀ es, tok.expand = .ok es → ∀ e ∈ es, r.lookup e.1 = some e.2 := by
  obtain ⟨c, p, rfl, hl⟩ := FormatFacts.orphToks_kind _ tok ht
  rw [FormatFacts.lookup_orphList] at hl
  split at hl
  · cases hl
  · have hm := RankPairFacts.lookup_mem hl
    obtain ⟨hc, hp⟩ := hr _ hm
    refine ⟨(tokenOk_singleCard_iff c).mpr hc, hp, ?_⟩
    intro es hes e he
    simp only [Token.expand] at hes
    cases hes
    simp only [List.mem_singleton] at he
    subst he
    exact hl

omit hok hr in
/-- **coverage, leftovers**: the orphan pass visits every real combo -/
theorem orph_cover (o : HandRange W) (c : Combo) (hc : ComboOk c) (w : W) (h : o.lookup c = some w) :
    (⟨.singleCard c, w⟩ : Token W) ∈ FormatFacts.orphToks o := by
  obtain ⟨⟨r1, s1⟩, ⟨r2, s2⟩⟩ := c
  obtain ⟨v1, v2, hlt⟩ := hc
  simp only [Card.valid, Bool.and_eq_true, decide_eq_true_eq] at v1 v2
  have hle : r1 ≤ r2 := by
    simp only [Card.lt, Bool.or_eq_true, Bool.and_eq_true, decide_eq_true_eq, beq_iff_eq] at hlt
    omega
  simp only [FormatFacts.orphToks, FormatFacts.orphRow, List.mem_flatMap]
  refine ⟨r1, List.mem_range.mpr v1.1, r2, List.mem_range'_1.mpr (by omega), s1, List.mem_range.mpr v1.2, s2,
    List.mem_range.mpr v2.2, ?_⟩
  rw [RankPairFacts.mkPair_of_lt hlt, h]
  simp

/-- the token list of `Display for HandRange` -/
def toksOf (wt : WText W) (r : HandRange W) : List (Token W) :=
  FormatFacts.rowRuns wt (FormatFacts.rpList wt r) 0 .pocket
    ++ (List.range' 0 12).flatMap (FormatFacts.highToks wt (FormatFacts.rpList wt r))
    ++ FormatFacts.orphToks (FormatFacts.orphList wt r)

/-- **soundness** of the whole token list -/
theorem toks_sound (tok : Token W) (ht : tok ∈ toksOf wt r) :
    TokenOk tok.kind ∧ inDom tok.prob ∧ ∀ es, tok.expand = .ok es → ∀ e ∈ es, r.lookup e.1 = some e.2 := by
  unfold toksOf at ht
  rcases List.mem_append.mp ht with ht | ht
  · rcases List.mem_append.mp ht with ht | ht
    · exact row_sound wt inDom hok r hr 0 .pocket .pocket tok ht
    · obtain ⟨h, hh, ht⟩ := List.mem_flatMap.mp ht
      have hh' : h < 12 := by have := List.mem_range'_1.mp hh; omega
      rcases List.mem_append.mp ht with ht | ht
      · exact row_sound wt inDom hok r hr (h + 1) (.suited h) (.suited h hh') tok ht
      · exact row_sound wt inDom hok r hr (h + 1) (.ofsuit h) (.ofsuit h hh') tok ht
  · exact orph_sound wt inDom r hr tok ht

/-- **coverage**: every entry of the range is in the expansion of some token -/
theorem toks_cover (c : Combo) (w : W) (hl : r.lookup c = some w) :
    ∃ tok ∈ toksOf wt r, ∃ es w', tok.expand = .ok es ∧ (c, w') ∈ es := by
  have hc : ComboOk c := (hr _ (RankPairFacts.lookup_mem hl)).1
  by_cases hrep : ∃ e ∈ FormatFacts.rpList wt r, c ∈ e.1.combos
  · obtain ⟨⟨rp, w0⟩, he, hcm⟩ := hrep
    have hlk : rpLookup (FormatFacts.rpList wt r) rp = some w0 := by
      rw [rpList_eq] at he ⊢
      exact (RankPairFacts.rpLookup_eq_some_iff (RankPairFacts.rpList_functional wt r) rp w0).mpr he
    have hcan := ((report wt inDom hok r hr rp w0).mp hlk).1
    simp only at hcm
    cases rp with
    | pocket k =>
      obtain ⟨tok, ht, h⟩ := row_cover wt inDom hok r hr 0 .pocket .pocket k (by omega) hcan w0 hlk c hcm
      exact ⟨tok, List.mem_append_left _ (List.mem_append_left _ ht), h⟩
    | suited h k =>
      obtain ⟨h1, h2⟩ := hcan
      obtain ⟨tok, ht, h'⟩ := row_cover wt inDom hok r hr (h + 1) (.suited h) (.suited h (by omega)) k (by omega) h2
        w0 hlk c hcm
      refine ⟨tok, List.mem_append_left _ (List.mem_append_right _ ?_), h'⟩
      exact List.mem_flatMap.mpr ⟨h, List.mem_range'_1.mpr (by omega), List.mem_append_left _ ht⟩
    | ofsuit h k =>
      obtain ⟨h1, h2⟩ := hcan
      obtain ⟨tok, ht, h'⟩ := row_cover wt inDom hok r hr (h + 1) (.ofsuit h) (.ofsuit h (by omega)) k (by omega) h2
        w0 hlk c hcm
      refine ⟨tok, List.mem_append_left _ (List.mem_append_right _ ?_), h'⟩
      exact List.mem_flatMap.mpr ⟨h, List.mem_range'_1.mpr (by omega), List.mem_append_right _ ht⟩
  · have ho : (FormatFacts.orphList wt r).lookup c = some w := by
      rw [FormatFacts.lookup_orphList, if_neg hrep, hl]
    refine ⟨⟨.singleCard c, w⟩, List.mem_append_right _ (orph_cover _ c hc w ho), [(c, w)], w, rfl, by simp⟩

end

end EspadaVerif.RoundtripRange
