/-
Lemmas/RegexSound: the equivalence checker of `Model/Regex` is sound.

* the normalising constructors keep the language (`lang_mkSeq`, `lang_mkAlt`), so `nderiv` is a derivative
  (`lang_nderiv`);
* `nderiv` only ever mentions bytes the expression already mentions (`mentioned_nderiv`), and two bytes that
  are mentioned nowhere in `r` give the same `nderiv` (`nderiv_unmentioned`): one fresh byte stands for all
  the infinitely many unmentioned naturals;
* a successful run of `equivLoop` yields a set of pairs closed under `nderiv c` for the representative bytes
  on which `nullable` agrees (`equivLoop_inv`); restricted to the pairs that mention only bytes of the two
  inputs it is a bisimulation for every byte, hence `equivCheck_sound`.
-/
import EspadaVerif.Model.Regex
import EspadaVerif.Lemmas.RegexLang

namespace EspadaVerif.Rx
open Re

/-! ### syntactic equality -/

theorem beq_eq : ∀ (a b : Re), beq a b = true → a = b := by
  intro a
  induction a with
  | empty => intro b h; cases b <;> simp_all [beq]
  | eps => intro b h; cases b <;> simp_all [beq]
  | cls bs => intro b h; cases b <;> simp_all [beq]
  | seq a₁ a₂ ih₁ ih₂ =>
    intro b h
    cases b with
    | seq b₁ b₂ =>
      simp only [beq, Bool.and_eq_true] at h
      rw [ih₁ b₁ h.1, ih₂ b₂ h.2]
    | _ => simp [beq] at h
  | alt a₁ a₂ ih₁ ih₂ =>
    intro b h
    cases b with
    | alt b₁ b₂ =>
      simp only [beq, Bool.and_eq_true] at h
      rw [ih₁ b₁ h.1, ih₂ b₂ h.2]
    | _ => simp [beq] at h
  | star a ih =>
    intro b h
    cases b with
    | star b =>
      simp only [beq] at h
      rw [ih b h]
    | _ => simp [beq] at h

/-! ### the normalising constructors keep the language -/

theorem lang_seq_empty_left (b : Re) (s : List Nat) : Lang (seq empty b) s ↔ False := by
  simp only [Lang, iff_false]
  rintro ⟨_, _, _, h, _⟩
  exact h

theorem lang_seq_empty_right (a : Re) (s : List Nat) : Lang (seq a empty) s ↔ False := by
  simp only [Lang, iff_false]
  rintro ⟨_, _, _, _, h⟩
  exact h

theorem lang_seq_eps_left (b : Re) (s : List Nat) : Lang (seq eps b) s ↔ Lang b s := by
  simp only [Lang]
  constructor
  · rintro ⟨x, y, rfl, rfl, h⟩
    exact h
  · intro h
    exact ⟨[], s, rfl, rfl, h⟩

theorem lang_seq_eps_right (a : Re) (s : List Nat) : Lang (seq a eps) s ↔ Lang a s := by
  simp only [Lang]
  constructor
  · rintro ⟨x, y, rfl, h, rfl⟩
    simpa using h
  · intro h
    exact ⟨s, [], by simp, h, rfl⟩

theorem lang_mkSeq (a b : Re) (s : List Nat) : Lang (mkSeq a b) s ↔ Lang (seq a b) s := by
  fun_cases mkSeq a b
  · rw [lang_seq_empty_left]; simp only [Lang]
  · rw [lang_seq_empty_right]; simp only [Lang]
  · rw [lang_seq_eps_left]
  · rw [lang_seq_eps_right]
  · exact Iff.rfl

theorem altMem_lang (a : Re) : ∀ (b : Re), altMem a b = true → ∀ s, Lang a s → Lang b s := by
  intro b
  induction b with
  | alt x rest _ ih =>
    intro h s ha
    simp only [altMem, Bool.or_eq_true] at h
    rcases h with h | h
    · rw [beq_eq a x h] at ha
      exact Or.inl ha
    · exact Or.inr (ih h s ha)
  | empty => intro h s ha; simp only [altMem] at h; rw [← beq_eq a _ h]; exact ha
  | eps => intro h s ha; simp only [altMem] at h; rw [← beq_eq a _ h]; exact ha
  | cls _ => intro h s ha; simp only [altMem] at h; rw [← beq_eq a _ h]; exact ha
  | seq _ _ _ _ => intro h s ha; simp only [altMem] at h; rw [← beq_eq a _ h]; exact ha
  | star _ _ => intro h s ha; simp only [altMem] at h; rw [← beq_eq a _ h]; exact ha

theorem lang_mkAlt1 (a b : Re) (s : List Nat) : Lang (mkAlt1 a b) s ↔ Lang a s ∨ Lang b s := by
  fun_cases mkAlt1 a b
  · simp only [Lang, false_or]
  · simp only [Lang, or_false]
  · rename_i h
    constructor
    · exact Or.inr
    · rintro (ha | hb)
      · exact altMem_lang a b h s ha
      · exact hb
  · simp only [Lang]

theorem lang_mkAlt (a b : Re) : ∀ s, Lang (mkAlt a b) s ↔ Lang a s ∨ Lang b s := by
  fun_induction mkAlt a b with
  | case1 x y b ih₁ ih₂ =>
    intro s
    rw [ih₂, ih₁]
    simp only [Lang, or_assoc]
  | case2 a b _ =>
    intro s
    exact lang_mkAlt1 a b s

/-- `nderiv` and `deriv` have the same language -/
theorem lang_nderiv_deriv (c : Nat) (r : Re) : ∀ s, Lang (nderiv c r) s ↔ Lang (deriv c r) s := by
  induction r with
  | empty => intro s; exact Iff.rfl
  | eps => intro s; exact Iff.rfl
  | cls bs => intro s; exact Iff.rfl
  | seq a b iha ihb =>
    intro s
    simp only [nderiv, deriv]
    cases nullable a with
    | true =>
      simp only [if_true]
      rw [lang_mkAlt, lang_mkSeq]
      simp only [Lang, iha, ihb]
    | false =>
      simp only [Bool.false_eq_true, if_false]
      rw [lang_mkSeq]
      simp only [Lang, iha]
  | alt a b iha ihb =>
    intro s
    simp only [nderiv, deriv]
    rw [lang_mkAlt]
    simp only [Lang, iha, ihb]
  | star a iha =>
    intro s
    simp only [nderiv, deriv]
    rw [lang_mkSeq]
    simp only [Lang, iha]

theorem lang_nderiv (c : Nat) (r : Re) (s : List Nat) : Lang (nderiv c r) s ↔ Lang r (c :: s) := by
  rw [lang_nderiv_deriv, deriv_iff]

theorem matches_nderiv (c : Nat) (r : Re) (s : List Nat) :
    Rx.matches (nderiv c r) s = Rx.matches r (c :: s) := by
  rw [Bool.eq_iff_iff, matches_iff, matches_iff, lang_nderiv]

/-! ### mentioned bytes -/

theorem mentioned_mkSeq (a b : Re) (x : Nat) :
    x ∈ mentioned (mkSeq a b) → x ∈ mentioned a ∨ x ∈ mentioned b := by
  fun_cases mkSeq a b
  · intro h; simp only [mentioned] at h; cases h
  · intro h; simp only [mentioned] at h; cases h
  · exact Or.inr
  · exact Or.inl
  · intro h; simpa only [mentioned, List.mem_append] using h

theorem mentioned_mkAlt1 (a b : Re) (x : Nat) :
    x ∈ mentioned (mkAlt1 a b) → x ∈ mentioned a ∨ x ∈ mentioned b := by
  fun_cases mkAlt1 a b
  · exact Or.inr
  · exact Or.inl
  · exact Or.inr
  · intro h; simpa only [mentioned, List.mem_append] using h

theorem mentioned_mkAlt (a b : Re) (x : Nat) :
    x ∈ mentioned (mkAlt a b) → x ∈ mentioned a ∨ x ∈ mentioned b := by
  fun_induction mkAlt a b with
  | case1 p q b ih₁ ih₂ =>
    intro h
    simp only [mentioned, List.mem_append]
    rcases ih₂ h with h | h
    · exact Or.inl (Or.inl h)
    · rcases ih₁ h with h | h
      · exact Or.inl (Or.inr h)
      · exact Or.inr h
  | case2 a b _ => exact mentioned_mkAlt1 a b x

/-- a derivative mentions no new byte -/
theorem mentioned_nderiv (c : Nat) (r : Re) (x : Nat) : x ∈ mentioned (nderiv c r) → x ∈ mentioned r := by
  induction r with
  | empty => intro h; exact h
  | eps => intro h; simp only [nderiv, mentioned] at h; cases h
  | cls bs =>
    intro h
    simp only [nderiv] at h
    cases hc : bs.contains c <;> rw [hc] at h <;> simp [mentioned] at h
  | seq a b iha ihb =>
    intro h
    simp only [nderiv] at h
    simp only [mentioned, List.mem_append]
    cases hn : nullable a with
    | true =>
      rw [hn, if_pos rfl] at h
      rcases mentioned_mkAlt _ _ x h with h | h
      · rcases mentioned_mkSeq _ _ x h with h | h
        · exact Or.inl (iha h)
        · exact Or.inr h
      · exact Or.inr (ihb h)
    | false =>
      rw [hn, if_neg (by simp)] at h
      rcases mentioned_mkSeq _ _ x h with h | h
      · exact Or.inl (iha h)
      · exact Or.inr h
  | alt a b iha ihb =>
    intro h
    simp only [nderiv] at h
    simp only [mentioned, List.mem_append]
    rcases mentioned_mkAlt _ _ x h with h | h
    · exact Or.inl (iha h)
    · exact Or.inr (ihb h)
  | star a iha =>
    intro h
    simp only [nderiv] at h
    simp only [mentioned]
    rcases mentioned_mkSeq _ _ x h with h | h
    · exact iha h
    · exact h

/-- two bytes that `r` mentions nowhere have the same derivative -/
theorem nderiv_unmentioned (c d : Nat) (r : Re) (hc : c ∉ mentioned r) (hd : d ∉ mentioned r) :
    nderiv c r = nderiv d r := by
  induction r with
  | empty => rfl
  | eps => rfl
  | cls bs =>
    simp only [mentioned] at hc hd
    have h₁ : bs.contains c = false := by simpa using hc
    have h₂ : bs.contains d = false := by simpa using hd
    simp only [nderiv, h₁, h₂]
  | seq a b iha ihb =>
    simp only [mentioned, List.mem_append, not_or] at hc hd
    simp only [nderiv, iha hc.1 hd.1, ihb hc.2 hd.2]
  | alt a b iha ihb =>
    simp only [mentioned, List.mem_append, not_or] at hc hd
    simp only [nderiv, iha hc.1 hd.1, ihb hc.2 hd.2]
  | star a iha =>
    simp only [mentioned] at hc hd
    simp only [nderiv, iha hc hd]

/-! ### representatives -/

theorem le_maxOf : ∀ (l : List Nat) (x : Nat), x ∈ l → x ≤ maxOf l := by
  intro l
  induction l with
  | nil => intro x h; cases h
  | cons y ys ih =>
    intro x h
    simp only [maxOf]
    rcases List.mem_cons.mp h with rfl | h
    · split <;> omega
    · have := ih x h
      split <;> omega

theorem fresh_not_mem (l : List Nat) : fresh l ∉ l := by
  intro h
  have := le_maxOf l _ h
  simp only [fresh] at this
  omega

theorem mem_insertNew (x y : Nat) (l : List Nat) (h : x = y ∨ x ∈ l) : x ∈ insertNew y l := by
  simp only [insertNew]
  cases hc : l.contains y with
  | true =>
    simp only [if_true]
    rcases h with rfl | h
    · simpa using hc
    · exact h
  | false =>
    simp only [Bool.false_eq_true, if_false, List.mem_cons]
    exact h

theorem mem_dedup : ∀ (l : List Nat) (x : Nat), x ∈ l → x ∈ dedup l := by
  intro l
  induction l with
  | nil => intro x h; cases h
  | cons y ys ih =>
    intro x h
    simp only [dedup, List.foldr_cons]
    apply mem_insertNew
    rcases List.mem_cons.mp h with rfl | h
    · exact Or.inl rfl
    · exact Or.inr (ih x h)

/-! ### the work-list loop -/

theorem pairMem_mem (a b : Re) : ∀ (l : List (Re × Re)), pairMem a b l = true → (a, b) ∈ l := by
  intro l
  induction l with
  | nil => intro h; simp [pairMem] at h
  | cons p ps ih =>
    intro h
    simp only [pairMem, Bool.or_eq_true, Bool.and_eq_true] at h
    rcases h with ⟨h₁, h₂⟩ | h
    · have e₁ := beq_eq a p.1 h₁
      have e₂ := beq_eq b p.2 h₂
      have : (a, b) = p := by rw [e₁, e₂]
      rw [this]
      exact List.mem_cons_self
    · exact List.mem_cons_of_mem _ (ih h)

theorem mem_succs_rest (reps : List Nat) (a b : Re) (rest : List (Re × Re)) (q : Re × Re) (h : q ∈ rest) :
    q ∈ succs reps a b rest := by
  induction reps with
  | nil => exact h
  | cons c cs ih =>
    simp only [succs, List.foldr_cons]
    exact List.mem_cons_of_mem _ ih

theorem mem_succs (reps : List Nat) (a b : Re) (rest : List (Re × Re)) (c : Nat) (h : c ∈ reps) :
    (nderiv c a, nderiv c b) ∈ succs reps a b rest := by
  induction reps with
  | nil => cases h
  | cons d cs ih =>
    simp only [succs, List.foldr_cons]
    rcases List.mem_cons.mp h with rfl | h
    · exact List.mem_cons_self
    · exact List.mem_cons_of_mem _ (ih h)

/-- a successful run leaves a set of pairs that contains everything seen or still to do, on which every
not-already-seen pair agrees on `nullable` and has all its `reps`-successors in the set -/
theorem equivLoop_inv (reps : List Nat) : ∀ (fuel : Nat) (todo seen : List (Re × Re)),
    equivLoop reps fuel todo seen = true →
    ∃ S : List (Re × Re), (∀ p ∈ seen, p ∈ S) ∧ (∀ p ∈ todo, p ∈ S) ∧
      ∀ p ∈ S, p ∉ seen →
        nullable p.1 = nullable p.2 ∧ ∀ c ∈ reps, (nderiv c p.1, nderiv c p.2) ∈ S := by
  intro fuel
  induction fuel with
  | zero => intro todo seen h; simp [equivLoop] at h
  | succ fuel ih =>
    intro todo seen h
    cases todo with
    | nil =>
      refine ⟨seen, fun p hp => hp, fun p hp => ?_, fun p hp hn => absurd hp hn⟩
      cases hp
    | cons p rest =>
      simp only [equivLoop] at h
      cases hm : pairMem p.1 p.2 seen with
      | true =>
        rw [hm, if_pos rfl] at h
        obtain ⟨S, hseen, htodo, hS⟩ := ih rest seen h
        refine ⟨S, hseen, ?_, hS⟩
        intro q hq
        rcases List.mem_cons.mp hq with rfl | hq
        · exact hseen _ (pairMem_mem _ _ seen hm)
        · exact htodo q hq
      | false =>
        rw [hm, if_neg (by simp)] at h
        cases hnul : (nullable p.1 == nullable p.2) with
        | false => rw [hnul, if_neg (by simp)] at h; cases h
        | true =>
          rw [hnul, if_pos rfl] at h
          obtain ⟨S, hseen, htodo, hS⟩ := ih _ _ h
          have hpS : p ∈ S := hseen p List.mem_cons_self
          refine ⟨S, fun q hq => hseen q (List.mem_cons_of_mem _ hq), ?_, ?_⟩
          · intro q hq
            rcases List.mem_cons.mp hq with rfl | hq
            · exact hpS
            · exact htodo q (mem_succs_rest reps _ _ rest q hq)
          · intro q hq hnot
            by_cases hqp : q = p
            · subst hqp
              refine ⟨by simpa using hnul, fun c hc => ?_⟩
              exact htodo _ (mem_succs reps _ _ rest c hc)
            · apply hS q hq
              intro hmem
              rcases List.mem_cons.mp hmem with e | hmem
              · exact hqp e
              · exact hnot hmem

/-! ### bisimulation -/

/-- a relation on which `nullable` agrees and that is closed under `nderiv c` for every byte `c` only relates
expressions with the same language -/
theorem bisim_matches (R : Re → Re → Prop)
    (hnull : ∀ a b, R a b → nullable a = nullable b)
    (hstep : ∀ a b, R a b → ∀ c, R (nderiv c a) (nderiv c b)) :
    ∀ (s : List Nat) (a b : Re), R a b → Rx.matches a s = Rx.matches b s := by
  intro s
  induction s with
  | nil => intro a b h; exact hnull a b h
  | cons c s ih =>
    intro a b h
    rw [← matches_nderiv, ← matches_nderiv]
    exact ih _ _ (hstep a b h c)

/-- **soundness of the checker**: a `true` answer means the two expressions match exactly the same byte strings
(bytes are arbitrary naturals) -/
theorem equivCheck_sound (fuel : Nat) (r₁ r₂ : Re) (h : equivCheck fuel r₁ r₂ = true) :
    ∀ s : List Nat, Rx.matches r₁ s = Rx.matches r₂ s := by
  obtain ⟨S, _, htodo, hS⟩ := equivLoop_inv _ _ _ _ h
  let M := mentioned r₁ ++ mentioned r₂
  have hreps : repsOf r₁ r₂ = fresh M :: dedup M := rfl
  let R : Re → Re → Prop := fun a b =>
    (a, b) ∈ S ∧ (∀ x ∈ mentioned a, x ∈ M) ∧ (∀ x ∈ mentioned b, x ∈ M)
  have hR₀ : R r₁ r₂ :=
    ⟨htodo _ List.mem_cons_self, fun x hx => List.mem_append_left _ hx, fun x hx => List.mem_append_right _ hx⟩
  have hnull : ∀ a b, R a b → nullable a = nullable b := fun a b hab =>
    (hS (a, b) hab.1 (by simp)).1
  have hstep : ∀ a b, R a b → ∀ c, R (nderiv c a) (nderiv c b) := by
    intro a b ⟨hab, ha, hb⟩ c
    refine ⟨?_, fun x hx => ha x (mentioned_nderiv c a x hx), fun x hx => hb x (mentioned_nderiv c b x hx)⟩
    have hsucc := (hS (a, b) hab (by simp)).2
    by_cases hc : c ∈ M
    · apply hsucc c
      rw [hreps]
      exact List.mem_cons_of_mem _ (mem_dedup M c hc)
    · have hf : fresh M ∉ M := fresh_not_mem M
      have ea : nderiv c a = nderiv (fresh M) a :=
        nderiv_unmentioned c (fresh M) a (fun hx => hc (ha c hx)) (fun hx => hf (ha _ hx))
      have eb : nderiv c b = nderiv (fresh M) b :=
        nderiv_unmentioned c (fresh M) b (fun hx => hc (hb c hx)) (fun hx => hf (hb _ hx))
      rw [ea, eb]
      apply hsucc (fresh M)
      rw [hreps]
      exact List.mem_cons_self
  intro s
  exact bisim_matches R hnull hstep s r₁ r₂ hR₀

end EspadaVerif.Rx
